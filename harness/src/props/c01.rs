//! C01 — text tape mirrors the document's structure regardless of layout
//! (+ the text half of C06: structural soundness, + the text-tape part of C19: truncation).
//!
//! ops (answered by the model as well):
//!   ttape <hex>                 `ok <tape> bom:<0|1>` | `err:eof` | `err:syntax` | `err:stack`
//!   ttapeoff <hex>              same with scalars as `<kind>@<offset>+<len>`
//!   tfaith <hex> <tape>         = ttape; L3: the real tape equals the expected tape in the case line
//!   tlay <hexA> <hexB> <hexC>   `eq:<0|1> <result of C>`; L3: the three tapes are equal
//!   treuse <hexPrev> <hex>      = ttape of <hex>, parsed into a tape that held <hexPrev> before; L3: == fresh
//!   split|splitfb <hex>         `<scalar len> <rest len>`; L3: split == splitfb
//!   quote|quotefb <hex>         `<scalar len> <rest len>` | `err`; L3: quote == quotefb
//!   spec_full <doc> <gt> <hex> `<ttapeoff line> render:1 model:1`: <doc> = prefix encoding of a document of the full
//!                               document type (Spec/TextDocFull.lean), <gt> its trailing blanks, <hex> its bytes; the
//!                               Lean side answers with the SPEC's expected tape (`ftapeF`) and whether the spec's
//!                               rendering gives <hex> and the model's parse gives the expected tape
//!   wftext <hex>                `wf:<0|1>` | `err`; L3: independent structural check of the real tape
//!   tcut <hex>                  for every prefix length 0..=n `ok:<ntokens>` | `err`, comma separated;
//!                               L3: every successful prefix parse is consistent with the full parse
#![allow(dead_code)]
use crate::common::*;
use crate::docgen::*;
use crate::show;
use jomini::verif_hooks as hooks;
use jomini::{TextTape, TextToken};

// ---------------------------------------------------------------------------------------
// running the real code

fn err_kind(e: &jomini::Error) -> &'static str {
    match e.kind() {
        jomini::ErrorKind::Eof => "err:eof",
        jomini::ErrorKind::StackEmpty { .. } => "err:stack",
        jomini::ErrorKind::InvalidSyntax { .. } => "err:syntax",
        _ => "err:other",
    }
}

fn tape_line(d: &[u8], offsets: bool) -> String {
    match TextTape::from_slice(d) {
        Ok(t) => {
            let body = if offsets { show::text_tape_offsets(d, t.tokens()) } else { show::text_tape(t.tokens()) };
            format!("ok {} bom:{}", body, t.utf8_bom() as u8)
        }
        Err(e) => err_kind(&e).to_string(),
    }
}

fn count_tape(obs: &mut Obs, d: &[u8]) {
    match TextTape::from_slice(d) {
        Ok(t) => {
            obs.count("tape:ok");
            if t.utf8_bom() {
                obs.count("tape:bom");
            }
            let mut depth = 0usize;
            let mut maxd = 0usize;
            for tok in t.tokens() {
                let k = match tok {
                    TextToken::Array { mixed, .. } => { depth += 1; if *mixed { "tok:array-mixed" } else { "tok:array" } }
                    TextToken::Object { mixed, .. } => { depth += 1; if *mixed { "tok:object-mixed" } else { "tok:object" } }
                    TextToken::MixedContainer => "tok:mixed-container",
                    TextToken::Unquoted(_) => "tok:unquoted",
                    TextToken::Quoted(_) => "tok:quoted",
                    TextToken::Parameter(_) => "tok:parameter",
                    TextToken::UndefinedParameter(_) => "tok:undef-parameter",
                    TextToken::Operator(_) => "tok:operator",
                    TextToken::End(_) => { depth = depth.saturating_sub(1); "tok:end" }
                    TextToken::Header(_) => "tok:header",
                };
                maxd = maxd.max(depth);
                obs.count(k);
            }
            obs.count(&format!("depth:{}", maxd.min(6)));
            obs.count(&format!("ntok:{}", match t.tokens().len() { 0 => "0", 1..=4 => "1-4", 5..=16 => "5-16", 17..=64 => "17-64", _ => "65+" }));
        }
        Err(e) => obs.count(&format!("tape:{}", err_kind(&e))),
    }
}

// ---------------------------------------------------------------------------------------
// C06: independent structural check of a real tape (L3 oracle of `wftext`)

/// Returns the first structural defect found, `None` when the tape is sound.
pub fn structural_defect(input: &[u8], toks: &[TextToken]) -> Option<String> {
    let n = toks.len();
    // links both ways, no index 0
    for (i, t) in toks.iter().enumerate() {
        match t {
            TextToken::Array { end, .. } | TextToken::Object { end, .. } => {
                if *end == 0 { return Some(format!("container at {} has end 0", i)); }
                if *end <= i || *end >= n { return Some(format!("container at {} has end {} (len {})", i, end, n)); }
                if toks[*end] != TextToken::End(i) { return Some(format!("container at {}: toks[{}] is not End({})", i, end, i)); }
            }
            TextToken::End(j) => {
                if *j == 0 { return Some(format!("End at {} has index 0", i)); }
                if *j >= i { return Some(format!("End at {} points forward to {}", i, j)); }
                match &toks[*j] {
                    TextToken::Array { end, .. } | TextToken::Object { end, .. } if *end == i => {}
                    _ => return Some(format!("End at {}: toks[{}] does not point back", i, j)),
                }
            }
            _ => {}
        }
    }
    // proper nesting: no two container intervals cross (quadratic on purpose: not the stack pass of the model)
    let spans: Vec<(usize, usize)> = toks.iter().enumerate().filter_map(|(i, t)| match t {
        TextToken::Array { end, .. } | TextToken::Object { end, .. } => Some((i, *end)),
        _ => None,
    }).collect();
    if spans.len() <= 3000 {
        for (a, &(i, e)) in spans.iter().enumerate() {
            for &(i2, e2) in &spans[a + 1..] {
                if i2 > e { break; }
                if i2 < e && e2 > e { return Some(format!("containers [{},{}] and [{},{}] cross", i, e, i2, e2)); }
            }
        }
    }
    // every End is the end of some container is covered above; every index between is covered by spans.
    // scalars: sub-slices of the input, strictly increasing start
    let base = input.as_ptr() as usize;
    let mut prev: Option<usize> = None;
    for (i, t) in toks.iter().enumerate() {
        if let Some(s) = t.as_scalar() {
            let p = s.as_bytes().as_ptr() as usize;
            let l = s.as_bytes().len();
            if p < base || p + l > base + input.len() { return Some(format!("scalar at {} is not inside the input", i)); }
            let off = p - base;
            if let Some(q) = prev { if off <= q { return Some(format!("scalar at {} starts at {} <= previous start {}", i, off, q)); } }
            prev = Some(off);
        }
    }
    grammar_defect(toks)
}

/// C06 (text half), the GRAMMAR of an accepted tape (Lean: `Gr`, Proofs/TextTapeDomWf.lean; theorem
/// `C06_text_object_grammar`): the top level and every Object body is, up to its first MixedContainer, a
/// sequence of `key [Operator] value` with a scalar / parameter key and a value that is a scalar, a container or
/// `Header container`; Array bodies and the part behind a MixedContainer hold values and bare scalar /
/// parameter / Operator / MixedContainer tokens; a Header is directly followed by an Array or Object.
/// Written as a recursive descent over the end links (not the walk of the model).
pub fn grammar_defect(toks: &[TextToken]) -> Option<String> {
    fn container_end(t: &TextToken) -> Option<(usize, bool)> {
        match t {
            TextToken::Array { end, .. } => Some((*end, false)),
            TextToken::Object { end, .. } => Some((*end, true)),
            _ => None,
        }
    }
    // a value starting at `i` inside a range ending at `e`: returns the index behind it
    fn value(toks: &[TextToken], i: usize, e: usize, depth: usize) -> Result<usize, String> {
        if i >= e { return Err(format!("value expected at {} but the body ends at {}", i, e)); }
        match &toks[i] {
            TextToken::Unquoted(_) | TextToken::Quoted(_) => Ok(i + 1),
            TextToken::Header(_) => {
                if i + 1 >= e { return Err(format!("Header at {} is the last token of its body", i)); }
                match container_end(&toks[i + 1]) {
                    Some(_) => container(toks, i + 1, e, depth),
                    None => Err(format!("Header at {} is not followed by a container", i)),
                }
            }
            t if container_end(t).is_some() => container(toks, i, e, depth),
            other => Err(format!("token {:?} at {} where a value is expected", other, i)),
        }
    }
    fn container(toks: &[TextToken], i: usize, e: usize, depth: usize) -> Result<usize, String> {
        let (end, is_obj) = container_end(&toks[i]).unwrap();
        if end <= i || end >= e { return Err(format!("container at {} ends at {} outside its body (..{})", i, end, e)); }
        if depth > 2000 { return Ok(end + 1); }
        if is_obj { object_body(toks, i + 1, end, depth + 1)?; } else { items(toks, i + 1, end, depth + 1)?; }
        Ok(end + 1)
    }
    fn items(toks: &[TextToken], mut i: usize, e: usize, depth: usize) -> Result<(), String> {
        while i < e {
            match &toks[i] {
                TextToken::Unquoted(_) | TextToken::Quoted(_) | TextToken::Parameter(_) | TextToken::UndefinedParameter(_)
                | TextToken::Operator(_) | TextToken::MixedContainer => i += 1,
                TextToken::End(_) => return Err(format!("End at {} inside a value list", i)),
                _ => i = value(toks, i, e, depth)?,
            }
        }
        if i != e { return Err(format!("value list runs over its end {} (at {})", e, i)); }
        Ok(())
    }
    fn object_body(toks: &[TextToken], mut i: usize, e: usize, depth: usize) -> Result<(), String> {
        while i < e {
            match &toks[i] {
                TextToken::MixedContainer => return items(toks, i + 1, e, depth),
                TextToken::Unquoted(_) | TextToken::Quoted(_) | TextToken::Parameter(_) | TextToken::UndefinedParameter(_) => {}
                other => return Err(format!("token {:?} at {} where a key is expected", other, i)),
            }
            let v = if i + 1 < e && matches!(toks[i + 1], TextToken::Operator(_)) { i + 2 } else { i + 1 };
            i = value(toks, v, e, depth)?;
        }
        if i != e { return Err(format!("object body runs over its end {} (at {})", e, i)); }
        Ok(())
    }
    match object_body(toks, 0, toks.len(), 0) {
        Ok(()) => None,
        Err(why) => Some(format!("grammar: {}", why)),
    }
}

// ---------------------------------------------------------------------------------------
// C19: prefix consistency (L3 oracle of `tcut`)

/// flat view of one top-level group: (tag, offset, len); containers contribute their start tag
/// (with the mixed flag), End contributes "E".
fn flat(input: &[u8], toks: &[TextToken]) -> Vec<(String, usize, usize)> {
    let base = input.as_ptr() as usize;
    toks.iter().map(|t| {
        let sc = |tag: &str, s: &jomini::Scalar| (tag.to_string(), (s.as_bytes().as_ptr() as usize).wrapping_sub(base), s.as_bytes().len());
        match t {
            TextToken::Array { mixed, .. } => (format!("A{}", *mixed as u8), 0, 0),
            TextToken::Object { mixed, .. } => (format!("O{}", *mixed as u8), 0, 0),
            TextToken::MixedContainer => ("M".into(), 0, 0),
            TextToken::Operator(o) => (format!("Op:{}", show::op_name(*o)), 0, 0),
            TextToken::End(_) => ("E".into(), 0, 0),
            TextToken::Unquoted(s) => sc("U", s),
            TextToken::Quoted(s) => sc("Q", s),
            TextToken::Parameter(s) => sc("P", s),
            TextToken::UndefinedParameter(s) => sc("N", s),
            TextToken::Header(s) => sc("H", s),
        }
    }).collect()
}

/// split a tape into top-level groups (a container with everything up to its End is one group)
fn groups(toks: &[TextToken]) -> Option<Vec<(usize, usize)>> {
    let mut out = vec![];
    let mut i = 0;
    while i < toks.len() {
        match &toks[i] {
            TextToken::Array { end, .. } | TextToken::Object { end, .. } => {
                if *end <= i || *end >= toks.len() { return None; }
                out.push((i, *end + 1));
                i = *end + 1;
            }
            _ => { out.push((i, i + 1)); i += 1; }
        }
    }
    Some(out)
}

/// `Some(reason)` when the tape of the prefix `full[..k]` is not consistent with the tape of `full`.
fn prefix_inconsistent(full: &[u8], k: usize, pt: &[TextToken], ft: &[TextToken]) -> Option<String> {
    let (pg, fg) = match (groups(pt), groups(ft)) { (Some(a), Some(b)) => (a, b), _ => return Some("unsound tape".into()) };
    if pg.len() > fg.len() { return Some(format!("prefix has {} top-level groups, the document {}", pg.len(), fg.len())); }
    let pf = |r: (usize, usize)| flat(full, &pt[r.0..r.1]);
    let ff = |r: (usize, usize)| flat(full, &ft[r.0..r.1]);
    for (gi, r) in pg.iter().enumerate() {
        let a = pf(*r);
        let b = ff(fg[gi]);
        if gi + 1 < pg.len() {
            if a != b { return Some(format!("completed top-level group {} differs", gi)); }
            continue;
        }
        // the last group: equal, or a cut version
        if a == b { break; }
        let mut a2 = a.clone();
        let is_container = a2[0].0.starts_with('A') || a2[0].0.starts_with('O');
        if is_container { a2.pop(); } // the auto-close End
        if a2.len() > b.len() { return Some("cut group is longer than the original".into()); }
        for (j, x) in a2.iter().enumerate() {
            let y = &b[j];
            let last = j + 1 == a2.len();
            let container_start = j == 0 && is_container;
            if x == y { continue; }
            if container_start && (y.0.starts_with('A') || y.0.starts_with('O')) { continue; } // kind/mixed of the cut container may change
            let scalarish = |t: &str| t == "U" || t == "H";
            // the value being cut: same start; either the same bytes (only the kind changes: a scalar becomes a
            // header through the `{` behind the cut) or a proper prefix that reaches the cut
            if last && scalarish(&x.0) && scalarish(&y.0) && x.1 == y.1 && (x.2 == y.2 || (x.2 < y.2 && x.1 + x.2 == k)) { continue; }
            return Some(format!("token {} of the cut group differs: {:?} vs {:?}", j, x, y));
        }
    }
    // nothing reaches beyond the cut
    for t in pt {
        if let Some(s) = t.as_scalar() {
            let off = (s.as_bytes().as_ptr() as usize).wrapping_sub(full.as_ptr() as usize);
            if off + s.as_bytes().len() > k { return Some("scalar extends beyond the cut".into()); }
        }
    }
    None
}

// ---------------------------------------------------------------------------------------
// expected tape of a document: independent transcription (faithfulness oracle)

#[derive(Clone, Debug, PartialEq)]
pub enum ET { A(usize, bool), O(usize, bool), E(usize), M, U(Vec<u8>), Q(Vec<u8>), P(Vec<u8>), N(Vec<u8>), H(Vec<u8>), Op(Op) }

pub fn et_string(ts: &[ET]) -> String {
    if ts.is_empty() { return "-".into(); }
    ts.iter().map(|t| match t {
        ET::A(e, m) => format!("A{}{}", if *m { "m" } else { "" }, e),
        ET::O(e, m) => format!("O{}{}", if *m { "m" } else { "" }, e),
        ET::E(i) => format!("E{}", i),
        ET::M => "M".to_string(),
        ET::U(b) => format!("U:{}", hex(b)),
        ET::Q(b) => format!("Q:{}", hex(b)),
        ET::P(b) => format!("P:{}", hex(b)),
        ET::N(b) => format!("N:{}", hex(b)),
        ET::H(b) => format!("H:{}", hex(b)),
        ET::Op(o) => format!("Op:{}", o.name()),
    }).collect::<Vec<_>>().join(",")
}

#[derive(Default)]
pub struct TapeBuilder { pub out: Vec<ET> }
impl TapeBuilder {
    fn leaf(&mut self, l: &Leaf) {
        let (b, q) = leaf_text(l);
        if q { self.out.push(ET::Q(b[1..b.len() - 1].to_vec())); } else { self.out.push(ET::U(b)); }
    }
    pub fn field(&mut self, f: &Field) {
        // ghost `{}` in key position leave no trace
        self.leaf(&f.key);
        if f.op != Op::Eq { self.out.push(ET::Op(f.op)); }
        self.value(&f.val, true);
    }
    fn is_empty_container(n: &Node) -> bool {
        matches!(n, Node::Arr(v) if v.is_empty()) || matches!(n, Node::Obj(v) if v.is_empty())
    }
    /// `in_object`: value position of a field (a scalar directly followed by `{` is a header there);
    /// in an array the same bytes are a plain scalar followed by a container.
    fn value(&mut self, n: &Node, in_object: bool) {
        match n {
            Node::Leaf(l) => self.leaf(l),
            Node::Header(h, body) => {
                self.out.push(if in_object { ET::H(h.clone()) } else { ET::U(h.clone()) });
                self.value(body, false);
            }
            Node::Rgb(r, g, b, a) => {
                self.out.push(if in_object { ET::H(b"rgb".to_vec()) } else { ET::U(b"rgb".to_vec()) });
                let i = self.out.len();
                self.out.push(ET::A(0, false));
                for c in [Some(*r), Some(*g), Some(*b), *a].iter().flatten() { self.out.push(ET::U(c.to_string().into_bytes())); }
                let e = self.out.len();
                self.out[i] = ET::A(e, false);
                self.out.push(ET::E(i));
            }
            Node::Obj(fs) if fs.is_empty() => { let i = self.out.len(); self.out.push(ET::A(i + 1, false)); self.out.push(ET::E(i)); }
            Node::Obj(fs) => {
                let i = self.out.len();
                self.out.push(ET::O(0, false));
                for f in fs { self.field(f); }
                let e = self.out.len();
                self.out[i] = ET::O(e, false);
                self.out.push(ET::E(i));
            }
            Node::Arr(vs) => {
                let i = self.out.len();
                self.out.push(ET::A(0, false));
                // empty `{}` at the very start of a container are ghosts (the parser cannot know the kind yet)
                let mut leading = true;
                for v in vs {
                    if leading && Self::is_empty_container(v) { continue; }
                    leading = false;
                    self.value(v, false);
                }
                let e = self.out.len();
                self.out[i] = ET::A(e, false);
                self.out.push(ET::E(i));
            }
            Node::Mixed(fs, rest) => {
                let i = self.out.len();
                self.out.push(ET::O(0, true));
                for f in fs { self.field(f); }
                self.out.push(ET::M);
                for v in rest { self.value(v, false); }
                let e = self.out.len();
                self.out[i] = ET::O(e, true);
                self.out.push(ET::E(i));
            }
        }
    }
}

pub fn tape_of(doc: &Doc) -> Vec<ET> {
    let mut b = TapeBuilder::default();
    for f in &doc.fields { b.field(f); }
    b.out
}

/// `?=` / `!=` on the FIRST field of a nested container (the ParseOpen peek has to look at two
/// bytes for these); counted so that the evidence shows the generator reaches it.
pub fn has_first_field_operator(doc: &Doc) -> bool {
    fn field(f: &Field) -> bool { node(&f.val) }
    fn fields(fs: &[Field]) -> bool {
        fs.first().map_or(false, |f| matches!(f.op, Op::Ne | Op::Exists)) || fs.iter().any(field)
    }
    fn node(n: &Node) -> bool {
        match n {
            Node::Leaf(_) | Node::Rgb(..) => false,
            Node::Obj(fs) => fields(fs),
            Node::Arr(vs) => vs.iter().any(node),
            Node::Header(_, b) => node(b),
            Node::Mixed(fs, rest) => fields(fs) || rest.iter().any(node),
        }
    }
    doc.fields.iter().any(field)
}

/// `b{ .. }` as the first field of a nested container is lexically an array `[b, {..}]`; the
/// optional `=` is therefore only a layout choice from the second field on.  Returns the number
/// of fields changed.
pub fn normalise(doc: &mut Doc) -> usize {
    fn fields(fs: &mut [Field], nested: bool) -> usize {
        let mut n = 0;
        for (i, f) in fs.iter_mut().enumerate() {
            if nested && i == 0 && f.implicit_eq { f.implicit_eq = false; n += 1; }
            n += node(&mut f.val);
        }
        n
    }
    fn node(nd: &mut Node) -> usize {
        match nd {
            Node::Leaf(_) | Node::Rgb(..) => 0,
            Node::Obj(fs) => fields(fs, true),
            Node::Arr(vs) => vs.iter_mut().map(node).sum(),
            Node::Header(_, b) => node(b),
            Node::Mixed(fs, rest) => fields(fs, true) + rest.iter_mut().map(node).sum::<usize>(),
        }
    }
    fields(&mut doc.fields, false)
}

// ---------------------------------------------------------------------------------------
// documents with parameter blocks and variables (lexemes + expected tape)

/// A document as a lexeme list plus its expected tape.  Parameter openers `[[x]` / `[[!x]` and the
/// closing `]` travel as `Lex::Scalar(.., true)` so that the layout keeps them in one piece.
pub struct LexDoc { pub lex: Vec<Lex>, pub tape: Vec<ET>, pub first_field_op: bool }

fn plain_key(rng: &mut Rng) -> Vec<u8> { rng.pick(&KEY_POOL).as_bytes().to_vec() }

fn shift(ts: Vec<ET>, by: usize) -> Vec<ET> {
    ts.into_iter().map(|t| match t { ET::A(e, m) => ET::A(e + by, m), ET::O(e, m) => ET::O(e + by, m), ET::E(i) => ET::E(i + by), o => o }).collect()
}

fn append_fields(out: &mut LexDoc, fs: &[Field]) {
    for f in fs {
        let d = Doc { fields: vec![f.clone()] };
        out.lex.extend(lexemes(&d));
        let t = shift(tape_of(&d), out.tape.len());
        out.tape.extend(t);
    }
}

/// `[[x] key op value … ]` (object form) or `[[x] value ]` (value form) at the current position
fn append_param_block(rng: &mut Rng, cfg: &DocCfg, out: &mut LexDoc) {
    let undefined = rng.chance(1, 3);
    let name = plain_key(rng);
    let mut opener = if undefined { b"[[!".to_vec() } else { b"[[".to_vec() };
    opener.extend_from_slice(&name);
    opener.push(b']');
    out.lex.push(Lex::Scalar(opener, true));
    out.tape.push(if undefined { ET::N(name) } else { ET::P(name) });
    if rng.chance(1, 4) {
        // value form
        let v = plain_key(rng);
        out.lex.push(Lex::Scalar(v.clone(), false));
        out.tape.push(ET::U(v));
        out.lex.push(Lex::Scalar(b"]".to_vec(), true));
        return;
    }
    let i = out.tape.len();
    out.tape.push(ET::O(0, false));
    let n = 1 + rng.size(2);
    let mut fs: Vec<Field> = (0..n).map(|_| {
        let mut d = gen_doc(rng, &DocCfg { max_fields: 0, ..cfg.clone() });
        while d.fields.is_empty() { d = gen_doc(rng, cfg); }
        d.fields.truncate(1);
        normalise(&mut d);
        d.fields.pop().unwrap()
    }).collect();
    // the first key is read with split_at_scalar whatever it starts with: keep it a plain unquoted key
    fs[0].key = Leaf::Unq(plain_key(rng));
    fs[0].ghosts = 0;
    if fs.iter().any(|f| has_first_field_operator(&Doc { fields: vec![f.clone()] })) { out.first_field_op = true; }
    append_fields(out, &fs);
    let e = out.tape.len();
    out.tape[i] = ET::O(e, false);
    out.tape.push(ET::E(i));
    out.lex.push(Lex::Scalar(b"]".to_vec(), true));
}

/// documents with parameter blocks at top level and as the first thing inside a container
pub fn gen_param_doc(rng: &mut Rng, cfg: &DocCfg) -> LexDoc {
    let mut out = LexDoc { lex: vec![], tape: vec![], first_field_op: false };
    let mut pre = gen_doc(rng, cfg);
    normalise(&mut pre);
    pre.fields.truncate(2);
    out.first_field_op |= has_first_field_operator(&pre);
    append_fields(&mut out, &pre.fields);
    if rng.chance(1, 2) {
        append_param_block(rng, cfg, &mut out);
    } else {
        // key = { [[x] … ] more fields }
        let k = plain_key(rng);
        out.lex.push(Lex::Scalar(k.clone(), false));
        out.lex.push(Lex::Op(Op::Eq));
        out.lex.push(Lex::Open);
        out.tape.push(ET::U(k));
        let i = out.tape.len();
        out.tape.push(ET::O(0, false));
        append_param_block(rng, cfg, &mut out);
        let mut more = gen_doc(rng, cfg);
        normalise(&mut more);
        more.fields.truncate(2);
        out.first_field_op |= has_first_field_operator(&more);
        append_fields(&mut out, &more.fields);
        out.lex.push(Lex::Close);
        let e = out.tape.len();
        out.tape[i] = ET::O(e, false);
        out.tape.push(ET::E(i));
    }
    let mut post = gen_doc(rng, cfg);
    normalise(&mut post);
    post.fields.truncate(2);
    out.first_field_op |= has_first_field_operator(&post);
    append_fields(&mut out, &post.fields);
    out
}

fn gen_lexdoc(g: &mut Gen) -> LexDoc {
    let cfg = DocCfg::text_full();
    if g.rng.chance(1, 6) {
        g.count("doc:param-block");
        return gen_param_doc(&mut g.rng, &cfg);
    }
    let mut doc = gen_doc(&mut g.rng, &cfg);
    let changed = normalise(&mut doc);
    if changed > 0 { g.count("doc:first-field-implicit-eq-normalised"); }
    let first_field_op = has_first_field_operator(&doc);
    g.count("doc:plain");
    LexDoc { lex: lexemes(&doc), tape: tape_of(&doc), first_field_op }
}

// ---------------------------------------------------------------------------------------
// generators

fn scalar_pool(g: &mut Gen) -> Vec<u8> {
    // unquoted-looking byte strings of every length 1..40, with a boundary somewhere or nowhere
    let len = g.rng.range(1, 40);
    let mut v: Vec<u8> = (0..len).map(|_| match g.rng.below(20) {
        0 => *g.rng.pick(b"!?;@\"\\'"),
        1 => *g.rng.pick(&[0xe9u8, 0xff, 0x80, 0x0b, 0x0c, 0x08, 0x00]),
        _ => b'a' + g.rng.below(26) as u8,
    }).collect();
    if g.rng.chance(1, 2) {
        let p = g.rng.below(v.len());
        v[p] = *g.rng.pick(b"\t\n\x0b\x0c\r !#<=>[]{}");
    }
    v
}

fn quoted_pool(g: &mut Gen) -> Vec<u8> {
    let len = g.rng.below(41);
    let mut v = vec![b'"'];
    for _ in 0..len {
        match g.rng.below(16) {
            0 => v.push(b'\\'),
            1 => v.extend_from_slice(b"\\\""),
            2 => v.extend_from_slice(b"\\\\"),
            _ => v.push(b'a' + g.rng.below(26) as u8),
        }
    }
    if g.rng.chance(5, 6) { v.push(b'"'); }
    v
}

fn gen_hooks(g: &mut Gen, n: usize) {
    // every single byte at every position of a 1..=40 byte scalar followed by 0..=40 trailing bytes (sampled)
    for _ in 0..n {
        let mut s = scalar_pool(g);
        let trailing = g.rng.below(41);
        for _ in 0..trailing { s.push(if g.rng.chance(1, 10) { *g.rng.pick(b" =}!\x0b") } else { b'x' }); }
        g.count("hook:split");
        g.emit(format!("split {}", hex(&s)));
        g.emit(format!("splitfb {}", hex(&s)));
        let mut q = quoted_pool(g);
        let trailing = g.rng.below(41);
        for _ in 0..trailing { q.push(if g.rng.chance(1, 8) { *g.rng.pick(b"\"\\ ") } else { b'y' }); }
        g.count("hook:quote");
        g.emit(format!("quote {}", hex(&q)));
        g.emit(format!("quotefb {}", hex(&q)));
    }
    // exhaustive: one special byte at each position 0..36 of a 37..=53 byte run, all 256 bytes at three positions
    for b in 0..=255u8 {
        for pos in [0usize, 1, 15, 16, 17, 31, 32, 33] {
            let mut s = vec![b'a'; pos];
            s.push(b);
            s.extend_from_slice(&[b'a'; 20]);
            g.emit(format!("split {}", hex(&s)));
        }
    }
    for pos in 0..36 {
        for total in [pos + 1, pos + 2, pos + 16, pos + 17, pos + 18] {
            for special in [b'"', b'\\'] {
                let mut s = vec![b'"'];
                s.extend(std::iter::repeat(b'a').take(pos));
                s.push(special);
                while s.len() < total + 1 { s.push(b'a'); }
                s.push(b'"');
                g.emit(format!("quote {}", hex(&s)));
                g.emit(format!("quotefb {}", hex(&s)));
            }
        }
    }
    g.emit("splitfb -".to_string());
    g.emit("quotefb -".to_string());
}

/// structured documents under several layouts: layout independence, faithfulness, reuse
fn gen_docs(g: &mut Gen, n: usize) {
    let lay = LayoutCfg::full();
    for _ in 0..n {
        let d = gen_lexdoc(g);
        let canon = render_canonical(&d.lex);
        let a = render_layout(&mut g.rng, &lay, &d.lex);
        let b = render_layout(&mut g.rng, &lay, &d.lex);
        let expected = et_string(&d.tape);
        if d.first_field_op { g.count("doc:first-field-operator"); }
        g.count(&format!("doc:bytes:{}", match canon.len() { 0 => "0", 1..=31 => "1-31", 32..=127 => "32-127", 128..=511 => "128-511", _ => "512+" }));
        g.emit(format!("tfaith {} {}", hex(&canon), expected));
        g.emit(format!("tlay {} {} {}", hex(&a), hex(&b), hex(&canon)));
        g.emit(format!("ttapeoff {}", hex(&a)));
        if g.rng.chance(1, 3) {
            let prev = gen_lexdoc(g);
            let prev_bytes = render_layout(&mut g.rng, &lay, &prev.lex);
            g.emit(format!("treuse {} {}", hex(&prev_bytes), hex(&b)));
        }
    }
}

/// scalar lengths swept across 1..40 with 0..20 trailing bytes and left padding 0..32
fn gen_alignment(g: &mut Gen) {
    for len in 1..=40usize {
        for trailing in [0usize, 1, 2, 14, 15, 16, 17, 18, 20] {
            let pad = g.rng.below(33);
            let key: Vec<u8> = (0..len).map(|i| b'a' + (i % 26) as u8).collect();
            let mut s = vec![b' '; pad];
            s.extend_from_slice(&key);
            s.push(b'=');
            s.push(b'"');
            s.extend_from_slice(&key);
            s.push(b'"');
            s.extend(std::iter::repeat(b' ').take(trailing));
            g.emit(format!("ttapeoff {}", hex(&s)));
            let mut s2 = vec![b'\n'; pad];
            s2.extend_from_slice(&key);
            s2.extend_from_slice(b"!=");
            s2.extend_from_slice(&key);
            s2.extend(std::iter::repeat(b'\n').take(trailing));
            g.emit(format!("ttapeoff {}", hex(&s2)));
        }
    }
}

fn malformed(g: &mut Gen) -> Vec<u8> {
    let lay = LayoutCfg::full();
    match g.rng.below(10) {
        0..=4 => {
            let d = gen_lexdoc(g);
            let base = if g.rng.chance(1, 2) { render_canonical(&d.lex) } else { render_layout(&mut g.rng, &lay, &d.lex) };
            g.count("malformed:mutated-doc");
            mutate(&mut g.rng, &base, TEXT_ALPHABET)
        }
        5 | 6 => { g.count("malformed:random-text"); random_text(&mut g.rng, 24) }
        7 => { g.count("malformed:random-text-long"); random_text(&mut g.rng, 80) }
        8 => {
            // tolerated malformations: stray closers, a missing closer, operators in arrays, parameter blocks cut short
            g.count("malformed:tolerated");
            let frag: [&[u8]; 16] = [b"a=b", b"}", b"{", b"a={b=c", b"a={1 2", b"[[x] a=b", b"[[x]", b"]", b"a={b=c d}", b"a={b c=d}", b"x={1 =2}", b"{}", b"a=rgb{1 2 3}", b"a = { {} b=c }", b"@[x", b"\"q"];
            let k = 1 + g.rng.below(4);
            let mut v = vec![];
            for _ in 0..k { let f: &[u8] = frag[g.rng.below(frag.len())]; v.extend_from_slice(f); v.push(*g.rng.pick(b"  \n}=")); }
            v
        }
        _ => {
            g.count("malformed:truncated-doc");
            let d = gen_lexdoc(g);
            let mut base = render_layout(&mut g.rng, &lay, &d.lex);
            let p = g.rng.below(base.len() + 1);
            base.truncate(p);
            base
        }
    }
}

/// exhaustive short strings over a small significant alphabet
fn gen_exhaustive(g: &mut Gen, maxlen: usize) {
    let alpha: &[u8] = b"a={}\" #[]!<@\\;";
    let mut cur: Vec<usize> = vec![];
    // all strings of length 0..=maxlen
    for len in 0..=maxlen {
        cur.clear();
        cur.resize(len, 0);
        loop {
            let s: Vec<u8> = cur.iter().map(|&i| alpha[i]).collect();
            g.emit(format!("wftext {}", hex(&s)));
            g.emit(format!("ttape {}", hex(&s)));
            let mut k = len;
            let mut done = true;
            while k > 0 {
                k -= 1;
                cur[k] += 1;
                if cur[k] < alpha.len() { done = false; break; }
                cur[k] = 0;
            }
            if done { break; }
        }
    }
}

// ---------------------------------------------------------------------------------------
// documents of the FULL document type (lean/JominiModel/Spec/TextDocFull.lean: FVal / FFirst /
// FFields / FVals / FItems) with their layout.  The builder writes the bytes and the prefix
// encoding of the document (what `spec_full` hands to the Lean driver) in one pass; the gaps obey
// the validity conditions of the spec (`FValidF`): an unquoted scalar is followed by a boundary
// byte, a gap behind it never starts with ';', `?=` keeps apart from an unquoted key.

const F_UNQ: [&str; 14] = ["a", "b", "name", "id", "k17", "yes", "no", "10", "0", "2", "-3", "1444.11.11", "0.500", "@var"];
const F_QUO: [&str; 6] = ["", "x y", "a=b", "{ # }", "esc\\\"q", "long quoted scalar text"];
const F_HDR: [&str; 4] = ["rgb", "hsv", "hsv360", "LIST"];
const F_PNAME: [&str; 3] = ["x", "scope", "var_1"];

pub struct FullB<'a> {
    rng: &'a mut Rng,
    pub bytes: Vec<u8>,
    pub enc: Vec<String>,
    prev_unq: bool,
}

fn hex_or_dash(b: &[u8]) -> String { if b.is_empty() { "-".into() } else { hex(b) } }

impl<'a> FullB<'a> {
    pub fn new(rng: &'a mut Rng) -> Self { FullB { rng, bytes: vec![], enc: vec![], prev_unq: false } }
    fn tag(&mut self, t: &str) { self.enc.push(t.to_string()); }
    fn lit(&mut self, b: &[u8]) { self.bytes.extend_from_slice(b); self.prev_unq = false; }
    /// a gap (blanks, CR/LF, ';', comments); `next_boundary`: the lexeme behind it starts with a boundary byte
    fn gap_bytes(&mut self, next_boundary: bool) -> Vec<u8> {
        let mut out: Vec<u8> = vec![];
        let n = match self.rng.below(10) { 0..=4 => 1, 5..=7 => 0, 8 => 2, _ => 1 + self.rng.below(3) };
        for _ in 0..n {
            match self.rng.below(12) {
                0..=4 => out.push(b' '),
                5 => out.push(b'\t'),
                6 | 7 => out.push(b'\n'),
                8 => out.extend_from_slice(b"\r\n"),
                9 => { if self.prev_unq && out.is_empty() { out.push(b' '); } out.push(b';') }
                10 => {
                    out.push(b'#');
                    let k = self.rng.below(8);
                    for _ in 0..k { out.push(*self.rng.pick(b"abc {}=\"#x\\[]")); }
                    out.push(b'\n');
                }
                _ => out.push(b' '),
            }
        }
        if self.prev_unq && !next_boundary && out.is_empty() { out.push(b' '); }
        out
    }
    fn gap(&mut self, next_boundary: bool) {
        let g = self.gap_bytes(next_boundary);
        self.enc.push(hex_or_dash(&g));
        if !g.is_empty() { self.bytes.extend_from_slice(&g); self.prev_unq = false; }
    }
    fn empty_gap(&mut self) { self.enc.push("-".into()); }
    fn scal_of(&mut self, quoted: bool, b: &[u8]) {
        self.enc.push(format!("{}{}", if quoted { "q" } else { "u" }, hex(b)));
        if quoted { self.bytes.push(b'"'); self.bytes.extend_from_slice(b); self.bytes.push(b'"'); self.prev_unq = false; }
        else { self.bytes.extend_from_slice(b); self.prev_unq = true; }
    }
    /// gap + scalar (the gap knows whether the scalar is quoted: a quote is not a boundary byte)
    fn gap_scal(&mut self, allow_quoted: bool) {
        let quoted = allow_quoted && self.rng.chance(1, 4);
        let b: Vec<u8> = if quoted { self.rng.pick(&F_QUO).as_bytes().to_vec() } else { self.rng.pick(&F_UNQ).as_bytes().to_vec() };
        self.gap(false);
        self.scal_of(quoted, &b);
    }
    fn op(&mut self, allow_exists: bool) -> Op {
        let o = loop {
            let o = if self.rng.chance(3, 5) { Op::Eq } else { *self.rng.pick(&Op::ALL) };
            if allow_exists || o != Op::Exists { break o; }
        };
        o
    }
    fn op_name(o: Op) -> &'static str {
        match o { Op::Eq => "eq", Op::Lt => "lt", Op::Le => "le", Op::Gt => "gt", Op::Ge => "ge", Op::Ne => "ne", Op::Exact => "ex", Op::Exists => "xs" }
    }
    /// gap + operator
    fn gap_op(&mut self, allow_exists: bool) {
        let o = self.op(allow_exists);
        // '?' is not a boundary byte; every other operator starts with one
        self.gap(o != Op::Exists);
        self.enc.push(Self::op_name(o).to_string());
        self.lit(o.symbol().as_bytes());
    }

    // ---- values -------------------------------------------------------------------------
    /// any value; `skip_open`: the value is the inside of a `ghostIn` (its gap is empty, its `{` is written already)
    fn value(&mut self, d: usize) {
        if d == 0 || self.rng.chance(2, 5) {
            self.tag("S");
            self.gap_scal(true);
        } else if self.rng.chance(1, 8) {
            self.tag("E");
            self.gap(true); self.lit(b"{"); self.gap(true); self.lit(b"}");
        } else {
            self.container(d, false, false);
        }
    }
    /// a non-empty container; `scalar_led`: its first token behind `{` is a scalar
    fn container(&mut self, d: usize, scalar_led: bool, skip_open: bool) {
        let d1 = d.saturating_sub(1);
        let kind = if scalar_led { *self.rng.pick(&[0usize, 0, 1, 1, 4, 5]) } else { self.rng.below(7) };
        let open = |s: &mut Self| { if skip_open { s.empty_gap(); } else { s.gap(true); s.lit(b"{"); } };
        match kind {
            0 => { // object
                self.tag("O"); open(self);
                self.gap(false); self.first(d1, scalar_led);
                let n = self.rng.below(3); self.fields(d1, n);
                self.gap(true); self.lit(b"}");
            }
            1 => { // array, first element a scalar
                self.tag("A"); open(self);
                self.gap_scal(true);
                let n = self.rng.below(4); self.vals(d1, n);
                self.gap(true); self.lit(b"}");
            }
            2 => { // array, first element a container
                self.tag("C"); open(self);
                self.container(d1, false, false);
                let n = self.rng.below(3); self.vals(d1, n);
                self.gap(true); self.lit(b"}");
            }
            3 => { // ghost `{}` at the start of a braced value
                if skip_open { return self.container(d, scalar_led, skip_open); }
                self.tag("G");
                self.gap(true); self.lit(b"{"); self.gap(true); self.lit(b"{"); self.gap(true); self.lit(b"}");
                if self.rng.chance(1, 6) {
                    self.tag("E"); self.empty_gap(); self.gap(true); self.lit(b"}");
                } else {
                    self.container(d, false, true);
                }
            }
            4 => { // object -> mixed
                self.tag("M"); open(self);
                self.gap(false); self.first(d1, scalar_led);
                let n = self.rng.below(2); self.fields(d1, n);
                self.gap_scal(true);
                let n = self.rng.below(5); self.items(d1, n, true);
                self.gap(true); self.lit(b"}");
            }
            5 => { // array that turns mixed, first element a scalar
                self.tag("X"); open(self);
                self.gap_scal(true);
                let n = self.rng.below(3); self.vals(d1, n);
                self.gap_scal(true);
                self.gap_op(false);
                let n = 1 + self.rng.below(4); self.items(d1, n, true);
                self.gap(true); self.lit(b"}");
            }
            _ => { // array that turns mixed, first element a container
                self.tag("Y"); open(self);
                self.container(d1, false, false);
                let n = self.rng.below(2); self.vals(d1, n);
                self.gap_scal(true);
                self.gap_op(false);
                let n = 1 + self.rng.below(4); self.items(d1, n, true);
                self.gap(true); self.lit(b"}");
            }
        }
    }
    fn first(&mut self, d: usize, scalar_led: bool) {
        let k = if scalar_led { *self.rng.pick(&[0usize, 0, 1]) } else { self.rng.below(6) };
        match k {
            0 | 4 | 5 => {
                self.tag("K");
                // (the gap in front of the key is the object's `g0`, written by the caller)
                let quoted = self.rng.chance(1, 5);
                let b: Vec<u8> = if quoted { self.rng.pick(&F_QUO).as_bytes().to_vec() } else { self.rng.pick(&F_UNQ).as_bytes().to_vec() };
                if quoted && self.prev_unq { /* cannot happen: a `{` or a gap precedes */ }
                self.scal_of(quoted, &b);
                self.gap_op(true);
                self.value(d);
            }
            1 => { self.tag("F"); self.field_hdr(d); let n = self.rng.below(2); self.fields(d, n); }
            2 => { self.tag("F"); self.field_pval(); let n = self.rng.below(2); self.fields(d, n); }
            _ => {
                self.tag("F");
                if self.rng.chance(1, 2) { self.field_pobj(d); } else { self.field_phdr(d); }
                let n = self.rng.below(2); self.fields(d, n);
            }
        }
    }
    fn field_hdr(&mut self, d: usize) {
        self.tag("h");
        self.gap_scal(true); self.gap_op(true);
        let h = self.rng.pick(&F_HDR).as_bytes().to_vec();
        self.gap(false); self.scal_of(false, &h);
        self.container(d, false, false);
    }
    fn param_open(&mut self) {
        self.gap(true);
        let u = self.rng.chance(1, 3);
        let name = self.rng.pick(&F_PNAME).as_bytes().to_vec();
        self.enc.push(if u { "1".into() } else { "0".into() });
        self.enc.push(hex(&name));
        self.lit(b"[["); if u { self.lit(b"!"); }
        self.lit(&name); self.lit(b"]");
    }
    fn field_pval(&mut self) {
        self.tag("p"); self.param_open();
        self.gap_scal(false); self.gap(true); self.lit(b"]");
    }
    fn field_phdr(&mut self, d: usize) {
        self.tag("r"); self.param_open();
        self.gap_scal(false); self.gap(true); self.lit(b"]");
        self.container(d, false, false);
    }
    fn field_pobj(&mut self, d: usize) {
        self.tag("o"); self.param_open();
        self.gap_scal(false); self.gap_op(true);
        self.value(d);
        let n = self.rng.below(2); self.fields(d, n);
        self.gap(true); self.lit(b"]");
    }
    /// `n` fields and the terminator
    fn fields(&mut self, d: usize, n: usize) {
        for _ in 0..n {
            match self.rng.below(12) {
                0..=5 => { self.tag("c"); self.gap_scal(true); self.gap_op(true); self.value(d); }
                6 => {
                    // implicit `=`: the value is braced
                    self.tag("i"); self.gap_scal(true);
                    if d == 0 || self.rng.chance(1, 4) { self.tag("E"); self.gap(true); self.lit(b"{"); self.gap(true); self.lit(b"}"); }
                    else { self.container(d, false, false); }
                }
                7 => { self.tag("g"); self.gap(true); self.lit(b"{"); self.gap(true); self.lit(b"}"); }
                8 if d > 0 => self.field_hdr(d),
                9 => self.field_pval(),
                10 if d > 0 => self.field_pobj(d),
                11 if d > 0 => self.field_phdr(d),
                _ => { self.tag("c"); self.gap_scal(true); self.gap_op(true); self.value(d); }
            }
        }
        self.tag(".");
    }
    fn vals(&mut self, d: usize, n: usize) {
        for _ in 0..n { self.value(d); }
        self.tag(".");
    }
    /// the array part of a container in mixed mode; `first`: the first item is a scalar (what follows
    /// the scalar that opens the array part must not be an operator or a `{`)
    fn items(&mut self, d: usize, n: usize, first: bool) {
        let mut after_op = false;
        for i in 0..n {
            let force_scalar = first && i == 0;
            let r = self.rng.below(10);
            if force_scalar || r < 5 || (after_op && r < 8) {
                self.tag("s"); self.gap_scal(true); after_op = false;
            } else if r < 7 && !after_op && i + 1 < n {
                self.tag("t"); self.gap_op(false); after_op = true;
            } else if d > 0 {
                self.tag("v"); self.container(d, true, false); after_op = false;
            } else {
                self.tag("s"); self.gap_scal(true); after_op = false;
            }
        }
        if after_op { self.tag("s"); self.gap_scal(true); }
        self.tag(".");
    }
}

/// one document of the full type: (prefix encoding, trailing blanks, bytes incl. the trailing blanks)
pub fn gen_full(rng: &mut Rng) -> (String, Vec<u8>, Vec<u8>) {
    let n = 1 + rng.below(4);
    let d = 1 + rng.below(3);
    let mut b = FullB::new(rng);
    b.fields(d, n);
    b.prev_unq_guard();
    let gt = b.trailing();
    let FullB { bytes, enc, .. } = b;
    (enc.join(","), gt, bytes)
}

impl<'a> FullB<'a> {
    fn prev_unq_guard(&mut self) {}
    fn trailing(&mut self) -> Vec<u8> {
        let g = self.gap_bytes(true);
        self.bytes.extend_from_slice(&g);
        g
    }
}

/// the bytes of a random document of the full document type under a random valid layout
/// (for other slices' generators)
pub fn gen_full_doc(rng: &mut Rng) -> Vec<u8> { gen_full(rng).2 }

/// shapes outside the full document type (quirks of the array part of a mixed container)
fn gen_full_quirks(g: &mut Gen) {
    const Q: [&str; 12] = [
        "x={a=b c d {} e f}", "x={a=b c d {} e=f g}", "x={a=b c d { {1} } e}", "x={a=b c d {{} 1} e=f}",
        "x={a=b c d [[p] v] e}", "x={1 2=3 {} 4=5}", "x={1 2=3 { {a} } 4}", "x={ {a} 1 2=3 {} 5 }",
        "x={a=b c d {} }", "x={a=b c d {} } y=z", "a=b c d {} e=f", "x={a=b c d {e} f g=h {} i}",
    ];
    let lay = LayoutCfg::full();
    for q in Q.iter() {
        g.emit(format!("ttape {}", hex(q.as_bytes())));
        g.emit(format!("wftext {}", hex(q.as_bytes())));
        g.emit(format!("tcut {}", hex(q.as_bytes())));
        // the same under random blanks between the bytes that are separated by a blank already
        for _ in 0..4 {
            let mut out = vec![];
            for &c in q.as_bytes() {
                if c == b' ' { let n = 1 + g.rng.below(3); for _ in 0..n { out.push(*g.rng.pick(b" \n\t")); } }
                else { out.push(c); }
            }
            let _ = &lay;
            g.emit(format!("ttape {}", hex(&out)));
        }
    }
}

/// documents of the full document type through every correspondence op, and `spec_full`
pub fn gen_full_docs(g: &mut Gen, n: usize) {
    let mut prev: Vec<u8> = vec![];
    for i in 0..n {
        let (enc, gt, bytes) = gen_full(&mut g.rng);
        if bytes.len() > 600 { continue; }
        g.count("full:doc");
        g.emit(format!("spec_full {} {} {}", enc, hex_or_dash(&gt), hex(&bytes)));
        g.emit(format!("ttape {}", hex(&bytes)));
        if i % 2 == 0 { g.emit(format!("wftext {}", hex(&bytes))); }
        if i % 3 == 0 { g.emit(format!("treuse {} {}", hex_or_dash(&prev), hex(&bytes))); }
        if i % 8 == 0 && bytes.len() <= 200 { g.emit(format!("tcut {}", hex(&bytes))); }
        prev = bytes;
    }
    gen_full_quirks(g);
}

pub fn gen_c01(g: &mut Gen) {
    let n_docs = g.budget(4000, 60_000);
    gen_docs(g, n_docs);
    gen_alignment(g);
    let n_hooks = g.budget(4000, 100_000);
    gen_hooks(g, n_hooks);
    let n_mal = g.budget(15_000, 400_000);
    for _ in 0..n_mal {
        let m = malformed(g);
        g.emit(format!("ttape {}", hex(&m)));
    }
    let n_full = g.budget(2500, 40_000);
    gen_full_docs(g, n_full);
}

/// C06 (text half): any input; emphasis on tolerated malformations
pub fn gen_wf(g: &mut Gen) {
    let lay = LayoutCfg::full();
    let n = g.budget(10_000, 300_000);
    for i in 0..n {
        let bytes = if i % 3 == 0 {
            let d = gen_lexdoc(g);
            render_layout(&mut g.rng, &lay, &d.lex)
        } else {
            malformed(g)
        };
        g.emit(format!("wftext {}", hex(&bytes)));
    }
    // documents of the full document type (mixed containers with containers / operators, arrays that turn mixed, …)
    let nf = g.budget(1500, 30_000);
    for _ in 0..nf {
        let bytes = gen_full_doc(&mut g.rng);
        g.emit(format!("wftext {}", hex(&bytes)));
    }
    let maxlen = g.budget(3, 5);
    gen_exhaustive(g, maxlen);
}

/// C19 (text tape part): every prefix of well-formed documents
pub fn gen_cut(g: &mut Gen) {
    let lay = LayoutCfg { max_trailing: 3, ..LayoutCfg::full() };
    let n = g.budget(700, 20_000);
    for i in 0..n {
        let d = gen_lexdoc(g);
        let bytes = if i % 2 == 0 { render_canonical(&d.lex) } else { render_layout(&mut g.rng, &lay, &d.lex) };
        if bytes.len() > 400 { continue; }
        g.count("cut:doc");
        g.emit(format!("tcut {}", hex(&bytes)));
    }
    let nf = g.budget(250, 6_000);
    for _ in 0..nf {
        let bytes = gen_full_doc(&mut g.rng);
        if bytes.len() > 250 { continue; }
        g.count("cut:full-doc");
        g.emit(format!("tcut {}", hex(&bytes)));
    }
}

pub fn gen(g: &mut Gen) {
    gen_c01(g);
    gen_wf(g);
    gen_cut(g);
}

// ---------------------------------------------------------------------------------------
// exec

fn content_line(d: &[u8]) -> String { tape_line(d, false) }

pub fn exec(w: &[&str], obs: &mut Obs) -> Option<String> {
    let case = w.join(" ");
    match w {
        ["ttape", h] => {
            let d = unhex(h)?;
            count_tape(obs, &d);
            Some(tape_line(&d, false))
        }
        ["ttapeoff", h] => {
            let d = unhex(h)?;
            count_tape(obs, &d);
            Some(tape_line(&d, true))
        }
        ["tfaith", h, expected] => {
            let d = unhex(h)?;
            count_tape(obs, &d);
            let r = tape_line(&d, false);
            let want = format!("ok {} bom:0", expected);
            if r != want {
                obs.violation("faithful", &case, &format!("tape of the canonical rendering is {} but the document's tape is {}", r, want));
            } else {
                obs.count("faithful:ok");
            }
            Some(r)
        }
        ["tlay", ha, hb, hc] => {
            let (a, b, c) = (unhex(ha)?, unhex(hb)?, unhex(hc)?);
            let (ra, rb, rc) = (content_line(&a), content_line(&b), content_line(&c));
            // the BOM flag is a property of the layout, not of the document
            let strip = |s: &str| s.trim_end_matches("bom:1").trim_end_matches("bom:0").to_string();
            let eq = strip(&ra) == strip(&rc) && strip(&rb) == strip(&rc);
            if !eq {
                obs.violation("layout", &case, &format!("A: {} | B: {} | canonical: {}", ra, rb, rc));
            } else {
                obs.count("layout:ok");
            }
            if a.starts_with(&[0xef, 0xbb, 0xbf]) != ra.ends_with("bom:1") && ra.starts_with("ok") {
                obs.violation("bom-flag", &case, &ra);
            }
            Some(format!("eq:{} {}", eq as u8, rc))
        }
        ["treuse", hp, h] => {
            let prev = unhex(hp)?;
            let d = unhex(h)?;
            let fresh = tape_line(&d, true);
            let mut tape = TextTape::new();
            let _ = TextTape::parser().parse_slice_into_tape(&prev, &mut tape);
            obs.count(&format!("reuse:prev-tokens:{}", if tape.tokens().is_empty() { "0" } else { "some" }));
            let reused = match TextTape::parser().parse_slice_into_tape(&d, &mut tape) {
                Ok(()) => format!("ok {} bom:{}", show::text_tape_offsets(&d, tape.tokens()), tape.utf8_bom() as u8),
                Err(e) => err_kind(&e).to_string(),
            };
            if reused != fresh {
                obs.violation("reuse", &case, &format!("reused: {} fresh: {}", reused, fresh));
            }
            Some(tape_line(&d, false))
        }
        ["split", h] => {
            let d = unhex(h)?;
            if d.is_empty() { return Some("panic".into()); }
            let r = hooks::split_at_scalar(&d);
            let f = hooks::split_at_scalar_fallback(&d);
            if r != f {
                obs.violation("split-blocks", &case, &format!("split_at_scalar {:?} fallback {:?}", r, f));
            }
            obs.count(if d.len() > 16 { "split:block-path" } else { "split:short" });
            Some(format!("{} {}", r.0, r.1))
        }
        ["splitfb", h] => {
            let d = unhex(h)?;
            if d.is_empty() { return Some("panic".into()); }
            let r = hooks::split_at_scalar_fallback(&d);
            Some(format!("{} {}", r.0, r.1))
        }
        ["quote", h] => {
            let d = unhex(h)?;
            if d.is_empty() { return Some("panic".into()); }
            let r = hooks::parse_quote_scalar(&d);
            let f = hooks::parse_quote_scalar_fallback(&d);
            if r != f {
                obs.violation("quote-blocks", &case, &format!("parse_quote_scalar {:?} fallback {:?}", r, f));
            }
            obs.count(match r { Some(_) => "quote:ok", None => "quote:err" });
            Some(match r { Some((a, b)) => format!("{} {}", a, b), None => "err".into() })
        }
        ["quotefb", h] => {
            let d = unhex(h)?;
            let r = hooks::parse_quote_scalar_fallback(&d);
            Some(match r { Some((a, b)) => format!("{} {}", a, b), None => "err".into() })
        }
        ["wftext", h] => {
            let d = unhex(h)?;
            count_tape(obs, &d);
            match TextTape::from_slice(&d) {
                Ok(t) => match structural_defect(&d, t.tokens()) {
                    None => Some("wf:1".into()),
                    Some(why) => {
                        obs.violation("unsound-tape", &case, &format!("{} in {}", why, show::text_tape_offsets(&d, t.tokens())));
                        Some("wf:0".into())
                    }
                },
                Err(_) => Some("err".into()),
            }
        }
        ["spec_full", _doc, _gt, h] => {
            // the Lean side computes the expected tape (with the positions) from the document (`ftapeF`), checks
            // that the document renders to these bytes and that the model produces the expected tape
            let d = unhex(h)?;
            count_tape(obs, &d);
            obs.count("spec_full");
            Some(format!("{} render:1 model:1", tape_line(&d, true)))
        }
        ["tcut", h] => {
            let d = unhex(h)?;
            let full = TextTape::from_slice(&d);
            let mut parts = Vec::with_capacity(d.len() + 1);
            for k in 0..=d.len() {
                match TextTape::from_slice(&d[..k]) {
                    Ok(t) => {
                        parts.push(format!("ok:{}", t.tokens().len()));
                        obs.count("cut:prefix-ok");
                        if let Some(why) = structural_defect(&d[..k], t.tokens()) {
                            obs.violation("unsound-tape", &case, &format!("prefix {}: {}", k, why));
                        }
                        if let Ok(f) = &full {
                            if let Some(why) = prefix_inconsistent(&d, k, t.tokens(), f.tokens()) {
                                obs.violation("cut-inconsistent", &case, &format!("prefix {}: {}; prefix tape {} full tape {}", k, why, show::text_tape_offsets(&d, t.tokens()), show::text_tape_offsets(&d, f.tokens())));
                            }
                        }
                    }
                    Err(_) => { parts.push("err".to_string()); obs.count("cut:prefix-err"); }
                }
            }
            Some(parts.join(","))
        }
        _ => None,
    }
}

// ---------------------------------------------------------------------------------------
// measured tables

pub fn tables() -> String {
    let mut s = String::new();
    s.push_str(&crate::tables::emit_bool_table(
        "boundaryTab",
        "`data::is_boundary(b)` for every byte (hook `verif_hooks::is_boundary`)",
        |b| hooks::is_boundary(b),
    ));
    s.push('\n');
    // The SSE2 block path of split_at_scalar.  After the block loop the fallback rescans from the
    // start, so a byte the blocks miss is only observable through a LATER byte the blocks do see:
    // [a, b, s, a×30] returns 1 when the blocks see `b`, and 2 when they miss `b` but see the
    // sentinel `s`.  `b` is in the SSE set iff no table-boundary sentinel makes the answer 2
    // (probed in the first block and in the second block).
    let sentinels: Vec<u8> = (0..=255u8).filter(|b| hooks::is_boundary(*b)).collect();
    let sse = |b: u8| -> bool {
        let mut seen = true;
        for &sn in sentinels.iter().filter(|&&x| x != b) {
            for lead in [1usize, 20] {
                let mut v = vec![b'a'; lead];
                v.push(b);
                v.push(sn);
                v.extend_from_slice(&[b'a'; 30]);
                let (len, _) = hooks::split_at_scalar(&v);
                if len != lead { seen = false; }
            }
        }
        // a byte nobody treats as a boundary must also be refused when no sentinel follows
        let mut v = vec![b'a'; 20];
        v.push(b);
        v.extend_from_slice(&[b'a'; 30]);
        if hooks::split_at_scalar(&v).0 != 20 { seen = false; }
        seen
    };
    s.push_str(&crate::tables::emit_bool_table(
        "sseBoundary",
        "bytes the 16-byte block path of `split_at_scalar` stops at (probed with a sentinel behind the byte, first and second block)",
        sse,
    ));
    s.push('\n');
    let toks = |d: &[u8]| TextTape::from_slice(d).ok().map(|t| show::text_tape(t.tokens()));
    let ws = |b: u8| -> bool {
        let want_kv = toks(b"a=1");
        let want_arr = toks(b"x={1 2}");
        toks(&[b'a', b' ', b, b'=', b'1']) == want_kv
            && toks(&[b'a', b'=', b, b'1']) == want_kv
            && toks(&[b'x', b'=', b'{', b'1', b' ', b, b'2', b'}']) == want_arr
    };
    s.push_str(&crate::tables::emit_bool_table(
        "wsTape",
        "single bytes `skip_ws_t` of the text tape parser skips (probed through TextTape::from_slice in three parser states)",
        ws,
    ));
    s.push('\n');
    s
}
