//! C19 — truncated documents never yield fabricated data (aggregate check).
//!
//! Model-backed ops come from the parser slices: `tcut` (text tape, c01.rs), `bcut` (binary lexer,
//! c08.rs).  This module adds the implementation-only cut oracles for the remaining parsers and
//! deserializers named by the property:
//!   x-cutbin <hex> <b0,b1,…>   every prefix of a well-formed binary document through the tape parser
//!                              (optimised + reference), the on-demand and the streaming deserializer;
//!                              <b…> = byte offsets at which a top-level field (or ghost) is complete
//!   x-cuttext <hex>            every prefix of a well-formed text document through tape, slice reader,
//!                              buffered reader, tape deserializer and reader deserializer
use crate::common::*;
use crate::docgen::{self, *};
use crate::show;
use crate::tyseed::{parse_ty, TySeed};
use jomini::binary::{BinaryTapeParser, FailedResolveStrategy, TokenReader as BinReader};
use jomini::text::{TokenReader as TextReader};
use jomini::{BinaryDeserializer, BinaryTape, TextDeserializer, TextTape};
use serde::de::DeserializeSeed;

/// top-level entries of a `{k=v,…}` Val string (splits at depth 0)
fn top_entries(v: &str) -> Option<Vec<(String, String)>> {
    let inner = v.strip_prefix('{')?.strip_suffix('}')?;
    let mut out = vec![];
    let (mut depth, mut start) = (0i32, 0usize);
    let b = inner.as_bytes();
    let mut parts = vec![];
    for i in 0..b.len() {
        match b[i] { b'{' | b'[' | b'(' => depth += 1, b'}' | b']' | b')' => depth -= 1, b',' if depth == 0 => { parts.push(&inner[start..i]); start = i + 1; } _ => {} }
    }
    if start < b.len() { parts.push(&inner[start..]); }
    for p in parts {
        let eq = p.find('=')?;
        out.push((p[..eq].to_string(), p[eq + 1..].to_string()));
    }
    Some(out)
}

/// prefix result consistent with the full result: entries that are present in both and differ: at
/// most one, and it must be the last entry the prefix produced
fn consistent_entries(pre: &[(String, String)], full: &[(String, String)]) -> Result<(), String> {
    if pre.len() > full.len() { return Err(format!("prefix yields {} entries, full document {}", pre.len(), full.len())); }
    for (i, (k, v)) in pre.iter().enumerate() {
        let last = i + 1 == pre.len();
        if full[i].0 != *k && !last { return Err(format!("entry {} key {} differs from full {}", i, k, full[i].0)); }
        if (full[i].0 != *k || full[i].1 != *v) && !last { return Err(format!("completed entry {} ({}) differs: prefix {} full {}", i, k, v, full[i].1)); }
    }
    Ok(())
}

fn bin_any(d: &[u8], path: usize) -> Result<String, String> { bin_ty(d, path, "map(any)") }

/// every top-level field is unknown to the target and therefore SKIPPED (skip_value / skip_container paths)
fn bin_skip_all(d: &[u8], path: usize) -> Result<String, String> { bin_ty(d, path, "st(absent_opt:opt(i64))") }

fn bin_ty(d: &[u8], path: usize, ty: &str) -> Result<String, String> {
    let res = super::c05::resolver();
    let ty = parse_ty(ty).unwrap();
    let mut b = BinaryDeserializer::builder_flavor(super::c05::Flavor);
    b.on_failed_resolve(FailedResolveStrategy::Stringify);
    match path {
        0 => { let tape = BinaryTape::from_slice(d).map_err(|e| e.to_string())?; let de = b.from_tape(&tape, &res); TySeed(&ty).deserialize(&de).map_err(|e| e.to_string()) }
        1 => { let mut de = b.from_slice(d, &res); TySeed(&ty).deserialize(&mut de).map_err(|e| e.to_string()) }
        _ => { b.reader_config(BinReader::builder().buffer_len(if path == 2 { 70000 } else { 64 })); let mut de = b.from_reader(d, &res); TySeed(&ty).deserialize(&mut de).map_err(|e| e.to_string()) }
    }
}

fn text_fields(d: &[u8]) -> Result<Vec<(String, String)>, String> {
    // top-level fields through the real DOM: (key bytes + operator, rendering of the value's tokens)
    let tape = TextTape::from_slice(d).map_err(|e| e.to_string())?;
    let toks = tape.tokens();
    let base = toks.as_ptr() as usize;
    let sz = std::mem::size_of::<jomini::TextToken>();
    let r = tape.windows1252_reader();
    let mut out = vec![];
    let mut it = r.fields();
    for (k, op, v) in it.by_ref() {
        let vi = (v.token() as *const _ as usize - base) / sz;
        let n = v.tokens_len();
        let val = show::text_tape(&toks[vi..(vi + n + 1).min(toks.len())]);
        out.push((format!("{}{}", hex(k.read_scalar().as_bytes()), op.map(|o| o.symbol()).unwrap_or("")), val));
    }
    let rem = it.remainder();
    if rem.len() > 0 { out.push(("remainder".to_string(), format!("{}", rem.len()))); }
    Ok(out)
}

pub fn exec(w: &[&str], obs: &mut Obs) -> Option<String> {
    let case = w.join(" ");
    match w {
        ["x-cutbin", h, bounds, rest @ ..] => {
            let d = unhex(h)?;
            // optional document-shaped target type: nested objects are then read through MapAccess
            // (struct / map requests), not through the untyped sequence view
            let shaped: Option<String> = rest.first().map(|s| s.to_string());
            let bounds: Vec<usize> = if *bounds == "-" { vec![] } else { bounds.split(',').filter_map(|x| x.parse().ok()).collect() };
            let full: Vec<Option<Vec<(String, String)>>> = (0..4).map(|p| bin_any(&d, p).ok().and_then(|v| top_entries(&v))).collect();
            let full_tape = BinaryTape::from_slice(&d).ok().map(|t| show::bin_tape(t.tokens()));
            let mut oks = 0;
            {
                let mut reused = BinaryTape::default();
                let _ = BinaryTapeParser.parse_slice_into_tape(&d, &mut reused);
                for k in (0..d.len()).rev() {
                    let pre = &d[..k];
                    let fresh = BinaryTape::from_slice(pre).ok().map(|t| show::bin_tape(t.tokens()));
                    let again = BinaryTapeParser.parse_slice_into_tape(pre, &mut reused).ok().map(|_| show::bin_tape(reused.tokens()));
                    if fresh != again { obs.violation("cut-reused-tape-differs", &case, &format!("binary prefix {}: fresh {:?}, reused {:?}", k, fresh, again)); break; }
                }
            }
            for k in 0..d.len() {
                let pre = &d[..k];
                // a single stray byte after a complete field is ignored by the tape parser and the on-demand
                // deserializer (documented quirk: it is inside the next token's id, not inside a payload)
                let at_boundary = k == 0 || bounds.contains(&k) || k == 1 || bounds.contains(&(k - 1));
                // tape parsers
                let t1 = BinaryTape::from_slice(pre).ok().map(|t| show::bin_tape(t.tokens()));
                let mut t = BinaryTape::default();
                let t2 = BinaryTapeParser.parse_slice_into_tape_unoptimized(pre, &mut t).ok().map(|_| show::bin_tape(t.tokens()));
                for (name, r) in [("tape", &t1), ("tape-reference", &t2)] {
                    match r {
                        Some(toks) => {
                            oks += 1;
                            if !at_boundary { obs.violation("cut-accepted-binary", &case, &format!("{}: prefix of {} bytes is inside a field but parses: {}", name, k, toks)); }
                            else if let Some(ft) = &full_tape {
                                let pt = if toks == "-" { "" } else { toks.as_str() };
                                if !(ft.starts_with(pt) && (pt.len() == ft.len() || pt.is_empty() || ft.as_bytes()[pt.len()] == b',')) {
                                    obs.violation("cut-tape-not-prefix", &case, &format!("{}: prefix {} gives {}, full {}", name, k, toks, ft));
                                }
                            }
                        }
                        None => if at_boundary { obs.violation("cut-boundary-rejected", &case, &format!("{}: prefix {} ends at a field boundary but is rejected", name, k)); }
                    }
                }
                // deserializers (dynamic capture of the top level as a map)
                for p in 0..4 {
                    match bin_any(pre, p) {
                        Ok(v) => {
                            if !at_boundary { obs.violation("cut-accepted-binary-de", &case, &format!("path {}: prefix {} inside a field deserializes to {}", p, k, v)); }
                            else if let (Some(pe), Some(fe)) = (top_entries(&v), &full[p]) {
                                if pe.len() > fe.len() || pe.iter().zip(fe.iter()).any(|(a, b)| a != b) {
                                    obs.violation("cut-fabricated-binary-de", &case, &format!("path {}: prefix {} gives {} which is not a prefix of the full result", p, k, v));
                                }
                            }
                        }
                        Err(_) => {}
                    }
                    // the same prefix into a target that skips every field: a cut inside a skipped value must
                    // still be an error (the skip must not swallow the end of input)
                    if let Ok(v) = bin_skip_all(pre, p) {
                        if !at_boundary { obs.violation("cut-accepted-binary-skip", &case, &format!("path {}: prefix {} is inside a field that the target skips, yet deserializes to {}", p, k, v)); }
                    }
                    if let Some(ty) = &shaped {
                        if let Ok(v) = bin_ty(pre, p, ty) {
                            if !at_boundary { obs.violation("cut-accepted-binary-shaped", &case, &format!("path {}: prefix {} is inside a field, yet deserializes into {} as {}", p, k, ty, v)); }
                        }
                    }
                }
            }
            obs.count("cutbin");
            Some(format!("ok {}", oks))
        }
        ["x-cuttext", h] => {
            let d = unhex(h)?;
            let full = match text_fields(&d) { Ok(f) => f, Err(_) => return Some("full-rejected".into()) };
            let full_toks: Vec<String> = { let mut r = TextReader::from_slice(&d); let mut v = vec![]; while let Ok(Some(t)) = r.next() { v.push(show::text_lex_tok(&t)); } v };
            let ty = parse_ty("map(ign)").unwrap();
            let de_keys = |d: &[u8], reader: bool| -> Option<Vec<(String, String)>> {
                let v = if reader { let mut de = TextDeserializer::from_windows1252_reader(TextReader::new(d)); TySeed(&ty).deserialize(&mut de).ok()? }
                        else { let de = TextDeserializer::from_windows1252_slice(d).ok()?; TySeed(&ty).deserialize(&de).ok()? };
                top_entries(&v)
            };
            let full_de = [de_keys(&d, false), de_keys(&d, true)];
            let mut oks = 0;
            // one tape object reused for every prefix (what a caller that recycles its tape sees): the
            // result must be the fresh parse's, nothing of the previous, longer parse may survive
            let mut reused = TextTape::new();
            let _ = TextTape::parser().parse_slice_into_tape(&d, &mut reused);
            for k in (0..d.len()).rev() {
                let pre = &d[..k];
                let fresh = TextTape::from_slice(pre).ok().map(|t| (show::text_tape(t.tokens()), t.utf8_bom()));
                let again = TextTape::parser().parse_slice_into_tape(pre, &mut reused).ok().map(|_| (show::text_tape(reused.tokens()), reused.utf8_bom()));
                if fresh != again {
                    obs.violation("cut-reused-tape-differs", &case, &format!("prefix {}: fresh parse {:?}, parse into a reused tape {:?}", k, fresh, again));
                    break;
                }
            }
            for k in 0..d.len() {
                let pre = &d[..k];
                if let Ok(pf) = text_fields(pre) {
                    oks += 1;
                    if let Err(e) = consistent_entries(&pf, &full) { obs.violation("cut-fabricated-text-tape", &case, &format!("prefix {}: {}", k, e)); }
                }
                // token readers: every token but the last must be a token of the full stream at the same index
                for cap in [0usize, 16] {
                    let mut toks = vec![];
                    if cap == 0 { let mut r = TextReader::from_slice(pre); while let Ok(Some(t)) = r.next() { toks.push(show::text_lex_tok(&t)); } }
                    else { let mut r = TextReader::builder().buffer_len(64).build(pre); while let Ok(Some(t)) = r.next() { toks.push(show::text_lex_tok(&t)); } }
                    for (i, t) in toks.iter().enumerate() {
                        if i + 1 < toks.len() && full_toks.get(i) != Some(t) {
                            obs.violation("cut-fabricated-text-token", &case, &format!("prefix {} cap {}: token {} = {} but full stream has {:?}", k, cap, i, t, full_toks.get(i)));
                            break;
                        }
                    }
                    if let (Some(last), Some(f)) = (toks.last(), full_toks.get(toks.len().wrapping_sub(1))) {
                        // the last token may be cut short but never extended / of another kind with foreign bytes
                        let (lk, lb) = last.split_once(':').unwrap_or((last.as_str(), ""));
                        let (fk, fb) = f.split_once(':').unwrap_or((f.as_str(), ""));
                        let in_bom = d.starts_with(&[0xef, 0xbb, 0xbf]) && k < 3;
                        if !in_bom && lk == fk && (lk == "U" || lk == "Q") && !fb.starts_with(lb.trim_end_matches('-')) && lb != "-" {
                            obs.violation("cut-extended-text-token", &case, &format!("prefix {} cap {}: last token {} is not a prefix of {}", k, cap, last, f));
                        }
                    }
                }
                for (i, reader) in [false, true].iter().enumerate() {
                    if let (Some(pe), Some(fe)) = (de_keys(pre, *reader), &full_de[i]) {
                        let pk: Vec<(String, String)> = pe.iter().map(|(k, _)| (k.clone(), String::new())).collect();
                        let fk: Vec<(String, String)> = fe.iter().map(|(k, _)| (k.clone(), String::new())).collect();
                        if let Err(e) = consistent_entries(&pk, &fk) { obs.violation("cut-fabricated-text-de", &case, &format!("{} path, prefix {}: {}", if *reader { "reader" } else { "tape" }, k, e)); }
                    }
                }
            }
            obs.count("cuttext");
            Some(format!("ok {}", oks))
        }
        _ => None,
    }
}

pub fn gen_de_cut(g: &mut Gen) {
    let n = g.budget(250, 6000);
    for _ in 0..n {
        // binary: render field by field to know where top-level fields (and ghosts) end
        let doc = docgen::gen_doc(&mut g.rng, &DocCfg { ghosts: true, max_fields: 4, ..DocCfg::shared() });
        let mut bytes = vec![];
        let mut bounds = vec![];
        for (fi, f) in doc.fields.iter().enumerate() {
            // (a document that STARTS with `{}` is refused by the tape parser by design)
            for _ in 0..(if fi == 0 { 0 } else { f.ghosts }) { bytes.extend_from_slice(&[3, 0, 4, 0]); bounds.push(bytes.len()); }
            let one = Doc { fields: vec![Field { ghosts: 0, ..f.clone() }] };
            bytes.extend(docgen::render_binary(&mut g.rng, &BinCfg::default(), &one));
            bounds.push(bytes.len());
        }
        if bytes.len() <= 300 && !bytes.is_empty() {
            let b = bounds.iter().map(|x| x.to_string()).collect::<Vec<_>>().join(",");
            let ty = crate::tyseed::doc_ty(&mut g.rng, &doc, false);
            // fixed-length tuple targets fetch the closing token themselves (a separate path through the streaming
            // deserializers): a cut directly before that `}` must still be an error
            let ty = if g.rng.chance(1, 2) { super::c20::tuplify_doc(&mut g.rng, &ty, &doc) } else { ty };
            if crate::tyseed::show_ty(&ty).contains("tup(") { g.count("de-cut-tuple-target"); }
            g.emit(format!("x-cutbin {} {} {}", hex(&bytes), if b.is_empty() { "-".to_string() } else { b }, crate::tyseed::show_ty(&ty)));
        }
        let doc = docgen::gen_doc(&mut g.rng, &DocCfg { max_fields: 4, ..DocCfg::save_style() });
        let lex = docgen::lexemes(&doc);
        let bytes = if g.rng.chance(1, 2) { docgen::render_canonical(&lex) } else { docgen::render_layout(&mut g.rng, &LayoutCfg { max_trailing: 2, max_left_pad: 2, ..LayoutCfg::reader_safe() }, &lex) };
        if bytes.len() <= 300 { g.emit(format!("x-cuttext {}", hex(&bytes))); }
    }
    g.count("de-cut-every-prefix");
}

pub fn gen(g: &mut Gen) {
    super::c01::gen_cut(g);
    super::c08::gen_cut(g);
    gen_de_cut(g);
}

pub fn tables() -> String {
    String::new()
}
