//! C05 — no input can crash, hang or escape memory bounds in any entry point.
//!
//! Implementation-side exploration (the runtime part of the property; the logic part —
//! guards, progress — is carried by the no-panic / totality theorems re-exported in
//! lean/JominiModel/Props/C05.lean).
//!
//! ops (all `x-`: implementation only, the model driver answers `skip`):
//!   x-text <hex>            push the bytes through every text entry point
//!   x-bin <hex>             push the bytes through every binary entry point
//!   x-leaf <hex>            scalar / date / encoding conversions
//!   x-iso <entry> <depth>   adversarial deep nesting, run in a CHILD process with a watchdog
//!                           (stack exhaustion aborts cannot be caught in-process)
//!   x-isochild <entry> <depth>   (what the child executes)
//! A panic is caught by the harness's catch_unwind (result `panic`, oracle kind `panic`);
//! debug assertions and overflow checks are compiled in.
use crate::common::*;
use crate::docgen;
use crate::sched::{SchedReader, Step};
use crate::tyseed::{parse_ty, AnyVisitor, Ty, TySeed};
use jomini::binary::{BinaryFlavor, FailedResolveStrategy, Lexer, TokenReader as BinReader};
use jomini::json::{DuplicateKeyMode, JsonOptions, TypeNarrowing};
use jomini::text::{ObjectReader, TokenReader as TextReader, ValueReader};
use jomini::{BinaryDeserializer, BinaryTape, Encoding, Scalar, TextDeserializer, TextTape, TextWriterBuilder, Utf8Encoding, Windows1252Encoding};
use serde::de::DeserializeSeed;
use std::collections::HashMap;

#[derive(Debug, Default)]
pub struct Flavor;
impl BinaryFlavor for Flavor {
    fn visit_f32(&self, data: [u8; 4]) -> f32 { i32::from_le_bytes(data) as f32 / 1000.0 }
    fn visit_f64(&self, data: [u8; 8]) -> f64 { i64::from_le_bytes(data) as f64 / 32768.0 }
}
impl Encoding for Flavor {
    fn decode<'a>(&self, data: &'a [u8]) -> std::borrow::Cow<'a, str> { Windows1252Encoding::decode(data) }
}

pub fn resolver() -> HashMap<u16, String> {
    let mut m = HashMap::new();
    for (i, k) in docgen::KEY_POOL.iter().enumerate() {
        if i % 3 != 2 { m.insert(docgen::key_id(k.as_bytes()).unwrap(), k.to_string()); }
    }
    m
}

fn walk_object<E: Encoding + Clone>(r: &ObjectReader<E>, budget: &mut usize) {
    let _ = r.fields_len();
    let _ = r.tokens_len();
    let mut it = r.fields();
    let _ = it.size_hint();
    for (k, op, v) in it.by_ref() {
        let _ = k.read_str(); let _ = k.read_scalar(); let _ = op;
        walk_value(&v, budget);
    }
    let rem = it.remainder();
    let _ = rem.len();
    for v in rem.values() { walk_value(&v, budget); }
    for (k, g) in r.field_groups() {
        let _ = k.read_string();
        let _ = g.len();
        for (_op, v) in g.values() { let _ = v.token(); }
    }
}

fn walk_value<E: Encoding + Clone>(v: &ValueReader<E>, budget: &mut usize) {
    if *budget == 0 { return; }
    *budget -= 1;
    let _ = v.read_str(); let _ = v.read_string(); let _ = v.read_scalar(); let _ = v.tokens_len();
    match v.token() {
        jomini::TextToken::Object { .. } => {
            if let Ok(o) = v.read_object() { walk_object(&o, budget); }
            // an object can also be viewed as an array (keys, operators and values as items): touch, do not recurse twice
            if let Ok(a) = v.read_array() { let _ = a.len(); for x in a.values() { let _ = x.token(); } }
        }
        jomini::TextToken::Array { .. } => {
            if let Ok(o) = v.read_object() { let _ = o.fields_len(); }
            if let Ok(a) = v.read_array() {
                let _ = a.len(); let _ = a.is_empty(); let _ = a.tokens_len();
                for x in a.values() { walk_value(&x, budget); }
            }
        }
        jomini::TextToken::Header(_) => {
            if let Ok(a) = v.read_array() {
                let _ = a.len();
                // the header view's first element is the header itself
                for (i, x) in a.values().enumerate() { if i == 0 { let _ = x.read_str(); } else { walk_value(&x, budget); } }
            }
        }
        _ => { let _ = v.read_object().is_ok(); let _ = v.read_array().is_ok(); }
    }
}

fn json_all(tape: &TextTape, obs: &mut Obs, case: &str) {
    for pretty in [false, true] {
        for dk in [DuplicateKeyMode::Group, DuplicateKeyMode::Preserve, DuplicateKeyMode::KeyValuePairs] {
            for tn in [TypeNarrowing::All, TypeNarrowing::Unquoted, TypeNarrowing::None] {
                let opts = JsonOptions::new().with_prettyprint(pretty).with_duplicate_keys(dk).with_type_narrowing(tn);
                let a = tape.windows1252_reader().json().with_options(opts).to_vec();
                let b = tape.utf8_reader().json().with_options(opts).to_vec();
                for out in [&a, &b] {
                    if std::str::from_utf8(out).is_err() {
                        obs.violation("json-not-utf8", case, "json output is not valid UTF-8");
                    }
                }
            }
        }
    }
}

fn seeds() -> Vec<Ty> {
    ["any", "ign", "map(any)", "map(ign)", "seq(any)", "st(a:i64;b:str;name:opt(str);core:seq(str);flags:map(any);x:f64;y:bool)", "st(a:st(a:i64);id:prop(str);type:en(a;b))", "st(a:tup(i64;i64);b:tup(str;any;any);core:tup(any))", "tup(any;any)", "str", "i64"]
        .iter().map(|s| parse_ty(s).unwrap()).collect()
}

pub fn all_text(d: &[u8], obs: &mut Obs, case: &str) -> String {
    let mut summary = String::new();
    // tape, DOM, JSON, writer, tape deserializer
    if let Ok(tape) = TextTape::from_slice(d) {
        obs.count("text:tape-ok");
        summary.push_str(&format!("tape:{}", tape.tokens().len()));
        let mut budget = 5000;
        walk_object(&tape.windows1252_reader(), &mut budget);
        let mut budget = 5000;
        walk_object(&tape.utf8_reader(), &mut budget);
        json_all(&tape, obs, case);
        for (c, f) in [(b' ', 0u8), (b'\t', 1), (b' ', 4), (b' ', 9)] {
            let mut w = TextWriterBuilder::new().indent_char(c).indent_factor(f).from_writer(Vec::new());
            let _ = w.write_tape(&tape);
        }
        for ty in seeds() {
            let de = TextDeserializer::from_windows1252_tape(&tape);
            let _ = TySeed(&ty).deserialize(&de);
            let de = TextDeserializer::from_utf8_tape(&tape);
            let _ = TySeed(&ty).deserialize(&de);
        }
        // reuse the tape for another parse
        let mut t2 = TextTape::new();
        let _ = TextTape::parser().parse_slice_into_tape(b"a=b c={d=e}", &mut t2);
        let _ = TextTape::parser().parse_slice_into_tape(d, &mut t2);
    } else {
        obs.count("text:tape-err");
        summary.push_str("tape:err");
    }
    // readers: slice + buffered with several capacities / schedules, also skip paths
    let mut r = TextReader::from_slice(d);
    let mut n = 0;
    while let Ok(Some(_)) = r.next() { n += 1; if n > 100000 { break; } }
    let _ = r.position();
    summary.push_str(&format!(" toks:{} pos:{}", n, r.position()));
    // over-read detection: the same bytes as a sub-slice of a larger allocation, followed by guard
    // bytes that would change the result if a scanner looked one byte too far; the result must not
    // depend on the guard (and must equal the plain run)
    {
        let plain_tape = TextTape::from_slice(d).ok().map(|t| crate::show::text_tape(t.tokens()));
        let plain_toks = { let mut r = TextReader::from_slice(d); let mut v = String::new(); loop { match r.next() { Ok(Some(t)) => { v.push_str(&crate::show::text_lex_tok(&t)); v.push(','); } Ok(None) => { v.push_str("end"); break; } Err(_) => { v.push_str("err"); break; } } } v };
        for guard in [&b"{{{{{{{{{{{{{{{{{"[..], b"}}}}}}}}}}}}}}}}}", b"\"\"\"\"\"\"\"\"\"\"\"\"\"\"\"\"\"", b"=================", b"aaaaaaaaaaaaaaaaa", b"\\\\\\\\\\\\\\\\\\\\\\\\\\\\\\\\\\"] {
            let mut big = d.to_vec();
            big.extend_from_slice(guard);
            let sub = &big[..d.len()];
            let t = TextTape::from_slice(sub).ok().map(|t| crate::show::text_tape(t.tokens()));
            if t != plain_tape { obs.violation("over-read-text-tape", case, &format!("tape depends on the bytes AFTER the slice (guard {:?})", String::from_utf8_lossy(&guard[..2]))); }
            let toks = { let mut r = TextReader::from_slice(sub); let mut v = String::new(); loop { match r.next() { Ok(Some(t)) => { v.push_str(&crate::show::text_lex_tok(&t)); v.push(','); } Ok(None) => { v.push_str("end"); break; } Err(_) => { v.push_str("err"); break; } } } v };
            if toks != plain_toks { obs.violation("over-read-text-reader", case, &format!("slice reader depends on the bytes AFTER the slice (guard {:?})", String::from_utf8_lossy(&guard[..2]))); }
        }
        // recycled buffers pre-filled with significant bytes: stale data must never be looked at
        for fill in [b'{', b'}', b'"', b'\\'] {
            for (cap, step) in [(8usize, 8usize), (9, 9), (16, 8), (24, 3), (64, 64)] {
                let rd = SchedReader::new(d, vec![Step::Repeat(step)]);
                let mut r = TextReader::builder().buffer(vec![fill; cap].into_boxed_slice()).build(rd);
                let mut v = String::new();
                loop { match r.next() { Ok(Some(t)) => { v.push_str(&crate::show::text_lex_tok(&t)); v.push(','); } Ok(None) => { v.push_str("end"); break; } Err(_) => { v.push_str("err"); break; } } }
                let rd = SchedReader::new(d, vec![Step::Repeat(step)]);
                let mut r = TextReader::builder().buffer(vec![b' '; cap].into_boxed_slice()).build(rd);
                let mut w = String::new();
                loop { match r.next() { Ok(Some(t)) => { w.push_str(&crate::show::text_lex_tok(&t)); w.push(','); } Ok(None) => { w.push_str("end"); break; } Err(_) => { w.push_str("err"); break; } } }
                if v != w { obs.violation("stale-buffer-text-reader", case, &format!("tokens depend on stale buffer contents (fill {:?}, cap {}, step {})", fill as char, cap, step)); }
            }
        }
    }
    for (cap, step) in [(1usize, 1usize), (2, 1), (3, 2), (8, 3), (9, 9), (16, 5), (64, 64), (4096, 7)] {
        let rd = SchedReader::new(d, vec![Step::Repeat(step)]);
        let mut r = TextReader::builder().buffer_len(cap).build(rd);
        let mut n = 0;
        let mut skip = false;
        loop {
            match r.next() {
                Ok(Some(jomini::text::Token::Open)) if skip => { if r.skip_container().is_err() { break; } }
                Ok(Some(jomini::text::Token::Operator(_))) if skip && n % 3 == 0 => { if r.skip_unquoted_value().is_err() { break; } }
                Ok(Some(_)) => {}
                _ => break,
            }
            n += 1;
            skip = n % 2 == 0;
            if n > 100000 { break; }
        }
        let _ = r.position();
        let rd = SchedReader::new(d, vec![Step::Repeat(step)]);
        let mut r = TextReader::builder().buffer_len(cap).build(rd);
        let _ = r.read_bytes(cap.min(d.len()));
        let _ = r.read();
    }
    for ty in seeds() {
        for cap in [4usize, 16, 32 * 1024] {
            let rd = TextReader::builder().buffer_len(cap).build(d);
            let mut de = TextDeserializer::from_windows1252_reader(rd);
            let _ = TySeed(&ty).deserialize(&mut de);
            let rd = TextReader::builder().buffer_len(cap).build(d);
            let mut de = TextDeserializer::from_utf8_reader(rd);
            let _ = TySeed(&ty).deserialize(&mut de);
        }
    }
    leaf(d);
    summary
}

pub fn leaf(d: &[u8]) {
    let s = Scalar::new(d);
    let _ = s.to_bool(); let _ = s.to_i64(); let _ = s.to_u64(); let _ = s.to_f64(); let _ = s.is_ascii(); let _ = format!("{}", s);
    let _ = Windows1252Encoding::decode(d); let _ = Utf8Encoding::decode(d);
    use jomini::common::{Date, DateHour, PdsDate, RawDate, UniformDate};
    if let Ok(x) = Date::parse(d) { let _ = x.game_fmt().to_string(); let _ = x.iso_8601().to_string(); let _ = x.to_binary(); let _ = x.add_days(-400); let _ = x.days_until(&Date::from_ymd(1, 1, 1)); }
    if let Ok(x) = DateHour::parse(d) { let _ = x.game_fmt().to_string(); let _ = x.iso_8601().to_string(); let _ = x.to_binary(); }
    if let Ok(x) = UniformDate::parse(d) { let _ = x.game_fmt().to_string(); }
    if let Ok(x) = RawDate::parse(d) { let _ = x.year(); let _ = x.month(); let _ = x.day(); let _ = x.hour(); }
    if d.len() >= 4 {
        let v = i32::from_le_bytes([d[0], d[1], d[2], d[3]]);
        let _ = Date::from_binary(v); let _ = DateHour::from_binary(v); let _ = Date::from_binary_heuristic(v);
    }
}

pub fn all_bin(d: &[u8], obs: &mut Obs, _case: &str) -> String {
    let mut summary = String::new();
    let res = resolver();
    if let Ok(tape) = BinaryTape::from_slice(d) {
        obs.count("bin:tape-ok");
        summary.push_str(&format!("tape:{}", tape.tokens().len()));
        for ty in seeds() {
            for strat in [FailedResolveStrategy::Error, FailedResolveStrategy::Stringify, FailedResolveStrategy::Ignore] {
                let mut b = BinaryDeserializer::builder_flavor(Flavor);
                b.on_failed_resolve(strat);
                let de = b.from_tape(&tape, &res);
                let _ = TySeed(&ty).deserialize(&de);
            }
        }
        // forward every token to the text writer
        let mut w = TextWriterBuilder::new().from_writer(Vec::new());
        for t in tape.tokens() { let _ = w.write_binary(t); }
        let mut t2 = BinaryTape::default();
        let _ = jomini::binary::BinaryTapeParser.parse_slice_into_tape(&[0x2d, 0x28, 1, 0, 3, 0, 4, 0], &mut t2);
        let _ = jomini::binary::BinaryTapeParser.parse_slice_into_tape(d, &mut t2);
    } else {
        obs.count("bin:tape-err");
        summary.push_str("tape:err");
    }
    let mut t3 = BinaryTape::default();
    let _ = jomini::binary::BinaryTapeParser.parse_slice_into_tape_unoptimized(d, &mut t3);
    // over-read detection for the binary side: guard bytes after the slice must not matter
    {
        let plain = BinaryTape::from_slice(d).ok().map(|t| crate::show::bin_tape(t.tokens()));
        let lex = |d: &[u8]| { let mut lx = Lexer::new(d); let mut v = String::new(); loop { match lx.next_token() { Ok(Some(t)) => { v.push_str(&crate::show::bin_lex_tok(&t)); v.push(','); } Ok(None) => { v.push_str("end"); break; } Err(_) => { v.push_str("err"); break; } } } v };
        let plain_lex = lex(d);
        for guard in [&[3u8, 0, 3, 0, 3, 0, 3, 0, 3, 0][..], &[4, 0, 4, 0, 4, 0, 4, 0, 4, 0], &[0x0c, 0, 1, 0, 0, 0, 0x0c, 0, 1, 0], &[0xff; 10], &[1, 0, 1, 0, 1, 0, 1, 0, 1, 0]] {
            let mut big = d.to_vec();
            big.extend_from_slice(guard);
            let sub = &big[..d.len()];
            if BinaryTape::from_slice(sub).ok().map(|t| crate::show::bin_tape(t.tokens())) != plain { obs.violation("over-read-bin-tape", _case, "binary tape depends on the bytes AFTER the slice"); }
            if lex(sub) != plain_lex { obs.violation("over-read-bin-lexer", _case, "binary lexer depends on the bytes AFTER the slice"); }
        }
    }
    // lexer
    let mut lx = Lexer::new(d);
    let mut n = 0;
    while let Ok(Some(t)) = lx.next_token() { n += 1; let mut v = Vec::new(); let _ = t.write(&mut v); if n > 100000 { break; } }
    summary.push_str(&format!(" toks:{} pos:{}", n, lx.position()));
    let mut lx = Lexer::new(d);
    let _ = lx.peek_id(); let _ = lx.peek_token();
    while let Ok(Some(id)) = lx.next_id() { if lx.skip_value(id).is_err() { break; } }
    for f in 0..11 {
        let mut lx = Lexer::new(d);
        let _ = match f { 0 => lx.read_string().map(|_| ()), 1 => lx.read_bool().map(|_| ()), 2 => lx.read_u32().map(|_| ()), 3 => lx.read_u64().map(|_| ()), 4 => lx.read_i64().map(|_| ()), 5 => lx.read_i32().map(|_| ()), 6 => lx.read_f32().map(|_| ()), 7 => lx.read_f64().map(|_| ()), 8 => lx.read_rgb().map(|_| ()), 9 => lx.read_bytes(d.len() / 2).map(|_| ()), _ => lx.read_token().map(|_| ()) };
    }
    // streaming reader
    for (cap, step) in [(1usize, 1usize), (2, 1), (3, 2), (4, 4), (7, 3), (16, 5), (64, 64), (70000, 1000)] {
        let rd = SchedReader::new(d, vec![Step::Repeat(step)]);
        let mut r = BinReader::builder().buffer_len(cap).build(rd);
        let mut n = 0;
        loop {
            match r.next() {
                Ok(Some(jomini::binary::Token::Open)) if n % 2 == 0 => { if r.skip_container().is_err() { break; } }
                Ok(Some(_)) => {}
                _ => break,
            }
            n += 1;
            if n > 100000 { break; }
        }
        let _ = r.position();
        let rd = SchedReader::new(d, vec![Step::Repeat(step)]);
        let mut r = BinReader::builder().buffer_len(cap).build(rd);
        let _ = r.read_bytes(cap.min(d.len()));
        let _ = r.read();
    }
    for ty in seeds() {
        for strat in [FailedResolveStrategy::Error, FailedResolveStrategy::Stringify, FailedResolveStrategy::Ignore] {
            let mut b = BinaryDeserializer::builder_flavor(Flavor);
            b.on_failed_resolve(strat);
            let mut de = b.from_slice(d, &res);
            let _ = TySeed(&ty).deserialize(&mut de);
            for cap in [4usize, 64, 70000] {
                let mut b = BinaryDeserializer::builder_flavor(Flavor);
                b.on_failed_resolve(strat);
                b.reader_config(BinReader::builder().buffer_len(cap));
                let mut de = b.from_reader(d, &res);
                let _ = TySeed(&ty).deserialize(&mut de);
            }
        }
    }
    summary
}

fn deep_text(depth: usize) -> Vec<u8> {
    let mut v = Vec::with_capacity(depth * 4 + 8);
    for _ in 0..depth { v.extend_from_slice(b"a={"); }
    v.extend_from_slice(b"b=c");
    for _ in 0..depth { v.push(b'}'); }
    v
}
fn deep_text_array(depth: usize) -> Vec<u8> {
    let mut v = Vec::with_capacity(depth * 2 + 8);
    v.extend_from_slice(b"a=");
    for _ in 0..depth { v.push(b'{'); }
    v.extend_from_slice(b"1");
    for _ in 0..depth { v.push(b'}'); }
    v
}
fn deep_bin(depth: usize) -> Vec<u8> {
    let mut v = Vec::with_capacity(depth * 8 + 8);
    for _ in 0..depth { v.extend_from_slice(&[0x00, 0x20, 0x01, 0x00, 0x03, 0x00]); }
    v.extend_from_slice(&[0x00, 0x20, 0x01, 0x00, 0x0c, 0x00, 1, 0, 0, 0]);
    for _ in 0..depth { v.extend_from_slice(&[0x04, 0x00]); }
    v
}

pub const ISO_ENTRIES: [&str; 14] = ["text-tape", "text-tape-array", "text-dom", "text-json", "text-write-tape", "text-de-tape-any", "text-de-tape-ign", "text-de-reader-any", "text-de-reader-ign", "text-reader-skip", "bin-tape", "bin-de-tape-any", "bin-de-slice-ign", "bin-reader-skip"];

/// executed in the child process
pub fn iso_child(entry: &str, depth: usize) -> String {
    let any = Ty::Any;
    let ign = Ty::Ign;
    let res = resolver();
    match entry {
        "text-tape" => { let d = deep_text(depth); format!("{}", TextTape::from_slice(&d).is_ok()) }
        "text-tape-array" => { let d = deep_text_array(depth); format!("{}", TextTape::from_slice(&d).is_ok()) }
        "text-dom" => { let d = deep_text(depth); let t = TextTape::from_slice(&d).unwrap(); let mut b = usize::MAX; walk_object(&t.windows1252_reader(), &mut b); "ok".into() }
        "text-json" => { let d = deep_text(depth); let t = TextTape::from_slice(&d).unwrap(); format!("{}", t.utf8_reader().json().to_string().len()) }
        "text-write-tape" => { let d = deep_text(depth); let t = TextTape::from_slice(&d).unwrap(); let mut w = TextWriterBuilder::new().from_writer(Vec::new()); format!("{}", w.write_tape(&t).is_ok()) }
        "text-de-tape-any" => { let d = deep_text(depth); let t = TextTape::from_slice(&d).unwrap(); let de = TextDeserializer::from_utf8_tape(&t); format!("{}", TySeed(&parse_ty("map(any)").unwrap()).deserialize(&de).is_ok()) }
        "text-de-tape-ign" => { let d = deep_text(depth); let t = TextTape::from_slice(&d).unwrap(); let de = TextDeserializer::from_utf8_tape(&t); format!("{}", TySeed(&ign).deserialize(&de).is_ok()) }
        "text-de-reader-any" => { let d = deep_text(depth); let mut de = TextDeserializer::from_utf8_reader(TextReader::new(&d[..])); format!("{}", AnyVisitor.deserialize(&mut de).is_ok()) }
        "text-de-reader-ign" => { let d = deep_text(depth); let mut de = TextDeserializer::from_utf8_reader(TextReader::new(&d[..])); format!("{}", TySeed(&parse_ty("st(zz:i64)").unwrap()).deserialize(&mut de).is_ok()) }
        "text-reader-skip" => { let d = deep_text(depth); let mut r = TextReader::new(&d[..]); let _ = r.read(); let _ = r.read(); let _ = r.read(); format!("{}", r.skip_container().is_ok()) }
        "bin-tape" => { let d = deep_bin(depth); format!("{}", BinaryTape::from_slice(&d).is_ok()) }
        "bin-de-tape-any" => { let d = deep_bin(depth); let t = BinaryTape::from_slice(&d).unwrap(); let de = BinaryDeserializer::builder_flavor(Flavor).from_tape(&t, &res); format!("{}", TySeed(&any).deserialize(&de).is_ok()) }
        "bin-de-slice-ign" => { let d = deep_bin(depth); let mut de = BinaryDeserializer::builder_flavor(Flavor).from_slice(&d, &res); format!("{}", TySeed(&parse_ty("st(zz:i64)").unwrap()).deserialize(&mut de).is_ok()) }
        "bin-reader-skip" => { let d = deep_bin(depth); let mut r = BinReader::new(&d[..]); let _ = r.read(); let _ = r.read(); let _ = r.read(); format!("{}", r.skip_container().is_ok()) }
        _ => "bad-entry".into(),
    }
}

fn run_isolated(entry: &str, depth: usize) -> Result<String, String> {
    use std::io::Write;
    use std::process::{Command, Stdio};
    let exe = std::env::current_exe().map_err(|e| e.to_string())?;
    let mut child = Command::new(exe).arg("exec").stdin(Stdio::piped()).stdout(Stdio::piped()).stderr(Stdio::null()).spawn().map_err(|e| e.to_string())?;
    child.stdin.take().unwrap().write_all(format!("x-isochild {} {}\n", entry, depth).as_bytes()).map_err(|e| e.to_string())?;
    let start = std::time::Instant::now();
    loop {
        match child.try_wait() {
            Ok(Some(status)) => {
                let out = child.wait_with_output().map_err(|e| e.to_string())?;
                let text = String::from_utf8_lossy(&out.stdout).to_string();
                if status.success() {
                    return Ok(text.lines().next().unwrap_or("").to_string());
                }
                use std::os::unix::process::ExitStatusExt;
                return Err(format!("child died: signal {:?} code {:?}", status.signal(), status.code()));
            }
            Ok(None) => {
                if start.elapsed().as_secs() > 120 {
                    let _ = child.kill();
                    return Err("child timed out after 120 s (hang)".to_string());
                }
                std::thread::sleep(std::time::Duration::from_millis(5));
            }
            Err(e) => return Err(e.to_string()),
        }
    }
}

pub fn exec(w: &[&str], obs: &mut Obs) -> Option<String> {
    let case = w.join(" ");
    match w {
        ["x-text", h] => { let d = unhex(h)?; let r = all_text(&d, obs, &case); Some(format!("ok {}", r)) }
        ["x-bin", h] => { let d = unhex(h)?; let r = all_bin(&d, obs, &case); Some(format!("ok {}", r)) }
        ["x-leaf", h] => { let d = unhex(h)?; leaf(&d); Some("ok".into()) }
        ["x-isochild", entry, depth] => Some(iso_child(entry, depth.parse().ok()?)),
        ["x-iso", entry, depth] => {
            let depth: usize = depth.parse().ok()?;
            match run_isolated(entry, depth) {
                Ok(r) if r == "panic" => { obs.violation("panic", &case, "child reported a panic"); Some("panic".into()) }
                Ok(r) => { obs.count("iso:ok"); Some(format!("ok {}", r)) }
                Err(e) => {
                    let kind = if e.contains("timed out") { "hang" } else { "abort" };
                    obs.violation(kind, &case, &e);
                    Some(format!("died"))
                }
            }
        }
        _ => None,
    }
}

fn enumerate(alpha: &[&[u8]], maxlen: usize, f: &mut dyn FnMut(&[u8])) {
    fn rec(alpha: &[&[u8]], cur: &mut Vec<u8>, left: usize, f: &mut dyn FnMut(&[u8])) {
        f(cur);
        if left == 0 { return; }
        for a in alpha {
            let n = cur.len();
            cur.extend_from_slice(a);
            rec(alpha, cur, left - 1, f);
            cur.truncate(n);
        }
    }
    rec(alpha, &mut Vec::new(), maxlen, f);
}

pub fn gen(g: &mut Gen) {
    // 1. exhaustive strings over small significant alphabets
    let text_alpha: Vec<&[u8]> = vec![b"{", b"}", b"[", b"]", b"=", b"<", b"!", b"?", b"\"", b"\\", b"#", b"@", b"a", b"1", b".", b" ", b"\n", b"\xef"];
    let tl = g.budget(4, 5);
    let mut lines = vec![];
    enumerate(&text_alpha, tl, &mut |s| lines.push(format!("x-text {}", hex(s))));
    g.count("text-exhaustive");
    // binary: all token-kind sequences (canonical small payloads + short/zero/huge length prefixes)
    let bin_alpha: Vec<&[u8]> = vec![
        &[3, 0], &[4, 0], &[1, 0], &[0x14, 0, 1, 0, 0, 0], &[0x9c, 2, 1, 0, 0, 0, 0, 0, 0, 0], &[0x0c, 0, 0xff, 0xff, 0xff, 0xff], &[0x0e, 0, 1],
        &[0x0f, 0, 1, 0, b'a'], &[0x17, 0, 0, 0], &[0x0d, 0, 0, 0, 0x80, 0x3f], &[0x67, 1, 0, 0, 0, 0, 0, 0, 0xf0, 0x3f], &[0x43, 2, 3, 0, 0x14, 0, 1, 0, 0, 0, 0x14, 0, 2, 0, 0, 0, 0x14, 0, 3, 0, 0, 0, 4, 0],
        &[0x17, 3, 5, 0, 0, 0, 0, 0, 0, 0], &[0x00, 0x20], &[0x0f, 0, 0xff, 0xff], &[0x43, 2], &[0x0f],
    ];
    let bl = g.budget(3, 4);
    enumerate(&bin_alpha, bl, &mut |s| lines.push(format!("x-bin {}", hex(s))));
    g.count("bin-exhaustive");
    for l in lines { g.emit(l); }
    // blank runs of every length 0..20 (tabs / newlines / spaces) followed by nothing or one token:
    // the 8-byte word scanners change path at exactly 8 and 9 remaining bytes
    for blank in [b'\t', b'\n', b' '] {
        for n in 0..=20usize {
            for tail in [&b""[..], b"a", b"{", b"}", b"\"a\"", b"a=b", b"#c"] {
                let mut v = vec![blank; n];
                v.extend_from_slice(tail);
                g.emit(format!("x-text {}", hex(&v)));
                let mut v2 = tail.to_vec();
                v2.extend(std::iter::repeat(blank).take(n));
                g.emit(format!("x-text {}", hex(&v2)));
            }
        }
    }
    // 2. generated documents, mutated / truncated / spliced
    let n = g.budget(1500, 30000);
    for _ in 0..n {
        let doc = docgen::gen_doc(&mut g.rng, &docgen::DocCfg { leading_empty_in_array: true, ..docgen::DocCfg::text_full() });
        let lex = docgen::lexemes(&doc);
        let base = docgen::render_layout(&mut g.rng, &docgen::LayoutCfg::full(), &lex);
        let d = match g.rng.below(4) { 0 => base, 1 => { let k = g.rng.below(base.len() + 1); base[..k].to_vec() } _ => docgen::mutate(&mut g.rng, &base, docgen::TEXT_ALPHABET) };
        g.emit(format!("x-text {}", hex(&d)));
        let doc = docgen::gen_doc(&mut g.rng, &docgen::DocCfg { ghosts: true, mixed: true, ..docgen::DocCfg::shared() });
        let base = docgen::render_binary(&mut g.rng, &docgen::BinCfg::default(), &doc);
        let d = match g.rng.below(4) {
            0 => base,
            1 => { let k = g.rng.below(base.len() + 1); base[..k].to_vec() }
            2 => { let mut v = base.clone(); if !v.is_empty() { let p = g.rng.below(v.len()); v[p] ^= 1 << g.rng.below(8); } v }
            _ => docgen::mutate(&mut g.rng, &base, &[0, 1, 3, 4, 0x0c, 0x0e, 0x0f, 0x14, 0x17, 0x0d, 0x67, 0x43, 0x9c, 2, 0xff, 0x20]),
        };
        g.emit(format!("x-bin {}", hex(&d)));
    }
    g.count("generated-mutated");
    // 2b. EVERY prefix of a batch of documents and of a fixed list of syntax samples: an input that ends
    //     exactly behind a particular token (`[[x] y`, `a=rgb`, `a={ b`, a key without operator, a lone `\`)
    //     is where end-of-input handling indexes into an empty slice
    let samples: [&[u8]; 14] = [
        b"a={ [[x] y ] b=c }", b"a={ [[!x] y=z w ] }", b"[[x] y=z ] c=d", b"a=rgb { 1 2 3 } b=hsv360{ 1 2 3 }", b"a={ b=c d e }", b"a={ 1 2 k=v }",
        b"@[1+2] = @x a ?= b c != d e >= f", b"a=\"b\\\"c\" \"k\"=v", b"a = { { } { {} } } {} b = { }", b"#c\na=b#d\r\n;c=d;", b"\xef\xbb\xbfa=b", b"a={ b=[[c] d ] }",
        b"a={ [[x] { y=z } ] [[w] q ] }", b"a=b=c ==d e= =f",
    ];
    for sm in samples.iter() {
        for k in 0..=sm.len() { g.emit(format!("x-text {}", hex(&sm[..k]))); }
    }
    let n = g.budget(60, 1500);
    for _ in 0..n {
        let doc = docgen::gen_doc(&mut g.rng, &docgen::DocCfg { max_fields: 4, leading_empty_in_array: true, ..docgen::DocCfg::text_full() });
        let base = docgen::render_layout(&mut g.rng, &docgen::LayoutCfg::full(), &docgen::lexemes(&doc));
        if base.len() <= 160 { for k in 0..base.len() { g.emit(format!("x-text {}", hex(&base[..k]))); } }
        let doc = docgen::gen_doc(&mut g.rng, &docgen::DocCfg { max_fields: 4, ghosts: true, mixed: true, ..docgen::DocCfg::shared() });
        let base = docgen::render_binary(&mut g.rng, &docgen::BinCfg::default(), &doc);
        if base.len() <= 160 { for k in 0..base.len() { g.emit(format!("x-bin {}", hex(&base[..k]))); } }
    }
    // 2c. documents of the FULL text syntax (mixed containers with container elements, parameter blocks, headers as
    //     first fields, arrays that turn mixed: the text-tape slice's generator) and mutations of them; plus shapes the
    //     parser must REFUSE because later stages assume they never reach them (a parameter block opening a container
    //     inside a mixed parent)
    let refused: [&[u8]; 6] = [
        b"a = { b=c 10 { [[x] y ] k = v } }", b"a={ 1 2 k=v { [[p] q=r ] } }", b"a={ b=c d { [[x] { y=z } ] } e }",
        b"a={ 1 k=v [[p] q ] }", b"a={ b=c 10 [[x] y ] }", b"x={ { [[p] q ] } 1 k=v { [[p] q ] r=s } }",
    ];
    for sm in refused.iter() { g.emit(format!("x-text {}", hex(sm))); }
    let n = g.budget(400, 8000);
    for _ in 0..n {
        let base = super::c01::gen_full_doc(&mut g.rng);
        if base.len() > 400 { continue; }
        g.emit(format!("x-text {}", hex(&base)));
        for _ in 0..3 { let d = docgen::mutate(&mut g.rng, &base, docgen::TEXT_ALPHABET); g.emit(format!("x-text {}", hex(&d))); }
        // splice two documents: the tail of one inside a container of the other
        let other = super::c01::gen_full_doc(&mut g.rng);
        if !base.is_empty() && other.len() < 400 { let k = g.rng.below(base.len()); let mut v = base[..k].to_vec(); v.extend_from_slice(&other); v.extend_from_slice(&base[k..]); g.emit(format!("x-text {}", hex(&v))); }
    }
    g.count("full-syntax-mutated");
    g.count("every-prefix");
    // 3. random strings
    let n = g.budget(1500, 30000);
    for _ in 0..n {
        let d = docgen::random_text(&mut g.rng, 40);
        g.emit(format!("x-text {}", hex(&d)));
        let len = g.rng.below(40);
        let d: Vec<u8> = (0..len).map(|_| *g.rng.pick(&[0u8, 1, 3, 4, 0x0c, 0x0e, 0x0f, 0x14, 0x17, 0x0d, 0x67, 0x43, 0x9c, 2, 0xff, 0x20, b'a'])).collect();
        g.emit(format!("x-bin {}", hex(&d)));
        let len = g.rng.below(24);
        let d: Vec<u8> = (0..len).map(|_| *g.rng.pick(b"0123456789.-+ye sno\xff\\\xe9\xc3\xa9\x80")).collect();
        g.emit(format!("x-leaf {}", hex(&d)));
    }
    // 4. fixtures from the repository, bit-flipped / truncated
    if let Ok(rd) = std::fs::read_dir("/repo/tests/fixtures") {
        let mut paths: Vec<_> = rd.flatten().map(|e| e.path()).filter(|p| p.is_file()).collect();
        paths.sort();
        for p in paths {
            if let Ok(data) = std::fs::read(&p) {
                if data.len() > 20000 { continue; }
                let bin = p.extension().map(|e| e == "bin").unwrap_or(false) || !data.iter().take(64).all(|b| *b >= 9);
                let reps = g.budget(4, 40);
                for i in 0..reps {
                    let mut v = data.clone();
                    if i > 0 && !v.is_empty() {
                        match g.rng.below(3) { 0 => { let p = g.rng.below(v.len()); v[p] ^= 1 << g.rng.below(8); } 1 => { let k = g.rng.below(v.len()); v.truncate(k); } _ => { v = docgen::mutate(&mut g.rng, &v, docgen::TEXT_ALPHABET); } }
                    }
                    g.emit(format!("{} {}", if bin { "x-bin" } else { "x-text" }, hex(&v)));
                    g.count("fixture");
                }
            }
        }
    }
    // 5. adversarial shapes: unterminated quotes, huge length prefixes, deep nesting (isolated)
    for s in [&b"a=\"unterminated"[..], b"\"", b"a=\"\\", b"a={b={c={", b"}}}}", b"a=b}", b"@[", b"[[", b"[[a]", b"a=[[b] c=d", b"a = { [[b] c ] }", b"#", b"a=#\n", b"\xef\xbb", b"\xef\xbb\xbf", b"\xef\xbb\xbf\xef\xbb\xbf a=b"] {
        g.emit(format!("x-text {}", hex(s)));
    }
    for s in [&[0x0f, 0, 0xff, 0xff, b'a'][..], &[0x17, 0, 0xff, 0x7f], &[3, 0, 3, 0, 3, 0], &[4, 0, 4, 0], &[0x43, 2, 3, 0, 0x14, 0], &[0, 0x20, 1, 0], &[1, 0, 1, 0, 1, 0]] {
        g.emit(format!("x-bin {}", hex(s)));
    }
    for e in ISO_ENTRIES {
        g.emit(format!("x-iso {} 1000", e));
        // the DOM walk at this depth would overflow through the harness's own recursion, not the library's
        if e != "text-dom" { g.emit(format!("x-iso {} 100000", e)); }
    }
    g.count("adversarial");
}

pub fn tables() -> String {
    String::new()
}
