//! C08 — streaming binary reader equals the slice lexer; token encoding round-trips.
//! Also the binary byte→token clauses of C09 (skip), C19 (prefixes) and C20 (read faults);
//! their generators are exported separately (`gen_skip`, `gen_cut`, `gen_fault`).
//!
//! ops (all answered by the Lean model as well, see lean/JominiModel/Driver/C08.lean):
//!   bwritefail <toks> <k> | blexbytes <hex> <n,n,..> | bparts <cap> <sched> <hex> <k> | bfits <cap> <hex> | blex <hex> | blexid <hex> | bpeek <hex> | bcut <hex> <k> | bwrite <toks>
//!   bstream <cap> <sched> <hex> | bread <cap> <sched> <hex> | bcalls <cap> <sched> <hex> <n>
//!   breadbytes <cap> <sched> <hex> <n,n,..>
//!   bskip <cap> <sched> <hex> <k> | bskipretry <cap> <sched> <hex> <k> | blexskip <hex> <k> | blexskipv <hex> <k>
//!   bufops <cap> <sched> <hex> <ops>
//! <cap> = n (fresh buffer) | r<n> (recycled buffer full of 0xaa) | S (from_slice)
#![allow(dead_code)]
use crate::common::*;
use crate::docgen::{self, BinCfg, DocCfg};
use crate::sched::{self, SchedReader, Step};
use crate::show::bin_lex_tok;
use jomini::binary::{LexError, LexemeId, Lexer, ReaderError, ReaderErrorKind, Rgb, Token, TokenReader};
use jomini::verif_hooks::{BufferError, BufferWindowBuilder};
use jomini::Scalar;
use std::cell::RefCell;
use std::io::Read;
use std::rc::Rc;

// ------------------------------------------------------------------------------------------
// printing / parsing

fn lex_err(e: &LexError) -> &'static str {
    match e {
        LexError::Eof => "err:eof",
        LexError::InvalidRgb => "err:invalidrgb",
    }
}

fn rd_err(e: &ReaderError) -> &'static str {
    match e.kind() {
        ReaderErrorKind::Read(_) => "err:io",
        ReaderErrorKind::BufferFull => "err:bufferfull",
        ReaderErrorKind::Lexer(l) => lex_err(l),
    }
}

/// err_report for the slice lexer: the error must carry the lexer's position at the time of the
/// error, its Display must be the text of its kind, and it has no source.  A wrong report
/// becomes `err:badreport`, which no model output matches.
fn lex_report(e: &jomini::binary::LexerError, pos_now: usize) -> &'static str {
    use std::error::Error;
    let kind = *e.kind();
    // message TEXTS are free to change (no property speaks about them): the report must carry the right position, say
    // something, mention that position, and be consistent with its kind
    let ok = e.position() == pos_now
        && !e.to_string().is_empty()
        && e.to_string().contains(&pos_now.to_string())
        && e.source().is_none()
        && !kind.to_string().is_empty()
        && kind.source().is_none()
        && e.clone().into_kind() == kind;
    if ok { lex_err(&kind) } else { "err:badreport" }
}

/// err_report for the streaming reader: position() == the reader's position at the time of the
/// error, the message mentions it, source() is Some exactly for Read errors.
fn rd_report(e: &ReaderError, pos_now: usize) -> &'static str {
    use std::error::Error;
    let is_read = matches!(e.kind(), ReaderErrorKind::Read(_));
    let ok = e.position() == pos_now && e.to_string().contains(&pos_now.to_string()) && e.source().is_some() == is_read;
    if ok { rd_err(e) } else { "err:badreport" }
}

fn join(v: &[String]) -> String {
    if v.is_empty() { "-".to_string() } else { v.join(",") }
}

/// owned token (the case line form)
#[derive(Clone, Debug, PartialEq)]
pub enum OTok {
    Open, Close, Equal, U32(u32), U64(u64), I32(i32), Bool(bool), Quoted(Vec<u8>), Unquoted(Vec<u8>),
    F32([u8; 4]), F64([u8; 8]), Rgb(u32, u32, u32, Option<u32>), I64(i64), Id(u16),
}

impl OTok {
    pub fn borrow(&self) -> Token<'_> {
        match self {
            OTok::Open => Token::Open,
            OTok::Close => Token::Close,
            OTok::Equal => Token::Equal,
            OTok::U32(v) => Token::U32(*v),
            OTok::U64(v) => Token::U64(*v),
            OTok::I32(v) => Token::I32(*v),
            OTok::Bool(v) => Token::Bool(*v),
            OTok::Quoted(s) => Token::Quoted(Scalar::new(s)),
            OTok::Unquoted(s) => Token::Unquoted(Scalar::new(s)),
            OTok::F32(b) => Token::F32(*b),
            OTok::F64(b) => Token::F64(*b),
            OTok::Rgb(r, g, b, a) => Token::Rgb(Rgb { r: *r, g: *g, b: *b, a: *a }),
            OTok::I64(v) => Token::I64(*v),
            OTok::Id(v) => Token::Id(*v),
        }
    }
    pub fn show(&self) -> String {
        bin_lex_tok(&self.borrow())
    }
    pub fn kind(&self) -> &'static str {
        match self {
            OTok::Open => "open", OTok::Close => "close", OTok::Equal => "equal", OTok::U32(_) => "u32", OTok::U64(_) => "u64",
            OTok::I32(_) => "i32", OTok::Bool(_) => "bool", OTok::Quoted(_) => "quoted", OTok::Unquoted(_) => "unquoted",
            OTok::F32(_) => "f32", OTok::F64(_) => "f64", OTok::Rgb(..) => "rgb", OTok::I64(_) => "i64", OTok::Id(_) => "id",
        }
    }
    /// the hypothesis `WfTok` of the Lean theorem C08_codec
    pub fn wf(&self) -> bool {
        match self {
            OTok::Id(v) => LexemeId::new(*v).is_id(),
            OTok::Quoted(s) | OTok::Unquoted(s) => s.len() <= 65535,
            _ => true,
        }
    }
    pub fn write(&self, out: &mut Vec<u8>) {
        self.borrow().write(out).unwrap();
    }
}

fn parse_tok(s: &str) -> Option<OTok> {
    let (k, v) = match s.split_once(':') {
        Some((k, v)) => (k, v),
        None => (s, ""),
    };
    Some(match k {
        "Open" => OTok::Open,
        "Close" => OTok::Close,
        "Equal" => OTok::Equal,
        "U32" => OTok::U32(v.parse().ok()?),
        "U64" => OTok::U64(v.parse().ok()?),
        "I32" => OTok::I32(v.parse().ok()?),
        "I64" => OTok::I64(v.parse().ok()?),
        "Bool" => OTok::Bool(match v { "1" => true, "0" => false, _ => return None }),
        "Q" => OTok::Quoted(unhex(v)?),
        "U" => OTok::Unquoted(unhex(v)?),
        "F32" => OTok::F32(unhex(v)?.try_into().ok()?),
        "F64" => OTok::F64(unhex(v)?.try_into().ok()?),
        "Id" => OTok::Id(v.parse().ok()?),
        "Rgb" => {
            let p: Vec<u32> = v.split('.').map(|x| x.parse().ok()).collect::<Option<_>>()?;
            match p.len() {
                3 => OTok::Rgb(p[0], p[1], p[2], None),
                4 => OTok::Rgb(p[0], p[1], p[2], Some(p[3])),
                _ => return None,
            }
        }
        _ => return None,
    })
}

fn parse_toks(s: &str) -> Option<Vec<OTok>> {
    if s == "-" { return Some(vec![]); }
    s.split(',').map(parse_tok).collect()
}

fn show_toks(t: &[OTok]) -> String {
    join(&t.iter().map(|x| x.show()).collect::<Vec<_>>())
}

// ------------------------------------------------------------------------------------------
// reference run of the slice lexer

pub struct LexRun {
    pub toks: Vec<String>,
    /// byte offset just after each token
    pub ends: Vec<usize>,
    pub kinds: Vec<u8>, // b'o' open, b'c' close, b'x' other
    pub outcome: &'static str,
    pub pos: usize,
}

/// the lexer run stopped on an rgb lexeme (malformed OR truncated rgb block). The skip walks lexemes, not
/// tokens, and reads such bytes as ordinary lexemes, so on a stream the lexer itself rejects inside an rgb
/// block the two are not comparable (C09 speaks about well-formed documents).
pub fn failed_in_rgb(fr: &LexRun, d: &[u8]) -> bool {
    fr.outcome != "end" && d.len() >= fr.pos + 2 && u16::from_le_bytes([d[fr.pos], d[fr.pos + 1]]) == 0x0243
}

pub fn lex_run(d: &[u8]) -> LexRun {
    let mut lx = Lexer::new(d);
    let mut r = LexRun { toks: vec![], ends: vec![], kinds: vec![], outcome: "end", pos: 0 };
    loop {
        match lx.next_token() {
            Ok(Some(t)) => {
                r.kinds.push(match t { Token::Open => b'o', Token::Close => b'c', _ => b'x' });
                r.toks.push(bin_lex_tok(&t));
                r.ends.push(lx.position());
            }
            Ok(None) => { r.outcome = "end"; break; }
            Err(e) => { r.outcome = lex_err(e.kind()); break; }
        }
    }
    r.pos = lx.position();
    r
}

/// smallest buffer capacity for which the Lean hypothesis `Fits cap data` holds: every
/// token fits, and the bytes of a failing trailing token do not fill the buffer.
pub fn min_cap(d: &[u8]) -> usize {
    let r = lex_run(d);
    let mut need = 1usize;
    let mut prev = 0usize;
    for &e in &r.ends {
        need = need.max(e - prev);
        prev = e;
    }
    let rest = &d[r.pos..];
    match r.outcome {
        "err:eof" => need = need.max(rest.len() + 1),
        "err:invalidrgb" => {
            // largest prefix of the rest on which the lexer still says Eof
            let mut k = 0;
            while k <= rest.len() && matches!(Lexer::new(&rest[..k]).read_token().map_err(|e| *e.kind()), Err(LexError::Eof)) {
                k += 1;
            }
            need = need.max(k); // k-1 is the largest Eof prefix; cap must exceed it
        }
        _ => {}
    }
    need
}

// ------------------------------------------------------------------------------------------
// scheduled source shared between the reader and the observer

struct Shared<'a>(Rc<RefCell<SchedReader<'a>>>);
impl<'a> Read for Shared<'a> {
    fn read(&mut self, buf: &mut [u8]) -> std::io::Result<usize> {
        self.0.borrow_mut().read(buf)
    }
}

enum CapW { Fresh(usize), Recycled(usize), Slice }

fn parse_cap(s: &str) -> Option<CapW> {
    if s == "S" { Some(CapW::Slice) }
    else if let Some(n) = s.strip_prefix('r') { n.parse().ok().map(CapW::Recycled) }
    else { s.parse().ok().map(CapW::Fresh) }
}

fn cap_value(c: &CapW, len: usize) -> usize {
    match c { CapW::Fresh(n) | CapW::Recycled(n) => *n, CapW::Slice => len.max(1) + 70000 }
}

/// run `f` with a TokenReader built as the `<cap>` word says; `f` also gets a closure
/// returning the number of bytes the source has delivered so far.
fn with_reader<T>(cap: &CapW, steps: Vec<Step>, data: &[u8], f: impl FnOnce(&mut dyn Stream, &dyn Fn() -> (usize, usize, usize)) -> T) -> T {
    match cap {
        CapW::Slice => {
            let mut rd = TokenReader::from_slice(data);
            f(&mut rd, &|| (0, 0, 0))
        }
        CapW::Fresh(n) | CapW::Recycled(n) => {
            let sr = Rc::new(RefCell::new(SchedReader::new(data, steps)));
            let b = TokenReader::builder();
            let b = match cap { CapW::Recycled(_) => b.buffer(vec![0xaa; *n].into_boxed_slice()), _ => b.buffer_len(*n) };
            let mut rd = b.build(Shared(sr.clone()));
            let obs = sr.clone();
            f(&mut rd, &move || { let s = obs.borrow(); (s.delivered(), s.faults, s.idx) })
        }
    }
}

/// object-safe view of `TokenReader<R>` with results already rendered
trait Stream {
    fn next_s(&mut self) -> Result<Option<(String, u8)>, (&'static str, usize)>;
    fn read_s(&mut self) -> Result<String, (&'static str, usize)>;
    fn read_bytes_s(&mut self, n: usize) -> Result<String, (&'static str, usize)>;
    fn skip_s(&mut self) -> Result<(), (&'static str, usize)>;
    fn pos(&self) -> usize;
}
impl<R: Read> Stream for TokenReader<R> {
    fn next_s(&mut self) -> Result<Option<(String, u8)>, (&'static str, usize)> {
        match self.next() {
            Ok(Some(t)) => Ok(Some((bin_lex_tok(&t), match t { Token::Open => b'o', Token::Close => b'c', _ => b'x' }))),
            Ok(None) => Ok(None),
            Err(e) => { let p = e.position(); Err((rd_report(&e, self.position()), p)) }
        }
    }
    fn read_s(&mut self) -> Result<String, (&'static str, usize)> {
        match self.read() {
            Ok(t) => Ok(bin_lex_tok(&t)),
            Err(e) => { let p = e.position(); Err((rd_report(&e, self.position()), p)) }
        }
    }
    fn read_bytes_s(&mut self, n: usize) -> Result<String, (&'static str, usize)> {
        match self.read_bytes(n) {
            Ok(b) => Ok(hex(b)),
            Err(e) => { let p = e.position(); Err((rd_report(&e, self.position()), p)) }
        }
    }
    fn skip_s(&mut self) -> Result<(), (&'static str, usize)> {
        match self.skip_container() {
            Ok(()) => Ok(()),
            Err(e) => { let p = e.position(); Err((rd_report(&e, self.position()), p)) }
        }
    }
    fn pos(&self) -> usize {
        self.position()
    }
}

fn has_fault(steps: &[Step]) -> bool {
    steps.iter().any(|s| matches!(s, Step::Fail | Step::FailForever))
}

/// index of a reachable `P` step (no `R` before it)
fn reachable_p(steps: &[Step]) -> Option<usize> {
    for (i, s) in steps.iter().enumerate() {
        match s {
            Step::Repeat(_) => return None,
            Step::FailForever => return Some(i),
            _ => {}
        }
    }
    None
}

/// reference for skip: index of the token after the close matching the `k`-th open
/// (None: no such open; Some(Err): never closed)
fn balanced(lr: &LexRun, k: usize) -> Option<Result<usize, ()>> {
    let mut seen = 0;
    let mut start = None;
    for (i, &c) in lr.kinds.iter().enumerate() {
        if c == b'o' {
            if seen == k { start = Some(i); break; }
            seen += 1;
        }
    }
    let start = start?;
    let mut depth = 1i64;
    for i in start + 1..lr.kinds.len() {
        match lr.kinds[i] { b'o' => depth += 1, b'c' => depth -= 1, _ => {} }
        if depth == 0 { return Some(Ok(i + 1)); }
    }
    Some(Err(()))
}

// ------------------------------------------------------------------------------------------

pub fn exec(w: &[&str], obs: &mut Obs) -> Option<String> {
    let r = exec_inner(w, obs)?;
    // err_report: a wrong error report (position / Display / source) surfaces as err:badreport
    if r.contains("err:badreport") { obs.violation("err-report", &w.join(" "), &r); }
    Some(r)
}

fn exec_inner(w: &[&str], obs: &mut Obs) -> Option<String> {
    let case = || w.join(" ");
    match w {
        ["blex", h] | ["bcut", h, _] => {
            let full = unhex(h)?;
            let d: &[u8] = if w[0] == "bcut" { let k: usize = w[2].parse().ok()?; if k > full.len() { return None; } &full[..k] } else { &full };
            let mut lx = Lexer::new(d);
            let mut toks = vec![];
            let outcome;
            loop {
                // L3: peek agrees with what is read next
                let pk = lx.peek_token().map(|t| bin_lex_tok(&t));
                let pid = lx.peek_id();
                let rem = lx.remainder();
                let want_pid = if rem.len() >= 2 { Some(LexemeId::new(u16::from_le_bytes([rem[0], rem[1]]))) } else { None };
                if pid != want_pid { obs.violation("peek-id", &case(), &format!("at {}", lx.position())); }
                let before = lx.position();
                match lx.next_token() {
                    Ok(Some(t)) => {
                        let s = bin_lex_tok(&t);
                        if pk.as_deref() != Some(&s) { obs.violation("peek-token", &case(), &format!("at {} peek {:?} next {}", before, pk, s)); }
                        obs.count(&format!("tok:{}", s.split(':').next().unwrap()));
                        toks.push(s);
                    }
                    Ok(None) => {
                        if pk.is_some() || !rem.is_empty() { obs.violation("end-with-data", &case(), ""); }
                        outcome = "end";
                        break;
                    }
                    Err(e) => {
                        if pk.is_some() { obs.violation("peek-token", &case(), "peek Some on failing token"); }
                        if e.position() != lx.position() || lx.position() != before { obs.violation("err-position", &case(), ""); }
                        outcome = lex_report(&e, lx.position());
                        break;
                    }
                }
            }
            obs.count(&format!("{}:{}", w[0], outcome));
            // L3: read_token (not next_token) gives the same tokens and turns a clean end into Eof
            {
                let mut l2 = Lexer::new(d);
                let mut n = 0;
                let o2 = loop {
                    match l2.read_token() { Ok(t) => { if toks.get(n) != Some(&bin_lex_tok(&t)) { break "diff"; } n += 1; } Err(e) => break lex_report(&e, l2.position()) }
                };
                let want = if outcome == "end" { "err:eof" } else { outcome };
                if o2 != want || n != toks.len() || l2.position() != lx.position() { obs.violation("read-token-vs-next-token", &case(), o2); }
            }
            if w[0] == "bcut" {
                // L3 (C19): the prefix yields exactly the full input's tokens ending at or before k,
                // then a clean end iff k is a token boundary, otherwise Eof
                let k = d.len();
                let fr = lex_run(&full);
                let n = fr.ends.iter().take_while(|e| **e <= k).count();
                let boundary = k == 0 || fr.ends[..n].last() == Some(&k);
                // the full run may stop early on an error of its own: then nothing is claimed beyond it
                let full_covers = n < fr.ends.len() || fr.pos >= k || fr.outcome == "end";
                if toks[..] != fr.toks[..n.min(fr.toks.len())] && full_covers {
                    obs.violation("prefix-tokens", &case(), &format!("prefix {:?} full {:?}", toks, &fr.toks[..n]));
                }
                if full_covers && n < fr.ends.len() {
                    let want = if boundary { "end" } else { "err:eof" };
                    if outcome != want { obs.violation("prefix-outcome", &case(), &format!("got {} want {}", outcome, want)); }
                }
                if outcome == "err:invalidrgb" && fr.outcome != "err:invalidrgb" { obs.violation("prefix-fabricated-error", &case(), ""); }
                obs.count(if boundary { "cut:boundary" } else { "cut:inside" });
            }
            Some(format!("{} {} {}", join(&toks), outcome, lx.position()))
        }
        ["bfits", cw, h] => {
            // the hypothesis of the streaming theorems as the harness computes it (min_cap);
            // the driver evaluates the Lean definition `fitsBuffer`
            let d = unhex(h)?;
            let cap: usize = cw.parse().ok()?;
            Some(if cap >= min_cap(&d) { "true" } else { "false" }.to_string())
        }
        ["blexbytes", h, nsw] => {
            // Lexer::read_bytes (lexer.rs:762), then the next token
            let d = unhex(h)?;
            let ns: Vec<usize> = if *nsw == "-" { vec![] } else { nsw.split(',').map(|x| x.parse().ok()).collect::<Option<_>>()? };
            let mut lx = Lexer::new(&d);
            let mut log = vec![];
            let mut at = 0usize;
            for &n in &ns {
                match lx.read_bytes(n) {
                    Ok(b) => {
                        if at + n > d.len() || b != &d[at..at + n] { obs.violation("lexer-read-bytes-content", &case(), ""); }
                        at += n;
                        log.push(format!("{}@{}", hex(b), lx.position()));
                    }
                    Err(e) => {
                        if at + n <= d.len() { obs.violation("lexer-read-bytes-spurious-eof", &case(), ""); }
                        obs.count("blexbytes:err:eof");
                        log.push(format!("{}@{}", lex_report(&e, lx.position()), lx.position()));
                    }
                }
                if lx.position() != at || lx.remainder() != &d[at..] { obs.violation("lexer-read-bytes-position", &case(), ""); }
            }
            let nx = match lx.next_token() {
                Ok(Some(t)) => bin_lex_tok(&t),
                Ok(None) => "end".to_string(),
                Err(e) => lex_report(&e, lx.position()).to_string(),
            };
            Some(format!("{} {} {}", join(&log), nx, lx.position()))
        }
        ["bparts", cw, sw, h, kw] => {
            // k tokens, then into_parts (reader.rs:182); the buffer and the source are re-wrapped in a
            // new TokenReader.  The API does not carry the window over, so the new reader continues
            // with the bytes not yet delivered.
            let d = unhex(h)?;
            let steps = sched::parse(sw)?;
            let k: usize = kw.parse().ok()?;
            let (cap, recycled) = match parse_cap(cw)? { CapW::Fresh(n) => (n, false), CapW::Recycled(n) => (n, true), CapW::Slice => return None };
            let faulty = has_fault(&steps);
            let sr = Rc::new(RefCell::new(SchedReader::new(&d, steps)));
            let bld = TokenReader::builder();
            let bld = if recycled { bld.buffer(vec![0xaa; cap].into_boxed_slice()) } else { bld.buffer_len(cap) };
            let mut rd = bld.build(Shared(sr.clone()));
            let mut before = vec![];
            let mut out1 = "ok";
            for _ in 0..k {
                match rd.next() {
                    Ok(Some(t)) => before.push(bin_lex_tok(&t)),
                    Ok(None) => { out1 = "end"; break; }
                    Err(e) => { out1 = rd_report(&e, rd.position()); break; }
                }
            }
            let pos1 = rd.position();
            let deliv1 = sr.borrow().delivered();
            let (buf, reader) = rd.into_parts();
            // L3: the buffer is the one the reader was built with, the source has not moved, and the
            // delivered-but-unconsumed bytes are a contiguous run of the returned buffer
            if buf.len() != cap { obs.violation("into-parts-buffer-len", &case(), ""); }
            if sr.borrow().delivered() != deliv1 || pos1 > deliv1 { obs.violation("into-parts-source-moved", &case(), ""); }
            let win = &d[pos1..deliv1];
            if !win.is_empty() && !buf.windows(win.len()).any(|w| w == win) { obs.violation("into-parts-window-lost", &case(), ""); }
            let bufhex = hex(&buf);
            let mut rd2 = TokenReader::builder().buffer(buf).build(reader);
            let mut after = vec![];
            let out2;
            loop {
                match rd2.next() {
                    Ok(Some(t)) => after.push(bin_lex_tok(&t)),
                    Ok(None) => { out2 = "end"; break; }
                    Err(e) => { out2 = rd_report(&e, rd2.position()); break; }
                }
            }
            // L3: the re-wrapped reader streams exactly the lexer stream of the undelivered bytes
            let rest = &d[deliv1..];
            let fr = lex_run(rest);
            if cap >= min_cap(rest) && !faulty && (after != fr.toks || out2 != fr.outcome || rd2.position() != fr.pos) {
                obs.violation("into-parts-rewrap-ne-lexer", &case(), &format!("{:?} {} vs {:?} {}", after, out2, fr.toks, fr.outcome));
            }
            obs.count(&format!("bparts:{}:{}", out1, out2));
            let deliv2 = sr.borrow().delivered();
            Some(format!("{} {} {} {} {} {} {} {} {}", join(&before), out1, pos1, deliv1, bufhex, join(&after), out2, rd2.position(), deliv2))
        }
        ["blexid", h] => {
            let d = unhex(h)?;
            let mut lx = Lexer::new(&d);
            let mut toks: Vec<String> = vec![];
            let mut outcome = "end";
            loop {
                let id = match lx.next_id() {
                    Ok(Some(id)) => id,
                    Ok(None) => break,
                    Err(e) => { outcome = lex_report(&e, lx.position()); break; }
                };
                macro_rules! rd { ($call:expr, $mk:expr) => { match $call { Ok(x) => $mk(x), Err(e) => { outcome = lex_report(&e, lx.position()); break; } } }; }
                let t: Token = match id {
                    LexemeId::OPEN => Token::Open,
                    LexemeId::CLOSE => Token::Close,
                    LexemeId::EQUAL => Token::Equal,
                    LexemeId::U32 => rd!(lx.read_u32(), Token::U32),
                    LexemeId::U64 => rd!(lx.read_u64(), Token::U64),
                    LexemeId::I32 => rd!(lx.read_i32(), Token::I32),
                    LexemeId::BOOL => rd!(lx.read_bool(), Token::Bool),
                    LexemeId::QUOTED => rd!(lx.read_string(), Token::Quoted),
                    LexemeId::UNQUOTED => rd!(lx.read_string(), Token::Unquoted),
                    LexemeId::F32 => rd!(lx.read_f32(), Token::F32),
                    LexemeId::F64 => rd!(lx.read_f64(), Token::F64),
                    LexemeId::RGB => rd!(lx.read_rgb(), Token::Rgb),
                    LexemeId::I64 => rd!(lx.read_i64(), Token::I64),
                    LexemeId(x) => Token::Id(x),
                };
                toks.push(bin_lex_tok(&t));
            }
            // L3: the primitives agree with next_token (position differs only on a failing payload:
            // the id has already been consumed)
            let fr = lex_run(&d);
            if toks != fr.toks || outcome != fr.outcome { obs.violation("primitives-vs-next-token", &case(), &format!("{:?}/{} vs {:?}/{}", toks, outcome, fr.toks, fr.outcome)); }
            Some(format!("{} {} {}", join(&toks), outcome, lx.position()))
        }
        ["bpeek", h] => {
            let d = unhex(h)?;
            let lx = Lexer::new(&d);
            let a = lx.peek_id().map(|i| i.0.to_string()).unwrap_or("none".into());
            let b = lx.peek_token().map(|t| bin_lex_tok(&t)).unwrap_or("none".into());
            Some(format!("{} {}", a, b))
        }
        ["bwrite", ts] => {
            let toks = parse_toks(ts)?;
            let mut out = vec![];
            for t in &toks { t.write(&mut out); obs.count(&format!("write:{}", t.kind())); }
            // L3: write -> lex round trip (for well-formed tokens), slice lexer and default reader
            let wf = toks.iter().all(|t| t.wf());
            let fr = lex_run(&out);
            let same = fr.toks == toks.iter().map(|t| t.show()).collect::<Vec<_>>() && fr.outcome == "end" && fr.pos == out.len();
            if wf {
                if !same { obs.violation("write-lex-roundtrip", &case(), &format!("lexed {:?} {} {}", fr.toks, fr.outcome, fr.pos)); }
                // the default reader (32 KiB buffer) when everything fits, an exact-fit one otherwise
                let mut rd = if min_cap(&out) <= 32 * 1024 { TokenReader::new(&out[..]) } else { TokenReader::builder().buffer_len(min_cap(&out)).build(&out[..]) };
                let mut n = 0;
                loop {
                    match rd.next() {
                        Ok(Some(t)) => { if fr.toks.get(n) != Some(&bin_lex_tok(&t)) { obs.violation("write-stream-roundtrip", &case(), ""); break; } n += 1; }
                        Ok(None) => { if n != toks.len() || rd.position() != out.len() { obs.violation("write-stream-roundtrip", &case(), "short"); } break; }
                        Err(_) => { obs.violation("write-stream-roundtrip", &case(), "error"); break; }
                    }
                }
                obs.count("write:wf");
            } else {
                // the two exclusions of WfTok, demonstrated on the real code
                obs.count(if same { "write:excluded-but-roundtrips" } else { "write:excluded-differs" });
            }
            Some(hex(&out))
        }
        ["bwritefail", ts, kw] => {
            // Token::write into a writer that accepts k bytes and then fails: every `?` of write()
            let toks = parse_toks(ts)?;
            let k: usize = kw.parse().ok()?;
            struct Limited { out: Vec<u8>, left: usize }
            impl std::io::Write for Limited {
                fn write(&mut self, buf: &[u8]) -> std::io::Result<usize> {
                    if self.left == 0 && !buf.is_empty() { return Err(std::io::Error::new(std::io::ErrorKind::Other, "writer full")); }
                    let n = self.left.min(buf.len());
                    self.out.extend_from_slice(&buf[..n]);
                    self.left -= n;
                    Ok(n)
                }
                fn flush(&mut self) -> std::io::Result<()> { Ok(()) }
            }
            let mut w = Limited { out: vec![], left: k };
            let mut res = "ok";
            for t in &toks { if t.borrow().write(&mut w).is_err() { res = "err:io"; break; } }
            // L3: what reached the writer is a prefix of the full encoding; an error iff it did not all fit
            let full = encode(&toks);
            if !full.starts_with(&w.out) || (res == "ok") != (w.out.len() == full.len()) || w.out.len() != k.min(full.len()) {
                obs.violation("write-partial", &case(), &hex(&w.out));
            }
            Some(format!("{} {}", hex(&w.out), res))
        }
        ["bstream", cw, sw, h] | ["bread", cw, sw, h] => {
            let d = unhex(h)?;
            let steps = sched::parse(sw)?;
            let cap = parse_cap(cw)?;
            let use_read = w[0] == "bread";
            let fr = lex_run(&d);
            let fits = cap_value(&cap, d.len()) >= min_cap(&d);
            let faulty = has_fault(&steps);
            let line = with_reader(&cap, steps.clone(), &d, |rd, st| {
                let mut toks = vec![];
                let outcome;
                loop {
                    let r = if use_read { rd.read_s().map(|t| Some((t, 0u8))) } else { rd.next_s() };
                    let (deliv, _, _) = st();
                    if !matches!(cap, CapW::Slice) && rd.pos() > deliv { obs.violation("position-beyond-delivered", &case(), &format!("{} > {}", rd.pos(), deliv)); }
                    match r {
                        Ok(Some((t, _))) => toks.push(t),
                        Ok(None) => { outcome = "end"; break; }
                        Err((k, p)) => { if p != rd.pos() { obs.violation("err-position", &case(), ""); } outcome = k; break; }
                    }
                }
                let (deliv, faults, _) = st();
                let pos = rd.pos();
                // L3
                let want_outcome = if use_read && fr.outcome == "end" { "err:eof" } else { fr.outcome };
                let equal = toks == fr.toks && outcome == want_outcome && pos == fr.pos;
                let is_prefix = toks.len() <= fr.toks.len() && toks[..] == fr.toks[..toks.len()];
                if !is_prefix { obs.violation("stream-token-not-lexer-token", &case(), &format!("{:?} vs {:?}", toks, fr.toks)); }
                if fits && !faulty && !equal {
                    obs.violation("stream-ne-lexer", &case(), &format!("stream {:?} {} {} lexer {:?} {} {}", toks, outcome, pos, fr.toks, want_outcome, fr.pos));
                }
                if fits && faulty && !(equal || outcome == "err:io") {
                    obs.violation("fault-changed-result", &case(), &format!("{} {}", outcome, pos));
                }
                if outcome == "err:io" && faults == 0 { obs.violation("io-error-without-fault", &case(), ""); }
                let zero_cap = matches!(cap, CapW::Fresh(0) | CapW::Recycled(0));
                if zero_cap {
                    // probe (known finding): a zero-length builder buffer is treated as slice mode and the
                    // reader reports a clean end without reading a byte, although input is pending
                    if outcome == "end" && !d.is_empty() {
                        obs.violation("zero-capacity-buffer-drops-input", &case(), &format!("clean end at {} with {} bytes pending, {} delivered", pos, d.len(), deliv));
                    }
                } else if !fits && !equal && !outcome.starts_with("err:") {
                    obs.violation("small-buffer-not-error", &case(), outcome);
                }
                // C08_too_small_is_error on the real code: caps >= 1, fault-free, some token does not fit
                if !zero_cap && !fits && !faulty && !matches!(cap, CapW::Slice) && outcome != "err:bufferfull" {
                    obs.violation("small-buffer-not-bufferfull", &case(), outcome);
                }
                if outcome == "end" && !matches!(cap, CapW::Slice) && deliv != d.len() && fits { obs.violation("clean-end-before-all-delivered", &case(), ""); }
                obs.count(&format!("{}:{}{}{}", w[0], outcome, if fits { "" } else { ":small" }, if faulty { ":faulty" } else { "" }));
                // `delivered` is pure accounting (it depends on how much each fill asks for, i.e. on the
                // buffer's compaction policy): printed as a wildcard; `position <= delivered` and
                // "clean end only after everything was delivered" stay as oracles above
                let _ = deliv;
                format!("{} {} {} dlv:?", join(&toks), outcome, pos)
            });
            Some(line)
        }
        ["bcalls", cw, sw, h, nw] => {
            let d = unhex(h)?;
            let steps = sched::parse(sw)?;
            let cap = parse_cap(cw)?;
            let n: usize = nw.parse().ok()?;
            let fr = lex_run(&d);
            let fits = cap_value(&cap, d.len()) >= min_cap(&d);
            let pidx = reachable_p(&steps);
            let line = with_reader(&cap, steps.clone(), &d, |rd, st| {
                let mut log = vec![];
                let mut seen = 0usize; // tokens returned so far
                let mut p_hit = false; // the persistent fault has been returned by a read call
                for _ in 0..n {
                    let (_, f0, i0) = st();
                    let r = rd.next_s();
                    let (deliv, f1, _) = st();
                    if pidx.is_some() && Some(i0) == pidx && f1 > f0 { p_hit = true; }
                    let pos = rd.pos();
                    if !matches!(cap, CapW::Slice) && pos > deliv { obs.violation("position-beyond-delivered", &case(), ""); }
                    let s = match r {
                        Ok(Some((t, _))) => {
                            if fr.toks.get(seen) != Some(&t) { obs.violation("call-token-not-lexer-token", &case(), &format!("call token {} at index {}", t, seen)); }
                            seen += 1;
                            if fits && fr.ends.get(seen - 1) != Some(&pos) { obs.violation("call-position", &case(), ""); }
                            t
                        }
                        Ok(None) => {
                            if fits && !(seen == fr.toks.len() && fr.outcome == "end") { obs.violation("early-clean-end", &case(), &format!("after {} tokens", seen)); }
                            if p_hit { obs.violation("persistent-fault-clean-end", &case(), ""); }
                            "end".to_string()
                        }
                        Err((k, _)) => {
                            if fits && k != "err:io" && !(seen == fr.toks.len() && k == fr.outcome) { obs.violation("call-error-not-lexer-error", &case(), k); }
                            if fits && k == "err:bufferfull" { obs.violation("bufferfull-though-fits", &case(), ""); }
                            obs.count(&format!("bcalls:{}", k));
                            k.to_string()
                        }
                    };
                    log.push(format!("{}@{}", s, pos));
                }
                format!("{} dlv:?", join(&log))
            });
            Some(line)
        }
        ["breadbytes", cw, sw, h, nsw] => {
            let d = unhex(h)?;
            let steps = sched::parse(sw)?;
            let cap = parse_cap(cw)?;
            let ns: Vec<usize> = if *nsw == "-" { vec![] } else { nsw.split(',').map(|x| x.parse().ok()).collect::<Option<_>>()? };
            let capv = cap_value(&cap, d.len());
            let line = with_reader(&cap, steps.clone(), &d, |rd, st| {
                let mut log = vec![];
                let mut at = 0usize;
                for &n in &ns {
                    match rd.read_bytes_s(n) {
                        Ok(b) => {
                            // L3: exactly the next n bytes of the input
                            if at + n > d.len() || b != hex(&d[at..at + n]) { obs.violation("read-bytes-content", &case(), ""); }
                            at += n;
                            log.push(format!("{}@{}", b, rd.pos()));
                        }
                        Err((k, _)) => {
                            if k == "err:eof" && at + n <= d.len() && n <= capv && !has_fault(&steps) { obs.violation("read-bytes-spurious-eof", &case(), ""); }
                            log.push(format!("{}@{}", k, rd.pos()));
                        }
                    }
                    if rd.pos() != at { obs.violation("read-bytes-position", &case(), ""); }
                }
                format!("{} dlv:?", join(&log))
            });
            Some(line)
        }
        ["bskip", cw, sw, h, kw] => {
            let d = unhex(h)?;
            let steps = sched::parse(sw)?;
            let cap = parse_cap(cw)?;
            let k: usize = kw.parse().ok()?;
            let fr = lex_run(&d);
            let fits = cap_value(&cap, d.len()) >= min_cap(&d);
            let faulty = has_fault(&steps);
            let reference = balanced(&fr, k);
            let line = with_reader(&cap, steps.clone(), &d, |rd, st| {
                let mut left = k;
                loop {
                    match rd.next_s() {
                        Ok(Some((_, b'o'))) => { if left == 0 { break; } left -= 1; }
                        Ok(Some(_)) => {}
                        Ok(None) => return format!("noopen {}", rd.pos()),
                        Err((e, _)) => return format!("pre:{} {}", e, rd.pos()),
                    }
                }
                match rd.skip_s() {
                    Ok(()) => {
                        let p = rd.pos();
                        if p > st().0 && !matches!(cap, CapW::Slice) { obs.violation("position-beyond-delivered", &case(), ""); }
                        // L3: lands exactly after the matching close
                        match reference {
                            Some(Ok(next)) => { if fr.ends[next - 1] != p { obs.violation("skip-lands-elsewhere", &case(), &format!("at {} want {}", p, fr.ends[next - 1])); } }
                            Some(Err(())) if fr.outcome != "err:invalidrgb" && !failed_in_rgb(&fr, &d) => obs.violation("skip-ok-without-close", &case(), &format!("at {}", p)),
                            _ => {}
                        }
                        let nx = match rd.next_s() {
                            Ok(Some((t, _))) => {
                                if let Some(Ok(next)) = reference { if fits && fr.toks.get(next) != Some(&t) && !faulty { obs.violation("skip-next-token", &case(), &t); } }
                                t
                            }
                            Ok(None) => "end".to_string(),
                            Err((e, _)) => e.to_string(),
                        };
                        obs.count("bskip:ok");
                        format!("ok {} {} {}", p, nx, rd.pos())
                    }
                    Err((e, ep)) => {
                        if let Some(Ok(_)) = reference { if fits && !(faulty && e == "err:io") { obs.violation("skip-fails-on-balanced", &case(), e); } }
                        obs.count(&format!("bskip:{}", e));
                        format!("{} {} {}", e, ep, rd.pos())
                    }
                }
            });
            Some(line)
        }
        ["bskipretry", cw, sw, h, kw] => {
            // skip_container after the k-th Open; when it returns the I/O error, the caller simply calls
            // skip_container again (up to 6 times).  The depth counter is a local of the call.
            let d = unhex(h)?;
            let steps = sched::parse(sw)?;
            let cap = parse_cap(cw)?;
            let k: usize = kw.parse().ok()?;
            let fr = lex_run(&d);
            let fits = cap_value(&cap, d.len()) >= min_cap(&d);
            let reference = balanced(&fr, k);
            let line = with_reader(&cap, steps.clone(), &d, |rd, _st| {
                let mut left = k;
                loop {
                    match rd.next_s() {
                        Ok(Some((_, b'o'))) => { if left == 0 { break; } left -= 1; }
                        Ok(Some(_)) => {}
                        Ok(None) => return format!("noopen {}", rd.pos()),
                        Err((e, _)) => return format!("pre:{} {}", e, rd.pos()),
                    }
                }
                let mut retries = 0;
                loop {
                    match rd.skip_s() {
                        Ok(()) => {
                            let p = rd.pos();
                            // L3: a skip completed by retrying must land where the fault-free skip lands
                            if let Some(Ok(next)) = reference {
                                if fits && fr.ends[next - 1] != p {
                                    obs.violation("fault-retry-skip-depth", &case(), &format!("after {} retries landed at {} instead of {}", retries, p, fr.ends[next - 1]));
                                }
                            }
                            let nx = match rd.next_s() { Ok(Some((t, _))) => t, Ok(None) => "end".to_string(), Err((e, _)) => e.to_string() };
                            obs.count(&format!("bskipretry:ok:{}", retries.min(3)));
                            return format!("retries:{} ok {} {} {}", retries, p, nx, rd.pos());
                        }
                        Err(("err:io", _)) if retries < 6 => { retries += 1; }
                        Err((e, ep)) => {
                            if let Some(Ok(_)) = reference { if fits && e != "err:io" { obs.violation("fault-retry-skip-depth", &case(), &format!("after {} retries: {}", retries, e)); } }
                            obs.count(&format!("bskipretry:{}", e));
                            return format!("retries:{} {} {} {}", retries, e, ep, rd.pos());
                        }
                    }
                }
            });
            Some(line)
        }
        ["blexskip", h, kw] => {
            let d = unhex(h)?;
            let k: usize = kw.parse().ok()?;
            let fr = lex_run(&d);
            let reference = balanced(&fr, k);
            let mut lx = Lexer::new(&d);
            let mut left = k;
            loop {
                match lx.next_token() {
                    Ok(Some(Token::Open)) => { if left == 0 { break; } left -= 1; }
                    Ok(Some(_)) => {}
                    Ok(None) => return Some(format!("noopen {}", lx.position())),
                    Err(e) => return Some(format!("pre:{} {}", lex_report(&e, lx.position()), lx.position())),
                }
            }
            Some(lex_skip_report(&mut lx, LexemeId::OPEN, reference.map(|r| r.map(|n| fr.ends[n - 1])), if failed_in_rgb(&fr, &d) { "err:invalidrgb" } else { fr.outcome }, &case(), obs))
        }
        ["blexskipv", h, kw] => {
            let d = unhex(h)?;
            let k: usize = kw.parse().ok()?;
            let fr = lex_run(&d);
            let mut lx = Lexer::new(&d);
            for _ in 0..k {
                match lx.next_token() {
                    Ok(Some(_)) => {}
                    Ok(None) => return Some(format!("short {}", lx.position())),
                    Err(e) => return Some(format!("pre:{} {}", lex_report(&e, lx.position()), lx.position())),
                }
            }
            let id = match lx.read_id() {
                Ok(id) => id,
                Err(e) => return Some(format!("id:{} {}", lex_report(&e, lx.position()), lx.position())),
            };
            // reference: the end of token k; for an Open the matching close
            let reference = if k < fr.toks.len() {
                if fr.kinds[k] == b'o' {
                    let opens_before = fr.kinds[..k].iter().filter(|c| **c == b'o').count();
                    balanced(&fr, opens_before).map(|r| r.map(|n| fr.ends[n - 1]))
                } else { Some(Ok(fr.ends[k])) }
            } else { None };
            Some(format!("{} {}", id.0, lex_skip_report(&mut lx, id, reference, if failed_in_rgb(&fr, &d) { "err:invalidrgb" } else { fr.outcome }, &case(), obs)))
        }
        ["bufops", cw, sw, h, opsw] => {
            let d = unhex(h)?;
            let steps = sched::parse(sw)?;
            let cap = parse_cap(cw)?;
            let mut sr = SchedReader::new(&d, steps);
            let mut bw = match cap {
                CapW::Fresh(n) => BufferWindowBuilder::default().buffer_len(n).build(),
                CapW::Recycled(n) => BufferWindowBuilder::default().buffer(vec![0xaa; n].into_boxed_slice()).build(),
                CapW::Slice => jomini::verif_hooks::BufferWindow::from_slice(&d),
            };
            let slice = matches!(cap, CapW::Slice);
            let mut out = vec![];
            let ops: Vec<&str> = if *opsw == "-" { vec![] } else { opsw.split(',').collect() };
            for op in ops {
                if op == "f" {
                    let before = (bw.window().to_vec(), bw.position());
                    let r = bw.fill_buf(&mut sr);
                    let rs = match &r { Ok(n) => n.to_string(), Err(BufferError::Io(_)) => "io".to_string(), Err(BufferError::BufferFull) => "full".to_string() };
                    // L3: nothing is lost or reordered by a fill, whatever its outcome
                    if bw.position() != before.1 || !bw.window().starts_with(&before.0) { obs.violation("fill-changes-consumed-view", &case(), &rs); }
                    if let Ok(n) = r { if bw.window().len() != before.0.len() + n { obs.violation("fill-count", &case(), ""); } }
                    obs.count(&format!("bufops:f={}", if rs.chars().all(|c| c.is_ascii_digit()) { if rs == "0" { "0" } else { "n" } } else { &rs }));
                    out.push(format!("f={}:{}@{}", rs, hex(bw.window()), bw.position()));
                } else if let Some(n) = op.strip_prefix('a') {
                    let n: usize = n.parse().ok()?;
                    if n > bw.window_len() { out.push("ub".to_string()); break; }
                    bw.advance(n);
                    out.push(format!("a:{}@{}", hex(bw.window()), bw.position()));
                } else {
                    out.push("bad-op".to_string());
                    break;
                }
                // L3 (Buffer_refines on the real code): window ++ undelivered == data[position..]
                let p = bw.position();
                let undelivered: &[u8] = if slice { &[] } else { &d[sr.delivered()..] };
                let mut view = bw.window().to_vec();
                view.extend_from_slice(undelivered);
                if p > d.len() || view != d[p..] { obs.violation("buffer-view", &case(), &format!("position {}", p)); }
            }
            Some(if out.is_empty() { "-".to_string() } else { out.join(";") })
        }
        _ => None,
    }
}

/// shared tail of blexskip / blexskipv: call skip_value, report, compare with the reference
/// (`Some(Ok(p))` = must land at byte p, `Some(Err)` = container never closes)
fn lex_skip_report(lx: &mut Lexer, id: LexemeId, reference: Option<Result<usize, ()>>, full_outcome: &str, case: &str, obs: &mut Obs) -> String {
    match lx.skip_value(id) {
        Ok(()) => {
            let p = lx.position();
            match reference {
                Some(Ok(want)) => { if want != p { obs.violation("lexskip-lands-elsewhere", case, &format!("at {} want {}", p, want)); } }
                Some(Err(())) if full_outcome != "err:invalidrgb" => obs.violation("lexskip-ok-without-close", case, ""),
                _ => {}
            }
            let nx = match lx.next_token() {
                Ok(Some(t)) => bin_lex_tok(&t),
                Ok(None) => "end".to_string(),
                Err(e) => lex_report(&e, lx.position()).to_string(),
            };
            obs.count("lexskip:ok");
            format!("ok {} {} {}", p, nx, lx.position())
        }
        Err(e) => {
            let k = lex_report(&e, lx.position());
            if let Some(Ok(_)) = reference { obs.violation("lexskip-fails-on-balanced", case, k); }
            obs.count(&format!("lexskip:{}", k));
            format!("{} {} {}", k, e.position(), lx.position())
        }
    }
}

// ------------------------------------------------------------------------------------------
// generators

const RESERVED: [u16; 13] = [0x0003, 0x0004, 0x0001, 0x0014, 0x029c, 0x000c, 0x000e, 0x000f, 0x0017, 0x000d, 0x0167, 0x0243, 0x0317];

fn boundary_u32(rng: &mut Rng) -> u32 {
    *rng.pick(&[0u32, 1, 2, 255, 256, 65535, 65536, 0x7fff_ffff, 0x8000_0000, u32::MAX, u32::MAX - 1, 0x0003_0003, 0x0004_0004, 0x0014_0243])
}
fn boundary_u64(rng: &mut Rng) -> u64 {
    *rng.pick(&[0u64, 1, 255, 256, u32::MAX as u64, u32::MAX as u64 + 1, i64::MAX as u64, i64::MAX as u64 + 1, u64::MAX, u64::MAX - 1, 0x0004_0003_0004_0003])
}

fn small_string(rng: &mut Rng) -> Vec<u8> {
    let len = match rng.below(10) { 0 => 0, 1 => 1, 2 => 2, 3 => rng.range(250, 260), _ => rng.size(24) };
    (0..len)
        .map(|_| match rng.below(10) {
            // bytes that look like lexeme ids when paired with 00 / 02 / 03
            0 => 0x03, 1 => 0x04, 2 => 0x00, 3 => *rng.pick(&[0x01u8, 0x0c, 0x0d, 0x0e, 0x0f, 0x14, 0x17, 0x67, 0x43, 0x9c, 0x02]),
            _ => rng.below(256) as u8,
        })
        .collect()
}

/// one random token; `wf_only` keeps to the hypothesis of C08_codec
pub fn gen_tok(rng: &mut Rng, wf_only: bool) -> OTok {
    match rng.below(16) {
        0 => OTok::Open,
        1 => OTok::Close,
        2 => OTok::Equal,
        3 => OTok::U32(if rng.chance(1, 2) { boundary_u32(rng) } else { rng.next() as u32 }),
        4 => OTok::U64(if rng.chance(1, 2) { boundary_u64(rng) } else { rng.next() }),
        5 => OTok::I32(if rng.chance(1, 2) { boundary_u32(rng) as i32 } else { rng.next() as i32 }),
        6 => OTok::Bool(rng.chance(1, 2)),
        7 => OTok::Quoted(small_string(rng)),
        8 => OTok::Unquoted(small_string(rng)),
        9 => OTok::F32((rng.next() as u32).to_le_bytes()),
        10 => OTok::F64(if rng.chance(1, 4) { [0x03, 0x00, 0x04, 0x00, 0x03, 0x00, 0x04, 0x00] } else { rng.next().to_le_bytes() }),
        11 => OTok::Rgb(boundary_u32(rng), rng.next() as u32, boundary_u32(rng), if rng.chance(1, 2) { Some(boundary_u32(rng)) } else { None }),
        12 => OTok::I64(if rng.chance(1, 2) { boundary_u64(rng) as i64 } else { rng.next() as i64 }),
        _ => loop {
            let v = match rng.below(4) { 0 => RESERVED[rng.below(13)].wrapping_add(rng.below(3) as u16).wrapping_sub(1), 1 => rng.below(0x400) as u16, _ => rng.next() as u16 };
            if !wf_only || LexemeId::new(v).is_id() { break OTok::Id(v); }
        },
    }
}

/// a balanced-ish token sequence (containers nest, strings look like brackets)
pub fn gen_token_seq(rng: &mut Rng, max: usize, wf_only: bool) -> Vec<OTok> {
    let n = rng.size(max);
    let mut v = vec![];
    let mut depth = 0usize;
    for _ in 0..n {
        let t = gen_tok(rng, wf_only);
        match t {
            OTok::Open => depth += 1,
            OTok::Close => { if depth == 0 && rng.chance(3, 4) { continue; } depth = depth.saturating_sub(1); }
            _ => {}
        }
        v.push(t);
    }
    if rng.chance(3, 4) { for _ in 0..depth { v.push(OTok::Close); } }
    v
}

fn encode(toks: &[OTok]) -> Vec<u8> {
    let mut out = vec![];
    for t in toks { t.write(&mut out); }
    out
}

/// bytes dense in lexeme ids
fn random_bytes(rng: &mut Rng, maxlen: usize) -> Vec<u8> {
    let n = rng.size(maxlen);
    let mut v = vec![];
    while v.len() < n {
        match rng.below(8) {
            0..=3 => v.extend_from_slice(&RESERVED[rng.below(13)].to_le_bytes()),
            4 => v.push(rng.below(256) as u8),
            5 => { v.extend_from_slice(&(rng.below(6) as u16).to_le_bytes()); }
            6 => v.extend_from_slice(&[0x03, 0x00, 0x14, 0x00]),
            _ => v.extend_from_slice(&(rng.next() as u32).to_le_bytes()),
        }
    }
    v.truncate(n.max(0));
    v
}

/// a binary document of the shared generator
pub fn gen_doc_bytes(rng: &mut Rng) -> Vec<u8> {
    let doc = docgen::gen_doc(rng, &DocCfg::shared());
    let cfg = BinCfg { key_id_pct: rng.below(101), unquoted_pct: rng.below(101), ints_as: 0 };
    docgen::render_binary(rng, &cfg, &doc)
}

/// the three input streams: encoded token sequences, documents, malformed bytes
pub fn gen_input(g: &mut Gen, max_toks: usize) -> Vec<u8> {
    match g.rng.below(10) {
        0..=3 => { g.count("input:token-seq"); let t = gen_token_seq(&mut g.rng, max_toks, false); encode(&t) }
        4..=6 => { g.count("input:doc"); gen_doc_bytes(&mut g.rng) }
        7 => { g.count("input:mutated"); let base = if g.rng.chance(1, 2) { gen_doc_bytes(&mut g.rng) } else { let t = gen_token_seq(&mut g.rng, max_toks, false); encode(&t) }; docgen::mutate(&mut g.rng, &base, &[0x00, 0x01, 0x03, 0x04, 0x0c, 0x0e, 0x0f, 0x14, 0x17, 0x43, 0x02, 0x67, 0x9c, 0xff]) }
        8 => { g.count("input:truncated"); let mut b = gen_doc_bytes(&mut g.rng); let k = g.rng.below(b.len() + 1); b.truncate(k); b }
        _ => { g.count("input:random"); random_bytes(&mut g.rng, 40) }
    }
}

/// capacity words for an input: from exactly the largest token upward, fresh and recycled
pub fn gen_cap(g: &mut Gen, d: &[u8]) -> String {
    let m = min_cap(d);
    let n = match g.rng.below(8) {
        0 | 1 => m,
        2 => m + 1,
        3 => m + g.rng.below(8),
        4 => d.len().max(m) + 1,
        5 => (d.len() + 4).max(m) * 2,
        6 => m + g.rng.below(64),
        _ => if g.rng.chance(1, 12) { 32 * 1024 } else { m + g.rng.below(16) },
    };
    if g.rng.chance(1, 6) { format!("r{}", n) } else { n.to_string() }
}

fn gen_sched(g: &mut Gen, len: usize) -> Vec<Step> {
    match g.rng.below(6) {
        0 => vec![Step::Repeat(1)],
        1 => { let p = g.rng.range(2, 7); vec![Step::Repeat(p)] }
        2 => { let a = g.rng.range(1, len.max(1)); vec![Step::Give(a)] }
        3 => { let a = g.rng.range(1, len.max(1)); let b = g.rng.range(1, len.max(1)); vec![Step::Give(a), Step::Give(b)] }
        _ => sched::random(&mut g.rng, len),
    }
}

/// C08 proper
pub fn gen_c08(g: &mut Gen) {
    // 1. every token kind with boundary payloads: write, lex, primitives, peek
    let mut fixed: Vec<OTok> = vec![OTok::Open, OTok::Close, OTok::Equal, OTok::Bool(true), OTok::Bool(false)];
    for v in [0u32, 1, 255, 256, 65535, 65536, 0x7fff_ffff, 0x8000_0000, u32::MAX] {
        fixed.push(OTok::U32(v));
        fixed.push(OTok::I32(v as i32));
        fixed.push(OTok::F32(v.to_le_bytes()));
        fixed.push(OTok::Rgb(v, !v, v ^ 0x55, None));
        fixed.push(OTok::Rgb(!v, v, 0, Some(v)));
    }
    for v in [0u64, 1, u32::MAX as u64, 1 << 32, i64::MAX as u64, 1 << 63, u64::MAX] {
        fixed.push(OTok::U64(v));
        fixed.push(OTok::I64(v as i64));
        fixed.push(OTok::F64(v.to_le_bytes()));
    }
    for len in [0usize, 1, 2, 255, 256, 257] {
        let s: Vec<u8> = (0..len).map(|i| [0x03u8, 0x00, 0x04, 0x00, 0x0f, 0x00, 0x41][i % 7]).collect();
        fixed.push(OTok::Quoted(s.clone()));
        fixed.push(OTok::Unquoted(s));
    }
    for &r in &RESERVED { fixed.push(OTok::Id(r)); fixed.push(OTok::Id(r + 1)); fixed.push(OTok::Id(r - 1)); }
    for t in &fixed {
        let b = encode(std::slice::from_ref(t));
        g.emit(format!("bwrite {}", t.show()));
        g.emit(format!("blex {}", hex(&b)));
        g.emit(format!("blexid {}", hex(&b)));
        g.emit(format!("bpeek {}", hex(&b)));
        // every proper prefix of the single token
        for k in 0..b.len().min(40) { g.emit(format!("blex {}", hex(&b[..k]))); g.emit(format!("bpeek {}", hex(&b[..k]))); }
    }
    g.count("fixed-boundary-tokens");

    // 1a. Token::write into a writer that fails after k bytes, every k, every token kind
    for t in &fixed {
        let len = encode(std::slice::from_ref(t)).len();
        let ks: Vec<usize> = if len <= 40 { (0..=len + 1).collect() } else { vec![0, 1, 2, 3, 4, 5, len - 1, len, len + 1] };
        for k in ks { g.emit(format!("bwritefail {} {}", t.show(), k)); }
    }
    g.emit("bwritefail Id:1,Equal,Rgb:1.2.3.4,Q:4142,Close 13".to_string());
    g.count("write-failing-writer");

    // 1b. exhaustive (not random): for EVERY token kind / boundary payload above, the inputs with a
    // stray trailing byte, every odd length, every cut inside the token, streamed through the reader
    // (a reader that takes a short trailing window for end of input returns Ok(None) here where the
    // lexer says Eof; the stream == lexer oracle and the model diff both see it)
    let strays = [0x00u8, 0x01, 0x03, 0x04, 0x0c, 0xff];
    let mut n_trailing = 0usize;
    for t in &fixed {
        let b = encode(std::slice::from_ref(t));
        let mut inputs: Vec<Vec<u8>> = vec![];
        let ks: Vec<usize> = if b.len() <= 40 { (1..b.len()).collect() } else { vec![1, 2, 3, 4, 5, b.len() / 2, b.len() - 2, b.len() - 1] };
        for k in ks { inputs.push(b[..k].to_vec()); }
        for s in strays {
            let mut d = b.clone(); d.push(s); inputs.push(d);
            let mut d = encode(&[OTok::Equal]); d.extend_from_slice(&b); d.push(s); inputs.push(d);
        }
        let mut d = b.clone(); d.extend_from_slice(&b); d.push(0x2d); inputs.push(d);
        for d in inputs {
            let h = hex(&d);
            let m = min_cap(&d);
            let ntoks = lex_run(&d).toks.len();
            for cap in [m, m + 3] {
                let mut scheds = vec!["-".to_string(), "R1".to_string()];
                if d.len() >= 2 { scheds.push(format!("{}", d.len() - 1)); scheds.push(format!("{},1", d.len() - 1)); }
                for sw in scheds { g.emit(format!("bstream {} {} {}", cap, sw, h)); n_trailing += 1; }
            }
            g.emit(format!("bcalls {} R1 {} {}", m, h, ntoks + 3));
            g.emit(format!("bread {} R2 {}", m + 1, h));
            g.emit(format!("bstream S - {}", h));
            if d.len() <= 7 { for sc in sched::compositions(d.len()) { g.emit(format!("bstream {} {} {}", m, sched::show(&sc), h)); } }
        }
    }
    // every single byte on its own, and after one complete token
    for v in 0..=255u8 {
        for cap in [1usize, 2, 5] { g.emit(format!("bstream {} R1 {}", cap, hex(&[v]))); g.emit(format!("bstream {} - {}", cap, hex(&[v]))); }
        g.emit(format!("bstream 6 R1 0c0001000000{}", hex(&[v])));
        g.emit(format!("bstream 2 1,1,1 0300{}", hex(&[v])));
    }
    let _ = n_trailing;
    g.count("trailing-byte-exhaustive");

    // 2. all 65536 lexeme ids followed by a payload-looking tail
    let tail = [0x01u8, 0x00, 0x00, 0x00, 0x03, 0x00, 0x04, 0x00, 0x05, 0x00];
    for id in 0..=u16::MAX {
        let mut b = id.to_le_bytes().to_vec();
        b.extend_from_slice(&tail);
        g.emit(format!("blex {}", hex(&b)));
    }
    g.count("id-sweep-65536");
    let nid = g.budget(1024, 65536);
    for i in 0..nid {
        let id = if nid == 65536 { i as u16 } else { g.rng.next() as u16 };
        g.emit(format!("bwrite Id:{}", id));
    }

    // 3. long strings: 65535 (the maximum), and the excluded 65536 / 65537 whose length wraps
    for len in [65535usize, 65536, 65537] {
        for quoted in [true, false] {
            let s: Vec<u8> = (0..len).map(|i| (i * 7 + i / 256) as u8).collect();
            let t = if quoted { OTok::Quoted(s) } else { OTok::Unquoted(s) };
            g.emit(format!("bwrite {},Id:9000", t.show()));
            if len == 65535 {
                let mut b = encode(&[OTok::Equal, t.clone(), OTok::Id(9000)]);
                g.emit(format!("blex {}", hex(&b)));
                for cap in [65539usize, 65540, 70000] {
                    for s in ["-", "40000", "1,65538,1", "R16384", "2,2,65535"] {
                        g.emit(format!("bstream {} {} {}", cap, s, hex(&b)));
                    }
                }
                g.emit(format!("bstream 65538 - {}", hex(&b)));
                g.emit(format!("bstream S - {}", hex(&b)));
                b.truncate(40000);
                g.emit(format!("bstream 65539 R9000 {}", hex(&b)));
                g.emit(format!("blex {}", hex(&b)));
            }
        }
    }
    g.count("long-strings");

    // 3b. probe of a known finding: TokenReader::builder().buffer_len(0) reports a clean end
    // immediately (oracle kind zero-capacity-buffer-drops-input); about five cases per run
    for (sw, h) in [("-", "0c0001000000"), ("R1", "2838010003000400"), ("2,F,1", "0e0001"), ("-", "0f000300454e47"), ("P", "0100")] {
        g.emit(format!("bstream 0 {} {}", sw, h));
    }
    g.emit("bstream 0 - -".to_string()); // empty input: a clean end is correct
    g.count("zero-capacity-probe");

    // 4. inputs of at most 12 bytes: every composition schedule, capacities from the minimum up
    let n_small = g.budget(150, 1200);
    for _ in 0..n_small {
        let mut d = match g.rng.below(3) {
            0 => { let t = gen_token_seq(&mut g.rng, 5, false); encode(&t) }
            1 => random_bytes(&mut g.rng, 12),
            _ => gen_doc_bytes(&mut g.rng),
        };
        d.truncate(g.rng.range(0, 12));
        let m = min_cap(&d);
        g.emit(format!("blex {}", hex(&d)));
        for s in sched::compositions(d.len()) {
            let cap = m + g.rng.below(3);
            g.emit(format!("bstream {} {} {}", cap, sched::show(&s), hex(&d)));
        }
    }
    g.count("small-all-compositions");

    // 5. generated inputs x schedules x capacities
    let n = g.budget(7000, 60_000);
    for _ in 0..n {
        let d = gen_input(g, 30);
        let h = hex(&d);
        g.emit(format!("blex {}", h));
        if g.rng.chance(1, 3) { g.emit(format!("blexid {}", h)); }
        for _ in 0..3 {
            let cap = gen_cap(g, &d);
            let s = gen_sched(g, d.len());
            g.emit(format!("bstream {} {} {}", cap, sched::show(&s), h));
        }
        if g.rng.chance(1, 4) { g.emit(format!("bstream S - {}", h)); }
        if g.rng.chance(1, 4) { let cap = gen_cap(g, &d); let s = gen_sched(g, d.len()); g.emit(format!("bread {} {} {}", cap, sched::show(&s), h)); }
        // 1- and 2-cut schedules at every position for short inputs
        if d.len() <= 24 && g.rng.chance(1, 4) {
            let m = min_cap(&d);
            for a in 1..d.len().max(1) { g.emit(format!("bstream {} {} {}", m, a, h)); }
        }
        // buffers that are too small: must be an error, never a different token / clean end
        if g.rng.chance(1, 6) {
            let m = min_cap(&d);
            if m > 1 { let cap = g.rng.range(1, m - 1); let s = gen_sched(g, d.len()); g.emit(format!("bstream {} {} {}", cap, sched::show(&s), h)); }
        }
    }
    g.count("generated-inputs");

    // 5b. the fit hypothesis itself: harness min_cap vs the Lean definition
    let n = g.budget(400, 8000);
    for _ in 0..n {
        let mut d = gen_input(g, 8);
        d.truncate(48);
        let m = min_cap(&d);
        for cap in [m.saturating_sub(1), m, m + 1, g.rng.below(m + 3)] { g.emit(format!("bfits {} {}", cap, hex(&d))); }
    }
    g.count("fits-hypothesis");

    // 6. write -> lex for random token sequences (well-formed and not)
    let n = g.budget(1500, 40_000);
    for _ in 0..n {
        let wf = g.rng.chance(3, 4);
        let t = gen_token_seq(&mut g.rng, 16, wf);
        g.emit(format!("bwrite {}", show_toks(&t)));
    }
    g.count("write-roundtrip");

    // 6b. Lexer::read_bytes (short input included) and TokenReader::into_parts after a partial run
    let n = g.budget(400, 8000);
    for _ in 0..n {
        let d = if g.rng.chance(1, 2) { random_bytes(&mut g.rng, 24) } else { gen_input(g, 6) };
        let mut ns = vec![];
        let mut left = d.len() + 4;
        while left > 0 && ns.len() < 5 { let k = g.rng.below(left.min(10) + 1); ns.push(k.to_string()); left -= k.min(left); if g.rng.chance(1, 4) { break; } }
        if g.rng.chance(1, 5) { ns.push((d.len() + 1).to_string()); }
        g.emit(format!("blexbytes {} {}", hex(&d), if ns.is_empty() { "-".to_string() } else { ns.join(",") }));
    }
    for d in ["-", "01", "455534", "0c0001000000"] { for ns in ["0", "1", "3", "7", "1,1,1,1,1,1,1", "6,1"] { g.emit(format!("blexbytes {} {}", d, ns)); } }
    let n = g.budget(500, 10_000);
    for _ in 0..n {
        let d = gen_input(g, 10);
        if d.len() > 120 { continue; }
        let capw = gen_cap(g, &d);
        let capv = match parse_cap(&capw) { Some(c) => cap_value(&c, d.len()), None => continue };
        if capv > 160 { continue; }
        let nt = lex_run(&d).toks.len();
        let mut steps = gen_sched(g, d.len());
        if g.rng.chance(1, 6) { let at = g.rng.below(steps.len() + 1); steps.insert(at, Step::Fail); }
        let k = g.rng.below(nt + 2);
        g.emit(format!("bparts {} {} {} {}", capw, sched::show(&steps), hex(&d), k));
    }
    g.count("lexer-read-bytes+into-parts");

    // 7. read_bytes
    let n = g.budget(300, 6000);
    for _ in 0..n {
        let d = random_bytes(&mut g.rng, 40);
        let mut ns = vec![];
        let mut left = d.len() + 3;
        while left > 0 && ns.len() < 6 { let k = g.rng.below(left.min(12) + 1); ns.push(k.to_string()); left -= k.min(left); if g.rng.chance(1, 4) { break; } }
        let cap = g.rng.range(1, 48);
        let s = gen_sched(g, d.len());
        g.emit(format!("breadbytes {} {} {} {}", cap, sched::show(&s), hex(&d), if ns.is_empty() { "-".to_string() } else { ns.join(",") }));
    }

    // 8. the buffer window hook directly
    let n = g.budget(1200, 30_000);
    for _ in 0..n {
        let len = g.rng.size(40);
        let d: Vec<u8> = (0..len).map(|_| g.rng.below(256) as u8).collect();
        let cap = match g.rng.below(8) { 0 => 0, 1 => 1, _ => g.rng.range(1, 24) };
        let mut steps = gen_sched(g, d.len());
        if g.rng.chance(1, 3) { let at = g.rng.below(steps.len() + 1); steps.insert(at, if g.rng.chance(1, 4) { Step::FailForever } else { Step::Fail }); }
        // simulate window length so that advances stay inside it (a larger advance is UB)
        let mut ops = vec![];
        let nops = g.rng.range(1, 10);
        let mut sim = SimBuf { cap, win: 0, src: SchedReader::new(&d, steps.clone()) };
        for _ in 0..nops {
            if sim.win > 0 && g.rng.chance(1, 2) { let k = g.rng.range(0, sim.win); sim.win -= k; ops.push(format!("a{}", k)); }
            else { sim.fill(); ops.push("f".to_string()); }
        }
        let cw = if g.rng.chance(1, 5) { format!("r{}", cap) } else { cap.to_string() };
        g.emit(format!("bufops {} {} {} {}", cw, sched::show(&steps), hex(&d), ops.join(",")));
    }
    for d in ["-", "0102", "0102030405060708"] {
        g.emit(format!("bufops S - {} f,a1,f,a1,f", d));
        g.emit(format!("bufops S - {} a0,f", d));
    }
    g.count("bufops");
}

/// window-length simulation for the bufops generator (not an oracle: only keeps `a<n>` legal)
struct SimBuf<'a> { cap: usize, win: usize, src: SchedReader<'a> }
impl<'a> SimBuf<'a> {
    fn fill(&mut self) {
        if self.cap == 0 || self.win >= self.cap { return; }
        let mut tmp = vec![0u8; self.cap - self.win];
        if let Ok(n) = self.src.read(&mut tmp) { self.win += n; }
    }
}

/// documents whose strings look like brackets, rgb blocks, nested containers (C09 binary part)
fn gen_skip_input(g: &mut Gen) -> Vec<u8> {
    match g.rng.below(6) {
        0 | 1 => gen_doc_bytes(&mut g.rng),
        2 | 3 => {
            // nested containers with bracket-looking strings and rgb inside
            let mut t = vec![OTok::Id(0x2000), OTok::Equal, OTok::Open];
            let mut depth = 1;
            let n = g.rng.range(0, 25);
            for _ in 0..n {
                match g.rng.below(9) {
                    0 => { t.push(OTok::Open); depth += 1; }
                    1 if depth > 1 => { t.push(OTok::Close); depth -= 1; }
                    2 => t.push(OTok::Quoted(vec![0x03, 0x00, 0x03, 0x00][..g.rng.range(0, 4)].to_vec())),
                    3 => t.push(OTok::Unquoted(vec![0x04, 0x00, 0x04, 0x00, 0x04][..g.rng.range(0, 5)].to_vec())),
                    4 => t.push(OTok::Rgb(3, 4, 0x0004_0003, if g.rng.chance(1, 2) { Some(0x0003_0004) } else { None })),
                    5 => t.push(OTok::U64(0x0004_0004_0004_0004)),
                    6 => t.push(OTok::F64([0x04, 0x00, 0x04, 0x00, 0x03, 0x00, 0x03, 0x00])),
                    _ => t.push(gen_tok(&mut g.rng, true)),
                }
                match t.last() { Some(OTok::Open) if false => {}, _ => {} }
            }
            // recount the depth (gen_tok may have produced brackets)
            let mut dpt = 0i64;
            for x in &t { match x { OTok::Open => dpt += 1, OTok::Close => dpt -= 1, _ => {} } }
            if g.rng.chance(5, 6) { for _ in 0..dpt.max(0) { t.push(OTok::Close); } }
            if g.rng.chance(1, 2) { t.push(OTok::Id(0xffff)); t.push(OTok::Equal); t.push(OTok::I32(7)); }
            encode(&t)
        }
        4 => { let mut b = gen_skip_doc_prefix(g); let k = g.rng.below(b.len() + 1); b.truncate(k); b }
        _ => gen_input(g, 30),
    }
}
fn gen_skip_doc_prefix(g: &mut Gen) -> Vec<u8> {
    let mut b = encode(&[OTok::Id(0x2007), OTok::Equal, OTok::Open, OTok::Quoted(vec![0x04, 0x00]), OTok::Open]);
    b.extend(gen_doc_bytes(&mut g.rng));
    b.extend(encode(&[OTok::Close, OTok::Close, OTok::Id(1234)]));
    b
}

/// C09 (binary): bskip / blexskip / blexskipv
pub fn gen_skip(g: &mut Gen) {
    let n = g.budget(3500, 40_000);
    for _ in 0..n {
        let d = gen_skip_input(g);
        let h = hex(&d);
        let fr = lex_run(&d);
        let opens = fr.kinds.iter().filter(|c| **c == b'o').count();
        let ks: Vec<usize> = if opens == 0 { vec![0] } else { let mut v = vec![0, opens - 1, g.rng.below(opens)]; v.dedup(); if g.rng.chance(1, 8) { v.push(opens); } v };
        for k in ks {
            g.emit(format!("blexskip {} {}", h, k));
            for _ in 0..2 {
                let cap = gen_cap(g, &d);
                let s = gen_sched(g, d.len());
                g.emit(format!("bskip {} {} {} {}", cap, sched::show(&s), h, k));
            }
            if g.rng.chance(1, 8) { g.emit(format!("bskip S - {} {}", h, k)); }
        }
        if !fr.toks.is_empty() {
            for _ in 0..2 { let k = g.rng.below(fr.toks.len() + 1); g.emit(format!("blexskipv {} {}", h, k)); }
        }
        // short inputs: the skip under every composition schedule
        if d.len() <= 10 && opens > 0 {
            let m = min_cap(&d);
            for s in sched::compositions(d.len()) { g.emit(format!("bskip {} {} {} 0", m, sched::show(&s), h)); }
        }
    }
    g.count("skip");
}

/// C19 (binary lexer): every prefix of documents and token sequences
pub fn gen_cut(g: &mut Gen) {
    let n = g.budget(160, 1500);
    for _ in 0..n {
        let d = match g.rng.below(4) { 0 => { let t = gen_token_seq(&mut g.rng, 12, false); encode(&t) } 1 => gen_skip_input(g), _ => gen_doc_bytes(&mut g.rng) };
        if d.len() > 400 { continue; }
        let h = hex(&d);
        for k in 0..=d.len() { g.emit(format!("bcut {} {}", h, k)); }
    }
    g.count("cut-every-prefix");
}

/// C20 (binary reader): F / P at every read-call index, short reads
pub fn gen_fault(g: &mut Gen) {
    let n = g.budget(600, 6000);
    for _ in 0..n {
        let d = if g.rng.chance(1, 4) { gen_skip_input(g) } else { gen_input(g, 20) };
        if d.len() > 300 { continue; }
        let h = hex(&d);
        let cap = gen_cap(g, &d);
        let base = match g.rng.below(4) { 0 => vec![Step::Repeat(1)], 1 => vec![], _ => gen_sched(g, d.len()) };
        // count the read calls of the fault-free run, then put a fault at every call index
        let capv = match parse_cap(&cap) { Some(c) => cap_value(&c, d.len()), None => continue };
        let calls = {
            let sr = Rc::new(RefCell::new(SchedReader::new(&d, base.clone())));
            let mut rd = TokenReader::builder().buffer_len(capv).build(Shared(sr.clone()));
            while let Ok(Some(_)) = rd.next() {}
            let c = sr.borrow().calls;
            c
        };
        let ntoks = lex_run(&d).toks.len();
        for at in 0..=calls.min(40) {
            for fault in [Step::Fail, Step::FailForever] {
                // materialise the first `at` steps of the base schedule, then the fault, then the rest
                let mut steps = vec![];
                let mut it = base.iter();
                let mut rep = None;
                for _ in 0..at {
                    match rep.clone().or_else(|| it.next().cloned()) {
                        Some(Step::Repeat(r)) => { steps.push(Step::Give(r)); rep = Some(Step::Repeat(r)); }
                        Some(s) => steps.push(s),
                        None => steps.push(Step::Give(1 << 20)),
                    }
                }
                steps.push(fault.clone());
                if let Some(r) = rep { steps.push(r); } else { steps.extend(it.cloned()); }
                let s = sched::show(&steps);
                g.emit(format!("bstream {} {} {}", cap, s, h));
                if g.rng.chance(1, 3) { g.emit(format!("bcalls {} {} {} {}", cap, s, h, ntoks + 4)); }
                if g.rng.chance(1, 6) { g.emit(format!("bskip {} {} {} 0", cap, s, h)); }
                if g.rng.chance(1, 10) { g.emit(format!("bread {} {} {}", cap, s, h)); }
            }
        }
        // several transient faults in a row and interleaved
        let s = format!("F,1,F,F,2,F,{}", sched::show(&base).replace('-', "R3"));
        g.emit(format!("bcalls {} {} {} {}", cap, s, h, ntoks + 8));
    }
    g.count("faults-at-every-call");

    // retried skip_container after a transient fault (probe of a candidate finding: the depth counter is
    // a local of the call, so a retry inside a nested container lands at the first inner close)
    for (sw, h) in [("4,F,R8", "030003000400e12804000100"), ("2,F,R8", "030003000400e12804000100"), ("6,F,R8", "030003000400e12804000100"),
                    ("2,F,R8", "0300e128e12804000100"), ("1,1,1,1,F,R1", "03000300030004000400040001000"), ("R2", "030003000400e12804000100")] {
        if h.len() % 2 == 0 { g.emit(format!("bskipretry 8 {} {} 0", sw, h)); }
    }
    let n = g.budget(120, 3000);
    for _ in 0..n {
        let d = gen_skip_input(g);
        if d.len() > 200 { continue; }
        let fr = lex_run(&d);
        let opens = fr.kinds.iter().filter(|c| **c == b'o').count();
        if opens == 0 { continue; }
        let k = g.rng.below(opens);
        let cap = gen_cap(g, &d);
        let mut steps = match g.rng.below(3) { 0 => vec![Step::Repeat(1)], 1 => vec![Step::Repeat(2)], _ => gen_sched(g, d.len()) };
        let nf = g.rng.range(1, 3);
        for _ in 0..nf {
            // materialise a few leading gives so that the fault falls inside the run
            let at = g.rng.below(steps.len().min(12) + 1);
            if let Some(Step::Repeat(r)) = steps.first().cloned() { let m = g.rng.range(0, 12); steps = (0..m).map(|_| Step::Give(r)).chain(std::iter::once(Step::Fail)).chain(std::iter::once(Step::Repeat(r))).collect(); }
            else { steps.insert(at, Step::Fail); }
        }
        g.emit(format!("bskipretry {} {} {} {}", cap, sched::show(&steps), hex(&d), k));
    }
    g.count("skip-retry-probe");
}

pub fn gen(g: &mut Gen) {
    gen_c08(g);
    gen_skip(g);
    gen_cut(g);
    gen_fault(g);
}

pub fn tables() -> String {
    // the 13 lexeme ids as the compiled code has them, in the order of the model's constants,
    // and the complement of `LexemeId::is_id` measured over all 65536 values
    let ids: Vec<u64> = [LexemeId::OPEN, LexemeId::CLOSE, LexemeId::EQUAL, LexemeId::U32, LexemeId::U64, LexemeId::I32, LexemeId::BOOL,
        LexemeId::QUOTED, LexemeId::UNQUOTED, LexemeId::F32, LexemeId::F64, LexemeId::RGB, LexemeId::I64].iter().map(|l| l.0 as u64).collect();
    let reserved: Vec<u64> = (0..=u16::MAX).filter(|x| !LexemeId::new(*x).is_id()).map(|x| x as u64).collect();
    let mut s = crate::tables::emit_nat_table("binLexemeIds", "binary lexeme ids OPEN, CLOSE, EQUAL, U32, U64, I32, BOOL, QUOTED, UNQUOTED, F32, F64, RGB, I64 (measured)", &ids);
    s.push('\n');
    s.push_str(&crate::tables::emit_nat_table("binReservedIds", "every u16 for which `LexemeId::is_id` is false, ascending (measured over all 65536 values)", &reserved));
    s.push('\n');
    s
}
