//! C10 — text and binary renderings of one document deserialize to the same value.
//!
//! ops:
//!   pair <ty> <bdoc> <texthex> <binhex>
//!       ONE logical document, given as the binary document `<bdoc>` of the shared subset (c04.rs syntax; its text
//!       view: integers as decimal text, Bool as yes/no, F32 fixed point as "1.500", strings as (un)quoted
//!       scalars, token ids as the name the resolver gives, rgb as `rgb { r g b }`).  `<texthex>` is that text view
//!       under a random layout, `<binhex>` the binary rendering.  exec runs text slice + text reader and binary
//!       tape + on-demand + streaming on the real code with the same `Ty`; result = the six Vals joined by `|`.
//!       L3: all six equal (floats within 1 f32-ulp, counted separately when not bit-equal).
//!       Resolver: every pool key known, strategy Error.
//!   x-c10-real <texthex> <binhex>
//!       a fixed real struct with `jomini::common::Date`, a `Color` read the documented way and typed scalars,
//!       deserialized from both formats on all five paths; all must be equal.
#![allow(dead_code)]
use crate::common::*;
use crate::docgen::{self, Doc, Field, Leaf, LayoutCfg, Node, Op};
use crate::props::c04::{self, BDoc, BField, BLeaf, BNode, Cfg, RootTy};
use crate::tyseed::{err_class, parse_ty, show_ty, Ty, TySeed};
use jomini::binary::FailedResolveStrategy;
use serde::de::DeserializeSeed;

pub fn shared_cfg() -> Cfg {
    Cfg { strat: FailedResolveStrategy::Error, lines: 0, entries: docgen::KEY_POOL.iter().map(|k| (docgen::key_id(k.as_bytes()).unwrap(), k.to_string())).collect() }
}

// ---------------------------------------------------------------------------------------
// text view of a binary document of the shared subset

fn leaf_view(l: &BLeaf, is_key: bool) -> Option<Leaf> {
    Some(match l {
        BLeaf::I32(v) => Leaf::Int(*v as i64),
        BLeaf::I64(v) => Leaf::Int(*v),
        BLeaf::U32(v) => Leaf::Uint(*v as u64),
        BLeaf::U64(v) => Leaf::Uint(*v),
        BLeaf::Bool(b) => Leaf::Bool(*b),
        BLeaf::F32(b) => Leaf::Fixed(i32::from_le_bytes(*b)),
        BLeaf::F64(_) => return None,
        BLeaf::Quoted(b) => if is_key { Leaf::Unq(b.clone()) } else { Leaf::Quo(b.clone()) },
        // an unquoted binary string that text could not write unquoted (backslash, trailing blank) is quoted in the text view
        BLeaf::Unquoted(b) => if is_key || text_safe_unquoted(b) { Leaf::Unq(b.clone()) } else { Leaf::Quo(b.clone()) },
        BLeaf::Id(i) => Leaf::Unq(docgen::id_name(*i)?.as_bytes().to_vec()),
    })
}
fn node_view(n: &BNode) -> Option<Node> {
    Some(match n {
        BNode::Leaf(l) => Node::Leaf(leaf_view(l, false)?),
        BNode::Obj(fs) => Node::Obj(fs.iter().map(field_view).collect::<Option<Vec<_>>>()?),
        BNode::Arr(vs) => Node::Arr(vs.iter().map(node_view).collect::<Option<Vec<_>>>()?),
        BNode::Rgb(r, g, b, a) => Node::Rgb(*r, *g, *b, *a),
    })
}
fn field_view(f: &BField) -> Option<Field> {
    if f.ghosts > 0 { return None; }
    Some(Field { key: leaf_view(&f.key, true)?, op: Op::Eq, val: node_view(&f.val)?, ghosts: 0, implicit_eq: false })
}
pub fn text_view(d: &BDoc) -> Option<Doc> { Some(Doc { fields: d.fields.iter().map(field_view).collect::<Option<Vec<_>>>()? }) }

// ---------------------------------------------------------------------------------------
// shared-subset documents and the types that make sense for both formats

fn text_safe_unquoted(b: &[u8]) -> bool {
    !b.is_empty() && b.iter().all(|c| c.is_ascii_alphanumeric() || matches!(c, b'_' | b'.' | b'-' | b':' | b'\'') || *c >= 0x80)
}

fn sanitize(rng: &mut Rng, fs: &mut Vec<BField>, in_array_ok: bool) {
    let _ = in_array_ok;
    for f in fs.iter_mut() {
        f.ghosts = 0;
        // keys: resolvable ids or strings
        f.key = match &f.key {
            BLeaf::I32(v) => BLeaf::Unquoted(v.to_string().into_bytes()),
            BLeaf::I64(v) => BLeaf::Unquoted(v.to_string().into_bytes()),
            BLeaf::U32(v) => BLeaf::Unquoted(format!("k{}", v).into_bytes()),
            BLeaf::U64(v) => BLeaf::Unquoted(format!("k{}", v).into_bytes()),
            BLeaf::Id(i) if docgen::id_name(*i).is_none() => BLeaf::Id(0x2000),
            BLeaf::Quoted(b) | BLeaf::Unquoted(b) if !text_safe_unquoted(b) => BLeaf::Unquoted(b"key".to_vec()),
            k => k.clone(),
        };
        sanitize_node(rng, &mut f.val, false);
    }
}
fn sanitize_node(rng: &mut Rng, n: &mut BNode, in_array: bool) {
    match n {
        BNode::Leaf(l) => {
            match l {
                BLeaf::F64(_) => *l = BLeaf::I32(rng.next() as i32 >> 12),
                BLeaf::Id(i) if docgen::id_name(*i).is_none() => *l = BLeaf::Id(0x2000 + 7 * rng.below(16) as u16),
                BLeaf::Unquoted(b) if !text_safe_unquoted(b) => *l = BLeaf::Quoted(b.clone()),
                _ => {}
            }
            // small numbers in the WIDE encodings too (the narrow integer targets of `leaf_ty` must read them alike)
            if rng.chance(1, 5) {
                match l { BLeaf::U32(v) => *l = BLeaf::U64((*v % 1001) as u64), BLeaf::I32(v) => *l = BLeaf::I64((*v % 1001) as i64), _ => {} }
            }
            if let BLeaf::Quoted(b) = l { if b.contains(&b'"') || b.contains(&b'\\') { *l = BLeaf::Quoted(b"q".to_vec()); } }
            // decoding is part of what both formats share: a backslash in front of a letter is dropped and trailing
            // blanks are trimmed, for quoted AND unquoted binary strings alike (the text view quotes them)
            if rng.chance(1, 6) {
                if let BLeaf::Quoted(b) | BLeaf::Unquoted(b) = l {
                    if !b.is_empty() && b.iter().all(|c| c.is_ascii_alphanumeric() || *c == b'_' || *c == b' ') {
                        let mut v = b.clone();
                        match rng.below(3) {
                            0 => { let p = rng.below(v.len()); if v[p].is_ascii_alphabetic() { v.insert(p, b'\\'); } }
                            1 => { for _ in 0..1 + rng.below(3) { v.push(*rng.pick(&[b' ', b'\t'])); } }
                            _ => { let p = rng.below(v.len()); if v[p].is_ascii_alphabetic() { v.insert(p, b'\\'); } v.push(b' '); }
                        }
                        *l = if rng.chance(1, 2) { BLeaf::Unquoted(v) } else { BLeaf::Quoted(v) };
                    }
                }
            }
        }
        BNode::Obj(fs) => sanitize(rng, fs, false),
        BNode::Arr(vs) => { for v in vs.iter_mut() { sanitize_node(rng, v, true); } }
        BNode::Rgb(r, ..) => { if in_array { *n = BNode::Leaf(BLeaf::U32(*r)); } }
    }
}

pub fn gen_shared_bdoc(g: &mut Gen) -> BDoc {
    let mut d = c04::gen_bdoc(g);
    sanitize(&mut g.rng, &mut d.fields, false);
    d
}

thread_local! { static PROBES: std::cell::Cell<usize> = std::cell::Cell::new(0); }

fn opt_wrap(rng: &mut Rng, t: Ty) -> Ty { if rng.chance(1, 7) { Ty::Opt(Box::new(t)) } else { t } }

fn leaf_ty(rng: &mut Rng, l: &BLeaf) -> Ty {
    if rng.chance(1, 20) { return Ty::Ign; }
    // narrow integer targets (deserialize_u16 / i16 / u8 / i8 take their own arms in every deserializer; the
    // on-demand binary path decides by lexeme id whether the token is a raw id or a number)
    let small: Option<i64> = match l { BLeaf::I32(v) => Some(*v as i64), BLeaf::I64(v) => Some(*v), BLeaf::U32(v) => Some(*v as i64), BLeaf::U64(v) if *v <= 1000 => Some(*v as i64), _ => None };
    if let Some(v) = small {
        let wide = matches!(l, BLeaf::U64(_) | BLeaf::I64(_));
        if rng.chance(1, if wide { 2 } else { 4 }) {
            let mut c = vec![];
            if (0..=255).contains(&v) { c.push(Ty::U8); } if (0..=65535).contains(&v) { c.push(Ty::U16); }
            if (-128..=127).contains(&v) { c.push(Ty::I8); } if (-32768..=32767).contains(&v) { c.push(Ty::I16); }
            if !c.is_empty() { return rng.pick(&c).clone(); }
        }
    }
    match l {
        BLeaf::I32(v) => { let mut c = vec![Ty::I64, Ty::I32, Ty::F64]; if *v >= 0 { c.push(Ty::U64); c.push(Ty::U32); } rng.pick(&c).clone() }
        BLeaf::I64(_) => Ty::I64,
        BLeaf::U32(_) => rng.pick(&[Ty::U32, Ty::U64, Ty::I64, Ty::F64]).clone(),
        BLeaf::U64(v) => if *v <= i64::MAX as u64 && rng.chance(1, 3) { Ty::I64 } else { Ty::U64 },
        BLeaf::Bool(_) => Ty::Bool,
        BLeaf::F32(_) => if rng.chance(1, 2) { Ty::F32 } else { Ty::F64 },
        _ => Ty::Str,
    }
}
fn class(l: &BLeaf) -> u8 { match l { BLeaf::I32(_) | BLeaf::I64(_) => 0, BLeaf::U32(_) | BLeaf::U64(_) => 1, BLeaf::Bool(_) => 2, BLeaf::F32(_) | BLeaf::F64(_) => 3, _ => 4 } }

fn fields_ty(rng: &mut Rng, fs: &[BField]) -> Ty {
    if !fs.is_empty() && rng.chance(5, 6) {
        let mut out: Vec<(String, Ty)> = vec![];
        let mut seen: Vec<String> = vec![];
        for f in fs {
            let Some(n) = c04::key_field_name(&f.key) else { continue };
            // a field is typed after the FIRST value carrying its name (a repeated key is a duplicate either way)
            if seen.contains(&n) { continue; }
            seen.push(n.clone());
            if rng.chance(1, 6) { continue; }
            let t = node_ty(rng, &f.val);
            out.push((n, opt_wrap(rng, t)));
        }
        if rng.chance(1, 4) { out.push(("absent_opt".to_string(), Ty::Opt(Box::new(Ty::I64)))); }
        if rng.chance(1, 30) { out.push(("absent_req".to_string(), Ty::I64)); }
        Ty::Struct(out)
    } else if fs.iter().all(|f| matches!(&f.val, BNode::Leaf(l) if class(l) == 4)) { Ty::Map(Box::new(Ty::Str)) }
    else { Ty::Map(Box::new(Ty::Ign)) }
}

fn node_ty(rng: &mut Rng, n: &BNode) -> Ty {
    if rng.chance(1, 25) { return Ty::Ign; }
    match n {
        BNode::Leaf(l) => leaf_ty(rng, l),
        BNode::Obj(fs) => fields_ty(rng, fs),
        BNode::Arr(vs) => {
            let leaves: Vec<&BLeaf> = vs.iter().filter_map(|v| if let BNode::Leaf(l) = v { Some(l) } else { None }).collect();
            if !vs.is_empty() && leaves.len() == vs.len() && leaves.iter().all(|l| class(l) == class(leaves[0])) {
                Ty::Seq(Box::new(match class(leaves[0]) { 0 => Ty::I64, 1 => Ty::U64, 2 => Ty::Bool, 3 => if rng.chance(1, 2) { Ty::F32 } else { Ty::F64 }, _ => Ty::Str }))
            } else if !vs.is_empty() && vs.iter().all(|v| matches!(v, BNode::Obj(_))) {
                // (elements differ in shape: only a type that fits every element is meaningful)
                Ty::Seq(Box::new(if let (BNode::Obj(fs), true) = (&vs[0], vs.len() == 1) { fields_ty(rng, fs) } else { Ty::Map(Box::new(Ty::Ign)) }))
            } else { Ty::Seq(Box::new(Ty::Ign)) }
        }
        // looking INTO a colour with a generated type probes the known finding text-reader-header: a few per run
        // (PROBES counts them); the typed reading of colours is exercised through the real `Color` struct
        BNode::Rgb(..) => if PROBES.with(|p| { let n = p.get(); if n < 20 { p.set(n + 1); true } else { false } }) {
            match rng.below(3) { 0 => Ty::Seq(Box::new(Ty::Seq(Box::new(Ty::U32)))), _ => Ty::Seq(Box::new(Ty::Ign)) }
        } else { Ty::Ign },
    }
}

// ---------------------------------------------------------------------------------------
// running both formats

fn fin<E: std::fmt::Display>(r: Result<String, E>) -> String { match r { Ok(v) => v, Err(e) => err_class(&e.to_string()) } }

pub fn run_text_slice(ty: &Ty, data: &[u8]) -> String {
    match jomini::TextDeserializer::from_windows1252_slice(data) {
        Ok(de) => fin(TySeed(ty).deserialize(&de)),
        Err(_) => "err:parse".to_string(),
    }
}
pub fn run_text_reader(ty: &Ty, data: &[u8]) -> String {
    let rdr = jomini::text::TokenReader::new(data);
    let mut de = jomini::TextDeserializer::from_windows1252_reader(rdr);
    fin(TySeed(ty).deserialize(&mut de))
}

fn six(ty: &Ty, text: &[u8], bin: &[u8]) -> Vec<String> {
    let c = shared_cfg();
    let r = RootTy::Plain(ty.clone());
    vec![
        run_text_slice(ty, text), run_text_reader(ty, text),
        c04::run_tape(&c, &r, bin), c04::run_slice(&c, &r, bin), c04::run_stream(&c, &r, bin, 32 * 1024, vec![]),
        { let (raw, big) = c04::raw_tokens(bin); c04::run_stream(&c, &r, bin, c04::max_token_len(&raw, big), vec![crate::sched::Step::Repeat(2)]) },
    ]
}

/// does the request look INTO an rgb value (anything but skipping it)?  The streaming text deserializer does not
/// understand header values (`rgb { .. }`) there: recorded finding text-reader-header, its result is then
/// reported separately instead of being part of the equality.
fn touches_rgb(t: &Ty, n: &BNode) -> bool {
    match t {
        Ty::Ign => false,
        Ty::Opt(i) => touches_rgb(i, n),
        _ => match n {
            BNode::Rgb(..) => true,
            BNode::Leaf(_) => false,
            BNode::Arr(vs) => match t { Ty::Seq(e) => vs.iter().any(|v| touches_rgb(e, v)), _ => false },
            BNode::Obj(fs) => touches_rgb_fields(t, fs),
        },
    }
}
fn touches_rgb_fields(t: &Ty, fs: &[BField]) -> bool {
    match t {
        Ty::Map(vt) => fs.iter().any(|f| touches_rgb(vt, &f.val)),
        Ty::Struct(decl) => fs.iter().any(|f| c04::key_field_name(&f.key).and_then(|n| decl.iter().find(|(m, _)| *m == n)).map(|(_, ft)| touches_rgb(ft, &f.val)).unwrap_or(false)),
        _ => false,
    }
}

#[derive(PartialEq, Debug)]
enum Cmp { Equal, FloatNear, Different }

/// compare two Vals; float literals (`f<bits64>` / `g<bits32>` right after a delimiter) are compared as numbers:
/// bit-equal, or within one f32 ulp after narrowing (text goes through f64, the binary fixed point through f32)
fn cmp_vals(a: &str, b: &str) -> Cmp {
    let (x, y) = (a.as_bytes(), b.as_bytes());
    let (mut i, mut j) = (0usize, 0usize);
    let mut near = false;
    let at_value = |s: &[u8], k: usize| k == 0 || matches!(s[k - 1], b'=' | b',' | b'[' | b'(');
    let num_end = |s: &[u8], k: usize| { let mut e = k + 1; while e < s.len() && s[e].is_ascii_digit() { e += 1; } e };
    while i < x.len() && j < y.len() {
        if (x[i] == b'f' || x[i] == b'g') && x[i] == y[j] && at_value(x, i) && at_value(y, j) {
            let (ei, ej) = (num_end(x, i), num_end(y, j));
            let term = |s: &[u8], e: usize| e > 0 && (e == s.len() || matches!(s[e], b',' | b']' | b')' | b'}'));
            if ei > i + 1 && ej > j + 1 && term(x, ei) && term(y, ej) {
                let (va, vb): (u64, u64) = (a[i + 1..ei].parse().unwrap_or(0), b[j + 1..ej].parse().unwrap_or(1));
                if va != vb {
                    let (fa, fb) = if x[i] == b'f' { (f64::from_bits(va) as f32, f64::from_bits(vb) as f32) } else { (f32::from_bits(va as u32), f32::from_bits(vb as u32)) };
                    let key = |v: f32| { let t = v.to_bits() as i32; if t < 0 { i32::MIN.wrapping_sub(t) } else { t } };
                    if (key(fa) as i64 - key(fb) as i64).abs() > 1 { return Cmp::Different; }
                    near = true;
                }
                i = ei; j = ej;
                continue;
            }
        }
        if x[i] != y[j] { return Cmp::Different; }
        i += 1; j += 1;
    }
    if i != x.len() || j != y.len() { return Cmp::Different; }
    if near { Cmp::FloatNear } else { Cmp::Equal }
}

// ---------------------------------------------------------------------------------------
// the fixed real struct (documented shared usage, /repo/tests/de.rs)

mod real {
    use serde::{de, Deserialize, Deserializer};
    use std::fmt;
    #[derive(Debug, PartialEq)]
    pub struct Color { pub red: u8, pub green: u8, pub blue: u8 }
    impl<'de> Deserialize<'de> for Color {
        fn deserialize<D: Deserializer<'de>>(d: D) -> Result<Self, D::Error> {
            struct V;
            impl<'de> de::Visitor<'de> for V {
                type Value = Color;
                fn expecting(&self, f: &mut fmt::Formatter) -> fmt::Result { f.write_str("a color") }
                fn visit_seq<A: de::SeqAccess<'de>>(self, mut seq: A) -> Result<Color, A::Error> {
                    let ty: String = seq.next_element()?.ok_or_else(|| de::Error::custom("value type"))?;
                    if ty != "rgb" { return Err(de::Error::custom("unexpected color type")); }
                    let (red, green, blue) = seq.next_element::<(u8, u8, u8)>()?.ok_or_else(|| de::Error::custom("rgb channels"))?;
                    Ok(Color { red, green, blue })
                }
            }
            d.deserialize_seq(V)
        }
    }
    #[derive(Deserialize, Debug, PartialEq)]
    pub struct SharedNoColor {
        pub date: jomini::common::Date,
        pub core: Option<jomini::common::Date>,
        pub name: String,
        pub id: i32,
        pub flags: Vec<String>,
        pub x: u64,
        pub army: bool,
        pub list: Vec<jomini::common::Date>,
        pub unit: Option<jomini::common::DateHour>,
    }
    /// tuple, tuple-struct and newtype fields, each FOLLOWED by further fields
    #[derive(Deserialize, Debug, PartialEq)]
    pub struct P(pub i32, pub i32);
    #[derive(Deserialize, Debug, PartialEq)]
    pub struct N(pub i32);
    #[derive(Deserialize, Debug, PartialEq)]
    pub struct Q(pub String, pub String, pub String);
    #[derive(Deserialize, Debug, PartialEq)]
    pub struct Tup {
        pub a: (i32, i32),
        pub name: String,
        pub b: P,
        pub id: u32,
        pub core: N,
        pub flags: Q,
        pub x: i32,
        pub unit: Option<Inner>,
        pub y: Option<i32>,
    }
    #[derive(Deserialize, Debug, PartialEq)]
    pub struct Inner { pub a: P, pub b: i32, pub list: (i32, i32, i32), pub x: i32 }
    #[derive(Deserialize, Debug, PartialEq)]
    pub struct Shared {
        pub date: jomini::common::Date,
        pub core: Option<jomini::common::Date>,
        pub color: Color,
        pub name: String,
        pub id: i32,
        pub flags: Vec<String>,
        pub x: u64,
        pub army: bool,
        pub list: Vec<jomini::common::Date>,
        pub unit: Option<jomini::common::DateHour>,
    }
}

fn real_five<T: for<'de> serde::Deserialize<'de> + std::fmt::Debug>(text: &[u8], bin: &[u8]) -> Vec<String> {
    let c = shared_cfg();
    let res = c04::make_resolver(&c);
    let show = |r: Result<T, jomini::Error>| match r { Ok(v) => format!("{:?}", v).replace(' ', ""), Err(e) => err_class(&e.to_string()) };
    let b = || { let mut b = jomini::BinaryDeserializer::builder_flavor(c04::VFlavor); b.on_failed_resolve(c.strat); b };
    vec![
        show(jomini::text::de::from_windows1252_slice(text)),
        show(jomini::TextDeserializer::from_windows1252_reader(jomini::text::TokenReader::new(text)).deserialize()),
        match jomini::BinaryTape::from_slice(bin) { Ok(t) => show(b().deserialize_tape(&t, &res)), Err(_) => "err:parse".to_string() },
        show(b().deserialize_slice(bin, &res)),
        show(b().deserialize_reader(bin, &res)),
    ]
}

fn gen_real_pair(rng: &mut Rng) -> (Vec<u8>, Vec<u8>) {
    // logical content
    // years over the whole range of the binary format (>= -5000), its edges, the small positive years and
    // the neighbourhood of -100 (where the "plausible date" heuristic of from_binary_heuristic gives up)
    let date = |rng: &mut Rng| {
        let y: i16 = match rng.below(6) {
            0 => *rng.pick(&[-5000i16, -4999, -2500, -1000, -101, -100, -99, -1, 1, 2, 99, 100, 200, 9999]),
            1 => -(rng.range(1, 5000) as i16),
            2 => rng.range(1, 200) as i16,
            _ => rng.range(1, 9999) as i16,
        };
        (y, rng.range(1, 12) as u8, rng.range(1, 28) as u8)
    };
    let mut fields: Vec<(&str, Node, BNode)> = vec![];
    let dnode = |(y, m, d): (i16, u8, u8)| (Node::Leaf(Leaf::Date(y, m, d, None)), BNode::Leaf(BLeaf::I32(docgen::date_to_binary(y, m, d, None))));
    let d0 = dnode(date(rng)); fields.push(("date", d0.0, d0.1));
    if rng.chance(1, 2) { let d1 = dnode(date(rng)); fields.push(("core", d1.0, d1.1)); }
    if rng.chance(2, 3) {
        // a DateHour field: text `y.m.d.h` (hours 1..24), binary the same I32 scale with the hour component
        let (y, m, d) = date(rng);
        let h = rng.range(1, 24) as u8;
        fields.push(("unit", Node::Leaf(Leaf::Date(y, m, d, Some(h))), BNode::Leaf(BLeaf::I32(docgen::date_to_binary(y, m, d, Some(h))))));
    }
    let (r, g, b) = (rng.below(256) as u32, rng.below(256) as u32, rng.below(256) as u32);
    fields.push(("color", Node::Rgb(r, g, b, None), BNode::Rgb(r, g, b, None)));
    let nm: Vec<u8> = (0..rng.below(8)).map(|_| *rng.pick(b"abcxyz \xe9")).collect();
    fields.push(("name", Node::Leaf(Leaf::Quo(nm.clone())), BNode::Leaf(BLeaf::Quoted(nm))));
    let id = rng.next() as i32 >> rng.below(31);
    fields.push(("id", Node::Leaf(Leaf::Int(id as i64)), BNode::Leaf(BLeaf::I32(id))));
    let nf = rng.below(4);
    let fl: Vec<Vec<u8>> = (0..nf).map(|_| (0..1 + rng.below(5)).map(|_| b'a' + rng.below(26) as u8).collect()).collect();
    fields.push(("flags", Node::Arr(fl.iter().map(|s| Node::Leaf(Leaf::Unq(s.clone()))).collect()), BNode::Arr(fl.iter().map(|s| BNode::Leaf(if s.len() % 2 == 0 { BLeaf::Unquoted(s.clone()) } else { BLeaf::Quoted(s.clone()) })).collect())));
    let x = rng.next() >> rng.below(64);
    fields.push(("x", Node::Leaf(Leaf::Uint(x)), BNode::Leaf(if x <= u32::MAX as u64 { BLeaf::U32(x as u32) } else { BLeaf::U64(x) })));
    let army = rng.chance(1, 2);
    fields.push(("army", Node::Leaf(Leaf::Bool(army)), BNode::Leaf(BLeaf::Bool(army))));
    let nl = rng.below(3);
    let ds: Vec<(i16, u8, u8)> = (0..nl).map(|_| date(rng)).collect();
    fields.push(("list", Node::Arr(ds.iter().map(|d| dnode(*d).0).collect()), BNode::Arr(ds.iter().map(|d| dnode(*d).1).collect())));
    if rng.chance(1, 3) { fields.push(("zz_long_key_name", Node::Arr(vec![Node::Leaf(Leaf::Int(1))]), BNode::Arr(vec![BNode::Leaf(BLeaf::I32(1))]))); }
    for i in (1..fields.len()).rev() { let j = rng.below(i + 1); fields.swap(i, j); }
    let doc = Doc { fields: fields.iter().map(|(k, n, _)| Field { key: Leaf::Unq(k.as_bytes().to_vec()), op: Op::Eq, val: n.clone(), ghosts: 0, implicit_eq: false }).collect() };
    let bd = BDoc { fields: fields.iter().map(|(k, _, b)| BField { ghosts: 0, key: if rng.chance(2, 3) { BLeaf::Id(docgen::key_id(k.as_bytes()).unwrap()) } else { BLeaf::Unquoted(k.as_bytes().to_vec()) }, val: b.clone() }).collect() };
    let text = docgen::render_layout(rng, &LayoutCfg::reader_safe(), &docgen::lexemes(&doc));
    (text, c04::render_bdoc(&bd))
}

// ---------------------------------------------------------------------------------------

pub fn exec(w: &[&str], obs: &mut Obs) -> Option<String> {
    let case = || w.join(" ");
    match w {
        ["tref", ty, bd, th] => {
            // the text reference (Lean `valueOfText`) against the real tape-based text deserializer on the text rendering
            let (ty, d, text) = (parse_ty(ty)?, c04::parse_bdoc(bd)?, unhex(th)?);
            let view = text_view(&d)?;
            let canon = docgen::render_canonical(&docgen::lexemes(&view));
            let tok = |data: &[u8]| jomini::TextTape::from_slice(data).map(|t| crate::show::text_tape(t.tokens())).unwrap_or_else(|_| "err".into());
            if tok(&canon) != tok(&text) { return Some("stale-case".to_string()); }
            obs.count("tref");
            Some(run_text_slice(&ty, &text))
        }
        ["pair", ty, bd, th, bh] => {
            let (ty, d, text, bin) = (parse_ty(ty)?, c04::parse_bdoc(bd)?, unhex(th)?, unhex(bh)?);
            if c04::render_bdoc(&d) != bin { return Some("stale-case".to_string()); }
            // the text rendering must be a layout of the document's text view
            let view = text_view(&d)?;
            let canon = docgen::render_canonical(&docgen::lexemes(&view));
            let tok = |data: &[u8]| jomini::TextTape::from_slice(data).map(|t| crate::show::text_tape(t.tokens())).unwrap_or_else(|_| "err".into());
            if tok(&canon) != tok(&text) { return Some("stale-case".to_string()); }
            let vals = six(&ty, &text, &bin);
            let mut worst = Cmp::Equal;
            let header = touches_rgb_fields(&ty, &d.fields);
            // known finding text-reader-header: the streaming text deserializer's disagreement on a header value is
            // reported under exactly that kind (and nothing else is)
            if header {
                if cmp_vals(&vals[0], &vals[1]) == Cmp::Different {
                    obs.violation("text-reader-header", &case(), &format!("text slice {} vs text reader {}", vals[0], vals[1]));
                } else { obs.count("text-reader-header:same"); }
            }
            for (i, v) in vals.iter().enumerate().skip(1) {
                if header && i == 1 { continue; }
                match cmp_vals(&vals[0], v) {
                    Cmp::Equal => {}
                    Cmp::FloatNear => worst = Cmp::FloatNear,
                    Cmp::Different => { obs.violation("c10-renderings-disagree", &case(), &format!("path0 (text slice) {} vs path{} {}", vals[0], i, v)); worst = Cmp::Different; break; }
                }
            }
            // every text-lines resolver (\n, \r\n, trailing blanks, mixed / unprefixed ids) must resolve like the HashMap
            for lines in 1..5u8 {
                let c2 = Cfg { lines, ..shared_cfg() };
                let v = c04::run_slice(&c2, &RootTy::Plain(ty.clone()), &bin);
                if v != vals[3] { obs.violation("c10-resolver-lines-disagree", &case(), &format!("resolver kind {}: {} vs HashMap {}", lines, v, vals[3])); break; }
            }
            obs.count(match worst { Cmp::Equal => "pair:equal", Cmp::FloatNear => "pair:float-within-1ulp-f32", Cmp::Different => "pair:different" });
            let k = if vals[0].starts_with("err:missing") { "err:missing" } else if vals[0].starts_with("err:duplicate") { "err:duplicate" } else if vals[0].starts_with("err") { vals[0].as_str() } else { "ok" };
            obs.count(&format!("pair-result:{}", k));
            for (p, n) in [("i", "int"), ("u", "uint"), ("b", "bool"), ("f", "f64"), ("g", "f32"), ("s", "string"), ("[ign,ign]", "rgb")] {
                if vals[0].contains(&format!("={}", p)) || vals[0].contains(&format!("[{}", p)) || vals[0].contains(&format!("({}", p)) { obs.count(&format!("pair-leaf:{}", n)); }
            }
            // the streaming text deserializer's answer on header values is outside the claim (and outside the model)
            let mut shown = vals.clone();
            if header { shown[1] = "text-reader-header".to_string(); }
            Some(shown.join("|"))
        }
        ["x-c10-real", th, bh] => {
            let (text, bin) = (unhex(th)?, unhex(bh)?);
            // with the colour: the streaming text deserializer is reported separately (finding text-reader-header)
            let v = real_five::<real::Shared>(&text, &bin);
            for (i, x) in v.iter().enumerate().skip(1) {
                if i == 1 { obs.count(if *x != v[0] { "real-color:text-reader-differs(known finding text-reader-header)" } else { "real-color:text-reader-same" }); continue; }
                if *x != v[0] { obs.violation("c10-real-struct-disagrees", &case(), &format!("text slice {} vs path{} {}", v[0], i, x)); break; }
            }
            // without it: all five paths
            let n = real_five::<real::SharedNoColor>(&text, &bin);
            for (i, x) in n.iter().enumerate().skip(1) {
                if *x != n[0] { obs.violation("c10-real-struct-disagrees", &case(), &format!("(no colour) text slice {} vs path{} {}", n[0], i, x)); break; }
            }
            obs.count(if v[0].starts_with("err") { "real:err" } else { "real:ok" });
            Some(format!("{}|{}", v[0], n[0]))
        }
        ["x-c10-tup", th, bh] => {
            let (text, bin) = (unhex(th)?, unhex(bh)?);
            let v = real_five::<real::Tup>(&text, &bin);
            for (i, x) in v.iter().enumerate().skip(1) {
                if *x != v[0] { obs.violation("c10-tuple-fields-disagree", &case(), &format!("text slice {} vs path{} {}", v[0], i, x)); break; }
            }
            obs.count(if v[0].starts_with("err") { "tup:err" } else { "tup:ok" });
            Some(v[0].clone())
        }
        _ => None,
    }
}

fn gen_tup_pair(rng: &mut Rng) -> (Vec<u8>, Vec<u8>) {
    let int = |rng: &mut Rng| { let v = rng.next() as i32 >> rng.below(31); (Node::Leaf(Leaf::Int(v as i64)), BNode::Leaf(BLeaf::I32(v))) };
    let ints = |rng: &mut Rng, n: usize| { let v: Vec<(Node, BNode)> = (0..n).map(|_| int(rng)).collect(); (Node::Arr(v.iter().map(|x| x.0.clone()).collect()), BNode::Arr(v.iter().map(|x| x.1.clone()).collect())) };
    let st = |rng: &mut Rng| { let n = 1 + rng.below(5); let s: Vec<u8> = (0..n).map(|_| b'a' + rng.below(26) as u8).collect(); (Node::Leaf(Leaf::Unq(s.clone())), BNode::Leaf(BLeaf::Unquoted(s))) };
    let mut fields: Vec<(&str, Node, BNode)> = vec![];
    let a = ints(rng, 2); fields.push(("a", a.0, a.1));
    let n = st(rng); fields.push(("name", n.0, n.1));
    let b = ints(rng, 2); fields.push(("b", b.0, b.1));
    let id = rng.next() as u32 >> rng.below(32); fields.push(("id", Node::Leaf(Leaf::Uint(id as u64)), BNode::Leaf(BLeaf::U32(id))));
    let c = int(rng); fields.push(("core", c.0, c.1));
    let q: Vec<(Node, BNode)> = (0..3).map(|_| st(rng)).collect();
    fields.push(("flags", Node::Arr(q.iter().map(|x| x.0.clone()).collect()), BNode::Arr(q.iter().map(|x| x.1.clone()).collect())));
    let x = int(rng); fields.push(("x", x.0, x.1));
    if rng.chance(1, 2) {
        let (ia, ib, il, ix) = (ints(rng, 2), int(rng), ints(rng, 3), int(rng));
        let mut inner = vec![("a", ia.0, ia.1), ("b", ib.0, ib.1), ("list", il.0, il.1), ("x", ix.0, ix.1)];
        for i in (1..inner.len()).rev() { let j = rng.below(i + 1); inner.swap(i, j); }
        let key = |k: &str, rng: &mut Rng| if rng.chance(2, 3) { BLeaf::Id(docgen::key_id(k.as_bytes()).unwrap()) } else { BLeaf::Unquoted(k.as_bytes().to_vec()) };
        fields.push(("unit",
            Node::Obj(inner.iter().map(|(k, n, _)| Field { key: Leaf::Unq(k.as_bytes().to_vec()), op: Op::Eq, val: n.clone(), ghosts: 0, implicit_eq: false }).collect()),
            BNode::Obj(inner.iter().map(|(k, _, b)| BField { ghosts: 0, key: key(k, rng), val: b.clone() }).collect())));
    }
    if rng.chance(1, 2) { let y = int(rng); fields.push(("y", y.0, y.1)); }
    for i in (1..fields.len()).rev() { let j = rng.below(i + 1); fields.swap(i, j); }
    let doc = Doc { fields: fields.iter().map(|(k, n, _)| Field { key: Leaf::Unq(k.as_bytes().to_vec()), op: Op::Eq, val: n.clone(), ghosts: 0, implicit_eq: false }).collect() };
    let bd = BDoc { fields: fields.iter().map(|(k, _, b)| BField { ghosts: 0, key: if rng.chance(2, 3) { BLeaf::Id(docgen::key_id(k.as_bytes()).unwrap()) } else { BLeaf::Unquoted(k.as_bytes().to_vec()) }, val: b.clone() }).collect() };
    let text = docgen::render_layout(rng, &LayoutCfg::reader_safe(), &docgen::lexemes(&doc));
    (text, c04::render_bdoc(&bd))
}

pub fn gen(g: &mut Gen) {
    PROBES.with(|p| p.set(0));
    let n = g.budget(6000, 150_000);
    for _ in 0..n {
        let d = gen_shared_bdoc(g);
        let Some(view) = text_view(&d) else { g.count("skipped:no-text-view"); continue };
        let ty = fields_ty(&mut g.rng, &d.fields);
        let text = docgen::render_layout(&mut g.rng, &LayoutCfg::reader_safe(), &docgen::lexemes(&view));
        let bin = c04::render_bdoc(&d);
        g.emit(format!("pair {} {} {} {}", show_ty(&ty), c04::show_bdoc(&d), hex(&text), hex(&bin)));
        g.count("pair");
    }
    // the text reference alone on colour values under every kind of request, untyped ones included (`pair` makes no
    // claim there: the formats differ by design; the reference must still predict the real text deserializer)
    let tys = ["st(a:seq(any))", "st(a:any)", "st(a:seq(str))", "st(a:str)", "st(a:ign)", "st(a:st(n:str;c:seq(u32)))", "st(a:seq(seq(any)))",
        "st(a:map(any))", "st(a:opt(any))", "st(a:u32)", "st(a:en(rgb;hsv))", "st(a:seq(seq(u32)))", "map(any)", "map(seq(any))", "map(opt(seq(opt(any))))", "st(a:seq(u32))"];
    let nt = g.budget(160, 3000);
    for i in 0..nt {
        let (r, gg, b) = (g.rng.below(256) as u32, g.rng.below(256) as u32, g.rng.below(256) as u32);
        let a = if i % 5 == 0 { Some(g.rng.below(256) as u32) } else { None };
        let d = BDoc { fields: vec![BField { ghosts: 0, key: BLeaf::Unquoted(b"a".to_vec()), val: BNode::Rgb(r, gg, b, a) }] };
        let Some(view) = text_view(&d) else { continue };
        let ty = crate::tyseed::parse_ty(tys[i % tys.len()]).unwrap();
        let text = docgen::render_layout(&mut g.rng, &LayoutCfg::reader_safe(), &docgen::lexemes(&view));
        g.emit(format!("tref {} {} {}", show_ty(&ty), c04::show_bdoc(&d), hex(&text)));
        g.count("tref:colour");
    }
    let m = g.budget(1500, 30_000);
    for _ in 0..m {
        let (t, b) = gen_real_pair(&mut g.rng);
        g.emit(format!("x-c10-real {} {}", hex(&t), hex(&b)));
        g.count("real-pair");
    }
    let k = g.budget(800, 15_000);
    for _ in 0..k {
        let (t, b) = gen_tup_pair(&mut g.rng);
        g.emit(format!("x-c10-tup {} {}", hex(&t), hex(&b)));
        g.count("tuple-pair");
    }
}

pub fn tables() -> String {
    String::new()
}
