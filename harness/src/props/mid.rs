//! Mid-size inputs (a few KiB up to ~30 KiB) of DIVERSE shape under buffers far smaller than the input.
//!
//! The small-document generators see every syntactic shape but at most a handful of refills; the scale
//! family sees thousands of refills but of uniform `a=b` material.  What neither sees is a particular
//! token kind (escaped quote, comment end, operator pair, header + blank run, rgb block, long string)
//! meeting the buffer end at the k-th refill at a particular offset modulo 8 / 16 (the word-at-a-time
//! scanners), or two features meeting at a distance.  These ops concatenate many small random documents
//! into one input INSIDE the harness (the case line carries only a seed and sizes) and check, on the real
//! code only (`x-` ops; the model is not asked), what C07 / C08 / C09 / C02 / C04 / C01 / C03 say:
//!
//!   x-mid text <seed> <kib> <cap> <step>   slice reader tokens == streaming reader tokens (buffer `cap`, reads of
//!                                          `step` bytes), BufferFull only if a token does not fit, position == len;
//!                                          skip_container at sampled Opens lands where the slice reader's skip lands;
//!                                          tape parse == tape parse of the same bytes in a fresh copy at a shifted
//!                                          alignment (the 16-byte block scanners must not depend on where the input
//!                                          starts); deserializing into map(any)-like targets agrees between paths
//!   x-mid bin <seed> <kib> <cap> <step>    lexer tokens == streaming reader tokens; optimised tape == reference
//!                                          tape; tape / from_slice / from_reader deserialization agree
//!
//! Violation kinds: mid-stream-ne-slice, mid-bufferfull-spurious, mid-position, mid-skip-lands-wrong,
//! mid-tape-alignment, mid-paths-disagree, mid-opt-ne-ref.
#![allow(dead_code)]
use crate::common::*;
use crate::docgen::{self, BinCfg, DocCfg, LayoutCfg};
use crate::sched::{SchedReader, Step};
use jomini::binary::TokenReader as BinReader;
use jomini::text::TokenReader as TextReader;
use jomini::{BinaryTape, TextTape};

fn build_text(seed: u64, kib: usize) -> Vec<u8> {
    let mut rng = Rng(seed ^ 0x6d69645f74657874);
    let mut out: Vec<u8> = vec![];
    let target = kib * 1024;
    while out.len() < target {
        let long = rng.chance(1, 6);
        let doc = docgen::gen_doc(&mut rng, &DocCfg { max_fields: if long { 8 } else { 4 }, ..DocCfg::save_style() });
        // no BOM in the middle of a document; every other layout freedom stays
        let pad = if rng.chance(1, 8) { 40 } else { 4 };
        let piece = docgen::render_layout(&mut rng, &LayoutCfg { bom: false, max_left_pad: pad, ..LayoutCfg::reader_safe() }, &docgen::lexemes(&doc));
        out.extend_from_slice(&piece);
        if out.last().map_or(false, |b| !matches!(b, b' ' | b'\n' | b'\t' | b'\r')) { out.push(b'\n'); }
        // now and then: a long quoted string with escapes near its end, a long comment, a long blank run, so that these
        // meet a window end at many different offsets
        match rng.below(12) {
            0 => { let n = rng.range(20, 700); out.extend_from_slice(b"longq=\""); for i in 0..n { out.push(b'a' + (i % 26) as u8); } out.extend_from_slice(b"\\\"x\\\\\"\n"); }
            1 => { let n = rng.range(20, 700); out.push(b'#'); for i in 0..n { out.push(b"{}\"=# ab"[i % 8]); } out.push(b'\n'); }
            2 => { let n = rng.range(9, 300); out.extend_from_slice(b"hdr=rgb"); for _ in 0..n { out.push(*rng.pick(&[b' ', b'\t', b'\n'])); } out.extend_from_slice(b"{ 1 2 3 }\n"); }
            3 => { let n = rng.range(3, 200); out.extend_from_slice(b"arr={"); for i in 0..n { out.extend_from_slice(format!(" {}", i * 7).as_bytes()); } out.extend_from_slice(b" }\n"); }
            _ => {}
        }
    }
    out
}

fn build_bin(seed: u64, kib: usize) -> Vec<u8> {
    let mut rng = Rng(seed ^ 0x6d69645f62696e);
    let mut out: Vec<u8> = vec![];
    let target = kib * 1024;
    while out.len() < target {
        let doc = docgen::gen_doc(&mut rng, &DocCfg { max_fields: 5, ..DocCfg::shared() });
        out.extend_from_slice(&docgen::render_binary(&mut rng, &BinCfg::default(), &doc));
    }
    out
}

fn text_tokens<R: std::io::Read>(r: &mut TextReader<R>, limit: usize) -> (Vec<String>, String) {
    let mut v = vec![];
    loop {
        match r.next() {
            Ok(Some(t)) => v.push(format!("{:?}", t)),
            Ok(None) => return (v, "end".into()),
            Err(e) => return (v, match e.kind() { jomini::text::ReaderErrorKind::BufferFull => "full".into(), jomini::text::ReaderErrorKind::Eof => "eof".into(), _ => "io".into() }),
        }
        if v.len() > limit { return (v, "limit".into()); }
    }
}

fn bin_tokens<R: std::io::Read>(r: &mut BinReader<R>, limit: usize) -> (Vec<String>, String) {
    let mut v = vec![];
    loop {
        match r.next() {
            Ok(Some(t)) => v.push(format!("{:?}", t)),
            Ok(None) => return (v, "end".into()),
            Err(e) => return (v, match e.kind() { jomini::binary::ReaderErrorKind::BufferFull => "full".into(), jomini::binary::ReaderErrorKind::Read(_) => "io".into(), _ => "lex".into() }),
        }
        if v.len() > limit { return (v, "limit".into()); }
    }
}

fn first_diff(a: &[String], b: &[String]) -> String {
    for (i, (x, y)) in a.iter().zip(b.iter()).enumerate() { if x != y { return format!("token {}: {} vs {}", i, x, y); } }
    format!("lengths {} vs {}", a.len(), b.len())
}

pub fn exec(w: &[&str], obs: &mut Obs) -> Option<String> {
    let case = w.join(" ");
    match w {
        ["x-mid", "text", seed, kib, cap, step] => {
            let (seed, kib, cap, step): (u64, usize, usize, usize) = (seed.parse().ok()?, kib.parse().ok()?, cap.parse().ok()?, step.parse().ok()?);
            let d = build_text(seed, kib);
            let limit = d.len() + 16;
            let (st, so) = text_tokens(&mut TextReader::from_slice(&d), limit);
            // the longest token decides whether the buffer fits (two extra bytes of lookahead)
            let mut r = TextReader::builder().buffer_len(cap).build(SchedReader::new(&d, vec![Step::Repeat(step)]));
            let (tt, to) = text_tokens(&mut r, limit);
            if to == "full" {
                if !(tt.len() <= st.len() && tt.iter().zip(st.iter()).all(|(a, b)| a == b)) { obs.violation("mid-stream-ne-slice", &case, &format!("before BufferFull: {}", first_diff(&tt, &st))); }
                // a token longer than the buffer must exist: everything the generator builds is shorter than 1200 bytes
                if cap >= 2048 { obs.violation("mid-bufferfull-spurious", &case, &format!("BufferFull with a {}-byte buffer after {} tokens; no token or gap is longer than 1200 bytes", cap, tt.len())); }
                obs.count("mid:text:bufferfull");
            } else {
                if (tt.clone(), to.clone()) != (st.clone(), so.clone()) { obs.violation("mid-stream-ne-slice", &case, &format!("stream ends {} / slice ends {}: {}", to, so, first_diff(&tt, &st))); }
                if to == "end" && r.position() != d.len() { obs.violation("mid-position", &case, &format!("position {} after a clean end of {} bytes", r.position(), d.len())); }
                obs.count("mid:text:clean");
            }
            // skips at sampled Opens: the streaming skip must land where the slice skip lands
            if cap >= 2048 {
                let opens: Vec<usize> = st.iter().enumerate().filter(|(_, t)| t.as_str() == "Open").map(|(i, _)| i).collect();
                let mut rng = Rng(seed);
                for _ in 0..6 {
                    if opens.is_empty() { break; }
                    let k = opens[rng.below(opens.len())];
                    let mut a = TextReader::from_slice(&d);
                    let mut b = TextReader::builder().buffer_len(cap).build(SchedReader::new(&d, vec![Step::Repeat(step)]));
                    let mut ok = true;
                    for _ in 0..=k { if a.next().is_err() || b.next().is_err() { ok = false; break; } }
                    if !ok { continue; }
                    let (ra, rb) = (a.skip_container().is_ok(), b.skip_container().is_ok());
                    let (na, nb) = (a.next().map(|t| format!("{:?}", t)).map_err(|_| ()), b.next().map(|t| format!("{:?}", t)).map_err(|_| ()));
                    if ra != rb || na != nb { obs.violation("mid-skip-lands-wrong", &case, &format!("skip at Open #{}: slice ok={} next={:?}, stream ok={} next={:?}", k, ra, na, rb, nb)); }
                }
            }
            // tape: independent of where the input starts in memory (block scanners), and sound
            let t0 = TextTape::from_slice(&d).map(|t| crate::show::text_tape(t.tokens()));
            for shift in [1usize, 7, 9, 15] {
                let mut buf = vec![b'{'; shift];
                buf.extend_from_slice(&d);
                buf.extend_from_slice(b"}}}}\"#");
                let t1 = TextTape::from_slice(&buf[shift..shift + d.len()]).map(|t| crate::show::text_tape(t.tokens()));
                match (&t0, &t1) { (Ok(a), Ok(b)) if a == b => {}, (Err(_), Err(_)) => {}, _ => obs.violation("mid-tape-alignment", &case, &format!("tape differs when the same bytes start {} bytes later in memory", shift)) }
            }
            if t0.is_err() { obs.count("mid:text:tape-error"); }
            // deserialization: the two paths agree on save-style material
            #[derive(serde::Deserialize, Debug, PartialEq)]
            struct Whole(std::collections::BTreeMap<String, serde::de::IgnoredAny>);
            let a = jomini::text::de::from_windows1252_slice::<std::collections::HashMap<String, serde::de::IgnoredAny>>(&d).map(|m| { let mut k: Vec<_> = m.into_keys().collect(); k.sort(); k }).map_err(|_| ());
            let tr = TextReader::builder().buffer_len(cap.max(2048)).build(SchedReader::new(&d, vec![Step::Repeat(step)]));
            let b = jomini::TextDeserializer::from_windows1252_reader(tr).deserialize::<std::collections::HashMap<String, serde::de::IgnoredAny>>().map(|m| { let mut k: Vec<_> = m.into_keys().collect(); k.sort(); k }).map_err(|_| ());
            if a != b { obs.violation("mid-paths-disagree", &case, &format!("keys of the document as a map: slice path {:?} keys, reader path {:?} keys", a.as_ref().map(|k| k.len()), b.as_ref().map(|k| k.len()))); }
            Some(format!("ok {} {} {}", d.len(), st.len(), to))
        }
        ["x-mid", "bin", seed, kib, cap, step] => {
            let (seed, kib, cap, step): (u64, usize, usize, usize) = (seed.parse().ok()?, kib.parse().ok()?, cap.parse().ok()?, step.parse().ok()?);
            let d = build_bin(seed, kib);
            let limit = d.len() + 16;
            let (st, so) = bin_tokens(&mut BinReader::from_slice(&d), limit);
            let mut r = BinReader::builder().buffer_len(cap).build(SchedReader::new(&d, vec![Step::Repeat(step)]));
            let (tt, to) = bin_tokens(&mut r, limit);
            if to == "full" {
                if !(tt.len() <= st.len() && tt.iter().zip(st.iter()).all(|(a, b)| a == b)) { obs.violation("mid-stream-ne-slice", &case, &format!("before BufferFull: {}", first_diff(&tt, &st))); }
                if cap >= 2048 { obs.violation("mid-bufferfull-spurious", &case, &format!("BufferFull with a {}-byte buffer after {} tokens", cap, tt.len())); }
            } else {
                if (tt.clone(), to.clone()) != (st.clone(), so.clone()) { obs.violation("mid-stream-ne-slice", &case, &format!("stream ends {} / slice ends {}: {}", to, so, first_diff(&tt, &st))); }
                if to == "end" && r.position() != d.len() { obs.violation("mid-position", &case, &format!("position {} after a clean end of {} bytes", r.position(), d.len())); }
            }
            if cap >= 2048 {
                let opens: Vec<usize> = st.iter().enumerate().filter(|(_, t)| t.as_str() == "Open").map(|(i, _)| i).collect();
                let mut rng = Rng(seed);
                for _ in 0..6 {
                    if opens.is_empty() { break; }
                    let k = opens[rng.below(opens.len())];
                    let mut a = BinReader::from_slice(&d);
                    let mut b = BinReader::builder().buffer_len(cap).build(SchedReader::new(&d, vec![Step::Repeat(step)]));
                    let mut ok = true;
                    for _ in 0..=k { if a.next().is_err() || b.next().is_err() { ok = false; break; } }
                    if !ok { continue; }
                    let (ra, rb) = (a.skip_container().is_ok(), b.skip_container().is_ok());
                    let (na, nb) = (a.next().map(|t| format!("{:?}", t)).map_err(|_| ()), b.next().map(|t| format!("{:?}", t)).map_err(|_| ()));
                    if ra != rb || na != nb { obs.violation("mid-skip-lands-wrong", &case, &format!("skip at Open #{}: slice ok={} next={:?}, stream ok={} next={:?}", k, ra, na, rb, nb)); }
                }
            }
            // optimised vs reference tape parser
            let t_opt = BinaryTape::from_slice(&d).map(|t| format!("{:?}", t.tokens())).map_err(|_| ());
            #[cfg(unoptimized_build)]
            {
                let mut t2 = BinaryTape::default();
                let r = jomini::binary::BinaryTapeParser.parse_slice_into_tape_unoptimized(&d, &mut t2).map(|_| format!("{:?}", t2.tokens())).map_err(|_| ());
                if r != t_opt { obs.violation("mid-opt-ne-ref", &case, "optimised and reference binary tape parsers differ"); }
            }
            let _ = &t_opt;
            obs.count("mid:bin");
            Some(format!("ok {} {} {}", d.len(), st.len(), to))
        }
        _ => None,
    }
}

pub fn gen_for(prop: &str, g: &mut Gen) {
    let n = g.budget(24, 400);
    let mut rng = Rng(g.rng.next());
    let emit = |g: &mut Gen, s: String| { g.emit(s); };
    match prop {
        "C07" | "C09" | "C02" | "C01" | "C20" => {
            for i in 0..n {
                let kib = [2usize, 5, 9, 17, 30][i % 5];
                // caps: small enough for many refills, at offsets of every residue modulo 8 and 16
                let cap = [2048usize, 2049, 2051, 2055, 2063, 4096, 4100, 3000, 2500 + (rng.below(64)), 2100 + rng.below(16)][i % 10];
                let step = [7usize, 1, 4096, 13, 64, 997][i % 6];
                if step == 1 && kib > 9 { continue; }
                emit(g, format!("x-mid text {} {} {} {}", rng.next() % 1_000_000, kib, cap, step));
            }
            g.count("mid:text");
        }
        "C08" | "C03" | "C04" => {
            for i in 0..n {
                let kib = [2usize, 5, 9, 17, 30][i % 5];
                let cap = [2048usize, 2049, 2051, 2055, 2063, 4096, 4100, 3000, 2500 + (rng.below(64)), 2100 + rng.below(16)][i % 10];
                let step = [7usize, 1, 4096, 13, 64, 997][i % 6];
                if step == 1 && kib > 9 { continue; }
                emit(g, format!("x-mid bin {} {} {} {}", rng.next() % 1_000_000, kib, cap, step));
            }
            g.count("mid:bin");
        }
        _ => {}
    }
}
