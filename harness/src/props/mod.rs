//! One module per property.  Each exports
//!   gen(&mut Gen)                               -- emit case lines
//!   exec(&[&str], &mut Obs) -> Option<String>   -- run the real code on one case line
//!   tables() -> String                          -- measured tables as Lean text (may be empty)
use crate::common::*;

pub mod c01;
pub mod c02;
pub mod c03;
pub mod c04;
pub mod c05;
pub mod c06;
pub mod c07;
pub mod c08;
pub mod c09;
pub mod c10;
pub mod c11;
pub mod c12;
pub mod c13;
pub mod c14;
pub mod c15;
pub mod c16;
pub mod c17;
pub mod c18;
pub mod c19;
pub mod c20;
pub mod scale;
pub mod mid;

pub fn gen(prop: &str, g: &mut Gen) {
    match prop {
        "C01" => c01::gen(g),
        "C02" => c02::gen(g),
        "C03" => c03::gen(g),
        "C04" => c04::gen(g),
        "C05" => c05::gen(g),
        "C06" => c06::gen(g),
        "C07" => c07::gen(g),
        "C08" => c08::gen(g),
        "C09" => c09::gen(g),
        "C10" => c10::gen(g),
        "C11" => c11::gen(g),
        "C12" => c12::gen(g),
        "C13" => c13::gen(g),
        "C14" => c14::gen(g),
        "C15" => c15::gen(g),
        "C16" => c16::gen(g),
        "C17" => c17::gen(g),
        "C18" => c18::gen(g),
        "C19" => c19::gen(g),
        "C20" => c20::gen(g),
        _ => panic!("unknown property {}", prop),
    }
    scale::gen_for(prop, g);
    mid::gen_for(prop, g);
}

pub fn exec(words: &[&str], obs: &mut Obs) -> Option<String> {
    None
        .or_else(|| c01::exec(words, obs))
        .or_else(|| c02::exec(words, obs))
        .or_else(|| c03::exec(words, obs))
        .or_else(|| c04::exec(words, obs))
        .or_else(|| c05::exec(words, obs))
        .or_else(|| c06::exec(words, obs))
        .or_else(|| c07::exec(words, obs))
        .or_else(|| c08::exec(words, obs))
        .or_else(|| c09::exec(words, obs))
        .or_else(|| c10::exec(words, obs))
        .or_else(|| c11::exec(words, obs))
        .or_else(|| c12::exec(words, obs))
        .or_else(|| c13::exec(words, obs))
        .or_else(|| c14::exec(words, obs))
        .or_else(|| c15::exec(words, obs))
        .or_else(|| c16::exec(words, obs))
        .or_else(|| c17::exec(words, obs))
        .or_else(|| c18::exec(words, obs))
        .or_else(|| c19::exec(words, obs))
        .or_else(|| c20::exec(words, obs))
        .or_else(|| scale::exec(words, obs))
        .or_else(|| mid::exec(words, obs))
}

pub fn tables() -> String {
    // every module's probes run under catch_unwind: a probe that PANICS (e.g. a debug assertion of the
    // library firing on a one-byte input) must not take the whole run down -- the previous table text is
    // kept for that module by the caller and the panic is reported as a finding of its own
    let mut s = String::new();
    s.push_str(&guarded_tables("C01", c01::tables));
    s.push_str(&guarded_tables("C02", c02::tables));
    s.push_str(&guarded_tables("C03", c03::tables));
    s.push_str(&guarded_tables("C04", c04::tables));
    s.push_str(&guarded_tables("C05", c05::tables));
    s.push_str(&guarded_tables("C06", c06::tables));
    s.push_str(&guarded_tables("C07", c07::tables));
    s.push_str(&guarded_tables("C08", c08::tables));
    s.push_str(&guarded_tables("C09", c09::tables));
    s.push_str(&guarded_tables("C10", c10::tables));
    s.push_str(&guarded_tables("C11", c11::tables));
    s.push_str(&guarded_tables("C12", c12::tables));
    s.push_str(&guarded_tables("C13", c13::tables));
    s.push_str(&guarded_tables("C14", c14::tables));
    s.push_str(&guarded_tables("C15", c15::tables));
    s.push_str(&guarded_tables("C16", c16::tables));
    s.push_str(&guarded_tables("C17", c17::tables));
    s.push_str(&guarded_tables("C18", c18::tables));
    s.push_str(&guarded_tables("C19", c19::tables));
    s.push_str(&guarded_tables("C20", c20::tables));
    s
}

pub fn guarded_tables(id: &str, f: fn() -> String) -> String {
    match guard(f) {
        Ok(t) => t,
        Err(()) => format!("-- TABLE-PROBE-PANICKED {}\n", id),
    }
}
