//! One module per property.  Each exports
//!   gen(&mut Gen)                      -- emit case lines
//!   exec(&[&str], &mut Obs) -> Option<String>   -- run the real code on one case line
//!   tables() -> String                 -- (optional) measured tables as Lean text
use crate::common::*;

pub mod c11;

pub fn gen(prop: &str, g: &mut Gen) {
    match prop {
        "C11" => c11::gen(g),
        _ => panic!("unknown property {}", prop),
    }
}

pub fn exec(words: &[&str], obs: &mut Obs) -> Option<String> {
    None
        .or_else(|| c11::exec(words, obs))
}

pub fn tables() -> String {
    let mut s = String::new();
    s.push_str(&c11::tables());
    s
}
