//! Runtime type descriptors `Ty` interpreted against any serde `Deserializer` (DESIGN.md §7):
//! a `DeserializeSeed` that calls exactly the `deserialize_*` method a Rust type of that shape
//! would call (leaf types delegate to serde's own impls for bool/i64/u64/f64/String, so the
//! acceptance rules are serde's), and renders the resulting value as a canonical `Val` string.
//! This gives an unbounded generated family of target types without compiling a struct per case.
//!
//! Ty syntax (no spaces):  bool i64 u64 i32 u32 u16 i16 u8 i8 f64 f32 str any ign
//!                         opt(T) seq(T) map(T) prop(T) st(name:T;name:T;...) en(v1;v2;...)
//! Val syntax (no spaces): b0 b1 i<n> u<n> f<bits64> g<bits32> s<hex> y<hex> none some(V) unit
//!                         [V,V,...] {K=V,K=V,...} prop(<op>,V) nt(V) en(<name hex>) ign
//!   errors: err:missing:<field> err:duplicate:<field> err:type err:other
#![allow(dead_code)]
use crate::common::hex;
use serde::de::{self, DeserializeSeed, Deserializer, MapAccess, SeqAccess, Visitor};
use std::fmt;

#[derive(Clone, Debug, PartialEq)]
pub enum Ty {
    Bool, I64, U64, I32, U32, F64, F32, Str, Any, Ign,
    /// narrower integers (serde's own impls: `deserialize_u16` / `_i16` / `_u8` / `_i8`, range-checked conversions)
    U16, I16, U8, I8,
    Opt(Box<Ty>), Seq(Box<Ty>), Map(Box<Ty>), Prop(Box<Ty>),
    Struct(Vec<(String, Ty)>),
    Enum(Vec<String>),
    /// fixed-length tuple `tup(T;T;…)`: deserialize_tuple (implementation-only ops; the Lean models do not parse it)
    Tuple(Vec<Ty>),
    /// `()`: deserialize_unit (implementation-only ops)
    Unit,
}

pub fn show_ty(t: &Ty) -> String {
    match t {
        Ty::Bool => "bool".into(), Ty::I64 => "i64".into(), Ty::U64 => "u64".into(), Ty::I32 => "i32".into(), Ty::U32 => "u32".into(),
        Ty::F64 => "f64".into(), Ty::F32 => "f32".into(), Ty::Str => "str".into(), Ty::Any => "any".into(), Ty::Ign => "ign".into(),
        Ty::U16 => "u16".into(), Ty::I16 => "i16".into(), Ty::U8 => "u8".into(), Ty::I8 => "i8".into(),
        Ty::Opt(t) => format!("opt({})", show_ty(t)), Ty::Seq(t) => format!("seq({})", show_ty(t)),
        Ty::Map(t) => format!("map({})", show_ty(t)), Ty::Prop(t) => format!("prop({})", show_ty(t)),
        Ty::Struct(fs) => format!("st({})", fs.iter().map(|(n, t)| format!("{}:{}", n, show_ty(t))).collect::<Vec<_>>().join(";")),
        Ty::Enum(vs) => format!("en({})", vs.join(";")),
        Ty::Tuple(ts) => format!("tup({})", ts.iter().map(show_ty).collect::<Vec<_>>().join(";")),
        Ty::Unit => "unit".into(),
    }
}

pub fn parse_ty(s: &str) -> Option<Ty> {
    let (t, rest) = parse_ty_inner(s)?;
    if rest.is_empty() { Some(t) } else { None }
}

fn parse_ty_inner(s: &str) -> Option<(Ty, &str)> {
    for (kw, t) in [("bool", Ty::Bool), ("i64", Ty::I64), ("u64", Ty::U64), ("i32", Ty::I32), ("u32", Ty::U32), ("f64", Ty::F64), ("f32", Ty::F32), ("str", Ty::Str), ("any", Ty::Any), ("ign", Ty::Ign), ("u16", Ty::U16), ("i16", Ty::I16), ("u8", Ty::U8), ("i8", Ty::I8), ("unit", Ty::Unit)] {
        if let Some(r) = s.strip_prefix(kw) {
            if !r.starts_with(|c: char| c.is_ascii_alphanumeric() || c == '_' || c == '(') {
                return Some((t, r));
            }
        }
    }
    for (kw, mk) in [("opt(", Ty::Opt as fn(Box<Ty>) -> Ty), ("seq(", Ty::Seq), ("map(", Ty::Map), ("prop(", Ty::Prop)] {
        if let Some(r) = s.strip_prefix(kw) {
            let (t, r) = parse_ty_inner(r)?;
            let r = r.strip_prefix(')')?;
            return Some((mk(Box::new(t)), r));
        }
    }
    if let Some(mut r) = s.strip_prefix("st(") {
        let mut fs = vec![];
        loop {
            if let Some(r2) = r.strip_prefix(')') { return Some((Ty::Struct(fs), r2)); }
            let colon = r.find(':')?;
            let name = &r[..colon];
            let (t, r2) = parse_ty_inner(&r[colon + 1..])?;
            fs.push((name.to_string(), t));
            r = r2.strip_prefix(';').unwrap_or(r2);
        }
    }
    if let Some(mut r) = s.strip_prefix("tup(") {
        let mut ts = vec![];
        loop {
            if let Some(r2) = r.strip_prefix(')') { return Some((Ty::Tuple(ts), r2)); }
            let (t, r2) = parse_ty_inner(r)?;
            ts.push(t);
            r = r2.strip_prefix(';').unwrap_or(r2);
        }
    }
    if let Some(r) = s.strip_prefix("en(") {
        let close = r.find(')')?;
        let vs = r[..close].split(';').filter(|x| !x.is_empty()).map(|x| x.to_string()).collect();
        return Some((Ty::Enum(vs), &r[close + 1..]));
    }
    None
}

/// Seed: deserialize a value of shape `Ty`, produce its `Val` rendering.
pub struct TySeed<'a>(pub &'a Ty);

fn leak_str(s: &str) -> &'static str { Box::leak(s.to_string().into_boxed_str()) }
fn leak_fields(names: Vec<&'static str>) -> &'static [&'static str] { Box::leak(names.into_boxed_slice()) }

impl<'de, 'a> DeserializeSeed<'de> for TySeed<'a> {
    type Value = String;
    fn deserialize<D: Deserializer<'de>>(self, d: D) -> Result<String, D::Error> {
        use serde::Deserialize;
        match self.0 {
            Ty::Bool => bool::deserialize(d).map(|b| format!("b{}", b as u8)),
            Ty::I64 => i64::deserialize(d).map(|v| format!("i{}", v)),
            Ty::I32 => i32::deserialize(d).map(|v| format!("i{}", v)),
            Ty::U64 => u64::deserialize(d).map(|v| format!("u{}", v)),
            Ty::U32 => u32::deserialize(d).map(|v| format!("u{}", v)),
            Ty::U16 => u16::deserialize(d).map(|v| format!("u{}", v)),
            Ty::U8 => u8::deserialize(d).map(|v| format!("u{}", v)),
            Ty::I16 => i16::deserialize(d).map(|v| format!("i{}", v)),
            Ty::I8 => i8::deserialize(d).map(|v| format!("i{}", v)),
            Ty::F64 => f64::deserialize(d).map(|v| format!("f{}", v.to_bits())),
            Ty::F32 => f32::deserialize(d).map(|v| format!("g{}", v.to_bits())),
            Ty::Str => String::deserialize(d).map(|v| format!("s{}", hex(v.as_bytes()))),
            Ty::Any => d.deserialize_any(AnyVisitor),
            Ty::Ign => de::IgnoredAny::deserialize(d).map(|_| "ign".to_string()),
            Ty::Opt(t) => d.deserialize_option(OptVisitor(t)),
            Ty::Seq(t) => d.deserialize_seq(SeqVisitor(t)),
            Ty::Map(t) => d.deserialize_map(MapVisitor(t)),
            Ty::Prop(t) => d.deserialize_struct("_internal_jomini_property", &["operator", "value"], PropVisitor(t)),
            Ty::Struct(fs) => {
                let names: Vec<&'static str> = fs.iter().map(|(n, _)| leak_str(n)).collect();
                d.deserialize_struct("S", leak_fields(names), StructVisitor(fs))
            }
            Ty::Enum(vs) => {
                let names: Vec<&'static str> = vs.iter().map(|n| leak_str(n)).collect();
                d.deserialize_enum("E", leak_fields(names), EnumVisitor(vs))
            }
            Ty::Tuple(ts) => d.deserialize_tuple(ts.len(), TupleVisitor(ts)),
            Ty::Unit => <()>::deserialize(d).map(|_| "unit".to_string()),
        }
    }
}

struct OptVisitor<'a>(&'a Ty);
impl<'de, 'a> Visitor<'de> for OptVisitor<'a> {
    type Value = String;
    fn expecting(&self, f: &mut fmt::Formatter) -> fmt::Result { f.write_str("option") }
    fn visit_none<E: de::Error>(self) -> Result<String, E> { Ok("none".into()) }
    fn visit_unit<E: de::Error>(self) -> Result<String, E> { Ok("none".into()) }
    fn visit_some<D: Deserializer<'de>>(self, d: D) -> Result<String, D::Error> {
        TySeed(self.0).deserialize(d).map(|v| format!("some({})", v))
    }
}

/// serde's tuple visitor: reads exactly `len` elements, fewer is an invalid-length error
struct TupleVisitor<'a>(&'a [Ty]);
impl<'de, 'a> Visitor<'de> for TupleVisitor<'a> {
    type Value = String;
    fn expecting(&self, f: &mut fmt::Formatter) -> fmt::Result { f.write_str("a tuple") }
    fn visit_seq<A: SeqAccess<'de>>(self, mut seq: A) -> Result<String, A::Error> {
        let mut items = vec![];
        for (i, t) in self.0.iter().enumerate() {
            match seq.next_element_seed(TySeed(t))? {
                Some(v) => items.push(v),
                None => return Err(de::Error::invalid_length(i, &"a tuple")),
            }
        }
        Ok(format!("({})", items.join(",")))
    }
}

struct SeqVisitor<'a>(&'a Ty);
impl<'de, 'a> Visitor<'de> for SeqVisitor<'a> {
    type Value = String;
    fn expecting(&self, f: &mut fmt::Formatter) -> fmt::Result { f.write_str("a sequence") }
    fn visit_seq<A: SeqAccess<'de>>(self, mut seq: A) -> Result<String, A::Error> {
        let mut items = vec![];
        while let Some(v) = seq.next_element_seed(TySeed(self.0))? { items.push(v); }
        Ok(format!("[{}]", items.join(",")))
    }
}

struct MapVisitor<'a>(&'a Ty);
impl<'de, 'a> Visitor<'de> for MapVisitor<'a> {
    type Value = String;
    fn expecting(&self, f: &mut fmt::Formatter) -> fmt::Result { f.write_str("a map") }
    fn visit_map<A: MapAccess<'de>>(self, mut map: A) -> Result<String, A::Error> {
        let mut items = vec![];
        while let Some(k) = map.next_key_seed(TySeed(&Ty::Str))? {
            let v = map.next_value_seed(TySeed(self.0))?;
            items.push(format!("{}={}", k, v));
        }
        Ok(format!("{{{}}}", items.join(",")))
    }
}

/// field identifier exactly as serde_derive generates it (deserialize_identifier; str / bytes / u64 index)
struct FieldId<'a>(&'a [(String, Ty)]);
impl<'de, 'a> DeserializeSeed<'de> for FieldId<'a> {
    type Value = Option<usize>;
    fn deserialize<D: Deserializer<'de>>(self, d: D) -> Result<Option<usize>, D::Error> {
        struct V<'a>(&'a [(String, Ty)]);
        impl<'de, 'a> Visitor<'de> for V<'a> {
            type Value = Option<usize>;
            fn expecting(&self, f: &mut fmt::Formatter) -> fmt::Result { f.write_str("field identifier") }
            fn visit_str<E: de::Error>(self, v: &str) -> Result<Option<usize>, E> { Ok(self.0.iter().position(|(n, _)| n == v)) }
            fn visit_bytes<E: de::Error>(self, v: &[u8]) -> Result<Option<usize>, E> { Ok(self.0.iter().position(|(n, _)| n.as_bytes() == v)) }
            fn visit_u64<E: de::Error>(self, v: u64) -> Result<Option<usize>, E> { Ok(if (v as usize) < self.0.len() { Some(v as usize) } else { None }) }
        }
        d.deserialize_identifier(V(self.0))
    }
}

struct StructVisitor<'a>(&'a [(String, Ty)]);
impl<'de, 'a> Visitor<'de> for StructVisitor<'a> {
    type Value = String;
    fn expecting(&self, f: &mut fmt::Formatter) -> fmt::Result { f.write_str("struct S") }
    fn visit_map<A: MapAccess<'de>>(self, mut map: A) -> Result<String, A::Error> {
        let mut slots: Vec<Option<String>> = vec![None; self.0.len()];
        while let Some(k) = map.next_key_seed(FieldId(self.0))? {
            match k {
                Some(i) => {
                    if slots[i].is_some() {
                        return Err(de::Error::duplicate_field(leak_str(&self.0[i].0)));
                    }
                    slots[i] = Some(map.next_value_seed(TySeed(&self.0[i].1))?);
                }
                None => { map.next_value::<de::IgnoredAny>()?; }
            }
        }
        let mut items = vec![];
        for (i, (name, ty)) in self.0.iter().enumerate() {
            let v = match slots[i].take() {
                Some(v) => v,
                None => match ty {
                    Ty::Opt(_) => "none".to_string(),
                    _ => return Err(de::Error::missing_field(leak_str(name))),
                },
            };
            items.push(format!("{}={}", name, v));
        }
        Ok(format!("{{{}}}", items.join(",")))
    }
    fn visit_seq<A: SeqAccess<'de>>(self, mut seq: A) -> Result<String, A::Error> {
        let mut items = vec![];
        for (i, (name, ty)) in self.0.iter().enumerate() {
            match seq.next_element_seed(TySeed(ty))? {
                Some(v) => items.push(format!("{}={}", name, v)),
                None => return Err(de::Error::invalid_length(i, &"struct S")),
            }
        }
        Ok(format!("{{{}}}", items.join(",")))
    }
}

struct PropVisitor<'a>(&'a Ty);
fn op_short(sym: &str) -> &'static str {
    match sym { "=" => "eq", "<" => "lt", "<=" => "le", ">" => "gt", ">=" => "ge", "!=" => "ne", "==" => "exact", "?=" => "exists", _ => "unknown" }
}
impl<'de, 'a> Visitor<'de> for PropVisitor<'a> {
    type Value = String;
    fn expecting(&self, f: &mut fmt::Formatter) -> fmt::Result { f.write_str("struct Property") }
    fn visit_seq<A: SeqAccess<'de>>(self, mut seq: A) -> Result<String, A::Error> {
        let op: jomini::text::Operator = seq.next_element()?.ok_or_else(|| de::Error::invalid_length(0, &"Property"))?;
        let v = seq.next_element_seed(TySeed(self.0))?.ok_or_else(|| de::Error::invalid_length(1, &"Property"))?;
        Ok(format!("prop({},{})", op_short(op.symbol()), v))
    }
    fn visit_map<A: MapAccess<'de>>(self, mut map: A) -> Result<String, A::Error> {
        let mut op: Option<jomini::text::Operator> = None;
        let mut val: Option<String> = None;
        while let Some(k) = map.next_key::<String>()? {
            match k.as_str() {
                "operator" => op = Some(map.next_value()?),
                "value" => val = Some(map.next_value_seed(TySeed(self.0))?),
                _ => { map.next_value::<de::IgnoredAny>()?; }
            }
        }
        let op = op.ok_or_else(|| de::Error::missing_field("operator"))?;
        let val = val.ok_or_else(|| de::Error::missing_field("value"))?;
        Ok(format!("prop({},{})", op_short(op.symbol()), val))
    }
}

struct EnumVisitor<'a>(&'a [String]);
impl<'de, 'a> Visitor<'de> for EnumVisitor<'a> {
    type Value = String;
    fn expecting(&self, f: &mut fmt::Formatter) -> fmt::Result { f.write_str("enum E") }
    fn visit_enum<A: de::EnumAccess<'de>>(self, data: A) -> Result<String, A::Error> {
        use serde::de::VariantAccess;
        let (name, variant): (String, _) = data.variant()?;
        variant.unit_variant()?;
        if self.0.iter().any(|v| *v == name) {
            Ok(format!("en({})", hex(name.as_bytes())))
        } else {
            Err(de::Error::unknown_variant(leak_str(&name), &[]))
        }
    }
}

/// records whatever the deserializer decides to give (`deserialize_any`): shape-directed full capture
pub struct AnyVisitor;
impl<'de> DeserializeSeed<'de> for AnyVisitor {
    type Value = String;
    fn deserialize<D: Deserializer<'de>>(self, d: D) -> Result<String, D::Error> { d.deserialize_any(AnyVisitor) }
}
impl<'de> Visitor<'de> for AnyVisitor {
    type Value = String;
    fn expecting(&self, f: &mut fmt::Formatter) -> fmt::Result { f.write_str("anything") }
    fn visit_bool<E: de::Error>(self, v: bool) -> Result<String, E> { Ok(format!("b{}", v as u8)) }
    fn visit_i64<E: de::Error>(self, v: i64) -> Result<String, E> { Ok(format!("i{}", v)) }
    fn visit_i32<E: de::Error>(self, v: i32) -> Result<String, E> { Ok(format!("i{}", v)) }
    fn visit_u64<E: de::Error>(self, v: u64) -> Result<String, E> { Ok(format!("u{}", v)) }
    fn visit_u32<E: de::Error>(self, v: u32) -> Result<String, E> { Ok(format!("u{}", v)) }
    fn visit_u16<E: de::Error>(self, v: u16) -> Result<String, E> { Ok(format!("u{}", v)) }
    fn visit_f64<E: de::Error>(self, v: f64) -> Result<String, E> { Ok(format!("f{}", v.to_bits())) }
    fn visit_f32<E: de::Error>(self, v: f32) -> Result<String, E> { Ok(format!("g{}", v.to_bits())) }
    fn visit_str<E: de::Error>(self, v: &str) -> Result<String, E> { Ok(format!("s{}", hex(v.as_bytes()))) }
    fn visit_bytes<E: de::Error>(self, v: &[u8]) -> Result<String, E> { Ok(format!("y{}", hex(v))) }
    fn visit_none<E: de::Error>(self) -> Result<String, E> { Ok("none".into()) }
    fn visit_unit<E: de::Error>(self) -> Result<String, E> { Ok("unit".into()) }
    fn visit_some<D: Deserializer<'de>>(self, d: D) -> Result<String, D::Error> { d.deserialize_any(AnyVisitor).map(|v| format!("some({})", v)) }
    fn visit_newtype_struct<D: Deserializer<'de>>(self, d: D) -> Result<String, D::Error> { d.deserialize_any(AnyVisitor).map(|v| format!("nt({})", v)) }
    fn visit_seq<A: SeqAccess<'de>>(self, mut seq: A) -> Result<String, A::Error> {
        let mut items = vec![];
        while let Some(v) = seq.next_element_seed(AnyVisitor)? { items.push(v); }
        Ok(format!("[{}]", items.join(",")))
    }
    fn visit_map<A: MapAccess<'de>>(self, mut map: A) -> Result<String, A::Error> {
        let mut items = vec![];
        while let Some(k) = map.next_key_seed(AnyVisitor)? {
            let v = map.next_value_seed(AnyVisitor)?;
            items.push(format!("{}={}", k, v));
        }
        Ok(format!("{{{}}}", items.join(",")))
    }
}

/// classify a deserializer error message into the small enum used in result lines
pub fn err_class(msg: &str) -> String {
    let field = |key: &str| -> String {
        msg.find(key).map(|p| {
            let rest = &msg[p + key.len()..];
            let rest = rest.trim_start_matches(|c| c == ' ' || c == '`' || c == '"');
            rest.chars().take_while(|c| c.is_ascii_alphanumeric() || *c == '_').collect()
        }).unwrap_or_default()
    };
    if msg.contains("missing field") { format!("err:missing:{}", field("missing field")) }
    else if msg.contains("duplicate field") { format!("err:duplicate:{}", field("duplicate field")) }
    else if msg.contains("invalid type") || msg.contains("invalid value") { "err:type".to_string() }
    else { "err:other".to_string() }
}

// ---------------------------------------------------------------------------------------
// Ty generation from a document's shape (shape-directed full capture, partial structs, typed scalars)
use crate::common::Rng;
use crate::docgen::{Doc, Field, Leaf, Node};

fn leaf_ty(rng: &mut Rng, l: &Leaf, text: bool) -> Ty {
    match l {
        Leaf::Int(_) => match rng.below(4) { 0 => Ty::F64, 1 => Ty::Any, 2 => Ty::Str, _ => Ty::I64 },
        Leaf::Uint(_) => match rng.below(3) { 0 => Ty::Any, 1 => Ty::Str, _ => Ty::U64 },
        Leaf::Bool(_) => if rng.chance(1, 4) { Ty::Any } else { Ty::Bool },
        Leaf::Fixed(_) => match rng.below(3) { 0 => Ty::Any, 1 if text => Ty::Str, _ => Ty::F64 },
        Leaf::Date(..) => if text { Ty::Str } else { Ty::Any },
        Leaf::Unq(b) if b.iter().all(|c| c.is_ascii_digit() || *c == b'.' || *c == b'-') && b.contains(&b'.') => match rng.below(3) { 0 => Ty::Str, 1 => Ty::Any, _ => Ty::F64 },
        Leaf::Unq(_) | Leaf::Quo(_) => if rng.chance(1, 5) { Ty::Any } else { Ty::Str },
    }
}

pub fn key_name(l: &Leaf) -> Option<String> {
    match l {
        Leaf::Unq(b) if b.iter().all(|c| c.is_ascii_alphanumeric() || *c == b'_') && !b.is_empty() && !b[0].is_ascii_digit() => Some(String::from_utf8(b.clone()).unwrap()),
        _ => None,
    }
}

fn fields_ty(rng: &mut Rng, fs: &[Field], text: bool, depth: usize) -> Ty {
    // struct when all keys are plain identifiers and unique; otherwise a map whose value type
    // fits every field (maps are requested as maps, sequences as sequences: `any` is only ever
    // used for scalar leaves because a streaming deserializer cannot guess a container's shape)
    let names: Vec<Option<String>> = fs.iter().map(|f| key_name(&f.key)).collect();
    let all_named = names.iter().all(|n| n.is_some());
    let mut uniq = std::collections::BTreeSet::new();
    let unique = names.iter().flatten().all(|n| uniq.insert(n.clone()));
    if all_named && unique && !fs.is_empty() && rng.chance(5, 6) {
        let mut out = vec![];
        for (f, n) in fs.iter().zip(names.iter()) {
            // partial structs: drop some fields (they become unknown fields to skip)
            if rng.chance(1, 5) { continue; }
            let t = node_ty(rng, &f.val, text, depth + 1);
            let t = if rng.chance(1, 6) { Ty::Opt(Box::new(t)) } else { t };
            out.push((n.clone().unwrap(), t));
        }
        // absent optional field
        if rng.chance(1, 4) { out.push(("absent_opt".to_string(), Ty::Opt(Box::new(Ty::I64)))); }
        Ty::Struct(out)
    } else {
        // map: all values must share a type; use it when every value is a scalar leaf, else ignore values
        if fs.iter().all(|f| matches!(f.val, Node::Leaf(_))) { Ty::Map(Box::new(if rng.chance(1, 2) { Ty::Any } else { Ty::Str })) } else { Ty::Map(Box::new(Ty::Ign)) }
    }
}

pub fn node_ty(rng: &mut Rng, n: &Node, text: bool, depth: usize) -> Ty {
    if rng.chance(1, 25) { return Ty::Ign; }
    match n {
        Node::Leaf(l) => leaf_ty(rng, l, text),
        Node::Obj(fs) => fields_ty(rng, fs, text, depth),
        Node::Arr(vs) => {
            if vs.iter().all(|v| matches!(v, Node::Leaf(_))) {
                Ty::Seq(Box::new(if rng.chance(1, 2) { Ty::Any } else { Ty::Str }))
            } else if vs.iter().all(|v| matches!(v, Node::Obj(_))) {
                // arrays of objects: element type = map of ignored values (fits every element)
                Ty::Seq(Box::new(Ty::Map(Box::new(Ty::Ign))))
            } else {
                Ty::Seq(Box::new(Ty::Ign))
            }
        }
        Node::Rgb(..) | Node::Header(..) | Node::Mixed(..) => Ty::Ign,
    }
}

/// a target type for the whole document (top level is always an object)
pub fn doc_ty(rng: &mut Rng, doc: &Doc, text: bool) -> Ty {
    fields_ty(rng, &doc.fields, text, 0)
}
