//! Memory-safety oracle for the thorough tier of C05: the same entry points as the C05 exploration,
//! on a small set of short adversarial inputs, executed under Miri (`cargo +nightly miri run`), which
//! flags out-of-bounds reads, use of uninitialised memory and invalid pointer arithmetic in the
//! library's unsafe code even when the process would not crash.  Exploration, not proof.
use jomini::binary::{Lexer, TokenReader as BinReader};
use jomini::text::TokenReader as TextReader;
use jomini::{BinaryTape, Scalar, TextTape, Utf8Encoding, Windows1252Encoding};

struct Chunked<'a>(&'a [u8], usize);
impl<'a> std::io::Read for Chunked<'a> {
    fn read(&mut self, buf: &mut [u8]) -> std::io::Result<usize> {
        let n = self.1.min(buf.len()).min(self.0.len());
        buf[..n].copy_from_slice(&self.0[..n]);
        self.0 = &self.0[n..];
        Ok(n)
    }
}

fn text(d: &[u8]) {
    // exact-size allocation: any read past the end is out of bounds for Miri
    let d: Box<[u8]> = d.to_vec().into_boxed_slice();
    if let Ok(t) = TextTape::from_slice(&d) {
        let r = t.windows1252_reader();
        for (k, _o, v) in r.fields() { let _ = k.read_str(); let _ = v.read_str(); let _ = v.read_array().map(|a| a.len()); }
        let mut t2 = TextTape::new();
        let _ = TextTape::parser().parse_slice_into_tape(&d, &mut t2);
        let _ = TextTape::parser().parse_slice_into_tape(b"a=b", &mut t2);
    }
    let mut r = TextReader::from_slice(&d);
    let mut n = 0;
    while let Ok(Some(_)) = r.next() { n += 1; if n > 1000 { break; } }
    for (cap, step) in [(8usize, 1usize), (9, 9), (16, 3), (64, 64)] {
        let mut r = TextReader::builder().buffer_len(cap).build(Chunked(&d, step));
        let mut n = 0;
        loop {
            match r.next() {
                Ok(Some(jomini::text::Token::Open)) if n % 2 == 0 => { if r.skip_container().is_err() { break; } }
                Ok(Some(_)) => {}
                _ => break,
            }
            n += 1;
            if n > 1000 { break; }
        }
    }
    let s = Scalar::new(&d);
    let _ = s.to_f64(); let _ = s.to_i64(); let _ = s.to_u64(); let _ = s.to_bool();
    let _ = Windows1252Encoding::decode(&d); let _ = Utf8Encoding::decode(&d);
    let _ = jomini::common::Date::parse(&d[..]);
}

fn bin(d: &[u8]) {
    let d: Box<[u8]> = d.to_vec().into_boxed_slice();
    if let Ok(t) = BinaryTape::from_slice(&d) { let _ = t.tokens().len(); }
    let mut lx = Lexer::new(&d);
    let mut n = 0;
    while let Ok(Some(_)) = lx.next_token() { n += 1; if n > 1000 { break; } }
    let mut lx = Lexer::new(&d);
    while let Ok(Some(id)) = lx.next_id() { if lx.skip_value(id).is_err() { break; } }
    for (cap, step) in [(4usize, 1usize), (7, 3), (64, 64)] {
        let mut r = BinReader::builder().buffer_len(cap).build(Chunked(&d, step));
        let mut n = 0;
        loop {
            match r.next() {
                Ok(Some(jomini::binary::Token::Open)) if n % 2 == 0 => { if r.skip_container().is_err() { break; } }
                Ok(Some(_)) => {}
                _ => break,
            }
            n += 1;
            if n > 1000 { break; }
        }
    }
}

fn unhex(s: &str) -> Vec<u8> {
    if s == "-" { return vec![]; }
    (0..s.len() / 2).map(|i| u8::from_str_radix(&s[2 * i..2 * i + 2], 16).unwrap()).collect()
}

fn main() {
    let path = std::env::args().nth(1).expect("cases file");
    let txt = std::fs::read_to_string(path).unwrap();
    let mut n = 0;
    for line in txt.lines() {
        let w: Vec<&str> = line.split_whitespace().collect();
        eprintln!("CASE {}", line);
        match w.as_slice() {
            ["x-text", h] => text(&unhex(h)),
            ["x-bin", h] => bin(&unhex(h)),
            _ => continue,
        }
        n += 1;
    }
    println!("miri-cases {}", n);
}
