-- root module (the library is built through `globs`)
import JominiModel.Model.Basic
