import JominiModel.Proofs.Dom
namespace Jomini.Dom
open Jomini

theorem linksOkF_get (t : Tape) : ∀ (l : List TTok) (k j : Nat) (tok : TTok),
    linksOkF t k l = true → l[j]? = some tok → linkOkAt t (k + j) tok = true := by
  intro l
  induction l with
  | nil => intro k j tok _ h; simp at h
  | cons a l ih =>
    intro k j tok h hj
    simp only [linksOkF, Bool.and_eq_true] at h
    cases j with
    | zero => simp at hj; subst hj; simpa using h.1
    | succ j =>
      simp at hj
      have := ih (k + 1) j tok h.2 hj
      rwa [Nat.add_assoc, Nat.add_comm 1 j] at this

theorem linkOk_of_wf (t : Tape) (h : linksOk t = true) (i : Nat) (tok : TTok) (hi : t[i]? = some tok) :
    linkOkAt t i tok = true := by
  have := linksOkF_get t t.toList 0 i tok h (by simpa using hi)
  simpa using this

theorem fwdLinks_of_linksOk (t : Tape) (h : linksOk t = true) : FwdLinks t := by
  intro i tok e hi he
  have hl := linkOk_of_wf t h i tok hi
  cases tok <;> simp [TTok.containerEnd?] at he
  all_goals
    subst he
    simp only [linkOkAt, Bool.and_eq_true, decide_eq_true_eq, beq_iff_eq] at hl
    exact ⟨hl.1.1, getElem?_lt hl.2⟩

theorem end_of_linksOk (t : Tape) (h : linksOk t = true) (i e : Nat) (tok : TTok) (hi : t[i]? = some tok)
    (he : tok.containerEnd? = some e) : t[e]? = some (.end_ i) := by
  have hl := linkOk_of_wf t h i tok hi
  cases tok <;> simp [TTok.containerEnd?] at he
  all_goals
    subst he
    simp only [linkOkAt, Bool.and_eq_true, decide_eq_true_eq, beq_iff_eq] at hl
    exact hl.2

theorem objectsOkF_get (t : Tape) : ∀ (l : List TTok) (k j e : Nat) (m : Bool),
    objectsOkF t k l = true → l[j]? = some (.object e m) →
      ∃ q, objWalk t (k + j + 1) e = some q ∧ (m = true → q < e) := by
  intro l
  induction l with
  | nil => intro k j e m _ h; simp at h
  | cons a l ih =>
    intro k j e m h hj
    simp only [objectsOkF, Bool.and_eq_true] at h
    cases j with
    | zero =>
      simp at hj; subst hj
      have h1 := h.1
      simp only at h1
      cases hw : objWalk t (k + 1) e with
      | none => simp [hw] at h1
      | some q =>
        simp [hw] at h1
        refine ⟨q, by simpa using hw, ?_⟩
        intro hm
        rcases h1 with h1 | h1
        · simp [hm] at h1
        · exact h1
    | succ j =>
      simp at hj
      obtain ⟨q, h1, h2⟩ := ih (k + 1) j e m h.2 hj
      refine ⟨q, ?_, h2⟩
      have : k + (j + 1) + 1 = k + 1 + j + 1 := by omega
      rw [this]; exact h1

end Jomini.Dom
