import JominiModel.Proofs.Dom
namespace Jomini.Dom
open Jomini

theorem objWalkF_mono (t : Tape) (e : Nat) : ∀ f p q, objWalkF f t p e = some q → objWalkF (f + 1) t p e = some q := by
  intro f
  induction f with
  | zero => intro p q h; simp [objWalkF] at h
  | succ f ih =>
    intro p q h
    rw [objWalkF] at h ⊢
    split
    · simpa [*] using h
    · rename_i hpe
      simp only [hpe, if_false] at h
      split
      · simp_all
      · rename_i k hk
        simp only [hk] at h
        split
        · simpa [*] using h
        · rename_i hm
          simp only [hm, if_false] at h
          split
          · simp_all
          · rename_i kb hkb
            simp only [hkb] at h
            split
            · simp_all
            · rename_i nx hnx
              simp only [hnx] at h
              split
              · rename_i hv
                simp only [hv, if_true] at h
                split
                · rename_i n hn
                  simp only [hn] at h
                  exact ih _ _ h
                · simp_all
              · simp_all

end Jomini.Dom
