import JominiModel.Proofs.BinTape
namespace Jomini.BinTape

@[simp] theorem nextState_arrayValue : nextState .arrayValue = some .arrayValue := by decide
@[simp] theorem nextState_arrayValueMixed : nextState .arrayValueMixed = some .arrayValueMixed := by decide
@[simp] theorem nextState_objectValue : nextState .objectValue = some .key := by decide
@[simp] theorem nextState_key : nextState .key = some .keyValueSeparator := by decide
@[simp] theorem nextState_kvs : nextState .keyValueSeparator = some .objectToArray := by decide
@[simp] theorem nextState_objectToArray : nextState .objectToArray = some .openFirst := by decide
@[simp] theorem nextState_openFirst : nextState .openFirst = some .openSecond := by decide
@[simp] theorem nextState_openSecond : nextState .openSecond = some .arrayValue := by decide

theorem step_scalar_ok {tape : Tape} {parent : Nat} {state s' : PState} {data d d' : Bytes} {tok : Nat}
    {r : Except Err (Tape × Bytes)} {t' : Tape}
    (h : readId data = some (tok, d)) (hs : state ≠ .objectToArray)
    (hP : tokenArm false 0 tape parent state d tok = scalarArm r parent state)
    (hr : r = .ok (t', d')) (hn : nextState state = some s') :
    step ⟨tape, parent, state, data⟩ = .next ⟨t', parent, s', d'⟩ := by
  rw [step_eq (st := ⟨tape, parent, state, data⟩) h]
  simp [dispatch, hs, hP, scalarArm, hr, hn, Iter.ofExcept]

theorem step_scalar_err {tape : Tape} {parent : Nat} {state : PState} {data d : Bytes} {tok : Nat}
    {r : Except Err (Tape × Bytes)} {e : Err}
    (h : readId data = some (tok, d)) (hs : state ≠ .objectToArray)
    (hP : tokenArm false 0 tape parent state d tok = scalarArm r parent state)
    (hr : r = .error e) :
    step ⟨tape, parent, state, data⟩ = .err e := by
  rw [step_eq (st := ⟨tape, parent, state, data⟩) h]
  simp [dispatch, hs, hP, scalarArm, hr, Iter.ofExcept]

theorem tokenArm_i32 (tape parent state d) : tokenArm false 0 tape parent state d L.i32 = scalarArm (parseI32 tape d) parent state := by
  simp [tokenArm, L.i32, L.u32, L.u64]
  cases scalarArm (parseI32 tape d) parent state <;> rfl

theorem tokenArm_equal (tape parent state d) : tokenArm false 0 tape parent state d L.equal = equalArm tape parent state d := by
  simp [tokenArm, L.i32, L.u32, L.u64, L.equal, L.bool, L.quoted, L.unquoted, L.f32, L.f64, L.open_, L.close]

theorem parse_err_ne_fuel {P : Tape → Bytes → Except Err (Tape × Bytes)} : True := trivial

theorem i32KeyFast_sim (tape : Tape) (parent : Nat) (data d : Bytes) (h : readId data = some (L.i32, d)) :
    FPSim ⟨tape, parent, .key, data⟩ (i32KeyFast tape parent d) := by
  unfold i32KeyFast FP.withParse
  cases hp : parseI32 tape d with
  | error e =>
    have h1 := step_scalar_err (parent := parent) (data := data) h (by decide) (tokenArm_i32 _ _ _ _) hp
    simp only
    refine ⟨?_, Rejects.now (Or.inl h1)⟩
    sorry
  | ok p =>
    obtain ⟨tape1, d2⟩ := p
    have h1 := step_scalar_ok (parent := parent) (data := data) h (by decide) (tokenArm_i32 _ _ _ _) hp nextState_key
    simp only
    refine FPSim.head h1 ?_
    refine FPSimR.withId rfl (by decide) ?_
    intro t2 d3 h2
    simp only at h2
    split
    · rename_i heq; subst heq
      sorry
    · sorry

end Jomini.BinTape
