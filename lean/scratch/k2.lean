import JominiModel.Proofs.TextEndToEnd
open Jomini Jomini.TextE2E Jomini.TextDe

/-- `a={ {} x y }` -/
def bytesLeadingEmpty : Bytes := [97, 61, 123, 32, 123, 125, 32, 120, 32, 121, 32, 125]

theorem t1 :
    TextTape.parse bytesLeadingEmpty =
      .ok [.unquoted ⟨12, [97]⟩, .array 4 false, .unquoted ⟨5, [120]⟩, .unquoted ⟨3, [121]⟩, .endTok 1] false := by
  decide +kernel

theorem t2 : (TextReader.sliceTokens bytesLeadingEmpty).toks =
      [.unquoted [97], .op .eq, .open_, .open_, .close, .unquoted [120], .unquoted [121], .close] ∧
    (TextReader.sliceTokens bytesLeadingEmpty).out = .end_ := by
  decide +kernel

theorem t3 : deTape .utf8 (.st [([97], .seq .ign)])
      (toTextDeTape [.unquoted ⟨12, [97]⟩, .array 4 false, .unquoted ⟨5, [120]⟩, .unquoted ⟨3, [121]⟩, .endTok 1])
      = .ok (.st [([97], .seq [.ign, .ign])]) := by rfl
theorem t4 : deStream .utf8 (.st [([97], .seq .ign)])
      (([.unquoted [97], .op .eq, .open_, .open_, .close, .unquoted [120], .unquoted [121], .close] : List TextReader.Token).map toRTok)
      = .ok (.st [([97], .seq [.ign, .ign, .ign])]) := by rfl
