import JominiModel.Proofs.TextEndToEnd
import JominiModel.Driver.C02
open Jomini Jomini.TextDe Jomini.TextDoc Jomini.Driver.C02

def lf (s : String) : Node := .leaf ⟨s.toUTF8.toList, false⟩
def k (s : String) : Bytes := s.toUTF8.toList
def objN : Node := .obj [(k "a", .eq, lf "1"), (k "b", .eq, lf "2")]
def arrN : Node := .arr [lf "p", lf "q"]
def both (ty : Ty) (d : Doc) : String := renderR (deTape .utf8 ty (tapeOf d)) ++ "  |  " ++ renderR (deStream .utf8 ty (lexemes d))
def one (t : Ty) (v : Node) : String := both (.st [(k "x", t), (k "w", .opt .str)]) [(k "x", .eq, v), (k "w", .eq, lf "z")]
#eval one .i64 objN
#eval one .str arrN
#eval one .bool arrN
#eval one (.map .str) (lf "s")
#eval one (.st [(k "a", .str)]) (lf "s")
#eval one (.map .str) (.arr [])
#eval one (.st [(k "a", .opt .str)]) (.arr [])
#eval one (.st [(k "a", .str)]) (.arr [])
#eval one (.seq .str) (lf "s")
#eval one (.seq .str) objN
#eval one (.seq .any) (.obj [])
#eval one (.map .str) arrN
#eval one (.st [(k "a", .opt .str)]) arrN
#eval one .any objN
#eval one .any arrN
#eval one .any (.arr [])
#eval one (.en [k "a", k "p"]) objN
#eval one (.en [k "a", k "p"]) arrN
#eval one (.en [k "a", k "p"]) (.arr [])
#eval one (.seq (.prop .str)) arrN
#eval one (.prop (.prop .str)) (lf "s")
#eval one (.map .str) (.hdr (k "rgb") arrN)
#eval one .any (.hdr (k "rgb") arrN)
#eval one (.opt (.seq .ign)) (lf "s")
