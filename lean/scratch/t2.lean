import JominiModel.Model.BinTape
namespace Jomini.BinTape
theorem isPlainId_iff (t : Nat) : isPlainId t = true ↔ (t > 23 ∧ t ≠ 359 ∧ t ≠ 668 ∧ t ≠ 791) := by
  unfold isPlainId L.unquoted L.f64 L.u64 L.i64
  constructor
  · intro h; simp only [Bool.and_eq_true, decide_eq_true_eq] at h; omega
  · intro h; simp only [Bool.and_eq_true, decide_eq_true_eq]; omega
end Jomini.BinTape
