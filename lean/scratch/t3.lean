import JominiModel.Proofs.BinTape
namespace Jomini.BinTape

theorem readId_length {d rest : Bytes} {t : Nat} (h : readId d = some (t, rest)) : d.length = rest.length + 2 := by
  match d, h with
  | a :: b :: r, h => simp [readId] at h; obtain ⟨_, rfl⟩ := h; simp

theorem parseFixed_ok {n : Nat} {mk : Bytes → BTok} {tape t' : Tape} {d d' : Bytes}
    (h : parseFixed n mk tape d = .ok (t', d')) : t' = tape ++ [mk (d.take n)] ∧ d'.length ≤ d.length := by
  unfold parseFixed split? at h
  split at h
  · cases h
  · rename_i hh rest hs
    split at hs
    · simp at hs; obtain ⟨rfl, rfl⟩ := hs; simp at h; obtain ⟨rfl, rfl⟩ := h; simp
    · cases hs

theorem parseFixed_err {n : Nat} {mk : Bytes → BTok} {tape : Tape} {d : Bytes} {e : Err}
    (h : parseFixed n mk tape d = .error e) : e = .eof := by
  unfold parseFixed at h
  split at h
  · cases h; rfl
  · cases h

theorem readString_length {d s rest : Bytes} (h : readString d = some (s, rest)) : rest.length ≤ d.length := by
  unfold readString at h
  split at h
  · cases h
  · rename_i len r hr
    have := readId_length hr
    split at h
    · simp at h; obtain ⟨rfl, rfl⟩ := h; simp; omega
    · cases h

theorem parseQuoted_ok {tape t' : Tape} {d d' : Bytes} (h : parseQuoted tape d = .ok (t', d')) :
    (∃ s, t' = tape ++ [.quoted s]) ∧ d'.length ≤ d.length := by
  unfold parseQuoted at h
  split at h
  · cases h
  · rename_i s rest hs; simp at h; obtain ⟨rfl, rfl⟩ := h; exact ⟨⟨s, rfl⟩, readString_length hs⟩

theorem parseQuoted_err {tape : Tape} {d : Bytes} {e : Err} (h : parseQuoted tape d = .error e) : e = .eof := by
  unfold parseQuoted at h
  split at h
  · cases h; rfl
  · cases h

theorem parseBool_ok {tape t' : Tape} {d d' : Bytes} (h : parseBool tape d = .ok (t', d')) :
    (∃ b, t' = tape ++ [.bool b]) ∧ d'.length ≤ d.length := by
  unfold parseBool readBool at h
  cases d with
  | nil => simp at h
  | cons x r => simp at h; obtain ⟨rfl, rfl⟩ := h; exact ⟨⟨_, rfl⟩, by simp⟩

theorem parseBool_err {tape : Tape} {d : Bytes} {e : Err} (h : parseBool tape d = .error e) : e = .eof := by
  unfold parseBool at h
  split at h
  · cases h; rfl
  · cases h

/-- a token that is not a container start -/
def BTok.notArray : BTok → Prop
  | .array _ => False
  | _ => True

theorem parseElem_ok {k : EKind} {tape t' : Tape} {d d' : Bytes} (h : parseElem k tape d = .ok (t', d')) :
    (∃ x, t' = tape ++ [x] ∧ x.notArray) ∧ d'.length ≤ d.length := by
  cases k
  · have := parseFixed_ok h; exact ⟨⟨_, this.1, trivial⟩, this.2⟩
  · have := parseQuoted_ok h; obtain ⟨⟨s, hs⟩, h2⟩ := this; exact ⟨⟨_, hs, trivial⟩, h2⟩
  · have := parseFixed_ok h; exact ⟨⟨_, this.1, trivial⟩, this.2⟩

theorem parseElem_err {k : EKind} {tape : Tape} {d : Bytes} {e : Err} (h : parseElem k tape d = .error e) : e = .eof := by
  cases k
  · exact parseFixed_err h
  · exact parseQuoted_err h
  · exact parseFixed_err h

end Jomini.BinTape
