import JominiModel.Proofs.Dom
namespace Jomini.Dom
open Jomini

theorem objWalkF_step (t : Tape) (e : Nat) (f p q n : Nat) (fld : Field)
    (h : objWalkF (f + 1) t p e = some q) (hn : fieldsNext t p e = .ok (some (fld, n))) :
    objWalkF f t n e = some q := by
  rw [objWalkF] at h
  unfold fieldsNext at hn
  by_cases hpe : p ≥ e
  · simp [hpe] at hn
  · simp only [hpe, if_false] at h hn
    cases hk : t[p]? with
    | none => simp [hk] at h
    | some k =>
      simp only [hk] at h hn
      by_cases hm : k = .mixedContainer
      · subst hm; simp [TTok.keyScalar?] at hn
      · simp only [hm, if_false] at h
        cases hks : k.keyScalar? with
        | none => simp [hks] at h
        | some kb =>
          simp only [hks] at h hn
          cases hnx : t[p + 1]? with
          | none => simp [hnx] at h
          | some nx =>
            simp only [hnx] at h hn
            by_cases hv : (opValueOf p nx).2 < e
            · simp only [hv, if_true] at h
              cases hvn : valueNext t (opValueOf p nx).2 e with
              | none => simp [hvn] at h
              | some n' =>
                simp only [hvn] at h
                have hni := nextIdx_of_valueNext t _ e n' hvn
                simp [hni] at hn
                rw [← hn.2]; exact h
            · simp [hv] at h

/-- `remainder` after a regular object walk that stopped at a `MixedContainer` token -/
theorem remainder_mixed (t : Tape) (e q : Nat) (h : t[q]? = some .mixedContainer) :
    remainder t q e = (q + 1, e) := by
  simp [remainder, h]

theorem remainder_root (t : Tape) : remainder t t.size t.size = (t.size, t.size) := by
  simp [remainder]

theorem remainder_object (t : Tape) (vi e : Nat) (m : Bool) (hv : t[vi]? = some (.object e m))
    (he : t[e]? = some (.end_ vi)) : remainder t e e = (e, e) := by
  simp [remainder, he, hv]

theorem remainder_array (t : Tape) (vi e : Nat) (m : Bool) (hv : t[vi]? = some (.array e m))
    (he : t[e]? = some (.end_ vi)) : remainder t e e = (vi + 1, e) := by
  simp [remainder, he, hv]

/-- the `while` loop of `read_array` on an object flagged `mixed` finds the `MixedContainer` at
which the fields stop -/
theorem mixedStartF_spec (t : Tape) (e : Nat) : ∀ fw p q, objWalkF fw t p e = some q →
    t[q]? = some .mixedContainer → ∀ f, q - p < f → mixedStartF f t p = .ok q := by
  intro fw
  induction fw with
  | zero => intro p q h; simp [objWalkF] at h
  | succ fw ih =>
    intro p q h hq f hf
    rw [objWalkF] at h
    by_cases hpe : p ≥ e
    · simp only [hpe, if_true] at h
      by_cases hpe' : p = e
      · simp [hpe'] at h; subst hpe' h
        cases f with
        | zero => omega
        | succ f => simp [mixedStartF, hq]
      · simp [hpe'] at h
    · simp only [hpe, if_false] at h
      cases hk : t[p]? with
      | none => simp [hk] at h
      | some k =>
        simp only [hk] at h
        by_cases hm : k = .mixedContainer
        · simp [hm] at h; subst h
          cases f with
          | zero => omega
          | succ f => simp [mixedStartF, hq]
        · simp only [hm, if_false] at h
          cases hks : k.keyScalar? with
          | none => simp [hks] at h
          | some kb =>
            simp only [hks] at h
            cases hnx : t[p + 1]? with
            | none => simp [hnx] at h
            | some nx =>
              simp only [hnx] at h
              by_cases hv : (opValueOf p nx).2 < e
              · simp only [hv, if_true] at h
                cases hvn : valueNext t (opValueOf p nx).2 e with
                | none => simp [hvn] at h
                | some n =>
                  simp only [hvn] at h
                  have hni := nextIdx_of_valueNext t _ e n hvn
                  have hb := valueNext_bounds t _ e n hvn hv
                  obtain ⟨_, _, _, _, hpq, _⟩ := objWalkF_spec t e fw n q 0 h
                  -- first iteration: the key
                  have hkey : nextIdx t p = .ok (p + 1) := by
                    unfold nextIdx fuelOf; rw [nextIdxF]
                    cases k <;> simp [TTok.keyScalar?] at hks <;> simp [hk]
                  have hkne : ¬ (t[p]? = some .mixedContainer) := by
                    rw [hk]; intro hc; exact hm (Option.some.inj hc)
                  -- second iteration: [op] value
                  have hsz : p + 1 < t.size := getElem?_lt hnx
                  have hval : nextIdx t (p + 1) = .ok n := by
                    cases nx <;> simp [opValueOf] at hni hvn ⊢ <;> try exact hni
                    · -- operator: recursion of next_idx
                      unfold nextIdx fuelOf at hni ⊢
                      rw [nextIdxF]
                      simp only [hnx]
                      -- fuel t.size on the value
                      unfold valueNext at hvn
                      cases hsz' : t.size with
                      | zero => omega
                      | succ s =>
                        rw [hsz'] at hni
                        rw [nextIdxF] at hni ⊢
                        cases hv2 : t[p + 2]? with
                        | none => simp [hv2] at hvn
                        | some tk =>
                          cases tk <;> simp [hv2] at hvn hni ⊢ <;> try exact hni
                          all_goals sorry
                  sorry
              · simp [hv] at h

end Jomini.Dom
