import JominiModel.Proofs.TextEndToEnd
import JominiModel.Driver.C02
open Jomini Jomini.TextE2E Jomini.TextDe

def b1 : Bytes := "a={ {} x y }".toUTF8.toList
def b2 : Bytes := "color = rgb { 1 2 3 }".toUTF8.toList
#eval b1
#eval b2
#eval (match TextTape.parse b1 with | .ok T b => (repr T, b) | _ => (repr 0, false))
#eval (repr (TextReader.sliceTokens b1).toks, repr (TextReader.sliceTokens b1).out)
#eval (match TextTape.parse b2 with | .ok T b => (repr T, b) | _ => (repr 0, false))
#eval (repr (TextReader.sliceTokens b2).toks, repr (TextReader.sliceTokens b2).out)
def ty1 : Ty := .st [([97], .seq .ign)]
def ty2 : Ty := .st [("color".toUTF8.toList, .seq .any)]
#eval (match TextTape.parse b1 with | .ok T _ => Jomini.Driver.C02.renderR (deTape .utf8 ty1 (toTextDeTape T)) | _ => "x")
#eval Jomini.Driver.C02.renderR (deStream .utf8 ty1 ((TextReader.sliceTokens b1).toks.map toRTok))
#eval (match TextTape.parse b2 with | .ok T _ => Jomini.Driver.C02.renderR (deTape .utf8 ty2 (toTextDeTape T)) | _ => "x")
#eval Jomini.Driver.C02.renderR (deStream .utf8 ty2 ((TextReader.sliceTokens b2).toks.map toRTok))
