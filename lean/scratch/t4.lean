import JominiModel.Proofs.BinTape
namespace Jomini.BinTape

theorem pushEnd_array {tape : Tape} {parent grand : Nat} {x : BTok}
    (hp : tape[parent]? = some (.array grand)) (hlt : grand < parent)
    (hg : tape[grand]? = some x) (hx : x.notArray) :
    pushEnd tape parent = .ok (tape.set parent (.array tape.length) ++ [.end_ parent], grand, .key) := by
  have hpl : parent < tape.length := by
    rcases Nat.lt_or_ge parent tape.length with h | h
    · exact h
    · simp [List.getElem?_eq_none h] at hp
  have hgl : grand < tape.length := by omega
  have h1 : (tape.set parent (.array tape.length) ++ [.end_ parent])[grand]? = some x := by
    rw [List.getElem?_append_left (by simpa using hgl)]
    rw [List.getElem?_set_ne (by omega)]
    exact hg
  simp only [pushEnd, hp, closeTo, h1]
  cases x <;> simp_all [BTok.notArray]

theorem arrLoop_sim (k : EKind) : ∀ (F : Nat) (tape : Tape) (parent : Nat) (nd : Bytes) (grand : Nat) (x : BTok),
    nd.length + 1 ≤ F → tape[parent]? = some (.array grand) → grand < parent →
    tape[grand]? = some x → x.notArray →
    FPSimR ⟨tape, parent, .arrayValue, nd⟩ (arrLoop k F tape parent nd) := by
  intro F
  induction F with
  | zero => intro tape parent nd grand x hF; omega
  | succ F ih =>
    intro tape parent nd grand x hF hp hlt hg hx
    unfold arrLoop
    cases hr : readId nd with
    | none =>
      exact ⟨by decide, Rejects.now (Or.inr ⟨step_done hr, by simp [finish]⟩)⟩
    | some pr =>
      obtain ⟨t, nd2⟩ := pr
      have hlen := readId_length hr
      simp only
      split
      · rename_i ht; subst ht
        cases hpe : parseElem k tape nd2 with
        | error e =>
          have h1 := step_scalar_err (parent := parent) .arrayValue hr (by decide) (tokenArm_elem k _ _ _ _) hpe
          exact ⟨by rw [parseElem_err hpe]; decide, Rejects.now (Or.inl h1)⟩
        | ok pr2 =>
          obtain ⟨tape', nd'⟩ := pr2
          have h1 := step_scalar_ok (parent := parent) .arrayValue hr (by decide) (tokenArm_elem k _ _ _ _) hpe nextState_arrayValue
          obtain ⟨⟨y, rfl, hy⟩, hl⟩ := parseElem_ok hpe
          have hpl : parent < tape.length := by
            rcases Nat.lt_or_ge parent tape.length with h | h
            · exact h
            · simp [List.getElem?_eq_none h] at hp
          refine FPSimR.head h1 (ih _ parent nd' grand x (by omega) ?_ hlt ?_ hx)
          · rw [List.getElem?_append_left hpl]; exact hp
          · rw [List.getElem?_append_left (by omega)]; exact hg
      · split
        · rename_i ht; subst ht
          have h1 := step_close (tape := tape) (parent := parent) .arrayValue hr (by decide) (by decide) (by decide)
          rw [pushEnd_array hp hlt hg hx] at h1
          simp only [hp]
          exact Reach.head h1 (Reach.refl _)
        · exact FPSimR.fallHere hr

end Jomini.BinTape
namespace Jomini.BinTape

theorem getElem?_lt_length {α} {l : List α} {i : Nat} {x : α} (h : l[i]? = some x) : i < l.length := by
  rcases Nat.lt_or_ge i l.length with h' | h'
  · exact h'
  · simp [List.getElem?_eq_none h'] at h

theorem arrayField_sim (k : EKind) (F : Nat) (tape : Tape) (parent : Nat) (data d4 : Bytes) (grand : Nat) (x : BTok)
    (hr : readId data = some (k.lex, d4)) (hF : data.length ≤ F)
    (hp : tape[parent]? = some (.array grand)) (hlt : grand < parent)
    (hg : tape[grand]? = some x) (hx : x.notArray) :
    FPSimR ⟨tape, parent, .openFirst, data⟩ (arrayField k F tape parent d4) := by
  unfold arrayField FP.withParse
  have hpl := getElem?_lt_length hp
  have hlen := readId_length hr
  cases hpe : parseElem k tape d4 with
  | error e =>
    have h1 := step_scalar_err (parent := parent) .openFirst hr (by decide) (tokenArm_elem k _ _ _ _) hpe
    exact ⟨by rw [parseElem_err hpe]; decide, Rejects.now (Or.inl h1)⟩
  | ok pr =>
    obtain ⟨tape1, d4'⟩ := pr
    have h1 := step_scalar_ok (parent := parent) .openFirst hr (by decide) (tokenArm_elem k _ _ _ _) hpe nextState_openFirst
    obtain ⟨⟨y, rfl, hy⟩, hl⟩ := parseElem_ok hpe
    refine FPSimR.head h1 ?_
    refine FPSimR.withId rfl (by simp) ?_
    intro t5 d5 hr5
    simp only at hr5
    have hlen5 := readId_length hr5
    simp only
    split
    · rename_i ht; subst ht
      cases hpe2 : parseElem k (tape ++ [y]) d5 with
      | error e =>
        have h2 := step_scalar_err (parent := parent) .openSecond hr5 (by decide) (tokenArm_elem k _ _ _ _) hpe2
        exact ⟨by rw [parseElem_err hpe2]; decide, Rejects.now (Or.inl h2)⟩
      | ok pr2 =>
        obtain ⟨tape2, nd⟩ := pr2
        have h2 := step_scalar_ok (parent := parent) .openSecond hr5 (by decide) (tokenArm_elem k _ _ _ _) hpe2 nextState_openSecond
        obtain ⟨⟨z, rfl, hz⟩, hl2⟩ := parseElem_ok hpe2
        refine FPSimR.head h2 (arrLoop_sim k F _ parent nd grand x (by omega) ?_ hlt ?_ hx)
        · rw [List.getElem?_append_left (by simp; omega), List.getElem?_append_left hpl]; exact hp
        · rw [List.getElem?_append_left (by simp; omega), List.getElem?_append_left (by omega)]; exact hg
    · exact FPSimR.fallHere hr5

end Jomini.BinTape
namespace Jomini.BinTape

theorem setParentToObject_err {tape : Tape} {parent : Nat} {e : Err} (h : setParentToObject tape parent = .error e) : e = .ub := by
  unfold setParentToObject at h
  split at h
  · cases h
  · cases h; rfl

/-- a value that the fast path parses and `continue`s on: one plain iteration from `ObjectValue` -/
theorem value_cont_sim {P : Tape → Bytes → Except Err (Tape × Bytes)} {tok : Nat} {T : Tape} {parent : Nat} {data d : Bytes}
    (hr : readId data = some (tok, d))
    (hP : ∀ tape parent state d, tokenArm false 0 tape parent state d tok = scalarArm (P tape d) parent state)
    (herr : ∀ tape d e, P tape d = .error e → e = .eof) :
    FPSimR ⟨T, parent, .objectValue, data⟩
      (FP.withParse (P T d) fun tape' data' => .cont ⟨tape', parent, .key, data'⟩) := by
  unfold FP.withParse
  cases hpe : P T d with
  | error e =>
    have h1 := step_scalar_err (parent := parent) .objectValue hr (by decide) (hP _ _ _ _) hpe
    exact ⟨by rw [herr _ _ _ hpe]; decide, Rejects.now (Or.inl h1)⟩
  | ok pr =>
    obtain ⟨tape', data'⟩ := pr
    have h1 := step_scalar_ok (parent := parent) .objectValue hr (by decide) (hP _ _ _ _) hpe nextState_objectValue
    exact Reach.head h1 (Reach.refl _)

theorem tokenKeyFast_sim (F : Nat) (T : Tape) (parent : Nat) (d : Bytes) (x : BTok)
    (hF : d.length ≤ F) (hg : T[parent]? = some x) (hx : x.notArray) :
    FPSimR ⟨T, parent, .keyValueSeparator, d⟩ (tokenKeyFast F T parent d) := by
  unfold tokenKeyFast
  have hpl := getElem?_lt_length hg
  refine FPSimR.withId rfl (by simp) ?_
  intro t2 d2 hr2
  simp only at hr2
  have hl2 := readId_length hr2
  split
  · rename_i ht; subst ht
    refine FPSimR.head (step_equal_kvs hr2) ?_
    refine FPSimR.withId rfl (by simp) ?_
    intro t3 d3 hr3
    simp only at hr3
    have hl3 := readId_length hr3
    split
    · rename_i ht; subst ht
      exact value_cont_sim hr3 tokenArm_i32 (fun _ _ _ h => parseFixed_err h)
    split
    · rename_i ht; subst ht
      refine FPSimR.head (step_open .objectValue hr3 (by decide) (by decide)) ?_
      have hp1 : (T ++ [BTok.array parent])[T.length]? = some (.array parent) := by simp
      have hg1 : (T ++ [BTok.array parent])[parent]? = some x := by
        rw [List.getElem?_append_left hpl]; exact hg
      refine FPSimR.withId rfl (by simp) ?_
      intro t4 d4 hr4
      simp only at hr4
      have hl4 := readId_length hr4
      split
      · rename_i ht; subst ht
        exact arrayField_sim .i32 F _ _ d3 d4 parent x hr4 (by omega) hp1 hpl hg1 hx
      split
      · rename_i ht; subst ht
        exact arrayField_sim .quoted F _ _ d3 d4 parent x hr4 (by omega) hp1 hpl hg1 hx
      split
      · rename_i ht; subst ht
        exact arrayField_sim .f32 F _ _ d3 d4 parent x hr4 (by omega) hp1 hpl hg1 hx
      split
      · rename_i hid
        have h4 := step_scalar_ok (tape := T ++ [BTok.array parent]) (parent := T.length) .openFirst hr4 (by decide)
          (tokenArm_plainId _ _ _ _ t4 hid (by decide)) rfl nextState_openFirst
        refine FPSimR.head h4 ?_
        refine FPSimR.withId rfl (by simp) ?_
        intro t5 d5 hr5
        simp only at hr5
        split
        · rename_i ht; subst ht
          have h5 := step_equal_openSecond (tape := T ++ [BTok.array parent] ++ [BTok.token t4]) (parent := T.length) hr5
          cases hso : setParentToObject (T ++ [BTok.array parent] ++ [BTok.token t4]) T.length with
          | error e =>
            simp only [hso] at h5 ⊢
            exact ⟨by rw [setParentToObject_err hso]; decide, Rejects.now (Or.inl h5)⟩
          | ok tape3 =>
            simp only [hso] at h5 ⊢
            refine FPSimR.head h5 ?_
            refine FPSimR.withId rfl (by simp) ?_
            intro t6 d6 hr6
            exact FPSimR.fallHere hr6
        · exact FPSimR.fallHere hr5
      · exact FPSimR.fallHere hr4
    split
    · rename_i ht; subst ht
      exact value_cont_sim hr3 tokenArm_quoted (fun _ _ _ h => parseQuoted_err h)
    split
    · rename_i ht; subst ht
      exact value_cont_sim hr3 tokenArm_f32 (fun _ _ _ h => parseFixed_err h)
    · exact FPSimR.fallHere hr3
  · exact FPSimR.fallHere hr2

end Jomini.BinTape
namespace Jomini.BinTape

theorem quotedKeyFast_sim (tape : Tape) (parent : Nat) (data d : Bytes) (hr : readId data = some (L.quoted, d)) :
    FPSim ⟨tape, parent, .key, data⟩ (quotedKeyFast tape parent d) := by
  unfold quotedKeyFast
  unfold FP.withParse
  cases hpe : parseQuoted tape d with
  | error e =>
    have h1 := step_scalar_err (parent := parent) .key hr (by decide) (tokenArm_quoted _ _ _ _) hpe
    exact ⟨by rw [parseQuoted_err hpe]; decide, Rejects.now (Or.inl h1)⟩
  | ok pr =>
    obtain ⟨tape1, d2⟩ := pr
    have h1 := step_scalar_ok (parent := parent) .key hr (by decide) (tokenArm_quoted _ _ _ _) hpe nextState_key
    refine FPSim.head h1 ?_
    refine FPSimR.withId rfl (by simp) ?_
    intro t2 d3 hr2
    simp only at hr2
    split
    · rename_i ht; subst ht
      refine FPSimR.head (step_equal_kvs hr2) ?_
      refine FPSimR.withId rfl (by simp) ?_
      intro t3 d4 hr3
      simp only at hr3
      split
      · rename_i ht; subst ht
        refine FPSimR.head (step_open .objectValue hr3 (by decide) (by decide)) ?_
        refine FPSimR.withId rfl (by simp) ?_
        intro t d' hr4
        simp only at hr4
        split
        · rename_i hid
          have h4 := step_scalar_ok (tape := tape1 ++ [BTok.array parent]) (parent := tape1.length) .openFirst hr4 (by decide)
            (tokenArm_plainId _ _ _ _ t (Or.inl hid) (by decide)) rfl nextState_openFirst
          refine FPSimR.head h4 ?_
          refine FPSimR.withId rfl (by simp) ?_
          intro t' d'' hr5
          simp only at hr5
          split
          · rename_i ht; subst ht
            have h5 := step_equal_openSecond (tape := tape1 ++ [BTok.array parent] ++ [BTok.token t]) (parent := tape1.length) hr5
            cases hso : setParentToObject (tape1 ++ [BTok.array parent] ++ [BTok.token t]) tape1.length with
            | error e =>
              simp only [hso] at h5 ⊢
              exact ⟨by rw [setParentToObject_err hso]; decide, Rejects.now (Or.inl h5)⟩
            | ok tape4 =>
              simp only [hso] at h5 ⊢
              refine FPSimR.head h5 ?_
              refine FPSimR.withId rfl (by simp) ?_
              intro t'' d''' hr6
              simp only at hr6
              split
              · rename_i ht; subst ht
                exact value_cont_sim hr6 tokenArm_bool (fun _ _ _ h => parseBool_err h)
              split
              · rename_i ht; subst ht
                exact value_cont_sim hr6 tokenArm_quoted (fun _ _ _ h => parseQuoted_err h)
              · exact FPSimR.fallHere hr6
          · exact FPSimR.fallHere hr5
        · exact FPSimR.fallHere hr4
      · exact FPSimR.fallHere hr3
    · exact FPSimR.fallHere hr2

theorem i32KeyFast_sim (tape : Tape) (parent : Nat) (data d : Bytes) (hr : readId data = some (L.i32, d)) :
    FPSim ⟨tape, parent, .key, data⟩ (i32KeyFast tape parent d) := by
  unfold i32KeyFast
  unfold FP.withParse
  cases hpe : parseI32 tape d with
  | error e =>
    have h1 := step_scalar_err (parent := parent) .key hr (by decide) (tokenArm_i32 _ _ _ _) hpe
    exact ⟨by rw [parseFixed_err hpe]; decide, Rejects.now (Or.inl h1)⟩
  | ok pr =>
    obtain ⟨tape1, d2⟩ := pr
    have h1 := step_scalar_ok (parent := parent) .key hr (by decide) (tokenArm_i32 _ _ _ _) hpe nextState_key
    refine FPSim.head h1 ?_
    refine FPSimR.withId rfl (by simp) ?_
    intro t2 d3 hr2
    simp only at hr2
    split
    · rename_i ht; subst ht
      refine FPSimR.head (step_equal_kvs hr2) ?_
      refine FPSimR.withId rfl (by simp) ?_
      intro t3 d4 hr3
      simp only at hr3
      split
      · rename_i ht; subst ht
        exact value_cont_sim hr3 tokenArm_i32 (fun _ _ _ h => parseFixed_err h)
      · exact FPSimR.fallHere hr3
    · exact FPSimR.fallHere hr2

theorem pushEnd_err {tape : Tape} {parent : Nat} {e : Err} (h : pushEnd tape parent = .error e) : e ≠ .fuel := by
  unfold pushEnd closeTo at h
  repeat' split at h
  all_goals first | (cases h; done) | (cases h; decide)

/-- the invariant the fast paths rely on: in `Key` position the parent slot does not hold an
`Array` (it is an `Object`, or — at top level — the first key), and lies inside the tape. -/
structure KeyInv (tape : Tape) (parent : Nat) : Prop where
  le : parent ≤ tape.length
  notArr : ∀ x, tape[parent]? = some x → x.notArray

theorem keyFast_sim (F : Nat) (tape : Tape) (parent : Nat) (data d : Bytes) (tok : Nat)
    (hr : readId data = some (tok, d)) (hF : data.length ≤ F) (hinv : KeyInv tape parent) :
    FPSim ⟨tape, parent, .key, data⟩ (keyFast F tape parent d tok) := by
  unfold keyFast
  have hl := readId_length hr
  split
  · rename_i h1
    split
    · rename_i h2
      have hid : isPlainId tok = true ∨ tok = 0xb := by
        rw [isPlainId_iff]
        simp only [L.unquoted, L.f64, L.u64, L.i64] at h1 h2
        omega
      have hs := step_scalar_ok (tape := tape) (parent := parent) .key hr (by decide)
        (tokenArm_plainId _ _ _ _ tok hid (by decide)) rfl nextState_key
      refine FPSim.head hs ?_
      rcases Nat.lt_or_ge parent tape.length with hlt | hge
      · have : tape[parent]? = some tape[parent] := List.getElem?_eq_getElem hlt
        refine tokenKeyFast_sim F _ parent d tape[parent] (by omega) ?_ (hinv.notArr _ this)
        rw [List.getElem?_append_left hlt]; exact this
      · have : parent = tape.length := Nat.le_antisymm hinv.le hge
        subst this
        exact tokenKeyFast_sim F _ _ d (.token tok) (by omega) (by simp) trivial
    · exact (FPSimR.fallHere hr : FPSimR _ _)
  split
  · rename_i ht; subst ht
    have hs := step_close (tape := tape) (parent := parent) .key hr (by decide) (by decide) (by decide)
    cases hpe : pushEnd tape parent with
    | error e =>
      simp only [hpe] at hs ⊢
      exact ⟨pushEnd_err hpe, Rejects.now (Or.inl hs)⟩
    | ok pr =>
      obtain ⟨a, b, c⟩ := pr
      simp only [hpe] at hs ⊢
      exact Reach1.single hs
  split
  · rename_i ht; subst ht
    exact quotedKeyFast_sim tape parent data d hr
  split
  · rename_i ht; subst ht
    exact i32KeyFast_sim tape parent data d hr
  · exact (FPSimR.fallHere hr : FPSimR _ _)

end Jomini.BinTape
