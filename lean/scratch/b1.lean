import JominiModel.Model.TextTape
import JominiModel.Spec.TextTape
import JominiModel.Model.TextReader
import JominiModel.Spec.TextReader
open Jomini

theorem isBoundary_eq (b : UInt8) : TextTape.isBoundary b = TextReader.isBoundary b := by
  have h : ∀ n, n < 256 → TextTape.isBoundary (UInt8.ofNat n) = TextReader.isBoundary (UInt8.ofNat n) := by decide +kernel
  have := h b.toNat b.toNat_lt
  simpa using this

theorem isBlank_eq (b : UInt8) : TextTape.isBlank b = TextReader.isBlank b := by
  have h : ∀ n, n < 256 → TextTape.isBlank (UInt8.ofNat n) = TextReader.isBlank (UInt8.ofNat n) := by decide +kernel
  have := h b.toNat b.toNat_lt
  simpa using this

theorem quote_eq : ∀ (n : Nat) (x : Bytes) (i : Nat), x.length ≤ n →
    TextReader.Spec.quoteEnd x i = (TextTape.quoteClose x false).map (· + i)
  | _, [], i, _ => by simp [TextReader.Spec.quoteEnd, TextTape.quoteClose]
  | 0, _ :: _, i, h => by simp at h
  | n + 1, c :: rest, i, h => by
      by_cases hc : c = 92
      · subst hc
        cases rest with
        | nil => simp [TextReader.Spec.quoteEnd, TextTape.quoteClose]
        | cons d rest' =>
          have ih := quote_eq n rest' (i + 2) (by simp at h; omega)
          simp only [TextReader.Spec.quoteEnd, TextTape.quoteClose, beq_self_eq_true, ↓reduceIte, ih]
          cases TextTape.quoteClose rest' false <;> simp; omega
      · have hc' : (c == 92) = false := by simpa using hc
        by_cases hq : c = 34
        · subst hq; cases rest <;> simp [TextReader.Spec.quoteEnd, TextTape.quoteClose]
        · have hq' : (c != 34) = true := by simpa using hq
          have ih := quote_eq n rest (i + 1) (by simp at h; omega)
          cases rest with
          | nil => simp [TextReader.Spec.quoteEnd, TextTape.quoteClose, hc, hc', hq, hq']
          | cons d r2 =>
            simp only [TextReader.Spec.quoteEnd, TextTape.quoteClose, hc, hc', hq, hq', ↓reduceIte, Bool.false_eq_true] at ih ⊢
            rw [ih]
            cases (if d = 92 then Option.map (fun x => x + 1) (TextTape.quoteClose r2 true) else if d = 34 then some 0 else Option.map (fun x => x + 1) (TextTape.quoteClose r2 false)) <;> simp; omega
