import JominiModel.Model.Basic
/-
Helpers for the line protocol spoken by `jmdriver` (see DESIGN.md §3.1).
Byte strings travel as lower-case hex ("-" for the empty string), integers in decimal.
-/
namespace Jomini.Driver
open Jomini

def hexDigit? (c : Char) : Option Nat :=
  if '0' ≤ c ∧ c ≤ '9' then some (c.toNat - '0'.toNat)
  else if 'a' ≤ c ∧ c ≤ 'f' then some (c.toNat - 'a'.toNat + 10)
  else if 'A' ≤ c ∧ c ≤ 'F' then some (c.toNat - 'A'.toNat + 10)
  else none

def parseHexChars : List Char → Option Bytes
  | [] => some []
  | a :: b :: rest => do
    let x ← hexDigit? a
    let y ← hexDigit? b
    let r ← parseHexChars rest
    pure (UInt8.ofNat (x * 16 + y) :: r)
  | _ => none

/-- "-" is the empty byte string. -/
def parseHex (s : String) : Option Bytes :=
  if s == "-" then some [] else parseHexChars s.toList

def hexChar (n : Nat) : Char :=
  if n < 10 then Char.ofNat ('0'.toNat + n) else Char.ofNat ('a'.toNat + n - 10)

def toHex (b : Bytes) : String :=
  if b.isEmpty then "-" else
  String.ofList (b.foldr (fun x acc => hexChar (x.toNat / 16) :: hexChar (x.toNat % 16) :: acc) [])

def parseInt? (s : String) : Option Int := s.toInt?
def parseNat? (s : String) : Option Nat := s.toNat?

/-- A handler gets the words of a request line and answers `none` if the op is not its. -/
abbrev Handler := List String → Option String

end Jomini.Driver
