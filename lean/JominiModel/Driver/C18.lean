import JominiModel.Driver.Util
namespace Jomini.Driver.C18
open Jomini Jomini.Driver

/-- ops of property C18 (none yet). -/
def handle : Handler
  | _ => none

end Jomini.Driver.C18
