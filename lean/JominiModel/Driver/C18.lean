import JominiModel.Driver.Util
import JominiModel.Model.Derive
import JominiModel.Spec.Derive
/-
ops of property C18:

  derive <schema-id> <pairs>       see harness/src/props/c18.rs for the grammar

The schemas below mirror the `#[derive(JominiDeserialize)]` structs compiled into the harness.
How a pair's key reaches `__FieldVisitor` depends on the rendering (text / binary) and on whether
the struct requests `deserialize_u16` (`requestsU16`): `deliverText` / `deliverBin`.
-/
namespace Jomini.Driver.C18
open Jomini Jomini.Driver Jomini.Derive

inductive Val where
  | int (i : Int)
  | arr (l : List Int)
  | obj (l : List (String × Val))
  /-- `q:<hex>`: a quoted string, kept as its hex text -/
  | str (hex : String)
  /-- any other value form (i64:… u64:… f32:… q:… rgb:… or a container holding one): only ever
  offered to unknown fields, which ignore it; an int field offered one is a type error -/
  | other

structure Item where
  asI32 : Bool
  asId : Bool
  key : String
  val : Val

def names : List String :=
  ["a", "b", "c", "d", "e", "f", "x", "core", "l", "dd", "both", "g", "bee", "u1", "u2", "inner", "inners", "last", "u", "v", "w",
   "cores", "zz", "yy", "k1", "k2", "f0", "f1", "f2", "f3", "a0", "a1", "a2", "a3"]

def nameId (k : String) : Option Nat := (names.findIdx? (· == k)).map (· + 0x2d00)
def resolvable (k : String) : Bool := !(k.startsWith "u") || k == "u"

def basic : Schema := basicS

def aliased : Schema := [
  { name := "a", alias := some "x" },
  { name := "cores", alias := some "core", kind := .duplicated },
  { name := "last", alias := some "l", kind := .takeLast, isOption := true },
  { name := "d", alias := some "dd", dflt := .path, isOption := true },
  { name := "both", kind := .duplicated },   -- `duplicated, take_last`: duplicated wins
  { name := "g", kind := .takeLast, dflt := .path }]

def tok : Schema := tokS

def inner : Schema := [
  { name := "u" }, { name := "v", kind := .duplicated }, { name := "w", kind := .takeLast, isOption := true }]

def nested : Schema := [
  { name := "inner" }, { name := "inners", kind := .duplicated }, { name := "x", isOption := true },
  { name := "last", kind := .takeLast, isOption := true }]

def withS : Schema := [
  { name := "a" }, { name := "f", kind := .takeLast }, { name := "e", kind := .duplicated }, { name := "c", dflt := .yes }]

/-- fields of `with` carrying `deserialize_with = "plus1000"`; the attribute is not consulted for
`duplicated` fields (lib.rs:344 vs 380-403) -/
def usesWith (sid : String) (f : FieldSpec) : Bool := sid == "with" && f.kind != .duplicated

/-- text: keys are scalars; `deserialize_identifier` → `visit_str`; `deserialize_u16` →
`deserialize_u64` → `visit_u64` when the key parses as u64 (not implemented by the field visitor) -/
def deliverText (schema : Schema) (it : Item) : Key :=
  textKey schema it.key

/-- binary: a string key → `visit_str`; a token id → `visit_u16(id)` under `deserialize_u16`,
else the resolver's name, else (`FailedResolveStrategy::Ignore`) a name no field answers to -/
def deliverBin (schema : Schema) (it : Item) : Key :=
  if it.asI32 then binI32Key else   -- an I32 key: `visit_i32`
  match it.asId, nameId it.key with
  | true, some id =>
    if requestsU16 schema then .u16 id
    else if resolvable it.key then .str it.key else .str "__internal_identifier_ignore"
  | _, _ => .str it.key

/-- split at `sep` outside of brackets -/
def splitTop (sep : Char) (s : String) : List String :=
  let (parts, cur, _) := s.toList.foldl (fun (acc : List String × List Char × Nat) c =>
    let (parts, cur, depth) := acc
    if c == '[' || c == '{' then (parts, c :: cur, depth + 1)
    else if c == ']' || c == '}' then (parts, c :: cur, depth - 1)
    else if c == sep && depth == 0 then (String.ofList cur.reverse :: parts, [], depth)
    else (parts, c :: cur, depth)) ([], [], 0)
  (String.ofList cur.reverse :: parts).reverse

def parseVal (fuel : Nat) (s : String) : Option Val :=
  match fuel with
  | 0 => some .other
  | fuel + 1 =>
    if s.startsWith "[" then
      let body := ((s.drop 1).dropEnd 1).toString
      if body.isEmpty then some (.arr []) else
        match (splitTop '.' body).mapM String.toInt? with
        | some l => some (.arr l)
        | none => some .other
    else if s.startsWith "{" then
      let body := ((s.drop 1).dropEnd 1).toString
      if body.isEmpty then some (.obj []) else
        match (splitTop ';' body).mapM (fun (it : String) =>
          match it.splitOn "=" with
          | k :: v :: rest => (parseVal fuel ("=".intercalate (v :: rest))).map (k, ·)
          | _ => none) with
        | some l => some (.obj l)
        | none => some .other
    else if s.startsWith "q:" then some (.str (s.drop 2).toString)
    else match s.toInt? with
      | some i => some (.int i)
      | none => some .other

def parseItem (s : String) : Option Item :=
  match s.splitOn "=" with
  | k :: rest =>
    let v := "=".intercalate rest
    let (asId, k) := if k.startsWith "#" then (true, (k.drop 1).toString) else (false, k)
    let (asI32, k) := if k.startsWith "%" then (true, (k.drop 1).toString) else (false, k)
    (parseVal 6 v).map fun v => { asI32, asId, key := k, val := v }
  | _ => none

def parsePairs (s : String) : Option (List Item) :=
  if s == "-" then some [] else
  -- items are separated by ',' (values never contain ',')
  (s.splitOn ",").mapM parseItem

def errStr : Err String → String
  | .duplicate n => s!"err:duplicate:{n}"
  | .missing n => s!"err:missing:{n}"
  | .invalidType => "err:invalidtype"
  | .value s => s

def ints (l : List String) : String := "[" ++ ".".intercalate l ++ "]"

/-- canonical printing of a field value; `zero` = what `Default::default()` prints as -/
def showField (f : FieldSpec) (sep : String) : FieldVal String → String
  | .val r => r
  | .vec l => "[" ++ sep.intercalate l ++ "]"
  | .dflt => if f.isOption then "none" else "0"
  | .dfltPath => "777"

def showStruct (schema : Schema) (vals : List (FieldVal String)) : String :=
  ";".intercalate ((schema.zip vals).map fun (f, v) => s!"{f.name}={showField f "." v}")

/-- `i32::deserialize` of a value (only ints are offered to int fields) -/
def deInt (plus : Int) : Val → Except String String
  | .int i => .ok (toString (i + plus))
  | _ => .error "err:other"

/-- the `Inner` struct of `nested`, deserialized from an object value; keys inside objects are
always strings -/
def deInner : Val → Except String String
  | .obj l =>
    match run inner (fun _ v => deInt 0 v) (l.map fun (k, v) => (Key.str k, v)) with
    | .ok vals => .ok ("{" ++ showStruct inner vals ++ "}")
    | .error e => .error (errStr e)
  | _ => .error "err:other"

def deField (sid : String) (f : FieldSpec) (v : Val) : Except String String :=
  if sid == "nested" && f.name != "x" then deInner v
  else deInt (if usesWith sid f then 1000 else 0) v

def schemaOf : String → Option Schema
  | "basic" => some basic | "aliased" => some aliased | "tok" => some tok
  | "nested" => some nested | "with" => some withS | _ => none

def runOne (sid : String) (schema : Schema) (deliver : Schema → Item → Key) (items : List Item) : String :=
  match run schema (deField sid) (items.map fun it => (deliver schema it, it.val)) with
  | .ok vals => showStruct schema vals
  | .error e => errStr e

/-! ### the generated struct family (harness/src/props/c18_family.rs)

The schema id is `<struct>~<spec>`; `<spec>` = fields `name:kind:default:type:alias:token` joined
by `/` (kind p|d|t, default n|y|p, type i|o|s|v, alias / token `-` = none).  The spec comes from
the same generator that wrote the Rust structs, so there is no second table to keep in step. -/

def parseFieldSpec (s : String) : Option (FieldSpec × Char) :=
  match s.splitOn ":" with
  | [name, k, d, ty, al, tk] =>
    let kind? : Option Kind := match k with | "p" => some .plain | "d" => some .duplicated | "t" => some .takeLast | _ => none
    let dflt? : Option Dflt := match d with | "n" => some .no | "y" => some .yes | "p" => some .path | _ => none
    match kind?, dflt?, ty.toList with
    | some kind, some dflt, [c] =>
      let token? : Option (Option Nat) := if tk == "-" then some none else tk.toNat?.map some
      token?.map fun token =>
        ({ name := name, alias := if al == "-" then none else some al, token := token, kind := kind, dflt := dflt,
           isOption := c == 'o' && kind != .duplicated }, c)
    | _, _, _ => none
  | _ => none

def parseSpec (s : String) : Option (List (FieldSpec × Char)) := (s.splitOn "/").mapM parseFieldSpec

/-- rendering of one deserialized value of element / field type `ty` -/
def famVal (ty : Char) : Val → Except String String
  | .int i => if ty == 'i' || ty == 'o' then .ok (toString i) else .error "err:other"
  | .str h => if ty == 's' then .ok s!"s:{h}" else .error "err:other"
  | .arr l => if ty == 'v' then .ok ("[" ++ ".".intercalate (l.map toString) ++ "]") else .error "err:other"
  | _ => .error "err:other"

def famShow (f : FieldSpec) (ty : Char) : FieldVal String → String
  | .val r => r
  | .vec l => "[" ++ ".".intercalate l ++ "]"
  | .dflt => match ty with | 'o' => "none" | 's' => "s:-" | 'v' => "[]" | _ => "0"
  | .dfltPath => match ty with | 's' => "s:64666c74" | 'v' => "[7.7.7]" | _ => "777"

def runFamily (spec : List (FieldSpec × Char)) (deliver : Schema → Item → Key) (items : List Item) : String :=
  let schema := spec.map (·.1)
  let tyOf (f : FieldSpec) : Char := match spec.find? (fun p => p.1.name == f.name) with | some p => p.2 | none => 'i'
  match run schema (fun f v => famVal (tyOf f) v) (items.map fun it => (deliver schema it, it.val)) with
  | .ok vals => ";".intercalate ((spec.zip vals).map fun (p, v) => s!"{p.1.name}={famShow p.1 p.2 v}")
  | .error e => errStr e

def handle : Handler
  | ["derive", sid, ps] =>
    match sid.splitOn "~" with
    | [_, specTxt] =>
      match parseSpec specTxt, parsePairs ps with
      | some spec, some items =>
        some s!"T:{runFamily spec deliverText items} B:{runFamily spec deliverBin items}"
      | _, _ => none
    | _ =>
    match schemaOf sid, parsePairs ps with
    | some schema, some items =>
      some s!"T:{runOne sid schema deliverText items} B:{runOne sid schema deliverBin items}"
    | _, _ => none
  | _ => none

end Jomini.Driver.C18
