import JominiModel.Driver.Util
namespace Jomini.Driver.C05
open Jomini Jomini.Driver

/-- ops of property C05 (none yet). -/
def handle : Handler
  | _ => none

end Jomini.Driver.C05
