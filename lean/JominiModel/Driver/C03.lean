import JominiModel.Driver.Util
import JominiModel.Model.BinTape
import JominiModel.Model.BinTapeVec
/-
ops of property C03 (and the binary half of C06):
  btape  <hex>             optimised parser        -> tape in show.rs `bin_tape` format | err:eof | err:syntax
  btapeU <hex>             reference parser        -> same
  btpair <hex>             both: `<opt> | <ref>`
  btexp  <hex> <expected>  optimised parser, the harness also compares with <expected>
  btreuse <hex-big> <hex>  parse <hex> into a tape previously filled by <hex-big>
  wfbin  <hex>             parse, then the C06 structural checker -> wf:true | wf:false | err
-/
namespace Jomini.Driver.C03
open Jomini Jomini.Driver Jomini.BinTape

def showTok : BTok → String
  | .array e => s!"A{e}"
  | .object e => s!"O{e}"
  | .mixed => "M"
  | .equal => "Eq"
  | .end_ i => s!"E{i}"
  | .bool b => if b then "B:1" else "B:0"
  | .u32 v => s!"U32:{v}"
  | .u64 v => s!"U64:{v}"
  | .i64 v => s!"I64:{v}"
  | .i32 v => s!"I32:{v}"
  | .quoted b => s!"Q:{toHex b}"
  | .unquoted b => s!"U:{toHex b}"
  | .f32 b => s!"F32:{toHex b}"
  | .f64 b => s!"F64:{toHex b}"
  | .token id => s!"T:{id}"
  | .rgb r g b none => s!"Rgb:{r}.{g}.{b}"
  | .rgb r g b (some a) => s!"Rgb:{r}.{g}.{b}.{a}"

def showTape (t : Tape) : String :=
  if t.isEmpty then "-" else ",".intercalate (t.map showTok)

def showErr : Err → String
  | .eof => "err:eof"
  | .syntax => "err:syntax"
  | .panic => "panic"
  | .ub => "ub"
  | .fuel => "fuel"

def showRes : Except Err Tape → String
  | .ok t => showTape t
  | .error e => showErr e

def handle : Handler
  | ["btape", h] => (parseHex h).map fun d => showRes (parse true d)
  | ["btapeU", h] => (parseHex h).map fun d => showRes (parse false d)
  | ["btpair", h] => (parseHex h).map fun d => showRes (parse true d) ++ " | " ++ showRes (parse false d)
  | ["btexp", h, _] => (parseHex h).map fun d => showRes (parse true d)
  | ["btreuse", hb, h] => (parseHex hb).bind fun big => (parseHex h).map fun d =>
      -- the vector left behind by the first parse (its tokens on success, whatever it held on failure)
      let prev : VecS := match parse true big with
        | .ok t => VecS.ofList t
        | .error _ => ⟨(List.replicate 7 BTok.mixed), 3⟩
      showRes (parseInto true prev d)
  | ["wfbin", h] => (parseHex h).map fun d =>
      match parse true d with
      | .ok t => if wfBinTape d t then "wf:true" else "wf:false"
      | .error e => showErr e
  | _ => none

end Jomini.Driver.C03
