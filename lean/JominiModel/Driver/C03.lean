import JominiModel.Driver.Util
namespace Jomini.Driver.C03
open Jomini Jomini.Driver

/-- ops of property C03 (none yet). -/
def handle : Handler
  | _ => none

end Jomini.Driver.C03
