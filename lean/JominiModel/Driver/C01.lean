import JominiModel.Driver.Util
import JominiModel.Model.TextTape
import JominiModel.Spec.TextDocFull
import JominiModel.Model.Dom
/-
Ops of C01 (text tape), the text half of C06 (`wftext`) and the text-tape part of C19 (`tcut`).
Formats mirror harness/src/show.rs (`text_tape`, `text_tape_offsets`) and harness/src/props/c01.rs.
-/
namespace Jomini.Driver.C01
open Jomini Jomini.Driver Jomini.TextTape

def opName : Op → String
  | .lt => "lt" | .le => "le" | .gt => "gt" | .ge => "ge"
  | .ne => "ne" | .exact => "exact" | .eq => "eq" | .exists_ => "exists"

def flag (m : Bool) : String := if m then "m" else ""

/-- `n` = length of the input when offsets are wanted. -/
def showTok (offsets : Option Nat) (t : Tok) : String :=
  let sc (k : String) (s : Slice) : String :=
    match offsets with
    | none => s!"{k}:{toHex s.bytes}"
    | some n => s!"{k}@{s.off n}+{s.bytes.length}"
  match t with
  | .array e m => s!"A{flag m}{e}"
  | .object e m => s!"O{flag m}{e}"
  | .mixedContainer => "M"
  | .unquoted s => sc "U" s
  | .quoted s => sc "Q" s
  | .parameter s => sc "P" s
  | .undefParameter s => sc "N" s
  | .operator o => s!"Op:{opName o}"
  | .endTok i => s!"E{i}"
  | .header s => sc "H" s

def showTape (offsets : Option Nat) (ts : List Tok) : String :=
  if ts.isEmpty then "-" else ",".intercalate (ts.map (showTok offsets))

def errName : Err → String
  | .eof => "err:eof" | .syntax => "err:syntax" | .stackEmpty => "err:stack"

def showRes (offsets : Option Nat) : Res → String
  | .ok t b => s!"ok {showTape offsets t} bom:{if b then 1 else 0}"
  | .err e => errName e
  | .panic => "panic"
  | .outOfFuel => "out-of-fuel"

def tapeLine (d : Bytes) (offsets : Bool) : String :=
  showRes (if offsets then some d.length else none) (parse d)

/-- content of a result without the BOM flag (the flag belongs to the layout). -/
def content : Res → Option (List (Tok))
  | .ok t _ => some (t.map fun
      | .unquoted s => .unquoted ⟨0, s.bytes⟩
      | .quoted s => .quoted ⟨0, s.bytes⟩
      | .parameter s => .parameter ⟨0, s.bytes⟩
      | .undefParameter s => .undefParameter ⟨0, s.bytes⟩
      | .header s => .header ⟨0, s.bytes⟩
      | t => t)
  | _ => none

def pairStr : Option (Bytes × Bytes) → String
  | some (a, b) => s!"{a.length} {b.length}"
  | none => "panic"

def quoteStr : Except Fail (Bytes × Bytes) → String
  | .ok (a, b) => s!"{a.length} {b.length}"
  | .error (.err _) => "err"
  | .error .panic => "panic"

def cutLine (d : Bytes) : String :=
  ",".intercalate <| (List.range (d.length + 1)).map fun k =>
    match parse (d.take k) with
    | .ok t _ => s!"ok:{t.length}"
    | .err _ => "err"
    | .panic => "panic"
    | .outOfFuel => "out-of-fuel"

/-! ### `spec_full`: documents of the full document type (Spec/TextDocFull.lean)

prefix encoding, tokens separated by `,` (harness/src/props/c01.rs `FullB`): gaps / names are hex
or `-`, scalars `u<hex>` / `q<hex>`, operators by name, lists end with `.` -/

def pOp : String → Option Op
  | "lt" => some .lt | "le" => some .le | "gt" => some .gt | "ge" => some .ge
  | "ne" => some .ne | "ex" => some .exact | "eq" => some .eq | "xs" => some .exists_
  | _ => none

def pScal (s : String) : Option Scal :=
  match s.toList with
  | 'u' :: r => (parseHex (String.ofList r)).map fun b => ⟨false, b⟩
  | 'q' :: r => (parseHex (String.ofList r)).map fun b => ⟨true, b⟩
  | _ => none

def pBool : String → Option Bool
  | "0" => some false | "1" => some true | _ => none

mutual
partial def pV : List String → Option (FVal × List String)
  | "S" :: g :: s :: r => do pure (.scal (← parseHex g) (← pScal s), r)
  | "E" :: g :: gc :: r => do pure (.empty (← parseHex g) (← parseHex gc), r)
  | "O" :: g :: g0 :: r => do
    let (first, r) ← pFirst r
    let (rest, r) ← pF r
    match r with
    | gc :: r => pure (.obj (← parseHex g) (← parseHex g0) first rest (← parseHex gc), r)
    | _ => none
  | "A" :: g :: g0 :: s0 :: r => do
    let (rest, r) ← pVs r
    match r with
    | gc :: r => pure (.arrS (← parseHex g) (← parseHex g0) (← pScal s0) rest (← parseHex gc), r)
    | _ => none
  | "C" :: g :: r => do
    let (first, r) ← pV r
    let (rest, r) ← pVs r
    match r with
    | gc :: r => pure (.arrC (← parseHex g) first rest (← parseHex gc), r)
    | _ => none
  | "G" :: g :: b1 :: b2 :: r => do
    let (v, r) ← pV r
    pure (.ghostIn (← parseHex g) (← parseHex b1) (← parseHex b2) v, r)
  | "M" :: g :: g0 :: r => do
    let (first, r) ← pFirst r
    let (rest, r) ← pF r
    match r with
    | gm :: m0 :: r => do
      let (items, r) ← pI r
      match r with
      | gc :: r => pure (.mixed (← parseHex g) (← parseHex g0) first rest (← parseHex gm) (← pScal m0) items
          (← parseHex gc), r)
      | _ => none
    | _ => none
  | "X" :: g :: g0 :: s0 :: r => do
    let (pre, r) ← pVs r
    match r with
    | gm :: m0 :: go :: o :: r => do
      let (items, r) ← pI r
      match r with
      | gc :: r => pure (.arrSM (← parseHex g) (← parseHex g0) (← pScal s0) pre (← parseHex gm) (← pScal m0)
          (← parseHex go) (← pOp o) items (← parseHex gc), r)
      | _ => none
    | _ => none
  | "Y" :: g :: r => do
    let (first, r) ← pV r
    let (pre, r) ← pVs r
    match r with
    | gm :: m0 :: go :: o :: r => do
      let (items, r) ← pI r
      match r with
      | gc :: r => pure (.arrCM (← parseHex g) first pre (← parseHex gm) (← pScal m0) (← parseHex go) (← pOp o)
          items (← parseHex gc), r)
      | _ => none
    | _ => none
  | _ => none
partial def pFirst : List String → Option (FFirst × List String)
  | "K" :: k :: g1 :: o :: r => do
    let (v, r) ← pV r
    pure (.kv (← pScal k) (← parseHex g1) (← pOp o) v, r)
  | "F" :: r => do
    let (f, r) ← pF r
    pure (.flds f, r)
  | _ => none
partial def pF : List String → Option (FFields × List String)
  | "." :: r => some (.nil, r)
  | "c" :: g0 :: k :: g1 :: o :: r => do
    let (v, r) ← pV r
    let (rest, r) ← pF r
    pure (.cons (← parseHex g0) (← pScal k) (← parseHex g1) (← pOp o) v rest, r)
  | "i" :: g0 :: k :: r => do
    let (v, r) ← pV r
    let (rest, r) ← pF r
    pure (.consImp (← parseHex g0) (← pScal k) v rest, r)
  | "g" :: g :: gc :: r => do
    let (rest, r) ← pF r
    pure (.ghost (← parseHex g) (← parseHex gc) rest, r)
  | "h" :: g0 :: k :: g1 :: o :: gh :: h :: r => do
    let (body, r) ← pV r
    let (rest, r) ← pF r
    pure (.consHdr (← parseHex g0) (← pScal k) (← parseHex g1) (← pOp o) (← parseHex gh) (← pScal h) body rest, r)
  | "p" :: g0 :: u :: name :: g1 :: val :: g2 :: r => do
    let (rest, r) ← pF r
    pure (.paramVal (← parseHex g0) (← pBool u) (← parseHex name) (← parseHex g1) (← pScal val) (← parseHex g2) rest, r)
  | "o" :: g0 :: u :: name :: g1 :: k :: g2 :: o :: r => do
    let (v, r) ← pV r
    let (inner, r) ← pF r
    match r with
    | gc :: r => do
      let (rest, r) ← pF r
      pure (.paramObj (← parseHex g0) (← pBool u) (← parseHex name) (← parseHex g1) (← pScal k) (← parseHex g2)
        (← pOp o) v inner (← parseHex gc) rest, r)
    | _ => none
  | "r" :: g0 :: u :: name :: g1 :: val :: g2 :: r => do
    let (body, r) ← pV r
    let (rest, r) ← pF r
    pure (.paramHdr (← parseHex g0) (← pBool u) (← parseHex name) (← parseHex g1) (← pScal val) (← parseHex g2)
      body rest, r)
  | _ => none
partial def pVs : List String → Option (FVals × List String)
  | "." :: r => some (.nil, r)
  | r => do
    let (v, r) ← pV r
    let (rest, r) ← pVs r
    pure (.cons v rest, r)
partial def pI : List String → Option (FItems × List String)
  | "." :: r => some (.nil, r)
  | "s" :: g :: s :: r => do
    let (rest, r) ← pI r
    pure (.scal (← parseHex g) (← pScal s) rest, r)
  | "t" :: g :: o :: r => do
    let (rest, r) ← pI r
    pure (.op (← parseHex g) (← pOp o) rest, r)
  | "v" :: r => do
    let (v, r) ← pV r
    let (rest, r) ← pI r
    pure (.cont v rest, r)
  | _ => none
end

def specFull (doc gt h : String) : Option String := do
  let toks := (doc.splitOn ",")
  let (fs, r) ← pF toks
  if !r.isEmpty then none
  let gt ← parseHex gt
  let bytes ← parseHex h
  let want := ftapeF fs 0 gt
  let rendered := frenderF fs ++ gt
  let model := parse bytes
  let modelOk := match model with
    | .ok t bom => t == want && bom == false
    | _ => false
  pure s!"ok {showTape (some bytes.length) want} bom:0 render:{if rendered == bytes then 1 else 0} model:{if modelOk then 1 else 0}"

/-- the token translation `toDomTape` of Proofs/TextTapeDomWf.lean (positions dropped), repeated here
so that the driver does not import proof files: `wftext` also runs the grammar walk `Dom.wfTape`
(root body and every Object body `key [op] value`, headers followed by a container; true on every
accepted tape by `C06_text_object_grammar` / `C17_parsed_tape_wf`) -/
def domOp : Op → Dom.Op
  | .lt => .lt | .le => .le | .gt => .gt | .ge => .ge
  | .ne => .ne | .exact => .exact | .eq => .eq | .exists_ => .exists_

def domTok : Tok → Dom.TTok
  | .array e m => .array e m
  | .object e m => .object e m
  | .mixedContainer => .mixedContainer
  | .unquoted s => .unquoted s.bytes
  | .quoted s => .quoted s.bytes
  | .parameter s => .parameter s.bytes
  | .undefParameter s => .undefinedParameter s.bytes
  | .operator o => .operator (domOp o)
  | .endTok i => .end_ i
  | .header s => .header s.bytes

def domTape (T : List Tok) : Dom.Tape := (T.map domTok).toArray

def handle : Handler
  | ["spec_full", doc, gt, h] => specFull doc gt h
  | ["ttape", h] => (parseHex h).map fun d => tapeLine d false
  | ["ttapeoff", h] => (parseHex h).map fun d => tapeLine d true
  | ["tfaith", h, _] => (parseHex h).map fun d => tapeLine d false
  | ["treuse", _, h] => (parseHex h).map fun d => tapeLine d false
  | ["tlay", ha, hb, hc] => do
      let a ← parseHex ha
      let b ← parseHex hb
      let c ← parseHex hc
      let (ra, rb, rc) := (parse a, parse b, parse c)
      let same (x y : Res) : Bool :=
        match content x, content y with
        | some p, some q => p == q
        | none, none => (x.withBom false) == (y.withBom false)
        | _, _ => false
      let eq := same ra rc && same rb rc
      pure s!"eq:{if eq then 1 else 0} {showRes none rc}"
  | ["split", h] => (parseHex h).map fun d => pairStr (splitAtScalar d)
  | ["splitfb", h] => (parseHex h).map fun d => pairStr (splitAtScalarFallback d)
  | ["quote", h] => (parseHex h).map fun d => quoteStr (parseQuoteScalar d)
  | ["quotefb", h] => (parseHex h).map fun d => quoteStr (parseQuoteScalarFallback d)
  | ["wftext", h] => (parseHex h).map fun d =>
      match parse d with
      | .ok t _ => if wfTextTape d t && Dom.wfTape (domTape t) then "wf:1" else "wf:0"
      | .err _ => "err"
      | .panic => "panic"
      | .outOfFuel => "out-of-fuel"
  | ["tcut", h] => (parseHex h).map cutLine
  | _ => none

end Jomini.Driver.C01
