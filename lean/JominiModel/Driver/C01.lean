import JominiModel.Driver.Util
namespace Jomini.Driver.C01
open Jomini Jomini.Driver

/-- ops of property C01 (none yet). -/
def handle : Handler
  | _ => none

end Jomini.Driver.C01
