import JominiModel.Driver.Util
import JominiModel.Model.TextTape
/-
Ops of C01 (text tape), the text half of C06 (`wftext`) and the text-tape part of C19 (`tcut`).
Formats mirror harness/src/show.rs (`text_tape`, `text_tape_offsets`) and harness/src/props/c01.rs.
-/
namespace Jomini.Driver.C01
open Jomini Jomini.Driver Jomini.TextTape

def opName : Op → String
  | .lt => "lt" | .le => "le" | .gt => "gt" | .ge => "ge"
  | .ne => "ne" | .exact => "exact" | .eq => "eq" | .exists_ => "exists"

def flag (m : Bool) : String := if m then "m" else ""

/-- `n` = length of the input when offsets are wanted. -/
def showTok (offsets : Option Nat) (t : Tok) : String :=
  let sc (k : String) (s : Slice) : String :=
    match offsets with
    | none => s!"{k}:{toHex s.bytes}"
    | some n => s!"{k}@{s.off n}+{s.bytes.length}"
  match t with
  | .array e m => s!"A{flag m}{e}"
  | .object e m => s!"O{flag m}{e}"
  | .mixedContainer => "M"
  | .unquoted s => sc "U" s
  | .quoted s => sc "Q" s
  | .parameter s => sc "P" s
  | .undefParameter s => sc "N" s
  | .operator o => s!"Op:{opName o}"
  | .endTok i => s!"E{i}"
  | .header s => sc "H" s

def showTape (offsets : Option Nat) (ts : List Tok) : String :=
  if ts.isEmpty then "-" else ",".intercalate (ts.map (showTok offsets))

def errName : Err → String
  | .eof => "err:eof" | .syntax => "err:syntax" | .stackEmpty => "err:stack"

def showRes (offsets : Option Nat) : Res → String
  | .ok t b => s!"ok {showTape offsets t} bom:{if b then 1 else 0}"
  | .err e => errName e
  | .panic => "panic"
  | .outOfFuel => "out-of-fuel"

def tapeLine (d : Bytes) (offsets : Bool) : String :=
  showRes (if offsets then some d.length else none) (parse d)

/-- content of a result without the BOM flag (the flag belongs to the layout). -/
def content : Res → Option (List (Tok))
  | .ok t _ => some (t.map fun
      | .unquoted s => .unquoted ⟨0, s.bytes⟩
      | .quoted s => .quoted ⟨0, s.bytes⟩
      | .parameter s => .parameter ⟨0, s.bytes⟩
      | .undefParameter s => .undefParameter ⟨0, s.bytes⟩
      | .header s => .header ⟨0, s.bytes⟩
      | t => t)
  | _ => none

def pairStr : Option (Bytes × Bytes) → String
  | some (a, b) => s!"{a.length} {b.length}"
  | none => "panic"

def quoteStr : Except Fail (Bytes × Bytes) → String
  | .ok (a, b) => s!"{a.length} {b.length}"
  | .error (.err _) => "err"
  | .error .panic => "panic"

def cutLine (d : Bytes) : String :=
  ",".intercalate <| (List.range (d.length + 1)).map fun k =>
    match parse (d.take k) with
    | .ok t _ => s!"ok:{t.length}"
    | .err _ => "err"
    | .panic => "panic"
    | .outOfFuel => "out-of-fuel"

def handle : Handler
  | ["ttape", h] => (parseHex h).map fun d => tapeLine d false
  | ["ttapeoff", h] => (parseHex h).map fun d => tapeLine d true
  | ["tfaith", h, _] => (parseHex h).map fun d => tapeLine d false
  | ["treuse", _, h] => (parseHex h).map fun d => tapeLine d false
  | ["tlay", ha, hb, hc] => do
      let a ← parseHex ha
      let b ← parseHex hb
      let c ← parseHex hc
      let (ra, rb, rc) := (parse a, parse b, parse c)
      let same (x y : Res) : Bool :=
        match content x, content y with
        | some p, some q => p == q
        | none, none => (x.withBom false) == (y.withBom false)
        | _, _ => false
      let eq := same ra rc && same rb rc
      pure s!"eq:{if eq then 1 else 0} {showRes none rc}"
  | ["split", h] => (parseHex h).map fun d => pairStr (splitAtScalar d)
  | ["splitfb", h] => (parseHex h).map fun d => pairStr (splitAtScalarFallback d)
  | ["quote", h] => (parseHex h).map fun d => quoteStr (parseQuoteScalar d)
  | ["quotefb", h] => (parseHex h).map fun d => quoteStr (parseQuoteScalarFallback d)
  | ["wftext", h] => (parseHex h).map fun d =>
      match parse d with
      | .ok t _ => if wfTextTape d t then "wf:1" else "wf:0"
      | .err _ => "err"
      | .panic => "panic"
      | .outOfFuel => "out-of-fuel"
  | ["tcut", h] => (parseHex h).map cutLine
  | _ => none

end Jomini.Driver.C01
