import JominiModel.Driver.Util
namespace Jomini.Driver.C09
open Jomini Jomini.Driver

/-- ops of property C09 (none yet). -/
def handle : Handler
  | _ => none

end Jomini.Driver.C09
