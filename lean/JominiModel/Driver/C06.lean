import JominiModel.Driver.Util
namespace Jomini.Driver.C06
open Jomini Jomini.Driver

/-- ops of property C06 (none yet). -/
def handle : Handler
  | _ => none

end Jomini.Driver.C06
