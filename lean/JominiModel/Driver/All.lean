import JominiModel.Driver.Util
import JominiModel.Driver.C11
namespace Jomini.Driver

/-- every op handler; the first that answers wins. -/
def allHandlers : List Handler := [
  C11.handle
]

end Jomini.Driver
