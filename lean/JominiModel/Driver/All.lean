import JominiModel.Driver.Util
import JominiModel.Driver.C01
import JominiModel.Driver.C02
import JominiModel.Driver.C03
import JominiModel.Driver.C04
import JominiModel.Driver.C05
import JominiModel.Driver.C06
import JominiModel.Driver.C07
import JominiModel.Driver.C08
import JominiModel.Driver.C09
import JominiModel.Driver.C10
import JominiModel.Driver.C11
import JominiModel.Driver.C12
import JominiModel.Driver.C13
import JominiModel.Driver.C14
import JominiModel.Driver.C15
import JominiModel.Driver.C16
import JominiModel.Driver.C17
import JominiModel.Driver.C18
import JominiModel.Driver.C19
import JominiModel.Driver.C20
namespace Jomini.Driver

/-- ops starting with `x-` are implementation-only oracle ops (L3): the model has no opinion. -/
def skipHandler : Handler
  | op :: _ => if op.startsWith "x-" then some "skip" else none
  | [] => none

/-- every op handler; the first that answers wins. -/
def allHandlers : List Handler := [
  C01.handle,
  C02.handle,
  C03.handle,
  C04.handle,
  C05.handle,
  C06.handle,
  C07.handle,
  C08.handle,
  C09.handle,
  C10.handle,
  C11.handle,
  C12.handle,
  C13.handle,
  C14.handle,
  C15.handle,
  C16.handle,
  C17.handle,
  C18.handle,
  C19.handle,
  C20.handle,
  skipHandler
]

end Jomini.Driver
