import JominiModel.Driver.Util
namespace Jomini.Driver.C20
open Jomini Jomini.Driver

/-- ops of property C20 (none yet). -/
def handle : Handler
  | _ => none

end Jomini.Driver.C20
