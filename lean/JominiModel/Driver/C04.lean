import JominiModel.Driver.Util
namespace Jomini.Driver.C04
open Jomini Jomini.Driver

/-- ops of property C04 (none yet). -/
def handle : Handler
  | _ => none

end Jomini.Driver.C04
