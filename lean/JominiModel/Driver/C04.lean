import JominiModel.Driver.Util
import JominiModel.Model.BinDe
import JominiModel.Spec.BinDoc
/-
ops of property C04 (see harness/src/props/c04.rs for the case line formats).
Parsing of the case-line syntaxes lives here (driver code, outside the verified model).
-/
namespace Jomini.Driver.C04
open Jomini Jomini.Driver Jomini.BinDe

def dropPrefix? (pre : String) (s : List Char) : Option (List Char) :=
  let p := pre.toList
  if s.take p.length == p then some (s.drop p.length) else none

def isIdent (c : Char) : Bool := c.isAlphanum || c == '_'

mutual
partial def parseTy (s : List Char) : Option (Ty × List Char) :=
  let kws : List (String × Ty) := [("bool", .bool), ("i64", .i64), ("u64", .u64), ("i32", .i32), ("u32", .u32),
    ("f64", .f64), ("f32", .f32), ("str", .str), ("any", .any), ("ign", .ign)]
  let kw := kws.findSome? (fun (k, t) =>
    match dropPrefix? k s with
    | some r => match r with
      | c :: _ => if isIdent c || c == '(' then none else some (t, r)
      | [] => some (t, r)
    | none => none)
  match kw with
  | some x => some x
  | none =>
    let wrap (pre : String) (mk : Ty → Ty) : Option (Ty × List Char) :=
      match dropPrefix? pre s with
      | some r => match parseTy r with
        | some (t, ')' :: r2) => some (mk t, r2)
        | _ => none
      | none => none
    match wrap "opt(" .opt with
    | some x => some x
    | none =>
    match wrap "seq(" .seq with
    | some x => some x
    | none =>
    match wrap "map(" .map with
    | some x => some x
    | none =>
    match wrap "prop(" .prop with
    | some x => some x
    | none =>
    match dropPrefix? "st(" s with
    | some r => (parseFields r).map (fun (fs, r2) => (.struct fs, r2))
    | none =>
    match dropPrefix? "en(" s with
    | some r =>
      let body := r.takeWhile (· != ')')
      let rest := (r.dropWhile (· != ')')).drop 1
      let vs := ((String.ofList body).splitOn ";").filter (· != "")
      some (.enum vs, rest)
    | none => none

/-- `name[#id]:T;name:T;...)` -/
partial def parseFields (s : List Char) : Option (Fields × List Char) :=
  match s with
  | ')' :: r => some (.nil, r)
  | _ =>
    let nameTok := s.takeWhile (· != ':')
    match s.dropWhile (· != ':') with
    | ':' :: r =>
      let (name, tok) :=
        match (String.ofList nameTok).splitOn "#" with
        | [n, i] => (n, i.toNat?.getD 0)
        | _ => (String.ofList nameTok, 0)
      match parseTy r with
      | some (t, r2) =>
        let r3 := match r2 with | ';' :: x => x | x => x
        (parseFields r3).map (fun (fs, r4) => (Fields.cons name tok t fs, r4))
      | none => none
    | _ => none
end

def parseRoot (s : String) : Option RootTy :=
  match dropPrefix? "tst(" s.toList with
  | some r => match parseFields r with
    | some (fs, []) => some (.tok fs)
    | _ => none
  | none => match parseTy s.toList with
    | some (t, []) => some (.plain t)
    | _ => none

def parseCfg (s : String) : Option Cfg :=
  match s.splitOn "/" with
  | [st, _, e] => do
    let strat ← match st with | "E" => some Strategy.error | "S" => some .stringify | "I" => some .ignore | _ => none
    let entries ← if e == "-" then some [] else
      (e.splitOn ",").mapM (fun p => match p.splitOn ":" with
        | [i, n] => do pure ((← i.toNat?), (← parseHex n))
        | _ => none)
    pure { strat, entries }
  | _ => none

def parseRgb (v : String) : Option Rgb :=
  match (v.splitOn ".").mapM (·.toNat?) with
  | some [r, g, b] => some { r, g, b, a := none }
  | some [r, g, b, a] => some { r, g, b, a := some a }
  | _ => none

def parseTok (w : String) : Option Tok :=
  match w.splitOn ":" with
  | ["Open"] => some .open | ["Close"] => some .close | ["Equal"] => some .equal
  | ["Trunc"] => some .trunc | ["Stray"] => some .stray
  | ["U32", v] => v.toNat?.map .u32 | ["U64", v] => v.toNat?.map .u64
  | ["I32", v] => v.toInt?.map .i32 | ["I64", v] => v.toInt?.map .i64
  | ["Bool", v] => some (.bool (v == "1"))
  | ["Q", v] => (parseHex v).map .quoted | ["U", v] => (parseHex v).map .unquoted
  | ["F32", v] => (parseHex v).map .f32 | ["F64", v] => (parseHex v).map .f64
  | ["Id", v] => v.toNat?.map .id
  | _ => none

def parseToks (s : String) : Option (List Tok) :=
  if s == "-" then some [] else (s.splitOn ",").mapM parseTok

def parseTTok (w : String) : Option TTok :=
  match w.splitOn ":" with
  | ["M"] => some .mixed | ["Eq"] => some .equal
  | ["B", v] => some (.bool (v == "1"))
  | ["U32", v] => v.toNat?.map .u32 | ["U64", v] => v.toNat?.map .u64
  | ["I32", v] => v.toInt?.map .i32 | ["I64", v] => v.toInt?.map .i64
  | ["Q", v] => (parseHex v).map .quoted | ["U", v] => (parseHex v).map .unquoted
  | ["F32", v] => (parseHex v).map .f32 | ["F64", v] => (parseHex v).map .f64
  | ["T", v] => v.toNat?.map .token
  | ["Rgb", v] => (parseRgb v).map .rgb
  | [x] =>
    match x.toList with
    | 'A' :: r => (String.ofList r).toNat?.map .array
    | 'O' :: r => (String.ofList r).toNat?.map .object
    | 'E' :: r => (String.ofList r).toNat?.map .end_
    | _ => none
  | _ => none

def parseTape (s : String) : Option (List TTok) :=
  if s == "-" then some [] else (s.splitOn ",").mapM parseTTok

/-! binary documents -/

def isDelim (c : Char) : Bool := c == '(' || c == ')' || c == ';' || c == '=' || c == '~'

def parseBLeaf (w : String) : Option BLeaf :=
  match w.splitOn ":" with
  | ["I32", v] => v.toInt?.map .i32 | ["I64", v] => v.toInt?.map .i64
  | ["U32", v] => v.toNat?.map .u32 | ["U64", v] => v.toNat?.map .u64
  | ["Bool", v] => some (.bool (v == "1"))
  | ["F32", v] => (parseHex v).map .f32 | ["F64", v] => (parseHex v).map .f64
  | ["Q", v] => (parseHex v).map .quoted | ["U", v] => (parseHex v).map .unquoted
  | ["Id", v] => v.toNat?.map .id
  | _ => none

mutual
partial def parseBNode (s : List Char) : Option (BNode × List Char) :=
  let w := String.ofList (s.takeWhile (fun c => !isDelim c))
  let r := s.dropWhile (fun c => !isDelim c)
  if w == "O" then
    match r with
    | '(' :: ')' :: r2 => some (.obj .nil, r2)
    | '(' :: r2 => (parseBFields r2 true).map (fun (fs, r3) => (.obj fs, r3))
    | _ => none
  else if w == "A" then
    match r with
    | '(' :: ')' :: r2 => some (.arr .nil, r2)
    | '(' :: r2 => (parseBNodes r2).map (fun (vs, r3) => (.arr vs, r3))
    | _ => none
  else if w.startsWith "Rgb:" then
    (parseRgb (w.drop 4).toString).map (fun c => (.rgb c, r))
  else (parseBLeaf w).map (fun l => (.leaf l, r))

/-- fields up to `)` (nested) or end of input (root) -/
partial def parseBFields (s : List Char) (nested : Bool) : Option (BFields × List Char) :=
  let ghosts := (s.takeWhile (· == '~')).length
  let s1 := s.dropWhile (· == '~')
  let kw := String.ofList (s1.takeWhile (fun c => !isDelim c))
  match s1.dropWhile (fun c => !isDelim c), parseBLeaf kw with
  | '=' :: r, some k =>
    match parseBNode r with
    | some (v, ';' :: r2) => (parseBFields r2 nested).map (fun (fs, r3) => (.cons ghosts k v fs, r3))
    | some (v, ')' :: r2) => if nested then some (.cons ghosts k v .nil, r2) else none
    | some (v, []) => if nested then none else some (.cons ghosts k v .nil, [])
    | _ => none
  | _, _ => none

partial def parseBNodes (s : List Char) : Option (BNodes × List Char) :=
  match parseBNode s with
  | some (v, ';' :: r) => (parseBNodes r).map (fun (vs, r2) => (.cons v vs, r2))
  | some (v, ')' :: r) => some (.cons v .nil, r)
  | _ => none
end

def parseBDoc (s : String) : Option BDoc :=
  if s == "-" then some .nil else
  match parseBFields s.toList false with
  | some (d, []) => some d
  | _ => none

/-! printing -/

def showRgb (c : Rgb) : String :=
  "Rgb:" ++ String.intercalate "." (c.comps.map toString)

def showTok : Tok → String
  | .open => "Open" | .close => "Close" | .equal => "Equal"
  | .u32 n => s!"U32:{n}" | .u64 n => s!"U64:{n}" | .i32 n => s!"I32:{n}" | .i64 n => s!"I64:{n}"
  | .bool b => if b then "Bool:1" else "Bool:0"
  | .quoted b => "Q:" ++ toHex b | .unquoted b => "U:" ++ toHex b
  | .f32 r => "F32:" ++ toHex r | .f64 r => "F64:" ++ toHex r
  | .id n => s!"Id:{n}" | .rgb c => showRgb c | .trunc => "Trunc" | .stray => "Stray"

def showTTok : TTok → String
  | .array e => s!"A{e}" | .object e => s!"O{e}" | .mixed => "M" | .equal => "Eq" | .end_ i => s!"E{i}"
  | .bool b => if b then "B:1" else "B:0"
  | .u32 n => s!"U32:{n}" | .u64 n => s!"U64:{n}" | .i64 n => s!"I64:{n}" | .i32 n => s!"I32:{n}"
  | .quoted b => "Q:" ++ toHex b | .unquoted b => "U:" ++ toHex b
  | .f32 r => "F32:" ++ toHex r | .f64 r => "F64:" ++ toHex r
  | .token id => s!"T:{id}" | .rgb c => showRgb c

def joinOrDash (xs : List String) : String := if xs.isEmpty then "-" else String.intercalate "," xs

def handle : Handler
  | ["bde_tape", cfg, ty, tape, _] => do
    let c ← parseCfg cfg; let t ← parseRoot ty; let tp ← parseTape tape
    pure (renderRes (deTape c t tp))
  | ["bde_slice", cfg, ty, raw, _] => do
    let c ← parseCfg cfg; let t ← parseRoot ty; let toks ← parseToks raw
    pure (renderRes (deOndemand c t toks))
  | ["bde_stream", cfg, ty, raw, _, _, _] => do
    let c ← parseCfg cfg; let t ← parseRoot ty; let toks ← parseToks raw
    pure (renderRes (deStream c t toks))
  | ["bde_spec", cfg, ty, bd] => do
    let c ← parseCfg cfg; let t ← parseRoot ty; let d ← parseBDoc bd
    pure (renderRes (valueOfBin c t d))
  | ["bde_toks", bd] => do
    let d ← parseBDoc bd
    pure (joinOrDash ((tokensOf d).map showTok))
  | ["bde_tapeof", bd] => do
    let d ← parseBDoc bd
    pure (match tapeOf d with | some t => joinOrDash (t.map showTTok) | none => "err:parse")
  | _ => none

end Jomini.Driver.C04
