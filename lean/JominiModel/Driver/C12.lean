import JominiModel.Driver.Util
namespace Jomini.Driver.C12
open Jomini Jomini.Driver

/-- ops of property C12 (none yet). -/
def handle : Handler
  | _ => none

end Jomini.Driver.C12
