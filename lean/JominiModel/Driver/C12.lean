import JominiModel.Driver.Util
import JominiModel.Model.Encoding
namespace Jomini.Driver.C12
open Jomini Jomini.Driver Jomini.Encoding

def showCow : Res Cow → String
  | .panic => "panic"
  | .ok (.borrowed b) => "B:" ++ toHex b
  | .ok (.owned b) => "O:" ++ toHex b

/-- ops of property C12. -/
def handle : Handler
  | ["w1252", h] => (parseHex h).map fun d => showCow (decodeWindows1252 d)
  | ["utf8", h] => (parseHex h).map fun d => showCow (decodeUtf8 d)
  | ["trim", h] => (parseHex h).map fun d => toHex (trimAsciiEnd d)
  | ["czb", x] => (parseNat? x).map fun n => toString (containsZeroByte (BitVec.ofNat 64 n))
  | ["rep", x] => (parseNat? x).map fun n => toString (repeatByte (UInt8.ofNat n)).toNat
  | _ => none

end Jomini.Driver.C12
