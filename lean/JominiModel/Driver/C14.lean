import JominiModel.Driver.Util
namespace Jomini.Driver.C14
open Jomini Jomini.Driver

/-- ops of property C14 (none yet). -/
def handle : Handler
  | _ => none

end Jomini.Driver.C14
