import JominiModel.Driver.Util
import JominiModel.Driver.C15
import JominiModel.Model.Writer
import JominiModel.Model.WriterSink
/-
ops of property C14:
  wtape <indent_char> <indent_factor> <input hex> <tape> [rt]
    -> output hex of `writeTape` over `<tape>` (harness/src/show.rs `text_tape` format);
       `err:parse` when `<tape>` is `err` (the input did not parse on the implementation side)
-/
namespace Jomini.Driver.C14
open Jomini Jomini.Driver Jomini.Writer

/-- `A<end>` `Am<end>` `O<end>` `Om<end>` `E<idx>` `M` -/
def parseStructTok (s : String) : Option Tok :=
  match s.toList with
  | ['M'] => some .mixedContainer
  | 'A' :: 'm' :: rest => (String.ofList rest).toNat?.map fun e => .array e true
  | 'A' :: rest => (String.ofList rest).toNat?.map fun e => .array e false
  | 'O' :: 'm' :: rest => (String.ofList rest).toNat?.map fun e => .object e true
  | 'O' :: rest => (String.ofList rest).toNat?.map fun e => .object e false
  | 'E' :: rest => (String.ofList rest).toNat?.map .end
  | _ => none

def parseTok (s : String) : Option Tok :=
  match s.splitOn ":" with
  | ["U", h] => (parseHex h).map .unquoted
  | ["Q", h] => (parseHex h).map .quoted
  | ["P", h] => (parseHex h).map .parameter
  | ["N", h] => (parseHex h).map .undefinedParameter
  | ["H", h] => (parseHex h).map .header
  | ["Op", o] => (C15.parseOp o).map .operator
  | [t] => parseStructTok t
  | _ => none

def parseTape (s : String) : Option (List Tok) :=
  if s == "-" then some [] else (s.splitOn ",").mapM parseTok

def handle : Handler
  | "wtape" :: c :: f :: _ :: tape :: _ => do
    let ic ← c.toNat?
    let fac ← f.toNat?
    if tape == "err" then pure "err:parse" else
    let toks ← parseTape tape
    match writeTape toks (State.init (UInt8.ofNat ic) fac) with
    | .ok s => pure (toHex s.out)
    | .error e => pure (C15.errStr e)
  -- wtapew <indent_char> <indent_factor> <cap> <input hex> <tape>: `write_tape` into a sink that fails after <cap> bytes
  --   -> `<ok | error> <bytes that reached the sink>`
  | "wtapew" :: c :: f :: cap :: _ :: tape :: _ => do
    let ic ← c.toNat?
    let fac ← f.toNat?
    let cp ← cap.toNat?
    if tape == "err" then pure "err:parse" else
    let toks ← parseTape tape
    let r := writeTapeF cp toks (State.init (UInt8.ofNat ic) fac)
    match r.1 with
    | .ok _ => pure s!"ok {toHex r.2.out}"
    | .error e => pure s!"{C15.errStr e} {toHex r.2.out}"
  | _ => none

end Jomini.Driver.C14
