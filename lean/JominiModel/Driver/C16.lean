import JominiModel.Driver.Util
namespace Jomini.Driver.C16
open Jomini Jomini.Driver

/-- ops of property C16 (none yet). -/
def handle : Handler
  | _ => none

end Jomini.Driver.C16
