import JominiModel.Driver.Util
import JominiModel.Model.Json
import JominiModel.Spec.JsonDoc
/-
ops of property C16:
  json <opts> <enc> <entry> <tape> <hex>
    opts  = [m|p][g|p|k][a|u|n]   minified/pretty, Group/Preserve/KeyValuePairs, All/Unquoted/None
    enc   = w | u                 Windows-1252 / UTF-8
    entry = obj | arr | val       whole document / first field's value as array / as value
    tape  = the tape the REAL parser produced for <hex> (show.rs `text_tape`)
    hex   = the input bytes (replay only; the model converts the tape)
  → hex of the output with every float token replaced by `f<bits>` | na | panic | hang
  jsonw <opts> <enc> <entry> <cap> <tape> <hex>
    `to_writer` into a writer that accepts <cap> bytes and then fails: `ok` if the whole output fits,
    else `err:<hex of the first cap bytes>` (what reached the writer); `skip` when the output contains a
    float (its text is not modelled); `na` as for `json`
  wf <tape> <hex>
    the runtime-checked hypothesis of C16_total / C16_content: `wf` iff `wfTapeB tape` (the tape is
    the token list of a document tree) AND (a spot check of the proved C16_content) the model's
    `toJson` equals `jsonOfDoc` of that tree for the three duplicate-key modes (compared as
    rendered bytes); `notwf` / `mismatch` otherwise.  The harness answers `wf` for every tape
    the real parser produced.
-/
namespace Jomini.Driver.C16
open Jomini Jomini.Driver Jomini.Json

def parseOp : String → Option Op
  | "lt" => some .lt | "le" => some .le | "gt" => some .gt | "ge" => some .ge
  | "ne" => some .ne | "exact" => some .exact | "eq" => some .eq | "exists" => some .exists_
  | _ => none

def dropPrefix? (s pre : String) : Option String :=
  if s.startsWith pre then some (String.ofList (s.toList.drop pre.length)) else none

def parseTok (s : String) : Option TTok :=
  if s == "M" then some .mixed
  else if let some r := dropPrefix? s "Op:" then (parseOp r).map .op
  else if let some r := dropPrefix? s "U:" then (parseHex r).map .unquoted
  else if let some r := dropPrefix? s "Q:" then (parseHex r).map .quoted
  else if let some r := dropPrefix? s "P:" then (parseHex r).map .param
  else if let some r := dropPrefix? s "N:" then (parseHex r).map .undefParam
  else if let some r := dropPrefix? s "H:" then (parseHex r).map .header
  else if let some r := dropPrefix? s "Am" then r.toNat?.map (.array · true)
  else if let some r := dropPrefix? s "Om" then r.toNat?.map (.object · true)
  else if let some r := dropPrefix? s "A" then r.toNat?.map (.array · false)
  else if let some r := dropPrefix? s "O" then r.toNat?.map (.object · false)
  else if let some r := dropPrefix? s "E" then r.toNat?.map .end_
  else none

def parseTape (s : String) : Option Tape :=
  if s == "-" then some #[]
  else (s.splitOn ",").foldl (fun acc w => do
    let a ← acc
    let tk ← parseTok w
    pure (a.push tk)) (some #[])

def parseOpts (s : String) : Option Opts :=
  match s.toList with
  | [a, b, c] => do
    let pretty ← (if a == 'm' then some false else if a == 'p' then some true else none)
    let dup ← (if b == 'g' then some DupMode.group else if b == 'p' then some DupMode.preserve
               else if b == 'k' then some DupMode.kvp else none)
    let narrow ← (if c == 'a' then some Narrow.all else if c == 'u' then some Narrow.unquoted
                  else if c == 'n' then some Narrow.none else none)
    pure ⟨pretty, dup, narrow⟩
  | _ => none

def parseEnc : String → Option Enc
  | "w" => some .w1252 | "u" => some .utf8 | _ => none

def parseEntry : String → Option Entry
  | "obj" => some .obj | "arr" => some .arr | "val" => some .val | _ => none

/-- canonical float token of the line protocol: `f<bits>` -/
def floatTok (bits : Nat) : Bytes := 102 :: natDigits bits

def allOpts : List Opts :=
  [false, true].flatMap fun p => [DupMode.group, .preserve, .kvp].flatMap fun d =>
    [Narrow.all, .unquoted, .none].map fun n => ⟨p, d, n⟩

def spotOpts : List Opts :=
  [⟨false, .group, .all⟩, ⟨true, .preserve, .unquoted⟩, ⟨false, .kvp, .none⟩]

def wfAnswer (t : Tape) : String :=
  match docOf t with
  | none => "notwf"
  | some d =>
    if !docAt t d then "notwf"
    else
      let ok := spotOpts.all fun o => [Enc.utf8].all fun enc =>
        match toJson o enc .obj t with
        | .ok (some v) => render floatTok o v == render floatTok o (jsonOfDoc o enc d)
        | _ => false
      if ok then "wf" else "mismatch"

mutual
def hasFloat : JVal → Bool
  | .float _ => true
  | .arr xs => hasFloatL xs
  | .obj kvs => hasFloatO kvs
  | _ => false
def hasFloatL : List JVal → Bool
  | [] => false
  | x :: xs => hasFloat x || hasFloatL xs
def hasFloatO : List (Bytes × JVal) → Bool
  | [] => false
  | (_, v) :: r => hasFloat v || hasFloatO r
end

def handle : Handler
  | ["jsonw", so, se, sy, sc, st, _hex] => do
    let o ← parseOpts so
    let enc ← parseEnc se
    let entry ← parseEntry sy
    let cap ← sc.toNat?
    let t ← parseTape st
    pure (match toJson o enc entry t with
      | .error .panic => "panic"
      | .error .hang => "hang"
      | .ok none => "na"
      | .ok (some v) =>
        if hasFloat v then "skip"
        else
          let bytes := render floatTok o v
          if cap < bytes.length then "err:" ++ toHex (bytes.take cap) else "ok")
  | ["wf", st, _hex] => (parseTape st).map wfAnswer
  | ["json", so, se, sy, st, _hex] => do
    let o ← parseOpts so
    let enc ← parseEnc se
    let entry ← parseEntry sy
    let t ← parseTape st
    pure (match toJson o enc entry t with
      | .error .panic => "panic"
      | .error .hang => "hang"
      | .ok none => "na"
      | .ok (some v) => toHex (render floatTok o v))
  | _ => none

end Jomini.Driver.C16
