import JominiModel.Driver.Util
namespace Jomini.Driver.C17
open Jomini Jomini.Driver

/-- ops of property C17 (none yet). -/
def handle : Handler
  | _ => none

end Jomini.Driver.C17
