import JominiModel.Driver.Util
import JominiModel.Model.Dom
/-
ops of property C17:

  dom <input-hex> <tape>      (the model only reads <tape>)

<tape> is the text tape in the format of harness/src/show.rs `text_tape`: tokens joined by ','
("-" = empty tape), each token one of
  A<end> Am<end> O<end> Om<end> E<idx> M U:<hex> Q:<hex> P:<hex> N:<hex> H:<hex> Op:<name>
with <name> ∈ lt le gt ge ne exact eq exists and <hex> lower-case hex ("-" = empty).
`parseTape` / `tapeStr` below are reusable by other slices.

Answer: `wf=<0|1> R{O:<obj>} <vi>{O:<obj>;A:<arr>} <vi>{H:<arr>} …` — see harness/src/props/c17.rs.
-/
namespace Jomini.Driver.C17
open Jomini Jomini.Driver Jomini.Dom

def opName : Op → String
  | .lt => "lt" | .le => "le" | .gt => "gt" | .ge => "ge"
  | .ne => "ne" | .exact => "exact" | .eq => "eq" | .exists_ => "exists"

def parseOp : String → Option Op
  | "lt" => some .lt | "le" => some .le | "gt" => some .gt | "ge" => some .ge
  | "ne" => some .ne | "exact" => some .exact | "eq" => some .eq | "exists" => some .exists_
  | _ => none

def tokStr : TTok → String
  | .array e m => s!"A{if m then "m" else ""}{e}"
  | .object e m => s!"O{if m then "m" else ""}{e}"
  | .mixedContainer => "M"
  | .unquoted b => s!"U:{toHex b}"
  | .quoted b => s!"Q:{toHex b}"
  | .parameter b => s!"P:{toHex b}"
  | .undefinedParameter b => s!"N:{toHex b}"
  | .operator o => s!"Op:{opName o}"
  | .end_ i => s!"E{i}"
  | .header b => s!"H:{toHex b}"

def tapeStr (t : Tape) : String :=
  if t.isEmpty then "-" else ",".intercalate (t.toList.map tokStr)

def parseTok (s : String) : Option TTok :=
  match s.toList with
  | ['M'] => some .mixedContainer
  | 'A' :: 'm' :: r => (String.ofList r).toNat?.map (TTok.array · true)
  | 'A' :: r => (String.ofList r).toNat?.map (TTok.array · false)
  | 'O' :: 'p' :: ':' :: r => (parseOp (String.ofList r)).map TTok.operator
  | 'O' :: 'm' :: r => (String.ofList r).toNat?.map (TTok.object · true)
  | 'O' :: r => (String.ofList r).toNat?.map (TTok.object · false)
  | 'E' :: r => (String.ofList r).toNat?.map TTok.end_
  | 'U' :: ':' :: r => (parseHex (String.ofList r)).map TTok.unquoted
  | 'Q' :: ':' :: r => (parseHex (String.ofList r)).map TTok.quoted
  | 'P' :: ':' :: r => (parseHex (String.ofList r)).map TTok.parameter
  | 'N' :: ':' :: r => (parseHex (String.ofList r)).map TTok.undefinedParameter
  | 'H' :: ':' :: r => (parseHex (String.ofList r)).map TTok.header
  | _ => none

def parseTape (s : String) : Option Tape :=
  if s == "-" then some #[] else
  ((s.splitOn ",").mapM parseTok).map List.toArray

instance : Monad Out where
  pure := .ok
  bind x f := match x with | .ok a => f a | .panic => .panic | .fuel => .fuel

/-- `ValueReader::token()` on each yielded value: a checked access -/
def touch (t : Tape) (v : Nat) : Out Unit :=
  match t[v]? with | some _ => .ok () | none => .panic

def nats (l : List Nat) : String := " ".intercalate (l.map toString)

def arrView (t : Tape) (r : Nat × Nat) : Out String := do
  let tl ← tokensLen r.1 r.2
  let len ← valuesLen t r.1 r.2
  let sh ← valuesSizeHint t r.1 r.2
  let vs ← values t r.1 r.2
  for v in vs do touch t v
  let hi := match sh.2 with | some n => toString n | none => "-"
  pure s!"tl={tl},len={len},sh={sh.1}/{hi},V=[{nats vs}]"

def opStr : Option Op → String
  | some o => opName o
  | none => "-"

def objView (t : Tape) (r : Nat × Nat) : Out String := do
  let tl ← tokensLen r.1 r.2
  let fl ← fieldsLen t r.1 r.2
  let sh ← fieldsSizeHint t r.1 r.2
  let (fs, q) ← fields t r.1 r.2
  for f in fs do touch t f.valueIdx
  let rem ← arrView t (remainder t q r.2)
  let (gsh, gs, q') ← fieldGroups t r.1 r.2
  let _ ← arrView t (remainder t q' r.2)
  let fstr := " ".intercalate (fs.map fun f => s!"{tokStr f.key}/{opStr f.op}/{f.valueIdx}")
  let gstr := " | ".intercalate (gs.map fun (f, g) =>
    s!"{tokStr f.key}>{"+".intercalate (g.toList.map fun ov => s!"{opStr ov.1}/{ov.2}")}")
  pure s!"tl={tl},fl={fl},sh={sh},F=[{fstr}],gsh={gsh},G=[{gstr}],rem={rem}"

def nodeView (t : Tape) (vi : Nat) (tok : TTok) : Out (Option String) := do
  match tok with
  | .array _ _ | .object _ _ =>
    let o ← readObject t vi
    let a ← readArray t vi
    let _ ← valueTokensLen t vi
    match o, a with
    | some ro, some ra =>
      let os ← objView t ro
      let as ← arrView t ra
      pure (some s!"{vi}\{O:{os};A:{as}}")
    | _, _ => pure (some s!"{vi}\{err}")
  | .header _ =>
    let a ← readArray t vi
    match a with
    | some ra =>
      let as ← arrView t ra
      pure (some s!"{vi}\{H:{as}}")
    | none => pure (some s!"{vi}\{err}")
  | _ => pure none

def domAll (t : Tape) : Out String := do
  let root ← objView t (rootReader t)
  let mut out := s!"R\{O:{root}}"
  let mut i := 0
  for tok in t do
    match ← nodeView t i tok with
    | some s => out := out ++ " " ++ s
    | none => pure ()
    i := i + 1
  pure out

def handle : Handler
  | ["dom", _, tp] => (parseTape tp).map fun t =>
      match domAll t with
      | .ok s => s!"wf={if wfTape t then 1 else 0} {s}"
      | .panic => "panic"
      | .fuel => "fuel"
  | _ => none

end Jomini.Driver.C17
