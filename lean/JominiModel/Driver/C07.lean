import JominiModel.Driver.Util
namespace Jomini.Driver.C07
open Jomini Jomini.Driver

/-- ops of property C07 (none yet). -/
def handle : Handler
  | _ => none

end Jomini.Driver.C07
