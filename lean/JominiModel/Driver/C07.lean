import JominiModel.Driver.Util
import JominiModel.Model.TextReader
import JominiModel.Model.TextReaderBuf
import JominiModel.Spec.TextReader
/-
ops of property C07 (and the text-reader ops used by C09 / C20); formats in
harness/src/props/c07.rs.
-/
namespace Jomini.Driver.C07
open Jomini Jomini.Driver Jomini.TextReader

def opName : Op → String
  | .lt => "lt" | .le => "le" | .gt => "gt" | .ge => "ge"
  | .ne => "ne" | .exact => "exact" | .eq => "eq" | .exists_ => "exists"

def showTok : Token → String
  | .open_ => "Open"
  | .close => "Close"
  | .op o => "Op:" ++ opName o
  | .unquoted b => "U:" ++ toHex b
  | .quoted b => "Q:" ++ toHex b

def showErr : Err → String
  | .eof => "err:eof" | .full => "err:full" | .io => "err:io"

def showOutcome : Outcome → String
  | .end_ => "end" | .err e => showErr e | .panic => "panic" | .ub => "ub" | .fuel => "fuel"

def joinToks (ts : List String) : String :=
  if ts.isEmpty then "-" else String.intercalate "," ts

def parseStep (s : String) : Option Step :=
  if s == "F" then some .fail
  else if s == "P" then some .failForever
  else if s.startsWith "R" then
    match (s.drop 1).toNat? with
    | some n => if n ≥ 1 then some (.repeat_ n) else none
    | none => none
  else
    match s.toNat? with
    | some n => if n ≥ 1 then some (.give n) else none
    | none => none

def parseSched (s : String) : Option (List Step) :=
  if s == "-" then some [] else (s.splitOn ",").mapM parseStep

/-- `16`, `16r` or `16r7b` (recycled buffer, optionally left filled with a byte: same model, the result must
not depend on what lies behind the window) -/
def parseCap (s : String) : Option Nat :=
  match s.splitOn "r" with
  | [n] => n.toNat?
  | [n, _] => n.toNat?
  | _ => none

/-- the contents of a recycled buffer: `16r7b` = sixteen bytes `0x7b`; `16r` = lexically significant junk
(`"\\{}#= a\n"x\\"` repeated).  The op `tstream` evaluates recycled capacities on the concrete-buffer model. -/
def recycledBuf (s : String) : Option Bytes :=
  match s.splitOn "r" with
  | [n, f] => do
    let n ← n.toNat?
    if f.isEmpty then
      let junk : Bytes := [34, 92, 123, 125, 35, 61, 32, 97, 10, 34, 120, 92, 34]
      pure ((List.range n).map (fun i => junk.getD (i % junk.length) 32))
    else
      let b ← parseHex f
      match b with
      | [x] => pure (List.replicate n x)
      | _ => none
  | _ => none

def mkReader (cap : Nat) (sched : List Step) (d : Bytes) : Reader :=
  if cap == 0 then fromSlice d else fromReader cap sched d

def delivered (cap : Nat) (d : Bytes) (r : Reader) : Nat :=
  if cap == 0 then d.length else r.src.delivered

/-- like `lexAll` but keeps calling `next` after an I/O error (at most 8 times) -/
def lexRetry (fuel : Nat) : Nat → Nat → Reader → List String → List String × String × Reader
  | 0, _, r, acc => (acc.reverse, "fuel", r)
  | n + 1, errs, r, acc =>
    match next fuel r with
    | .ok r' (some t) => lexRetry fuel n errs r' (showTok t :: acc)
    | .ok r' none => (acc.reverse, "end", r')
    | .err r' .io => if errs < 8 then lexRetry fuel n (errs + 1) r' ("!io" :: acc) else (acc.reverse, "err:io", r')
    | .err r' e => (acc.reverse, showErr e, r')
    | .panic => (acc.reverse, "panic", r)
    | .ub => (acc.reverse, "ub", r)
    | .fuel => (acc.reverse, "fuel", r)

/-- through `read()` -/
def lexRead (fuel : Nat) : Nat → Reader → List String → List String × String × Reader
  | 0, r, acc => (acc.reverse, "fuel", r)
  | n + 1, r, acc =>
    match TextReader.read fuel r with
    | .ok r' t => lexRead fuel n r' (showTok t :: acc)
    | .err r' e => (acc.reverse, showErr e, r')
    | .panic => (acc.reverse, "panic", r)
    | .ub => (acc.reverse, "ub", r)
    | .fuel => (acc.reverse, "fuel", r)

def showNext (fuel : Nat) (r : Reader) : String × Reader :=
  match next fuel r with
  | .ok r' (some t) => (showTok t, r')
  | .ok r' none => ("end", r')
  | .err r' e => (showErr e, r')
  | .panic => ("panic", r)
  | .ub => ("ub", r)
  | .fuel => ("fuel", r)

/-- read until the k-th Open (`container = true`) / Unquoted token -/
def seek (fuel : Nat) (container : Bool) (k : Nat) : Nat → Nat → Reader → Except (String × Reader) Reader
  | 0, _, r => .error ("hang -", r)
  | n + 1, seen, r =>
    match next fuel r with
    | .ok r' (some t) =>
      let hit := match container, t with
        | true, .open_ => true
        | false, .unquoted _ => true
        | _, _ => false
      if hit then (if seen + 1 == k then .ok r' else seek fuel container k n (seen + 1) r')
      else seek fuel container k n seen r'
    | .ok r' none => .error ("nok end", r')
    | .err r' e => .error ("nok " ++ showErr e, r')
    | .panic => .error ("panic -", r)
    | .ub => .error ("ub -", r)
    | .fuel => .error ("fuel -", r)

def doSkip (container : Bool) (cap : Nat) (sched : List Step) (d : Bytes) (k : Nat) : String :=
  let fuel := fuelFor d + 2 * sched.length
  let r0 := mkReader cap sched d
  let fin (s : String) (r : Reader) := s!"{s} {r.position} {delivered cap d r}"
  match seek fuel container k (2 * d.length + 32) 0 r0 with
  | .error (s, r) => fin s r
  | .ok r =>
    match (if container then skipContainer fuel r else skipUnquotedValue fuel r) with
    | .ok r' _ => let (s, r'') := showNext fuel r'; fin ("ok " ++ s) r''
    | .err r' e => fin (showErr e ++ " -") r'
    | .panic => fin "panic -" r
    | .ub => fin "ub -" r
    | .fuel => fin "fuel -" r

/-! the same drivers over the concrete buffer (recycled capacities `16r7b` / `16r`) -/

def bshowNext (fuel : Nat) (c : BReader) : String × BReader :=
  match bnextOpt fuel c with
  | .ok c' (some t) => (showTok t, c')
  | .ok c' none => ("end", c')
  | .err c' e => (showErr e, c')
  | .panic => ("panic", c)
  | .ub => ("ub", c)
  | .fuel => ("fuel", c)

def bseek (fuel : Nat) (container : Bool) (k : Nat) : Nat → Nat → BReader → Except (String × BReader) BReader
  | 0, _, c => .error ("hang -", c)
  | n + 1, seen, c =>
    match bnextOpt fuel c with
    | .ok c' (some t) =>
      let hit := match container, t with
        | true, .open_ => true
        | false, .unquoted _ => true
        | _, _ => false
      if hit then (if seen + 1 == k then .ok c' else bseek fuel container k n (seen + 1) c')
      else bseek fuel container k n seen c'
    | .ok c' none => .error ("nok end", c')
    | .err c' e => .error ("nok " ++ showErr e, c')
    | .panic => .error ("panic -", c)
    | .ub => .error ("ub -", c)
    | .fuel => .error ("fuel -", c)

def bdoSkip (container : Bool) (buf : Bytes) (sched : List Step) (d : Bytes) (k : Nat) : String :=
  let fuel := fuelFor d + 2 * sched.length
  let c0 := BReader.ofBuffer buf sched d
  let fin (s : String) (c : BReader) := s!"{s} {c.prior + c.start} {c.src.delivered}"
  match bseek fuel container k (2 * d.length + 32) 0 c0 with
  | .error (s, c) => fin s c
  | .ok c =>
    match (if container then bskipContainer fuel c else bskipUnquotedValue fuel c) with
    | .ok c' _ => let (s, c'') := bshowNext fuel c'; fin ("ok " ++ s) c''
    | .err c' e => fin (showErr e ++ " -") c'
    | .panic => fin "panic -" c
    | .ub => fin "ub -" c
    | .fuel => fin "fuel -" c

def skipTokens (fuel : Nat) : Nat → Reader → Except (String × Reader) Reader
  | 0, r => .ok r
  | n + 1, r =>
    match next fuel r with
    | .ok r' (some _) => skipTokens fuel n r'
    | .ok r' none => .error ("nok end", r')
    | .err r' e => .error ("nok " ++ showErr e, r')
    | .panic => .error ("panic -", r)
    | .ub => .error ("ub -", r)
    | .fuel => .error ("fuel -", r)

def doBytes (cap : Nat) (sched : List Step) (d : Bytes) (k n : Nat) : String :=
  let fuel := fuelFor d + 2 * sched.length
  let r0 := mkReader cap sched d
  let fin (s : String) (r : Reader) := s!"{s} {r.position} {delivered cap d r}"
  match skipTokens fuel k r0 with
  | .error (s, r) => fin s r
  | .ok r =>
    match readBytes fuel r n with
    | .ok r' b => let (s, r'') := showNext fuel r'; fin ("b:" ++ toHex b ++ " " ++ s) r''
    | .err r' e => fin (showErr e ++ " -") r'
    | .panic => fin "panic -" r
    | .ub => fin "ub -" r
    | .fuel => fin "fuel -" r

def handle : Handler
  | ["lws", v] => v.toNat?.map fun x => toString (leadingWhitespace (BitVec.ofNat 64 x))
  | ["cchunk", v, b] => do
      let x ← v.toNat?
      let b ← b.toNat?
      pure (toString (countChunk (BitVec.ofNat 64 x) (UInt8.ofNat b)).toNat)
  | ["czb", v] => v.toNat?.map fun x => if containsZeroByte (BitVec.ofNat 64 x) then "1" else "0"
  | ["tneed", h] => (parseHex h).map fun d => toString (Spec.need d)
  | ["tlex", h] => (parseHex h).map fun d =>
      let r := sliceTokens d
      s!"{joinToks (r.toks.map showTok)} {showOutcome r.out} {r.final.position}"
  | ["tlexg", g, h] => do
      -- guard bytes behind the sub-slice are not part of the input: same answer as `tlex`
      let _ ← parseHex g
      let d ← parseHex h
      let r := sliceTokens d
      pure s!"{joinToks (r.toks.map showTok)} {showOutcome r.out} {r.final.position}"
  | ["tstream", c, s, h] => do
      let cap ← parseCap c
      let sched ← parseSched s
      let d ← parseHex h
      match recycledBuf c with
      | some buf =>
        -- recycled buffer: the reader over the concrete buffer with its stale contents
        if cap == 0 then none else
        let r := blexAll (fuelFor d + 2 * sched.length) (2 * d.length + 34) (BReader.ofBuffer buf sched d) []
        pure s!"{joinToks (r.toks.map showTok)} {showOutcome r.out} {r.final.prior + r.final.start} {r.final.src.delivered}"
      | none =>
        let r := lexAll (fuelFor d + 2 * sched.length) (2 * d.length + 34) (mkReader cap sched d) []
        pure s!"{joinToks (r.toks.map showTok)} {showOutcome r.out} {r.final.position} {delivered cap d r.final}"
  | ["tretry", c, s, h] => do
      let cap ← parseCap c
      let sched ← parseSched s
      let d ← parseHex h
      let (toks, out, r) := lexRetry (fuelFor d + 2 * sched.length) (2 * d.length + 50) 0 (mkReader cap sched d) []
      pure s!"{joinToks toks} {out} {r.position} {delivered cap d r}"
  | ["tread", c, s, h] => do
      let cap ← parseCap c
      let sched ← parseSched s
      let d ← parseHex h
      let (toks, out, r) := lexRead (fuelFor d + 2 * sched.length) (2 * d.length + 34) (mkReader cap sched d) []
      pure s!"{joinToks toks} {out} {r.position} {delivered cap d r}"
  | ["tskip", c, s, h, k] => do
      let cap ← parseCap c
      let sched ← parseSched s
      let d ← parseHex h
      let k ← k.toNat?
      match recycledBuf c with
      | some buf => if cap == 0 then none else pure (bdoSkip true buf sched d k)
      | none => pure (doSkip true cap sched d k)
  | ["tskipu", c, s, h, k] => do
      let cap ← parseCap c
      let sched ← parseSched s
      let d ← parseHex h
      let k ← k.toNat?
      match recycledBuf c with
      | some buf => if cap == 0 then none else pure (bdoSkip false buf sched d k)
      | none => pure (doSkip false cap sched d k)
  | ["tbytes", c, s, h, k, n] => do
      let cap ← parseCap c
      let sched ← parseSched s
      let d ← parseHex h
      let k ← k.toNat?
      let n ← n.toNat?
      pure (doBytes cap sched d k n)
  | _ => none

end Jomini.Driver.C07
