import JominiModel.Driver.Util
import JominiModel.Model.Scalar
namespace Jomini.Driver.C11
open Jomini Jomini.Driver Jomini.Scalar

def errStr : Err → String
  | .allDigits => "err:alldigits"
  | .overflow => "err:overflow"
  | .invalidBool => "err:bool"
  | .precisionLoss => "err:precision"

def handle : Handler
  | ["u64", h] => (parseHex h).map fun d =>
      match toU64 d with | .ok v => s!"ok {v}" | .error e => errStr e
  | ["i64", h] => (parseHex h).map fun d =>
      match toI64 d with | .ok v => s!"ok {v}" | .error e => errStr e
  | ["bool", h] => (parseHex h).map fun d =>
      match toBool d with | .ok v => s!"ok {v}" | .error e => errStr e
  | ["f64", h] => (parseHex h).map fun d =>
      match toF64 d with | .ok v => s!"ok {v}" | .error e => errStr e
  | _ => none

end Jomini.Driver.C11
