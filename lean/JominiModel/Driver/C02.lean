import JominiModel.Driver.Util
namespace Jomini.Driver.C02
open Jomini Jomini.Driver

/-- ops of property C02 (none yet). -/
def handle : Handler
  | _ => none

end Jomini.Driver.C02
