import JominiModel.Driver.Util
import JominiModel.Model.TextDe
import JominiModel.Spec.TextDoc
/-
ops of property C02 (harness/src/props/c02.rs):
  tde_tape   <enc> <ty> <tape>    …   (trailing replay / oracle arguments ignored)
  tde_stream <enc> <ty> <rtokens> …
-/
namespace Jomini.Driver.C02
open Jomini Jomini.Driver Jomini.TextDe Jomini.TextDoc

def ascii (b : Bytes) : String := String.ofList (b.map (fun x => Char.ofNat x.toNat))
def bytesOf (s : String) : Bytes := s.toUTF8.toList

def opName : Op → String
  | .eq => "eq" | .lt => "lt" | .le => "le" | .gt => "gt" | .ge => "ge" | .ne => "ne" | .exact => "exact" | .exst => "exists"

def parseOp : String → Option Op
  | "eq" => some .eq | "lt" => some .lt | "le" => some .le | "gt" => some .gt | "ge" => some .ge
  | "ne" => some .ne | "exact" => some .exact | "exists" => some .exst | _ => none

mutual
def renderVal : Val → String
  | .bool b => if b then "b1" else "b0"
  | .int i => s!"i{i}"
  | .uint n => s!"u{n}"
  | .f64 b => s!"f{b}"
  | .f32 b => s!"g{b}"
  | .str s => "s" ++ toHex s
  | .none => "none"
  | .some v => "some(" ++ renderVal v ++ ")"
  | .unit => "unit"
  | .ign => "ign"
  | .seq vs => "[" ++ ",".intercalate (renderList vs) ++ "]"
  | .map kvs => "{" ++ ",".intercalate (renderKvs kvs) ++ "}"
  | .st fs => "{" ++ ",".intercalate (renderFs fs) ++ "}"
  | .prop o v => "prop(" ++ opName o ++ "," ++ renderVal v ++ ")"
  | .en n => "en(" ++ toHex n ++ ")"
  | .tup vs => "(" ++ ",".intercalate (renderList vs) ++ ")"
def renderList : List Val → List String
  | [] => []
  | v :: vs => renderVal v :: renderList vs
def renderKvs : List (Val × Val) → List String
  | [] => []
  | (k, v) :: r => (renderVal k ++ "=" ++ renderVal v) :: renderKvs r
def renderFs : List (Bytes × Val) → List String
  | [] => []
  | (n, v) :: r => (ascii n ++ "=" ++ renderVal v) :: renderFs r
end

def renderR : R Val → String
  | .ok v => renderVal v
  | .error (.missing n) => "err:missing:" ++ ascii n
  | .error (.duplicate n) => "err:duplicate:" ++ ascii n
  | .error .type => "err:type"
  | .error .other => "err:other"
  | .error .panic => "panic"

def isIdent (c : Char) : Bool := c.isAlphanum || c == '_'

def stripPrefix (p : String) (cs : List Char) : Option (List Char) :=
  if p.toList.isPrefixOf cs then some (cs.drop p.length) else none

def leafKw : List (String × Ty) :=
  [("bool", .bool), ("i64", .i64), ("u64", .u64), ("i32", .i32), ("u32", .u32), ("i16", .i16), ("u16", .u16), ("i8", .i8), ("u8", .u8), ("f64", .f64), ("f32", .f32),
   ("str", .str), ("any", .any), ("ign", .ign)]

def splitOnChar (c : Char) (cs : List Char) : List (List Char) :=
  cs.foldr (fun x acc => if x == c then [] :: acc else match acc with | [] => [[x]] | h :: t => (x :: h) :: t) [[]]

mutual
/-- tyseed.rs `parse_ty_inner` -/
def parseTy : Nat → List Char → Option (Ty × List Char)
  | 0, _ => none
  | f + 1, cs =>
    match leafKw.findSome? (fun (kw, t) => (stripPrefix kw cs).bind (fun r =>
        match r with
        | c :: _ => if isIdent c || c == '(' then none else some (t, r)
        | [] => some (t, r))) with
    | some x => some x
    | none =>
      match stripPrefix "opt(" cs with
      | some r => (parseTy f r).bind (fun (t, r) => (stripPrefix ")" r).map (fun r => (.opt t, r)))
      | none =>
      match stripPrefix "seq(" cs with
      | some r => (parseTy f r).bind (fun (t, r) => (stripPrefix ")" r).map (fun r => (.seq t, r)))
      | none =>
      match stripPrefix "map(" cs with
      | some r => (parseTy f r).bind (fun (t, r) => (stripPrefix ")" r).map (fun r => (.map t, r)))
      | none =>
      match stripPrefix "prop(" cs with
      | some r => (parseTy f r).bind (fun (t, r) => (stripPrefix ")" r).map (fun r => (.prop t, r)))
      | none =>
      match stripPrefix "st(" cs with
      | some r => (parseFields f r).map (fun (fs, r) => (.st fs, r))
      | none =>
      match stripPrefix "en(" cs with
      | some r =>
        let body := r.takeWhile (· != ')')
        let rest := r.dropWhile (· != ')')
        (match rest with
         | _ :: rest' =>
           some (.en ((splitOnChar ';' body).filter (fun v => !v.isEmpty) |>.map (fun v => bytesOf (String.ofList v))), rest')
         | [] => none)
      | none =>
      match stripPrefix "tup(" cs with
      | some r => (parseTys f r).map (fun (ts, r) => (.tup ts, r))
      | none => none
def parseTys : Nat → List Char → Option (List Ty × List Char)
  | 0, _ => none
  | f + 1, cs =>
    match cs with
    | ')' :: r => some ([], r)
    | _ =>
      (parseTy f cs).bind (fun (t, r) =>
        let r := match r with | ';' :: r' => r' | _ => r
        (parseTys f r).map (fun (ts, r) => (t :: ts, r)))
def parseFields : Nat → List Char → Option (List (Bytes × Ty) × List Char)
  | 0, _ => none
  | f + 1, cs =>
    match cs with
    | ')' :: r => some ([], r)
    | _ =>
      let name := cs.takeWhile (· != ':')
      match cs.dropWhile (· != ':') with
      | _ :: r =>
        (parseTy f r).bind (fun (t, r) =>
          let r := match r with | ';' :: r' => r' | _ => r
          (parseFields f r).map (fun (fs, r) => ((bytesOf (String.ofList name), t) :: fs, r)))
      | [] => none
end

def parseTyStr (s : String) : Option Ty :=
  match parseTy (s.length + 2) s.toList with
  | some (t, []) => some t
  | _ => none

def parseEnc : String → Option Enc
  | "w1252" => some .w1252 | "utf8" => some .utf8 | _ => none

def splitComma (s : String) : List String := if s == "-" then [] else s.splitOn ","

def parseTTok (s : String) : Option TTok :=
  let cs := s.toList
  match cs with
  | ['M'] => some .mixedC
  | 'A' :: 'm' :: r => (String.ofList r).toNat?.map (fun n => .arr n true)
  | 'A' :: r => (String.ofList r).toNat?.map (fun n => .arr n false)
  | 'O' :: 'p' :: ':' :: r => (parseOp (String.ofList r)).map .op
  | 'O' :: 'm' :: r => (String.ofList r).toNat?.map (fun n => .obj n true)
  | 'O' :: r => (String.ofList r).toNat?.map (fun n => .obj n false)
  | 'E' :: r => (String.ofList r).toNat?.map .end_
  | 'U' :: ':' :: r => (parseHex (String.ofList r)).map .unq
  | 'Q' :: ':' :: r => (parseHex (String.ofList r)).map .quo
  | 'P' :: ':' :: r => (parseHex (String.ofList r)).map .param
  | 'N' :: ':' :: r => (parseHex (String.ofList r)).map .undef
  | 'H' :: ':' :: r => (parseHex (String.ofList r)).map .hdr
  | _ => none

def parseRTok (s : String) : Option RTok :=
  match s with
  | "Open" => some .open_
  | "Close" => some .close
  | "Err" => some .err
  | _ =>
    match s.toList with
    | 'O' :: 'p' :: ':' :: r => (parseOp (String.ofList r)).map .op
    | 'U' :: ':' :: r => (parseHex (String.ofList r)).map .unq
    | 'Q' :: ':' :: r => (parseHex (String.ofList r)).map .quo
    | _ => none

def showTTok : TTok → String
  | .arr e m => "A" ++ (if m then "m" else "") ++ toString e
  | .obj e m => "O" ++ (if m then "m" else "") ++ toString e
  | .mixedC => "M"
  | .unq s => "U:" ++ toHex s
  | .quo s => "Q:" ++ toHex s
  | .param s => "P:" ++ toHex s
  | .undef s => "N:" ++ toHex s
  | .op o => "Op:" ++ opName o
  | .end_ i => "E" ++ toString i
  | .hdr s => "H:" ++ toHex s

def showRTok : RTok → String
  | .open_ => "Open" | .close => "Close" | .op o => "Op:" ++ opName o
  | .unq s => "U:" ++ toHex s | .quo s => "Q:" ++ toHex s | .err => "Err"

def joinOrDash (l : List String) : String := if l.isEmpty then "-" else ",".intercalate l

def isHexCh (c : Char) : Bool := c.isDigit || ('a' ≤ c && c ≤ 'f') || c == '-'

mutual
/-- node := u<hex> | q<hex> | o[field;..] | a[node;..] | h<namehex>:node -/
def parseNode : Nat → List Char → Option (Node × List Char)
  | 0, _ => none
  | f + 1, cs =>
    match cs with
    | 'u' :: r => (parseHex (String.ofList (r.takeWhile isHexCh))).map (fun b => (.leaf ⟨b, false⟩, r.dropWhile isHexCh))
    | 'q' :: r => (parseHex (String.ofList (r.takeWhile isHexCh))).map (fun b => (.leaf ⟨b, true⟩, r.dropWhile isHexCh))
    | 'o' :: '[' :: r => (parseFieldsD f r).map (fun (fs, r) => (.obj fs, r))
    | 'a' :: '[' :: r => (parseNodes f r).map (fun (vs, r) => (.arr vs, r))
    | 'h' :: r =>
      (match r.dropWhile isHexCh with
       | ':' :: r2 =>
         (parseHex (String.ofList (r.takeWhile isHexCh))).bind (fun n =>
           (parseNode f r2).map (fun (b, r3) => (.hdr n b, r3)))
       | _ => none)
    | _ => none
def parseFieldsD : Nat → List Char → Option (List (Key × Op × Node) × List Char)
  | 0, _ => none
  | f + 1, cs =>
    match cs with
    | ']' :: r => some ([], r)
    | _ =>
      -- field := [+<ghosts>+][!][^]<keyhex>[*<trailing ghosts>*]~<op>~node   (! quoted key, ^ implicit `=`)
      let (ghosts, cs) := match cs with
        | '+' :: r => ((String.ofList (r.takeWhile Char.isDigit)).toNat?.getD 0, (r.dropWhile Char.isDigit).drop 1)
        | _ => (0, cs)
      let (quoted, cs) := match cs with | '!' :: r => (true, r) | _ => (false, cs)
      let (noEq, cs) := match cs with | '^' :: r => (true, r) | _ => (false, cs)
      let key := cs.takeWhile isHexCh
      let (trail, cs') := match cs.dropWhile isHexCh with
        | '*' :: r => ((String.ofList (r.takeWhile Char.isDigit)).toNat?.getD 0, (r.dropWhile Char.isDigit).drop 1)
        | r => (0, r)
      match cs' with
      | '~' :: r =>
        let opn := r.takeWhile (· != '~')
        (match r.dropWhile (· != '~') with
         | '~' :: r2 =>
           (parseHex (String.ofList key)).bind (fun k => (parseOp (String.ofList opn)).bind (fun o =>
             (parseNode f r2).bind (fun (v, r3) =>
               let r3 := match r3 with | ';' :: r' => r' | _ => r3
               (parseFieldsD f r3).map (fun (fs, r4) => ((⟨k, quoted, ghosts, noEq, trail⟩, o, v) :: fs, r4)))))
         | _ => none)
      | _ => none
def parseNodes : Nat → List Char → Option (List Node × List Char)
  | 0, _ => none
  | f + 1, cs =>
    match cs with
    | ']' :: r => some ([], r)
    | _ =>
      (parseNode f cs).bind (fun (v, r) =>
        let r := match r with | ';' :: r' => r' | _ => r
        (parseNodes f r).map (fun (vs, r2) => (v :: vs, r2)))
end

def parseDoc (s : String) : Option Doc :=
  match s.toList with
  | 'd' :: '[' :: r =>
    (match parseFieldsD (s.length + 2) r with
     | some (fs, []) => some fs
     | _ => none)
  | _ => none

def handle : Handler
  | "tde_tape" :: enc :: ty :: tape :: _ => do
    let enc ← parseEnc enc
    let ty ← parseTyStr ty
    let toks ← (splitComma tape).mapM parseTTok
    pure (renderR (deTape enc ty toks))
  | "tde_stream" :: enc :: ty :: rtoks :: _ => do
    let enc ← parseEnc enc
    let ty ← parseTyStr ty
    let toks ← (splitComma rtoks).mapM parseRTok
    pure (renderR (deStream enc ty toks))
  | ["tde_wft", tape, _] => do
    let toks ← (splitComma tape).mapM parseTTok
    pure (if WfT toks then "wf" else "not-wf")
  | ["spec_doc", enc, ty, doc, _] => do
    let enc ← parseEnc enc
    let ty ← parseTyStr ty
    let d ← parseDoc doc
    pure (renderR (valueOf enc ty d) ++ "|" ++ joinOrDash ((lexemes d).map showRTok) ++ "|" ++ joinOrDash ((tapeOf d).map showTTok))
  | _ => none

end Jomini.Driver.C02
