import JominiModel.Driver.Util
import JominiModel.Driver.C04
import JominiModel.Spec.BinDocText
/-
ops of property C10: `pair <ty> <bdoc> <texthex> <binhex>`: the six values the real code is
expected to produce = the text reference twice (`valueOfText`), then the three binary path
models on `tapeOf` / `tokensOf` of the document.  `x-c10-real` is implementation-only.
-/
namespace Jomini.Driver.C10
open Jomini Jomini.Driver Jomini.BinDe

/-- every pool key known, strategy Error (harness `shared_cfg`). -/
def keyPool : List String := ["a", "b", "name", "id", "core", "flags", "k17", "army", "unit", "x", "y", "type", "color", "date", "list", "zz_long_key_name"]

def sharedCfg : Cfg :=
  { strat := .error
    entries := (List.range keyPool.length).map (fun i => (0x2000 + 7 * i, strBytes (keyPool.getD i ""))) }

/-- key name of a field as the harness sees it (`key_field_name`). -/
def keyName (c : Cfg) : BLeaf → Option Bytes
  | .quoted b => some b | .unquoted b => some b
  | .id n => resolve c n
  | _ => none

mutual
/-- harness `touches_rgb`: does the request look into an rgb value? -/
partial def touchesRgb (c : Cfg) (t : Ty) (n : BNode) : Bool :=
  match t with
  | .ign => false
  | .opt i => touchesRgb c i n
  | _ =>
    match n with
    | .rgb _ => true
    | .leaf _ => false
    | .arr vs => match t with | .seq e => anyNode c e vs | _ => false
    | .obj fs => touchesFields c t fs
partial def anyNode (c : Cfg) (e : Ty) : BNodes → Bool
  | .nil => false
  | .cons v r => touchesRgb c e v || anyNode c e r
partial def touchesFields (c : Cfg) (t : Ty) : BFields → Bool
  | .nil => false
  | .cons _ k v r =>
    (match t with
     | .map vt => touchesRgb c vt v
     | .struct decl =>
       (match keyName c k with
        | some nm => (match decl.posName nm 0 with
          | some i => (match decl.get? i with | some (_, _, ft) => touchesRgb c ft v | none => false)
          | none => false)
        | none => false)
     | _ => false) || touchesFields c t r
end

def handle : Handler
  | ["pair", ty, bd, _, _] => do
    let t ← C04.parseRoot ty
    let d ← C04.parseBDoc bd
    let c := sharedCfg
    let txt := renderRes (valueOfText c t d)
    let hdr := match t with | .plain pt => touchesFields c pt d | _ => false
    let tape := match tapeOf d with | some tp => renderRes (deTape c t tp) | none => "err:parse"
    let od := renderRes (deOndemand c t (tokensOf d))
    let st := renderRes (deStream c t (tokensOf d))
    pure (String.intercalate "|" [txt, if hdr then "text-reader-header" else txt, tape, od, st, st])
  | ["tref", ty, bd, _] => do
    -- the text reference alone (against the real tape-based text deserializer): also untyped (`any`) requests,
    -- where the two formats legitimately differ and `pair` makes no claim
    let t ← C04.parseRoot ty
    let d ← C04.parseBDoc bd
    pure (renderRes (valueOfText sharedCfg t d))
  | _ => none

end Jomini.Driver.C10
