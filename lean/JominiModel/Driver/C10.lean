import JominiModel.Driver.Util
namespace Jomini.Driver.C10
open Jomini Jomini.Driver

/-- ops of property C10 (none yet). -/
def handle : Handler
  | _ => none

end Jomini.Driver.C10
