import JominiModel.Driver.Util
import JominiModel.Model.Date
/-
Driver ops of property C13 (date codecs and arithmetic).  One canonical line per request:
`ok …` / `none` (Option::None or Err(DateError)) / `panic`.

  dparse|dhparse|udparse|rawparse <hex>         text parsers of the four date types
  frombin|frombinh|dhfrombin|dhfrombinh|rawfrombin <i32>
  tobin y m d [h]                               Date / DateHour ::to_binary
  fmt y m d [h] | ufmt y m d                    typed game_fmt (Date, DateHour, UniformDate)
  iso y m d [h] | uiso y m d
  rawfmt short|wide|iso y m d h                 PdsDateFormatter on a RawDate
  adddays y m d n | until y m d y m d | cmp y m d y m d | dhcmp y m d h y m d h | rawcmp …
  dvisit|dhvisit|udvisit <kind> <arg>           serde visitor after deserialize_any (kind: i32 str string char i64 u64 …)
  dser y m d [h]                                Serialize (iso-8601 string)
  dfromstr|dhfromstr|udfromstr|rawfromstr <hex> FromStr
  fromymd|udfromymd y m d, dhfromymdh|rawfromymdh y m d h   the panicking constructors (`ok …` / `panic`)
  rawpds game|iso y m d h                       PdsDate for RawDate
  debug y m d [h] | uddebug y m d | rawdebug y m d h        Debug impls
  pcmp raw|date|datehour|uniform y m d h y m d h            partial_cmp
  dateerror                                     Display / source of DateError
  fdp <u64>                                     util::fast_digit_parse
  i64t <hex>                                    scalar::to_i64_t
  frombin-block <start> <count>                 FNV fold of Date/DateHour::from_binary over a range
  ymd-block full|ends <year> <count>            FNV fold of codecs over every day (month ends) of the years
  shape-block <hex>                             FNV fold of the parsers over all one-byte corruptions
  fdp-block <seed> <count>                      FNV fold of fast_digit_parse over pseudo-random words
-/
namespace Jomini.Driver.C13
open Jomini Jomini.Driver Jomini.Date

def showOut {α : Type} (f : α → String) : Out α → String
  | .ok a => "ok " ++ f a
  | .err => "none"
  | .panic => "panic"

def ymd (y : Int) (m d : Nat) : String := s!"{y} {m} {d}"
def ymdh (y : Int) (m d h : Nat) : String := s!"{y} {m} {d} {h}"

def showDate (d : Date.Date) : String := ymd d.year d.month d.day
def showDateHour (d : DateHour) : String := ymdh d.year d.month d.day d.hour
def showUniform (d : UniformDate) : String := ymd d.year d.month d.day
def showRaw (d : RawDate) : String := ymdh d.year d.month d.day d.hour
def showOrd : Ordering → String
  | .lt => "lt" | .eq => "eq" | .gt => "gt"

/-! block hashes (FNV-1a over 64-bit codes; the harness computes the same fold) -/

def fnvOffset : UInt64 := 0xcbf29ce484222325
@[inline] def mix (h c : UInt64) : UInt64 := (h ^^^ c) * 0x100000001b3

def codeYmdh (y : Int) (m d h : Nat) : UInt64 :=
  UInt64.ofNat ((y + 32768).toNat * 16777216 + m * 65536 + d * 256 + h + 2)

def codeDate : Out Date.Date → UInt64
  | .ok d => codeYmdh d.year d.month d.day 0
  | .err => 0
  | .panic => 1
def codeDateHour : Out DateHour → UInt64
  | .ok d => codeYmdh d.year d.month d.day d.hour
  | .err => 0
  | .panic => 1
def codeUniform : Out UniformDate → UInt64
  | .ok d => codeYmdh d.year d.month d.day 0
  | .err => 0
  | .panic => 1
def codeRaw : Out RawDate → UInt64
  | .ok d => codeYmdh d.year d.month d.day d.hour
  | .err => 0
  | .panic => 1
def codeInt : Out Int → UInt64
  | .ok v => UInt64.ofNat ((v + 4294967296).toNat + 2)
  | .err => 0
  | .panic => 1
def codeBytes : Out Bytes → UInt64
  | .ok b => b.foldl (fun h x => mix h x.toUInt64) fnvOffset
  | .err => 0
  | .panic => 1

/-- fold of `Date::from_binary s`, `DateHour::from_binary s` for `n` consecutive values. -/
def frombinChunk : Nat → Int → UInt64 → UInt64
  | 0, _, h => h
  | n + 1, s, h =>
    let h := mix h (codeDate (Date.fromBinary s))
    let h := mix h (codeDateHour (DateHour.fromBinary s))
    frombinChunk n (s + 1) h

def chunkSize : Nat := 65536

/-- chunk list `(start, len)` covering `[start, start+count)` in pieces of `chunkSize`. -/
def chunks : Nat → Int → Nat → List (Int × Nat)
  | 0, _, _ => []
  | fuel + 1, start, count =>
    if count = 0 then []
    else
      let n := min chunkSize count
      (start, n) :: chunks fuel (start + n) (count - n)

def foldTasks (ts : List (Task UInt64)) : UInt64 :=
  ts.foldl (fun h t => mix h t.get) fnvOffset

def frombinBlock (start : Int) (count : Nat) : UInt64 :=
  let cs := chunks (count / chunkSize + 2) start count
  foldTasks (cs.map fun (s, n) => Task.spawn fun _ => frombinChunk n s fnvOffset)

/-- everything the property says about one calendar day, folded into the hash. -/
def dayCodes (full : Bool) (y : Int) (m d : Nat) (idx : Nat) (h : UInt64) : UInt64 :=
  let od := Date.fromYmdOpt y m d
  let fmtShort := od.bind Date.gameFmt
  let h := mix h (codeBytes fmtShort)
  let h := mix h (codeDate (fmtShort.bind Date.parse))
  let raw := RawDate.fromYmdhOpt y m d 0
  let fmtWide := raw.bind (format · .dotWide)
  let h := mix h (codeBytes fmtWide)
  let h := mix h (codeDate (fmtWide.bind Date.parse))
  let h := mix h (codeUniform (fmtWide.bind UniformDate.parse))
  let h := mix h (codeRaw (fmtShort.bind RawDate.parse))
  let h := mix h (codeBytes (od.bind Date.iso8601))
  let bin := od.bind Date.toBinary
  let h := mix h (codeInt bin)
  let h := mix h (codeDate (bin.bind Date.fromBinary))
  -- DateHour: binary codec for all 24 hours, text codec for two of them
  let h := (List.range (if full then 24 else 0)).foldl (fun h k =>
    let dh := DateHour.fromYmdhOpt y m d (k + 1)
    let b := dh.bind DateHour.toBinary
    mix (mix h (codeInt b)) (codeDateHour (b.bind DateHour.fromBinary))) h
  let hrs := [idx % 24 + 1, (idx * 7 + 11) % 24 + 1]
  hrs.foldl (fun h k =>
    let dh := DateHour.fromYmdhOpt y m d k
    let f := dh.bind DateHour.gameFmt
    let fw := (RawDate.fromYmdhOpt y m d k).bind (format · .dotWide)
    let h := mix h (codeBytes f)
    let h := mix h (codeDateHour (f.bind DateHour.parse))
    let h := mix h (codeDateHour (fw.bind DateHour.parse))
    mix h (codeBytes (dh.bind DateHour.iso8601))) h

/-- `full = true`: every day of the year; `false`: first and last day of each month. -/
def yearCodes (full : Bool) (y : Int) : UInt64 :=
  let days : List (Nat × Nat) :=
    (List.range 12).flatMap fun m =>
      let n := daysPerMonth.getD (m + 1) 0
      if full then (List.range n).map fun d => (m + 1, d + 1) else [(m + 1, 1), (m + 1, n)]
  let (h, _) := days.foldl (fun (h, idx) (m, d) => (dayCodes full y m d idx h, idx + 1)) (fnvOffset, 0)
  h

def ymdBlock (full : Bool) (year : Int) (count : Nat) : UInt64 :=
  foldTasks ((List.range count).map fun (k : Nat) => Task.spawn fun _ => yearCodes full (year + (k : Int)))

/-- fold of the four text parsers over every one-byte corruption of `base`: all 256 values at
every position for `Date::parse`, a 12-symbol alphabet for the other three. -/
def shapeBlock (base : Bytes) : UInt64 :=
  let alpha : List UInt8 := [48, 49, 50, 57, 46, 47, 58, 45, 43, 32, 0, 255]
  (List.range base.length).foldl (fun h pos =>
    let h := (List.range 256).foldl (fun h v =>
      mix h (codeDate (Date.parse (base.set pos (UInt8.ofNat v))))) h
    alpha.foldl (fun h v =>
      let t := base.set pos v
      mix (mix (mix h (codeDateHour (DateHour.parse t))) (codeUniform (UniformDate.parse t))) (codeRaw (RawDate.parse t))) h) fnvOffset

def splitmix (s : UInt64) : UInt64 × UInt64 :=
  let s := s + 0x9E3779B97F4A7C15
  let z := s
  let z := (z ^^^ (z >>> 30)) * 0xBF58476D1CE4E5B9
  let z := (z ^^^ (z >>> 27)) * 0x94D049BB133111EB
  (s, z ^^^ (z >>> 31))

/-- eight ASCII digits drawn from the bytes of `r` -/
def digitWord (r : UInt64) : UInt64 :=
  (List.range 8).foldl (fun (w : UInt64) (i : Nat) =>
    let sh : UInt64 := 8 * i.toUInt64
    w ||| (((48 : UInt64) + ((r >>> sh) &&& 0xFF) % 10) <<< sh)) 0

def setByte (w : UInt64) (pos : UInt64) (v : UInt64) : UInt64 :=
  (w &&& ~~~((0xFF : UInt64) <<< (8 * pos))) ||| (v <<< (8 * pos))

/-- fold of `fast_digit_parse` over `n` pseudo-random words (random / all digits / one byte off) -/
def fdpBlock : Nat → UInt64 → UInt64 → UInt64
  | 0, _, h => h
  | n + 1, st, h =>
    let (st, r0) := splitmix st
    let (st, r1) := splitmix st
    let (st, r2) := splitmix st
    let w :=
      match r0 % 4 with
      | 0 => r1
      | 1 => digitWord r1
      | 2 => setByte (digitWord r1) (r2 % 8) ((r2 >>> 8) &&& 0xFF)
      | _ => setByte (digitWord r1) (r2 % 8) (if (r2 >>> 8) % 2 == 0 then 0x2f else 0x3a)
    let c := match fastDigitParse (BitVec.ofNat 64 w.toNat) with
      | some v => UInt64.ofNat v.toNat + 1
      | none => 0
    fdpBlock n st (mix h c)

def fmtOf : String → Option DateFormat
  | "short" => some .dotShort
  | "wide" => some .dotWide
  | "iso" => some .iso8601
  | _ => none

/-- `<kind> <arg>` of the visit ops: which `visit_*` the value deserializer calls -/
def leafOf (kind arg : String) : Option LeafToken :=
  match kind with
  | "i32" => (parseInt? arg).map LeafToken.i32
  | "str" | "string" | "char" => (parseHex arg).map LeafToken.str
  | "i8" | "i16" | "i64" | "u8" | "u16" | "u32" | "u64" | "f64" | "bool" | "unit" | "bytes" => some .other
  | _ => none

def handle : Handler
  | ["dparse", h] => (parseHex h).map fun s => showOut showDate (Date.parse s)
  | ["dhparse", h] => (parseHex h).map fun s => showOut showDateHour (DateHour.parse s)
  | ["udparse", h] => (parseHex h).map fun s => showOut showUniform (UniformDate.parse s)
  | ["rawparse", h] => (parseHex h).map fun s => showOut showRaw (RawDate.parse s)
  | ["frombin", s] => (parseInt? s).map fun s => showOut showDate (Date.fromBinary s)
  | ["frombinh", s] => (parseInt? s).map fun s => showOut showDate (Date.fromBinaryHeuristic s)
  | ["dhfrombin", s] => (parseInt? s).map fun s => showOut showDateHour (DateHour.fromBinary s)
  | ["dhfrombinh", s] => (parseInt? s).map fun s => showOut showDateHour (DateHour.fromBinaryHeuristic s)
  | ["rawfrombin", s] => (parseInt? s).map fun s => showOut showRaw (RawDate.fromBinary s)
  | ["tobin", y, m, d] => do
    let y ← parseInt? y; let m ← parseNat? m; let d ← parseNat? d
    pure (showOut toString ((Date.fromYmdOpt y m d).bind Date.toBinary))
  | ["tobin", y, m, d, h] => do
    let y ← parseInt? y; let m ← parseNat? m; let d ← parseNat? d; let h ← parseNat? h
    pure (showOut toString ((DateHour.fromYmdhOpt y m d h).bind DateHour.toBinary))
  | ["fmt", y, m, d] => do
    let y ← parseInt? y; let m ← parseNat? m; let d ← parseNat? d
    pure (showOut toHex ((Date.fromYmdOpt y m d).bind Date.gameFmt))
  | ["fmt", y, m, d, h] => do
    let y ← parseInt? y; let m ← parseNat? m; let d ← parseNat? d; let h ← parseNat? h
    pure (showOut toHex ((DateHour.fromYmdhOpt y m d h).bind DateHour.gameFmt))
  | ["ufmt", y, m, d] => do
    let y ← parseInt? y; let m ← parseNat? m; let d ← parseNat? d
    pure (showOut toHex ((UniformDate.fromYmdOpt y m d).bind UniformDate.gameFmt))
  | ["iso", y, m, d] => do
    let y ← parseInt? y; let m ← parseNat? m; let d ← parseNat? d
    pure (showOut toHex ((Date.fromYmdOpt y m d).bind Date.iso8601))
  | ["iso", y, m, d, h] => do
    let y ← parseInt? y; let m ← parseNat? m; let d ← parseNat? d; let h ← parseNat? h
    pure (showOut toHex ((DateHour.fromYmdhOpt y m d h).bind DateHour.iso8601))
  | ["uiso", y, m, d] => do
    let y ← parseInt? y; let m ← parseNat? m; let d ← parseNat? d
    pure (showOut toHex ((UniformDate.fromYmdOpt y m d).bind UniformDate.iso8601))
  | ["rawfmt", f, y, m, d, h] => do
    let f ← fmtOf f
    let y ← parseInt? y; let m ← parseNat? m; let d ← parseNat? d; let h ← parseNat? h
    pure (showOut toHex ((RawDate.fromYmdhOpt y m d h).bind (format · f)))
  | ["adddays", y, m, d, n] => do
    let y ← parseInt? y; let m ← parseNat? m; let d ← parseNat? d; let n ← parseInt? n
    pure (showOut showDate ((Date.fromYmdOpt y m d).bind (Date.addDays · n)))
  | ["until", y1, m1, d1, y2, m2, d2] => do
    let y1 ← parseInt? y1; let m1 ← parseNat? m1; let d1 ← parseNat? d1
    let y2 ← parseInt? y2; let m2 ← parseNat? m2; let d2 ← parseNat? d2
    pure (showOut toString
      ((Date.fromYmdOpt y1 m1 d1).bind fun a => (Date.fromYmdOpt y2 m2 d2).bind fun b => a.daysUntil b))
  | ["cmp", y1, m1, d1, y2, m2, d2] => do
    let y1 ← parseInt? y1; let m1 ← parseNat? m1; let d1 ← parseNat? d1
    let y2 ← parseInt? y2; let m2 ← parseNat? m2; let d2 ← parseNat? d2
    pure (showOut showOrd
      ((Date.fromYmdOpt y1 m1 d1).bind fun a => (Date.fromYmdOpt y2 m2 d2).bind fun b => .ok (a.cmp b)))
  | ["dhcmp", y1, m1, d1, h1, y2, m2, d2, h2] => do
    let y1 ← parseInt? y1; let m1 ← parseNat? m1; let d1 ← parseNat? d1; let h1 ← parseNat? h1
    let y2 ← parseInt? y2; let m2 ← parseNat? m2; let d2 ← parseNat? d2; let h2 ← parseNat? h2
    pure (showOut showOrd
      ((DateHour.fromYmdhOpt y1 m1 d1 h1).bind fun a =>
        (DateHour.fromYmdhOpt y2 m2 d2 h2).bind fun b => .ok (a.cmp b)))
  | ["udcmp", y1, m1, d1, y2, m2, d2] => do
    let y1 ← parseInt? y1; let m1 ← parseNat? m1; let d1 ← parseNat? d1
    let y2 ← parseInt? y2; let m2 ← parseNat? m2; let d2 ← parseNat? d2
    pure (showOut showOrd
      ((UniformDate.fromYmdOpt y1 m1 d1).bind fun a => (UniformDate.fromYmdOpt y2 m2 d2).bind fun b => .ok (a.cmp b)))
  | ["rawcmp", y1, m1, d1, h1, y2, m2, d2, h2] => do
    let y1 ← parseInt? y1; let m1 ← parseNat? m1; let d1 ← parseNat? d1; let h1 ← parseNat? h1
    let y2 ← parseInt? y2; let m2 ← parseNat? m2; let d2 ← parseNat? d2; let h2 ← parseNat? h2
    pure (showOut showOrd
      ((RawDate.fromYmdhOpt y1 m1 d1 h1).bind fun a =>
        (RawDate.fromYmdhOpt y2 m2 d2 h2).bind fun b => .ok (a.cmp b)))
  | ["dvisit", kind, arg] => (leafOf kind arg).map fun t => showOut showDate (Date.visit t)
  | ["dhvisit", kind, arg] => (leafOf kind arg).map fun t => showOut showDateHour (DateHour.visit t)
  | ["udvisit", kind, arg] => (leafOf kind arg).map fun t => showOut showUniform (UniformDate.visit t)
  | ["dser", y, m, d] => do
    let y ← parseInt? y; let m ← parseNat? m; let d ← parseNat? d
    pure (showOut toHex ((Date.fromYmdOpt y m d).bind Date.serialize))
  | ["dser", y, m, d, h] => do
    let y ← parseInt? y; let m ← parseNat? m; let d ← parseNat? d; let h ← parseNat? h
    pure (showOut toHex ((DateHour.fromYmdhOpt y m d h).bind DateHour.serialize))
  | ["dfromstr", h] => (parseHex h).map fun s => showOut showDate (Date.fromStr s)
  | ["dhfromstr", h] => (parseHex h).map fun s => showOut showDateHour (DateHour.fromStr s)
  | ["udfromstr", h] => (parseHex h).map fun s => showOut showUniform (UniformDate.fromStr s)
  | ["rawfromstr", h] => (parseHex h).map fun s => showOut showRaw (RawDate.fromStr s)
  | ["fromymd", y, m, d] => do
    let y ← parseInt? y; let m ← parseNat? m; let d ← parseNat? d
    pure (showOut showDate (Date.fromYmd y m d))
  | ["udfromymd", y, m, d] => do
    let y ← parseInt? y; let m ← parseNat? m; let d ← parseNat? d
    pure (showOut showUniform (UniformDate.fromYmd y m d))
  | ["dhfromymdh", y, m, d, h] => do
    let y ← parseInt? y; let m ← parseNat? m; let d ← parseNat? d; let h ← parseNat? h
    pure (showOut showDateHour (DateHour.fromYmdh y m d h))
  | ["rawfromymdh", y, m, d, h] => do
    let y ← parseInt? y; let m ← parseNat? m; let d ← parseNat? d; let h ← parseNat? h
    pure (showOut showRaw (RawDate.fromYmdh y m d h))
  | ["rawpds", f, y, m, d, h] => do
    let y ← parseInt? y; let m ← parseNat? m; let d ← parseNat? d; let h ← parseNat? h
    let r := RawDate.fromYmdhOpt y m d h
    match f with
    | "game" => pure (showOut toHex (r.bind RawDate.gameFmt))
    | "iso" => pure (showOut toHex (r.bind RawDate.iso8601))
    | _ => none
  | ["debug", y, m, d] => do
    let y ← parseInt? y; let m ← parseNat? m; let d ← parseNat? d
    pure (showOut toHex ((Date.fromYmdOpt y m d).bind Date.debugFmt))
  | ["debug", y, m, d, h] => do
    let y ← parseInt? y; let m ← parseNat? m; let d ← parseNat? d; let h ← parseNat? h
    pure (showOut toHex ((DateHour.fromYmdhOpt y m d h).bind DateHour.debugFmt))
  | ["uddebug", y, m, d] => do
    let y ← parseInt? y; let m ← parseNat? m; let d ← parseNat? d
    pure (showOut toHex ((UniformDate.fromYmdOpt y m d).bind UniformDate.debugFmt))
  | ["rawdebug", y, m, d, h] => do
    let y ← parseInt? y; let m ← parseNat? m; let d ← parseNat? d; let h ← parseNat? h
    pure (showOut toHex ((RawDate.fromYmdhOpt y m d h).map RawDate.debugFmt))
  | ["pcmp", ty, y1, m1, d1, h1, y2, m2, d2, h2] => do
    -- partial_cmp of the four types (ty: raw date datehour uniform); hours are ignored for date/uniform
    let y1 ← parseInt? y1; let m1 ← parseNat? m1; let d1 ← parseNat? d1; let h1 ← parseNat? h1
    let y2 ← parseInt? y2; let m2 ← parseNat? m2; let d2 ← parseNat? d2; let h2 ← parseNat? h2
    let pc (a b : Out RawDate) : String :=
      showOut (fun o => match o with | some o => (showOrd o) | none => "incomparable")
        (a.bind fun a => b.bind fun b => .ok (RawDate.partialCmp a b))
    match ty with
    | "raw" => pure (pc (RawDate.fromYmdhOpt y1 m1 d1 h1) (RawDate.fromYmdhOpt y2 m2 d2 h2))
    | "date" => pure (pc ((Date.fromYmdOpt y1 m1 d1).map (·.raw)) ((Date.fromYmdOpt y2 m2 d2).map (·.raw)))
    | "datehour" => pure (pc ((DateHour.fromYmdhOpt y1 m1 d1 h1).map (·.raw)) ((DateHour.fromYmdhOpt y2 m2 d2 h2).map (·.raw)))
    | "uniform" => pure (pc ((UniformDate.fromYmdOpt y1 m1 d1).map (·.raw)) ((UniformDate.fromYmdOpt y2 m2 d2).map (·.raw)))
    | _ => none
  | ["dateerror"] => some s!"ok {toHex dateErrorText} nosource"
  | ["fdp", v] => (parseNat? v).map fun v =>
      match fastDigitParse (BitVec.ofNat 64 v) with
      | some r => s!"ok {r.toNat}"
      | none => "none"
  | ["i64t", h] => (parseHex h).map fun s =>
      match Scalar.toI64T s with
      | .ok (v, rest) => s!"ok {v} {toHex rest}"
      | .error _ => "none"
  | ["frombin-block", s, n] => do
    let s ← parseInt? s; let n ← parseNat? n
    pure s!"ok {(frombinBlock s n).toNat}"
  | ["ymd-block", mode, y, n] => do
    let y ← parseInt? y; let n ← parseNat? n
    let full ← (match mode with | "full" => some true | "ends" => some false | _ => none)
    pure s!"ok {(ymdBlock full y n).toNat}"
  | ["shape-block", h] => (parseHex h).map fun s => s!"ok {(shapeBlock s).toNat}"
  | ["fdp-block", seed, n] => do
    let seed ← parseNat? seed; let n ← parseNat? n
    pure s!"ok {(fdpBlock n (UInt64.ofNat seed) fnvOffset).toNat}"
  | _ => none

end Jomini.Driver.C13
