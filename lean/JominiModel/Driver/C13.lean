import JominiModel.Driver.Util
namespace Jomini.Driver.C13
open Jomini Jomini.Driver

/-- ops of property C13 (none yet). -/
def handle : Handler
  | _ => none

end Jomini.Driver.C13
