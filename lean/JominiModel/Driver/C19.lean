import JominiModel.Driver.Util
namespace Jomini.Driver.C19
open Jomini Jomini.Driver

/-- ops of property C19 (none yet). -/
def handle : Handler
  | _ => none

end Jomini.Driver.C19
