import JominiModel.Driver.Util
import JominiModel.Model.Writer
import JominiModel.Model.WriterSink
/-
ops of property C15 (call-token syntax: harness/src/props/c15.rs):
  wcalls <indent_char> <indent_factor> <call>…
    -> `<output hex> <obs after every call> st:<mode>/<depth stack>/<state>/<nlt>/<mixed>`
-/
namespace Jomini.Driver.C15
open Jomini Jomini.Driver Jomini.Writer

def parseOp : String → Option Op
  | "lt" => some .lt | "le" => some .le | "gt" => some .gt | "ge" => some .ge
  | "ne" => some .ne | "exact" => some .exact | "eq" => some .eq | "exists" => some .exists
  | _ => none

def parseRgb (s : String) : Option Rgb :=
  match s.splitOn "." with
  | [r, g, b] => do pure { r := ← r.toNat?, g := ← g.toNat?, b := ← b.toNat?, a := none }
  | [r, g, b, a] => do pure { r := ← r.toNat?, g := ← g.toNat?, b := ← b.toNat?, a := some (← a.toNat?) }
  | _ => none

def parseBool : String → Option Bool
  | "0" => some false | "1" => some true | _ => none

/-- `A<n>` / `O<n>` / `E<n>` -/
def parseContainerTok (s : String) : Option BinTok :=
  match s.toList with
  | 'A' :: rest => (String.ofList rest).toNat?.map fun _ => .array
  | 'O' :: rest => (String.ofList rest).toNat?.map fun _ => .object
  | 'E' :: rest => (String.ofList rest).toNat?.map fun _ => .end
  | _ => none

def parseBinTok : List String → Option BinTok
  | ["M"] => some .mixedContainer
  | ["Eq"] => some .equal
  | ["B", b] => (parseBool b).map .bool
  | ["U32", n] => n.toNat?.map .u32
  | ["U64", n] => n.toNat?.map .u64
  | ["I64", n] => n.toInt?.map .i64
  | ["I32", n] => n.toInt?.map .i32
  | ["Q", h] => (parseHex h).map .quoted
  | ["U", h] => (parseHex h).map .unquoted
  | ["F32", _, t] => (parseHex t).map .f32
  | ["F64", _, t] => (parseHex t).map .f64
  | ["T", n] => n.toNat?.map .token
  | ["Rgb", c] => (parseRgb c).map .rgb
  | [c] => parseContainerTok c
  | _ => none

def parseDateFormat : String → Option DateFormat
  | "s" => some .dotShort | "w" => some .dotWide | "i" => some .iso8601 | _ => none

def parseCall (s : String) : Option Call :=
  match s.splitOn ":" with
  | ["s"] => some .start
  | ["os"] => some .objectStart
  | ["as"] => some .arrayStart
  | ["e"] => some .end
  | ["mm"] => some .mixedMode
  | ["u", h] => (parseHex h).map .unquoted
  | ["q", h] => (parseHex h).map .quoted
  | ["h", h] => (parseHex h).map .header
  | ["op", o] => (parseOp o).map .operator
  | ["b", b] => (parseBool b).map .bool
  | ["i32", n] => n.toInt?.map .i32
  | ["u32", n] => n.toNat?.map .u32
  | ["i", n] => n.toInt?.map .i64
  | ["n", n] => n.toNat?.map .u64
  | ["f32", _, t] => (parseHex t).map .fmt
  | ["f64", _, t] => (parseHex t).map .fmt
  | ["f32p", _, _, t] => (parseHex t).map .fmt
  | ["f64p", _, _, t] => (parseHex t).map .fmt
  | ["d", f, ymdh] =>
    match ymdh.splitOn "." with
    | [y, m, d, h] => do
      pure (.date (← parseDateFormat f) (← y.toInt?) (← m.toNat?) (← d.toNat?) (← h.toNat?))
    | _ => none
  | ["rgb", c] => (parseRgb c).map .rgb
  | "bt" :: rest => (parseBinTok rest).map .binary
  | _ => none

def b01 (b : Bool) : String := if b then "1" else "0"

def errStr : WErr → String
  | .stackEmpty => "err:stackempty"
  | .panic => "panic"
  | .fuel => "err:fuel"
  | .io => "err:io"

def obsStr : Except WErr Obs → String
  | .ok o => s!"{o.depth}/{b01 o.expectingKey}{b01 o.atArrayValue}{b01 o.atUnknownStart}"
  | .error e => errStr e

def modeChar : DepthMode → Char
  | .object => 'O' | .array => 'A'

def stateName : WriteState → String
  | .error => "Error" | .key => "Key" | .objectValue => "ObjectValue"
  | .keyValueSeparator => "KeyValueSeparator" | .arrayValue => "ArrayValue"
  | .arrayValueFirst => "ArrayValueFirst" | .firstKey => "FirstKey"
  | .firstUnknown => "FirstUnknown" | .secondUnknown => "SecondUnknown"

def mixedName : MixedMode → String
  | .disabled => "Disabled" | .started => "Started" | .keyed => "Keyed"

def stStr (s : State) : String :=
  let stack := if s.depth.isEmpty then "-" else String.ofList (s.depth.reverse.map modeChar)
  s!"st:{modeChar s.mode}/{stack}/{stateName s.state}/{b01 s.needsLineTerminator}/{mixedName s.mixedMode}"

def handle : Handler
  | "wcalls" :: c :: f :: rest => do
    let ic ← c.toNat?
    let fac ← f.toNat?
    let calls ← rest.mapM parseCall
    let r := run calls (State.init (UInt8.ofNat ic) fac)
    let obs := r.2.map obsStr
    pure (String.intercalate " " ([toHex r.1.out] ++ obs ++ [stStr r.1]))
  | "wcallsw" :: c :: f :: cap :: rest => do
    let ic ← c.toNat?
    let fac ← f.toNat?
    let cp ← cap.toNat?
    let calls ← rest.mapM parseCall
    let r := runSink cp calls (State.init (UInt8.ofNat ic) fac)
    let obs := r.2.map obsStr
    pure (String.intercalate " " ([toHex r.1.out] ++ obs ++ [stStr r.1]))
  | _ => none

end Jomini.Driver.C15
