import JominiModel.Driver.Util
namespace Jomini.Driver.C15
open Jomini Jomini.Driver

/-- ops of property C15 (none yet). -/
def handle : Handler
  | _ => none

end Jomini.Driver.C15
