import JominiModel.Driver.Util
namespace Jomini.Driver.C08
open Jomini Jomini.Driver

/-- ops of property C08 (none yet). -/
def handle : Handler
  | _ => none

end Jomini.Driver.C08
