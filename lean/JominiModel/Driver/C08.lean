import JominiModel.Driver.Util
import JominiModel.Model.BinLexer
import JominiModel.Model.BinReader
import JominiModel.Spec.BinReader
/-
ops of the binary byte→token layer (C08, and the binary clauses of C09 / C19 / C20):

  blex <hex>                         next_token until end/error: `<toks> <outcome> <pos>`
  bcut <hex> <k>                     blex of the first k bytes
  blexbytes <hex> <n,n,..>           Lexer::read_bytes calls, then the next token
  bparts <cap> <sched> <hex> <k>     k tokens, into_parts, re-wrap buffer + source in a new reader, stream the rest
  bfits <cap> <hex>                  the hypothesis `Fits cap data` of the streaming theorems (executable form)
  blexid <hex>                       the same through next_id + read_* primitives
  bpeek <hex>                        `<peek_id|none> <peek_token|none>`
  bwritefail <toks> <k>              Token::write into a writer that fails after k bytes: `<bytes written> <ok|err:io>`
  bwrite <toks>                      Token::write of every token: hex
  bstream <cap> <sched> <hex>        TokenReader.next until end/error: `<toks> <outcome> <pos> <delivered>`
  bread <cap> <sched> <hex>          the same through `read()` (always ends in an error)
  bcalls <cap> <sched> <hex> <n>     n successive next() calls, continuing after errors
  breadbytes <cap> <sched> <hex> <n,n,..>   read_bytes calls
  bskip <cap> <sched> <hex> <k>      reader: tokens up to and including the k-th Open, skip_container, next token
  bskipretry <cap> <sched> <hex> <k>  like bskip, but skip_container is called again after each I/O error
  blexskip <hex> <k>                 lexer: the same with skip_value(OPEN)
  blexskipv <hex> <k>                lexer: k tokens, read_id, skip_value(id), next token
  bufops <cap> <sched> <hex> <ops>   BufferWindow directly: ops `f` (fill_buf) / `a<n>` (advance n)

<cap> = n (fresh zeroed buffer) | r<n> (recycled buffer full of 0xaa) | S (from_slice)
-/
namespace Jomini.Driver.C08
open Jomini Jomini.Driver Jomini.BinLexer Jomini.BinReader

def showRgb (c : Rgb) : String :=
  match c.a with
  | some a => s!"Rgb:{c.r}.{c.g}.{c.b}.{a}"
  | none => s!"Rgb:{c.r}.{c.g}.{c.b}"

/-- show.rs `bin_lex_tok` -/
def showTok : Token → String
  | .open => "Open"
  | .close => "Close"
  | .equal => "Equal"
  | .u32 v => s!"U32:{v}"
  | .u64 v => s!"U64:{v}"
  | .i32 v => s!"I32:{v}"
  | .bool b => if b then "Bool:1" else "Bool:0"
  | .quoted s => s!"Q:{toHex s}"
  | .unquoted s => s!"U:{toHex s}"
  | .f32 b => s!"F32:{toHex b}"
  | .f64 b => s!"F64:{toHex b}"
  | .rgb c => showRgb c
  | .i64 v => s!"I64:{v}"
  | .id v => s!"Id:{v}"

def showToks (ts : List Token) : String :=
  if ts.isEmpty then "-" else ",".intercalate (ts.map showTok)

def showLexErr : LexErr → String
  | .eof => "err:eof"
  | .invalidRgb => "err:invalidrgb"

def showTerminal : Terminal → String
  | .done => "end"
  | .err e => showLexErr e

def showKind : RErrKind → String
  | .read => "err:io"
  | .bufferFull => "err:bufferfull"
  | .lexer e => showLexErr e
  | .ub => "panic"
  | .fuel => "model-out-of-fuel"

def showStreamEnd : StreamEnd → String
  | .done => "end"
  | .err k => showKind k

/-! parsing -/

def parseStep (s : String) : Option Step :=
  if s == "F" then some .fail
  else if s == "P" then some .failForever
  else if s.startsWith "R" then
    match (s.drop 1).toNat? with
    | some n => if n ≥ 1 then some (.repeat n) else none
    | none => none
  else
    match s.toNat? with
    | some n => if n ≥ 1 then some (.give n) else none
    | none => none

def parseSched (s : String) : Option (List Step) :=
  if s == "-" then some [] else (s.splitOn ",").mapM parseStep

/-- reader construction from the `<cap>` word -/
def mkReader (capw : String) (sched : List Step) (data : Bytes) : Option Reader :=
  if capw == "S" then some (Reader.fromSlice data)
  else if capw.startsWith "r" then
    (capw.drop 1).toNat?.map fun n => Reader.build (List.replicate n 0xaa) (Src.new data sched)
  else capw.toNat?.map fun n => Reader.ofLen n (Src.new data sched)

def parseNats (s : String) : Option (List Nat) :=
  if s == "-" then some [] else (s.splitOn ",").mapM (·.toNat?)

def parseTok (s : String) : Option Token :=
  match s.splitOn ":" with
  | ["Open"] => some .open
  | ["Close"] => some .close
  | ["Equal"] => some .equal
  | ["U32", v] => v.toNat?.map .u32
  | ["U64", v] => v.toNat?.map .u64
  | ["I32", v] => v.toInt?.map .i32
  | ["I64", v] => v.toInt?.map .i64
  | ["Bool", v] => if v == "1" then some (.bool true) else if v == "0" then some (.bool false) else none
  | ["Q", h] => (parseHex h).map .quoted
  | ["U", h] => (parseHex h).map .unquoted
  | ["F32", h] => (parseHex h).map .f32
  | ["F64", h] => (parseHex h).map .f64
  | ["Id", v] => v.toNat?.map .id
  | ["Rgb", v] =>
    match (v.splitOn ".").mapM (·.toNat?) with
    | some [r, g, b] => some (.rgb { r := r, g := g, b := b, a := none })
    | some [r, g, b, a] => some (.rgb { r := r, g := g, b := b, a := some a })
    | _ => none
  | _ => none

def parseToks (s : String) : Option (List Token) :=
  if s == "-" then some [] else (s.splitOn ",").mapM parseTok

/-! op bodies -/

/-- lexer: read tokens until the `k`-th `Open` (0-based) has been returned -/
def lexToOpen : Nat → Lexer → Nat → Except String Lexer
  | 0, _, _ => .error "model-out-of-fuel"
  | fuel + 1, l, k =>
    match l.nextToken with
    | (.ok (some .open), l) => if k = 0 then .ok l else lexToOpen fuel l (k - 1)
    | (.ok (some _), l) => lexToOpen fuel l k
    | (.ok none, l) => .error s!"noopen {l.position}"
    | (.error e, l) => .error s!"pre:{showLexErr e.kind} {l.position}"

def lexSkipTokens : Nat → Lexer → Except String Lexer
  | 0, l => .ok l
  | n + 1, l =>
    match l.nextToken with
    | (.ok (some _), l) => lexSkipTokens n l
    | (.ok none, l) => .error s!"short {l.position}"
    | (.error e, l) => .error s!"pre:{showLexErr e.kind} {l.position}"

def showLexNext (l : Lexer) : String :=
  match l.nextToken with
  | (.ok (some t), l) => s!"{showTok t} {l.position}"
  | (.ok none, l) => s!"end {l.position}"
  | (.error e, l) => s!"{showLexErr e.kind} {l.position}"

def showLexSkip (r : Option Lexer.UnitRes) : String :=
  match r with
  | none => "model-out-of-fuel"
  | some (.ok (), l) => s!"ok {l.position} {showLexNext l}"
  | some (.error e, l) => s!"{showLexErr e.kind} {e.position} {l.position}"

/-- reader: read tokens until the `k`-th `Open` has been returned -/
def readToOpen : Nat → Reader → Nat → Except String Reader
  | 0, _, _ => .error "model-out-of-fuel"
  | fuel + 1, rd, k =>
    match Reader.next rd.fuelFor rd with
    | (.ok (some .open), rd) => if k = 0 then .ok rd else readToOpen fuel rd (k - 1)
    | (.ok (some _), rd) => readToOpen fuel rd k
    | (.ok none, rd) => .error s!"noopen {rd.position}"
    | (.error e, rd) => .error s!"pre:{showKind e.kind} {rd.position}"

def showReadNext (rd : Reader) : String :=
  match Reader.next rd.fuelFor rd with
  | (.ok (some t), rd) => s!"{showTok t} {rd.position}"
  | (.ok none, rd) => s!"end {rd.position}"
  | (.error e, rd) => s!"{showKind e.kind} {rd.position}"

def showCall : Call → String
  | .tok t => showTok t
  | .done => "end"
  | .err k => showKind k

/-- `n` calls with the position after each one -/
def callLog : Nat → Reader → List String × Reader
  | 0, rd => ([], rd)
  | n + 1, rd =>
    let (cs, rd') := Reader.calls 1 rd
    let here := match cs with | c :: _ => s!"{showCall c}@{rd'.position}" | [] => "?"
    let (rest, r) := callLog n rd'
    (here :: rest, r)

def readLoop : Nat → Reader → List Token × String × Reader
  | 0, rd => ([], "model-out-of-fuel", rd)
  | fuel + 1, rd =>
    match rd.read with
    | (.ok t, rd') =>
      let (ts, e, r) := readLoop fuel rd'
      (t :: ts, e, r)
    | (.error e, rd') => ([], showKind e.kind, rd')

def readBytesLog : List Nat → Reader → List String × Reader
  | [], rd => ([], rd)
  | n :: ns, rd =>
    match rd.readBytes n with
    | (.ok b, rd') =>
      let (rest, r) := readBytesLog ns rd'
      (s!"{toHex b}@{rd'.position}" :: rest, r)
    | (.error e, rd') =>
      let (rest, r) := readBytesLog ns rd'
      (s!"{showKind e.kind}@{rd'.position}" :: rest, r)

/-- `bufops`: the state after every op as `<result>:<window hex>@<position>` -/
def bufOps : List String → Buf → Src → List String
  | [], _, _ => []
  | op :: ops, b, s =>
    if op == "f" then
      match b.fillBuf s with
      | (r, b', s') =>
        let rs := match r with
          | .ok n => s!"{n}"
          | .error .io => "io"
          | .error .bufferFull => "full"
        s!"f={rs}:{toHex b'.window}@{b'.position}" :: bufOps ops b' s'
    else if op.startsWith "a" then
      match (op.drop 1).toNat? with
      | none => ["bad-op"]
      | some n =>
        match b.advance n with
        | none => ["ub"]
        | some b' => s!"a:{toHex b'.window}@{b'.position}" :: bufOps ops b' s
    else ["bad-op"]

/-- `Lexer::read_bytes` calls with the position after each one -/
def lexBytesLog : List Nat → Lexer → List String × Lexer
  | [], l => ([], l)
  | n :: ns, l =>
    match l.readBytes n with
    | (.ok b, l') =>
      let (rest, r) := lexBytesLog ns l'
      (s!"{toHex b}@{l'.position}" :: rest, r)
    | (.error e, l') =>
      let (rest, r) := lexBytesLog ns l'
      (s!"{showLexErr e.kind}@{l'.position}" :: rest, r)

/-- `k` calls of `next` (stopping at the first end / error): tokens, how it stopped, reader -/
def nextK : Nat → Reader → List Token × String × Reader
  | 0, rd => ([], "ok", rd)
  | k + 1, rd =>
    match Reader.next rd.fuelFor rd with
    | (.ok (some t), rd') =>
      let (ts, o, r) := nextK k rd'
      (t :: ts, o, r)
    | (.ok none, rd') => ([], "end", rd')
    | (.error e, rd') => ([], showKind e.kind, rd')

/-- `skip_container`, called again after every I/O error (at most 6 retries) -/
def skipRetry : Nat → Nat → Reader → String
  | 0, _, _ => "model-out-of-fuel"
  | fuel + 1, retries, rd =>
    match rd.skipContainer with
    | (.ok (), rd') => s!"retries:{retries} ok {rd'.position} {showReadNext rd'}"
    | (.error e, rd') =>
      if e.kind = .read ∧ retries < 6 then skipRetry fuel (retries + 1) rd'
      else s!"retries:{retries} {showKind e.kind} {e.position} {rd'.position}"

def handle : Handler
  | ["blex", h] => (parseHex h).map fun d =>
      let (ts, term, p) := Lexer.run d
      s!"{showToks ts} {showTerminal term} {p}"
  | ["bcut", h, kw] => do
      let d ← parseHex h
      let k ← kw.toNat?
      if k > d.length then none else
      let (ts, term, p) := Lexer.run (d.take k)
      pure s!"{showToks ts} {showTerminal term} {p}"
  | ["bfits", cw, h] => do
      let d ← parseHex h
      let cap ← cw.toNat?
      pure (if fitsBuffer cap d then "true" else "false")
  | ["blexbytes", h, nsw] => do
      let d ← parseHex h
      let ns ← parseNats nsw
      let (log, l) := lexBytesLog ns (Lexer.new d)
      pure s!"{if log.isEmpty then "-" else ",".intercalate log} {showLexNext l}"
  | ["bparts", capw, sw, h, kw] => do
      let d ← parseHex h
      let sched ← parseSched sw
      if capw == "S" then none else
      let rd ← mkReader capw sched d
      let k ← kw.toNat?
      let (before, o1, rd1) := nextK k rd
      -- `into_parts`: the boxed buffer and the `Read`; the window offsets are dropped
      let rd2 := Reader.build rd1.buf.mem rd1.src
      let (after, e2, r2) := Reader.streamAll rd2
      pure s!"{showToks before} {o1} {rd1.position} {rd1.src.delivered} {toHex rd1.buf.mem} {showToks after} {showStreamEnd e2} {r2.position} {r2.src.delivered}"
  | ["blexid", h] => (parseHex h).map fun d =>
      let (ts, term, p) := Lexer.runIds d
      s!"{showToks ts} {showTerminal term} {p}"
  | ["bpeek", h] => (parseHex h).map fun d =>
      let l := Lexer.new d
      let a := match l.peekId with | some i => s!"{i}" | none => "none"
      let b := match l.peekToken with | some t => showTok t | none => "none"
      s!"{a} {b}"
  | ["bwrite", ts] => (parseToks ts).map fun toks => toHex (toks.flatMap Token.write)
  | ["bwritefail", ts, kw] => do
      let toks ← parseToks ts
      let k ← kw.toNat?
      -- a writer that takes k bytes and then fails: `write_all` delivers the prefix, `?` stops
      let full := toks.flatMap Token.write
      pure s!"{toHex (full.take k)} {if k < full.length then "err:io" else "ok"}"
  | ["bstream", capw, sw, h] => do
      let d ← parseHex h
      let sched ← parseSched sw
      let rd ← mkReader capw sched d
      let (ts, e, r) := Reader.streamAll rd
      pure s!"{showToks ts} {showStreamEnd e} {r.position} {r.src.delivered}"
  | ["bread", capw, sw, h] => do
      let d ← parseHex h
      let sched ← parseSched sw
      let rd ← mkReader capw sched d
      let (ts, e, r) := readLoop (Reader.streamFuel rd) rd
      pure s!"{showToks ts} {e} {r.position} {r.src.delivered}"
  | ["bcalls", capw, sw, h, nw] => do
      let d ← parseHex h
      let sched ← parseSched sw
      let rd ← mkReader capw sched d
      let n ← nw.toNat?
      let (cs, r) := callLog n rd
      pure s!"{if cs.isEmpty then "-" else ",".intercalate cs} {r.src.delivered}"
  | ["breadbytes", capw, sw, h, nsw] => do
      let d ← parseHex h
      let sched ← parseSched sw
      let rd ← mkReader capw sched d
      let ns ← parseNats nsw
      let (cs, r) := readBytesLog ns rd
      pure s!"{if cs.isEmpty then "-" else ",".intercalate cs} {r.src.delivered}"
  | ["bskip", capw, sw, h, kw] => do
      let d ← parseHex h
      let sched ← parseSched sw
      let rd ← mkReader capw sched d
      let k ← kw.toNat?
      match readToOpen (Reader.streamFuel rd) rd k with
      | .error msg => pure msg
      | .ok rd =>
        match rd.skipContainer with
        | (.ok (), rd') => pure s!"ok {rd'.position} {showReadNext rd'}"
        | (.error e, rd') => pure s!"{showKind e.kind} {e.position} {rd'.position}"
  | ["bskipretry", capw, sw, h, kw] => do
      let d ← parseHex h
      let sched ← parseSched sw
      let rd ← mkReader capw sched d
      let k ← kw.toNat?
      match readToOpen (Reader.streamFuel rd) rd k with
      | .error msg => pure msg
      | .ok rd => pure (skipRetry 7 0 rd)
  | ["blexskip", h, kw] => do
      let d ← parseHex h
      let k ← kw.toNat?
      match lexToOpen (d.length / 2 + 2) (Lexer.new d) k with
      | .error msg => pure msg
      | .ok l => pure (showLexSkip (l.skipValue OPEN))
  | ["blexskipv", h, kw] => do
      let d ← parseHex h
      let k ← kw.toNat?
      match lexSkipTokens k (Lexer.new d) with
      | .error msg => pure msg
      | .ok l =>
        match l.readId with
        | (.error e, l) => pure s!"id:{showLexErr e.kind} {l.position}"
        | (.ok id, l) => pure s!"{id} {showLexSkip (l.skipValue id)}"
  | ["bufops", capw, sw, h, opsw] => do
      let d ← parseHex h
      let sched ← parseSched sw
      let rd ← mkReader capw sched d
      let ops := if opsw == "-" then [] else opsw.splitOn ","
      let out := bufOps ops rd.buf rd.src
      pure (if out.isEmpty then "-" else ";".intercalate out)
  | _ => none

end Jomini.Driver.C08
