import JominiModel.Proofs.TextTapeFaithful2
import JominiModel.Proofs.TextTapeTotal
import JominiModel.Proofs.TextTapeVar
/-
C01 growth, fragment 3: objects, arrays (of scalars, objects, arrays) and empty containers of any
depth, under any valid layout.
-/
namespace Jomini.TextTape
open Jomini

/-- the state a value leaves behind: Key inside an object, ArrayValue inside an array. -/
def ret : PState → PState
  | .arrayValue => .arrayValue
  | _ => .key

/-! ### single iterations -/

theorem run_blank {n : Nat} {w : Bytes} (hw : Blank w) (fuel : Nat) (st : St) (d : Bytes) :
    run n fuel st (w ++ d) = run n fuel st d := by
  cases fuel with
  | zero => rfl
  | succ f => simp only [run, step_blank hw]

theorem skipWs_idem {d d2 : Bytes} (h : skipWs d = some d2) : skipWs d2 = some d2 := by
  obtain ⟨c, cs, rfl, hb, h35, _⟩ := skipWsAux_some d false d2 h
  exact skipWs_cons cs hb h35

theorem run_skip {n : Nat} {d d2 : Bytes} (h : skipWs d = some d2) (fuel : Nat) (st : St) :
    run n fuel st d = run n fuel st d2 := by
  cases fuel with
  | zero => rfl
  | succ f => simp only [run, step, h, skipWs_idem h]

theorem ret_av_eq : ret .arrayValue = .arrayValue := rfl

/-- `{` as a value (ObjectValue or ArrayValue): the placeholder is pushed. -/
theorem step_open {n : Nat} {st : St} {g X : Bytes}
    (hst : st.state = .objectValue ∨ st.state = .arrayValue) (hg : Blank g) :
    step n st (g ++ 123 :: X) =
      .cont { st with tape := st.tape ++ [.array 0 false], state := .parseOpen } X := by
  rcases hst with hst | hst
  · exact step_ov_open hst hg
  · simp only [step, skipWs_blank hg, skipWs_cons X blank_open (by decide), stepAt, hst]
    simp [stepArrayValue]

/-- a scalar as a value (ObjectValue or ArrayValue). -/
theorem step_val {n : Nat} {st : St} {g : Bytes} {s : Scal} {X : Bytes}
    (hst : st.state = .objectValue ∨ st.state = .arrayValue)
    (hg : Blank g) (hs : s.Valid) (hX : s.quoted = false → StartsBoundary X) :
    step n st (g ++ (s.text ++ X)) =
      .cont { st with tape := st.tape ++ [s.tok X], state := ret st.state } X := by
  rcases hst with hst | hst
  · simpa [hst, ret] using step_val_scal (n := n) hst hg hs hX
  · obtain ⟨c, r, htx, _, _, h125, _, h123, _, h61, hq1, hq0⟩ := hs.head
    have hlex := lexValue_scal hs st.tape X hX
    simp only [step, skipWs_blank hg, skipWs_scal hs, stepAt, hst]
    rw [htx] at hlex ⊢
    simp only [List.cons_append] at hlex ⊢
    cases hq : s.quoted with
    | true =>
      have hc := hq1 hq; subst hc
      simp [stepArrayValue, hlex, ret]
    | false =>
      obtain ⟨h34, h64, hnb⟩ := hq0 hq
      have h60 : c ≠ 60 := by intro h; subst h; simp [bnd_lt] at hnb
      have h62 : c ≠ 62 := by intro h; subst h; simp [bnd_gt] at hnb
      have h33 : c ≠ 33 := by intro h; subst h; simp [bnd_bang] at hnb
      -- for such a first byte `lexValue` is `parse_scalar`
      have hps : parseScalarTok st.tape (c :: (r ++ X)) = lexValue st.tape (c :: (r ++ X)) := by
        simp [lexValue, h34, h64]
      simp [stepArrayValue, h123, h125, h34, h64, h60, h62, h33, h61, hps, hlex, ret]

/-- KeyValueSeparator sees `{`: the `=` was left out; the `{` is read again by ObjectValue. -/
theorem step_kvs_open {n : Nat} {st : St} {g X : Bytes} (hst : st.state = .kvs) (hg : Blank g) :
    step n st (g ++ 123 :: X) = .cont { st with state := .objectValue } (123 :: X) := by
  simp only [step, skipWs_blank hg, skipWs_cons X blank_open (by decide), stepAt, hst]
  simp [stepKvs, lexOperator]

/-- Key sees `{ }`: a ghost object, skipped. -/
theorem step_key_ghost {n : Nat} {st : St} {g gc Y : Bytes} (hst : st.state = .key)
    (hg : Blank g) (hgc : Blank gc) :
    step n st (g ++ 123 :: (gc ++ 125 :: Y)) = .cont st Y := by
  simp only [step, skipWs_blank hg, skipWs_cons _ blank_open (by decide), stepAt, hst]
  simp [stepKey, skipWs_blank hgc, skipWs_cons Y blank_close (by decide)]

/-- Key sees a non-empty `{` right behind an unquoted value: that value is the header of the
container. -/
theorem step_key_header {n : Nat} {st : St} {T : List Tok} {sl : Slice} {gb X : Bytes} {c2 : UInt8} {r2 : Bytes}
    (hst : st.state = .key) (hT : st.tape = T ++ [.unquoted sl]) (hg : Blank gb)
    (hsk : skipWs X = some (c2 :: r2)) (hc2 : c2 ≠ 125) :
    step n st (gb ++ 123 :: X) =
      .cont { st with tape := T ++ [.header sl, .array 0 false], state := .parseOpen } (c2 :: r2) := by
  simp only [step, skipWs_blank hg, skipWs_cons X blank_open (by decide), stepAt, hst]
  simp [stepKey, hsk, hc2, hT]

theorem braced_open {v : JVal} {a : Bytes} (hc : v.isBraced) (hv : JValidV v a) :
    ∃ g X, jrenderV v = g ++ 123 :: X ∧ Blank g := by
  cases v with
  | scal g s => simp [JVal.isBraced] at hc
  | empty g gc => simp only [JValidV] at hv; exact ⟨g, _, rfl, hv.1⟩
  | obj g g0 k g1 o v rest gc => simp only [JValidV] at hv; exact ⟨g, _, rfl, hv.1⟩
  | arrS g g0 s0 rest gc => simp only [JValidV] at hv; exact ⟨g, _, rfl, hv.1⟩
  | arrC g first rest gc => simp only [JValidV] at hv; exact ⟨g, _, rfl, hv.1⟩
  | ghostIn g b1 b2 v => simp only [JValidV] at hv; exact ⟨g, _, rfl, hv.1⟩
  | mixed g g0 k g1 o v rest gm m0 elems gc => simp only [JValidV] at hv; exact ⟨g, _, rfl, hv.1⟩

/-- a braced value is its blanks, `{`, and its inside. -/
theorem render_inner {v : JVal} (hc : v.isBraced) : jrenderV v = v.gap ++ 123 :: jinner v := by
  cases v <;> simp [JVal.isBraced] at hc <;> simp [jrenderV, jinner, JVal.gap]

theorem braced_gap {v : JVal} {a : Bytes} (hc : v.isBraced) (hv : JValidV v a) : Blank v.gap := by
  cases v <;> simp [JVal.isBraced] at hc <;> simp only [JValidV] at hv <;> exact hv.1

/-- ParseOpen sees `{ }`: a ghost object at the start of a container, skipped. -/
theorem step_parseopen_ghost {n : Nat} {st : St} {b1 b2 Y : Bytes} (hst : st.state = .parseOpen)
    (h1 : Blank b1) (h2 : Blank b2) :
    step n st (b1 ++ 123 :: (b2 ++ 125 :: Y)) = .cont st Y := by
  simp only [step, skipWs_blank h1, skipWs_cons _ blank_open (by decide), stepAt, hst]
  simp [stepParseOpen, skipWs_blank h2, skipWs_cons Y blank_close (by decide)]

/-- a scalar as a value (ObjectValue or ArrayValue). -/
theorem step_valX {n : Nat} {st : St} {g : Bytes} {s : Scal} {X : Bytes}
    (hst : st.state = .objectValue ∨ st.state = .arrayValue)
    (hg : Blank g) (hs : s.ValidX) (hX : s.quoted = false → StartsBoundary X) :
    step n st (g ++ (s.text ++ X)) =
      .cont { st with tape := st.tape ++ [s.tok X], state := ret st.state } X := by
  rcases hs with hv | hvar
  · exact step_val hst hg hv hX
  · have hs : s.ValidX := .inr hvar
    have hc64 : ∃ r, s.text = 64 :: r := by
      rcases hvar with ⟨hq, r, hb, _⟩ | ⟨hq, body, hb, _⟩
      · exact ⟨r, by simp [Scal.text, hq, hb]⟩
      · exact ⟨91 :: (body ++ [93]), by simp [Scal.text, hq, hb]⟩
    obtain ⟨r, htx⟩ := hc64
    have hlex := lexValue_scalX hs st.tape X hX
    simp only [step, skipWs_blank hg, skipWs_scalX hs]
    rw [htx] at hlex ⊢
    simp only [List.cons_append] at hlex ⊢
    rcases hst with hst | hst
    · simp [stepAt, hst, stepObjectValue, hlex, ret]
    · simp [stepAt, hst, stepArrayValue, hlex, ret]

/-- KeyValueSeparator sees neither an operator nor `{`: the "key" just read was the first element of
the array part — `MixedContainer` is inserted in front of it and the parser goes on in mixed mode. -/
theorem step_kvs_mixed {n : Nat} {st : St} {T : List Tok} {l : Tok} {E : Bytes} {c : UInt8} {r : Bytes}
    (hst : st.state = .kvs) (hT : st.tape = T ++ [l]) (hsk : skipWs E = some (c :: r))
    (hop : lexOperator true (c :: r) = none) (hc : c ≠ 123) :
    step n st E =
      .cont { st with tape := T ++ [.mixedContainer, l], state := .arrayValue, mixed := true } (c :: r) := by
  simp only [step, hsk, stepAt, hst]
  simp [stepKvs, hop, hc, hT, insertBeforeLast]

/-- ArrayValue sees `}` while the innermost container is an object (mixed container). -/
theorem step_av_close_obj {n : Nat} {st : St} {gc X : Bytes} {P : Nat} {r : PState} (hst : st.state = .arrayValue)
    (hg : Blank gc) (hp : st.parent ≠ 0) (hlt : st.parent < st.tape.length)
    (hpt : st.tape[st.parent]? = some (.object P false))
    (hcs : closeState st.tape[P]? = (false, r)) :
    step n st (gc ++ 125 :: X) =
      .cont { state := r, mixed := false, parent := P,
              tape := st.tape.set st.parent (.object st.tape.length st.mixed) ++ [Tok.endTok st.parent] } X := by
  simp only [step, skipWs_blank hg, skipWs_cons X blank_close (by decide), stepAt, hst]
  simp only [stepArrayValue, hpt, endOf, hcs]
  simp [hp, setTok, hlt]

/-- a run of scalars in ArrayValue (whatever the mixed flag). -/
theorem run_elems (n : Nat) : ∀ (es : List (Bytes × Scal)) (after : Bytes) (fuel : Nat) (st : St),
    ElemsValid es after → st.state = .arrayValue →
    run n (fuel + es.length) st (renderElems es ++ after) =
      run n fuel { st with tape := st.tape ++ elemToks es after } after
  | [], after, fuel, st, _, _ => by simp [renderElems, elemToks]
  | (g, s) :: r, after, fuel, st, hv, hst => by
    simp only [ElemsValid] at hv
    have hfuel : fuel + ((g, s) :: r).length = (fuel + r.length) + 1 := by simp; omega
    rw [hfuel]
    simp only [renderElems, List.append_assoc]
    rw [run_cont (step_valX (.inr hst) hv.1 hv.2.1 hv.2.2.1)]
    rw [hst, ret_av_eq]
    rw [run_elems n r after fuel _ hv.2.2.2 rfl]
    congr 1
    simp [elemToks, hst]

theorem blank_rbr : isBlank 93 = false := by decide +kernel
theorem blank_open_br : isBlank 91 = false := by decide +kernel

/-- Key sees `[[name]` / `[[!name]`: a parameter definition (not the first thing in a container). -/
theorem step_key_param {n : Nat} {st : St} {g0 : Bytes} {isU : Bool} {name : Bytes} (hst : st.state = .key)
    (hg : Blank g0) (hn : ParamName name) (Y : Bytes) :
    step n st (g0 ++ (91 :: 91 :: ((if isU then [33] else []) ++ (name ++ 93 :: Y)))) =
      pdAfter st.mixed st.tape st.parent isU (name ++ 93 :: Y).length name Y := by
  simp only [step, skipWs_blank hg, skipWs_cons _ blank_open_br (by decide), stepAt, hst]
  simp only [stepKey, show ¬((91 : UInt8) = 125 ∨ (91 : UInt8) = 93) by decide, show (91 : UInt8) ≠ 123 by decide,
    if_false, if_true, paramDef, List.getElem?_cons_succ, List.getElem?_cons_zero, ne_eq, not_true_eq_false,
    paramDefPre, Bool.false_eq_true]
  exact paramDefBody_name st.mixed st.tape st.parent isU hn Y

/-- `pdAfter`, value form `[[name] value ]`. -/
theorem pdAfter_val (mixed : Bool) (tape : List Tok) (parent : Nat) (isU : Bool) (nt : Nat) (name : Bytes)
    {g1 g2 : Bytes} {val : Scal} (h1 : Blank g1) (h2 : Blank g2) (hv : val.Valid) (hq : val.quoted = false)
    (R : Bytes) (hsb : StartsBoundary (g2 ++ 93 :: R)) :
    pdAfter mixed tape parent isU nt name (g1 ++ (val.text ++ (g2 ++ 93 :: R))) =
      .cont { state := .key, mixed := mixed, parent := parent,
              tape := tape ++ [paramTok isU ⟨nt, name⟩] ++
                [.unquoted ⟨(val.text ++ (g2 ++ 93 :: R)).length, val.bytes⟩] } R := by
  have htext : val.text = val.bytes := by simp [Scal.text, hq]
  have hvv := hv
  unfold Scal.Valid at hvv
  simp only [hq, Bool.false_eq_true, if_false] at hvv
  have hne : val.bytes ≠ [] := by obtain ⟨_, c', r', hs', _⟩ := hvv; simp [hs']
  have hsp := splitAtScalar_token hne hvv.1 hsb
  unfold pdAfter
  simp only [skipWs_blank h1, skipWs_scal hv]
  simp only [htext, hsp, skipWs_blank h2, skipWs_cons R blank_rbr (by decide), if_true]

/-- `pdAfter`, object form `[[name] key op …`. -/
theorem pdAfter_obj (mixed : Bool) (tape : List Tok) (parent : Nat) (isU : Bool) (nt : Nat) (name : Bytes)
    {g1 g2 : Bytes} {k : Scal} {o : Op} (h1 : Blank g1) (h2 : Blank g2) (hv : k.Valid) (hq : k.quoted = false)
    (Z : Bytes) (hsb : StartsBoundary (g2 ++ o.text)) :
    pdAfter mixed tape parent isU nt name (g1 ++ (k.text ++ (g2 ++ (o.text ++ Z)))) =
      .cont { state := .kvs, mixed := mixed, parent := (tape ++ [paramTok isU ⟨nt, name⟩]).length,
              tape := tape ++ [paramTok isU ⟨nt, name⟩] ++
                [.object parent false, .unquoted ⟨(k.text ++ (g2 ++ (o.text ++ Z))).length, k.bytes⟩] }
        (o.text ++ Z) := by
  have htext : k.text = k.bytes := by simp [Scal.text, hq]
  have hvv := hv
  unfold Scal.Valid at hvv
  simp only [hq, Bool.false_eq_true, if_false] at hvv
  have hne : k.bytes ≠ [] := by obtain ⟨_, c', r', hs', _⟩ := hvv; simp [hs']
  have hsb' : StartsBoundary (g2 ++ (o.text ++ Z)) := by
    rcases hsb with h | ⟨c, r, h, hc⟩
    · have : o.text ≠ [] := by cases o <;> simp [Op.text]
      simp at h; exact absurd h.2 this
    · exact .inr ⟨c, r ++ Z, by rw [← List.cons_append, ← h]; simp, hc⟩
  have hsp := splitAtScalar_token hne hvv.1 hsb'
  have h93 : ∀ c r, o.text = c :: r → c ≠ 93 := by
    intro c r h; cases o <;> simp [Op.text] at h <;> (rw [← h.1]; decide)
  unfold pdAfter
  simp only [skipWs_blank h1, skipWs_scal hv]
  simp only [htext, hsp, skipWs_blank h2, skipWs_op]
  cases ho : o.text with
  | nil => cases o <;> simp [Op.text] at ho
  | cons c r => simp [h93 c r ho]

/-- Key sees `]`: like `}`. -/
theorem step_key_close_br {n : Nat} {st : St} {gc X : Bytes} {P : Nat} {r : PState} (hst : st.state = .key)
    (hg : Blank gc) (hp : st.parent ≠ 0) (hlt : st.parent < st.tape.length)
    (hpt : st.tape[st.parent]? = some (.object P false))
    (hcs : closeState st.tape[P]? = (false, r)) :
    step n st (gc ++ 93 :: X) =
      .cont { state := r, mixed := false, parent := P,
              tape := (st.tape ++ [Tok.endTok st.parent]).set st.parent (.object st.tape.length st.mixed) } X := by
  simp only [step, skipWs_blank hg, skipWs_cons X blank_rbr (by decide), stepAt, hst]
  have hlt' : st.parent < st.tape.length + 1 := by omega
  simp [stepKey, hpt, endOf, hcs, hp, setTok, hlt']

theorem closeState_append {T R : List Tok} {P : Nat} (h : P < T.length) :
    closeState (T ++ R)[P]? = closeState T[P]? := by
  rw [List.getElem?_append_left h]

/-- ParseOpen sees `}`: the empty array `Array{end: i+1}, End(i)`. -/
theorem step_parseopen_empty {n : Nat} {st : St} {T : List Tok} {gc X : Bytes} {r : PState}
    (hst : st.state = .parseOpen) (hT : st.tape = T ++ [.array 0 false]) (hg : Blank gc)
    (hcs : closeState st.tape[st.parent]? = (false, r)) :
    step n st (gc ++ 125 :: X) =
      .cont { state := r, mixed := false, parent := st.parent,
              tape := T ++ [.array (T.length + 1) false, .endTok T.length] } X := by
  simp only [step, skipWs_blank hg, skipWs_cons X blank_close (by decide), stepAt, hst]
  simp only [stepParseOpen, if_true, hcs]
  rw [hT]
  simp [setTok]

/-- ParseOpen sees a scalar that is not followed by an operator: the container is an array. -/
theorem step_parseopen_scalar_arr {n : Nat} {st : St} {T : List Tok} {g0 : Bytes} {s : Scal} {Z d2 : Bytes}
    (hst : st.state = .parseOpen) (hm : st.mixed = false) (hT : st.tape = T ++ [.array 0 false])
    (h0 : Blank g0) (hs : s.Valid) (hZ : s.quoted = false → StartsBoundary Z)
    (hsk : skipWs Z = some d2) (hpk : firstFieldPeek d2 = false) :
    step n st (g0 ++ (s.text ++ Z)) =
      .cont { state := .arrayValue, mixed := false, parent := T.length,
              tape := T ++ [.array st.parent false, s.tok Z] } d2 := by
  obtain ⟨c, r, htx, _, _, h125, _, h123, h91, _, _, _⟩ := hs.head
  have hlex := lexValue_scal hs st.tape Z hZ
  simp only [step, skipWs_blank h0, skipWs_scal hs, stepAt, hst]
  rw [htx] at hlex ⊢
  simp only [List.cons_append] at hlex ⊢
  simp only [stepParseOpen, h125, h91, h123, if_false, hlex, hm, Bool.false_eq_true, hsk, hpk]
  rw [hT]
  simp [setTok]

/-- ParseOpen sees a non-empty `{`: the container is an array and the `{` is left for ArrayValue. -/
theorem step_parseopen_container_arr {n : Nat} {st : St} {T : List Tok} {g X : Bytes} {c2 : UInt8} {r2 : Bytes}
    (hst : st.state = .parseOpen) (hT : st.tape = T ++ [.array 0 false])
    (hg : Blank g) (hsk : skipWs X = some (c2 :: r2)) (hc2 : c2 ≠ 125) :
    step n st (g ++ 123 :: X) =
      .cont { state := .arrayValue, mixed := false, parent := T.length,
              tape := T ++ [.array st.parent false] } (123 :: X) := by
  simp only [step, skipWs_blank hg, skipWs_cons X blank_open (by decide), stepAt, hst]
  simp only [stepParseOpen, hsk, hc2, if_false]
  rw [hT]
  simp [setTok]

/-- ArrayValue sees `}`: the innermost array is closed. -/
theorem step_av_close {n : Nat} {st : St} {gc X : Bytes} {P : Nat} {r : PState} (hst : st.state = .arrayValue)
    (hg : Blank gc) (hp : st.parent ≠ 0) (hlt : st.parent < st.tape.length)
    (hpt : st.tape[st.parent]? = some (.array P false))
    (hcs : closeState st.tape[P]? = (false, r)) :
    step n st (gc ++ 125 :: X) =
      .cont { state := r, mixed := false, parent := P,
              tape := st.tape.set st.parent (.array st.tape.length st.mixed) ++ [Tok.endTok st.parent] } X := by
  simp only [step, skipWs_blank hg, skipWs_cons X blank_close (by decide), stepAt, hst]
  simp only [stepArrayValue, hpt, endOf, hcs]
  simp [hp, setTok, hlt]

/-- Key sees `}`: the innermost object is closed; the next state is decided by its parent. -/
theorem step_key_close' {n : Nat} {st : St} {gc X : Bytes} {P : Nat} {r : PState} (hst : st.state = .key)
    (hg : Blank gc) (hp : st.parent ≠ 0) (hlt : st.parent < st.tape.length)
    (hpt : st.tape[st.parent]? = some (.object P false))
    (hcs : closeState st.tape[P]? = (false, r)) :
    step n st (gc ++ 125 :: X) =
      .cont { state := r, mixed := false, parent := P,
              tape := (st.tape ++ [Tok.endTok st.parent]).set st.parent (.object st.tape.length st.mixed) } X := by
  simp only [step, skipWs_blank hg, skipWs_cons X blank_close (by decide), stepAt, hst]
  have hlt' : st.parent < st.tape.length + 1 := by omega
  simp [stepKey, hpt, endOf, hcs, hp, setTok, hlt']

/-! ### bookkeeping -/

theorem len_elemToks : ∀ (es : List (Bytes × Scal)) (a : Bytes), (elemToks es a).length = es.length
  | [], _ => rfl
  | (_, _) :: r, a => by simp [elemToks, len_elemToks r a]


mutual
theorem len_jtapeV : ∀ (v : JVal) (b : Nat) (a : Bytes), (jtapeV v b a).length = jcntV v
  | .scal _ _, _, _ => by simp [jtapeV, jcntV]
  | .empty _ _, _, _ => by simp [jtapeV, jcntV]
  | .obj _ _ _ _ o v rest _, b, a => by
    simp only [jtapeV, jcntV, List.length_append, List.length_cons, List.length_nil, len_jtapeV v, len_jtapeF rest]
    try omega
  | .arrS _ _ _ rest _, b, a => by
    simp only [jtapeV, jcntV, List.length_append, List.length_cons, List.length_nil, len_jtapeVs rest]
    try omega
  | .arrC _ first rest _, b, a => by
    simp only [jtapeV, jcntV, List.length_append, List.length_cons, List.length_nil, len_jtapeV first, len_jtapeVs rest]
    try omega
  | .ghostIn _ _ _ v, b, a => by simp only [jtapeV, jcntV, len_jtapeV v]
  | .mixed _ _ _ _ o v rest _ _ elems _, b, a => by
    simp only [jtapeV, jcntV, List.length_append, List.length_cons, List.length_nil, len_jtapeV v, len_jtapeF rest,
      len_elemToks]
    omega
theorem len_jtapeF : ∀ (fs : JFields) (b : Nat) (a : Bytes), (jtapeF fs b a).length = jcntF fs
  | .nil, _, _ => by simp [jtapeF, jcntF]
  | .cons _ _ _ o v rest, b, a => by
    simp only [jtapeF, jcntF, List.length_append, List.length_cons, List.length_nil, len_jtapeV v, len_jtapeF rest]
    try omega
  | .consImp _ _ v rest, b, a => by
    simp only [jtapeF, jcntF, List.length_append, List.length_cons, List.length_nil, len_jtapeV v, len_jtapeF rest]
    try omega
  | .ghost _ _ rest, b, a => by simp only [jtapeF, jcntF, len_jtapeF rest]
  | .consHdr _ _ _ o _ _ body rest, b, a => by
    simp only [jtapeF, jcntF, List.length_append, List.length_cons, List.length_nil, len_jtapeV body, len_jtapeF rest]
    try omega
  | .paramVal _ _ _ _ _ _ rest, b, a => by
    simp only [jtapeF, jcntF, List.length_append, List.length_cons, List.length_nil, len_jtapeF rest]
    try omega
  | .paramObj _ _ _ _ _ _ o v inner _ rest, b, a => by
    simp only [jtapeF, jcntF, List.length_append, List.length_cons, List.length_nil, len_jtapeV v, len_jtapeF inner,
      len_jtapeF rest]
    try omega
theorem len_jtapeVs : ∀ (vs : JVals) (b : Nat) (a : Bytes), (jtapeVs vs b a).length = jcntVs vs
  | .nil, _, _ => by simp [jtapeVs, jcntVs]
  | .cons v rest, b, a => by
    simp only [jtapeVs, jcntVs, List.length_append, len_jtapeV v, len_jtapeVs rest]
end

/-- a value's rendering never starts with `=`. -/
theorem head_jrenderV (v : JVal) (after Z : Bytes) (hv : JValidV v after) :
    (jrenderV v ++ Z).head? ≠ some 61 := by
  have hb : ∀ {g : Bytes} (X : Bytes), Blank g → (g ++ 123 :: X).head? ≠ some 61 := by
    intro g X hg
    cases hg with
    | nil => simp
    | ws c w hc _ =>
      simp only [List.cons_append, List.head?_cons, ne_eq, Option.some.injEq]
      intro h; subst h; simp [blank_eq] at hc
    | comment body w _ _ => simp
  cases v with
  | scal g s =>
    simp only [JValidV] at hv
    simp only [jrenderV, List.append_assoc]
    exact head_blank_scalX hv.1 hv.2.1 Z
  | empty g gc =>
    simp only [JValidV] at hv
    simp only [jrenderV, List.append_assoc, List.cons_append]; exact hb _ hv.1
  | obj g g0 k g1 o v rest gc =>
    simp only [JValidV] at hv
    simp only [jrenderV, List.append_assoc, List.cons_append]; exact hb _ hv.1
  | arrS g g0 s0 rest gc =>
    simp only [JValidV] at hv
    simp only [jrenderV, List.append_assoc, List.cons_append]; exact hb _ hv.1
  | arrC g first rest gc =>
    simp only [JValidV] at hv
    simp only [jrenderV, List.append_assoc, List.cons_append]; exact hb _ hv.1
  | ghostIn g b1 b2 v =>
    simp only [JValidV] at hv
    simp only [jrenderV, List.append_assoc, List.cons_append]; exact hb _ hv.1
  | mixed g g0 k g1 o v rest gm m0 elems gc =>
    simp only [JValidV] at hv
    simp only [jrenderV, List.append_assoc, List.cons_append]; exact hb _ hv.1

/-- a non-empty container starts with blanks and `{`. -/
theorem container_open {v : JVal} {a : Bytes} (hc : v.isContainer) (hv : JValidV v a) :
    ∃ g X, jrenderV v = g ++ 123 :: X ∧ Blank g := by
  cases v with
  | scal g s => simp [JVal.isContainer] at hc
  | empty g gc => simp [JVal.isContainer] at hc
  | obj g g0 k g1 o v rest gc => simp only [JValidV] at hv; exact ⟨g, _, rfl, hv.1⟩
  | arrS g g0 s0 rest gc => simp only [JValidV] at hv; exact ⟨g, _, rfl, hv.1⟩
  | arrC g first rest gc => simp only [JValidV] at hv; exact ⟨g, _, rfl, hv.1⟩
  | ghostIn g b1 b2 v => simp only [JValidV] at hv; exact ⟨g, _, rfl, hv.1⟩
  | mixed g g0 k g1 o v rest gm m0 elems gc => simp only [JValidV] at hv; exact ⟨g, _, rfl, hv.1⟩

/-- …and what follows the `{` is not a `}`. -/
theorem container_head {v : JVal} {a : Bytes} (hc : v.isContainer) (hv : JValidV v a) (W : Bytes) :
    ∃ g X, jrenderV v ++ W = g ++ 123 :: X ∧ Blank g ∧ ∃ c2 r2, skipWs X = some (c2 :: r2) ∧ c2 ≠ 125 := by
  have hsc : ∀ {g0 : Bytes} {s : Scal} (Y : Bytes), Blank g0 → s.ValidX →
      ∃ c2 r2, skipWs (g0 ++ (s.text ++ Y)) = some (c2 :: r2) ∧ c2 ≠ 125 := by
    intro g0 s Y h0 hs
    obtain ⟨c, r, htx, _, _, h125, _⟩ := hs.head
    refine ⟨c, r ++ Y, ?_, h125⟩
    rw [skipWs_blank h0, skipWs_scalX hs, htx]; rfl
  cases v with
  | scal g s => simp [JVal.isContainer] at hc
  | empty g gc => simp [JVal.isContainer] at hc
  | obj g g0 k g1 o v rest gc =>
    simp only [JValidV] at hv
    refine ⟨g, _, by simp only [jrenderV, List.append_assoc, List.cons_append]; rfl, hv.1, ?_⟩
    exact hsc _ hv.2.1 hv.2.2.2.2.1
  | arrS g g0 s0 rest gc =>
    simp only [JValidV] at hv
    refine ⟨g, _, by simp only [jrenderV, List.append_assoc, List.cons_append]; rfl, hv.1, ?_⟩
    exact hsc _ hv.2.1 hv.2.2.2.1
  | arrC g first rest gc =>
    simp only [JValidV] at hv
    obtain ⟨g', X', hr, hg'⟩ := container_open hv.2.2.1 hv.2.2.2.1
    refine ⟨g, _, by simp only [jrenderV, List.append_assoc, List.cons_append]; rfl, hv.1, 123, ?_⟩
    rw [hr]
    simp only [List.append_assoc, List.cons_append]
    exact ⟨_, by rw [skipWs_blank hg', skipWs_cons _ blank_open (by decide)], by decide⟩
  | ghostIn g b1 b2 v =>
    simp only [JValidV] at hv
    refine ⟨g, _, by simp only [jrenderV, List.append_assoc, List.cons_append]; rfl, hv.1, 123,
      b2 ++ 125 :: (jinner v ++ W), ?_, by decide⟩
    rw [skipWs_blank hv.2.1, skipWs_cons _ blank_open (by decide)]
  | mixed g g0 k g1 o v rest gm m0 elems gc =>
    simp only [JValidV] at hv
    refine ⟨g, _, by simp only [jrenderV, List.append_assoc, List.cons_append]; rfl, hv.1, ?_⟩
    exact hsc _ hv.2.1 hv.2.2.2.2.2.1

structure Ctx3 (st : St) : Prop where
  mixed : st.mixed = false
  zero : ∀ e m, st.tape[0]? ≠ some (.array e m) ∧ st.tape[0]? ≠ some (.object e m)
  plt : st.parent < st.tape.length ∨ st.parent = 0
  close : closeState st.tape[st.parent]? = (false, ret st.state)

theorem Ctx3.plt' {st : St} (hc : Ctx3 st) (hne : st.tape ≠ []) : st.parent < st.tape.length := by
  rcases hc.plt with h | h
  · exact h
  · rw [h]; exact List.length_pos_iff.2 hne

theorem Ctx3.close_append {st : St} (hc : Ctx3 st) (hne : st.tape ≠ []) (R : List Tok) :
    closeState (st.tape ++ R)[st.parent]? = (false, ret st.state) := by
  rw [closeState_append (hc.plt' hne)]; exact hc.close

theorem Ctx3.zero_append {st : St} (hc : Ctx3 st) (hne : st.tape ≠ []) (R : List Tok) :
    ∀ e m, (st.tape ++ R)[0]? ≠ some (.array e m) ∧ (st.tape ++ R)[0]? ≠ some (.object e m) := by
  intro e m
  rw [List.getElem?_append_left (List.length_pos_iff.2 hne)]
  exact hc.zero e m

@[simp] theorem ret_ov : ret .objectValue = .key := rfl
@[simp] theorem ret_av : ret .arrayValue = .arrayValue := rfl
@[simp] theorem ret_key : ret .key = .key := rfl

/-- the context of the values inside a container that has just been opened at index `|tape|`. -/
theorem Ctx3.inner {st : St} (hc : Ctx3 st) (hne : st.tape ≠ []) (t : Tok) (R : List Tok) (s : PState)
    (h : closeState (some t) = (false, ret s)) :
    Ctx3 (St.mk s false st.tape.length (st.tape ++ t :: R)) := by
  refine ⟨rfl, hc.zero_append hne _, .inl (by simp), ?_⟩
  simp only [List.getElem?_append_right (Nat.le_refl _), Nat.sub_self, List.getElem?_cons_zero]
  exact h

theorem skipWs_jrenderV_some {v : JVal} {a : Bytes} (hv : JValidV v a) (W : Bytes) :
    ∃ d2, skipWs (jrenderV v ++ W) = some d2 := by
  have ho : ∀ {g : Bytes} (X : Bytes), Blank g → ∃ d2, skipWs (g ++ 123 :: X) = some d2 :=
    fun X hg => ⟨_, by rw [skipWs_blank hg, skipWs_cons X blank_open (by decide)]⟩
  cases v with
  | scal g s =>
    simp only [JValidV] at hv
    exact ⟨_, by simp only [jrenderV, List.append_assoc]; rw [skipWs_blank hv.1, skipWs_scalX hv.2.1]⟩
  | empty g gc => simp only [JValidV] at hv; simpa [jrenderV] using ho _ hv.1
  | obj g g0 k g1 o v rest gc => simp only [JValidV] at hv; simpa [jrenderV] using ho _ hv.1
  | arrS g g0 s0 rest gc => simp only [JValidV] at hv; simpa [jrenderV] using ho _ hv.1
  | arrC g first rest gc => simp only [JValidV] at hv; simpa [jrenderV] using ho _ hv.1
  | ghostIn g b1 b2 v => simp only [JValidV] at hv; simpa [jrenderV] using ho _ hv.1
  | mixed g g0 k g1 o v rest gm m0 elems gc => simp only [JValidV] at hv; simpa [jrenderV] using ho _ hv.1

theorem skipWs_elems_some {vs : JVals} {a : Bytes} (hv : JValidVs vs a) {gc : Bytes} (hgc : Blank gc) (Y : Bytes) :
    ∃ d2, skipWs (jrenderVs vs ++ (gc ++ 125 :: Y)) = some d2 := by
  cases vs with
  | nil => exact ⟨_, by simp only [jrenderVs, List.nil_append]; rw [skipWs_blank hgc, skipWs_cons Y blank_close (by decide)]⟩
  | cons v rest =>
    simp only [JValidVs] at hv
    simp only [jrenderVs, List.append_assoc]
    exact skipWs_jrenderV_some hv.1 _

/-- the context after more tokens have been pushed (same container, same kind of state). -/
theorem Ctx3.append {st : St} (hc : Ctx3 st) (hne : st.tape ≠ []) (R : List Tok) (s : PState)
    (hs : ret s = ret st.state) : Ctx3 (St.mk s st.mixed st.parent (st.tape ++ R)) :=
  ⟨hc.mixed, hc.zero_append hne R, .inl (by have := hc.plt' hne; simp; omega), by
    rw [hs]; exact hc.close_append hne R⟩

theorem Scal.tok_plain (k : Scal) (X : Bytes) :
    ∀ e m, some (k.tok X) ≠ some (Tok.array e m) ∧ some (k.tok X) ≠ some (Tok.object e m) := by
  intro e m; unfold Scal.tok; split <;> simp

/-- the context after a plain token has been pushed in Key state (possibly onto the empty tape). -/
theorem Ctx3.after_plain {st : St} (hc : Ctx3 st) (hst : st.state = .key) (t : Tok)
    (ht : ∀ e m, some t ≠ some (Tok.array e m) ∧ some t ≠ some (Tok.object e m))
    (R : List Tok) (s : PState) (hs : ret s = .key) :
    Ctx3 (St.mk s st.mixed st.parent (st.tape ++ t :: R)) := by
  by_cases hne : st.tape = []
  · have hp : st.parent = 0 := by
      rcases hc.plt with h | h
      · simp [hne] at h
      · exact h
    refine ⟨hc.mixed, ?_, .inr hp, ?_⟩
    · intro e m; simp only [hne, List.nil_append, List.getElem?_cons_zero]; exact ht e m
    · simp only [hne, hp, List.nil_append, List.getElem?_cons_zero, hs]
      exact closeState_plain ht
  · exact hc.append hne (t :: R) s (by rw [hs, hst]; rfl)

theorem paramTok_plain (b : Bool) (sl : Slice) :
    ∀ e m, some (paramTok b sl) ≠ some (Tok.array e m) ∧ some (paramTok b sl) ≠ some (Tok.object e m) := by
  intro e m; cases b <;> simp [paramTok]

/-- closing the object of a parameter block whose parent is described by `Ctx3` (the tape in
front of the block may be empty). -/
theorem Ctx3.close_after_plain {st : St} (hc : Ctx3 st) (hst : st.state = .key) (t : Tok)
    (ht : ∀ e m, some t ≠ some (Tok.array e m) ∧ some t ≠ some (Tok.object e m)) (R : List Tok) :
    closeState (st.tape ++ t :: R)[st.parent]? = (false, .key) := by
  have := (hc.after_plain hst t ht R .key rfl).close
  simpa using this

/-- the context after a key has been pushed in Key state (possibly onto the empty tape). -/
theorem Ctx3.after_key {st : St} (hc : Ctx3 st) (hst : st.state = .key) (k : Scal) (X : Bytes)
    (R : List Tok) (s : PState) (hs : ret s = .key) :
    Ctx3 (St.mk s st.mixed st.parent (st.tape ++ k.tok X :: R)) := by
  by_cases hne : st.tape = []
  · have hp : st.parent = 0 := by
      rcases hc.plt with h | h
      · simp [hne] at h
      · exact h
    refine ⟨hc.mixed, ?_, .inr hp, ?_⟩
    · intro e m; simp only [hne, List.nil_append, List.getElem?_cons_zero]; exact k.tok_plain X e m
    · simp only [hne, hp, List.nil_append, List.getElem?_cons_zero, hs]
      exact closeState_plain (k.tok_plain X)
  · have := hc.append hne (k.tok X :: R) s (by rw [hs, hst]; rfl)
    exact this

theorem skipWs_elemsS_some {es : List (Bytes × Scal)} {a : Bytes} (hv : ElemsValid es a) {gc : Bytes}
    (hgc : Blank gc) (Y : Bytes) : ∃ d2, skipWs (renderElems es ++ (gc ++ 125 :: Y)) = some d2 := by
  cases es with
  | nil => exact ⟨_, by simp only [renderElems, List.nil_append]; rw [skipWs_blank hgc, skipWs_cons Y blank_close (by decide)]⟩
  | cons e r =>
    obtain ⟨g, s⟩ := e
    simp only [ElemsValid] at hv
    exact ⟨_, by simp only [renderElems, List.append_assoc]; rw [skipWs_blank hv.1, skipWs_scalX hv.2.1]⟩

theorem set_append_second {α} (A : List α) (a b X : α) (R : List α) :
    (A ++ a :: b :: R).set (A.length + 1) X = A ++ a :: X :: R := by
  rw [List.set_append_right _ _ (by omega)]
  simp

/-- two states are equal when their fields are. -/
theorem St.ext' {a b : St} (h1 : a.state = b.state) (h2 : a.mixed = b.mixed) (h3 : a.parent = b.parent)
    (h4 : a.tape = b.tape) : a = b := by
  cases a; cases b; simp_all

/-! ### whole values, field lists and element lists -/

mutual
theorem jrun_V (n : Nat) : ∀ (v : JVal) (after : Bytes) (fuel : Nat) (st : St),
    JValidV v after → (st.state = .objectValue ∨ st.state = .arrayValue) → Ctx3 st → st.tape ≠ [] →
    run n (fuel + jstepsV v) st (jrenderV v ++ after) =
      run n fuel { st with tape := st.tape ++ jtapeV v st.tape.length after, state := ret st.state } after
  | .scal g s, after, fuel, st, hv, hst, _, _ => by
    simp only [JValidV] at hv
    simp only [jstepsV, jrenderV, jtapeV, List.append_assoc]
    rw [run_cont (step_valX hst hv.1 hv.2.1 hv.2.2)]
  | .empty g gc, after, fuel, st, hv, hst, hc, hne => by
    simp only [JValidV] at hv
    have hfuel : fuel + jstepsV (.empty g gc) = (fuel + 1) + 1 := by simp only [jstepsV]
    rw [hfuel]
    simp only [jrenderV, List.append_assoc, List.cons_append, List.nil_append]
    rw [run_cont (step_open hst hv.1)]
    rw [run_cont (step_parseopen_empty (T := st.tape) (r := ret st.state) rfl rfl hv.2
      (by simpa using hc.close_append hne _))]
    congr 1
    exact St.ext' rfl hc.mixed.symm rfl (by simp [jtapeV])
  | .obj g g0 k g1 o v rest gc, after, fuel, st, hv, hst, hc, hne => by
    simp only [JValidV] at hv
    obtain ⟨hg, h0, h1, hgc, hk, hkb, hvv, hvr⟩ := hv
    have hlen : 0 < st.tape.length := List.length_pos_iff.2 hne
    have hfuel : fuel + jstepsV (.obj g g0 k g1 o v rest gc) =
        ((((fuel + 1) + jstepsF rest) + jstepsV v) + 1 + 1) + 1 := by simp only [jstepsV]; omega
    rw [hfuel]
    simp only [jrenderV, List.append_assoc, List.cons_append, List.nil_append]
    rw [run_cont (step_open hst hg)]
    rw [run_cont (step_parseopen_fieldX (T := st.tape) rfl (by simpa using hc.mixed) rfl h0 hk h1 hkb)]
    have hop := step_kvs_op (n := n) (g := []) (o := o)
      (st := { state := .kvs, mixed := false, parent := st.tape.length,
               tape := st.tape ++ [.object st.parent false,
                 k.tok (g1 ++ (o.text ++ (jrenderV v ++ (jrenderF rest ++ (gc ++ 125 :: after)))))] })
      (Y := jrenderV v ++ (jrenderF rest ++ (gc ++ 125 :: after))) rfl rfl .nil (head_jrenderV v _ _ hvv)
    simp only [List.nil_append] at hop
    rw [run_cont hop]
    simp only [List.append_assoc, List.cons_append, List.nil_append]
    -- the first value
    rw [jrun_V n v (jrenderF rest ++ (gc ++ 125 :: after)) _ _ hvv (.inl rfl)
      (hc.inner hne (.object st.parent false) _ .objectValue rfl) (by simp)]
    simp only [ret_ov, List.append_assoc, List.cons_append, List.nil_append]
    -- the other fields
    rw [jrun_F n rest (gc ++ 125 :: after) _ _ hvr rfl (hc.inner hne (.object st.parent false) _ .key rfl)]
    -- `}`
    rw [run_cont (step_key_close' (P := st.parent) (r := ret st.state) rfl hgc (by simp; omega) (by simp)
      (by simp) (by simpa using hc.close_append hne _))]
    congr 1
    refine St.ext' rfl hc.mixed.symm rfl ?_
    simp only [jtapeV, List.length_append, List.length_cons, len_jtapeV, len_jtapeF,
      List.append_assoc, List.cons_append, List.nil_append]
    rw [List.set_append_right _ _ (Nat.le_refl _)]
    simp only [Nat.sub_self, List.set_cons_zero]
    simp only [Nat.add_assoc, Nat.add_comm, Nat.add_left_comm]
  | .arrS g g0 s0 rest gc, after, fuel, st, hv, hst, hc, hne => by
    simp only [JValidV] at hv
    obtain ⟨hg, h0, hgc, hs0, hsb, hpk, hvr⟩ := hv
    have hlen : 0 < st.tape.length := List.length_pos_iff.2 hne
    have hfuel : fuel + jstepsV (.arrS g g0 s0 rest gc) = (((fuel + 1) + jstepsVs rest) + 1) + 1 := by
      simp only [jstepsV]; omega
    rw [hfuel]
    simp only [jrenderV, List.append_assoc, List.cons_append, List.nil_append]
    rw [run_cont (step_open hst hg)]
    -- the first scalar decides: array
    obtain ⟨d2, hd2⟩ := skipWs_elems_some hvr hgc after
    rw [run_cont (step_parseopen_scalar_arrX (T := st.tape) rfl (by simpa using hc.mixed) rfl h0 hs0 hsb hd2
      (hpk d2 hd2))]
    rw [← run_skip hd2]
    simp only [List.append_assoc, List.cons_append, List.nil_append]
    -- the other elements
    rw [jrun_Vs n rest (gc ++ 125 :: after) _ _ hvr rfl
      (hc.inner hne (.array st.parent false) _ .arrayValue rfl) (by simp)]
    -- `}`
    rw [run_cont (step_av_close (P := st.parent) (r := ret st.state) rfl hgc (by simp; omega) (by simp)
      (by simp) (by simpa using hc.close_append hne _))]
    congr 1
    refine St.ext' rfl hc.mixed.symm rfl ?_
    simp only [jtapeV, List.length_append, List.length_cons, List.length_nil, Nat.zero_add, len_jtapeVs,
      List.append_assoc, List.cons_append, List.nil_append]
    rw [List.set_append_right _ _ (Nat.le_refl _)]
    simp only [Nat.sub_self, List.set_cons_zero, List.append_assoc, List.cons_append]
    simp only [Nat.add_assoc, Nat.add_comm, Nat.add_left_comm]
  | .arrC g first rest gc, after, fuel, st, hv, hst, hc, hne => by
    simp only [JValidV] at hv
    obtain ⟨hg, hgc, hfc, hvf, hvr⟩ := hv
    have hlen : 0 < st.tape.length := List.length_pos_iff.2 hne
    have hfuel : fuel + jstepsV (.arrC g first rest gc) =
        ((((fuel + 1) + jstepsVs rest) + jstepsV first) + 1) + 1 := by simp only [jstepsV]; omega
    rw [hfuel]
    simp only [jrenderV, List.append_assoc, List.cons_append, List.nil_append]
    rw [run_cont (step_open hst hg)]
    -- a non-empty `{`: the container is an array, the `{` is read again by ArrayValue
    obtain ⟨gf, Xf, hrf, hgf, c2, r2, hsk, hc2⟩ := container_head hfc hvf (jrenderVs rest ++ (gc ++ 125 :: after))
    rw [hrf, run_cont (step_parseopen_container_arr (T := st.tape) rfl rfl hgf hsk hc2)]
    rw [← run_blank hgf, ← hrf]
    rw [jrun_V n first (jrenderVs rest ++ (gc ++ 125 :: after)) _ _ hvf (.inr rfl)
      (hc.inner hne (.array st.parent false) [] .arrayValue rfl) (by simp)]
    simp only [ret_av, List.append_assoc, List.cons_append, List.nil_append]
    rw [jrun_Vs n rest (gc ++ 125 :: after) _ _ hvr rfl
      (hc.inner hne (.array st.parent false) _ .arrayValue rfl) (by simp)]
    rw [run_cont (step_av_close (P := st.parent) (r := ret st.state) rfl hgc (by simp; omega) (by simp)
      (by simp) (by simpa using hc.close_append hne _))]
    congr 1
    refine St.ext' rfl hc.mixed.symm rfl ?_
    simp only [jtapeV, List.length_append, List.length_cons, List.length_nil, len_jtapeV, len_jtapeVs,
      List.append_assoc, List.cons_append, List.nil_append]
    rw [List.set_append_right _ _ (Nat.le_refl _)]
    simp only [Nat.sub_self, List.set_cons_zero, List.append_assoc, List.cons_append]
    simp only [Nat.add_assoc, Nat.add_comm, Nat.add_left_comm]
  | .ghostIn g b1 b2 v, after, fuel, st, hv, hst, hc, hne => by
    simp only [JValidV] at hv
    obtain ⟨hg, h1, h2, hbr, _, hvv⟩ := hv
    have hsteps : 1 ≤ jstepsV v := by cases v <;> simp [JVal.isBraced] at hbr <;> simp [jstepsV] <;> omega
    have hfuel : fuel + jstepsV (.ghostIn g b1 b2 v) = ((fuel + jstepsV v - 1) + 1) + 1 := by
      simp only [jstepsV]; omega
    rw [hfuel]
    simp only [jrenderV, List.append_assoc, List.cons_append, List.nil_append]
    rw [run_cont (step_open hst hg)]
    rw [run_cont (step_parseopen_ghost rfl h1 h2)]
    -- from here on the parser is where it would be behind the `{` of `v` itself
    have hback := run_cont (n := n) (m := fuel + jstepsV v - 1) (step_open (X := jinner v ++ after) hst
      (braced_gap hbr hvv))
    rw [← hback]
    have hr : v.gap ++ 123 :: (jinner v ++ after) = jrenderV v ++ after := by
      rw [render_inner hbr]; simp
    rw [hr, show fuel + jstepsV v - 1 + 1 = fuel + jstepsV v by omega]
    rw [jrun_V n v after fuel st hvv hst hc hne]
    simp only [jtapeV]
  | .mixed g g0 k g1 o v rest gm m0 elems gc, after, fuel, st, hv, hst, hc, hne => by
    simp only [JValidV] at hv
    obtain ⟨hg, h0, h1, hgm, hgc, hk, hkb, hvv, hvr, hm0, hm0b, hmx, hel⟩ := hv
    have hlen : 0 < st.tape.length := List.length_pos_iff.2 hne
    have hfuel : fuel + jstepsV (.mixed g g0 k g1 o v rest gm m0 elems gc) =
        (((((((fuel + 1) + elems.length) + 1) + 1) + jstepsF rest) + jstepsV v) + 1 + 1) + 1 := by
      simp only [jstepsV]; omega
    rw [hfuel]
    simp only [jrenderV, List.append_assoc, List.cons_append, List.nil_append]
    rw [run_cont (step_open hst hg)]
    rw [run_cont (step_parseopen_fieldX (T := st.tape) rfl (by simpa using hc.mixed) rfl h0 hk h1 hkb)]
    have hop := step_kvs_op (n := n) (g := []) (o := o)
      (st := { state := .kvs, mixed := false, parent := st.tape.length,
               tape := st.tape ++ [.object st.parent false,
                 k.tok (g1 ++ (o.text ++ (jrenderV v ++ (jrenderF rest ++ (gm ++ (m0.text ++
                   (renderElems elems ++ (gc ++ 125 :: after))))))))] })
      (Y := jrenderV v ++ (jrenderF rest ++ (gm ++ (m0.text ++ (renderElems elems ++ (gc ++ 125 :: after))))))
      rfl rfl .nil (head_jrenderV v _ _ hvv)
    simp only [List.nil_append] at hop
    rw [run_cont hop]
    simp only [List.append_assoc, List.cons_append, List.nil_append]
    rw [jrun_V n v (jrenderF rest ++ (gm ++ (m0.text ++ (renderElems elems ++ (gc ++ 125 :: after))))) _ _ hvv
      (.inl rfl) (hc.inner hne (.object st.parent false) _ .objectValue rfl) (by simp)]
    simp only [ret_ov, List.append_assoc, List.cons_append, List.nil_append]
    rw [jrun_F n rest (gm ++ (m0.text ++ (renderElems elems ++ (gc ++ 125 :: after)))) _ _ hvr rfl
      (hc.inner hne (.object st.parent false) _ .key rfl)]
    -- the first element of the array part is first read as a key …
    rw [run_cont (step_key_scalX rfl hgm hm0 hm0b)]
    -- … until KeyValueSeparator finds no operator behind it
    obtain ⟨d2, hd2⟩ := skipWs_elemsS_some hel hgc after
    obtain ⟨c, r, rfl, _⟩ := skipWsAux_some _ false d2 hd2
    obtain ⟨hop2, hc123⟩ := hmx _ hd2
    rw [run_cont (step_kvs_mixed (l := m0.tok (renderElems elems ++ (gc ++ 125 :: after))) rfl
      rfl hd2 hop2 (by simpa using hc123))]
    rw [← run_skip hd2]
    simp only [List.append_assoc, List.cons_append, List.nil_append]
    -- the other elements, then `}`
    rw [run_elems n elems (gc ++ 125 :: after) _ _ hel rfl]
    rw [run_cont (step_av_close_obj (P := st.parent) (r := ret st.state) rfl hgc (by simp; omega) (by simp)
      (by simp) (by simpa using hc.close_append hne _))]
    congr 1
    refine St.ext' rfl hc.mixed.symm rfl ?_
    simp only [jtapeV, List.length_append, List.length_cons, List.length_nil, len_jtapeV, len_jtapeF, len_elemToks,
      List.append_assoc, List.cons_append, List.nil_append]
    rw [List.set_append_right _ _ (Nat.le_refl _)]
    simp only [Nat.sub_self, List.set_cons_zero, List.append_assoc, List.cons_append]
    simp only [show (2 : Nat) = 1 + 1 from rfl]
    simp only [Nat.add_assoc, Nat.add_comm, Nat.add_left_comm]
theorem jrun_F (n : Nat) : ∀ (fs : JFields) (after : Bytes) (fuel : Nat) (st : St),
    JValidF fs after → st.state = .key → Ctx3 st →
    run n (fuel + jstepsF fs) st (jrenderF fs ++ after) =
      run n fuel { st with tape := st.tape ++ jtapeF fs st.tape.length after } after
  | .nil, after, fuel, st, _, _, _ => by simp [jstepsF, jrenderF, jtapeF]
  | .cons g0 k g1 o v rest, after, fuel, st, hv, hst, hc => by
    simp only [JValidF] at hv
    obtain ⟨h0, h1, hk, hkb, hvv, hvr⟩ := hv
    have hfuel : fuel + jstepsF (.cons g0 k g1 o v rest) = (((fuel + jstepsF rest) + jstepsV v) + 1) + 1 := by
      simp only [jstepsF]; omega
    rw [hfuel]
    simp only [jrenderF, List.append_assoc]
    have hkX : k.quoted = false →
        StartsBoundary (g1 ++ (o.text ++ (jrenderV v ++ (jrenderF rest ++ after)))) := by
      intro hq
      rcases hkb hq with h | ⟨c, r, h, hc'⟩
      · have : o.text ≠ [] := by cases o <;> simp [Op.text]
        simp at h; exact absurd h.2 this
      · exact .inr ⟨c, r ++ (jrenderV v ++ (jrenderF rest ++ after)), by
          rw [← List.cons_append, ← h]; simp, hc'⟩
    rw [run_cont (step_key_scalX hst h0 hk hkX)]
    rw [run_cont (step_kvs_op (by simp) (by simpa using hc.mixed) h1 (head_jrenderV v _ _ hvv))]
    simp only [List.append_assoc, List.cons_append, List.nil_append]
    rw [jrun_V n v (jrenderF rest ++ after) _ _ hvv (.inl rfl)
      (hc.after_key hst k _ o.toks .objectValue rfl) (by simp)]
    simp only [ret_ov, List.append_assoc, List.cons_append, List.nil_append]
    rw [jrun_F n rest after _ _ hvr rfl (hc.after_key hst k _ _ .key rfl)]
    congr 1
    refine St.ext' hst.symm rfl rfl ?_
    simp only [jtapeF, List.length_append, List.length_cons, len_jtapeV, List.append_assoc,
      List.cons_append, List.nil_append]
    simp only [Nat.add_assoc, Nat.add_comm, Nat.add_left_comm]
  | .consImp g0 k v rest, after, fuel, st, hv, hst, hc => by
    simp only [JValidF] at hv
    obtain ⟨h0, hk, hbr, hkb, hvv, hvr⟩ := hv
    have hfuel : fuel + jstepsF (.consImp g0 k v rest) = (((fuel + jstepsF rest) + jstepsV v) + 1) + 1 := by
      simp only [jstepsF]; omega
    rw [hfuel]
    simp only [jrenderF, List.append_assoc]
    rw [run_cont (step_key_scalX hst h0 hk hkb)]
    -- no operator: KeyValueSeparator hands the `{` to ObjectValue
    obtain ⟨gv, Xv, hrv, hgv⟩ := braced_open hbr hvv
    have hdata : jrenderV v ++ (jrenderF rest ++ after) = gv ++ 123 :: (Xv ++ (jrenderF rest ++ after)) := by
      rw [hrv]; simp
    have hk2 := step_kvs_open (n := n)
      (st := St.mk .kvs st.mixed st.parent (st.tape ++ [k.tok (jrenderV v ++ (jrenderF rest ++ after))]))
      (g := gv) (X := Xv ++ (jrenderF rest ++ after)) rfl hgv
    rw [← hdata] at hk2
    rw [run_cont hk2, ← run_blank hgv, ← hdata]
    rw [jrun_V n v (jrenderF rest ++ after) _ _ hvv (.inl rfl)
      (hc.after_key hst k _ [] .objectValue rfl) (by simp)]
    simp only [ret_ov, List.append_assoc, List.cons_append, List.nil_append]
    rw [jrun_F n rest after _ _ hvr rfl (hc.after_key hst k _ _ .key rfl)]
    congr 1
    refine St.ext' hst.symm rfl rfl ?_
    simp only [jtapeF, List.length_append, List.length_cons, List.length_nil, Nat.zero_add, len_jtapeV,
      List.append_assoc, List.cons_append, List.nil_append]
    simp only [Nat.add_comm]
  | .ghost g gc rest, after, fuel, st, hv, hst, hc => by
    simp only [JValidF] at hv
    have hfuel : fuel + jstepsF (.ghost g gc rest) = (fuel + jstepsF rest) + 1 := by
      simp only [jstepsF]; omega
    rw [hfuel]
    simp only [jrenderF, List.append_assoc, List.cons_append]
    rw [run_cont (step_key_ghost hst hv.1 hv.2.1)]
    rw [jrun_F n rest after _ _ hv.2.2 hst hc]
    simp only [jtapeF]
  | .consHdr g0 k g1 o gh h body rest, after, fuel, st, hv, hst, hc => by
    simp only [JValidF] at hv
    obtain ⟨h0, h1, hgh, hk, hkb, hh, hhq, hsb, hbc, hvb, hvr⟩ := hv
    have hsteps : 1 ≤ jstepsV body := by
      cases body <;> simp [JVal.isContainer] at hbc <;> simp [jstepsV] <;> omega
    have hfuel : fuel + jstepsF (.consHdr g0 k g1 o gh h body rest) =
        ((((fuel + jstepsF rest) + jstepsV body - 1) + 1) + 1 + 1) + 1 := by
      simp only [jstepsF]; omega
    rw [hfuel]
    simp only [jrenderF, List.append_assoc]
    have hkX : k.quoted = false →
        StartsBoundary (g1 ++ (o.text ++ (gh ++ (h.text ++ (jrenderV body ++ (jrenderF rest ++ after)))))) := by
      intro hq
      rcases hkb hq with he | ⟨c, r, he, hc'⟩
      · have : o.text ≠ [] := by cases o <;> simp [Op.text]
        simp at he; exact absurd he.2 this
      · exact .inr ⟨c, r ++ (gh ++ (h.text ++ (jrenderV body ++ (jrenderF rest ++ after)))), by
          rw [← List.cons_append, ← he]; simp, hc'⟩
    rw [run_cont (step_key_scalX hst h0 hk hkX)]
    rw [run_cont (step_kvs_op (by simp) (by simpa using hc.mixed) h1 (head_blank_scal hgh hh _))]
    -- the header scalar is first read as an ordinary value
    rw [run_cont (step_val_scal (by simp) hgh hh (fun _ => hsb))]
    simp only [List.append_assoc, List.cons_append, List.nil_append]
    -- then Key sees the `{`
    obtain ⟨gb, X, hrb, hgb, c2, r2, hsk, hc2⟩ := container_head hbc hvb (jrenderF rest ++ after)
    have htok : h.tok (jrenderV body ++ (jrenderF rest ++ after)) =
        .unquoted ⟨h.bytes.length + (jrenderV body ++ (jrenderF rest ++ after)).length, h.bytes⟩ := by
      simp [Scal.tok, hhq]
    rw [htok, hrb]
    rw [run_cont (step_key_header (T := st.tape ++ (k.tok (g1 ++ (o.text ++ (gh ++ (h.text ++ (gb ++ 123 :: X))))) :: o.toks))
      (sl := ⟨h.bytes.length + (gb ++ 123 :: X).length, h.bytes⟩) rfl (by simp) hgb hsk hc2)]
    rw [← run_skip hsk]
    -- from here on the parser is where it would be behind the `{` of `body` read as a value
    have hback := run_cont (n := n) (m := fuel + jstepsF rest + jstepsV body - 1)
      (step_open (g := gb) (X := X)
        (st := St.mk .objectValue st.mixed st.parent
          (st.tape ++ (k.tok (g1 ++ (o.text ++ (gh ++ (h.text ++ (gb ++ 123 :: X))))) :: o.toks) ++
            [.header ⟨h.bytes.length + (gb ++ 123 :: X).length, h.bytes⟩])) (.inl rfl) hgb)
    simp only [List.append_assoc, List.cons_append, List.nil_append] at hback ⊢
    rw [← hback, ← hrb, show fuel + jstepsF rest + jstepsV body - 1 + 1 = (fuel + jstepsF rest) + jstepsV body by omega]
    have hctx := hc.after_key hst k (g1 ++ (o.text ++ (gh ++ (h.text ++ (jrenderV body ++ (jrenderF rest ++ after))))))
      (o.toks ++ [.header ⟨h.bytes.length + (jrenderV body ++ (jrenderF rest ++ after)).length, h.bytes⟩])
      .objectValue rfl
    rw [jrun_V n body (jrenderF rest ++ after) _ _ hvb (.inl rfl) hctx (by simp)]
    simp only [ret_ov, List.append_assoc, List.cons_append, List.nil_append]
    have hctx2 := hc.after_key hst k (g1 ++ (o.text ++ (gh ++ (h.text ++ (jrenderV body ++ (jrenderF rest ++ after))))))
      (o.toks ++ ([.header ⟨h.bytes.length + (jrenderV body ++ (jrenderF rest ++ after)).length, h.bytes⟩] ++
        jtapeV body (st.tape ++ k.tok (g1 ++ (o.text ++ (gh ++ (h.text ++ (jrenderV body ++ (jrenderF rest ++ after)))))) ::
          (o.toks ++ [.header ⟨h.bytes.length + (jrenderV body ++ (jrenderF rest ++ after)).length, h.bytes⟩])).length
          (jrenderF rest ++ after)))
      .key rfl
    simp only [List.append_assoc, List.cons_append, List.nil_append] at hctx2
    rw [jrun_F n rest after _ _ hvr rfl hctx2]
    congr 1
    refine St.ext' hst.symm rfl rfl ?_
    simp only [jtapeF, List.length_append, List.length_cons, List.length_nil, len_jtapeV, List.append_assoc,
      List.cons_append, List.nil_append]
    simp only [Nat.add_assoc, Nat.add_comm, Nat.add_left_comm, Nat.zero_add]
  | .paramVal g0 isU name g1 val g2 rest, after, fuel, st, hv, hst, hc => by
    simp only [JValidF] at hv
    obtain ⟨h0, h1, h2, hn, hval, hq, hsb, hvr⟩ := hv
    have hfuel : fuel + jstepsF (.paramVal g0 isU name g1 val g2 rest) = (fuel + jstepsF rest) + 1 := by
      simp only [jstepsF]; omega
    rw [hfuel]
    simp only [jrenderF, paramOpen, List.append_assoc, List.cons_append, List.nil_append]
    have hstep := step_key_param (n := n) (isU := isU) hst h0 hn
      (g1 ++ (val.text ++ (g2 ++ 93 :: (jrenderF rest ++ after))))
    rw [pdAfter_val _ _ _ _ _ _ h1 h2 hval hq _ hsb] at hstep
    rw [run_cont hstep]
    simp only [List.append_assoc, List.cons_append, List.nil_append]
    rw [jrun_F n rest after _ _ hvr rfl (hc.after_plain hst _ (paramTok_plain _ _) _ .key rfl)]
    congr 1
    refine St.ext' hst.symm rfl rfl ?_
    simp only [jtapeF, List.length_append, List.length_cons, List.length_nil, List.append_assoc,
      List.cons_append, List.nil_append]
  | .paramObj g0 isU name g1 k g2 o v inner gc rest, after, fuel, st, hv, hst, hc => by
    simp only [JValidF] at hv
    obtain ⟨h0, h1, h2, hgc, hn, hk, hq, hsb, hvv, hvi, hvr⟩ := hv
    have hfuel : fuel + jstepsF (.paramObj g0 isU name g1 k g2 o v inner gc rest) =
        (((((fuel + jstepsF rest) + 1) + jstepsF inner) + jstepsV v) + 1) + 1 := by
      simp only [jstepsF]; omega
    rw [hfuel]
    simp only [jrenderF, paramOpen, List.append_assoc, List.cons_append, List.nil_append]
    have hstep := step_key_param (n := n) (isU := isU) hst h0 hn
      (g1 ++ (k.text ++ (g2 ++ (o.text ++ (jrenderV v ++ (jrenderF inner ++ (gc ++ 93 :: (jrenderF rest ++ after))))))))
    rw [pdAfter_obj _ _ _ _ _ _ h1 h2 hk hq _ hsb] at hstep
    rw [run_cont hstep]
    -- operator
    have hop := step_kvs_op (n := n) (g := []) (o := o)
      (st := St.mk .kvs st.mixed
        (st.tape ++ [paramTok isU ⟨(name ++ 93 :: (g1 ++ (k.text ++ (g2 ++ (o.text ++ (jrenderV v ++
          (jrenderF inner ++ (gc ++ 93 :: (jrenderF rest ++ after))))))))).length, name⟩]).length
        (st.tape ++ [paramTok isU ⟨(name ++ 93 :: (g1 ++ (k.text ++ (g2 ++ (o.text ++ (jrenderV v ++
          (jrenderF inner ++ (gc ++ 93 :: (jrenderF rest ++ after))))))))).length, name⟩] ++
          [.object st.parent false, .unquoted ⟨(k.text ++ (g2 ++ (o.text ++ (jrenderV v ++
            (jrenderF inner ++ (gc ++ 93 :: (jrenderF rest ++ after))))))).length, k.bytes⟩]))
      (Y := jrenderV v ++ (jrenderF inner ++ (gc ++ 93 :: (jrenderF rest ++ after)))) rfl hc.mixed .nil
      (head_jrenderV v _ _ hvv)
    simp only [List.nil_append] at hop
    rw [run_cont hop]
    simp only [List.append_assoc, List.cons_append, List.nil_append, hc.mixed]
    -- the context inside the block: the object sits right behind the parameter token
    have hctx0 := hc.after_plain hst (paramTok isU ⟨(name ++ 93 :: (g1 ++ (k.text ++ (g2 ++ (o.text ++ (jrenderV v ++
          (jrenderF inner ++ (gc ++ 93 :: (jrenderF rest ++ after))))))))).length, name⟩) (paramTok_plain _ _) [] .key rfl
    have hne1 : (St.mk PState.key st.mixed st.parent (st.tape ++ [paramTok isU ⟨(name ++ 93 :: (g1 ++ (k.text ++
        (g2 ++ (o.text ++ (jrenderV v ++ (jrenderF inner ++ (gc ++ 93 :: (jrenderF rest ++ after))))))))).length,
        name⟩])).tape ≠ [] := by simp
    have hin := fun R s h => Ctx3.inner hctx0 hne1 (.object st.parent false) R s h
    simp only [List.length_append, List.length_cons, List.length_nil, List.append_assoc, List.cons_append,
      List.nil_append] at hin
    rw [jrun_V n v (jrenderF inner ++ (gc ++ 93 :: (jrenderF rest ++ after))) _ _ hvv (.inl rfl)
      (by simpa using hin _ .objectValue rfl) (by simp)]
    simp only [ret_ov, List.append_assoc, List.cons_append, List.nil_append]
    rw [jrun_F n inner (gc ++ 93 :: (jrenderF rest ++ after)) _ _ hvi rfl (by simpa using hin _ .key rfl)]
    -- `]`
    rw [run_cont (step_key_close_br (P := st.parent) (r := .key) rfl hgc (by simp) (by simp)
      (by simp) (by simpa using hc.close_after_plain hst _ (paramTok_plain _ _) _))]
    simp only [List.append_assoc, List.cons_append, List.nil_append, List.length_append, List.length_cons,
      List.length_nil]
    rw [set_append_second]
    have hctxR := fun R => hc.after_plain hst (paramTok isU ⟨(name ++ 93 :: (g1 ++ (k.text ++ (g2 ++ (o.text ++
      (jrenderV v ++ (jrenderF inner ++ (gc ++ 93 :: (jrenderF rest ++ after))))))))).length, name⟩)
      (paramTok_plain _ _) R .key rfl
    simp only [hc.mixed, List.length_append, List.length_cons, List.length_nil] at hctxR
    rw [jrun_F n rest after _ _ hvr rfl (hctxR _)]
    congr 1
    refine St.ext' hst.symm (by simp [hc.mixed]) rfl ?_
    simp only [jtapeF, List.length_append, List.length_cons, List.length_nil, len_jtapeV, len_jtapeF,
      List.append_assoc, List.cons_append, List.nil_append]
    simp only [show (2 : Nat) = 1 + 1 from rfl, show (3 : Nat) = 1 + 1 + 1 from rfl]
    simp only [Nat.add_assoc, Nat.add_comm, Nat.add_left_comm, Nat.zero_add]
theorem jrun_Vs (n : Nat) : ∀ (vs : JVals) (after : Bytes) (fuel : Nat) (st : St),
    JValidVs vs after → st.state = .arrayValue → Ctx3 st → st.tape ≠ [] →
    run n (fuel + jstepsVs vs) st (jrenderVs vs ++ after) =
      run n fuel { st with tape := st.tape ++ jtapeVs vs st.tape.length after } after
  | .nil, after, fuel, st, _, _, _, _ => by simp [jstepsVs, jrenderVs, jtapeVs]
  | .cons v rest, after, fuel, st, hv, hst, hc, hne => by
    simp only [JValidVs] at hv
    have hfuel : fuel + jstepsVs (.cons v rest) = (fuel + jstepsVs rest) + jstepsV v := by
      simp only [jstepsVs]; omega
    rw [hfuel]
    simp only [jrenderVs, List.append_assoc]
    rw [jrun_V n v (jrenderVs rest ++ after) _ _ hv.1 (.inr hst) hc hne]
    have hctx := hc.append hne (jtapeV v st.tape.length (jrenderVs rest ++ after)) .arrayValue (by rw [hst])
    rw [hst]
    simp only [ret_av]
    rw [jrun_Vs n rest after _ _ hv.2 rfl hctx (by simp [hne])]
    congr 1
    refine St.ext' rfl rfl rfl ?_
    simp only [jtapeVs, List.length_append, len_jtapeV, List.append_assoc]
end

/-! ### whole documents -/

theorem elems_len_le : ∀ (es : List (Bytes × Scal)) (a : Bytes), ElemsValid es a →
    es.length ≤ (renderElems es).length
  | [], _, _ => by simp
  | (g, s) :: r, a, hv => by
    simp only [ElemsValid] at hv
    have := hv.2.1.text_pos
    have := elems_len_le r a hv.2.2.2
    simp only [renderElems, List.length_append, List.length_cons]; omega


mutual
theorem jstepsV_le : ∀ (v : JVal) (a : Bytes), JValidV v a → jstepsV v ≤ 2 * (jrenderV v).length
  | .scal g s, a, hv => by
    simp only [JValidV] at hv
    have := hv.2.1.text_pos
    simp only [jstepsV, jrenderV, List.length_append]; omega
  | .empty g gc, a, _ => by
    simp only [jstepsV, jrenderV, List.length_append, List.length_cons, List.length_nil]; omega
  | .obj g g0 k g1 o v rest gc, a, hv => by
    simp only [JValidV] at hv
    have h1 := hv.2.2.2.2.1.text_pos
    have h2 := o.text_pos
    have h3 := jstepsV_le v _ hv.2.2.2.2.2.2.1
    have h4 := jstepsF_le rest _ hv.2.2.2.2.2.2.2
    simp only [jstepsV, jrenderV, List.length_append, List.length_cons, List.length_nil]; omega
  | .arrS g g0 s0 rest gc, a, hv => by
    simp only [JValidV] at hv
    have h1 := hv.2.2.2.1.text_pos
    have h4 := jstepsVs_le rest _ hv.2.2.2.2.2.2
    simp only [jstepsV, jrenderV, List.length_append, List.length_cons, List.length_nil]; omega
  | .arrC g first rest gc, a, hv => by
    simp only [JValidV] at hv
    have h3 := jstepsV_le first _ hv.2.2.2.1
    have h4 := jstepsVs_le rest _ hv.2.2.2.2
    simp only [jstepsV, jrenderV, List.length_append, List.length_cons, List.length_nil]; omega
  | .ghostIn g b1 b2 v, a, hv => by
    simp only [JValidV] at hv
    have h3 := jstepsV_le v _ hv.2.2.2.2.2
    have h4 : (jrenderV v).length = 1 + (jinner v).length := by
      rw [render_inner hv.2.2.2.1, hv.2.2.2.2.1]; simp; omega
    simp only [jstepsV, jrenderV, List.length_append, List.length_cons]; omega
  | .mixed g g0 k g1 o v rest gm m0 elems gc, a, hv => by
    simp only [JValidV] at hv
    obtain ⟨_, _, _, _, _, hk, _, hvv, hvr, hm0, _, _, hel⟩ := hv
    have h1 := hk.text_pos
    have h2 := o.text_pos
    have h3 := jstepsV_le v _ hvv
    have h4 := jstepsF_le rest _ hvr
    have h5 := hm0.text_pos
    have h6 := elems_len_le elems _ hel
    simp only [jstepsV, jrenderV, List.length_append, List.length_cons, List.length_nil]; omega
theorem jstepsF_le : ∀ (fs : JFields) (a : Bytes), JValidF fs a → jstepsF fs ≤ 2 * (jrenderF fs).length
  | .nil, _, _ => by simp [jstepsF]
  | .cons g0 k g1 o v rest, a, hv => by
    simp only [JValidF] at hv
    have h1 := hv.2.2.1.text_pos
    have h2 := o.text_pos
    have h3 := jstepsV_le v _ hv.2.2.2.2.1
    have h4 := jstepsF_le rest _ hv.2.2.2.2.2
    simp only [jstepsF, jrenderF, List.length_append]; omega
  | .consImp g0 k v rest, a, hv => by
    simp only [JValidF] at hv
    have h1 := hv.2.1.text_pos
    have h3 := jstepsV_le v _ hv.2.2.2.2.1
    have h4 := jstepsF_le rest _ hv.2.2.2.2.2
    have h5 : 1 ≤ (jrenderV v).length := by
      cases v <;> simp [JVal.isBraced] at hv <;> simp [jrenderV] <;> omega
    simp only [jstepsF, jrenderF, List.length_append]; omega
  | .ghost g gc rest, a, hv => by
    simp only [JValidF] at hv
    have h4 := jstepsF_le rest _ hv.2.2
    simp only [jstepsF, jrenderF, List.length_append, List.length_cons]; omega
  | .consHdr g0 k g1 o gh h body rest, a, hv => by
    simp only [JValidF] at hv
    obtain ⟨_, _, _, hk, _, hh, _, _, _, hvb, hvr⟩ := hv
    have h1 := hk.text_pos
    have h2 := o.text_pos
    have h5 := hh.text_pos
    have h3 := jstepsV_le body _ hvb
    have h4 := jstepsF_le rest _ hvr
    simp only [jstepsF, jrenderF, List.length_append]; omega
  | .paramVal g0 isU name g1 val g2 rest, a, hv => by
    simp only [JValidF] at hv
    have h4 := jstepsF_le rest _ hv.2.2.2.2.2.2.2
    simp only [jstepsF, jrenderF, paramOpen, List.length_append, List.length_cons]; omega
  | .paramObj g0 isU name g1 k g2 o v inner gc rest, a, hv => by
    simp only [JValidF] at hv
    obtain ⟨_, _, _, _, _, hk, _, _, hvv, hvi, hvr⟩ := hv
    have h1 := hk.text_pos
    have h2 := o.text_pos
    have h3 := jstepsV_le v _ hvv
    have h4 := jstepsF_le inner _ hvi
    have h5 := jstepsF_le rest _ hvr
    simp only [jstepsF, jrenderF, paramOpen, List.length_append, List.length_cons]; omega
theorem jstepsVs_le : ∀ (vs : JVals) (a : Bytes), JValidVs vs a → jstepsVs vs ≤ 2 * (jrenderVs vs).length
  | .nil, _, _ => by simp [jstepsVs]
  | .cons v rest, a, hv => by
    simp only [JValidVs] at hv
    have h3 := jstepsV_le v _ hv.1
    have h4 := jstepsVs_le rest _ hv.2
    simp only [jstepsVs, jrenderVs, List.length_append]; omega
end

/-- C01_faithful, fragment 3 (with the positions): a document of fields whose values are scalars,
empty containers, objects and arrays (of scalars, objects, arrays), nested to any depth, under any
valid layout, parses to exactly its keys, operators, scalars, container kinds and `end` links. -/
theorem parse_tree (fs : JFields) (gt : Bytes) (hgt : Blank gt) (hv : JValidF fs gt)
    (hb : hasBom (jrenderF fs ++ gt) = false) :
    parse (jrenderF fs ++ gt) = .ok (jtapeF fs 0 gt) false := by
  have hsteps := jstepsF_le fs gt hv
  unfold parse
  simp only [hb, Bool.false_eq_true, if_false]
  have hf : fuelFor (jrenderF fs ++ gt) =
      ((2 * (jrenderF fs ++ gt).length + 3 - jstepsF fs) + 1) + jstepsF fs := by
    simp only [fuelFor, List.length_append]; omega
  rw [hf, jrun_F _ fs gt _ St.init hv rfl ⟨rfl, by simp [St.init], .inr rfl, by simp [St.init, closeState]⟩]
  have hsk : skipWs gt = none := by
    have := skipWs_blank hgt []
    simpa [skipWs, skipWsAux] using this
  simp [run, step, hsk, atEof, St.init, Res.withBom]

mutual
theorem kcnt_V : ∀ v : JVal, kcntV (kcontentV v) = jcntV v
  | .scal _ _ => rfl
  | .empty _ _ => rfl
  | .obj _ _ _ _ o v rest _ => by
    simp only [kcontentV, kcntV, kcntF, jcntV, kcnt_V v, kcnt_F rest]; omega
  | .arrS _ _ _ rest _ => by
    simp only [kcontentV, kcntV, kcntVs, jcntV, kcnt_Vs rest]; omega
  | .arrC _ first rest _ => by
    simp only [kcontentV, kcntV, kcntVs, jcntV, kcnt_V first, kcnt_Vs rest]; omega
  | .ghostIn _ _ _ v => by simp only [kcontentV, jcntV, kcnt_V v]
  | .mixed _ _ _ _ o v rest _ _ elems _ => by
    simp only [kcontentV, kcntV, kcntF, jcntV, kcnt_V v, kcnt_F rest, List.length_cons, List.length_map]; omega
theorem kcnt_F : ∀ fs : JFields, kcntF (kcontentF fs) = jcntF fs
  | .nil => rfl
  | .cons _ _ _ o v rest => by simp only [kcontentF, kcntF, jcntF, kcnt_V v, kcnt_F rest]
  | .consImp _ _ v rest => by
    simp only [kcontentF, kcntF, jcntF, kcnt_V v, kcnt_F rest, Op.toks, List.length_nil]
    try omega
  | .ghost _ _ rest => by simp only [kcontentF, jcntF, kcnt_F rest]
  | .consHdr _ _ _ o _ _ body rest => by
    simp only [kcontentF, kcntF, kcntV, jcntF, kcnt_V body, kcnt_F rest]
  | .paramVal _ _ _ _ _ _ rest => by simp only [kcontentF, kcntF, jcntF, kcnt_F rest]
  | .paramObj _ _ _ _ _ _ o v inner _ rest => by
    simp only [kcontentF, kcntF, jcntF, kcnt_V v, kcnt_F inner, kcnt_F rest]; omega
theorem kcnt_Vs : ∀ vs : JVals, kcntVs (kcontentVs vs) = jcntVs vs
  | .nil => rfl
  | .cons v rest => by simp only [kcontentVs, kcntVs, jcntVs, kcnt_V v, kcnt_Vs rest]
end

theorem erase_array (e : Nat) (m : Bool) : (Tok.array e m).erase = Tok.array e m := rfl
theorem erase_object (e : Nat) (m : Bool) : (Tok.object e m).erase = Tok.object e m := rfl
theorem erase_endTok (i : Nat) : (Tok.endTok i).erase = Tok.endTok i := rfl

theorem elemToks_erase : ∀ (es : List (Bytes × Scal)) (a : Bytes),
    (elemToks es a).map Tok.erase = (es.map (·.2)).map (fun s => (s.tok []).erase)
  | [], _ => rfl
  | (_, s) :: r, a => by simp [elemToks, Scal.tok_erase s, elemToks_erase r a]

mutual
theorem jtapeV_erase : ∀ (v : JVal) (b : Nat) (a : Bytes),
    (jtapeV v b a).map Tok.erase = ktapeV (kcontentV v) b
  | .scal _ s, b, a => by simp [jtapeV, kcontentV, ktapeV, Scal.tok_erase s a]
  | .empty _ _, b, a => by simp [jtapeV, kcontentV, ktapeV, erase_array, erase_endTok]
  | .obj _ _ k g1 o v rest gc, b, a => by
    simp only [jtapeV, kcontentV, ktapeV, ktapeF, kcntF, List.map_append, List.map_cons, List.map_nil,
      Scal.tok_erase k, Op.toks_erase, jtapeV_erase v, jtapeF_erase rest, kcnt_V, kcnt_F,
      erase_object, erase_endTok, List.append_assoc, List.cons_append, List.nil_append]
    simp only [Nat.add_assoc, Nat.add_comm, Nat.add_left_comm]
  | .arrS _ _ s0 rest gc, b, a => by
    simp only [jtapeV, kcontentV, ktapeV, ktapeVs, kcntVs, kcntV, List.map_append, List.map_cons, List.map_nil,
      Scal.tok_erase s0, jtapeVs_erase rest, kcnt_Vs,
      erase_array, erase_endTok, List.append_assoc, List.cons_append, List.nil_append]
    simp only [Nat.add_assoc, Nat.add_comm, Nat.add_left_comm]
  | .arrC _ first rest gc, b, a => by
    simp only [jtapeV, kcontentV, ktapeV, ktapeVs, kcntVs, List.map_append, List.map_cons, List.map_nil,
      jtapeV_erase first, jtapeVs_erase rest, kcnt_V, kcnt_Vs,
      erase_array, erase_endTok, List.append_assoc, List.cons_append, List.nil_append]
    simp only [Nat.add_assoc, Nat.add_comm, Nat.add_left_comm]
  | .ghostIn _ _ _ v, b, a => by simp only [jtapeV, kcontentV, jtapeV_erase v]
  | .mixed _ _ k g1 o v rest gm m0 elems gc, b, a => by
    have hm : Tok.mixedContainer.erase = Tok.mixedContainer := rfl
    simp only [jtapeV, kcontentV, ktapeV, ktapeF, kcntF, List.map_append, List.map_cons, List.map_nil,
      Scal.tok_erase k, Scal.tok_erase m0, Op.toks_erase, jtapeV_erase v, jtapeF_erase rest, kcnt_V, kcnt_F,
      erase_object, erase_endTok, hm, elemToks_erase, List.length_cons, List.length_map,
      List.append_assoc, List.cons_append, List.nil_append]
    have harith : b + 1 + (1 + o.toks.length + jcntV v) + jcntF rest + 2 + elems.length =
        b + 1 + (1 + o.toks.length + jcntV v + jcntF rest) + 1 + (elems.length + 1) := by omega
    rw [harith]
theorem jtapeF_erase : ∀ (fs : JFields) (b : Nat) (a : Bytes),
    (jtapeF fs b a).map Tok.erase = ktapeF (kcontentF fs) b
  | .nil, _, _ => rfl
  | .cons _ k g1 o v rest, b, a => by
    simp only [jtapeF, kcontentF, ktapeF, List.map_append, List.map_cons, List.map_nil,
      Scal.tok_erase k, Op.toks_erase, jtapeV_erase v, jtapeF_erase rest, kcnt_V,
      List.append_assoc, List.cons_append, List.nil_append]
  | .consImp _ k v rest, b, a => by
    simp only [jtapeF, kcontentF, ktapeF, List.map_append, List.map_cons, List.map_nil,
      Scal.tok_erase k, jtapeV_erase v, jtapeF_erase rest, kcnt_V, Op.toks, List.length_nil,
      List.append_assoc, List.cons_append, List.nil_append, List.append_nil, Nat.add_zero]
  | .ghost _ _ rest, b, a => by simp only [jtapeF, kcontentF, jtapeF_erase rest]
  | .consHdr _ k g1 o gh h body rest, b, a => by
    have he : ∀ sl : Slice, (Tok.header sl).erase = Tok.header ⟨0, sl.bytes⟩ := fun _ => rfl
    simp only [jtapeF, kcontentF, ktapeF, ktapeV, kcntV, List.map_append, List.map_cons, List.map_nil,
      Scal.tok_erase k, Op.toks_erase, jtapeV_erase body, jtapeF_erase rest, kcnt_V, he,
      List.append_assoc, List.cons_append, List.nil_append]
  | .paramVal _ isU name g1 val g2 rest, b, a => by
    have hq : ∀ X, (Tok.unquoted ⟨X, val.bytes⟩).erase = .unquoted ⟨0, val.bytes⟩ := fun _ => rfl
    simp only [jtapeF, kcontentF, ktapeF, List.map_append, List.map_cons, List.map_nil, paramTok_erase, hq,
      jtapeF_erase rest]
  | .paramObj _ isU name g1 k g2 o v inner gc rest, b, a => by
    have hq : ∀ X, (Tok.unquoted ⟨X, k.bytes⟩).erase = .unquoted ⟨0, k.bytes⟩ := fun _ => rfl
    simp only [jtapeF, kcontentF, ktapeF, kcntF, List.map_append, List.map_cons, List.map_nil, paramTok_erase, hq,
      Op.toks_erase, jtapeV_erase v, jtapeF_erase inner, jtapeF_erase rest, kcnt_V, kcnt_F, erase_object,
      erase_endTok, List.append_assoc, List.cons_append, List.nil_append]
    have hk0 : ((Scal.mk false k.bytes).tok []).erase = Tok.unquoted ⟨0, k.bytes⟩ := rfl
    simp only [hk0, show (2 : Nat) = 1 + 1 from rfl, show (3 : Nat) = 1 + 1 + 1 from rfl]
    simp only [Nat.add_assoc, Nat.add_comm, Nat.add_left_comm]
theorem jtapeVs_erase : ∀ (vs : JVals) (b : Nat) (a : Bytes),
    (jtapeVs vs b a).map Tok.erase = ktapeVs (kcontentVs vs) b
  | .nil, _, _ => rfl
  | .cons v rest, b, a => by
    simp only [jtapeVs, kcontentVs, ktapeVs, List.map_append, jtapeV_erase v, jtapeVs_erase rest, kcnt_V]
end

/-- C01_faithful, fragment 3: up to the positions, the tape is the document's content. -/
theorem faithful_tree (fs : JFields) (gt : Bytes) (hgt : Blank gt) (hv : JValidF fs gt)
    (hb : hasBom (jrenderF fs ++ gt) = false) :
    ∃ T, parse (jrenderF fs ++ gt) = .ok T false ∧ T.map Tok.erase = ktapeF (kcontentF fs) 0 :=
  ⟨_, parse_tree fs gt hgt hv hb, jtapeF_erase fs 0 gt⟩

/-- C01_layout_independent, fragment 3: two valid layouts of the same document give the same tape
up to positions (same tokens, same container kinds, same `end` links). -/
theorem layout_independent_tree (fs fs' : JFields) (gt gt' : Bytes) (hgt : Blank gt) (hgt' : Blank gt')
    (hv : JValidF fs gt) (hv' : JValidF fs' gt')
    (hb : hasBom (jrenderF fs ++ gt) = false) (hb' : hasBom (jrenderF fs' ++ gt') = false)
    (hc : kcontentF fs = kcontentF fs') :
    ∃ T T', parse (jrenderF fs ++ gt) = .ok T false ∧ parse (jrenderF fs' ++ gt') = .ok T' false ∧
      T.map Tok.erase = T'.map Tok.erase :=
  ⟨_, _, parse_tree fs gt hgt hv hb, parse_tree fs' gt' hgt' hv' hb', by
    rw [jtapeF_erase, jtapeF_erase, hc]⟩

/-- `a={1 {b=c} {}} d={{x}}` + newline: arrays of scalars / objects / empty containers / arrays. -/
def exampleTree : JFields :=
  .cons [] ⟨false, [97]⟩ [] .eq
    (.arrS [] [] ⟨false, [49]⟩
      (.cons (.obj [32] [] ⟨false, [98]⟩ [] .eq (.scal [] ⟨false, [99]⟩) .nil [])
        (.cons (.empty [32] []) .nil)) [])
    (.cons [32] ⟨false, [100]⟩ [] .eq
      (.arrC [] (.arrS [] [] ⟨false, [120]⟩ .nil []) .nil []) .nil)

example : parse (jrenderF exampleTree ++ [10]) = .ok (jtapeF exampleTree 0 [10]) false := by
  decide +kernel

theorem peek_concrete {Z d : Bytes} (hZ : skipWs Z = some d) (hp : firstFieldPeek d = false) :
    ∀ d2, skipWs Z = some d2 → firstFieldPeek d2 = false := by
  intro d2 h; rw [hZ] at h; cases h; exact hp

theorem exampleTree_valid :
    JValidF exampleTree [10] ∧ Blank [10] ∧ hasBom (jrenderF exampleTree ++ [10]) = false := by
  have hb : ∀ c : UInt8, isBoundary c = true → ∀ r, StartsBoundary (c :: r) := fun c h r => .inr ⟨c, r, rfl, h⟩
  have sp : Blank [32] := .ws 32 [] (by decide +kernel) .nil
  have u : ∀ c : UInt8, isBoundary c = false → isBlank c = false → c ≠ 34 → c ≠ 64 → (Scal.mk false [c]).ValidX :=
    fun c a b d e => .inl (unq_valid c a b d e)
  refine ⟨?_, .ws 10 [] (by decide +kernel) .nil, by decide +kernel⟩
  simp only [exampleTree, JValidF, JValidV, JValidVs, jrenderF, jrenderV, jrenderVs, Op.text, Scal.text,
    JVal.isContainer, List.nil_append, List.append_nil, and_true, true_and]
  refine ⟨.nil, .nil, u 97 (by decide +kernel) (by decide +kernel) (by decide) (by decide),
    fun _ => hb 61 (by decide +kernel) _, ?_, ?_⟩
  · -- a = {1 {b=c} {}}
    refine ⟨.nil, .nil, .nil, u 49 (by decide +kernel) (by decide +kernel) (by decide) (by decide),
      fun _ => hb 32 (by decide +kernel) _, peek_concrete (d := [123, 98, 61, 99, 125, 32, 123, 125, 125, 32, 100, 61, 123, 123, 120, 125, 125, 10]) (by decide +kernel) (by decide +kernel), ?_, ?_⟩
    · exact ⟨sp, .nil, .nil, .nil, u 98 (by decide +kernel) (by decide +kernel) (by decide) (by decide),
        fun _ => hb 61 (by decide +kernel) _, .nil, u 99 (by decide +kernel) (by decide +kernel) (by decide) (by decide),
        fun _ => hb 125 (by decide +kernel) _⟩
    · exact ⟨sp, .nil⟩
  · -- d = {{x}}
    refine ⟨sp, .nil, u 100 (by decide +kernel) (by decide +kernel) (by decide) (by decide),
      fun _ => hb 61 (by decide +kernel) _, .nil, .nil, .nil, .nil, .nil,
      u 120 (by decide +kernel) (by decide +kernel) (by decide) (by decide),
      fun _ => hb 125 (by decide +kernel) _, peek_concrete (d := [125, 125, 10]) (by decide +kernel) (by decide +kernel)⟩

/-- C01_faithful, BOM in front of a structured document (fragment 3): the tape is the tape of
the document, positions included, and the BOM flag is set. -/
theorem parse_tree_bom (fs : JFields) (gt : Bytes) (hgt : Blank gt) (hv : JValidF fs gt)
    (hb : hasBom (jrenderF fs ++ gt) = false) :
    parse (0xef :: 0xbb :: 0xbf :: (jrenderF fs ++ gt)) = .ok (jtapeF fs 0 gt) true := by
  rw [parse_bom' _ hb, parse_tree fs gt hgt hv hb]; rfl

/-- `c=rgb{1 2} g={{} x}` + newline: a header and a ghost `{}` at the start of a container. -/
def exampleHdr : JFields :=
  .consHdr [] ⟨false, [99]⟩ [] .eq [] ⟨false, [114, 103, 98]⟩
    (.arrS [] [] ⟨false, [49]⟩ (.cons (.scal [32] ⟨false, [50]⟩) .nil) [])
    (.cons [32] ⟨false, [103]⟩ [] .eq
      (.ghostIn [] [] [] (.arrS [] [32] ⟨false, [120]⟩ .nil [])) .nil)

example : parse (jrenderF exampleHdr ++ [10]) = .ok (jtapeF exampleHdr 0 [10]) false := by
  decide +kernel

theorem exampleHdr_valid :
    JValidF exampleHdr [10] ∧ Blank [10] ∧ hasBom (jrenderF exampleHdr ++ [10]) = false := by
  have hb : ∀ c : UInt8, isBoundary c = true → ∀ r, StartsBoundary (c :: r) := fun c h r => .inr ⟨c, r, rfl, h⟩
  have sp : Blank [32] := .ws 32 [] (by decide +kernel) .nil
  have u : ∀ c : UInt8, isBoundary c = false → isBlank c = false → c ≠ 34 → c ≠ 64 → (Scal.mk false [c]).ValidX :=
    fun c a b d e => .inl (unq_valid c a b d e)
  refine ⟨?_, .ws 10 [] (by decide +kernel) .nil, by decide +kernel⟩
  simp only [exampleHdr, JValidF, JValidV, JValidVs, jrenderF, jrenderV, jrenderVs, jinner, Op.text, Scal.text,
    JVal.isContainer, JVal.isBraced, JVal.gap, List.nil_append, List.append_nil, and_true, true_and]
  refine ⟨.nil, .nil, .nil, u 99 (by decide +kernel) (by decide +kernel) (by decide) (by decide),
    fun _ => hb 61 (by decide +kernel) _, ?_, hb 123 (by decide +kernel) _, ?_, ?_⟩
  · simp only [Scal.Valid, Bool.false_eq_true, if_false]
    exact ⟨by decide +kernel, 114, [103, 98], rfl, by decide +kernel, by decide, by decide⟩
  · exact ⟨.nil, .nil, .nil, u 49 (by decide +kernel) (by decide +kernel) (by decide) (by decide),
      fun _ => hb 32 (by decide +kernel) _,
      peek_concrete (d := [50, 125, 32, 103, 61, 123, 123, 125, 32, 120, 125, 10]) (by decide +kernel) (by decide +kernel),
      ⟨sp, u 50 (by decide +kernel) (by decide +kernel) (by decide) (by decide), fun _ => hb 125 (by decide +kernel) _⟩⟩
  · exact ⟨sp, .nil, u 103 (by decide +kernel) (by decide +kernel) (by decide) (by decide),
      fun _ => hb 61 (by decide +kernel) _, .nil, .nil, .nil, .nil, sp, .nil,
      u 120 (by decide +kernel) (by decide +kernel) (by decide) (by decide),
      fun _ => hb 125 (by decide +kernel) _,
      peek_concrete (d := [125, 10]) (by decide +kernel) (by decide +kernel)⟩

/-- `@x = @[1 + x] y=@x` + newline: a variable as key and value, an interpolated expression. -/
def exampleVar : JFields :=
  .cons [] ⟨false, [64, 120]⟩ [32] .eq (.scal [32] ⟨false, [64, 91, 49, 32, 43, 32, 120, 93]⟩)
    (.cons [32] ⟨false, [121]⟩ [] .eq (.scal [] ⟨false, [64, 120]⟩) .nil)

example : parse (jrenderF exampleVar ++ [10]) = .ok (jtapeF exampleVar 0 [10]) false := by
  decide +kernel

theorem exampleVar_valid :
    JValidF exampleVar [10] ∧ Blank [10] ∧ hasBom (jrenderF exampleVar ++ [10]) = false := by
  have hb : ∀ c : UInt8, isBoundary c = true → ∀ r, StartsBoundary (c :: r) := fun c h r => .inr ⟨c, r, rfl, h⟩
  have sp : Blank [32] := .ws 32 [] (by decide +kernel) .nil
  have hvar : (Scal.mk false [64, 120]).ValidX :=
    .inr (.inl ⟨rfl, [120], rfl, by simp, by decide +kernel⟩)
  have hint : (Scal.mk false [64, 91, 49, 32, 43, 32, 120, 93]).ValidX :=
    .inr (.inr ⟨rfl, [49, 32, 43, 32, 120], rfl, by decide⟩)
  refine ⟨?_, .ws 10 [] (by decide +kernel) .nil, by decide +kernel⟩
  simp only [exampleVar, JValidF, JValidV, jrenderF, jrenderV, Op.text, Scal.text,
    List.nil_append, List.append_nil, and_true, true_and]
  exact ⟨.nil, sp, hvar, fun _ => hb 32 (by decide +kernel) _,
    ⟨sp, hint, fun _ => hb 32 (by decide +kernel) _⟩,
    sp, .nil, .inl (unq_valid 121 (by decide +kernel) (by decide +kernel) (by decide) (by decide)),
    fun _ => hb 61 (by decide +kernel) _, ⟨.nil, hvar, fun _ => hb 10 (by decide +kernel) _⟩⟩

/-- `a={b=c d e}` + newline: an object that continues as a bare list. -/
def exampleMixed : JFields :=
  .cons [] ⟨false, [97]⟩ [] .eq
    (.mixed [] [] ⟨false, [98]⟩ [] .eq (.scal [] ⟨false, [99]⟩) .nil [32] ⟨false, [100]⟩
      [([32], ⟨false, [101]⟩)] []) .nil

example : parse (jrenderF exampleMixed ++ [10]) = .ok (jtapeF exampleMixed 0 [10]) false := by
  decide +kernel

theorem mix_concrete {E d : Bytes} (hE : skipWs E = some d) (h1 : lexOperator true d = none)
    (h2 : d.head? ≠ some 123) :
    ∀ d2, skipWs E = some d2 → lexOperator true d2 = none ∧ d2.head? ≠ some 123 := by
  intro d2 h; rw [hE] at h; cases h; exact ⟨h1, h2⟩

theorem exampleMixed_valid :
    JValidF exampleMixed [10] ∧ Blank [10] ∧ hasBom (jrenderF exampleMixed ++ [10]) = false := by
  have hb : ∀ c : UInt8, isBoundary c = true → ∀ r, StartsBoundary (c :: r) := fun c h r => .inr ⟨c, r, rfl, h⟩
  have sp : Blank [32] := .ws 32 [] (by decide +kernel) .nil
  have u : ∀ c : UInt8, isBoundary c = false → isBlank c = false → c ≠ 34 → c ≠ 64 → (Scal.mk false [c]).ValidX :=
    fun c a b d e => .inl (unq_valid c a b d e)
  refine ⟨?_, .ws 10 [] (by decide +kernel) .nil, by decide +kernel⟩
  simp only [exampleMixed, JValidF, JValidV, ElemsValid, jrenderF, jrenderV, renderElems, Op.text, Scal.text,
    List.nil_append, List.append_nil, and_true, true_and]
  refine ⟨.nil, .nil, u 97 (by decide +kernel) (by decide +kernel) (by decide) (by decide),
    fun _ => hb 61 (by decide +kernel) _, .nil, .nil, .nil, sp, .nil,
    u 98 (by decide +kernel) (by decide +kernel) (by decide) (by decide),
    fun _ => hb 61 (by decide +kernel) _,
    ⟨.nil, u 99 (by decide +kernel) (by decide +kernel) (by decide) (by decide), fun _ => hb 32 (by decide +kernel) _⟩,
    u 100 (by decide +kernel) (by decide +kernel) (by decide) (by decide),
    fun _ => hb 32 (by decide +kernel) _,
    mix_concrete (d := [101, 125, 10]) (by decide +kernel) (by decide +kernel) (by decide),
    sp, u 101 (by decide +kernel) (by decide +kernel) (by decide) (by decide),
    fun _ => hb 125 (by decide +kernel) _⟩

/-- `[[x] a=b c=d ] [[!y] v ] e=f` + newline: parameter blocks, object and value form. -/
def exampleParam : JFields :=
  .paramObj [] false [120] [32] ⟨false, [97]⟩ [] .eq (.scal [] ⟨false, [98]⟩)
    (.cons [32] ⟨false, [99]⟩ [] .eq (.scal [] ⟨false, [100]⟩) .nil) [32]
    (.paramVal [32] true [121] [32] ⟨false, [118]⟩ [32]
      (.cons [32] ⟨false, [101]⟩ [] .eq (.scal [] ⟨false, [102]⟩) .nil))

example : parse (jrenderF exampleParam ++ [10]) = .ok (jtapeF exampleParam 0 [10]) false := by
  decide +kernel

theorem exampleParam_valid :
    JValidF exampleParam [10] ∧ Blank [10] ∧ hasBom (jrenderF exampleParam ++ [10]) = false := by
  have hb : ∀ c : UInt8, isBoundary c = true → ∀ r, StartsBoundary (c :: r) := fun c h r => .inr ⟨c, r, rfl, h⟩
  have sp : Blank [32] := .ws 32 [] (by decide +kernel) .nil
  have uv := unq_valid
  have u : ∀ c : UInt8, isBoundary c = false → isBlank c = false → c ≠ 34 → c ≠ 64 → (Scal.mk false [c]).ValidX :=
    fun c a b d e => .inl (unq_valid c a b d e)
  have pn : ∀ c : UInt8, isBoundary c = false → IsParamName [c] := fun c h => ⟨by simp, by simpa using h⟩
  refine ⟨?_, .ws 10 [] (by decide +kernel) .nil, by decide +kernel⟩
  simp only [exampleParam, JValidF, JValidV, jrenderF, jrenderV, paramOpen, Op.text, Scal.text,
    List.nil_append, List.append_nil, and_true, true_and]
  refine ⟨.nil, sp, .nil, sp, pn 120 (by decide +kernel),
    uv 97 (by decide +kernel) (by decide +kernel) (by decide) (by decide), hb 61 (by decide +kernel) _,
    ⟨.nil, u 98 (by decide +kernel) (by decide +kernel) (by decide) (by decide), fun _ => hb 32 (by decide +kernel) _⟩,
    ⟨sp, .nil, u 99 (by decide +kernel) (by decide +kernel) (by decide) (by decide), fun _ => hb 61 (by decide +kernel) _,
      ⟨.nil, u 100 (by decide +kernel) (by decide +kernel) (by decide) (by decide), fun _ => hb 32 (by decide +kernel) _⟩⟩, ?_⟩
  exact ⟨sp, sp, sp, pn 121 (by decide +kernel),
    uv 118 (by decide +kernel) (by decide +kernel) (by decide) (by decide), hb 32 (by decide +kernel) _,
    sp, .nil, u 101 (by decide +kernel) (by decide +kernel) (by decide) (by decide), fun _ => hb 61 (by decide +kernel) _,
    ⟨.nil, u 102 (by decide +kernel) (by decide +kernel) (by decide) (by decide), fun _ => hb 10 (by decide +kernel) _⟩⟩

end Jomini.TextTape
