import JominiModel.Proofs.WriterFullSem
/-
C14 over the full document type, step 1b: the index walk of `write_tape` over the tape of a
document of `FFields` computes `semF` (Proofs/WriterFullSem.lean).
-/
namespace Jomini.Writer
open Jomini Jomini.Writer.Spec
open Jomini.TextTape (Scal FVal FFirst FFields FVals FItems fcntV fcntFirst fcntF fcntVs fcntI)

/-- one loop iteration for a field with a scalar key, given what the value's walk returns -/
theorem field_step (toks pre : List Tok) (i e L n : Nat) (s sv : State) (k : Scal) (o : TextTape.Op)
    (t : Tok) (tl : List Tok) (hi : i = pre.length) (ht : toks = pre ++ (scalTok k :: (opToks o ++ t :: tl)))
    (hno : ∀ x, t ≠ .operator x) (hie : i < e)
    (hn : nextIdx toks (toks.length + 1) (i + 1 + o.toks.length) = .ok n)
    (hv : writeValue toks L (i + 1 + o.toks.length) (opK o (wr s k.text)) = .ok sv) :
    writeObjectCore toks (L + 1) i e s = writeObjectCore toks L n e sv := by
  rw [core_field toks L i e n s k o t hie (by rw [ht, hi]; exact key_at _ _ _)
    (fun ho => by subst ho; rw [ht, hi]; exact after_key_eq _ _ _ _)
    (fun ho => by rw [ht, hi]; exact after_key_ne _ _ _ ho _) hno hn, hv]
  rfl

theorem opK_eq (s : State) : opK .eq s = s := by simp [opK]

/-- … without an operator token -/
theorem field_step0 (toks pre : List Tok) (i e L n : Nat) (s sv : State) (k : Scal)
    (t : Tok) (tl : List Tok) (hi : i = pre.length) (ht : toks = pre ++ (scalTok k :: t :: tl))
    (hno : ∀ x, t ≠ .operator x) (hie : i < e)
    (hn : nextIdx toks (toks.length + 1) (i + 1) = .ok n)
    (hv : writeValue toks L (i + 1) (wr s k.text) = .ok sv) :
    writeObjectCore toks (L + 1) i e s = writeObjectCore toks L n e sv :=
  field_step toks pre i e L n s sv k .eq t tl hi (by simpa [opToks] using ht) hno hie
    (by simpa [TextTape.Op.toks] using hn) (by simpa [opK, TextTape.Op.toks] using hv)

theorem unq_scalTok (b : Bytes) : Tok.unquoted b = scalTok ⟨false, b⟩ := by simp [scalTok]

/-- three loop iterations: the `MixedContainer` token, the scalar in front of the first operator, the operator -/
theorem mixed_head (toks pre : List Tok) (j e L : Nat) (sA : State) (m0 : Scal) (o : TextTape.Op) (R : List Tok)
    (hj : j = pre.length) (ht : toks = pre ++ (Tok.mixedContainer :: scalTok m0 :: Tok.operator (opW o) :: R))
    (he : j + 3 ≤ e) :
    writeValues toks (L + 1 + 1 + 1 + 1) j e sA =
      writeValues toks (L + 1) (j + 3) e (opArm o (wr (startMixedMode sA) m0.text)) := by
  have h0 : toks[j]? = some Tok.mixedContainer := by rw [ht, hj]; simp
  have h1 : toks[j + 1]? = some (scalTok m0) := by rw [ht, hj]; simp
  have h2 : toks[j + 2]? = some (Tok.operator (opW o)) := by rw [ht, hj]; simp
  rw [writeValues_step' toks (L + 1 + 1 + 1) j e _ sA (by omega) (nextIdxValues_mixedTok toks j h0),
    writeValue_mixedTok toks (L + 1 + 1) j sA h0]
  simp only [bindE]
  rw [writeValues_step' toks (L + 1 + 1) (j + 1) e _ _ (by omega) (nextIdxValues_scal toks (j + 1) m0 h1),
    writeValue_scal toks (L + 1) (j + 1) _ m0 h1, wr_eq]
  simp only [bindE]
  rw [writeValues_step' toks (L + 1) (j + 1 + 1) e _ _ (by omega) (nextIdxValues_opTok toks (j + 2) _ h2),
    writeValue_opTok toks L (j + 1 + 1) _ o h2]
  rfl

mutual
theorem XV : ∀ (v : FVal) (toks pre post : List Tok) (i L : Nat) (s : State),
    i = pre.length → toks = pre ++ (tV v i ++ post) → ndV v ≤ L →
    writeValue toks L i s = .ok (semV v s) ∧ (semV v s).depth = s.depth
  | .scal g x, toks, pre, post, i, L, s, hi, ht, hL => by
    obtain ⟨L', rfl⟩ : ∃ L', L = L' + 1 := ⟨L - 1, by simp [ndV] at hL; omega⟩
    have h0 : toks[i]? = some (scalTok x) := by rw [ht, hi, tV_scal]; simp
    rw [writeValue_scal toks L' i s x h0, semV]
    exact ⟨wr_eq s x.text, wr_depth s x.text⟩
  | .empty g gc, toks, pre, post, i, L, s, hi, ht, hL => by
    obtain ⟨L', rfl⟩ : ∃ L', L = L' + 1 + 1 := ⟨L - 2, by simp [ndV] at hL; omega⟩
    have h0 : toks[i]? = some (Tok.array (i + 1) false) := by rw [ht, hi, tV_empty]; simp
    rw [writeValue_array toks (L' + 1) i _ false s h0, writeValues_done toks L' (i + 1) (i + 1) _ (by omega)]
    obtain ⟨h3, hd3⟩ := endT_of_depth (writeArrayStart s) s.mode s.depth (writeArrayStart_depth s)
    simp only [bindE, semV]
    exact ⟨h3, hd3⟩
  | .obj g g0 first rest gc, toks, pre, post, i, L, s, hi, ht, hL => by
    rw [tV_obj] at ht
    simp only [ndV] at hL
    have hR := ndF_pos rest
    obtain ⟨E, hE⟩ : ∃ E, E = i + 1 + fcntFirst first + fcntF rest := ⟨_, rfl⟩
    rw [← hE] at ht
    have h0 : toks[i]? = some (Tok.object E false) := by rw [ht, hi]; simp
    obtain ⟨L0, hL0a, hL0b, hL0c⟩ : ∃ L0, L = ((L0 + 1 + itF rest) + itFirst first) + 1 ∧
        ndFirst first ≤ L0 + 1 + itF rest ∧ ndF rest ≤ L0 + 1 := ⟨L - 2 - itF rest - itFirst first, by omega⟩
    rw [hL0a, writeValue_object toks _ i E false s h0]
    obtain ⟨hw1, hd1⟩ := XFirst first toks (pre ++ [Tok.object E false])
      (tF rest (i + 1 + fcntFirst first) ++ (Tok.end i :: post)) (i + 1) E (L0 + 1 + itF rest) (writeObjectStart s)
      (by simp [hi]) (by rw [ht]; simp [List.append_assoc]) (by omega) hL0b
    obtain ⟨hw2, hd2⟩ := XF rest toks ((pre ++ [Tok.object E false]) ++ tFirst first (i + 1)) (Tok.end i :: post)
      (i + 1 + fcntFirst first) E (L0 + 1) (semFirst first (writeObjectStart s))
      (by simp [hi, len_tFirst] <;> omega) (by rw [ht]; simp [List.append_assoc]) (by omega) hL0c
    rw [hw1, hw2, ← hE, core_done toks L0 E E _ (Nat.le_refl _)]
    obtain ⟨h3, hd3⟩ := endT_of_depth (semF rest (semFirst first (writeObjectStart s))) s.mode s.depth
      (by rw [hd2, hd1, writeObjectStart_depth])
    simp only [bindE, semV]
    exact ⟨h3, hd3⟩
  | .arrS g g0 s0 rest gc, toks, pre, post, i, L, s, hi, ht, hL => by
    rw [tV_arrS] at ht
    simp only [ndV] at hL
    have hR := ndVs_pos rest
    obtain ⟨E, hE⟩ : ∃ E, E = i + 1 + 1 + fcntVs rest := ⟨_, rfl⟩
    rw [← hE] at ht
    have h0 : toks[i]? = some (Tok.array E false) := by rw [ht, hi]; simp
    have h1 : toks[i + 1]? = some (scalTok s0) := by rw [ht, hi]; simp
    obtain ⟨L0, hL0a, hL0c⟩ : ∃ L0, L = ((L0 + 1 + itVs rest) + 1) + 1 ∧ ndVs rest ≤ L0 + 1 :=
      ⟨L - 3 - itVs rest, by omega⟩
    rw [hL0a, writeValue_array toks _ i E false s h0,
      writeValues_step' toks (L0 + 1 + itVs rest) (i + 1) E (i + 1 + 1) _ (by omega) (nextIdxValues_scal toks (i + 1) s0 h1)]
    have hv : writeValue toks (L0 + 1 + itVs rest) (i + 1) (writeArrayStart s) = .ok (wr (writeArrayStart s) s0.text) := by
      obtain ⟨Y, hY⟩ : ∃ Y, L0 + 1 + itVs rest = Y + 1 := ⟨L0 + itVs rest, by omega⟩
      rw [hY, writeValue_scal toks Y (i + 1) _ s0 h1]; exact wr_eq _ _
    rw [hv]
    simp only [bindE]
    obtain ⟨hw2, hd2⟩ := XVs rest toks (pre ++ [Tok.array E false, scalTok s0]) (Tok.end i :: post)
      (i + 1 + 1) E (L0 + 1) (wr (writeArrayStart s) s0.text)
      (by simp [hi]) (by rw [ht]; simp [List.append_assoc]) (by omega) hL0c
    rw [hw2, ← hE, writeValues_done toks L0 E E _ (by omega)]
    obtain ⟨h3, hd3⟩ := endT_of_depth (semVs rest (wr (writeArrayStart s) s0.text)) s.mode s.depth
      (by rw [hd2, wr_depth, writeArrayStart_depth])
    simp only [semV]
    exact ⟨h3, hd3⟩
  | .arrC g first rest gc, toks, pre, post, i, L, s, hi, ht, hL => by
    rw [tV_arrC] at ht
    simp only [ndV] at hL
    have hR := ndVs_pos rest
    obtain ⟨t, tl, hvt, hno, hnx⟩ := tV_first first (i + 1)
    have hpos := fcntV_pos first
    obtain ⟨E, hE⟩ : ∃ E, E = i + 1 + fcntV first + fcntVs rest := ⟨_, rfl⟩
    rw [← hE] at ht
    have h0 : toks[i]? = some (Tok.array E false) := by rw [ht, hi]; simp
    have ht' : toks = (pre ++ [Tok.array E false]) ++ (tV first (i + 1) ++ (tVs rest (i + 1 + fcntV first) ++ (Tok.end i :: post))) := by
      rw [ht]; simp [List.append_assoc]
    have h1 : toks[i + 1]? = some t := by
      rw [ht']; exact at_idx _ _ _ t (tl ++ _) (by simp [hi]) (by rw [hvt]; rfl)
    obtain ⟨L0, hL0a, hL0b, hL0c⟩ : ∃ L0, L = ((L0 + 1 + itVs rest) + 1) + 1 ∧ ndV first ≤ L0 + 1 + itVs rest ∧
        ndVs rest ≤ L0 + 1 := ⟨L - 3 - itVs rest, by omega⟩
    obtain ⟨hw1, hd1⟩ := XV first toks (pre ++ [Tok.array E false]) (tVs rest (i + 1 + fcntV first) ++ (Tok.end i :: post))
      (i + 1) (L0 + 1 + itVs rest) (writeArrayStart s) (by simp [hi]) ht' hL0b
    rw [hL0a, writeValue_array toks _ i E false s h0,
      writeValues_step' toks (L0 + 1 + itVs rest) (i + 1) E _ _ (by omega) (hnx toks h1).2.1, hw1]
    simp only [bindE]
    obtain ⟨hw2, hd2⟩ := XVs rest toks ((pre ++ [Tok.array E false]) ++ tV first (i + 1)) (Tok.end i :: post)
      (i + 1 + fcntV first) E (L0 + 1) (semV first (writeArrayStart s))
      (by simp [hi, len_tV] <;> omega) (by rw [ht']; simp [List.append_assoc]) (by omega) hL0c
    rw [hw2, ← hE, writeValues_done toks L0 E E _ (by omega)]
    obtain ⟨h3, hd3⟩ := endT_of_depth (semVs rest (semV first (writeArrayStart s))) s.mode s.depth
      (by rw [hd2, hd1, writeArrayStart_depth])
    simp only [semV]
    exact ⟨h3, hd3⟩
  | .ghostIn g b1 b2 v, toks, pre, post, i, L, s, hi, ht, hL => by
    rw [tV_ghostIn] at ht
    simp only [ndV] at hL
    simpa [semV] using XV v toks pre post i L s hi ht hL
  | .mixed g g0 first rest gm m0 items gc, toks, pre, post, i, L, s, hi, ht, hL => by
    rw [tV_mixed] at ht
    simp only [ndV] at hL
    have hR := ndF_pos rest
    obtain ⟨E, hE⟩ : ∃ E, E = i + 1 + fcntFirst first + fcntF rest + 2 + fcntI items := ⟨_, rfl⟩
    rw [← hE] at ht
    have h0 : toks[i]? = some (Tok.object E true) := by rw [ht, hi]; simp
    obtain ⟨L0, hL0a, hL0b, hL0c⟩ : ∃ L0, L = ((L0 + 1 + itF rest) + itFirst first) + 1 ∧
        ndFirst first ≤ L0 + 1 + itF rest ∧ ndF rest ≤ L0 + 1 := ⟨L - 2 - itF rest - itFirst first, by omega⟩
    rw [hL0a, writeValue_object toks _ i E true s h0]
    obtain ⟨hw1, hd1⟩ := XFirst first toks (pre ++ [Tok.object E true])
      (tF rest (i + 1 + fcntFirst first) ++ (Tok.mixedContainer :: scalTok m0 ::
        (tI items (i + 1 + fcntFirst first + fcntF rest + 2) ++ [Tok.end i]) ++ post)) (i + 1) E (L0 + 1 + itF rest) (writeObjectStart s)
      (by simp [hi]) (by rw [ht]; simp [List.append_assoc]) (by omega) hL0b
    obtain ⟨hw2, hd2⟩ := XF rest toks ((pre ++ [Tok.object E true]) ++ tFirst first (i + 1))
      (Tok.mixedContainer :: scalTok m0 :: (tI items (i + 1 + fcntFirst first + fcntF rest + 2) ++ [Tok.end i]) ++ post)
      (i + 1 + fcntFirst first) E (L0 + 1) (semFirst first (writeObjectStart s))
      (by simp [hi, len_tFirst] <;> omega) (by rw [ht]; simp [List.append_assoc]) (by omega) hL0c
    have hm : toks[i + 1 + fcntFirst first + fcntF rest]? = some Tok.mixedContainer := by
      have : toks = (((pre ++ [Tok.object E true]) ++ tFirst first (i + 1)) ++ tF rest (i + 1 + fcntFirst first)) ++
          (Tok.mixedContainer :: (scalTok m0 :: (tI items (i + 1 + fcntFirst first + fcntF rest + 2) ++ [Tok.end i]) ++ post)) := by
        rw [ht]; simp [List.append_assoc]
      rw [this]; exact at_idx _ _ _ _ _ (by simp [hi, len_tFirst, len_tF]; omega) rfl
    rw [hw1, hw2, core_mixed toks L0 _ E _ (by omega) hm]
    obtain ⟨h3, hd3⟩ := endT_of_depth (semF rest (semFirst first (writeObjectStart s))) s.mode s.depth
      (by rw [hd2, hd1, writeObjectStart_depth])
    simp only [bindE, semV]
    exact ⟨h3, hd3⟩
  | .arrSM g g0 s0 pre' gm m0 go o items gc, toks, pre, post, i, L, s, hi, ht, hL => by
    rw [tV_arrSM] at ht
    simp only [ndV] at hL
    have hR := ndVs_pos pre'
    have hRI := ndI_pos items
    obtain ⟨E, hE⟩ : ∃ E, E = i + 1 + 1 + fcntVs pre' + 3 + fcntI items := ⟨_, rfl⟩
    rw [← hE] at ht
    have h0 : toks[i]? = some (Tok.array E true) := by rw [ht, hi]; simp
    have h1 : toks[i + 1]? = some (scalTok s0) := by rw [ht, hi]; simp
    obtain ⟨L0, hL0a, hL0b, hL0c⟩ : ∃ L0, L = (((L0 + itI items + 1 + 1 + 1 + 1) + itVs pre') + 1) + 1 ∧
        ndVs pre' ≤ L0 + itI items + 1 + 1 + 1 + 1 ∧ ndI items ≤ L0 + 1 := ⟨L - 6 - itVs pre' - itI items, by omega⟩
    rw [hL0a, writeValue_array toks _ i E true s h0,
      writeValues_step' toks _ (i + 1) E (i + 1 + 1) _ (by omega) (nextIdxValues_scal toks (i + 1) s0 h1)]
    have hv : writeValue toks ((L0 + itI items + 1 + 1 + 1 + 1) + itVs pre') (i + 1) (writeArrayStart s) =
        .ok (wr (writeArrayStart s) s0.text) := by
      obtain ⟨Y, hY⟩ : ∃ Y, (L0 + itI items + 1 + 1 + 1 + 1) + itVs pre' = Y + 1 := ⟨L0 + itI items + 3 + itVs pre', by omega⟩
      rw [hY, writeValue_scal toks Y (i + 1) _ s0 h1]; exact wr_eq _ _
    rw [hv]
    simp only [bindE]
    obtain ⟨hw2, hd2⟩ := XVs pre' toks (pre ++ [Tok.array E true, scalTok s0])
      (Tok.mixedContainer :: scalTok m0 :: Tok.operator (opW o) :: (tI items (i + 1 + 1 + fcntVs pre' + 3) ++ [Tok.end i]) ++ post)
      (i + 1 + 1) E (L0 + itI items + 1 + 1 + 1 + 1) (wr (writeArrayStart s) s0.text)
      (by simp [hi]) (by rw [ht]; simp [List.append_assoc]) (by omega) hL0b
    have hmh := mixed_head toks ((pre ++ [Tok.array E true, scalTok s0]) ++ tVs pre' (i + 1 + 1)) (i + 1 + 1 + fcntVs pre') E
      (L0 + itI items) (semVs pre' (wr (writeArrayStart s) s0.text)) m0 o
      ((tI items (i + 1 + 1 + fcntVs pre' + 3) ++ [Tok.end i]) ++ post)
      (by simp [hi, len_tVs] <;> omega) (by rw [ht]; simp [List.append_assoc]) (by omega)
    obtain ⟨hw3, hd3⟩ := XI items toks (((pre ++ [Tok.array E true, scalTok s0]) ++ tVs pre' (i + 1 + 1)) ++
        [Tok.mixedContainer, scalTok m0, Tok.operator (opW o)]) (Tok.end i :: post)
      (i + 1 + 1 + fcntVs pre' + 3) E (L0 + 1) (opArm o (wr (startMixedMode (semVs pre' (wr (writeArrayStart s) s0.text))) m0.text))
      (by simp [hi, len_tVs] <;> omega) (by rw [ht]; simp [List.append_assoc]) (by omega) hL0c
    have e1 : L0 + 1 + itI items = L0 + itI items + 1 := by omega
    rw [hw2, hmh, ← e1, hw3, ← hE, writeValues_done toks L0 E E _ (by omega)]
    obtain ⟨h3, hd4⟩ := endT_of_depth (semI items (opArm o (wr (startMixedMode (semVs pre' (wr (writeArrayStart s) s0.text))) m0.text)))
      s.mode s.depth (by rw [hd3, opArm_depth, wr_depth]; simp only [startMixedMode]; rw [hd2, wr_depth, writeArrayStart_depth])
    simp only [semV]
    exact ⟨h3, hd4⟩
  | .arrCM g first pre' gm m0 go o items gc, toks, pre, post, i, L, s, hi, ht, hL => by
    rw [tV_arrCM] at ht
    simp only [ndV] at hL
    have hR := ndVs_pos pre'
    have hRI := ndI_pos items
    obtain ⟨t, tl, hvt, hno, hnx⟩ := tV_first first (i + 1)
    have hpos := fcntV_pos first
    obtain ⟨E, hE⟩ : ∃ E, E = i + 1 + fcntV first + fcntVs pre' + 3 + fcntI items := ⟨_, rfl⟩
    rw [← hE] at ht
    have h0 : toks[i]? = some (Tok.array E true) := by rw [ht, hi]; simp
    have ht' : toks = (pre ++ [Tok.array E true]) ++ (tV first (i + 1) ++ (tVs pre' (i + 1 + fcntV first) ++
        (Tok.mixedContainer :: scalTok m0 :: Tok.operator (opW o) :: (tI items (i + 1 + fcntV first + fcntVs pre' + 3) ++ [Tok.end i]) ++ post))) := by
      rw [ht]; simp [List.append_assoc]
    have h1 : toks[i + 1]? = some t := by
      rw [ht']; exact at_idx _ _ _ t (tl ++ _) (by simp [hi]) (by rw [hvt]; rfl)
    obtain ⟨L0, hL0a, hL0f, hL0b, hL0c⟩ : ∃ L0, L = (((L0 + itI items + 1 + 1 + 1 + 1) + itVs pre') + 1) + 1 ∧
        ndV first ≤ (L0 + itI items + 1 + 1 + 1 + 1) + itVs pre' ∧
        ndVs pre' ≤ L0 + itI items + 1 + 1 + 1 + 1 ∧ ndI items ≤ L0 + 1 := ⟨L - 6 - itVs pre' - itI items, by omega⟩
    obtain ⟨hw1, hd1⟩ := XV first toks (pre ++ [Tok.array E true]) _ (i + 1) _ (writeArrayStart s) (by simp [hi]) ht' hL0f
    rw [hL0a, writeValue_array toks _ i E true s h0,
      writeValues_step' toks _ (i + 1) E _ _ (by omega) (hnx toks h1).2.1, hw1]
    simp only [bindE]
    obtain ⟨hw2, hd2⟩ := XVs pre' toks ((pre ++ [Tok.array E true]) ++ tV first (i + 1))
      (Tok.mixedContainer :: scalTok m0 :: Tok.operator (opW o) :: (tI items (i + 1 + fcntV first + fcntVs pre' + 3) ++ [Tok.end i]) ++ post)
      (i + 1 + fcntV first) E (L0 + itI items + 1 + 1 + 1 + 1) (semV first (writeArrayStart s))
      (by simp [hi, len_tV] <;> omega) (by rw [ht']; simp [List.append_assoc]) (by omega) hL0b
    have hmh := mixed_head toks (((pre ++ [Tok.array E true]) ++ tV first (i + 1)) ++ tVs pre' (i + 1 + fcntV first))
      (i + 1 + fcntV first + fcntVs pre') E
      (L0 + itI items) (semVs pre' (semV first (writeArrayStart s))) m0 o
      ((tI items (i + 1 + fcntV first + fcntVs pre' + 3) ++ [Tok.end i]) ++ post)
      (by simp [hi, len_tV, len_tVs] <;> omega) (by rw [ht']; simp [List.append_assoc]) (by omega)
    obtain ⟨hw3, hd3⟩ := XI items toks ((((pre ++ [Tok.array E true]) ++ tV first (i + 1)) ++ tVs pre' (i + 1 + fcntV first)) ++
        [Tok.mixedContainer, scalTok m0, Tok.operator (opW o)]) (Tok.end i :: post)
      (i + 1 + fcntV first + fcntVs pre' + 3) E (L0 + 1) (opArm o (wr (startMixedMode (semVs pre' (semV first (writeArrayStart s)))) m0.text))
      (by simp [hi, len_tV, len_tVs] <;> omega) (by rw [ht']; simp [List.append_assoc]) (by omega) hL0c
    have e1 : L0 + 1 + itI items = L0 + itI items + 1 := by omega
    rw [hw2, hmh, ← e1, hw3, ← hE, writeValues_done toks L0 E E _ (by omega)]
    obtain ⟨h3, hd4⟩ := endT_of_depth (semI items (opArm o (wr (startMixedMode (semVs pre' (semV first (writeArrayStart s)))) m0.text)))
      s.mode s.depth (by rw [hd3, opArm_depth, wr_depth]; simp only [startMixedMode]; rw [hd2, hd1, writeArrayStart_depth])
    simp only [semV]
    exact ⟨h3, hd4⟩
theorem XFirst : ∀ (x : FFirst) (toks pre post : List Tok) (i e L : Nat) (s : State),
    i = pre.length → toks = pre ++ (tFirst x i ++ post) → i + fcntFirst x ≤ e → ndFirst x ≤ L →
    writeObjectCore toks (L + itFirst x) i e s = writeObjectCore toks L (i + fcntFirst x) e (semFirst x s) ∧
      (semFirst x s).depth = s.depth
  | .kv k g1 o v, toks, pre, post, i, e, L, s, hi, ht, he, hL => by
    rw [tFirst_kv] at ht
    simp only [ndFirst] at hL
    simp only [fcntFirst] at he
    obtain ⟨t, tl, hvt, hno, hnx⟩ := tV_first v (i + 1 + o.toks.length)
    have hpos := fcntV_pos v
    have hlen := len_field_pre pre (scalTok k) o
    have ht' : toks = (pre ++ (scalTok k :: opToks o)) ++ (tV v (i + 1 + o.toks.length) ++ post) := by
      rw [ht]; simp [List.append_assoc]
    have hvi : toks[i + 1 + o.toks.length]? = some t := by
      rw [ht']; exact at_idx _ _ _ t (tl ++ post) (by rw [hlen, hi]) (by rw [hvt]; rfl)
    obtain ⟨hwv, hdv⟩ := XV v toks (pre ++ (scalTok k :: opToks o)) post (i + 1 + o.toks.length) L
      (opK o (wr s k.text)) (by rw [hlen, hi]) ht' hL
    have hstep := field_step toks pre i e L (i + 1 + o.toks.length + fcntV v) s _ k o t (tl ++ post) hi
      (by rw [ht, hvt]; simp [List.append_assoc]) hno (by omega) ((hnx toks hvi).1 _) hwv
    have hit : L + itFirst (.kv k g1 o v) = L + 1 := by simp [itFirst]
    rw [hit, hstep]
    have e1 : i + 1 + o.toks.length + fcntV v = i + fcntFirst (.kv k g1 o v) := by simp [fcntFirst]; omega
    rw [e1]
    exact ⟨by simp only [semFirst], by simp only [semFirst]; rw [hdv, opK_depth, wr_depth]⟩
  | .flds f, toks, pre, post, i, e, L, s, hi, ht, he, hL => by
    rw [tFirst_flds] at ht
    simpa [semFirst, itFirst, fcntFirst] using XF f toks pre post i e L s hi ht (by simpa [fcntFirst] using he)
      (by simpa [ndFirst] using hL)
theorem XF : ∀ (fs : FFields) (toks pre post : List Tok) (i e L : Nat) (s : State),
    i = pre.length → toks = pre ++ (tF fs i ++ post) → i + fcntF fs ≤ e → ndF fs ≤ L →
    writeObjectCore toks (L + itF fs) i e s = writeObjectCore toks L (i + fcntF fs) e (semF fs s) ∧
      (semF fs s).depth = s.depth
  | .nil, toks, pre, post, i, e, L, s, hi, ht, he, hL => by
    simp [itF, fcntF, semF]
  | .cons g0 k g1 o v rest, toks, pre, post, i, e, L, s, hi, ht, he, hL => by
    rw [tF_cons] at ht
    simp only [ndF] at hL
    simp only [fcntF] at he
    obtain ⟨t, tl, hvt, hno, hnx⟩ := tV_first v (i + 1 + o.toks.length)
    have hpos := fcntV_pos v
    have hlen := len_field_pre pre (scalTok k) o
    have ht' : toks = (pre ++ (scalTok k :: opToks o)) ++ (tV v (i + 1 + o.toks.length) ++
        (tF rest (i + (1 + o.toks.length + fcntV v)) ++ post)) := by
      rw [ht]; simp [List.append_assoc]
    have hvi : toks[i + 1 + o.toks.length]? = some t := by
      rw [ht']; exact at_idx _ _ _ t (tl ++ (tF rest _ ++ post)) (by rw [hlen, hi]) (by rw [hvt]; rfl)
    have hR := ndF_pos rest
    obtain ⟨hwv, hdv⟩ := XV v toks (pre ++ (scalTok k :: opToks o)) (tF rest (i + (1 + o.toks.length + fcntV v)) ++ post)
      (i + 1 + o.toks.length) (L + itF rest) (opK o (wr s k.text)) (by rw [hlen, hi]) ht' (by omega)
    have hstep := field_step toks pre i e (L + itF rest) (i + 1 + o.toks.length + fcntV v) s _ k o t
      (tl ++ (tF rest (i + (1 + o.toks.length + fcntV v)) ++ post)) hi
      (by rw [ht, hvt]; simp [List.append_assoc]) hno (by omega) ((hnx toks hvi).1 _) hwv
    have hit : L + itF (.cons g0 k g1 o v rest) = (L + itF rest) + 1 := by simp [itF]; omega
    rw [hit, hstep]
    obtain ⟨hwf, hdf⟩ := XF rest toks ((pre ++ (scalTok k :: opToks o)) ++ tV v (i + 1 + o.toks.length)) post
      (i + (1 + o.toks.length + fcntV v)) e L (semV v (opK o (wr s k.text)))
      (by simp [hi, len_tV, len_opToks]; omega)
      (by rw [ht']; simp [List.append_assoc]) (by omega) (by omega)
    have e1 : i + 1 + o.toks.length + fcntV v = i + (1 + o.toks.length + fcntV v) := by omega
    have e2 : i + (1 + o.toks.length + fcntV v) + fcntF rest = i + (1 + o.toks.length + fcntV v + fcntF rest) := by omega
    rw [e1, hwf, e2]
    refine ⟨by simp only [semF, fcntF], ?_⟩
    simp only [semF]
    rw [hdf, hdv, opK_depth, wr_depth]
  | .consImp g0 k v rest, toks, pre, post, i, e, L, s, hi, ht, he, hL => by
    rw [tF_consImp] at ht
    simp only [ndF] at hL
    simp only [fcntF] at he
    obtain ⟨t, tl, hvt, hno, hnx⟩ := tV_first v (i + 1)
    have hpos := fcntV_pos v
    have ht' : toks = (pre ++ [scalTok k]) ++ (tV v (i + 1) ++ (tF rest (i + (1 + fcntV v)) ++ post)) := by
      rw [ht]; simp [List.append_assoc]
    have hvi : toks[i + 1]? = some t := by
      rw [ht']; exact at_idx _ _ _ t (tl ++ (tF rest _ ++ post)) (by simp [hi]) (by rw [hvt]; rfl)
    have hR := ndF_pos rest
    obtain ⟨hwv, hdv⟩ := XV v toks (pre ++ [scalTok k]) (tF rest (i + (1 + fcntV v)) ++ post)
      (i + 1) (L + itF rest) (wr s k.text) (by simp [hi]) ht' (by omega)
    have hstep := field_step0 toks pre i e (L + itF rest) (i + 1 + fcntV v) s _ k t
      (tl ++ (tF rest (i + (1 + fcntV v)) ++ post)) hi
      (by rw [ht, hvt]; simp [List.append_assoc]) hno (by omega) ((hnx toks hvi).1 _) hwv
    have hit : L + itF (.consImp g0 k v rest) = (L + itF rest) + 1 := by simp [itF]; omega
    rw [hit, hstep]
    obtain ⟨hwf, hdf⟩ := XF rest toks ((pre ++ [scalTok k]) ++ tV v (i + 1)) post
      (i + (1 + fcntV v)) e L (semV v (wr s k.text))
      (by simp [hi, len_tV]; omega)
      (by rw [ht']; simp [List.append_assoc]) (by omega) (by omega)
    have e1 : i + 1 + fcntV v = i + (1 + fcntV v) := by omega
    have e2 : i + (1 + fcntV v) + fcntF rest = i + (1 + fcntV v + fcntF rest) := by omega
    rw [e1, hwf, e2]
    refine ⟨by simp only [semF, fcntF], ?_⟩
    simp only [semF]
    rw [hdf, hdv, wr_depth]
  | .ghost g gc rest, toks, pre, post, i, e, L, s, hi, ht, he, hL => by
    rw [tF_ghost] at ht
    simpa [semF, itF, fcntF] using XF rest toks pre post i e L s hi ht (by simpa [fcntF] using he)
      (by simpa [ndF] using hL)
  | .consHdr g0 k g1 o gh h body rest, toks, pre, post, i, e, L, s, hi, ht, he, hL => by
    rw [tF_consHdr] at ht
    simp only [ndF] at hL
    simp only [fcntF] at he
    obtain ⟨t, tl, hvt, hno, hnx⟩ := tV_first body (i + 1 + o.toks.length + 1)
    have hpos := fcntV_pos body
    have hlen := len_field_pre pre (scalTok k) o
    have ht' : toks = (pre ++ (scalTok k :: opToks o) ++ [Tok.header h.bytes]) ++ (tV body (i + 1 + o.toks.length + 1) ++
        (tF rest (i + (1 + o.toks.length + (1 + fcntV body))) ++ post)) := by
      rw [ht]; simp [List.append_assoc]
    have hlen2 : (pre ++ (scalTok k :: opToks o) ++ [Tok.header h.bytes]).length = i + 1 + o.toks.length + 1 := by
      rw [List.length_append, hlen, hi]; rfl
    have hhi : toks[i + 1 + o.toks.length]? = some (Tok.header h.bytes) := by
      rw [ht]
      have : pre ++ (scalTok k :: (opToks o ++ Tok.header h.bytes :: (tV body (i + 1 + o.toks.length + 1) ++
          tF rest (i + (1 + o.toks.length + (1 + fcntV body))))) ++ post) =
          (pre ++ (scalTok k :: opToks o)) ++ (Tok.header h.bytes :: (tV body (i + 1 + o.toks.length + 1) ++
          (tF rest (i + (1 + o.toks.length + (1 + fcntV body))) ++ post))) := by simp [List.append_assoc]
      rw [this]; exact at_idx _ _ _ _ _ (by rw [hlen, hi]) rfl
    have hbi : toks[i + 1 + o.toks.length + 1]? = some t := by
      rw [ht']; exact at_idx _ _ _ t (tl ++ (tF rest _ ++ post)) hlen2.symm (by rw [hvt]; rfl)
    have hR := ndF_pos rest
    obtain ⟨L1, hL1⟩ : ∃ L1, L + itF rest = L1 + 1 := ⟨L + itF rest - 1, by omega⟩
    obtain ⟨hwv, hdv⟩ := XV body toks (pre ++ (scalTok k :: opToks o) ++ [Tok.header h.bytes])
      (tF rest (i + (1 + o.toks.length + (1 + fcntV body))) ++ post)
      (i + 1 + o.toks.length + 1) L1 (writeHeader (opK o (wr s k.text)) h.bytes) hlen2.symm ht' (by omega)
    have hnh : nextIdx toks (toks.length + 1) (i + 1 + o.toks.length) = .ok (i + 1 + o.toks.length + 1 + fcntV body) := by
      rw [nextIdx_header toks _ _ h.bytes hhi]; exact (hnx toks hbi).2.2
    have hwh : writeValue toks (L + itF rest) (i + 1 + o.toks.length) (opK o (wr s k.text)) =
        .ok (semV body (writeHeader (opK o (wr s k.text)) h.bytes)) := by
      rw [hL1, writeValue_hdr toks L1 _ _ _ h.bytes _ hhi ((hnx toks hbi).1 _) (by omega) (hnx toks hbi).2.1]
      exact hwv
    have hstep := field_step toks pre i e (L + itF rest) (i + 1 + o.toks.length + 1 + fcntV body) s _ k o
      (Tok.header h.bytes) (tV body (i + 1 + o.toks.length + 1) ++ (tF rest (i + (1 + o.toks.length + (1 + fcntV body))) ++ post)) hi
      (by rw [ht]; simp [List.append_assoc]) (by simp) (by omega) hnh hwh
    have hit : L + itF (.consHdr g0 k g1 o gh h body rest) = (L + itF rest) + 1 := by simp [itF]; omega
    rw [hit, hstep]
    obtain ⟨hwf, hdf⟩ := XF rest toks ((pre ++ (scalTok k :: opToks o) ++ [Tok.header h.bytes]) ++ tV body (i + 1 + o.toks.length + 1)) post
      (i + (1 + o.toks.length + (1 + fcntV body))) e L (semV body (writeHeader (opK o (wr s k.text)) h.bytes))
      (by rw [List.length_append, hlen2, len_tV]; omega)
      (by rw [ht']; simp [List.append_assoc]) (by omega) (by omega)
    have e1 : i + 1 + o.toks.length + 1 + fcntV body = i + (1 + o.toks.length + (1 + fcntV body)) := by omega
    have e2 : i + (1 + o.toks.length + (1 + fcntV body)) + fcntF rest = i + (1 + o.toks.length + (1 + fcntV body) + fcntF rest) := by omega
    rw [e1, hwf, e2]
    refine ⟨by simp only [semF, fcntF], ?_⟩
    simp only [semF]
    rw [hdf, hdv, writeHeader_depth, opK_depth, wr_depth]
  | .paramVal g0 isU name g1 val g2 rest, toks, pre, post, i, e, L, s, hi, ht, he, hL => by
    rw [tF_paramVal] at ht
    simp only [ndF] at hL
    simp only [fcntF] at he
    have h0 : toks[i]? = some (ptok isU name) := by rw [ht, hi]; simp
    have h1 : toks[i + 1]? = some (Tok.unquoted val.bytes) := by rw [ht, hi]; simp
    have h1' : toks[i + 1]? = some (scalTok ⟨false, val.bytes⟩) := by rw [h1, unq_scalTok]
    obtain ⟨L2, hL2⟩ : ∃ L2, L + itF rest = L2 + 1 + 1 := ⟨L + itF rest - 2, by omega⟩
    have hit : L + itF (.paramVal g0 isU name g1 val g2 rest) = (L + itF rest) + 1 := by simp [itF]; omega
    rw [hit, core_param toks (L + itF rest) i e (i + 1 + 1) s isU name _ (by omega) h0 h1 (by simp)
      (nextIdx_scal toks _ (i + 1) ⟨false, val.bytes⟩ h1')]
    rw [hL2, writeParam_val toks (L2 + 1) (i + 1) _ name s _ h1 (by simp) (by simp),
      writeValue_unq toks L2 (i + 1) _ val.bytes h1]
    simp only [bindE]
    obtain ⟨hwf, hdf⟩ := XF rest toks (pre ++ [ptok isU name, Tok.unquoted val.bytes]) post
      (i + 2) e L (put (wr (paramOpenT isU name s) val.bytes) [93])
      (by simp [hi]) (by rw [ht]; simp) (by omega) (by omega)
    have e0 : i + 1 + 1 = i + 2 := rfl
    have e2 : i + 2 + fcntF rest = i + (2 + fcntF rest) := by omega
    rw [e0, ← hL2]
    show writeObjectCore toks (L + itF rest) (i + 2) e (put (wr (paramOpenT isU name s) val.bytes) [93]) = _ ∧ _
    rw [hwf, e2]
    refine ⟨by simp only [semF, fcntF], ?_⟩
    simp only [semF]
    rw [hdf]
    simp [put, wr_depth, paramOpenT_depth]
  | .paramObj g0 isU name g1 k g2 o v inner gc rest, toks, pre, post, i, e, L, s, hi, ht, he, hL => by
    rw [tF_paramObj] at ht
    simp only [ndF] at hL
    simp only [fcntF] at he
    have e3 : i + 3 + o.toks.length = i + 2 + 1 + o.toks.length := by omega
    rw [e3] at ht
    obtain ⟨t, tl, hvt, hno, hnx⟩ := tV_first v (i + 2 + 1 + o.toks.length)
    have hpos := fcntV_pos v
    have hR := ndF_pos rest
    have hI := ndF_pos inner
    -- the index of the `End` token of the block
    obtain ⟨E, hEdef⟩ : ∃ E, E = i + 2 + (1 + o.toks.length + fcntV v) + fcntF inner := ⟨_, rfl⟩
    rw [← hEdef] at ht
    have h0 : toks[i]? = some (ptok isU name) := by rw [ht, hi]; simp
    have h1 : toks[i + 1]? = some (Tok.object E false) := by rw [ht, hi]; simp
    -- the tokens from the key of the block on
    have hpre2 : (pre ++ [ptok isU name, Tok.object E false]).length = i + 2 := by simp [hi]
    have ht2 : toks = (pre ++ [ptok isU name, Tok.object E false]) ++ (scalTok ⟨false, k.bytes⟩ :: (opToks o ++
        (tV v (i + 2 + 1 + o.toks.length) ++ (tF inner (i + 2 + (1 + o.toks.length + fcntV v)) ++
          (Tok.end (i + 1) :: tF rest (i + (3 + (1 + o.toks.length + fcntV v) + fcntF inner)) ++ post))))) := by
      rw [ht, unq_scalTok]; simp [List.append_assoc]
    have hlen := len_field_pre (pre ++ [ptok isU name, Tok.object E false]) (scalTok ⟨false, k.bytes⟩) o
    rw [hpre2] at hlen
    have ht3 : toks = ((pre ++ [ptok isU name, Tok.object E false]) ++ (scalTok ⟨false, k.bytes⟩ :: opToks o)) ++
        (tV v (i + 2 + 1 + o.toks.length) ++ (tF inner (i + 2 + (1 + o.toks.length + fcntV v)) ++
          (Tok.end (i + 1) :: tF rest (i + (3 + (1 + o.toks.length + fcntV v) + fcntF inner)) ++ post))) := by
      rw [ht2]; simp [List.append_assoc]
    have hvi : toks[i + 2 + 1 + o.toks.length]? = some t := by
      rw [ht3]; exact at_idx _ _ _ t (tl ++ _) hlen.symm (by rw [hvt]; rfl)
    -- fuel
    obtain ⟨L4, hL4a, hL4b, hL4c⟩ : ∃ L4, L + itF rest = ((L4 + 1 + itF inner) + 1) + 1 ∧
        ndV v ≤ L4 + 1 + itF inner ∧ ndF inner ≤ L4 + 1 := ⟨L + itF rest - 3 - itF inner, by omega⟩
    -- the first field of the block
    obtain ⟨hwv, hdv⟩ := XV v toks ((pre ++ [ptok isU name, Tok.object E false]) ++ (scalTok ⟨false, k.bytes⟩ :: opToks o))
      (tF inner (i + 2 + (1 + o.toks.length + fcntV v)) ++
          (Tok.end (i + 1) :: tF rest (i + (3 + (1 + o.toks.length + fcntV v) + fcntF inner)) ++ post))
      (i + 2 + 1 + o.toks.length) (L4 + 1 + itF inner) (opK o (wr (paramOpenT isU name s) k.bytes))
      hlen.symm ht3 hL4b
    have hstep := field_step toks (pre ++ [ptok isU name, Tok.object E false]) (i + 2) E (L4 + 1 + itF inner)
      (i + 2 + 1 + o.toks.length + fcntV v) (paramOpenT isU name s) _ ⟨false, k.bytes⟩ o t
      (tl ++ (tF inner (i + 2 + (1 + o.toks.length + fcntV v)) ++
          (Tok.end (i + 1) :: tF rest (i + (3 + (1 + o.toks.length + fcntV v) + fcntF inner)) ++ post)))
      hpre2.symm (by rw [ht2, hvt]; simp [List.append_assoc]) hno (by omega) ((hnx toks hvi).1 _)
      (by simpa [Scal.text] using hwv)
    -- the further fields of the block
    obtain ⟨hwi, hdi⟩ := XF inner toks (((pre ++ [ptok isU name, Tok.object E false]) ++ (scalTok ⟨false, k.bytes⟩ :: opToks o)) ++
        tV v (i + 2 + 1 + o.toks.length))
      (Tok.end (i + 1) :: tF rest (i + (3 + (1 + o.toks.length + fcntV v) + fcntF inner)) ++ post)
      (i + 2 + (1 + o.toks.length + fcntV v)) E (L4 + 1) (semV v (opK o (wr (paramOpenT isU name s) k.bytes)))
      (by rw [List.length_append, hlen, len_tV]; omega)
      (by rw [ht3]; simp [List.append_assoc]) (by omega) hL4c
    have hparam : writeParam toks (L + itF rest) (paramOpening isU) name (i + 1) s =
        .ok (closeP (semF inner (semV v (opK o (wr (paramOpenT isU name s) k.bytes))))) := by
      rw [hL4a, writeParam_obj toks (L4 + 1 + itF inner + 1) (i + 1) E false _ name s h1]
      show bindE (writeObjectCore toks (L4 + 1 + itF inner + 1) (i + 2) E (paramOpenT isU name s)) _ = _
      have e4 : i + 2 + 1 + o.toks.length + fcntV v = i + 2 + (1 + o.toks.length + fcntV v) := by omega
      rw [hstep, e4, hwi, ← hEdef, core_done toks L4 E E _ (Nat.le_refl _)]
      rfl
    have hit : L + itF (.paramObj g0 isU name g1 k g2 o v inner gc rest) = (L + itF rest) + 1 := by simp [itF]; omega
    rw [hit, core_param toks (L + itF rest) i e (E + 1) s isU name _ (by omega) h0 h1 (by simp)
      (nextIdx_object toks _ (i + 1) E false h1), hparam]
    simp only [bindE]
    obtain ⟨hwf, hdf⟩ := XF rest toks ((((pre ++ [ptok isU name, Tok.object E false]) ++ (scalTok ⟨false, k.bytes⟩ :: opToks o)) ++
        tV v (i + 2 + 1 + o.toks.length)) ++ (tF inner (i + 2 + (1 + o.toks.length + fcntV v)) ++ [Tok.end (i + 1)])) post
      (i + (3 + (1 + o.toks.length + fcntV v) + fcntF inner)) e L
      (closeP (semF inner (semV v (opK o (wr (paramOpenT isU name s) k.bytes)))))
      (by rw [List.length_append, List.length_append, hlen, len_tV, List.length_append, len_tF]; simp; omega)
      (by rw [ht3]; simp [List.append_assoc]) (by omega) (by omega)
    have e5 : E + 1 = i + (3 + (1 + o.toks.length + fcntV v) + fcntF inner) := by omega
    have e6 : i + (3 + (1 + o.toks.length + fcntV v) + fcntF inner) + fcntF rest =
        i + (3 + (1 + o.toks.length + fcntV v) + fcntF inner + fcntF rest) := by omega
    rw [e5, hwf, e6]
    refine ⟨by simp only [semF, fcntF], ?_⟩
    simp only [semF]
    rw [hdf, closeP_depth, hdi, hdv, opK_depth, wr_depth, paramOpenT_depth]
  | .paramHdr g0 isU name g1 val g2 body rest, toks, pre, post, i, e, L, s, hi, ht, he, hL => by
    rw [tF_paramHdr] at ht
    simp only [ndF] at hL
    simp only [fcntF] at he
    obtain ⟨t, tl, hvt, hno, hnx⟩ := tV_first body (i + 2)
    have hpos := fcntV_pos body
    have hR := ndF_pos rest
    have h0 : toks[i]? = some (ptok isU name) := by rw [ht, hi]; simp
    have h1 : toks[i + 1]? = some (Tok.header val.bytes) := by rw [ht, hi]; simp
    have ht' : toks = (pre ++ [ptok isU name, Tok.header val.bytes]) ++ (tV body (i + 2) ++
        (tF rest (i + (2 + fcntV body)) ++ post)) := by rw [ht]; simp [List.append_assoc]
    have hbi : toks[i + 2]? = some t := by
      rw [ht']; exact at_idx _ _ _ t (tl ++ _) (by simp [hi]) (by rw [hvt]; rfl)
    obtain ⟨L3, hL3⟩ : ∃ L3, L + itF rest = L3 + 1 + 1 := ⟨L + itF rest - 2, by omega⟩
    obtain ⟨hwv, hdv⟩ := XV body toks (pre ++ [ptok isU name, Tok.header val.bytes])
      (tF rest (i + (2 + fcntV body)) ++ post) (i + 2) L3 (writeHeader (paramOpenT isU name s) val.bytes)
      (by simp [hi]) ht' (by omega)
    have hnh : nextIdx toks (toks.length + 1) (i + 1) = .ok (i + 2 + fcntV body) := by
      rw [nextIdx_header toks _ _ val.bytes h1]; exact (hnx toks hbi).2.2
    have hparam : writeParam toks (L + itF rest) (paramOpening isU) name (i + 1) s =
        .ok (put (semV body (writeHeader (paramOpenT isU name s) val.bytes)) [93]) := by
      rw [hL3, writeParam_val toks (L3 + 1) (i + 1) _ name s _ h1 (by simp) (by simp),
        writeValue_hdr toks L3 (i + 1) _ _ val.bytes _ h1 ((hnx toks hbi).1 _) (by omega) (hnx toks hbi).2.1]
      show bindE (writeValue toks L3 (i + 2) (writeHeader (paramOpenT isU name s) val.bytes)) _ = _
      rw [hwv]; rfl
    have hit : L + itF (.paramHdr g0 isU name g1 val g2 body rest) = (L + itF rest) + 1 := by simp [itF]; omega
    rw [hit, core_param toks (L + itF rest) i e (i + 2 + fcntV body) s isU name _ (by omega) h0 h1 (by simp) hnh, hparam]
    simp only [bindE]
    obtain ⟨hwf, hdf⟩ := XF rest toks ((pre ++ [ptok isU name, Tok.header val.bytes]) ++ tV body (i + 2)) post
      (i + (2 + fcntV body)) e L (put (semV body (writeHeader (paramOpenT isU name s) val.bytes)) [93])
      (by simp [hi, len_tV]; omega) (by rw [ht']; simp [List.append_assoc]) (by omega) (by omega)
    have e1 : i + 2 + fcntV body = i + (2 + fcntV body) := by omega
    have e2 : i + (2 + fcntV body) + fcntF rest = i + (2 + fcntV body + fcntF rest) := by omega
    rw [e1, hwf, e2]
    refine ⟨by simp only [semF, fcntF], ?_⟩
    simp only [semF]
    rw [hdf]
    simp [put, hdv, writeHeader_depth, paramOpenT_depth]
theorem XVs : ∀ (vs : FVals) (toks pre post : List Tok) (i e L : Nat) (s : State),
    i = pre.length → toks = pre ++ (tVs vs i ++ post) → i + fcntVs vs ≤ e → ndVs vs ≤ L →
    writeValues toks (L + itVs vs) i e s = writeValues toks L (i + fcntVs vs) e (semVs vs s) ∧
      (semVs vs s).depth = s.depth
  | .nil, toks, pre, post, i, e, L, s, hi, ht, he, hL => by
    simp [itVs, fcntVs, semVs]
  | .cons v rest, toks, pre, post, i, e, L, s, hi, ht, he, hL => by
    rw [tVs_cons] at ht
    simp only [ndVs] at hL
    simp only [fcntVs] at he
    obtain ⟨t, tl, hvt, hno, hnx⟩ := tV_first v i
    have hpos := fcntV_pos v
    have hR := ndVs_pos rest
    have ht' : toks = pre ++ (tV v i ++ (tVs rest (i + fcntV v) ++ post)) := by rw [ht]; simp [List.append_assoc]
    have h0 : toks[i]? = some t := by
      rw [ht']; exact at_idx _ _ _ t (tl ++ _) hi (by rw [hvt]; rfl)
    have hit : L + itVs (.cons v rest) = (L + itVs rest) + 1 := by simp [itVs]; omega
    obtain ⟨hwv, hdv⟩ := XV v toks pre (tVs rest (i + fcntV v) ++ post) i (L + itVs rest) s hi ht' (by omega)
    rw [hit, writeValues_step' toks (L + itVs rest) i e _ s (by omega) (hnx toks h0).2.1, hwv]
    simp only [bindE]
    obtain ⟨hwf, hdf⟩ := XVs rest toks (pre ++ tV v i) post (i + fcntV v) e L (semV v s)
      (by simp [hi, len_tV]) (by rw [ht']; simp [List.append_assoc]) (by omega) (by omega)
    have e2 : i + fcntV v + fcntVs rest = i + (fcntV v + fcntVs rest) := by omega
    rw [hwf, e2]
    refine ⟨by simp only [semVs, fcntVs], ?_⟩
    simp only [semVs]
    rw [hdf, hdv]
theorem XI : ∀ (is : FItems) (toks pre post : List Tok) (i e L : Nat) (s : State),
    i = pre.length → toks = pre ++ (tI is i ++ post) → i + fcntI is ≤ e → ndI is ≤ L →
    writeValues toks (L + itI is) i e s = writeValues toks L (i + fcntI is) e (semI is s) ∧
      (semI is s).depth = s.depth
  | .nil, toks, pre, post, i, e, L, s, hi, ht, he, hL => by
    simp [itI, fcntI, semI]
  | .scal g x rest, toks, pre, post, i, e, L, s, hi, ht, he, hL => by
    rw [tI_scal] at ht
    simp only [ndI] at hL
    simp only [fcntI] at he
    have hR := ndI_pos rest
    have h0 : toks[i]? = some (scalTok x) := by rw [ht, hi]; simp
    have hit : L + itI (.scal g x rest) = (L + itI rest) + 1 := by simp [itI]; omega
    obtain ⟨L1, hL1⟩ : ∃ L1, L + itI rest = L1 + 1 := ⟨L + itI rest - 1, by omega⟩
    rw [hit, writeValues_step' toks (L + itI rest) i e _ s (by omega) (nextIdxValues_scal toks i x h0)]
    have hv : writeValue toks (L + itI rest) i s = .ok (wr s x.text) := by
      rw [hL1, writeValue_scal toks L1 i s x h0]; exact wr_eq s x.text
    rw [hv]
    simp only [bindE]
    obtain ⟨hwf, hdf⟩ := XI rest toks (pre ++ [scalTok x]) post (i + 1) e L (wr s x.text)
      (by simp [hi]) (by rw [ht]; simp) (by omega) (by omega)
    have e2 : i + 1 + fcntI rest = i + (1 + fcntI rest) := by omega
    rw [hwf, e2]
    refine ⟨by simp only [semI, fcntI], ?_⟩
    simp only [semI]
    rw [hdf, wr_depth]
  | .op g o rest, toks, pre, post, i, e, L, s, hi, ht, he, hL => by
    rw [tI_op] at ht
    simp only [ndI] at hL
    simp only [fcntI] at he
    have hR := ndI_pos rest
    have h0 : toks[i]? = some (Tok.operator (opW o)) := by rw [ht, hi]; simp
    have hit : L + itI (.op g o rest) = (L + itI rest) + 1 := by simp [itI]; omega
    obtain ⟨L1, hL1⟩ : ∃ L1, L + itI rest = L1 + 1 := ⟨L + itI rest - 1, by omega⟩
    rw [hit, writeValues_step' toks (L + itI rest) i e _ s (by omega) (nextIdxValues_opTok toks i _ h0)]
    have hv : writeValue toks (L + itI rest) i s = .ok (opArm o s) := by
      rw [hL1, writeValue_opTok toks L1 i s o h0]
    rw [hv]
    simp only [bindE]
    obtain ⟨hwf, hdf⟩ := XI rest toks (pre ++ [Tok.operator (opW o)]) post (i + 1) e L (opArm o s)
      (by simp [hi]) (by rw [ht]; simp) (by omega) (by omega)
    have e2 : i + 1 + fcntI rest = i + (1 + fcntI rest) := by omega
    rw [hwf, e2]
    refine ⟨by simp only [semI, fcntI], ?_⟩
    simp only [semI]
    rw [hdf, opArm_depth]
  | .cont v rest, toks, pre, post, i, e, L, s, hi, ht, he, hL => by
    rw [tI_cont] at ht
    simp only [ndI] at hL
    simp only [fcntI] at he
    obtain ⟨t, tl, hvt, hno, hnx⟩ := tV_first v i
    have hpos := fcntV_pos v
    have hR := ndI_pos rest
    have ht' : toks = pre ++ (tV v i ++ (tI rest (i + fcntV v) ++ post)) := by rw [ht]; simp [List.append_assoc]
    have h0 : toks[i]? = some t := by
      rw [ht']; exact at_idx _ _ _ t (tl ++ _) hi (by rw [hvt]; rfl)
    have hit : L + itI (.cont v rest) = (L + itI rest) + 1 := by simp [itI]; omega
    obtain ⟨hwv, hdv⟩ := XV v toks pre (tI rest (i + fcntV v) ++ post) i (L + itI rest) s hi ht' (by omega)
    rw [hit, writeValues_step' toks (L + itI rest) i e _ s (by omega) (hnx toks h0).2.1, hwv]
    simp only [bindE]
    obtain ⟨hwf, hdf⟩ := XI rest toks (pre ++ tV v i) post (i + fcntV v) e L (semV v s)
      (by simp [hi, len_tV]) (by rw [ht']; simp [List.append_assoc]) (by omega) (by omega)
    have e2 : i + fcntV v + fcntI rest = i + (fcntV v + fcntI rest) := by omega
    rw [hwf, e2]
    refine ⟨by simp only [semI, fcntI], ?_⟩
    simp only [semI]
    rw [hdf, hdv]
end

/-! ### the fuel `write_tape` passes suffices -/

mutual
theorem ndV_le : ∀ v : FVal, ndV v + 1 ≤ 4 * fcntV v
  | .scal .. => by simp [ndV, fcntV]
  | .empty .. => by simp [ndV, fcntV]
  | .obj _ _ first rest _ => by
    have h1 := ndFirst_le first; have h2 := ndF_le rest
    simp only [ndV, fcntV]; omega
  | .arrS _ _ _ rest _ => by
    have h2 := ndVs_le rest
    simp only [ndV, fcntV]; omega
  | .arrC _ first rest _ => by
    have h1 := ndV_le first; have h2 := ndVs_le rest
    simp only [ndV, fcntV]; omega
  | .ghostIn _ _ _ v => by
    have h1 := ndV_le v
    simp only [ndV, fcntV]; omega
  | .mixed _ _ first rest _ _ items _ => by
    have h1 := ndFirst_le first; have h2 := ndF_le rest
    simp only [ndV, fcntV]; omega
  | .arrSM _ _ _ pre _ _ _ _ items _ => by
    have h1 := ndVs_le pre; have h2 := ndI_le items
    simp only [ndV, fcntV]; omega
  | .arrCM _ first pre _ _ _ _ items _ => by
    have h0 := ndV_le first; have h1 := ndVs_le pre; have h2 := ndI_le items
    simp only [ndV, fcntV]; omega
theorem ndFirst_le : ∀ x : FFirst, ndFirst x + itFirst x ≤ 4 * fcntFirst x + 1
  | .kv _ _ _ v => by
    have h1 := ndV_le v
    simp only [ndFirst, itFirst, fcntFirst]; omega
  | .flds f => by
    have h1 := ndF_le f
    simp only [ndFirst, itFirst, fcntFirst]; omega
theorem ndF_le : ∀ fs : FFields, ndF fs + itF fs ≤ 4 * fcntF fs + 1
  | .nil => by simp [ndF, itF, fcntF]
  | .cons _ _ _ _ v rest => by
    have h1 := ndV_le v; have h2 := ndF_le rest
    simp only [ndF, itF, fcntF]; omega
  | .consImp _ _ v rest => by
    have h1 := ndV_le v; have h2 := ndF_le rest
    simp only [ndF, itF, fcntF]; omega
  | .ghost _ _ rest => by
    have h2 := ndF_le rest
    simp only [ndF, itF, fcntF]; omega
  | .consHdr _ _ _ _ _ _ body rest => by
    have h1 := ndV_le body; have h2 := ndF_le rest
    simp only [ndF, itF, fcntF]; omega
  | .paramVal _ _ _ _ _ _ rest => by
    have h2 := ndF_le rest
    simp only [ndF, itF, fcntF]; omega
  | .paramObj _ _ _ _ _ _ _ v inner _ rest => by
    have h1 := ndV_le v; have h2 := ndF_le rest; have h3 := ndF_le inner
    simp only [ndF, itF, fcntF]; omega
  | .paramHdr _ _ _ _ _ _ body rest => by
    have h1 := ndV_le body; have h2 := ndF_le rest
    simp only [ndF, itF, fcntF]; omega
theorem ndVs_le : ∀ vs : FVals, ndVs vs + itVs vs ≤ 4 * fcntVs vs + 1
  | .nil => by simp [ndVs, itVs, fcntVs]
  | .cons v rest => by
    have h1 := ndV_le v; have h2 := ndVs_le rest
    simp only [ndVs, itVs, fcntVs]; omega
theorem ndI_le : ∀ is : FItems, ndI is + itI is ≤ 4 * fcntI is + 1
  | .nil => by simp [ndI, itI, fcntI]
  | .scal _ _ rest => by
    have h2 := ndI_le rest
    simp only [ndI, itI, fcntI]; omega
  | .op _ _ rest => by
    have h2 := ndI_le rest
    simp only [ndI, itI, fcntI]; omega
  | .cont v rest => by
    have h1 := ndV_le v; have h2 := ndI_le rest
    simp only [ndI, itI, fcntI]; omega
end

/-- `write_tape` over the tape of a document of the full document type computes `semF` -/
theorem writeTape_full (fs : FFields) (s : State) : writeTape (tF fs 0) s = .ok (semF fs s) := by
  have hb := ndF_le fs
  have hp := ndF_pos fs
  have hlen := len_tF fs 0
  obtain ⟨L, hL⟩ : ∃ L, 4 * (tF fs 0).length + 8 = (L + 1) + itF fs ∧ ndF fs ≤ L + 1 :=
    ⟨4 * (tF fs 0).length + 8 - itF fs - 1, by omega⟩
  have := (XF fs (tF fs 0) [] [] 0 (tF fs 0).length (L + 1) s rfl (by simp) (by omega) hL.2).1
  rw [writeTape, hL.1, this]
  exact core_done (tF fs 0) L _ _ _ (by omega)

end Jomini.Writer
