import JominiModel.Model.Json
/-
Helper lemmas about the model's DOM walk (`fieldsNext`, `fieldsAll`, `fieldsLen`).
-/
namespace Jomini.Json
open Jomini

theorem fieldsNext_some (t : Tape) (ti e : Nat) (fe : FieldE) (n : Nat)
    (h : fieldsNext t ti e = .ok (some (fe, n))) :
    ti < e ∧ ∃ tok tk, t[ti]? = some tok ∧ tok ≠ .mixed ∧ isKeyTok tok = true ∧ t[ti + 1]? = some tk ∧
      nextIdx t (valueIndOf tk ti) = .ok n ∧ fe = ⟨tok, ti, opOf tk, valueIndOf tk ti⟩ := by
  unfold fieldsNext at h
  split at h
  · simp at h
  · rename_i hlt
    refine ⟨by omega, ?_⟩
    split at h
    · simp at h
    · rename_i tok h0
      split at h
      · simp at h
      · rename_i hnm
        split at h
        · simp at h
        · rename_i hk
          split at h
          · simp at h
          · rename_i tk h1
            split at h
            · simp at h
            · rename_i n' hn
              simp only [Except.ok.injEq, Option.some.injEq, Prod.mk.injEq] at h
              exact ⟨tok, tk, h0, hnm, by simpa using hk, h1, by rw [← h.2]; exact hn, h.1.symm⟩

theorem fieldsNext_none (t : Tape) (ti e : Nat) (h : fieldsNext t ti e = .ok none) :
    ti ≥ e ∨ t[ti]? = some .mixed := by
  unfold fieldsNext at h
  split at h
  · left; assumption
  · right
    split at h
    · simp at h
    · rename_i tok h0
      split at h
      · rename_i hm; rw [h0, hm]
      · split at h
        · simp at h
        · split at h
          · simp at h
          · split at h <;> simp at h

/-- `fields_len` agrees with the number of items `fields()` yields (whenever the iteration succeeds) -/
theorem fieldsLenF_of_fieldsAllF (t : Tape) (fuel : Nat) : ∀ (ti e : Nat) (fs : List FieldE) (last : Nat),
    fieldsAllF t fuel ti e = .ok (fs, last) → fieldsLenF t fuel ti e = .ok fs.length := by
  induction fuel with
  | zero => intro ti e fs last h; simp [fieldsAllF] at h
  | succ fuel ih =>
    intro ti e fs last h
    simp only [fieldsAllF] at h
    split at h
    · simp at h
    · rename_i hn
      simp only [Except.ok.injEq, Prod.mk.injEq] at h
      rw [← h.1]
      rcases fieldsNext_none t ti e hn with hge | hm
      · have : ¬ ti < e := by omega
        simp [fieldsLenF, this]
      · simp only [fieldsLenF, hm]
        split <;> simp
    · rename_i fe ti' hs
      obtain ⟨hlt, tok, tk, h0, hnm, _, h1, hnx, _⟩ := fieldsNext_some t ti e fe ti' hs
      split at h
      · simp at h
      · rename_i fs' last' hrec
        simp only [Except.ok.injEq, Prod.mk.injEq] at h
        have hl := ih _ _ _ _ hrec
        simp only [fieldsLenF, hlt, if_true, h0, hnm, if_false, h1, hnx, hl]
        rw [← h.1]; simp

theorem fieldsLen_of_fieldsAll (t : Tape) (s e : Nat) (fs : List FieldE) (last : Nat)
    (h : fieldsAll t s e = .ok (fs, last)) : fieldsLen t s e = .ok fs.length :=
  fieldsLenF_of_fieldsAllF t _ s e fs last h

end Jomini.Json
