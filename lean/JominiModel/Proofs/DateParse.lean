import JominiModel.Proofs.Date
import JominiModel.Proofs.Scalar
/-
Helper lemmas for the text side of the date model (C13): the component parser on texts of
the grammar, the integer prefix parser on digit strings, integer `Display`.
-/
namespace Jomini.Date
open Jomini Jomini.Scalar

theorem isDigit_ne_dot {a : UInt8} (h : isDigit a = true) : (a == 46) = false := by
  simp only [isDigit, Bool.and_eq_true, decide_eq_true_eq] at h
  rw [beq_eq_false_iff_ne]
  intro e; subst e; simp at h

theorem digitVal_le {a : UInt8} (h : isDigit a = true) : digitVal a ≤ 9 := by
  simp only [isDigit, Bool.and_eq_true, decide_eq_true_eq] at h
  unfold digitVal; omega

/-- every text of the grammar parses to its components -/
theorem parseRest_of_text (y : Int) (data : Bytes) (m d h : Nat) (ht : IsRestText data m d h) :
    Expanded.parseRest y data = .ok ⟨y, m, d, h⟩ := by
  obtain ⟨mt, dt, hm, hd, hh⟩ := ht
  rcases hm with ⟨a, rfl, da, rfl⟩ | ⟨a, b, rfl, da, db, rfl⟩ <;>
  rcases hd with ⟨c, rfl, dc, rfl⟩ | ⟨c, e, rfl, dc, de, rfl⟩ <;>
  rcases hh with ⟨rfl, rfl⟩ | ⟨ht, hht, hne, rfl⟩
  all_goals first
    | (simp [Expanded.parseRest, Expanded.parseDay, da, dc, isDigit_ne_dot, *]; done)
    | (rcases hht with ⟨f, rfl, df, rfl⟩ | ⟨f, g, rfl, df, dg, rfl⟩ <;>
        simp [Expanded.parseRest, Expanded.parseDay, Expanded.parseHour, isDigit_ne_dot, *] <;> omega)

/-! ### the integer prefix parser on digit strings -/

theorem decFrom_append (a b : Bytes) (acc : Nat) : decFrom (a ++ b) acc = decFrom b (decFrom a acc) := by
  induction a generalizing acc with
  | nil => rfl
  | cons x xs ih => simp only [List.cons_append, decFrom, ih]

/-- digits are consumed up to the first non-digit (no overflow as long as the value fits) -/
theorem toU64T2_digits (ds r : Bytes) (acc : Nat) (hd : allDigits ds = true)
    (hfit : decFrom ds acc ≤ U64_MAX) (hr : ∀ c rest, r = c :: rest → isDigit c = false) :
    toU64T2 (ds ++ r) acc = .ok (decFrom ds acc, r) := by
  induction ds generalizing acc with
  | nil =>
    simp only [List.nil_append, decFrom]
    cases r with
    | nil => rfl
    | cons c rest => simp [toU64T2, hr c rest rfl]
  | cons x xs ih =>
    simp only [allDigits, List.all_cons, Bool.and_eq_true] at hd
    have hge := decFrom_ge xs (acc * 10 + digitVal x)
    simp only [decFrom] at hfit ⊢
    simp only [List.cons_append, toU64T2, hd.1, Bool.not_true, Bool.false_eq_true, if_false, overflowMulAdd]
    rw [if_neg (by omega), if_neg (by omega)]
    exact ih _ hd.2 hfit

theorem toI64Go_digits (ds r : Bytes) (sign : Int) (start : Nat) (hd : allDigits ds = true)
    (hfit : decFrom ds start ≤ I64_MAX) (hr : ∀ c rest, r = c :: rest → isDigit c = false)
    (hs : sign = 1 ∨ sign = -1) :
    toI64Go (ds ++ r) sign start = .ok (sign * (decFrom ds start : Int), r) := by
  have h64 : decFrom ds start ≤ U64_MAX := by simp only [I64_MAX, U64_MAX] at *; omega
  unfold toI64Go
  rw [toU64T2_digits ds r start hd h64 hr]
  simp only []
  rcases hs with hs | hs
  · subst hs
    rw [if_neg (by omega), if_neg (by omega)]
    simp
  · subst hs
    rw [if_pos (by omega), if_neg (by simp only [I64_MIN_ABS, I64_MAX] at *; omega)]
    congr 2
    omega

theorem toI64T_digits (t r : Bytes) (ht : t ≠ []) (hd : allDigits t = true)
    (hfit : decVal t ≤ I64_MAX) (hr : ∀ c rest, r = c :: rest → isDigit c = false) :
    toI64T (t ++ r) = .ok ((decVal t : Int), r) := by
  cases t with
  | nil => exact absurd rfl ht
  | cons c cs =>
    simp only [allDigits, List.all_cons, Bool.and_eq_true] at hd
    have hfit' : decFrom cs (digitVal c) ≤ I64_MAX := by simpa [decVal, decFrom] using hfit
    simp only [List.cons_append, toI64T, hd.1, if_true]
    rw [toI64Go_digits cs r 1 _ hd.2 hfit' hr (Or.inl rfl)]
    simp [decVal, decFrom]

theorem toI64T_neg_digits (t r : Bytes) (hd : allDigits t = true)
    (hfit : decVal t ≤ I64_MAX) (hr : ∀ c rest, r = c :: rest → isDigit c = false) :
    toI64T (45 :: (t ++ r)) = .ok (-(decVal t : Int), r) := by
  have e1 : isDigit (45 : UInt8) = false := by decide
  simp only [toI64T, e1, Bool.false_eq_true, if_false, beq_self_eq_true, if_true]
  rw [toI64Go_digits t r (-1) 0 hd (by simpa [decVal] using hfit) hr (Or.inr rfl)]
  simp [decVal]

theorem dot_stops (rest : Bytes) : ∀ c rest', (46 :: rest : Bytes) = c :: rest' → isDigit c = false := by
  intro c rest' h
  cases h
  decide

/-! ### only texts of the grammar are accepted -/

theorem getElem?_drop_add (data : Bytes) (off k : Nat) : data[off + k]? = (data.drop off)[k]? := by
  rw [List.getElem?_drop]

/-- what `parseHour` accepts: `.H` or `.HH` with a nonzero value, and nothing after it -/
theorem parseHour_ok (y : Int) (m d off : Nat) (data : Bytes) (e : Expanded)
    (h : Expanded.parseHour y m d off data = .ok e) :
    ∃ ht hv, Num12 ht hv ∧ hv ≠ 0 ∧ data.drop off = 46 :: ht ∧ e = ⟨y, m, d, hv⟩ := by
  unfold Expanded.parseHour at h
  have h0 : data[off]? = (data.drop off)[0]? := by simpa using getElem?_drop_add data off 0
  rw [h0, getElem?_drop_add data off 1, getElem?_drop_add data off 2] at h
  have hlen : (data.drop off).length = data.length - off := List.length_drop
  generalize ht : data.drop off = t at *
  rcases t with _ | ⟨p, _ | ⟨a, _ | ⟨b, _ | ⟨c, r⟩⟩⟩⟩
  · simp at h
  · simp at h
  · -- [p, a]
    simp only [List.getElem?_cons_zero, List.getElem?_cons_succ, List.getElem?_nil] at h
    split at h
    · cases h
    · rename_i hp
      split at h
      · cases h
      · rename_i ha
        split at h
        · cases h
        · rename_i hv
          cases h
          simp only [bne_iff_ne, ne_eq, Decidable.not_not] at hp
          simp only [Bool.not_eq_true', Bool.not_eq_false] at ha
          subst hp
          exact ⟨[a], digitVal a, Or.inl ⟨a, rfl, by simpa using ha, rfl⟩, by simpa using hv, rfl, rfl⟩
  · -- [p, a, b]
    simp only [List.getElem?_cons_zero, List.getElem?_cons_succ] at h
    split at h
    · cases h
    · rename_i hp
      split at h
      · cases h
      · rename_i ha
        split at h
        · rename_i hb
          split at h
          · cases h
          · rename_i hv
            cases h
            simp only [bne_iff_ne, ne_eq, Decidable.not_not] at hp
            subst hp
            simp only [Bool.or_eq_true, bne_iff_ne, beq_iff_eq, not_or, Decidable.not_not] at hv
            exact ⟨[a, b], _, Or.inr ⟨a, b, rfl, by simpa using ha, hb, rfl⟩, hv.2, rfl, rfl⟩
        · cases h
  · -- four or more: refused
    simp only [List.getElem?_cons_zero, List.getElem?_cons_succ] at h
    simp only [List.length_cons] at hlen
    split at h
    · cases h
    · split at h
      · cases h
      · split at h
        · split at h
          · cases h
          · rename_i hv
            simp only [Bool.or_eq_true, bne_iff_ne, beq_iff_eq, not_or, Decidable.not_not] at hv
            omega
        · cases h

/-- what `parseDay` accepts: `.D` / `.DD`, optionally followed by what `parseHour` accepts -/
theorem parseDay_ok (y : Int) (m off : Nat) (data : Bytes) (e : Expanded)
    (h : Expanded.parseDay y m off data = .ok e) :
    ∃ dt dv, Num12 dt dv ∧
      ((data.drop off = 46 :: dt ∧ e = ⟨y, m, dv, 0⟩) ∨
       (∃ ht hv, Num12 ht hv ∧ hv ≠ 0 ∧ data.drop off = 46 :: dt ++ 46 :: ht ∧ e = ⟨y, m, dv, hv⟩)) := by
  unfold Expanded.parseDay at h
  have h0 : data[off]? = (data.drop off)[0]? := by simp [getElem?_drop_add data off 0]
  rw [h0, getElem?_drop_add data off 1, getElem?_drop_add data off 2] at h
  have hlen : (data.drop off).length = data.length - off := List.length_drop
  have hd2 : data.drop (off + 2) = (data.drop off).drop 2 := by rw [List.drop_drop]
  have hd3 : data.drop (off + 3) = (data.drop off).drop 3 := by rw [List.drop_drop]
  generalize ht : data.drop off = t at *
  rcases t with _ | ⟨p, _ | ⟨n3, _ | ⟨n4, r⟩⟩⟩
  · simp at h
  · simp at h
  · -- [p, n3]
    simp only [List.getElem?_cons_zero, List.getElem?_cons_succ, List.getElem?_nil] at h
    split at h
    · cases h
    · rename_i hp
      split at h
      · cases h
      · rename_i ha
        cases h
        simp only [bne_iff_ne, ne_eq, Decidable.not_not] at hp
        subst hp
        exact ⟨[n3], _, Or.inl ⟨n3, rfl, by simpa using ha, rfl⟩, Or.inl ⟨rfl, rfl⟩⟩
  · simp only [List.getElem?_cons_zero, List.getElem?_cons_succ] at h
    simp only [List.length_cons] at hlen
    simp only [List.drop_succ_cons, List.drop_zero] at hd2 hd3
    split at h
    · cases h
    · rename_i hp
      simp only [bne_iff_ne, ne_eq, Decidable.not_not] at hp
      subst hp
      split at h
      · cases h
      · rename_i ha
        have ha' : isDigit n3 = true := by simpa using ha
        split at h
        · -- one-digit day, hour follows
          obtain ⟨ht', hv, hn, hne, hdrop, he⟩ := parseHour_ok _ _ _ _ _ _ h
          rw [hd2] at hdrop
          refine ⟨[n3], _, Or.inl ⟨n3, rfl, ha', rfl⟩, Or.inr ⟨ht', hv, hn, hne, ?_, he⟩⟩
          rw [hdrop]; rfl
        · split at h
          · rename_i hb
            split at h
            · -- two-digit day, hour follows
              obtain ⟨ht', hv, hn, hne, hdrop, he⟩ := parseHour_ok _ _ _ _ _ _ h
              rw [hd3] at hdrop
              refine ⟨[n3, n4], _, Or.inr ⟨n3, n4, rfl, ha', hb, rfl⟩, Or.inr ⟨ht', hv, hn, hne, ?_, he⟩⟩
              rw [hdrop]; rfl
            · rename_i hl
              cases h
              have : r = [] := by
                simp only [bne_iff_ne, ne_eq, Decidable.not_not] at hl
                have : r.length = 0 := by omega
                exact List.eq_nil_of_length_eq_zero this
              subst this
              exact ⟨[n3, n4], _, Or.inr ⟨n3, n4, rfl, ha', hb, rfl⟩, Or.inl ⟨rfl, rfl⟩⟩
          · cases h

theorem parseRest_ok (y : Int) (data : Bytes) (e : Expanded) (h : Expanded.parseRest y data = .ok e) :
    e.year = y ∧ IsRestText data e.month e.day e.hour := by
  unfold Expanded.parseRest at h
  rcases data with _ | ⟨c0, _ | ⟨c1, _ | ⟨c2, r⟩⟩⟩
  · simp at h
  · simp at h
  · simp at h
  · simp only [List.getElem?_cons_zero, List.getElem?_cons_succ] at h
    split at h
    · cases h
    · rename_i hp
      simp only [bne_iff_ne, ne_eq, Decidable.not_not] at hp
      subst hp
      split at h
      · cases h
      · rename_i ha
        have ha' : isDigit c1 = true := by simpa using ha
        by_cases h2 : (c2 == 46) = true
        · simp only [h2, if_true] at h
          obtain ⟨dt, dv, hn, hcase⟩ := parseDay_ok _ _ _ _ _ h
          simp only [List.drop_succ_cons, List.drop_zero] at hcase
          rcases hcase with ⟨hd, rfl⟩ | ⟨ht, hv, hhn, hne, hd, rfl⟩
          · refine ⟨rfl, [c1], dt, Or.inl ⟨c1, rfl, ha', rfl⟩, hn, Or.inl ⟨rfl, ?_⟩⟩
            rw [hd]; rfl
          · refine ⟨rfl, [c1], dt, Or.inl ⟨c1, rfl, ha', rfl⟩, hn, Or.inr ⟨ht, hhn, hne, ?_⟩⟩
            rw [hd]; simp
        · simp only [h2, Bool.false_eq_true, if_false] at h
          by_cases hb : isDigit c2 = true
          · simp only [hb, if_true] at h
            obtain ⟨dt, dv, hn, hcase⟩ := parseDay_ok _ _ _ _ _ h
            simp only [List.drop_succ_cons, List.drop_zero] at hcase
            rcases hcase with ⟨hd, rfl⟩ | ⟨ht, hv, hhn, hne, hd, rfl⟩
            · refine ⟨rfl, [c1, c2], dt, Or.inr ⟨c1, c2, rfl, ha', hb, rfl⟩, hn, Or.inl ⟨rfl, ?_⟩⟩
              rw [hd]; rfl
            · refine ⟨rfl, [c1, c2], dt, Or.inr ⟨c1, c2, rfl, ha', hb, rfl⟩, hn, Or.inr ⟨ht, hhn, hne, ?_⟩⟩
              rw [hd]; simp
          · simp [hb] at h

/-- **exact grammar of the component parser after the year** -/
theorem parseRest_iff (y : Int) (data : Bytes) (e : Expanded) :
    Expanded.parseRest y data = .ok e ↔ e.year = y ∧ IsRestText data e.month e.day e.hour := by
  constructor
  · exact parseRest_ok y data e
  · rintro ⟨rfl, ht⟩
    exact parseRest_of_text _ _ _ _ _ ht


/-- **exact grammar of `ExpandedRawDate::parse`**: the integer prefix parser reads a year; then
either nothing is left and the number is decoded as the binary form, or the rest is `.M.D[.H]`
and the year fits an `i16`. -/
theorem Expanded.parse_iff (s : Bytes) (e : Expanded) :
    Expanded.parse s = .ok e ↔
      ∃ v rest, Scalar.toI64T s = .ok (v, rest) ∧
        ((rest = [] ∧ inI32 v = true ∧ Expanded.fromBinary v = .ok e) ∨
         (rest ≠ [] ∧ inI16 v = true ∧ e.year = v ∧ IsRestText rest e.month e.day e.hour)) := by
  unfold Expanded.parse
  cases ht : Scalar.toI64T s with
  | error err => simp
  | ok p =>
    obtain ⟨v, rest⟩ := p
    simp only [Except.ok.injEq, Prod.mk.injEq]
    cases rest with
    | nil =>
      simp only [List.isEmpty_nil, if_true]
      constructor
      · intro h
        by_cases h32 : inI32 v = true
        · rw [if_pos h32] at h
          exact ⟨v, [], ⟨rfl, rfl⟩, Or.inl ⟨rfl, h32, h⟩⟩
        · rw [if_neg h32] at h; cases h
      · rintro ⟨v', rest', ⟨rfl, rfl⟩, hcase⟩
        rcases hcase with ⟨_, h32, h⟩ | ⟨hne, _⟩
        · rw [if_pos h32]; exact h
        · exact absurd rfl hne
    | cons c r =>
      simp only [List.isEmpty_cons, Bool.false_eq_true, if_false]
      constructor
      · intro h
        by_cases h16 : inI16 v = true
        · simp only [h16, Bool.not_true, Bool.false_eq_true, if_false] at h
          have := (parseRest_iff v (c :: r) e).1 h
          exact ⟨v, c :: r, ⟨rfl, rfl⟩, Or.inr ⟨by simp, h16, this.1, this.2⟩⟩
        · simp [h16] at h
      · rintro ⟨v', rest', ⟨rfl, rfl⟩, hcase⟩
        rcases hcase with ⟨hnil, _⟩ | ⟨_, h16, hy, ht'⟩
        · cases hnil
        · simp only [h16, Bool.not_true, Bool.false_eq_true, if_false]
          exact (parseRest_iff _ _ e).2 ⟨hy, ht'⟩

end Jomini.Date
