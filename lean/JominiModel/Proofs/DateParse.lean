import JominiModel.Proofs.Date
import JominiModel.Proofs.Scalar
/-
Helper lemmas for the text side of the date model (C13): the component parser on texts of
the grammar, the integer prefix parser on digit strings, integer `Display`.
-/
namespace Jomini.Date
open Jomini Jomini.Scalar

theorem isDigit_ne_dot {a : UInt8} (h : isDigit a = true) : (a == 46) = false := by
  simp only [isDigit, Bool.and_eq_true, decide_eq_true_eq] at h
  rw [beq_eq_false_iff_ne]
  intro e; subst e; simp at h

theorem digitVal_le {a : UInt8} (h : isDigit a = true) : digitVal a ≤ 9 := by
  simp only [isDigit, Bool.and_eq_true, decide_eq_true_eq] at h
  unfold digitVal; omega

/-- every text of the grammar parses to its components -/
theorem parseRest_of_text (y : Int) (data : Bytes) (m d h : Nat) (ht : IsRestText data m d h) :
    Expanded.parseRest y data = .ok ⟨y, m, d, h⟩ := by
  obtain ⟨mt, dt, hm, hd, hh⟩ := ht
  rcases hm with ⟨a, rfl, da, rfl⟩ | ⟨a, b, rfl, da, db, rfl⟩ <;>
  rcases hd with ⟨c, rfl, dc, rfl⟩ | ⟨c, e, rfl, dc, de, rfl⟩ <;>
  rcases hh with ⟨rfl, rfl⟩ | ⟨ht, hht, hne, rfl⟩
  all_goals first
    | (simp [Expanded.parseRest, da, dc, isDigit_ne_dot, *]; done)
    | (rcases hht with ⟨f, rfl, df, rfl⟩ | ⟨f, g, rfl, df, dg, rfl⟩ <;>
        simp [Expanded.parseRest, Expanded.parseHour, isDigit_ne_dot, *] <;> omega)

/-! ### the integer prefix parser on digit strings -/

theorem decFrom_append (a b : Bytes) (acc : Nat) : decFrom (a ++ b) acc = decFrom b (decFrom a acc) := by
  induction a generalizing acc with
  | nil => rfl
  | cons x xs ih => simp only [List.cons_append, decFrom, ih]

/-- digits are consumed up to the first non-digit (no overflow as long as the value fits) -/
theorem toU64T2_digits (ds r : Bytes) (acc : Nat) (hd : allDigits ds = true)
    (hfit : decFrom ds acc ≤ U64_MAX) (hr : ∀ c rest, r = c :: rest → isDigit c = false) :
    toU64T2 (ds ++ r) acc = .ok (decFrom ds acc, r) := by
  induction ds generalizing acc with
  | nil =>
    simp only [List.nil_append, decFrom]
    cases r with
    | nil => rfl
    | cons c rest => simp [toU64T2, hr c rest rfl]
  | cons x xs ih =>
    simp only [allDigits, List.all_cons, Bool.and_eq_true] at hd
    have hge := decFrom_ge xs (acc * 10 + digitVal x)
    simp only [decFrom] at hfit ⊢
    simp only [List.cons_append, toU64T2, hd.1, Bool.not_true, Bool.false_eq_true, if_false, overflowMulAdd]
    rw [if_neg (by omega), if_neg (by omega)]
    exact ih _ hd.2 hfit

theorem toI64Go_digits (ds r : Bytes) (sign : Int) (start : Nat) (hd : allDigits ds = true)
    (hfit : decFrom ds start ≤ I64_MAX) (hr : ∀ c rest, r = c :: rest → isDigit c = false) :
    toI64Go (ds ++ r) sign start = .ok (sign * (decFrom ds start : Int), r) := by
  have h64 : decFrom ds start ≤ U64_MAX := by simp only [I64_MAX, U64_MAX] at *; omega
  unfold toI64Go
  rw [toU64T2_digits ds r start hd h64 hr]
  simp only []
  rw [if_neg (by omega)]

theorem toI64T_digits (t r : Bytes) (ht : t ≠ []) (hd : allDigits t = true)
    (hfit : decVal t ≤ I64_MAX) (hr : ∀ c rest, r = c :: rest → isDigit c = false) :
    toI64T (t ++ r) = .ok ((decVal t : Int), r) := by
  cases t with
  | nil => exact absurd rfl ht
  | cons c cs =>
    simp only [allDigits, List.all_cons, Bool.and_eq_true] at hd
    have hfit' : decFrom cs (digitVal c) ≤ I64_MAX := by simpa [decVal, decFrom] using hfit
    simp only [List.cons_append, toI64T, hd.1, if_true]
    rw [toI64Go_digits cs r 1 _ hd.2 hfit' hr]
    simp [decVal, decFrom]

theorem toI64T_neg_digits (t r : Bytes) (hd : allDigits t = true)
    (hfit : decVal t ≤ I64_MAX) (hr : ∀ c rest, r = c :: rest → isDigit c = false) :
    toI64T (45 :: (t ++ r)) = .ok (-(decVal t : Int), r) := by
  have e1 : isDigit (45 : UInt8) = false := by decide
  simp only [toI64T, e1, Bool.false_eq_true, if_false, beq_self_eq_true, if_true]
  rw [toI64Go_digits t r (-1) 0 hd (by simpa [decVal] using hfit) hr]
  simp [decVal]

theorem dot_stops (rest : Bytes) : ∀ c rest', (46 :: rest : Bytes) = c :: rest' → isDigit c = false := by
  intro c rest' h
  cases h
  decide

end Jomini.Date
