import JominiModel.Model.Date
import Std.Tactic.BVDecide
/-
64-bit SWAR lemmas for `util::fast_digit_parse` (util.rs:15-28) and the byte packing of
`u64::from_le_bytes`.  The only file of the C13 slice that uses `bv_decide`; everything is
about `BitVec 64`/`BitVec 8` terms.  The value computation is proved stage by stage (the
one-shot goal needs minutes): each multiplication stage is a lemma over free lane variables.
-/
namespace Jomini.Date.Swar

/-- byte `i` of a little-endian word, zero extended -/
def byteAt (w : BitVec 64) (i : Nat) : BitVec 64 := (w >>> (8 * i)) &&& 0xFF#64
/-- `'0' ≤ b ≤ '9'` on a zero-extended byte -/
def isDig (b : BitVec 64) : Bool := (0x30#64).ule b && b.ule 0x39#64
/-- digit value of byte `i` -/
def dg (w : BitVec 64) (i : Nat) : BitVec 64 := byteAt w i - 0x30#64
/-- all eight bytes are ASCII digits -/
def allDig (w : BitVec 64) : Bool :=
  isDig (byteAt w 0) && isDig (byteAt w 1) && isDig (byteAt w 2) && isDig (byteAt w 3) &&
  isDig (byteAt w 4) && isDig (byteAt w 5) && isDig (byteAt w 6) && isDig (byteAt w 7)

/-- decimal value of the eight digits, first byte most significant (Horner form of the
three multiplication stages) -/
def horner (w : BitVec 64) : BitVec 64 :=
  ((dg w 0 * 10 + dg w 1) * 100 + (dg w 2 * 10 + dg w 3)) * 10000 +
    ((dg w 4 * 10 + dg w 5) * 100 + (dg w 6 * 10 + dg w 7))

def st1 (v : BitVec 64) : BitVec 64 := ((v &&& 0x0F0F0F0F0F0F0F0F#64) * 2561#64) >>> 8
def st2 (v1 : BitVec 64) : BitVec 64 := ((v1 &&& 0x00FF00FF00FF00FF#64) * 6553601#64) >>> 16
def st3 (v2 : BitVec 64) : BitVec 64 := ((v2 &&& 0x0000FFFF0000FFFF#64) * 42949672960001#64) >>> 32

/-- the digit test of `fast_digit_parse` is exact -/
theorem isSome_eq (w : BitVec 64) : (fastDigitParse w).isSome = allDig w := by
  unfold fastDigitParse allDig byteAt isDig
  simp only []
  split <;> simp_all <;> bv_decide (config := { timeout := 180 })

theorem value_eq (w : BitVec 64) : ∀ v, fastDigitParse w = some v → v = st3 (st2 (st1 w)) := by
  intro v h
  unfold fastDigitParse at h
  simp only [] at h
  split at h
  · cases h
  · cases h; rfl

/-- stage 1: adjacent digits are combined into four 16-bit lanes `10·a + b` -/
theorem st1_spec (w : BitVec 64) (h : allDig w = true) :
    st1 w &&& 0x00FF00FF00FF00FF#64 =
      (dg w 0 * 10 + dg w 1) ||| ((dg w 2 * 10 + dg w 3) <<< 16) ||| ((dg w 4 * 10 + dg w 5) <<< 32)
        ||| ((dg w 6 * 10 + dg w 7) <<< 48) := by
  unfold allDig st1 dg byteAt isDig at *
  bv_decide (config := { timeout := 180 })

theorem pair_le (w : BitVec 64) (h : allDig w = true) :
    (dg w 0 * 10 + dg w 1).ule 99#64 = true ∧ (dg w 2 * 10 + dg w 3).ule 99#64 = true ∧
    (dg w 4 * 10 + dg w 5).ule 99#64 = true ∧ (dg w 6 * 10 + dg w 7).ule 99#64 = true := by
  unfold allDig dg byteAt isDig at *
  refine ⟨?_, ?_, ?_, ?_⟩ <;> bv_decide (config := { timeout := 180 })

/-- stage 2: four lanes `≤ 99` are combined into two 32-bit lanes `100·a + b` -/
theorem st2_spec (a b c d : BitVec 64) (ha : a.ule 99#64 = true) (hb : b.ule 99#64 = true)
    (hc : c.ule 99#64 = true) (hd : d.ule 99#64 = true) :
    (((a ||| (b <<< 16) ||| (c <<< 32) ||| (d <<< 48)) * 6553601#64) >>> 16) &&& 0x0000FFFF0000FFFF#64 =
      (a * 100 + b) ||| ((c * 100 + d) <<< 32) := by
  bv_decide (config := { timeout := 180 })

theorem quad_le (a b : BitVec 64) (ha : a.ule 99#64 = true) (hb : b.ule 99#64 = true) :
    (a * 100 + b).ule 9999#64 = true := by
  bv_decide (config := { timeout := 180 })

/-- stage 3: two lanes `≤ 9999` are combined into `10000·p + q` -/
theorem st3_spec (p q : BitVec 64) (hp : p.ule 9999#64 = true) (hq : q.ule 9999#64 = true) :
    ((p ||| (q <<< 32)) * 42949672960001#64) >>> 32 = p * 10000 + q := by
  bv_decide (config := { timeout := 180 })

/-- **`fast_digit_parse`, value**: on eight digits the three stages compute the decimal value. -/
theorem stages_spec (w : BitVec 64) (h : allDig w = true) : st3 (st2 (st1 w)) = horner w := by
  obtain ⟨h01, h23, h45, h67⟩ := pair_le w h
  have e2 : st2 (st1 w) &&& 0x0000FFFF0000FFFF#64 =
      ((dg w 0 * 10 + dg w 1) * 100 + (dg w 2 * 10 + dg w 3)) |||
        (((dg w 4 * 10 + dg w 5) * 100 + (dg w 6 * 10 + dg w 7)) <<< 32) := by
    unfold st2
    rw [st1_spec w h]
    exact st2_spec _ _ _ _ h01 h23 h45 h67
  unfold st3
  rw [e2]
  exact st3_spec _ _ (quad_le _ _ h01 h23) (quad_le _ _ h45 h67)

theorem fastDigitParse_word (w : BitVec 64) :
    fastDigitParse w = if allDig w = true then some (horner w) else none := by
  have hs := isSome_eq w
  cases hf : fastDigitParse w with
  | none => rw [hf] at hs; simp at hs; simp [← hs]
  | some v =>
    rw [hf] at hs
    simp only [Option.isSome_some] at hs
    rw [if_pos hs.symm, value_eq w v hf, stages_spec w hs.symm]

/-- `u64::from_le_bytes` of eight bytes, as the nested or/shift that `leU64` unfolds to -/
def pack8 (b0 b1 b2 b3 b4 b5 b6 b7 : BitVec 8) : BitVec 64 :=
  b0.setWidth 64 ||| ((b1.setWidth 64 ||| ((b2.setWidth 64 ||| ((b3.setWidth 64 ||| ((b4.setWidth 64 |||
    ((b5.setWidth 64 ||| ((b6.setWidth 64 ||| ((b7.setWidth 64 ||| (0#64 <<< 8)) <<< 8)) <<< 8)) <<< 8)) <<< 8))
      <<< 8)) <<< 8)) <<< 8)

theorem byteAt_pack8 (b0 b1 b2 b3 b4 b5 b6 b7 : BitVec 8) :
    byteAt (pack8 b0 b1 b2 b3 b4 b5 b6 b7) 0 = b0.setWidth 64 ∧
    byteAt (pack8 b0 b1 b2 b3 b4 b5 b6 b7) 1 = b1.setWidth 64 ∧
    byteAt (pack8 b0 b1 b2 b3 b4 b5 b6 b7) 2 = b2.setWidth 64 ∧
    byteAt (pack8 b0 b1 b2 b3 b4 b5 b6 b7) 3 = b3.setWidth 64 ∧
    byteAt (pack8 b0 b1 b2 b3 b4 b5 b6 b7) 4 = b4.setWidth 64 ∧
    byteAt (pack8 b0 b1 b2 b3 b4 b5 b6 b7) 5 = b5.setWidth 64 ∧
    byteAt (pack8 b0 b1 b2 b3 b4 b5 b6 b7) 6 = b6.setWidth 64 ∧
    byteAt (pack8 b0 b1 b2 b3 b4 b5 b6 b7) 7 = b7.setWidth 64 := by
  unfold byteAt pack8
  refine ⟨?_, ?_, ?_, ?_, ?_, ?_, ?_, ?_⟩ <;> bv_decide (config := { timeout := 180 })

/-- the 8-byte mask trick of `Date::_parse` for `YYYY.M.D` (date.rs:569-570): the two tested
bytes are the dots, and `e` is the word with both dots replaced by '0'. -/
theorem mask_trick (b0 b1 b2 b3 b4 b5 b6 b7 : BitVec 8) :
    (((pack8 b0 b1 b2 b3 b4 b5 b6 b7 &&& 0x00FF00FF00000000#64) == 0x002E002E00000000#64) =
      (b4 == 0x2E#8 && b6 == 0x2E#8)) ∧
    ((b4 = 0x2E#8 ∧ b6 = 0x2E#8) →
      (pack8 b0 b1 b2 b3 b4 b5 b6 b7 &&& 0xFF30FF30FFFFFFFF#64) ||| 0x0030003000000000#64 =
        pack8 b0 b1 b2 b3 0x30#8 b5 0x30#8 b7) := by
  unfold pack8
  constructor
  · bv_decide (config := { timeout := 180 })
  · rintro ⟨rfl, rfl⟩
    bv_decide (config := { timeout := 180 })

end Jomini.Date.Swar
