import JominiModel.Proofs.TextReaderFull
/-
C19 (text reader): byte-level cuts.  The tokens of the reader over a prefix `d.take k` of an input are tokens of the reader
over the whole input — except that the last one may be an unquoted scalar cut short —, or the cut run ends in `Eof`.
-/
namespace Jomini.TextReader
open Jomini Jomini.TextReader.Spec

/-- the reference step of a prefix `p` against the reference step of `p ++ x`, at a byte that starts a token: a token that
`p` decides is the token of `p ++ x`; the only other token `p` can yield is an unquoted scalar that reaches the end of `p`,
and then `p ++ x` yields an unquoted scalar of which it is a prefix. -/
theorem interp_tokenAt_cut (pre : Bytes) (c : UInt8) (r x : Bytes) (bR : Bom) {adv : Nat} {t : Token} {b' : Bom}
    (h : interp (pre ++ c :: r) (bR, tokenAt c r pre.length) = some (.tok adv t b')) :
    interp (pre ++ c :: (r ++ x)) (bR, tokenAt c (r ++ x) pre.length) = some (.tok adv t b') ∨
    (adv = (pre ++ c :: r).length ∧ ∃ bp b adv2, t = .unquoted bp ∧
      interp (pre ++ c :: (r ++ x)) (bR, tokenAt c (r ++ x) pre.length) = some (.tok adv2 (.unquoted b) b') ∧
      bp <+: b ∧ (pre ++ c :: r).length ≤ adv2) := by
  cases htok : tokenAt c r pre.length with
  | bomFill => exact absurd htok (tokenAt_not_bomFill _ _ _)
  | tok a t' =>
    left
    rw [htok] at h
    rw [tokenAt_stable x htok]
    simpa [interp] using h
  | refill st carry off =>
    rw [htok] at h
    rcases tokenAt_refill htok with ⟨rfl, _, _⟩ | ⟨rfl, _, _⟩ | ⟨rfl, hf, hcar, _, hunq⟩
    · exfalso
      simp only [interp] at h
      split at h
      · simp at h
      · split at h
        · simp at h
        · split at h <;> simp at h
    · simp [interp] at h
    · right
      subst hcar
      simp only [interp, Option.some.injEq, Step1.tok.injEq] at h
      obtain ⟨h1, h2, h3⟩ := h
      have hdrop : (pre ++ c :: r).drop ((pre ++ c :: r).length - (r.length + 1)) = c :: r := by
        have : (pre ++ c :: r).length - (r.length + 1) = pre.length := by simp
        rw [this]; simp
      rw [hdrop] at h2
      refine ⟨h1.symm, c :: r, ?_⟩
      rw [hunq x]
      unfold unqTok
      cases hfx : findIdx isBoundary (r ++ x) 0 with
      | none =>
        refine ⟨c :: (r ++ x), (pre ++ c :: (r ++ x)).length, h2.symm, ?_, ⟨x, by simp⟩, by simp⟩
        simp only [interp, Option.some.injEq, Step1.tok.injEq]
        refine ⟨trivial, ?_, h3⟩
        have : (pre ++ c :: (r ++ x)).length - ((r ++ x).length + 1) = pre.length := by simp
        rw [this]; simp
      | some k =>
        have hk : r.length ≤ k := by
          rw [findIdx_append_none x hf] at hfx
          have := findIdx_some_bounds hfx
          omega
        refine ⟨(c :: (r ++ x)).take (1 + k), pre.length + 1 + k, h2.symm, ?_, ?_, by simp; omega⟩
        · simp only [interp, Option.some.injEq, Step1.tok.injEq]
          exact ⟨trivial, trivial, h3⟩
        · rw [show 1 + k = k + 1 by omega, List.take_succ_cons, List.take_append]
          rw [List.take_of_length_le hk]
          exact ⟨x.take (k - r.length), by simp⟩

/-- the cut that is not covered: the input begins with a UTF-8 BOM and the cut falls inside it (after 1 or 2 bytes) — the
prefix is then read as an unquoted scalar `EF` / `EF BB`, the whole input skips the BOM -/
def BomCut (pos0 : Bool) (bom : Bom) (p x : Bytes) : Prop :=
  pos0 = true ∧ bom = .unknown ∧ (p.length = 1 ∨ p.length = 2) ∧ ∃ r, p ++ x = 0xef :: 0xbb :: 0xbf :: r

/-- **the reference step on a prefix** -/
theorem specStep_cut (pos0 : Bool) (bom : Bom) (p x : Bytes) (hE : ¬BomCut pos0 bom p x) {adv : Nat} {t : Token} {b' : Bom}
    (h : specStep pos0 bom p = some (.tok adv t b')) :
    (∃ b'', specStep pos0 bom (p ++ x) = some (.tok adv t b'')) ∨
    (adv = p.length ∧ ∃ bp b adv2 b'', t = .unquoted bp ∧ specStep pos0 bom (p ++ x) = some (.tok adv2 (.unquoted b) b'') ∧
      bp <+: b ∧ p.length ≤ adv2) := by
  obtain ⟨pre, tail, bom_s, rfl, hs, ht⟩ := decompose pos0 p.length p 0 bom (Nat.le_refl _)
  simp only [Nat.zero_add] at ht
  have hspec : ∀ (z : Bytes) (b : Bom) (sc : Scan), fbLoop pos0 z .top 0 bom = (b, sc) → sc ≠ .bomFill →
      specStep pos0 bom z = interp z (b, sc) := by
    intro z b sc hz hnb
    unfold specStep; rw [hz]
    cases sc with
    | bomFill => exact absurd rfl hnb
    | tok _ _ => rfl
    | refill _ _ _ => rfl
  rcases fbLoop_tail ht with ⟨rfl, h1⟩ | ⟨a, rfl, h1⟩ | ⟨c, r, bomR, rfl, _, _, h1⟩ | ⟨r, rfl, hr, hbc, h1⟩
  · exfalso
    have hp : fbLoop pos0 (pre ++ []) .top 0 bom = (bom_s, .refill .none 0 0) := by
      rw [hs.fbLoop]; simpa using h1
    rw [hspec _ _ _ hp (by simp)] at h
    simp [interp] at h
  · exfalso
    have hp : fbLoop pos0 (pre ++ 35 :: a) .top 0 bom = (bom_s, .refill .none (35 :: a).length 0) := by
      rw [hs.fbLoop]; simpa using h1
    rw [hspec _ _ _ hp (by simp)] at h
    simp only [interp] at h
    have hne : ((35 :: a).length == 0) = false := by simp
    simp only [hne, Bool.false_eq_true, if_false] at h
    have hd : (pre ++ 35 :: a).drop ((pre ++ 35 :: a).length - (35 :: a).length) = 35 :: a := by
      have : (pre ++ 35 :: a).length - (35 :: a).length = pre.length := by simp
      rw [this]; simp
    rw [hd] at h
    simp at h
  · -- a token byte
    have hp : fbLoop pos0 (pre ++ c :: r) .top 0 bom = (bomR, tokenAt c r pre.length) := by
      rw [hs.fbLoop]; have := h1 []; simpa using this
    have hpx : fbLoop pos0 ((pre ++ c :: r) ++ x) .top 0 bom = (bomR, tokenAt c (r ++ x) pre.length) := by
      rw [List.append_assoc, hs.fbLoop]; have := h1 x; simpa using this
    rw [hspec _ _ _ hp (tokenAt_not_bomFill _ _ _)] at h
    rw [hspec _ _ _ hpx (tokenAt_not_bomFill _ _ _)]
    have e : (pre ++ c :: r) ++ x = pre ++ c :: (r ++ x) := by simp
    rw [e]
    rcases interp_tokenAt_cut pre c r x bomR h with h' | ⟨ha, bp, b, adv2, h2, h3, h4, h5⟩
    · exact Or.inl ⟨_, h'⟩
    · exact Or.inr ⟨ha, bp, b, adv2, _, h2, h3, h4, h5⟩
  · -- the BOM arm wants more bytes: fewer than three bytes in the prefix
    obtain ⟨_, hbu, hj, hp0⟩ := hbc
    have hpre : pre = [] := List.eq_nil_of_length_eq_zero hj
    subst hpre
    have hbs := hs.nil_eq
    subst hbs hbu hp0
    simp only [List.nil_append, List.length_nil] at h hE h1 ⊢
    have hnbc : ¬BomCheck true 0xef 0 .notPresent := by simp [BomCheck]
    have hP : specStep true .unknown (0xef :: r) = interp (0xef :: r) (.notPresent, tokenAt 0xef r 0) := by
      unfold specStep
      rw [h1]
      simp only
      rw [fbLoop_token (by decide) (by decide) hnbc]
      rfl
    have hX : specStep true .unknown (0xef :: (r ++ x)) = interp (0xef :: (r ++ x)) (.notPresent, tokenAt 0xef (r ++ x) 0) := by
      have hbc' : BomCheck true 0xef 0 .unknown := ⟨by decide, rfl, rfl, rfl⟩
      rcases hrx : r ++ x with _ | ⟨d, _ | ⟨e, rest⟩⟩
      · unfold specStep
        rw [fbLoop_bomShort hbc' (by simp)]
        simp only
        rw [fbLoop_token (by decide) (by decide) hnbc]; rfl
      · unfold specStep
        rw [fbLoop_bomShort hbc' (by simp)]
        simp only
        rw [fbLoop_token (by decide) (by decide) hnbc]; rfl
      · have hn : (d == 0xbb && e == 0xbf) = false := by
          cases hde : (d == 0xbb && e == 0xbf) with
          | false => rfl
          | true =>
            exfalso
            simp only [Bool.and_eq_true, beq_iff_eq] at hde
            refine hE ⟨rfl, rfl, ?_, rest, ?_⟩
            · simp only [List.length_cons]; omega
            · simp only [List.cons_append, hrx, hde.1, hde.2]
        exact hspec _ _ _ (fbLoop_bomNo hbc' hn) (tokenAt_not_bomFill _ _ _)
    rw [hP] at h
    simp only [List.cons_append]
    rw [hX]
    rcases interp_tokenAt_cut [] 0xef r x .notPresent (by simpa using h) with h' | ⟨ha, bp, b, adv2, h2, h3, h4, h5⟩
    · exact Or.inl ⟨_, by simpa using h'⟩
    · exact Or.inr ⟨by simpa using ha, bp, b, adv2, _, h2, by simpa using h3, h4, by simpa using h5⟩

/-- the tokens `A` of the cut run against the tokens `B` of the full run: a prefix of them, or a prefix followed by ONE
unquoted scalar that is a prefix of the full run's unquoted scalar at that position -/
def CutOK (A B : List Token) : Prop :=
  A <+: B ∨ ∃ c bp b, A = c ++ [Token.unquoted bp] ∧ (c ++ [Token.unquoted b]) <+: B ∧ bp <+: b

theorem specStep_nil (pos0 : Bool) (bom : Bom) : specStep pos0 bom [] = some (.end_ bom) := by
  simp [specStep, fbLoop, interp]

/-- a slice reader at the end of its input returns no further token -/
theorem lexAll_at_end (r : Reader) (pos : Nat) (bom : Bom) (f n : Nat) (acc : List Token)
    (hrel : RelQ r pos bom []) (hcap : r.cap = 0) (hf : 4 ≤ f) : (lexAll f n r acc).toks = acc.reverse := by
  cases n with
  | zero => rfl
  | succ n =>
    have o := nextOpt_specQ r pos bom [] f hrel (by simpa using hf)
    rcases o with ⟨hne, _⟩ | o
    · exact absurd hcap hne
    · unfold OutQOk at o
      rw [specStep_nil] at o
      obtain ⟨r', e1, _⟩ := o
      simp [lexAll, next, e1]

/-- **the run over a prefix against the run over the whole input** (slice readers) -/
theorem lexAll_cut (n1 : Nat) : ∀ (n2 : Nat) (r1 r2 : Reader) (pos : Nat) (b1 b2 : Bom) (p x : Bytes) (f1 f2 : Nat) (acc : List Token),
    n1 ≤ n2 → RelQ r1 pos b1 p → RelQ r2 pos b2 (p ++ x) → r1.cap = 0 → r2.cap = 0 → (pos = 0 → b1 = b2) →
    ¬BomCut (pos == 0) b1 p x → 2 * p.length + 4 ≤ f1 → 2 * (p ++ x).length + 4 ≤ f2 →
    CutOK (lexAll f1 n1 r1 acc).toks (lexAll f2 n2 r2 acc).toks := by
  induction n1 with
  | zero =>
    intro n2 r1 r2 pos b1 b2 p x f1 f2 acc _ _ _ _ _ _ _ _ _
    exact Or.inl (by simpa [lexAll] using lexAll_toks_prefix f2 n2 r2 acc)
  | succ n1 ih =>
    intro n2 r1 r2 pos b1 b2 p x f1 f2 acc hn hr1 hr2 hc1 hc2 hb hE hf1 hf2
    obtain ⟨m2, rfl⟩ : ∃ m2, n2 = m2 + 1 := ⟨n2 - 1, by omega⟩
    have o1 := nextOpt_specQ r1 pos b1 p f1 hr1 hf1
    have o1 : OutQOk (nextOpt f1 r1) r1.cap pos b1 p := by
      rcases o1 with ⟨hne, _⟩ | h
      · exact absurd hc1 hne
      · exact h
    have o2 := nextOpt_specQ r2 pos b2 (p ++ x) f2 hr2 hf2
    have o2 : OutQOk (nextOpt f2 r2) r2.cap pos b2 (p ++ x) := by
      rcases o2 with ⟨hne, _⟩ | h
      · exact absurd hc2 hne
      · exact h
    have hpre : ∀ (A : Run), A.toks = acc.reverse → CutOK A.toks (lexAll f2 (m2 + 1) r2 acc).toks := by
      intro A hA; rw [hA]; exact Or.inl (lexAll_toks_prefix f2 (m2 + 1) r2 acc)
    unfold OutQOk at o1
    cases hs1 : specStep (pos == 0) b1 p with
    | none => have := specStep_isSome (pos == 0) b1 p; rw [hs1] at this; simp at this
    | some st =>
      rw [hs1] at o1
      cases st with
      | end_ b' =>
        obtain ⟨r1', e1, _⟩ := o1
        exact hpre _ (by simp [lexAll, next, e1])
      | eof a b' =>
        obtain ⟨r1', e1, _⟩ := o1
        exact hpre _ (by simp [lexAll, next, e1])
      | tok adv t b1' =>
        obtain ⟨r1', e1, hr1', hadv, hcap1'⟩ := o1
        have hpos := specStep_adv_pos hs1
        -- the full run's step, with its own BOM state
        have hfull : (∃ b'', specStep (pos == 0) b2 (p ++ x) = some (.tok adv t b'')) ∨
            (adv = p.length ∧ ∃ bp b adv2 b'', t = .unquoted bp ∧
              specStep (pos == 0) b2 (p ++ x) = some (.tok adv2 (.unquoted b) b'') ∧ bp <+: b ∧ p.length ≤ adv2) := by
          have hc := specStep_cut (pos == 0) b1 p x hE hs1
          by_cases hp0 : pos = 0
          · rw [← hb hp0]; exact hc
          · have hpf : (pos == 0) = false := by simpa using hp0
            rw [hpf] at hc ⊢
            rcases hc with ⟨b'', h⟩ | ⟨ha, bp, b, adv2, b'', h1, h2, h3, h4⟩
            · left; exact specStep_false_tok b2 h
            · right
              obtain ⟨b3, h5⟩ := specStep_false_tok b2 h2
              exact ⟨ha, bp, b, adv2, b3, h1, h5, h3, h4⟩
        unfold OutQOk at o2
        rcases hfull with ⟨b'', hs2⟩ | ⟨ha, bp, b, adv2, b'', rfl, hs2, hpb, hle⟩
        · rw [hs2] at o2
          obtain ⟨r2', e2, hr2', _, hcap2'⟩ := o2
          simp only [lexAll, next, e1, e2]
          have hdrop : (p ++ x).drop adv = p.drop adv ++ x := List.drop_append_of_le_length hadv
          rw [hdrop] at hr2'
          refine ih m2 r1' r2' (pos + adv) b1' b'' (p.drop adv) x f1 f2 (t :: acc) (by omega) hr1' hr2'
            (by rw [hcap1']; exact hc1) (by rw [hcap2']; exact hc2) (fun h => absurd h (by omega)) ?_
            (by simp only [List.length_drop]; omega) (by simp only [List.length_append, List.length_drop] at hf2 ⊢; omega)
          rintro ⟨hp0, _⟩
          simp at hp0
          omega
        · rw [hs2] at o2
          obtain ⟨r2', e2, _⟩ := o2
          simp only [lexAll, next, e1, e2]
          have hnil : p.drop adv = [] := by rw [ha]; simp
          rw [hnil] at hr1'
          rw [lexAll_at_end r1' _ b1' f1 n1 _ hr1' (by rw [hcap1']; exact hc1) (by omega)]
          right
          refine ⟨acc.reverse, bp, b, by simp, ?_, hpb⟩
          have := lexAll_toks_prefix f2 m2 r2' (Token.unquoted b :: acc)
          simpa using this

/-- a slice reader's run ends cleanly or in `Eof` (given enough calls and fuel) -/
theorem lexAll_slice_out (n : Nat) : ∀ (r : Reader) (pos : Nat) (bom : Bom) (d : Bytes) (f : Nat) (acc : List Token),
    RelQ r pos bom d → r.cap = 0 → d.length < n → 2 * d.length + 4 ≤ f →
    (lexAll f n r acc).out = .end_ ∨ (lexAll f n r acc).out = .err .eof := by
  induction n with
  | zero => intro r pos bom d f acc _ _ h _; omega
  | succ n ih =>
    intro r pos bom d f acc hrel hcap hn hf
    have o := nextOpt_specQ r pos bom d f hrel hf
    rcases o with ⟨hne, _⟩ | o
    · exact absurd hcap hne
    · unfold OutQOk at o
      cases hs : specStep (pos == 0) bom d with
      | none => have := specStep_isSome (pos == 0) bom d; rw [hs] at this; simp at this
      | some st =>
        rw [hs] at o
        cases st with
        | tok adv t b' =>
          obtain ⟨r', hres, hrel', hle, hcap'⟩ := o
          have hpos := specStep_adv_pos hs
          have := ih r' (pos + adv) b' (d.drop adv) f (t :: acc) hrel' (by rw [hcap']; exact hcap) (by simp; omega) (by simp; omega)
          simpa [lexAll, next, hres] using this
        | end_ b' =>
          obtain ⟨r', hres, _⟩ := o
          left; simp [lexAll, next, hres]
        | eof a b' =>
          obtain ⟨r', hres, _⟩ := o
          right; simp [lexAll, next, hres]

/-- **`C19_text_reader_cut`: the text reader on a byte-level cut.**  For every input `d` and every cut position `k`, the
from-slice reader over the prefix `d.take k` returns

* a PREFIX of the tokens it returns over the whole input, or
* such a prefix followed by exactly ONE more token: an unquoted scalar whose bytes are a prefix of the unquoted scalar the
  full run has at that position (the scalar the cut fell into; `abc|def` gives `abc`, and `@ab|c` gives `@ab`),

and then stops with a clean end or with the error `Eof` — never with a token the full run does not have.  Which of the two
it is, by what the cut falls into (all decided on the model in `C19_text_reader_cut_forms`): inside a blank run or a comment,
or right behind a `{` / `}` / closing quote / two-byte operator: a prefix, clean end; inside or right behind an unquoted
scalar: the shortened (or whole) scalar, clean end; inside a quoted scalar (before its closing quote), inside `@[ … ` before the
`]`, right behind a lone `@`, and right behind `=` `<` `>` `!` `?` (the reader needs one more byte to tell `<` from `<=`): the
error `Eof` after a prefix — a one-byte operator that ends the input is not returned.

The one exception (hypothesis `hbom`, `C19_known_bom_cut`): the input begins with a UTF-8 BOM and the cut falls inside it
(`k` = 1 or 2); the prefix `EF` / `EF BB` is then read as an unquoted scalar, while the whole input skips the BOM. -/
theorem C19_text_reader_cut (d : Bytes) (k : Nat)
    (hbom : ¬((k = 1 ∨ k = 2) ∧ ∃ r, d = 0xef :: 0xbb :: 0xbf :: r)) :
    CutOK (sliceTokens (d.take k)).toks (sliceTokens d).toks ∧
    ((sliceTokens (d.take k)).out = .end_ ∨ (sliceTokens (d.take k)).out = .err .eof) := by
  have hsl : ∀ z : Bytes, Rel (fromSlice z) 0 .unknown z :=
    fun z => ⟨rfl, rfl, by simp [fromSlice], by intro x hx; simp [fromSlice] at hx, fun _ => rfl⟩
  have hlen : (d.take k).length ≤ d.length := by simp; omega
  refine ⟨?_, lexAll_slice_out _ _ 0 .unknown (d.take k) _ [] (Or.inl (hsl _)) rfl (by simp [fuelFor]; omega) (by simp [fuelFor])⟩
  have hd : d.take k ++ d.drop k = d := List.take_append_drop k d
  have h2 : Rel (fromSlice d) 0 .unknown (d.take k ++ d.drop k) := by rw [hd]; exact hsl d
  unfold sliceTokens
  refine lexAll_cut (fuelFor (d.take k)) (fuelFor d) _ _ 0 .unknown .unknown (d.take k) (d.drop k) _ _ []
    (by simp only [fuelFor]; omega) (Or.inl (hsl _)) (Or.inl h2) rfl rfl (fun _ => rfl) ?_ (by simp [fuelFor]) (by rw [hd]; simp [fuelFor])
  rintro ⟨_, _, hk, r, hr⟩
  rw [hd] at hr
  refine hbom ⟨?_, r, hr⟩
  have : d.length ≥ 3 := by rw [hr]; simp
  simp only [List.length_take] at hk
  omega

/-- **the streamed version**: for every fault-free read schedule of the cut run and of the full run and every buffer
that fits both inputs (`need ≤ cap`), the same relation holds between the streamed token sequences. -/
theorem C19_text_reader_cut_stream (d : Bytes) (k cap : Nat) (s1 s2 : List Step)
    (hbom : ¬((k = 1 ∨ k = 2) ∧ ∃ r, d = 0xef :: 0xbb :: 0xbf :: r))
    (hw1 : WfSched s1) (hn1 : NoFaults s1) (hw2 : WfSched s2) (hn2 : NoFaults s2)
    (hfit1 : need (d.take k) ≤ cap) (hfit2 : need d ≤ cap) :
    CutOK (streamTokens cap s1 (d.take k)).toks (streamTokens cap s2 d).toks ∧
    ((streamTokens cap s1 (d.take k)).out = .end_ ∨ (streamTokens cap s1 (d.take k)).out = .err .eof) := by
  have key : ∀ (z : Bytes) (s : List Step), WfSched s → NoFaults s → need z ≤ cap →
      (streamTokens cap s z).toks = (sliceTokens z).toks ∧ (streamTokens cap s z).out = (sliceTokens z).out := by
    intro z s hw hnf hfit
    have hcap : 0 < cap := by unfold need at hfit; omega
    have h1 : Rel (fromReader cap s z) 0 .unknown z :=
      ⟨rfl, rfl, by simp [fromReader], hw, by intro h; simp [fromReader] at h; omega⟩
    have h2 : Rel (fromSlice z) 0 .unknown z :=
      ⟨rfl, rfl, by simp [fromSlice], by intro x hx; simp [fromSlice] at hx, fun _ => rfl⟩
    have hnofull : (streamTokens cap s z).out ≠ .err .full :=
      lexAll_no_full (fuelFor z) _ 0 .unknown z _ [] (Or.inl h1) (by unfold need at hfit; simp only [fromReader]; omega)
        (by simp [fuelFor]; omega)
    have hnoio : (streamTokens cap s z).out ≠ .err .io := lexAll_no_io cap s z _ _ hnf
    have := lexAll_vs_slice (fuelFor z) _ _ 0 .unknown z (fuelFor z + 2 * s.length) (fuelFor z) []
      (Or.inl h1) (Or.inl h2) rfl (by simp [fuelFor]; omega) (by simp [fuelFor])
    rcases this with ⟨a, _, _⟩ | ⟨a, b, _⟩
    · rcases a with a | a
      · exact absurd a hnofull
      · exact absurd a hnoio
    · exact ⟨a, b⟩
  obtain ⟨a1, b1⟩ := key (d.take k) s1 hw1 hn1 hfit1
  obtain ⟨a2, _⟩ := key d s2 hw2 hn2 hfit2
  rw [a1, a2, b1]
  exact C19_text_reader_cut d k hbom

/-- **the exception, on the model**: `EF BB BF a=1` cut after two bytes reads as the unquoted scalar `EF BB`; the whole
input starts with `a` -/
theorem C19_known_bom_cut :
    (sliceTokens ([0xef, 0xbb, 0xbf, 97, 61, 49].take 2)).toks = [.unquoted [0xef, 0xbb]] ∧
    (sliceTokens [0xef, 0xbb, 0xbf, 97, 61, 49]).toks = [.unquoted [97], .op .eq, .unquoted [49]] := by
  decide +kernel

/-- **the forms of the cut**, each decided on the model (`toks`, `out` of the cut run): inside an unquoted scalar; behind
`<` of `<=`; behind `=` of `==`; behind `?` of `?=`; inside `@[ … ]`; inside a quoted scalar; inside a comment; right
behind a complete `<=`; inside `@name`. -/
theorem C19_text_reader_cut_forms :
    -- `abc=def` cut inside `def`
    ((sliceTokens ([97, 98, 99, 61, 100, 101, 102].take 5)).toks = [.unquoted [97, 98, 99], .op .eq, .unquoted [100]] ∧
     (sliceTokens ([97, 98, 99, 61, 100, 101, 102].take 5)).out = .end_) ∧
    -- `a<=1` cut behind `<`
    ((sliceTokens ([97, 60, 61, 49].take 2)).toks = [.unquoted [97]] ∧ (sliceTokens ([97, 60, 61, 49].take 2)).out = .err .eof) ∧
    -- `a==1` cut behind the first `=`
    ((sliceTokens ([97, 61, 61, 49].take 2)).toks = [.unquoted [97]] ∧ (sliceTokens ([97, 61, 61, 49].take 2)).out = .err .eof) ∧
    -- `a ?=1` cut behind `?`
    ((sliceTokens ([97, 32, 63, 61, 49].take 3)).toks = [.unquoted [97]] ∧ (sliceTokens ([97, 32, 63, 61, 49].take 3)).out = .err .eof) ∧
    -- `a=@[1+2]` cut before the `]`
    ((sliceTokens ([97, 61, 64, 91, 49, 43, 50, 93].take 6)).toks = [.unquoted [97], .op .eq] ∧
     (sliceTokens ([97, 61, 64, 91, 49, 43, 50, 93].take 6)).out = .err .eof) ∧
    -- `a="xy"` cut before the closing quote
    ((sliceTokens ([97, 61, 34, 120, 121, 34].take 5)).toks = [.unquoted [97], .op .eq] ∧
     (sliceTokens ([97, 61, 34, 120, 121, 34].take 5)).out = .err .eof) ∧
    -- `a #cc\n b` cut inside the comment
    ((sliceTokens ([97, 32, 35, 99, 99, 10, 32, 98].take 4)).toks = [.unquoted [97]] ∧
     (sliceTokens ([97, 32, 35, 99, 99, 10, 32, 98].take 4)).out = .end_) ∧
    -- `a<=1` cut right behind `<=`
    ((sliceTokens ([97, 60, 61, 49].take 3)).toks = [.unquoted [97], .op .le] ∧ (sliceTokens ([97, 60, 61, 49].take 3)).out = .end_) ∧
    -- `a=@var` cut inside the variable
    ((sliceTokens ([97, 61, 64, 118, 97, 114].take 4)).toks = [.unquoted [97], .op .eq, .unquoted [64, 118]] ∧
     (sliceTokens ([97, 61, 64, 118, 97, 114].take 4)).out = .end_) := by
  decide +kernel

-- the hypothesis of `C19_text_reader_cut` is satisfiable, also with a BOM (cut behind it)
example : ¬(((4 : Nat) = 1 ∨ (4 : Nat) = 2) ∧ ∃ r, ([0xef, 0xbb, 0xbf, 97, 61, 49] : Bytes) = 0xef :: 0xbb :: 0xbf :: r) := by
  rintro ⟨h, _⟩; omega

end Jomini.TextReader
