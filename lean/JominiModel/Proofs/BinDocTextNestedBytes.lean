/-
C10 at BYTE level for NESTED documents: the text rendering of a nested logical document with its layout
(`textFs`), its validity for both text front ends, and the capstone `C10_bytes_end_to_end_nested`.
-/
import JominiModel.Proofs.BinDocTextNestedBridge
import JominiModel.Proofs.TextEndToEndFull
set_option linter.unusedSimpArgs false
namespace Jomini.BinDe
open Jomini Jomini.TextTape Jomini.TextE2E Jomini.TextDoc

def scalOf (c : Cfg) (l : BLeaf) : Scal := ⟨nodeQuoted (.leaf l), (leafText c l).getD []⟩
def keyScal (c : Cfg) (k : BLeaf) : Scal := ⟨false, (leafText c k).getD []⟩

mutual
/-- a value with the blanks `g` in front of it: scalars as they are; `{}`; an object as `{\n k=v\n k=v\n}`; an array
as `{ e e e\n}` (every element after one space). -/
def textV (c : Cfg) (g : Bytes) : BNode → JVal
  | .leaf l => .scal g (scalOf c l)
  | .rgb _ => .scal g ⟨false, []⟩
  | .arr vs =>
    (match vs with
     | .nil => .empty g []
     | .cons v rest =>
       (match v with
        | .leaf l => .arrS g [32] (scalOf c l) (textVs c rest) [10]
        | v => .arrC g (textV c [32] v) (textVs c rest) [10]))
  | .obj fs =>
    (match fs with
     | .nil => .empty g []
     | .cons _ k v rest => .obj g [10] (keyScal c k) [] .eq (textV c [] v) (textFs c rest) [10])
def textFs (c : Cfg) : BFields → JFields
  | .nil => .nil
  | .cons _ k v rest => .cons [10] (keyScal c k) [] .eq (textV c [] v) (textFs c rest)
def textVs (c : Cfg) : BNodes → JVals
  | .nil => .nil
  | .cons v rest => .cons (textV c [32] v) (textVs c rest)
end

mutual
theorem toNode_textV (c : Cfg) (g : Bytes) (n : BNode) : toNode (textV c g n) = docNode c n := by
  cases n with
  | leaf l => simp [textV, toNode, docNode, scalOf]
  | rgb col => simp [textV, toNode, docNode]
  | arr vs =>
    cases vs with
    | nil => simp [textV, toNode, docNode, docNodes]
    | cons v rest =>
      cases v with
      | leaf l => simp [textV, toNode, docNode, docNodes, scalOf, toNodes_textVs c rest]
      | rgb col => simp [textV, toNode, docNode, docNodes, toNodes_textVs c rest]
      | arr ws =>
        have h1 := toNode_textV c [32] (.arr ws)
        have h2 := toNodes_textVs c rest
        show toNode (.arrC g (textV c [32] (.arr ws)) (textVs c rest) [10]) = .arr (docNode c (.arr ws) :: docNodes c rest)
        rw [← h1, ← h2]; rfl
      | obj fs =>
        have h1 := toNode_textV c [32] (.obj fs)
        have h2 := toNodes_textVs c rest
        show toNode (.arrC g (textV c [32] (.obj fs)) (textVs c rest) [10]) = .arr (docNode c (.obj fs) :: docNodes c rest)
        rw [← h1, ← h2]; rfl
  | obj fs =>
    cases fs with
    | nil => simp [textV, toNode, docNode]
    | cons gh k v rest =>
      simp only [textV, toNode, docNode, docFieldsN, tOp, toNode_textV c [] v, toFields_textFs c rest, keyScal]
theorem toFields_textFs (c : Cfg) (fs : BFields) : toFields (textFs c fs) = docFieldsN c fs := by
  cases fs with
  | nil => rfl
  | cons gh k v rest =>
    simp only [textFs, toFields, docFieldsN, tOp, toNode_textV c [] v, toFields_textFs c rest, keyScal]
theorem toNodes_textVs (c : Cfg) (vs : BNodes) : toNodes (textVs c vs) = docNodes c vs := by
  cases vs with
  | nil => rfl
  | cons v rest => simp only [textVs, toNodes, docNodes, toNode_textV c [32] v, toNodes_textVs c rest]
end

/-! ### layout validity -/

/-- what follows a lexeme in this layout always starts with a newline or a space. -/
def AfterOK (a : Bytes) : Prop := ∃ ch r, a = ch :: r ∧ (ch = 10 ∨ ch = 32)

theorem afterOK_sb {a : Bytes} (h : AfterOK a) : TextTape.StartsBoundary a := by
  obtain ⟨ch, r, rfl, h | h⟩ := h
  · subst h; exact .inr ⟨10, r, rfl, by decide +kernel⟩
  · subst h; exact .inr ⟨32, r, rfl, by decide +kernel⟩

theorem blank32 : Blank [32] := .ws 32 [] (by decide +kernel) .nil
theorem blank10 : Blank [10] := .ws 10 [] (by decide +kernel) .nil

mutual
/-- every scalar and key of the document is read back as written by both text front ends; arrays do not start with
an empty container; no rgb. -/
def tOKN (c : Cfg) : BNode → Bool
  | .leaf l => scalOK (scalOf c l)
  | .rgb _ => false
  | .arr vs => firstOK vs && tOKNs c vs
  | .obj fs => tOKF c fs
def tOKF (c : Cfg) : BFields → Bool
  | .nil => true
  | .cons _ k v rest => scalOK (keyScal c k) && tOKN c v && tOKF c rest
def tOKNs (c : Cfg) : BNodes → Bool
  | .nil => true
  | .cons v rest => tOKN c v && tOKNs c rest
end

theorem renderV_head (c : Cfg) (g : Bytes) (n : BNode) : ∃ b, jrenderV (textV c g n) = g ++ b := by
  cases n with
  | leaf l => exact ⟨_, by simp only [textV, jrenderV]; rfl⟩
  | rgb col => exact ⟨_, by simp only [textV, jrenderV]; rfl⟩
  | arr vs =>
    cases vs with
    | nil => exact ⟨_, by simp only [textV, jrenderV]; rfl⟩
    | cons v rest => cases v <;> exact ⟨_, by simp only [textV, jrenderV]; rfl⟩
  | obj fs => cases fs <;> exact ⟨_, by simp only [textV, jrenderV]; rfl⟩

/-- a container's rendering starts with its blanks and `{` -/
theorem renderV_brace (c : Cfg) (g : Bytes) (n : BNode) (h : ∀ l, n ≠ .leaf l) (h2 : ∀ col, n ≠ .rgb col) :
    ∃ b, jrenderV (textV c g n) = g ++ 123 :: b := by
  cases n with
  | leaf l => exact absurd rfl (h l)
  | rgb col => exact absurd rfl (h2 col)
  | arr vs =>
    cases vs with
    | nil => exact ⟨_, by simp only [textV, jrenderV]; rfl⟩
    | cons v rest => cases v <;> exact ⟨_, by simp only [textV, jrenderV]; rfl⟩
  | obj fs => cases fs <;> exact ⟨_, by simp only [textV, jrenderV]; rfl⟩

theorem renderFs_after (c : Cfg) (fs : BFields) (a : Bytes) (h : AfterOK a) : AfterOK (jrenderF (textFs c fs) ++ a) := by
  cases fs with
  | nil => simpa [textFs, jrenderF] using h
  | cons gh k v rest => exact ⟨10, _, by simp only [textFs, jrenderF]; rfl, .inl rfl⟩

theorem renderVs_after (c : Cfg) (vs : BNodes) (a : Bytes) (h : AfterOK a) : AfterOK (jrenderVs (textVs c vs) ++ a) := by
  cases vs with
  | nil => simpa [textVs, jrenderVs] using h
  | cons v rest =>
    obtain ⟨b, hb⟩ := renderV_head c [32] v
    exact ⟨32, _, by simp only [textVs, jrenderVs, hb]; rfl, .inr rfl⟩

theorem peek_scal (s : Scal) (hs : SafeScal s) (Y : Bytes) (hY : AfterOK Y) : firstFieldPeek (s.text ++ Y) = false := by
  obtain ⟨q, bs⟩ := s
  obtain ⟨hv, h63⟩ := hs
  cases q with
  | true => simp [Scal.text, firstFieldPeek]
  | false =>
    simp only [Scal.Valid, Bool.false_eq_true, if_false] at hv
    obtain ⟨hb, b, r, rfl, _, _, _⟩ := hv
    have hb0 : TextTape.isBoundary b = false := hb b (by simp)
    have h61 : b ≠ 61 := by rintro rfl; exact absurd hb0 (by decide +kernel)
    have h62 : b ≠ 62 := by rintro rfl; exact absurd hb0 (by decide +kernel)
    have h60 : b ≠ 60 := by rintro rfl; exact absurd hb0 (by decide +kernel)
    have h63' : b ≠ 63 := h63 rfl b r rfl
    have hnext : (r ++ Y).head? ≠ some 61 := by
      cases r with
      | nil =>
        obtain ⟨ch, r', rfl, h | h⟩ := hY <;> simp [h]
      | cons d r' =>
        have hd : TextTape.isBoundary d = false := hb d (by simp)
        simp only [List.cons_append, List.head?_cons, ne_eq, Option.some.injEq]
        rintro rfl; exact absurd hd (by decide +kernel)
    have d1 : decide (b = 61 ∨ b = 62 ∨ b = 60) = false := by simp [h61, h62, h60]
    have d2 : decide ((r ++ Y).head? = some 61) = false := decide_eq_false hnext
    show (decide (b = 61 ∨ b = 62 ∨ b = 60) || (decide (b = 33 ∨ b = 63) && decide ((r ++ Y).head? = some 61))) = false
    rw [d1, d2]; simp

theorem skipWs_sp (X : Bytes) : skipWs (32 :: X) = skipWs X := by
  have := TextTape.skipWs_blank blank32 X
  simpa using this

theorem peek_elems (c : Cfg) (rest : BNodes) (h : tOKNs c rest = true) (after : Bytes) :
    ∀ d2, skipWs (jrenderVs (textVs c rest) ++ ([10] ++ 125 :: after)) = some d2 → firstFieldPeek d2 = false := by
  intro d2 hd
  cases rest with
  | nil =>
    have : skipWs (10 :: 125 :: after) = some (125 :: after) := by
      have h1 : TextTape.isBlank 10 = true := by decide +kernel
      have h2 : TextTape.isBlank 125 = false := by decide +kernel
      simp [skipWs, skipWsAux, h1, h2]
    simp only [textVs, jrenderVs, List.nil_append, List.cons_append, this, Option.some.injEq] at hd
    subst hd; simp [firstFieldPeek]
  | cons v vs =>
    simp only [tOKNs, Bool.and_eq_true] at h
    have hY : AfterOK (jrenderVs (textVs c vs) ++ ([10] ++ 125 :: after)) := renderVs_after c vs _ ⟨10, _, rfl, .inl rfl⟩
    cases v with
    | leaf l =>
      have hs := scalOK_safe _ (by simpa [tOKN] using h.1)
      simp only [textVs, jrenderVs, textV, jrenderV, List.append_assoc, List.cons_append, List.nil_append, skipWs_sp] at hd
      rw [TextTape.skipWs_scal hs.1] at hd
      simp only [Option.some.injEq] at hd
      subst hd
      exact peek_scal _ hs _ hY
    | rgb col => simp [tOKN] at h
    | arr ws =>
      obtain ⟨b, hb⟩ := renderV_brace c [32] (.arr ws) (by intro l; simp) (by intro l; simp)
      simp only [textVs, jrenderVs, hb, List.append_assoc, List.cons_append, List.nil_append, skipWs_sp] at hd
      have h2 : TextTape.isBlank 123 = false := by decide +kernel
      simp [skipWs, skipWsAux, h2] at hd
      subst hd; simp [firstFieldPeek]
    | obj fs =>
      obtain ⟨b, hb⟩ := renderV_brace c [32] (.obj fs) (by intro l; simp) (by intro l; simp)
      simp only [textVs, jrenderVs, hb, List.append_assoc, List.cons_append, List.nil_append, skipWs_sp] at hd
      have h2 : TextTape.isBlank 123 = false := by decide +kernel
      simp [skipWs, skipWsAux, h2] at hd
      subst hd; simp [firstFieldPeek]

theorem sb_eq : TextTape.StartsBoundary ([] ++ TextTape.Op.eq.text) := .inr ⟨61, [], rfl, by decide +kernel⟩

mutual
theorem valid_node (c : Cfg) (n : BNode) (g after : Bytes) (hg : Blank g) (ha : AfterOK after) (h : tOKN c n = true) :
    JValidV (textV c g n) after ∧ SPlainV (textV c g n) := by
  cases n with
  | leaf l =>
    have hs := scalOK_safe _ (by simpa [tOKN] using h)
    simp only [textV, JValidV, SPlainV]
    exact ⟨⟨hg, .inl hs.1, fun _ => afterOK_sb ha⟩, hs⟩
  | rgb col => simp [tOKN] at h
  | arr vs =>
    simp only [tOKN, Bool.and_eq_true] at h
    cases vs with
    | nil => simp only [textV, JValidV, SPlainV]; exact ⟨⟨hg, .nil⟩, trivial⟩
    | cons v rest =>
      simp only [tOKNs, Bool.and_eq_true] at h
      obtain ⟨hfirst, hv, hrest⟩ := h
      have ha2 : AfterOK ([10] ++ 125 :: after) := ⟨10, _, rfl, .inl rfl⟩
      obtain ⟨r1, r2⟩ := valid_vs c rest ([10] ++ 125 :: after) ha2 hrest
      cases v with
      | leaf l =>
        have hs := scalOK_safe _ (by simpa [tOKN] using hv)
        simp only [textV, JValidV, SPlainV]
        exact ⟨⟨hg, blank32, blank10, .inl hs.1, fun _ => afterOK_sb (renderVs_after c rest _ ha2),
          peek_elems c rest hrest after, r1⟩, hs, r2⟩
      | rgb col => simp [tOKN] at hv
      | arr ws =>
        obtain ⟨v1, v2⟩ := valid_node c (.arr ws) [32] (jrenderVs (textVs c rest) ++ ([10] ++ 125 :: after)) blank32
          (renderVs_after c rest _ ha2) hv
        have hcont : (textV c [32] (.arr ws)).isContainer := by
          cases ws with
          | nil => simp [firstOK] at hfirst
          | cons w ws' => cases w <;> simp [textV, JVal.isContainer]
        simp only [textV, JValidV, SPlainV]
        exact ⟨⟨hg, blank10, hcont, v1, r1⟩, v2, r2⟩
      | obj fs =>
        obtain ⟨v1, v2⟩ := valid_node c (.obj fs) [32] (jrenderVs (textVs c rest) ++ ([10] ++ 125 :: after)) blank32
          (renderVs_after c rest _ ha2) hv
        have hcont : (textV c [32] (.obj fs)).isContainer := by
          cases fs with
          | nil => simp [firstOK] at hfirst
          | cons gh k w fs' => simp [textV, JVal.isContainer]
        simp only [textV, JValidV, SPlainV]
        exact ⟨⟨hg, blank10, hcont, v1, r1⟩, v2, r2⟩
  | obj fs =>
    cases fs with
    | nil => simp only [textV, JValidV, SPlainV]; exact ⟨⟨hg, .nil⟩, trivial⟩
    | cons gh k v rest =>
      simp only [tOKN, tOKF, Bool.and_eq_true] at h
      obtain ⟨⟨hk, hv⟩, hrest⟩ := h
      have sk := scalOK_safe _ hk
      have ha2 : AfterOK ([10] ++ 125 :: after) := ⟨10, _, rfl, .inl rfl⟩
      obtain ⟨r1, r2⟩ := valid_fs c rest ([10] ++ 125 :: after) ha2 hrest
      obtain ⟨v1, v2⟩ := valid_node c v [] (jrenderF (textFs c rest) ++ ([10] ++ 125 :: after)) .nil
        (renderFs_after c rest _ ha2) hv
      simp only [textV, JValidV, SPlainV]
      exact ⟨⟨hg, blank10, .nil, blank10, .inl sk.1, fun _ => sb_eq, v1, r1⟩, rfl, sk, v2, r2⟩
theorem valid_fs (c : Cfg) (fs : BFields) (after : Bytes) (ha : AfterOK after) (h : tOKF c fs = true) :
    JValidF (textFs c fs) after ∧ SPlainF (textFs c fs) := by
  cases fs with
  | nil => simp [textFs, JValidF, SPlainF]
  | cons gh k v rest =>
    simp only [tOKF, Bool.and_eq_true] at h
    obtain ⟨⟨hk, hv⟩, hrest⟩ := h
    have sk := scalOK_safe _ hk
    obtain ⟨r1, r2⟩ := valid_fs c rest after ha hrest
    obtain ⟨v1, v2⟩ := valid_node c v [] (jrenderF (textFs c rest) ++ after) .nil (renderFs_after c rest _ ha) hv
    simp only [textFs, JValidF, SPlainF]
    exact ⟨⟨blank10, .nil, .inl sk.1, fun _ => sb_eq, v1, r1⟩, rfl, sk, v2, r2⟩
theorem valid_vs (c : Cfg) (vs : BNodes) (after : Bytes) (ha : AfterOK after) (h : tOKNs c vs = true) :
    JValidVs (textVs c vs) after ∧ SPlainVs (textVs c vs) := by
  cases vs with
  | nil => simp [textVs, JValidVs, SPlainVs]
  | cons v rest =>
    simp only [tOKNs, Bool.and_eq_true] at h
    obtain ⟨r1, r2⟩ := valid_vs c rest after ha h.2
    obtain ⟨v1, v2⟩ := valid_node c v [32] (jrenderVs (textVs c rest) ++ after) blank32 (renderVs_after c rest _ ha) h.1
    simp only [textVs, JValidVs, SPlainVs]
    exact ⟨⟨v1, r1⟩, v2, r2⟩
end

theorem textFs_nobom (c : Cfg) (d : BFields) : hasBom (jrenderF (textFs c d) ++ [10]) = false := by
  obtain ⟨ch, r, hr, h⟩ := renderFs_after c d [10] ⟨10, [], rfl, .inl rfl⟩
  rw [hr]
  rcases h with rfl | rfl <;> simp [hasBom, List.take]

/-! ### the text slice's `FitsT` on the nested fragment -/

theorem fitsT_peel (b : Bool) (v : Node) : ∀ (t : Ty), FitsT .w1252 b (trTy (stripOpt t).2) v → FitsT .w1252 b (trTy t) v := by
  intro t h
  cases t with
  | opt i => exact .opt (fitsT_peel b v i (by simpa [stripOpt] using h))
  | _ => simpa [stripOpt] using h
termination_by t => tySize t
decreasing_by all_goals (subst_vars; simp [tySize])

mutual
theorem fitsT_core (c : Cfg) (n : BNode) (core : Ty) (hno : NotOpt core) (h : c10N c n core = true) (b : Bool) :
    FitsT .w1252 b (trTy core) (docNode c n) := by
  have hso := stripOpt_notOpt core hno
  cases n with
  | leaf l =>
    simp only [c10N, Bool.and_eq_true, hso] at h
    have hb := c10ok_bridge core l h.2
    simp only [docNode]
    cases core <;> simp [bridgeCore] at hb <;> first | exact .ign | exact .scalar rfl
  | rgb col => simp [c10N] at h
  | obj fs0 =>
    simp only [c10N, Bool.and_eq_true, hso] at h
    cases fs0 with
    | nil => simp [BFields.isNil] at h
    | cons gh k v rest =>
      simp only [docNode]
      cases core with
      | struct decl => exact .st (fitsT_stF c (.cons gh k v rest) decl h.2)
      | map vt => exact .map (fitsT_mpF c (.cons gh k v rest) vt h.2)
      | ign => exact .ign
      | _ => simp at h
  | arr vs =>
    simp only [c10N, Bool.and_eq_true, hso] at h
    simp only [docNode]
    cases core with
    | seq et => exact .seq (by rw [expand_docNodes]; exact fitsT_sqF c vs et h.2)
    | ign => exact .ign
    | _ => simp at h
theorem fitsT_stF (c : Cfg) (fs : BFields) (decl : Fields) (h : c10St c decl fs = true) :
    ∀ k o v, (k, o, v) ∈ docFieldsN c fs → ∀ i t, TextDe.lookupIdx (TextDe.decode .w1252 k.bytes) (trFields decl) 0 = some (i, t) →
      FitsT .w1252 true t v := by
  cases fs with
  | nil => intro k o v hm; simp [docFieldsN] at hm
  | cons gh key val rest =>
    intro k o v hm i t hl
    simp only [c10St, Bool.and_eq_true] at h
    obtain ⟨⟨⟨hk, _⟩, hv⟩, hrest⟩ := h
    simp only [docFieldsN, List.mem_cons] at hm
    rcases hm with hm | hm
    · obtain ⟨kb, hkb, hkey, _⟩ := keyOK_text c key hk
      simp only [Prod.mk.injEq, hkb, Option.getD_some] at hm
      obtain ⟨rfl, rfl, rfl⟩ := hm
      have hwb : whichOf (binSem c) decl key = .ok (decl.posName (decode1252 kb) 0) := by
        have : whichOf (textSem c) decl key = .ok (decl.posName (decode1252 kb) 0) := by simp [whichOf, hkey, fieldOfPrim]
        rw [← this]; unfold whichOf; rw [keyOK_agree c key hk]
      rw [hwb] at hv
      rw [← decode1252_eq] at hl
      obtain ⟨la1, la2⟩ := lookup_agree decl (decode1252 kb) 0
      cases hp : decl.posName (decode1252 kb) 0 with
      | none => rw [la1 hp] at hl; cases hl
      | some j =>
        obtain ⟨n, tk, t0, g1, _, _, g4⟩ := la2 j hp
        simp only [Nat.sub_zero] at g1
        rw [g4] at hl
        simp only [Option.some.injEq, Prod.mk.injEq] at hl
        obtain ⟨rfl, rfl⟩ := hl
        have hvt : c10N c val t0 = true := by simpa [hp, g1] using hv
        exact fitsT_peel true _ t0 (fitsT_core c val _ (stripOpt_core t0).1 (by rw [← c10N_core]; exact hvt) true)
    · exact fitsT_stF c rest decl hrest k o v hm i t hl
theorem fitsT_mpF (c : Cfg) (fs : BFields) (vt : Ty) (h : c10Mp c vt fs = true) :
    ∀ k o v, (k, o, v) ∈ docFieldsN c fs → FitsT .w1252 true (trTy vt) v := by
  cases fs with
  | nil => intro k o v hm; simp [docFieldsN] at hm
  | cons gh key val rest =>
    intro k o v hm
    simp only [c10Mp, Bool.and_eq_true] at h
    simp only [docFieldsN, List.mem_cons] at hm
    rcases hm with hm | hm
    · simp only [Prod.mk.injEq] at hm
      obtain ⟨_, _, rfl⟩ := hm
      exact fitsT_peel true _ vt (fitsT_core c val _ (stripOpt_core vt).1 (by rw [← c10N_core]; exact h.1.2) true)
    · exact fitsT_mpF c rest vt h.2 k o v hm
theorem fitsT_sqF (c : Cfg) (vs : BNodes) (et : Ty) (h : c10Sq c et vs = true) :
    ∀ v, v ∈ docNodes c vs → FitsT .w1252 false (trTy et) v := by
  cases vs with
  | nil => intro v hm; simp [docNodes] at hm
  | cons val rest =>
    intro v hm
    simp only [c10Sq, Bool.and_eq_true] at h
    simp only [docNodes, List.mem_cons] at hm
    rcases hm with rfl | hm
    · exact fitsT_peel false _ et (fitsT_core c val _ (stripOpt_core et).1 (by rw [← c10N_core]; exact h.1) false)
    · exact fitsT_sqF c rest et h.2 v hm
end

/-! ### the capstone -/

/-- the decidable condition: the byte-level binary document is well-formed, canonical and without mixed containers;
document and root request are in the nested shared fragment (`c10Root`); every scalar has a text form both text front
ends read back as written, arrays do not start with an empty container (`tOKF`). -/
def c10bytesN (c : Cfg) (ty : RootTy) (D : BinTape.Fields) : Bool :=
  noMixedF D && D.wfDoc && canonF D && c10Root c ty (toBDoc D) && tOKF c (toBDoc D)

/-- (C10 at BYTE level, NESTED documents) ONE logical document `D` - objects in objects, arrays of scalars, arrays of
objects, to any depth -, ONE request (structs, maps, sequences, `Option`s, `i64` / `u64` / `bool` / `str` leaves, ignored
values).  TEXT bytes: the rendering `textFs` of the document (`\n key=value`, objects and arrays in braces) followed by
`\n`; BINARY bytes: `D.encode`.  The text tape parser + tape deserializer models, the slice reader + streaming
deserializer models on the text bytes, the binary tape parser + tape deserializer models and the on-demand and streaming
deserializer models on the binary bytes all have the same outcome, `valueOfBin` of the document (text side: `SameT`,
the `Val` term reads as that value under the request; or the same missing / duplicate / type error). -/
theorem C10_bytes_end_to_end_nested (c : Cfg) (ty : RootTy) (D : BinTape.Fields) (h : c10bytesN c ty D = true) :
    ∃ Tt bom,
      TextTape.parse (jrenderF (textFs c (toBDoc D)) ++ [10]) = .ok Tt bom ∧
      BinTape.parse false D.encode = .ok (BinTape.tapeOfBin D) ∧
      SameT (rootCore ty) (TextDe.deTape .w1252 (trTy (rootCore ty)) (toTextDeTape Tt)) (valueOfBin c ty (toBDoc D)) ∧
      SameT (rootCore ty)
        (TextDe.deStream .w1252 (trTy (rootCore ty))
          ((TextReader.sliceTokens (jrenderF (textFs c (toBDoc D)) ++ [10])).toks.map toRTok))
        (valueOfBin c ty (toBDoc D)) ∧
      deTape c ty (toBinDeTape (BinTape.tapeOfBin D)) = valueOfBin c ty (toBDoc D) ∧
      deOndemand c ty (rawLexemes D.encode) = valueOfBin c ty (toBDoc D) ∧
      deStream c ty (rawLexemes D.encode) = valueOfBin c ty (toBDoc D) := by
  simp only [c10bytesN, Bool.and_eq_true] at h
  obtain ⟨⟨⟨⟨hm, hw⟩, hc⟩, hroot⟩, htx⟩ := h
  obtain ⟨_, hfit⟩ := c10Root_bin c ty (toBDoc D) hroot
  have hparse : BinTape.parse false D.encode = .ok (BinTape.tapeOfBin D) := BinTape.faithful_doc D hw
  obtain ⟨e1, e2, e3⟩ := C04_paths_end_to_end c ty D hm hw hc hfit false _ hparse
  have hbridge := valueOfText_bridge_nested c ty (toBDoc D) hroot
  rw [C10_nested_spec c ty (toBDoc D) hroot] at hbridge
  obtain ⟨hv, hp⟩ := valid_fs c (toBDoc D) [10] ⟨10, [], rfl, .inl rfl⟩ htx
  have hdoc : toDoc (textFs c (toBDoc D)) = docFieldsN c (toBDoc D) := toFields_textFs c (toBDoc D)
  have hrt : TextDoc.Ty.isRoot (trTy (rootCore ty)) = true ∧
      FitsT .w1252 false (trTy (rootCore ty)) (.obj (toDoc (textFs c (toBDoc D)))) := by
    rw [hdoc]
    cases ty with
    | tok fs => simp [c10Root] at hroot
    | plain t =>
      cases t with
      | struct decl => exact ⟨rfl, .st (fitsT_stF c (toBDoc D) decl hroot)⟩
      | map vt => exact ⟨rfl, .map (fitsT_mpF c (toBDoc D) vt hroot)⟩
      | _ => simp [c10Root] at hroot
  obtain ⟨Tt, bom, t1, t2, t3⟩ := C02_paths_end_to_end .w1252 (trTy (rootCore ty)) (textFs c (toBDoc D)) [10]
    blank10 hv (textFs_nobom c (toBDoc D)) hp hrt.1 hrt.2
  rw [hdoc] at t2 t3
  refine ⟨Tt, bom, t1, hparse, ?_, ?_, e3, ?_, ?_⟩
  · rw [t2]; exact hbridge
  · rw [t3]; exact hbridge
  · rw [← e1]; exact e3
  · rw [← e2]; exact e3

/-! ### every valid layout -/

theorem gLead_textFs (c : Cfg) (fs : BFields) : gLead (textFs c fs) = 0 := by
  cases fs <;> simp [textFs, gLead]

mutual
theorem gNode_textV (c : Cfg) (g : Bytes) (n : BNode) : gNode (textV c g n) = docNode c n := by
  cases n with
  | leaf l => simp [textV, gNode, docNode, scalOf]
  | rgb col => simp [textV, gNode, docNode]
  | arr vs =>
    cases vs with
    | nil => simp [textV, gNode, docNode, docNodes]
    | cons v rest =>
      cases v with
      | leaf l => simp [textV, gNode, docNode, docNodes, scalOf, gNodes_textVs c rest]
      | rgb col => simp [textV, gNode, docNode, docNodes, gNodes_textVs c rest]
      | arr ws =>
        have h1 := gNode_textV c [32] (.arr ws)
        have h2 := gNodes_textVs c rest
        show gNode (.arrC g (textV c [32] (.arr ws)) (textVs c rest) [10]) = .arr (docNode c (.arr ws) :: docNodes c rest)
        rw [← h1, ← h2]; rfl
      | obj fs =>
        have h1 := gNode_textV c [32] (.obj fs)
        have h2 := gNodes_textVs c rest
        show gNode (.arrC g (textV c [32] (.obj fs)) (textVs c rest) [10]) = .arr (docNode c (.obj fs) :: docNodes c rest)
        rw [← h1, ← h2]; rfl
  | obj fs =>
    cases fs with
    | nil => simp [textV, gNode, docNode]
    | cons gh k v rest =>
      have h1 := gNode_textV c [] v
      have h2 := gFields_textFs c rest
      simp only [textV, gNode, docNode, docFieldsN, tOp, mkKey, keyScal, gLead_textFs, h1, h2]
theorem gFields_textFs (c : Cfg) (fs : BFields) : gFields (textFs c fs) = docFieldsN c fs := by
  cases fs with
  | nil => rfl
  | cons gh k v rest =>
    have h1 := gNode_textV c [] v
    have h2 := gFields_textFs c rest
    simp only [textFs, gFields, docFieldsN, tOp, mkKey, keyScal, gLead_textFs, h1, h2]
theorem gNodes_textVs (c : Cfg) (vs : BNodes) : gNodes (textVs c vs) = docNodes c vs := by
  cases vs with
  | nil => rfl
  | cons v rest => simp only [textVs, gNodes, docNodes, gNode_textV c [32] v, gNodes_textVs c rest]
end

/-- the canonical rendering is one layout of the logical document -/
theorem gDoc_textFs (c : Cfg) (d : BFields) : gDoc (textFs c d) = docFieldsN c d := by
  unfold gDoc
  rw [gLead_textFs, gFields_textFs]
  cases h : docFieldsN c d with
  | nil => rfl
  | cons x r => obtain ⟨k, o, v⟩ := x; rfl

/-- (C10 at BYTE level, NESTED documents, EVERY text layout) as `C10_bytes_end_to_end_nested`, for every layout `L` of the
logical document instead of the canonical one: any `JFields` whose layout-free document is the document's text document
(`gDoc L = docFieldsN …`: the same keys, operators `=` and values; blanks, line ends and comments between the lexemes are
free) that is valid in the sense of the text slice (`JValidF L gt`, `XPlainF L`, trailing blanks `gt`, no BOM clash).  The
canonical rendering `textFs` is such a layout (`gDoc_textFs`, `valid_fs`).  Text side through the text slice's
`C02_paths_end_to_end_full`. -/
theorem C10_bytes_end_to_end_any_layout (c : Cfg) (ty : RootTy) (D : BinTape.Fields)
    (hm : noMixedF D = true) (hw : D.wfDoc = true) (hc : canonF D = true) (hroot : c10Root c ty (toBDoc D) = true)
    (L : JFields) (gt : Bytes) (hL : gDoc L = docFieldsN c (toBDoc D))
    (hgt : Blank gt) (hv : JValidF L gt) (hb : hasBom (jrenderF L ++ gt) = false) (hp : XPlainF L) :
    ∃ Tt bom,
      TextTape.parse (jrenderF L ++ gt) = .ok Tt bom ∧
      BinTape.parse false D.encode = .ok (BinTape.tapeOfBin D) ∧
      SameT (rootCore ty) (TextDe.deTape .w1252 (trTy (rootCore ty)) (toTextDeTape Tt)) (valueOfBin c ty (toBDoc D)) ∧
      SameT (rootCore ty)
        (TextDe.deStream .w1252 (trTy (rootCore ty)) ((TextReader.sliceTokens (jrenderF L ++ gt)).toks.map toRTok))
        (valueOfBin c ty (toBDoc D)) ∧
      deTape c ty (toBinDeTape (BinTape.tapeOfBin D)) = valueOfBin c ty (toBDoc D) ∧
      deOndemand c ty (rawLexemes D.encode) = valueOfBin c ty (toBDoc D) ∧
      deStream c ty (rawLexemes D.encode) = valueOfBin c ty (toBDoc D) := by
  obtain ⟨_, hfit⟩ := c10Root_bin c ty (toBDoc D) hroot
  have hparse : BinTape.parse false D.encode = .ok (BinTape.tapeOfBin D) := BinTape.faithful_doc D hw
  obtain ⟨e1, e2, e3⟩ := C04_paths_end_to_end c ty D hm hw hc hfit false _ hparse
  have hbridge := valueOfText_bridge_nested c ty (toBDoc D) hroot
  rw [C10_nested_spec c ty (toBDoc D) hroot] at hbridge
  have hrt : TextDoc.Ty.isRoot (trTy (rootCore ty)) = true ∧
      FitsT .w1252 false (trTy (rootCore ty)) (.obj (gDoc L)) := by
    rw [hL]
    cases ty with
    | tok fs => simp [c10Root] at hroot
    | plain t =>
      cases t with
      | struct decl => exact ⟨rfl, .st (fitsT_stF c (toBDoc D) decl hroot)⟩
      | map vt => exact ⟨rfl, .map (fitsT_mpF c (toBDoc D) vt hroot)⟩
      | _ => simp [c10Root] at hroot
  obtain ⟨Tt, bom, t1, t2, t3⟩ := C02_paths_end_to_end_full .w1252 (trTy (rootCore ty)) L gt hgt hv hb hp hrt.1 hrt.2
  rw [hL] at t2 t3
  refine ⟨Tt, bom, t1, hparse, ?_, ?_, e3, ?_, ?_⟩
  · rw [t2]; exact hbridge
  · rw [t3]; exact hbridge
  · rw [← e1]; exact e3
  · rw [← e2]; exact e3

/-- the condition is satisfiable: `a = { n = -5  tags = { "x" y } }  list = { { x = yes } { x = no } }` with the key `a`
a token id the resolver knows, read as
`struct { a: struct { n: i64, tags: Option<Vec<String>> }, list: Vec<struct { x: bool }> }`. -/
def exNCfg : Cfg := { strat := .error, entries := [(8192, [97])] }
def exNTy : RootTy :=
  .plain (.struct (.cons "a" 0 (.struct (.cons "n" 0 .i64 (.cons "tags" 0 (.opt (.seq .str)) .nil)))
    (.cons "list" 0 (.seq (.struct (.cons "x" 0 .bool .nil))) .nil)))
def exNDoc : BinTape.Fields :=
  .cons 0 (.id 8192)
    (.obj (.cons 0 (.unquoted [110]) (.sc (.i32 [251, 255, 255, 255]))
      (.cons 0 (.unquoted [116, 97, 103, 115]) (.arr (.cons (.sc (.quoted [120])) (.cons (.sc (.unquoted [121])) .nil))) .nil)))
    (.cons 0 (.unquoted [108, 105, 115, 116])
      (.arr (.cons (.obj (.cons 0 (.unquoted [120]) (.sc (.bool 1)) .nil))
        (.cons (.obj (.cons 0 (.unquoted [120]) (.sc (.bool 0)) .nil)) .nil))) .nil)

example : c10bytesN exNCfg exNTy exNDoc = true := by decide +kernel

/-- its text bytes: `\na={\nn=-5\ntags={ "x" y\n}\n}\nlist={ {\nx=yes\n} {\nx=no\n}\n}\n` -/
example : jrenderF (textFs exNCfg (toBDoc exNDoc)) ++ [10] =
    [10, 97, 61, 123, 10, 110, 61, 45, 53, 10, 116, 97, 103, 115, 61, 123, 32, 34, 120, 34, 32, 121, 10, 125, 10, 125,
     10, 108, 105, 115, 116, 61, 123, 32, 123, 10, 120, 61, 121, 101, 115, 10, 125, 32, 123, 10, 120, 61, 110, 111, 10, 125, 10, 125, 10] := by
  decide +kernel

example : (valueOfBin exNCfg exNTy (toBDoc exNDoc)).toOption =
    some "{a={n=i-5,tags=some([s78,s79])},list=[{x=b1},{x=b0}]}" := by decide +kernel

end Jomini.BinDe
