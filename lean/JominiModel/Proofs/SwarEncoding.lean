import JominiModel.Model.Encoding
/-
The two 64-bit SWAR facts `decode_utf8` relies on (`contains_zero_byte` finds a backslash
in an 8-byte chunk; the `0x80…` mask tests that all eight bytes are ASCII).

They are proved *without* `bv_decide` (so without `Lean.ofReduceBool`-style native axioms):
the word is the concatenation of its bytes, the subtraction `x - 0x0101…` is peeled one
byte at a time (`sub_peel*`: the borrow out of the low byte is `1` exactly when that byte is
zero — checked by `omega` on the `toNat` values), and the per-byte facts are decided by the
kernel over the 256 byte values.
-/
namespace Jomini.Encoding

theorem byte_fact : ∀ n < 256, ((BitVec.ofNat 8 n - 1#8) &&& ~~~(BitVec.ofNat 8 n) &&& 0x80#8 = 0#8) = (n ≠ 0) := by
  decide +kernel

theorem byte_nz (b : BitVec 8) (h : b ≠ 0#8) : (b - 1#8) &&& ~~~b &&& 0x80#8 = 0#8 := by
  have := byte_fact b.toNat b.isLt
  simp only [BitVec.ofNat_toNat, BitVec.setWidth_eq] at this
  rw [this]
  intro h0; apply h; apply BitVec.eq_of_toNat_eq; simpa using h0

theorem or_as_add (x y : Nat) (h : y < 2 ^ 8) : x * 2 ^ 8 ||| y = x * 256 + y := by
  have := Nat.shiftLeft_add_eq_or_of_lt h x
  rw [Nat.shiftLeft_eq] at this
  rw [← this]

set_option hygiene false in
macro "peel_tac" : tactic => `(tactic| (
  apply BitVec.eq_of_toNat_eq
  have ha := a.isLt; have hc := c.isLt; have hb := b.isLt
  by_cases h0 : b = 0#8
  · subst h0
    simp only [BitVec.toNat_append, BitVec.toNat_sub, BitVec.toNat_ofNat, Nat.shiftLeft_eq, if_true]
    rw [or_as_add, or_as_add, or_as_add] <;> simp <;> omega
  · have hb0 : b.toNat ≠ 0 := fun h => h0 (BitVec.eq_of_toNat_eq (by simpa using h))
    simp only [BitVec.toNat_append, BitVec.toNat_sub, BitVec.toNat_ofNat, Nat.shiftLeft_eq, h0, if_false]
    rw [or_as_add, or_as_add, or_as_add] <;> simp <;> omega))

theorem sub_peel56 (a c : BitVec 56) (b : BitVec 8) :
    (a ++ b) - (c ++ 1#8) = (a - c - (if b = 0#8 then 1#56 else 0#56)) ++ (b - 1#8) := by
  peel_tac


theorem sub_peel48 (a c : BitVec 48) (b : BitVec 8) :
    (a ++ b) - (c ++ 1#8) = (a - c - (if b = 0#8 then 1#48 else 0#48)) ++ (b - 1#8) := by
  peel_tac

theorem sub_peel40 (a c : BitVec 40) (b : BitVec 8) :
    (a ++ b) - (c ++ 1#8) = (a - c - (if b = 0#8 then 1#40 else 0#40)) ++ (b - 1#8) := by
  peel_tac

theorem sub_peel32 (a c : BitVec 32) (b : BitVec 8) :
    (a ++ b) - (c ++ 1#8) = (a - c - (if b = 0#8 then 1#32 else 0#32)) ++ (b - 1#8) := by
  peel_tac

theorem sub_peel24 (a c : BitVec 24) (b : BitVec 8) :
    (a ++ b) - (c ++ 1#8) = (a - c - (if b = 0#8 then 1#24 else 0#24)) ++ (b - 1#8) := by
  peel_tac

theorem sub_peel16 (a c : BitVec 16) (b : BitVec 8) :
    (a ++ b) - (c ++ 1#8) = (a - c - (if b = 0#8 then 1#16 else 0#16)) ++ (b - 1#8) := by
  peel_tac

theorem sub_peel8 (a c : BitVec 8) (b : BitVec 8) :
    (a ++ b) - (c ++ 1#8) = (a - c - (if b = 0#8 then 1#8 else 0#8)) ++ (b - 1#8) := by
  peel_tac

theorem cz_step (n : Nat)
    (peel : ∀ (a c : BitVec n) (b : BitVec 8),
      (a ++ b) - (c ++ 1#8) = (a - c - (if b = 0#8 then 1#n else 0#n)) ++ (b - 1#8))
    (a c h : BitVec n) (b : BitVec 8) :
    (((a ++ b) - (c ++ 1#8)) &&& ~~~(a ++ b) &&& (h ++ 0x80#8) ≠ 0#(n + 8)) ↔
      (b = 0#8 ∨ ((a - c) &&& ~~~a &&& h ≠ 0#n)) := by
  rw [peel, BitVec.not_append, BitVec.and_append, BitVec.and_append]
  by_cases h0 : b = 0#8
  · subst h0
    simp only [if_true, true_or, iff_true]
    intro hz
    have := congrArg (BitVec.setWidth 8) hz
    rw [BitVec.setWidth_append_eq_right] at this
    simp only [BitVec.setWidth_zero] at this
    revert this; decide
  · simp only [h0, if_false, false_or, byte_nz b h0, BitVec.sub_zero]
    rw [← BitVec.zero_append_zero, Ne, Ne, BitVec.append_left_inj]


theorem byte_z (b : BitVec 8) : ((b - 1#8) &&& ~~~b &&& 0x80#8 ≠ 0#8) ↔ b = 0#8 := by
  by_cases h : b = 0#8
  · subst h; decide
  · simp [byte_nz b h, h]

theorem lo_eq : 0x0101010101010101#64 = (1#8 ++ 1#8 ++ 1#8 ++ 1#8 ++ 1#8 ++ 1#8 ++ 1#8 ++ 1#8) := by decide
theorem hi_eq : 0x8080808080808080#64 = (0x80#8 ++ 0x80#8 ++ 0x80#8 ++ 0x80#8 ++ 0x80#8 ++ 0x80#8 ++ 0x80#8 ++ 0x80#8) := by decide

/-- the SWAR zero-byte test on a word assembled from eight bytes: true exactly when one of the
bytes is zero. -/
theorem czb8 (x0 x1 x2 x3 x4 x5 x6 x7 : BitVec 8) :
    (((x7 ++ x6 ++ x5 ++ x4 ++ x3 ++ x2 ++ x1 ++ x0) - 0x0101010101010101#64) &&&
      ~~~(x7 ++ x6 ++ x5 ++ x4 ++ x3 ++ x2 ++ x1 ++ x0) &&& 0x8080808080808080#64 ≠ 0#64) ↔
    (x0 = 0#8 ∨ x1 = 0#8 ∨ x2 = 0#8 ∨ x3 = 0#8 ∨ x4 = 0#8 ∨ x5 = 0#8 ∨ x6 = 0#8 ∨ x7 = 0#8) := by
  rw [lo_eq, hi_eq]
  rw [cz_step 56 sub_peel56, cz_step 48 sub_peel48, cz_step 40 sub_peel40, cz_step 32 sub_peel32,
    cz_step 24 sub_peel24, cz_step 16 sub_peel16, cz_step 8 sub_peel8, byte_z]


theorem xor8 (x0 x1 x2 x3 x4 x5 x6 x7 y0 y1 y2 y3 y4 y5 y6 y7 : BitVec 8) :
    ((x7 ++ x6 ++ x5 ++ x4 ++ x3 ++ x2 ++ x1 ++ x0 : BitVec 64) ^^^ (y7 ++ y6 ++ y5 ++ y4 ++ y3 ++ y2 ++ y1 ++ y0 : BitVec 64)) =
      ((x7 ^^^ y7) ++ (x6 ^^^ y6) ++ (x5 ^^^ y5) ++ (x4 ^^^ y4) ++ (x3 ^^^ y3) ++ (x2 ^^^ y2) ++ (x1 ^^^ y1) ++ (x0 ^^^ y0)) := by
  exact (BitVec.xor_append (w := 56) (v := 8)).trans (by
    congr 1
    exact (BitVec.xor_append (w := 48) (v := 8)).trans (by
      congr 1
      exact (BitVec.xor_append (w := 40) (v := 8)).trans (by
        congr 1
        exact (BitVec.xor_append (w := 32) (v := 8)).trans (by
          congr 1
          exact (BitVec.xor_append (w := 24) (v := 8)).trans (by
            congr 1
            exact (BitVec.xor_append (w := 16) (v := 8)).trans (by
              congr 1
              exact (BitVec.xor_append (w := 8) (v := 8))))))))

theorem and8 (x0 x1 x2 x3 x4 x5 x6 x7 y0 y1 y2 y3 y4 y5 y6 y7 : BitVec 8) :
    ((x7 ++ x6 ++ x5 ++ x4 ++ x3 ++ x2 ++ x1 ++ x0 : BitVec 64) &&& (y7 ++ y6 ++ y5 ++ y4 ++ y3 ++ y2 ++ y1 ++ y0 : BitVec 64)) =
      ((x7 &&& y7) ++ (x6 &&& y6) ++ (x5 &&& y5) ++ (x4 &&& y4) ++ (x3 &&& y3) ++ (x2 &&& y2) ++ (x1 &&& y1) ++ (x0 &&& y0)) := by
  exact (BitVec.and_append (w := 56) (v := 8)).trans (by
    congr 1
    exact (BitVec.and_append (w := 48) (v := 8)).trans (by
      congr 1
      exact (BitVec.and_append (w := 40) (v := 8)).trans (by
        congr 1
        exact (BitVec.and_append (w := 32) (v := 8)).trans (by
          congr 1
          exact (BitVec.and_append (w := 24) (v := 8)).trans (by
            congr 1
            exact (BitVec.and_append (w := 16) (v := 8)).trans (by
              congr 1
              exact (BitVec.and_append (w := 8) (v := 8))))))))

theorem append_eq_zero (n : Nat) (a : BitVec n) (b : BitVec 8) :
    a ++ b = 0#(n + 8) ↔ a = 0#n ∧ b = 0#8 := by
  constructor
  · intro h
    have hb : b = 0#8 := by
      have := congrArg (BitVec.setWidth 8) h
      rwa [BitVec.setWidth_append_eq_right, BitVec.setWidth_zero] at this
    subst hb
    rw [← BitVec.zero_append_zero, BitVec.append_left_inj] at h
    exact ⟨h, rfl⟩
  · rintro ⟨rfl, rfl⟩; exact BitVec.zero_append_zero

theorem byte_hi_fact : ∀ n < 256, ((BitVec.ofNat 8 n &&& 0x80#8 = 0#8) = (n < 128)) := by
  decide +kernel

theorem byte_hi (b : UInt8) : (b.toBitVec &&& 0x80#8 = 0#8) ↔ isAscii b = true := by
  have := byte_hi_fact b.toNat b.toNat_lt
  have e : BitVec.ofNat 8 b.toNat = b.toBitVec := by
    apply BitVec.eq_of_toNat_eq; simp
  rw [e] at this
  rw [this]
  simp [isAscii, UInt8.lt_iff_toNat_lt]

theorem repeatByte_92 : repeatByte 92 = 0x5c5c5c5c5c5c5c5c#64 := by decide

theorem r_eq : 0x5c5c5c5c5c5c5c5c#64 =
    (0x5c#8 ++ 0x5c#8 ++ 0x5c#8 ++ 0x5c#8 ++ 0x5c#8 ++ 0x5c#8 ++ 0x5c#8 ++ 0x5c#8) := by decide

theorem xor92 (b : UInt8) : (b.toBitVec ^^^ 0x5c#8 = 0#8) ↔ b = 92 := by
  rw [BitVec.xor_eq_zero_iff]
  constructor
  · intro h; exact UInt8.toBitVec_inj.1 h
  · rintro rfl; rfl

/-- `contains_zero_byte(wide ^ repeat_byte(b'\\'))` is true exactly when one of the eight
bytes of the chunk is a backslash. -/
theorem containsZeroByte_backslash (b0 b1 b2 b3 b4 b5 b6 b7 : UInt8) :
    containsZeroByte (leU64 b0 b1 b2 b3 b4 b5 b6 b7 ^^^ repeatByte 92) =
      (b0 == 92 || b1 == 92 || b2 == 92 || b3 == 92 || b4 == 92 || b5 == 92 || b6 == 92 || b7 == 92) := by
  rw [Bool.eq_iff_iff, repeatByte_92, r_eq]
  unfold containsZeroByte leU64
  rw [xor8]
  simp only [bne_iff_ne]
  rw [czb8]
  simp only [xor92, Bool.or_eq_true, beq_iff_eq, or_assoc]

/-- `contains_zero_byte(le_u64(bytes))` is true exactly when one of the bytes is zero. -/
theorem containsZeroByte_spec (b0 b1 b2 b3 b4 b5 b6 b7 : UInt8) :
    containsZeroByte (leU64 b0 b1 b2 b3 b4 b5 b6 b7) =
      (b0 == 0 || b1 == 0 || b2 == 0 || b3 == 0 || b4 == 0 || b5 == 0 || b6 == 0 || b7 == 0) := by
  rw [Bool.eq_iff_iff]
  unfold containsZeroByte leU64
  simp only [bne_iff_ne]
  rw [czb8]
  have z : ∀ b : UInt8, (b.toBitVec = 0#8) ↔ b = 0 := fun b =>
    ⟨fun h => UInt8.toBitVec_inj.1 h, fun h => by subst h; rfl⟩
  simp only [z, Bool.or_eq_true, beq_iff_eq, or_assoc]

/-- `wide & 0x8080_8080_8080_8080 == 0` is true exactly when all eight bytes are ASCII. -/
theorem asciiMask_spec (b0 b1 b2 b3 b4 b5 b6 b7 : UInt8) :
    (leU64 b0 b1 b2 b3 b4 b5 b6 b7 &&& 0x8080808080808080#64 == 0#64) =
      (isAscii b0 && isAscii b1 && isAscii b2 && isAscii b3 && isAscii b4 && isAscii b5 && isAscii b6 && isAscii b7) := by
  rw [Bool.eq_iff_iff, hi_eq]
  unfold leU64
  rw [and8]
  simp only [beq_iff_eq]
  rw [append_eq_zero 56, append_eq_zero 48, append_eq_zero 40, append_eq_zero 32,
    append_eq_zero 24, append_eq_zero 16, append_eq_zero 8]
  simp only [byte_hi, Bool.and_eq_true]
  constructor
  · rintro ⟨⟨⟨⟨⟨⟨⟨h7, h6⟩, h5⟩, h4⟩, h3⟩, h2⟩, h1⟩, h0⟩
    exact ⟨⟨⟨⟨⟨⟨⟨h0, h1⟩, h2⟩, h3⟩, h4⟩, h5⟩, h6⟩, h7⟩
  · rintro ⟨⟨⟨⟨⟨⟨⟨h0, h1⟩, h2⟩, h3⟩, h4⟩, h5⟩, h6⟩, h7⟩
    exact ⟨⟨⟨⟨⟨⟨⟨h7, h6⟩, h5⟩, h4⟩, h3⟩, h2⟩, h1⟩, h0⟩

end Jomini.Encoding
