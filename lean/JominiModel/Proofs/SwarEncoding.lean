import JominiModel.Model.Encoding
import Std.Tactic.BVDecide
/-
The two 64-bit SWAR facts `decode_utf8` relies on, discharged by `bv_decide` (SAT
certificate checked by compiled code: axioms `Lean.ofReduceBool`, `Lean.trustCompiler`).
-/
namespace Jomini.Encoding

theorem repeatByte_92 : repeatByte 92 = 0x5c5c5c5c5c5c5c5c#64 := by decide

/-- `contains_zero_byte(wide ^ repeat_byte(b'\\'))` is true exactly when one of the eight
bytes of the chunk is a backslash. -/
theorem containsZeroByte_backslash (b0 b1 b2 b3 b4 b5 b6 b7 : UInt8) :
    containsZeroByte (leU64 b0 b1 b2 b3 b4 b5 b6 b7 ^^^ repeatByte 92) =
      (b0 == 92 || b1 == 92 || b2 == 92 || b3 == 92 || b4 == 92 || b5 == 92 || b6 == 92 || b7 == 92) := by
  rw [repeatByte_92]
  unfold containsZeroByte leU64
  bv_decide

/-- `wide & 0x8080_8080_8080_8080 == 0` is true exactly when all eight bytes are ASCII. -/
theorem asciiMask_spec (b0 b1 b2 b3 b4 b5 b6 b7 : UInt8) :
    (leU64 b0 b1 b2 b3 b4 b5 b6 b7 &&& 0x8080808080808080#64 == 0#64) =
      (isAscii b0 && isAscii b1 && isAscii b2 && isAscii b3 && isAscii b4 && isAscii b5 && isAscii b6 && isAscii b7) := by
  unfold leU64 isAscii
  bv_decide

/-- `contains_zero_byte` in general: some byte of the word is zero. -/
theorem containsZeroByte_spec (x : BitVec 64) :
    containsZeroByte x =
      (x.extractLsb' 0 8 == 0#8 || x.extractLsb' 8 8 == 0#8 || x.extractLsb' 16 8 == 0#8 ||
       x.extractLsb' 24 8 == 0#8 || x.extractLsb' 32 8 == 0#8 || x.extractLsb' 40 8 == 0#8 ||
       x.extractLsb' 48 8 == 0#8 || x.extractLsb' 56 8 == 0#8) := by
  unfold containsZeroByte
  bv_decide

end Jomini.Encoding
