import JominiModel.Proofs.TextReaderFast
import JominiModel.Proofs.TextFault
import JominiModel.Proofs.TextSkip
/-
C05 corollaries for the text TokenReader model: along every run of calls (next / read / read_bytes /
skip_container / skip_unquoted_value, in any order, after successes and after errors), under every schedule
(faults included) and every capacity, no call yields `ub`, `panic` or `fuel`, and the window stays inside the buffer.
-/
namespace Jomini.TextReader
open Jomini Jomini.TextReader.Spec

/-- the public calls of `TokenReader` -/
inductive ApiCall
  | next
  | read
  | readBytes (n : Nat)
  | skipContainer
  | skipUnquotedValue
  deriving Repr

/-- one call, its payload forgotten -/
def opRes (fuel : Nat) : ApiCall → Reader → Res Unit
  | .next, r => match next fuel r with
    | .ok r' _ => .ok r' () | .err r' e => .err r' e | .panic => .panic | .ub => .ub | .fuel => .fuel
  | .read, r => match read fuel r with
    | .ok r' _ => .ok r' () | .err r' e => .err r' e | .panic => .panic | .ub => .ub | .fuel => .fuel
  | .readBytes n, r => match readBytes fuel r n with
    | .ok r' _ => .ok r' () | .err r' e => .err r' e | .panic => .panic | .ub => .ub | .fuel => .fuel
  | .skipContainer, r => skipContainer fuel r
  | .skipUnquotedValue, r => skipUnquotedValue fuel r

/-- the call returned a value or an error: not `ub` (a raw read outside the window), not `panic` (an `advance_to`
outside `[start, end]`), not `fuel` (ran out of the supplied fuel) -/
def IsVal {α : Type} : Res α → Prop
  | .ok _ _ => True
  | .err _ _ => True
  | _ => False

/-- the readers reachable from `r0` by any sequence of calls, continuing after successes and after errors -/
inductive Reach (fuel : Nat) (r0 : Reader) : Reader → Prop
  | refl : Reach fuel r0 r0
  | ok {r r' : Reader} (op : ApiCall) : Reach fuel r0 r → opRes fuel op r = .ok r' () → Reach fuel r0 r'
  | err {r r' : Reader} {e : Err} (op : ApiCall) : Reach fuel r0 r → opRes fuel op r = .err r' e → Reach fuel r0 r'

theorem opRes_inv {P : Reader → Prop} {E : Err → Prop} (c : Closed P P E) (fuel : Nat) (op : ApiCall) (r : Reader) (h : P r) :
    ResP P P E (opRes fuel op r) := by
  cases op with
  | next =>
    have := nextOpt_inv c fuel r h
    simp only [opRes, next]
    cases hx : nextOpt fuel r <;> rw [hx] at this <;> simpa [ResP] using this
  | read =>
    have := read_inv c fuel r h
    simp only [opRes]
    cases hx : read fuel r <;> rw [hx] at this <;> simpa [ResP] using this
  | readBytes n =>
    have := readBytes_inv c fuel r n h
    simp only [opRes]
    cases hx : readBytes fuel r n <;> rw [hx] at this <;> simpa [ResP] using this
  | skipContainer => exact skipContainer_inv c fuel r h
  | skipUnquotedValue => exact skipUnquotedValue_inv c fuel r h

/-- a property closed under the primitive steps holds along every run -/
theorem reach_inv {P : Reader → Prop} {E : Err → Prop} (c : Closed P P E) {fuel : Nat} {r0 r : Reader}
    (h0 : P r0) (h : Reach fuel r0 r) : P r := by
  induction h with
  | refl => exact h0
  | ok op _ hres ih =>
    have := opRes_inv c fuel op _ ih
    rw [hres] at this; exact this
  | @err r r' e op _ hres ih =>
    have := opRes_inv c fuel op _ ih
    rw [hres] at this
    by_cases he : e = .io
    · exact this.2.1 he
    · exact this.1 he

/-! ### the state invariant that makes every call total -/

/-- read sizes ≥ 1 (fault steps allowed), a slice reader has nothing undelivered, at most `N` bytes undelivered -/
def Safe (N : Nat) (r : Reader) : Prop :=
  WfSched r.src.sched ∧ (r.cap = 0 → r.src.rest = []) ∧ r.src.rest.length ≤ N

theorem Safe_closed (N : Nat) : Closed (Safe N) (Safe N) (fun _ => True) := by
  have key : ∀ (s : Src) (space : Nat), WfSched s.sched →
      WfSched (s.read space).1.sched ∧ (s.read space).1.rest.length ≤ s.rest.length := by
    intro s space hw
    unfold Src.read
    cases hs : s.sched with
    | nil => exact ⟨by intro x hx; simp at hx, by simp⟩
    | cons st t =>
      have ht : WfSched t := fun x hx => hw x (by simp [hs, hx])
      cases st with
      | give n => exact ⟨ht, by simp⟩
      | repeat_ n => exact ⟨by intro x hx; exact hw x (by rw [hs]; exact hx), by simp⟩
      | fail => exact ⟨ht, by simp⟩
      | failForever => exact ⟨by intro x hx; exact hw x (by rw [hs]; exact hx), by simp⟩
  have hfill : ∀ {r : Reader}, Safe N r → Safe N (fillBuf r).1 := by
    intro r h
    unfold fillBuf
    split
    · exact h
    · rename_i hc
      split
      · exact h
      · have := key r.src (r.cap - r.win.length) h.1
        generalize r.src.read (r.cap - r.win.length) = res at this
        obtain ⟨src', ob⟩ := res
        cases ob with
        | none => exact ⟨this.1, fun h0 => absurd h0 hc, by have := h.2.2; simp only at *; omega⟩
        | some bs => exact ⟨this.1, fun h0 => absurd h0 hc, by have := h.2.2; simp only at *; omega⟩
  refine { adv := ?_, bom := fun _ h => h, fill := fun h _ => hfill h, fillio := fun h _ => hfill h,
           full := fun _ _ => trivial, io := fun _ _ => trivial, eof := trivial }
  intro r r' k h ha
  unfold TextReader.advance at ha
  split at ha
  · simp only [Option.some.injEq] at ha; subst ha; exact h
  · simp at ha

theorem Safe.rel {N : Nat} {r : Reader} (h : Safe N r) : Rel r r.position r.bom (r.win ++ r.src.rest) :=
  ⟨rfl, rfl, rfl, h.1, h.2.1⟩

theorem skipRef_isVal : ∀ (l : Bytes) (st : SkipSt) (depth : Int) (ptr : Nat),
    (∃ p, skipRef l st depth ptr = .done p) ∨ (∃ a b c, skipRef l st depth ptr = .refill a b c) := by
  intro l
  induction hn : l.length using Nat.strongRecOn generalizing l with
  | _ n ih =>
    intro st depth ptr
    cases l with
    | nil => right; exact ⟨st, depth, ptr, skipRef_nil _ _ _⟩
    | cons c rest =>
      have hr : rest.length < n := by rw [← hn]; simp
      cases st with
      | none =>
        rw [skipRef_none_cons]
        split; · exact ih _ hr rest rfl _ _ _
        split
        · split
          · left; exact ⟨_, rfl⟩
          · exact ih _ hr rest rfl _ _ _
        split; · exact ih _ hr rest rfl _ _ _
        split; · exact ih _ hr rest rfl _ _ _
        exact ih _ hr rest rfl _ _ _
      | comment =>
        rw [skipRef_comment_cons]
        split <;> exact ih _ hr rest rfl _ _ _
      | quote =>
        by_cases hc : (c == 92) = true
        · rw [skipRef_quote_bs hc]
          rcases rest with _ | ⟨x, _ | ⟨d, r'⟩⟩
          · right; exact ⟨_, _, _, rfl⟩
          · right; exact ⟨_, _, _, rfl⟩
          · exact ih _ (by rw [← hn]; simp) (d :: r') rfl _ _ _
        · rw [skipRef_quote_other hc]
          split <;> exact ih _ hr rest rfl _ _ _

theorem next_isVal {N : Nat} {r : Reader} (h : Safe N r) {fuel : Nat} (hf : 2 * N + 4 ≤ fuel) : IsVal (next fuel r) := by
  have o := nextOpt_spec r r.position r.bom _ fuel h.rel (by have := h.2.2; omega)
  unfold next
  rcases o with ⟨_, r', ⟨hh, _⟩ | hh⟩ | o
  · rw [hh]; trivial
  · rw [hh]; trivial
  · unfold OutQOk at o
    have hs := specStep_isSome (r.position == 0) r.bom (r.win ++ r.src.rest)
    cases hsp : specStep (r.position == 0) r.bom (r.win ++ r.src.rest) with
    | none => rw [hsp] at hs; simp at hs
    | some st =>
      rw [hsp] at o
      cases st with
      | tok adv t b' => obtain ⟨r', hh, _⟩ := o; rw [hh]; trivial
      | end_ b' => obtain ⟨r', hh, _⟩ := o; rw [hh]; trivial
      | eof a b' => obtain ⟨r', hh, _⟩ := o; rw [hh]; trivial

theorem skipContainer_isVal {N : Nat} {r : Reader} (h : Safe N r) {fuel : Nat} (hf : N + 1 ≤ fuel) :
    IsVal (skipContainer fuel r) := by
  have := skipLoop_spec _ r r.position r.bom _ .none 1 fuel (Nat.le_refl _) h.rel (by have := h.2.2; omega)
  unfold skipContainer
  rcases this with ⟨r', hh⟩ | ⟨r', hh, _⟩ | o
  · rw [hh]; trivial
  · rw [hh]; trivial
  · unfold SkipOut at o
    rcases skipRef_isVal (r.win ++ r.src.rest) .none 1 0 with ⟨p, hp⟩ | ⟨a, b, c, hp⟩
    · rw [hp] at o; obtain ⟨r', hh, _⟩ := o; rw [hh]; trivial
    · rw [hp] at o; obtain ⟨r', hh⟩ := o; rw [hh]; trivial

theorem skipUnquotedValue_isVal (m : Nat) : ∀ {N : Nat} {r : Reader}, r.src.rest.length ≤ m → Safe N r → ∀ {fuel : Nat}, N + m + 1 ≤ fuel →
    IsVal (skipUnquotedValue fuel r) := by
  induction m with
  | zero =>
    intro N r hm h fuel hf
    obtain ⟨f, rfl⟩ : ∃ f, fuel = f + 1 := ⟨fuel - 1, by omega⟩
    rw [skipUnquotedValue_unfold]
    cases hs : skipUScan r.win 0 with
    | open_ p =>
      obtain ⟨_, h2, _, _⟩ := skipUScan_open_bounds hs
      obtain ⟨r', ha, _, _, hs', hc'⟩ := h.rel.advance (p + 1) (by omega)
      simp only [ha]
      exact skipContainer_isVal (N := N) ⟨by rw [hs']; exact h.1, by rw [hs', hc']; exact h.2.1, by rw [hs']; exact h.2.2⟩ (by omega)
    | stop => trivial
    | windowEnd =>
      obtain ⟨r0, ha, hrel0, _, hs0, _⟩ := h.rel.advance r.win.length (Nat.le_refl _)
      simp only [ha]
      have he : r0.src.rest = [] := by rw [hs0]; exact List.eq_nil_of_length_eq_zero (by omega)
      rcases hrel0.fill with ⟨rio, hfl, _⟩ | ⟨hfl, _⟩ | ⟨_, r1, hfl, _⟩ | ⟨hne, _⟩
      · rw [hfl]; trivial
      · rw [hfl]; trivial
      · rw [hfl]; trivial
      · exact absurd he hne
  | succ m ih =>
    intro N r hm h fuel hf
    obtain ⟨f, rfl⟩ : ∃ f, fuel = f + 1 := ⟨fuel - 1, by omega⟩
    rw [skipUnquotedValue_unfold]
    cases hs : skipUScan r.win 0 with
    | open_ p =>
      obtain ⟨_, h2, _, _⟩ := skipUScan_open_bounds hs
      obtain ⟨r', ha, _, _, hs', hc'⟩ := h.rel.advance (p + 1) (by omega)
      simp only [ha]
      exact skipContainer_isVal (N := N) ⟨by rw [hs']; exact h.1, by rw [hs', hc']; exact h.2.1, by rw [hs']; exact h.2.2⟩ (by omega)
    | stop => trivial
    | windowEnd =>
      obtain ⟨r0, ha, hrel0, _, hs0, hc0⟩ := h.rel.advance r.win.length (Nat.le_refl _)
      simp only [ha]
      rcases hrel0.fill with ⟨rio, hfl, _⟩ | ⟨hfl, _⟩ | ⟨_, r1, hfl, _⟩ | ⟨hne, r1, k, hfl, hrel1, hk, _, hr1, hc1, _⟩
      · rw [hfl]; trivial
      · rw [hfl]; trivial
      · rw [hfl]; trivial
      · rw [hfl]
        simp only
        rw [hs0] at hk hr1
        have hl1 : r1.src.rest.length ≤ m := by rw [hr1]; simp; omega
        have hsafe1 : Safe N r1 :=
          ⟨hrel1.wf, hrel1.capz, by rw [hr1]; simp; have := h.2.2; omega⟩
        exact ih hl1 hsafe1 (by omega)

/-- every call is total on a `Safe` reader -/
theorem opRes_isVal {N : Nat} {r : Reader} (h : Safe N r) {fuel : Nat} (hf : 2 * N + 4 ≤ fuel) (op : ApiCall) :
    IsVal (opRes fuel op r) := by
  cases op with
  | next =>
    have := next_isVal h hf
    simp only [opRes]
    cases hx : next fuel r <;> rw [hx] at this <;> first | trivial | exact this
  | read =>
    have := next_isVal h hf
    simp only [opRes, read]
    unfold next at this
    cases hx : nextOpt fuel r with
    | ok r' a => cases a <;> trivial
    | err r' e => trivial
    | panic => rw [hx] at this; exact this
    | ub => rw [hx] at this; exact this
    | fuel => rw [hx] at this; exact this
  | readBytes n =>
    have := readBytes_spec _ r r.position r.bom _ n fuel (Nat.le_refl _) h.rel (by have := h.2.2; omega)
    simp only [opRes]
    rcases this with ⟨r', hh⟩ | ⟨r', hh, _⟩ | o
    · rw [hh]; trivial
    · rw [hh]; trivial
    · split at o
      · obtain ⟨r', hh, _⟩ := o; rw [hh]; trivial
      · obtain ⟨r', hh⟩ := o; rw [hh]; trivial
  | skipContainer => exact skipContainer_isVal h (by omega)
  | skipUnquotedValue => exact skipUnquotedValue_isVal _ h.2.2 h (by omega)

/-! ### C05 -/

/-- the two ways a reader is created: over a slice, or over a `Read` with a buffer of at least one byte and a schedule
whose read sizes are ≥ 1 (fault steps allowed) -/
def Initial (data : Bytes) (r0 : Reader) : Prop :=
  r0 = fromSlice data ∨ ∃ cap sched, 0 < cap ∧ WfSched sched ∧ r0 = fromReader cap sched data

theorem Initial.safe {data : Bytes} {r0 : Reader} (h : Initial data r0) : Safe data.length r0 := by
  rcases h with rfl | ⟨cap, sched, hc, hw, rfl⟩
  · exact ⟨by intro x hx; simp [fromSlice] at hx, fun _ => rfl, by simp [fromSlice]⟩
  · exact ⟨hw, by intro h; simp [fromReader] at h; omega, by simp [fromReader]⟩

/-- **C05, text reader: no undefined behaviour, no panic, no hang.**  For EVERY input, every read schedule with read
sizes ≥ 1 (transient and persistent faults included), slice mode and every buffer capacity ≥ 1, and every sequence of
calls of `next` / `read` / `read_bytes(n)` / `skip_container` / `skip_unquoted_value` in any order — continuing after
successes and after errors alike — every call returns a value or an error: it never yields `ub` (every raw 8-byte read
lies inside the window), never `panic` (every `advance_to` stays within `[start, end]`), and it terminates within the
fuel the driver supplies (`fuelFor data`; any fuel ≥ 2·|data| + 4 suffices).
Hypotheses that are needed and stated: buffer capacity ≥ 1 for a `Read`-backed reader (the builder's default is 32 KiB;
with capacity 0 the model is the slice reader), and `Read::read` returning ≥ 1 byte unless at end of input. -/
theorem C05_textreader_no_ub (data : Bytes) (r0 r : Reader) (fuel : Nat) (h0 : Initial data r0)
    (hf : 2 * data.length + 4 ≤ fuel) (hreach : Reach fuel r0 r) (op : ApiCall) :
    IsVal (opRes fuel op r) :=
  opRes_isVal (reach_inv (Safe_closed data.length) h0.safe hreach) hf op

-- the driver's fuel is enough
example (data : Bytes) : 2 * data.length + 4 ≤ fuelFor data := by simp [fuelFor]

/-- the window lies inside the buffer: `start_buf ≤ start ≤ end ≤ start_buf + cap` -/
def InBuffer (r : Reader) : Prop := r.consumed + r.win.length ≤ r.cap

theorem Src.read_le_space (s : Src) (space : Nat) : ∀ bs, (s.read space).2 = some bs → bs.length ≤ space := by
  intro bs
  unfold Src.read
  cases s.sched with
  | nil => simp only [Option.some.injEq]; intro h; rw [← h]; simp; omega
  | cons st t =>
    cases st with
    | give n => simp only [Option.some.injEq]; intro h; rw [← h]; simp; omega
    | repeat_ n => simp only [Option.some.injEq]; intro h; rw [← h]; simp; omega
    | fail => simp
    | failForever => simp

theorem InBuffer_closed : Closed InBuffer InBuffer (fun _ => True) := by
  have hfill : ∀ {r : Reader}, InBuffer r → InBuffer (fillBuf r).1 := by
    intro r h
    unfold fillBuf
    split
    · exact h
    · split
      · exact h
      · rename_i hc hfull
        have hsp := Src.read_le_space r.src (r.cap - r.win.length)
        generalize r.src.read (r.cap - r.win.length) = res at hsp
        obtain ⟨src', ob⟩ := res
        cases ob with
        | none => unfold InBuffer at h ⊢; simp only; omega
        | some bs =>
          have := hsp bs rfl
          unfold InBuffer at h ⊢
          simp only [List.length_append]
          omega
  refine { adv := ?_, bom := fun _ h => h, fill := fun h _ => hfill h, fillio := fun h _ => hfill h,
           full := fun _ _ => trivial, io := fun _ _ => trivial, eof := trivial }
  intro r r' k h ha
  unfold TextReader.advance at ha
  split at ha
  · rename_i hk
    simp only [Option.some.injEq] at ha; subst ha
    unfold InBuffer at h ⊢
    simp only [List.length_drop]; omega
  · simp at ha

/-- **C05, text reader: the window stays inside the buffer.**  For a `Read`-backed reader with a buffer of `cap ≥ 1`
bytes, along every run of calls (any order, after successes and after errors, every schedule, faults included):
`start_buf ≤ start ≤ end ≤ start_buf + cap` (in the model: `consumed + |window| ≤ cap`), the position never exceeds the
number of bytes delivered, and the window is exactly the slice `data[position .. delivered]` of the input. -/
theorem C05_textreader_window_in_buffer (data : Bytes) (cap : Nat) (sched : List Step) (hcap : 0 < cap)
    (fuel : Nat) (r : Reader) (hreach : Reach fuel (fromReader cap sched data) r) :
    r.consumed + r.win.length ≤ r.cap ∧ r.cap = cap ∧
    r.position ≤ r.src.delivered ∧ r.src.delivered ≤ data.length ∧
    r.win = (data.drop r.position).take (r.src.delivered - r.position) := by
  have h1 : InBuffer r := reach_inv InBuffer_closed (by simp [InBuffer, fromReader]) hreach
  have h2 : Inv data r := reach_inv (Inv_closed data) (Inv.start cap hcap sched data) hreach
  have h3 : r.cap = cap := by
    have hc : Closed (fun r => r.cap = cap) (fun r => r.cap = cap) (fun _ => True) := by
      refine { adv := ?_, bom := fun _ h => h, fill := ?_, fillio := ?_, full := fun _ _ => trivial,
               io := fun _ _ => trivial, eof := trivial }
      · intro r r' k h ha
        unfold TextReader.advance at ha
        split at ha
        · simp only [Option.some.injEq] at ha; subst ha; exact h
        · simp at ha
      · intro r h _; unfold fillBuf; split; · exact h
        split; · exact h
        split <;> exact h
      · intro r h _; unfold fillBuf; split; · exact h
        split; · exact h
        split <;> exact h
    exact reach_inv hc (by simp [fromReader]) hreach
  have hp := h2.pos
  have hd := h2.del
  refine ⟨h1, h3, by omega, by omega, ?_⟩
  have : r.src.delivered - r.position = r.win.length := by omega
  rw [this]; exact h2.win

/-- slice mode: the window is always the unread rest of the slice (`start ≤ end = slice end`). -/
theorem C05_textreader_window_in_slice (data : Bytes) (fuel : Nat) (r : Reader) (hreach : Reach fuel (fromSlice data) r) :
    r.cap = 0 ∧ r.consumed + r.win.length = data.length ∧ r.win = data.drop r.consumed := by
  have hc : Closed (fun r : Reader => r.cap = 0 ∧ r.consumed + r.win.length = data.length ∧ r.win = data.drop r.consumed)
      (fun r : Reader => r.cap = 0 ∧ r.consumed + r.win.length = data.length ∧ r.win = data.drop r.consumed) (fun _ => True) := by
    refine { adv := ?_, bom := fun _ h => h, fill := ?_, fillio := ?_, full := fun _ _ => trivial,
             io := fun _ _ => trivial, eof := trivial }
    · intro r r' k h ha
      unfold TextReader.advance at ha
      split at ha
      · rename_i hk
        simp only [Option.some.injEq] at ha; subst ha
        refine ⟨h.1, by simp only [List.length_drop]; omega, ?_⟩
        simp only; rw [h.2.2, List.drop_drop]
      · simp at ha
    · intro r h _; unfold fillBuf; simp [h.1]; exact h.2
    · intro r h _; unfold fillBuf; simp [h.1]; exact h.2
  exact reach_inv hc (by simp [fromSlice]) hreach

end Jomini.TextReader
