import JominiModel.Proofs.BinTape
/-
C03: the invariant `Good` of the plain loop, the simulation of the remaining fast path (the
`I32` array loop), and `parse true = parse false`.
-/
namespace Jomini.BinTape
open Jomini


/-- invariant of the plain loop that yields `KeyInv` at every `Key` state: the parent index lies
inside the tape (or the tape is still empty) and, while a key / separator / value is expected,
the parent slot is not an `Array`. -/
def Good (tape : Tape) (parent : Nat) (state : PState) : Prop :=
  parent ≤ tape.length ∧
  ((state = .key ∨ state = .keyValueSeparator ∨ state = .objectValue) →
    ∀ x, tape[parent]? = some x → x.notArray)

def St.Good (st : St) : Prop := BinTape.Good st.tape st.parent st.state

theorem Good.keyInv {tape : Tape} {parent : Nat} (h : Good tape parent .key) : KeyInv tape parent :=
  ⟨h.1, h.2 (Or.inl rfl)⟩

/-- `r` appends one non-container token and does not grow the data -/
def Appends (r : Except Err (Tape × Bytes)) (tape : Tape) (d : Bytes) : Prop :=
  ∀ t' d', r = .ok (t', d') → (∃ x, t' = tape ++ [x] ∧ x.notArray) ∧ d'.length ≤ d.length

theorem appends_fixed (n : Nat) (mk : Bytes → BTok) (hmk : ∀ b, (mk b).notArray) (tape : Tape) (d : Bytes) :
    Appends (parseFixed n mk tape d) tape d := by
  intro t' d' h
  have := parseFixed_ok h
  exact ⟨⟨_, this.1, hmk _⟩, this.2⟩

theorem parseUnquoted_ok {tape t' : Tape} {d d' : Bytes} (h : parseUnquoted tape d = .ok (t', d')) :
    (∃ s, t' = tape ++ [.unquoted s]) ∧ d'.length ≤ d.length := by
  unfold parseUnquoted at h
  split at h
  · cases h
  · rename_i s rest hs; simp at h; obtain ⟨rfl, rfl⟩ := h; exact ⟨⟨s, rfl⟩, readString_length hs⟩

theorem good_append {tape : Tape} {parent : Nat} {state s' : PState} {x : BTok} (hx : x.notArray)
    (hg : Good tape parent state)
    (hs : (s' = .key ∨ s' = .keyValueSeparator ∨ s' = .objectValue) →
          (state = .key ∨ state = .keyValueSeparator ∨ state = .objectValue)) :
    Good (tape ++ [x]) parent s' := by
  refine ⟨by simp; have := hg.1; omega, ?_⟩
  intro hs' y hy
  rcases Nat.lt_or_ge parent tape.length with hlt | hge
  · rw [List.getElem?_append_left hlt] at hy
    exact hg.2 (hs hs') y hy
  · have : parent = tape.length := Nat.le_antisymm hg.1 hge
    subst this
    simp at hy; subst hy; exact hx

theorem scalarArm_good {r : Except Err (Tape × Bytes)} {tape : Tape} {parent : Nat} {state : PState} {d : Bytes} {st' : St}
    (hr : Appends r tape d) (h : scalarArm r parent state = .ok st') (hg : Good tape parent state) :
    st'.Good ∧ st'.data.length ≤ d.length := by
  unfold scalarArm at h
  cases r with
  | error e => cases h
  | ok p =>
    obtain ⟨t', d'⟩ := p
    obtain ⟨⟨x, rfl, hx⟩, hl⟩ := hr t' d' rfl
    simp only at h
    cases hn : nextState state with
    | none => simp [hn] at h
    | some s' =>
      simp [hn] at h; subst h
      refine ⟨good_append hx hg ?_, hl⟩
      intro hs'
      cases state <;> simp at hn <;> subst hn <;> simp at hs' ⊢

theorem openArm_good {tape : Tape} {parent : Nat} {state : PState} {d : Bytes} {st' : St}
    (h : openArm tape parent state d = .ok st') (hg : Good tape parent state) :
    st'.Good ∧ st'.data.length ≤ d.length := by
  unfold openArm at h
  split at h
  · simp at h; subst h
    exact ⟨⟨by simp [St.Good], by simp⟩, Nat.le_refl _⟩
  · split at h
    · cases h
    · cases hr : readId d with
      | none => simp [hr] at h
      | some p =>
        obtain ⟨x, nd⟩ := p
        have := readId_length hr
        simp only [hr] at h
        split at h
        · simp at h; subst h; exact ⟨hg, by simp; omega⟩
        · cases h

theorem closeTo_good {t' : Tape} {grand : Nat} {t'' : Tape} {p' : Nat} {s' : PState}
    (h : closeTo t' grand = .ok (t'', p', s')) : Good t'' p' s' := by
  unfold closeTo at h
  split at h
  · rename_i e he
    simp at h; obtain ⟨rfl, rfl, rfl⟩ := h
    exact ⟨Nat.le_of_lt (getElem?_lt_length he), by simp⟩
  · rename_i y hne hy
    simp at h; obtain ⟨rfl, rfl, rfl⟩ := h
    refine ⟨Nat.le_of_lt (getElem?_lt_length hy), ?_⟩
    intro _ x hx
    rw [hy] at hx; simp at hx; subst hx
    cases y <;> simp_all [BTok.notArray]
  · cases h

theorem pushEnd_good {tape : Tape} {parent : Nat} {t' : Tape} {p' : Nat} {s' : PState}
    (h : pushEnd tape parent = .ok (t', p', s')) : Good t' p' s' := by
  unfold pushEnd at h
  split at h
  · exact closeTo_good h
  · exact closeTo_good h
  · cases h

theorem closeArm_good {tape : Tape} {parent : Nat} {state : PState} {d : Bytes} {st' : St}
    (h : closeArm tape parent state d = .ok st') :
    st'.Good ∧ st'.data.length ≤ d.length := by
  unfold closeArm at h
  simp only at h
  split at h
  · cases h
  · rename_i tape1 _
    cases hp : pushEnd tape1 parent with
    | error e => simp [hp] at h
    | ok p =>
      obtain ⟨a, b, c⟩ := p
      simp [hp] at h; subst h
      exact ⟨pushEnd_good hp, Nat.le_refl _⟩

theorem setParentToObject_ok {tape t' : Tape} {parent : Nat} (h : setParentToObject tape parent = .ok t') :
    ∃ e, tape[parent]? = some (.array e) ∧ t' = tape.set parent (.object e) := by
  unfold setParentToObject at h
  split at h
  · rename_i e he; simp at h; exact ⟨e, he, h.symm⟩
  · cases h

theorem pop?_length {tape t1 : Tape} {x : BTok} (h : pop? tape = some (t1, x)) : tape = t1 ++ [x] := by
  unfold pop? at h
  split at h
  · cases h
  · rename_i y hy
    simp at h; obtain ⟨rfl, rfl⟩ := h
    obtain ⟨ys, rfl⟩ := List.getLast?_eq_some_iff.mp hy
    simp

theorem equalArm_good {tape : Tape} {parent : Nat} {state : PState} {d : Bytes} {st' : St}
    (h : equalArm tape parent state d = .ok st') (hg : Good tape parent state) :
    st'.Good ∧ st'.data.length ≤ d.length := by
  unfold equalArm at h
  split at h
  · simp at h; subst h
    exact ⟨⟨hg.1, fun _ => hg.2 (Or.inr (Or.inl rfl))⟩, Nat.le_refl _⟩
  · cases hs : setParentToObject tape parent with
    | error e => simp [hs] at h
    | ok t' =>
      simp [hs] at h; subst h
      obtain ⟨e, he, rfl⟩ := setParentToObject_ok hs
      have hl := getElem?_lt_length he
      refine ⟨⟨by simpa using hg.1, ?_⟩, Nat.le_refl _⟩
      intro _ x hx
      simp [List.getElem?_set_self hl] at hx; subst hx; trivial
  · simp at h; subst h
    exact ⟨⟨by simp; have := hg.1; omega, by simp⟩, Nat.le_refl _⟩
  · cases hp : pop? tape with
    | none => simp [hp] at h
    | some p =>
      obtain ⟨t1, last⟩ := p
      have ht := pop?_length hp
      simp only [hp] at h
      split at h
      · cases h
      · cases h
      · split at h
        · cases hs : setParentToObject t1 parent with
          | error e => simp [hs] at h
          | ok t2 =>
            simp [hs] at h; subst h
            obtain ⟨e, he, rfl⟩ := setParentToObject_ok hs
            have hl := getElem?_lt_length he
            refine ⟨⟨by simp [St.Good]; omega, ?_⟩, Nat.le_refl _⟩
            intro _ x hx
            simp only at hx
            rw [List.getElem?_append_left (by simp; omega)] at hx
            rw [List.getElem?_take_of_lt (by omega)] at hx
            simp [List.getElem?_set_self hl] at hx; subst hx; trivial
        · simp at h; subst h
          refine ⟨⟨?_, by simp⟩, Nat.le_refl _⟩
          have := hg.1
          simp [ht] at this ⊢; omega
  · cases h

theorem split?_length {n : Nat} {d h r : Bytes} (hs : split? n d = some (h, r)) : r.length ≤ d.length := by
  unfold split? at hs
  split at hs
  · simp at hs; obtain ⟨rfl, rfl⟩ := hs; simp
  · cases hs

theorem readRgb_ok {d d' : Bytes} {t : BTok} (h : readRgb d = .ok (t, d')) : t.notArray ∧ d'.length ≤ d.length := by
  unfold readRgb at h
  cases h1 : readId d with
  | none => simp [h1] at h
  | some p1 =>
  obtain ⟨start, d1⟩ := p1; have l1 := readId_length h1; simp only [h1] at h
  cases h2 : readId d1 with
  | none => simp [h2] at h
  | some p2 =>
  obtain ⟨rtok, d2⟩ := p2; have l2 := readId_length h2; simp only [h2] at h
  cases h3 : split? 4 d2 with
  | none => simp [h3] at h
  | some p3 =>
  obtain ⟨r, d3⟩ := p3; have l3 := split?_length h3; simp only [h3] at h
  cases h4 : readId d3 with
  | none => simp [h4] at h
  | some p4 =>
  obtain ⟨gtok, d4⟩ := p4; have l4 := readId_length h4; simp only [h4] at h
  cases h5 : split? 4 d4 with
  | none => simp [h5] at h
  | some p5 =>
  obtain ⟨g, d5⟩ := p5; have l5 := split?_length h5; simp only [h5] at h
  cases h6 : readId d5 with
  | none => simp [h6] at h
  | some p6 =>
  obtain ⟨btok, d6⟩ := p6; have l6 := readId_length h6; simp only [h6] at h
  cases h7 : split? 4 d6 with
  | none => simp [h7] at h
  | some p7 =>
  obtain ⟨b, d7⟩ := p7; have l7 := split?_length h7; simp only [h7] at h
  cases h8 : readId d7 with
  | none => simp [h8] at h
  | some p8 =>
  obtain ⟨next, d8⟩ := p8; have l8 := readId_length h8; simp only [h8] at h
  split at h
  · simp at h; obtain ⟨rfl, rfl⟩ := h; exact ⟨trivial, by omega⟩
  · split at h
    · cases h9 : split? 4 d8 with
      | none => simp [h9] at h
      | some p9 =>
      obtain ⟨a, d9⟩ := p9; have l9 := split?_length h9; simp only [h9] at h
      cases h10 : readId d9 with
      | none => simp [h10] at h
      | some p10 =>
      obtain ⟨e, d10⟩ := p10; have l10 := readId_length h10; simp only [h10] at h
      split at h
      · simp at h; obtain ⟨rfl, rfl⟩ := h; exact ⟨trivial, by omega⟩
      · cases h
    · cases h

theorem tokenArm_good {tape : Tape} {parent : Nat} {state : PState} {d : Bytes} {tok : Nat} {st' : St}
    (h : tokenArm false 0 tape parent state d tok = .ok st') (hg : Good tape parent state) :
    st'.Good ∧ st'.data.length ≤ d.length := by
  unfold tokenArm at h
  by_cases c1 : tok = L.u32
  · rw [if_pos c1] at h
    exact scalarArm_good (appends_fixed _ _ (by intro _; trivial) _ _) h hg
  rw [if_neg c1] at h
  by_cases c2 : tok = L.u64
  · rw [if_pos c2] at h
    exact scalarArm_good (appends_fixed _ _ (by intro _; trivial) _ _) h hg
  rw [if_neg c2] at h
  by_cases c3 : tok = L.i32
  · rw [if_pos c3] at h
    cases hsa : scalarArm (parseI32 tape d) parent state with
    | error e => simp [hsa] at h
    | ok st =>
      simp [hsa] at h; subst h
      exact scalarArm_good (appends_fixed _ _ (by intro _; trivial) _ _) hsa hg
  rw [if_neg c3] at h
  by_cases c4 : tok = L.bool
  · rw [if_pos c4] at h
    refine scalarArm_good ?_ h hg
    intro t' d' hh; obtain ⟨⟨b, hb⟩, hl⟩ := parseBool_ok hh; exact ⟨⟨_, hb, trivial⟩, hl⟩
  rw [if_neg c4] at h
  by_cases c5 : tok = L.quoted
  · rw [if_pos c5] at h
    refine scalarArm_good ?_ h hg
    intro t' d' hh; obtain ⟨⟨b, hb⟩, hl⟩ := parseQuoted_ok hh; exact ⟨⟨_, hb, trivial⟩, hl⟩
  rw [if_neg c5] at h
  by_cases c6 : tok = L.unquoted
  · rw [if_pos c6] at h
    refine scalarArm_good ?_ h hg
    intro t' d' hh; obtain ⟨⟨b, hb⟩, hl⟩ := parseUnquoted_ok hh; exact ⟨⟨_, hb, trivial⟩, hl⟩
  rw [if_neg c6] at h
  by_cases c7 : tok = L.f32
  · rw [if_pos c7] at h
    exact scalarArm_good (appends_fixed _ _ (by intro _; trivial) _ _) h hg
  rw [if_neg c7] at h
  by_cases c8 : tok = L.f64
  · rw [if_pos c8] at h
    exact scalarArm_good (appends_fixed _ _ (by intro _; trivial) _ _) h hg
  rw [if_neg c8] at h
  by_cases c9 : tok = L.open_
  · rw [if_pos c9] at h
    exact openArm_good h hg
  rw [if_neg c9] at h
  by_cases c10 : tok = L.close
  · rw [if_pos c10] at h
    exact closeArm_good h
  rw [if_neg c10] at h
  by_cases c11 : tok = L.equal
  · rw [if_pos c11] at h
    exact equalArm_good h hg
  rw [if_neg c11] at h
  by_cases c12 : tok = L.rgb ∧ state = .objectValue
  · rw [if_pos c12] at h
    unfold parseRgb at h
    cases hr : readRgb d with
    | error e => simp [hr] at h
    | ok p =>
      obtain ⟨t, rest⟩ := p
      simp [hr] at h; subst h
      obtain ⟨ht, hl⟩ := readRgb_ok hr
      refine ⟨good_append ht hg (fun _ => Or.inr (Or.inr c12.2)), hl⟩
  rw [if_neg c12] at h
  by_cases c13 : tok = L.i64
  · rw [if_pos c13] at h
    exact scalarArm_good (appends_fixed _ _ (by intro _; trivial) _ _) h hg
  rw [if_neg c13] at h
  refine scalarArm_good ?_ h hg
  intro t' d' hh; simp at hh; obtain ⟨rfl, rfl⟩ := hh; exact ⟨⟨_, rfl, trivial⟩, Nat.le_refl _⟩

theorem mixedInsert2_length {tape t' : Tape} (h : mixedInsert2 tape = .ok t') : t'.length = tape.length + 1 := by
  unfold mixedInsert2 at h
  cases h1 : pop? tape with
  | none => simp [h1] at h
  | some p1 =>
    obtain ⟨t1, s1⟩ := p1
    simp only [h1] at h
    cases h2 : pop? t1 with
    | none => simp [h2] at h
    | some p2 =>
      obtain ⟨t2, s2⟩ := p2
      simp [h2] at h; subst h
      rw [pop?_length h1, pop?_length h2]; simp

theorem dispatch_good {tape : Tape} {parent : Nat} {state : PState} {d : Bytes} {tok : Nat} {st' : St}
    (h : dispatch false 0 tape parent state d tok = .ok st') (hg : Good tape parent state) :
    st'.Good ∧ st'.data.length ≤ d.length := by
  unfold dispatch at h
  split at h
  · cases hm : mixedInsert2 tape with
    | error e => simp [hm] at h
    | ok tape' =>
      simp only [hm] at h
      refine tokenArm_good h ⟨?_, by simp⟩
      rw [mixedInsert2_length hm]; have := hg.1; omega
  · exact tokenArm_good h hg

/-- the plain loop preserves `Good` and consumes input in every iteration -/
theorem step_good {st st' : St} (h : step st = .next st') (hg : st.Good) :
    st'.Good ∧ st'.data.length < st.data.length := by
  cases hr : readId st.data with
  | none => rw [step_done hr] at h; cases h
  | some p =>
    obtain ⟨tok, d⟩ := p
    rw [step_eq hr] at h
    have hl := readId_length hr
    cases hd : dispatch false 0 st.tape st.parent st.state d tok with
    | error e => simp [hd, Iter.ofExcept] at h
    | ok s =>
      simp [hd, Iter.ofExcept] at h; subst h
      have := dispatch_good hd hg
      exact ⟨this.1, by omega⟩


theorem tokenArm_true_i32 (F : Nat) (tape : Tape) (parent : Nat) (state : PState) (d : Bytes) :
    tokenArm true F tape parent state d L.i32 =
      match tokenArm false 0 tape parent state d L.i32 with
      | .error e => .error e
      | .ok st => if st.state = .arrayValue then i32Loop F st.tape st.parent st.data else .ok st := by
  rw [tokenArm_i32]
  simp only [tokenArm, L.i32, L.u32, L.u64]
  simp
  cases scalarArm (parseFixed 4 (fun h => BTok.i32 (toSigned 32 (leNat h))) tape d) parent state <;> rfl

theorem tokenArm_true_ne (F : Nat) (tape : Tape) (parent : Nat) (state : PState) (d : Bytes) (tok : Nat) (h : tok ≠ L.i32) :
    tokenArm true F tape parent state d tok = tokenArm false 0 tape parent state d tok := by
  unfold tokenArm
  simp only [if_neg h]

theorem dispatch_true_i32 (F : Nat) (tape : Tape) (parent : Nat) (state : PState) (d : Bytes) :
    dispatch true F tape parent state d L.i32 =
      match dispatch false 0 tape parent state d L.i32 with
      | .error e => .error e
      | .ok st => if st.state = .arrayValue then i32Loop F st.tape st.parent st.data else .ok st := by
  unfold dispatch
  split
  · cases mixedInsert2 tape with
    | error e => rfl
    | ok t' => simp only; rw [tokenArm_true_i32]
  · rw [tokenArm_true_i32]

theorem dispatch_true_ne (F : Nat) (tape : Tape) (parent : Nat) (state : PState) (d : Bytes) (tok : Nat) (h : tok ≠ L.i32) :
    dispatch true F tape parent state d tok = dispatch false 0 tape parent state d tok := by
  unfold dispatch
  simp only [tokenArm_true_ne F _ _ _ _ _ h]


/-- an `Except` outcome of (part of) an optimised iteration, relative to the plain loop at `a` -/
def ExSim (a : St) : Except Err St → Prop
  | .ok st' => Reach a st'
  | .error e => Rejects a e

theorem i32Loop_sim : ∀ (F : Nat) (tape : Tape) (parent : Nat) (nd : Bytes),
    nd.length + 1 ≤ F → ExSim ⟨tape, parent, .arrayValue, nd⟩ (i32Loop F tape parent nd) := by
  intro F
  induction F with
  | zero => intro tape parent nd hF; omega
  | succ F ih =>
    intro tape parent nd hF
    unfold i32Loop
    cases hr : readId nd with
    | none => exact Rejects.now (Or.inr ⟨step_done hr, by simp [finish]⟩)
    | some pr =>
      obtain ⟨t, nd2⟩ := pr
      have hlen := readId_length hr
      simp only
      split
      · rename_i ht; subst ht
        cases hpe : parseI32 tape nd2 with
        | error e =>
          exact Rejects.now (Or.inl (step_scalar_err (parent := parent) .arrayValue hr (by decide) (tokenArm_i32 _ _ _ _) hpe))
        | ok pr2 =>
          obtain ⟨tape', nd'⟩ := pr2
          have h1 := step_scalar_ok (parent := parent) .arrayValue hr (by decide) (tokenArm_i32 _ _ _ _) hpe nextState_arrayValue
          have hl := (parseFixed_ok hpe).2
          have := ih tape' parent nd' (by omega)
          simp only
          cases hi : i32Loop F tape' parent nd' with
          | error e => rw [hi] at this; exact Rejects.head h1 this
          | ok s => rw [hi] at this; exact Reach.head h1 this
      · split
        · rename_i ht; subst ht
          have h1 := step_close (tape := tape) (parent := parent) .arrayValue hr (by decide) (by decide) (by decide)
          cases hpe : pushEnd tape parent with
          | error e => simp only [hpe] at h1 ⊢; exact Rejects.now (Or.inl h1)
          | ok pr =>
            obtain ⟨a, b, c⟩ := pr
            simp only [hpe] at h1 ⊢
            exact Reach.head h1 (Reach.refl _)
        · exact Reach.refl _

theorem dispatch_true_sim (F : Nat) (tape : Tape) (parent : Nat) (state : PState) (data d : Bytes) (tok : Nat)
    (hr : readId data = some (tok, d)) (hF : data.length ≤ F) (hg : Good tape parent state) :
    match dispatch true F tape parent state d tok with
    | .ok st' => Reach1 ⟨tape, parent, state, data⟩ st'
    | .error e => Rejects ⟨tape, parent, state, data⟩ e := by
  have hs := step_eq (st := ⟨tape, parent, state, data⟩) hr
  simp only at hs
  have hlen := readId_length hr
  by_cases hi : tok = L.i32
  · subst hi
    rw [dispatch_true_i32]
    cases hd : dispatch false 0 tape parent state d L.i32 with
    | error e =>
      simp only [hd, Iter.ofExcept] at hs ⊢
      exact Rejects.now (Or.inl hs)
    | ok st =>
      simp only [hd, Iter.ofExcept] at hs ⊢
      have hl := (dispatch_good hd hg).2
      by_cases hav : st.state = .arrayValue
      · rw [if_pos hav]
        have := i32Loop_sim F st.tape st.parent st.data (by omega)
        have hst : st = ⟨st.tape, st.parent, .arrayValue, st.data⟩ := by
          cases st; simp_all
        rw [← hst] at this
        cases hl2 : i32Loop F st.tape st.parent st.data with
        | error e => rw [hl2] at this; exact Rejects.head hs this
        | ok s => rw [hl2] at this; exact Reach1.head hs this
      · rw [if_neg hav]; exact Reach1.single hs
  · rw [dispatch_true_ne F _ _ _ _ _ hi]
    cases hd : dispatch false 0 tape parent state d tok with
    | error e => simp only [hd, Iter.ofExcept] at hs ⊢; exact Rejects.now (Or.inl hs)
    | ok st => simp only [hd, Iter.ofExcept] at hs ⊢; exact Reach1.single hs

/-- big-step result of the plain loop -/
inductive Res : St → Except Err Tape → Prop
  | done {st : St} : step st = .done → Res st (finish st)
  | err {st : St} {e : Err} : step st = .err e → Res st (.error e)
  | next {st st' : St} {r : Except Err Tape} : step st = .next st' → Res st' r → Res st r

theorem Res.det {st : St} {r1 r2 : Except Err Tape} (h1 : Res st r1) (h2 : Res st r2) : r1 = r2 := by
  induction h1 with
  | done h =>
    cases h2 with
    | done _ => rfl
    | err h' => rw [h] at h'; cases h'
    | next h' _ => rw [h] at h'; cases h'
  | err h =>
    cases h2 with
    | done h' => rw [h] at h'; cases h'
    | err h' => rw [h] at h'; cases h'; rfl
    | next h' _ => rw [h] at h'; cases h'
  | next h _ ih =>
    cases h2 with
    | done h' => rw [h] at h'; cases h'
    | err h' => rw [h] at h'; cases h'
    | next h' hr => rw [h] at h'; cases h'; exact ih hr

theorem Res.of_stepN : ∀ (k : Nat) (a b : St) (r : Except Err Tape), stepN k a = some b → Res b r → Res a r := by
  intro k
  induction k with
  | zero => intro a b r h hr; simp [stepN] at h; subst h; exact hr
  | succ k ih =>
    intro a b r h hr
    cases hs : step a with
    | next a' => simp only [stepN, hs] at h; exact Res.next hs (ih a' b r h hr)
    | done => simp [stepN, hs] at h
    | err e => simp [stepN, hs] at h

theorem Res.of_reach {a b : St} {r : Except Err Tape} (h : Reach a b) (hr : Res b r) : Res a r := by
  obtain ⟨k, hk⟩ := h; exact Res.of_stepN k a b r hk hr

theorem Res.of_rejects {a : St} {e : Err} (h : Rejects a e) : Res a (.error e) := by
  obtain ⟨s, hs, hf⟩ := h
  refine Res.of_reach hs ?_
  rcases hf with hf | ⟨hd, hfin⟩
  · exact Res.err hf
  · rw [← hfin]; exact Res.done hd

theorem stepN_good : ∀ (k : Nat) (a b : St), stepN k a = some b → a.Good → b.Good ∧ b.data.length + k ≤ a.data.length := by
  intro k
  induction k with
  | zero => intro a b h hg; simp [stepN] at h; subst h; exact ⟨hg, Nat.le_refl _⟩
  | succ k ih =>
    intro a b h hg
    cases hs : step a with
    | next a' =>
      simp only [stepN, hs] at h
      have h1 := step_good hs hg
      have h2 := ih a' b h h1.1
      exact ⟨h2.1, by omega⟩
    | done => simp [stepN, hs] at h
    | err e => simp [stepN, hs] at h

theorem Reach.good {a b : St} (h : Reach a b) (hg : a.Good) : b.Good ∧ b.data.length ≤ a.data.length := by
  obtain ⟨k, hk⟩ := h
  have := stepN_good k a b hk hg
  exact ⟨this.1, by omega⟩

theorem Reach1.good {a b : St} (h : Reach1 a b) (hg : a.Good) : b.Good ∧ b.data.length < a.data.length := by
  obtain ⟨k, hk⟩ := h
  have := stepN_good (k + 1) a b hk hg
  exact ⟨this.1, by omega⟩

/-- one optimised iteration is one or more plain iterations (or the same rejection) -/
theorem iter_true_sim (F : Nat) (st : St) (hF : st.data.length ≤ F) (hg : st.Good) :
    match iter true F st with
    | .done => step st = .done
    | .next st' => Reach1 st st'
    | .err e => Rejects st e := by
  obtain ⟨tape, parent, state, data⟩ := st
  unfold iter
  simp only at hF ⊢
  cases hr : readId data with
  | none => simp only; exact step_done hr
  | some pr =>
    obtain ⟨tok, d⟩ := pr
    simp only
    by_cases hk : state = .key
    · subst hk
      simp only [true_and, if_true]
      have hsim := keyFast_sim F tape parent data d tok hr hF (Good.keyInv hg)
      cases hkf : keyFast F tape parent d tok with
      | cont st' => rw [hkf] at hsim; exact hsim
      | err e => rw [hkf] at hsim; exact hsim.2
      | fall t p s d' tok' =>
        rw [hkf] at hsim
        obtain ⟨dpre, hrd, hreach⟩ := hsim
        have hg' := hreach.good hg
        have hd := dispatch_true_sim F t p s dpre d' tok' hrd (by simp only at hg'; omega) hg'.1
        simp only
        cases hdd : dispatch true F t p s d' tok' with
        | error e => rw [hdd] at hd; exact Rejects.of_reach hreach hd
        | ok st' => rw [hdd] at hd; exact Reach1.trans_left hreach hd
    · have : ¬ (True ∧ state = .key) := by simp [hk]
      rw [if_neg this]
      have hd := dispatch_true_sim F tape parent state data d tok hr hF hg
      cases hdd : dispatch true F tape parent state d tok with
      | error e => rw [hdd] at hd; exact hd
      | ok st' => rw [hdd] at hd; exact hd

theorem run_false_res (f : Nat) : ∀ (n : Nat) (st : St), st.data.length + 1 ≤ n → st.Good →
    Res st (run false f n st) := by
  intro n
  induction n with
  | zero => intro st h; omega
  | succ n ih =>
    intro st hn hg
    unfold run
    rw [iter_false]
    cases hs : step st with
    | done => exact Res.done hs
    | err e => exact Res.err hs
    | next st' =>
      have := step_good hs hg
      exact Res.next hs (ih st' (by omega) this.1)

theorem run_true_res (F : Nat) : ∀ (n : Nat) (st : St), st.data.length + 1 ≤ n → st.data.length ≤ F → st.Good →
    Res st (run true F n st) := by
  intro n
  induction n with
  | zero => intro st h; omega
  | succ n ih =>
    intro st hn hF hg
    unfold run
    have hsim := iter_true_sim F st hF hg
    cases hi : iter true F st with
    | done => rw [hi] at hsim; exact Res.done hsim
    | err e => rw [hi] at hsim; exact Res.of_rejects hsim
    | next st' =>
      rw [hi] at hsim
      have := hsim.good hg
      exact Res.of_reach hsim.toReach (ih st' (by omega) (by omega) this.1)

theorem init_good (data : Bytes) : (init data).Good := ⟨Nat.le_refl _, by intro _ x hx; simp [init] at hx⟩

/-- the fast paths are unobservable -/
theorem parse_true_eq_false (data : Bytes) : parse true data = parse false data := by
  unfold parse
  exact Res.det (run_true_res _ _ (init data) (by simp [init]) (by simp [init]) (init_good data))
    (run_false_res _ _ (init data) (by simp [init]) (init_good data))

end Jomini.BinTape
