import JominiModel.Model.TextTape
import JominiModel.Proofs.TextTape
/-
C19 (text lexemes), helper lemmas: what the scalar scanners do on a prefix.
-/
namespace Jomini.TextTape
open Jomini

/-! ### quoted scalars -/

theorem quoteClose_append : ∀ (p q : Bytes) (b : Bool) (j : Nat),
    quoteClose p b = some j → quoteClose (p ++ q) b = some j ∧ j < p.length
  | [], _, _, _, h => by simp [quoteClose] at h
  | c :: cs, q, true, j, h => by
    simp only [quoteClose, Option.map_eq_some_iff] at h
    obtain ⟨a, ha, rfl⟩ := h
    have := quoteClose_append cs q false a ha
    simp [quoteClose, this.1]; exact this.2
  | c :: cs, q, false, j, h => by
    simp only [quoteClose] at h
    by_cases h92 : c = 92
    · simp only [h92, if_true, Option.map_eq_some_iff] at h
      obtain ⟨a, ha, rfl⟩ := h
      have := quoteClose_append cs q true a ha
      simp [quoteClose, h92, this.1]; exact this.2
    · by_cases h34 : c = 34
      · simp [h34] at h; subst h; simp [quoteClose, h34]
      · simp only [h92, h34, if_false, Option.map_eq_some_iff] at h
        obtain ⟨a, ha, rfl⟩ := h
        have := quoteClose_append cs q false a ha
        simp [quoteClose, h92, h34, this.1]; exact this.2

/-- the bytewise scanner on a prefix: a result is the result on the whole input, with the rest
extended by what was cut off; the closing quote lies inside the prefix. -/
theorem parseQuoteScalarFallback_prefix (p q : Bytes) (s rest : Bytes)
    (h : parseQuoteScalarFallback p = .ok (s, rest)) :
    parseQuoteScalarFallback (p ++ q) = .ok (s, rest ++ q) ∧ s.length + 2 ≤ p.length := by
  cases p with
  | nil => simp [parseQuoteScalarFallback, quoteClose] at h
  | cons c hay =>
    simp only [parseQuoteScalarFallback, List.tail_cons] at h
    cases hq : quoteClose hay false with
    | none => simp [hq] at h
    | some k =>
      simp only [hq, quoteCut, Except.ok.injEq, Prod.mk.injEq] at h
      obtain ⟨rfl, rfl⟩ := h
      have := quoteClose_append hay q false k hq
      simp only [parseQuoteScalarFallback, List.cons_append, List.tail_cons, this.1, quoteCut]
      have hk := this.2
      refine ⟨?_, ?_⟩
      · congr 2
        · rw [List.take_append_of_le_length (by omega)]
        · rw [List.drop_append_of_le_length (by omega)]
      · simp; omega

/-! ### unquoted scalars -/

theorem findFirst_take (p : UInt8 → Bool) : ∀ (d : Bytes) (k : Nat),
    findFirst p (d.take k) = min (findFirst p d) k
  | [], k => by simp [findFirst]
  | c :: cs, 0 => by simp [findFirst]
  | c :: cs, k + 1 => by
    simp only [List.take_succ_cons, findFirst]
    split
    · simp
    · rw [findFirst_take p cs k]; omega

theorem findFirst_before (p : UInt8 → Bool) : ∀ (d : Bytes) (i : Nat) (h : i < d.length),
    i < findFirst p d → p d[i] = false
  | [], i, h, _ => by simp at h
  | c :: cs, i, h, hi => by
    simp only [findFirst] at hi
    split at hi
    · omega
    · next hc =>
      cases i with
      | zero => simpa using hc
      | succ i =>
        simp
        exact findFirst_before p cs i (by simpa using h) (by omega)

end Jomini.TextTape
