import JominiModel.Proofs.WriterArrays
/-
`write_tape` over the tape of a root-level document with arrays of scalars and empty containers
(C14 growth): the walk performs exactly the calls of the document.
-/
namespace Jomini.Writer
open Jomini Jomini.Writer.Spec
open Jomini.TextTape (Scal)

def elemToks (L : List SCall) : List Tok := L.map (fun e => scalTok e.scal)

/-- the writer's view of the tokens of a value whose first token has index `b` -/
def wtA (b : Nat) : AVal → List Tok
  | .scal s => [scalTok s.scal]
  | .arr _ first rest => Tok.array (b + 1 + (1 + rest.length)) false :: (elemToks (first :: rest) ++ [Tok.end b])
  | .empty _ => [Tok.array (b + 1) false, Tok.end b]

def wtAF : Nat → List AField → List Tok
  | _, [] => []
  | b, x :: r =>
    scalTok x.key.scal :: ((opOf x.op).toks.map ofTT ++ (wtA (b + (1 + (opOf x.op).toks.length)) x.val ++
      wtAF (b + (1 + (opOf x.op).toks.length) + (wtA (b + (1 + (opOf x.op).toks.length)) x.val).length) r))

theorem kcntVs_elemsK : ∀ (L : List SCall), TextTape.kcntVs (elemsK L) = L.length
  | [] => rfl
  | e :: r => by simp [elemsK, TextTape.kcntVs, TextTape.kcntV, kcntVs_elemsK r]; omega

theorem ktapeVs_elemsK : ∀ (L : List SCall) (b : Nat), (TextTape.ktapeVs (elemsK L) b).map ofTT = elemToks L
  | [], _ => rfl
  | e :: r, b => by
    simp [elemsK, TextTape.ktapeVs, TextTape.ktapeV, elemToks, ofTT_scal]
    exact ktapeVs_elemsK r _

theorem wtA_eq (b : Nat) (v : AVal) : (TextTape.ktapeV v.content b).map ofTT = wtA b v := by
  cases v with
  | scal s => simp [AVal.content, TextTape.ktapeV, wtA, ofTT_scal]
  | arr u first rest =>
    have := ktapeVs_elemsK (first :: rest) (b + 1)
    simp only [elemsK] at this
    simp [AVal.content, TextTape.ktapeV, wtA, ofTT, TextTape.kcntVs, TextTape.kcntV, kcntVs_elemsK, this]
  | empty fl => simp [AVal.content, TextTape.ktapeV, wtA, ofTT]

theorem wtA_len (b : Nat) (v : AVal) : (wtA b v).length = TextTape.kcntV v.content := by
  cases v with
  | scal s => simp [wtA, AVal.content, TextTape.kcntV]
  | arr u first rest => simp [wtA, elemToks, AVal.content, TextTape.kcntV, TextTape.kcntVs, kcntVs_elemsK]; omega
  | empty fl => simp [wtA, AVal.content, TextTape.kcntV]

theorem wtAF_eq : ∀ (fs : List AField) (b : Nat), (TextTape.ktapeF (acontent fs) b).map ofTT = wtAF b fs
  | [], _ => rfl
  | x :: r, b => by
    simp only [acontent, TextTape.ktapeF, wtAF, List.map_append, List.map_cons, List.map_nil, ofTT_scal,
      wtA_eq, wtA_len, wtAF_eq r]
    simp [List.append_assoc, Nat.add_assoc]

theorem writeValue_array (toks : List Tok) (f i e : Nat) (m : Bool) (s : State)
    (h : toks[i]? = some (.array e m)) :
    writeValue toks (f + 1) i s =
      bindE (writeValues toks f (i + 1) e (writeArrayStart s)) (fun s2 => writeEnd s2) := by
  conv => lhs; unfold writeValue
  simp only [h]
  rfl

theorem nextIdx_array (toks : List Tok) (n i e : Nat) (m : Bool) (h : toks[i]? = some (.array e m)) :
    nextIdx toks (n + 1) i = .ok (e + 1) := by
  unfold nextIdx; simp [h]

theorem nextIdxValues_scal (toks : List Tok) (i : Nat) (v : Scal) (h : toks[i]? = some (scalTok v)) :
    nextIdxValues toks i = .ok (i + 1) := by
  unfold nextIdxValues
  unfold scalTok at h
  by_cases hq : v.quoted = true
  · simp [hq] at h; simp [h]
  · simp [hq] at h; simp [h]

/-- the `for value in array.values()` loop over scalar elements performs their calls -/
theorem walk_elems : ∀ (L : List SCall) (toks pre post : List Tok) (i e fuel : Nat) (s : State),
    i = pre.length → e = i + L.length → toks = pre ++ (elemToks L ++ post) → L.length + 2 ≤ fuel →
    writeValues toks fuel i e s = .ok (run (L.map SCall.call) s).1
  | [], toks, pre, post, i, e, fuel, s, hi, he, ht, hf => by
    obtain ⟨f', rfl⟩ : ∃ f', fuel = f' + 1 := ⟨fuel - 1, by simp at hf; omega⟩
    unfold writeValues
    simp [he, run]
  | x :: r, toks, pre, post, i, e, fuel, s, hi, he, ht, hf => by
    obtain ⟨f', rfl⟩ : ∃ f', fuel = f' + 1 + 1 := ⟨fuel - 2, by simp at hf; omega⟩
    have h0 : toks[i]? = some (scalTok x.scal) := by rw [ht, hi]; simp [elemToks]
    have hlt : i < e := by rw [he]; simp
    unfold writeValues
    simp only [hlt, if_true, nextIdxValues_scal toks i x.scal h0, writeValue_scal toks f' i s x.scal h0]
    obtain ⟨s', hs'⟩ := writeRaw_ok s x.scal.text
    rw [hs']
    simp only [List.map_cons]
    rw [run_cons_ok _ ((step_scall s x).trans hs')]
    exact walk_elems r toks (pre ++ [scalTok x.scal]) post (i + 1) e (f' + 1) s' (by simp [hi])
      (by rw [he]; simp; omega) (by rw [ht]; simp [elemToks]) (by simp at hf ⊢; omega)

theorem step_scall_depth (s s' : State) (c : SCall) (h : step s c.call = .ok s') : s'.depth = s.depth := by
  have hc := core_step s c.call
  rw [h] at hc
  have hk : kind c.call = .value := by cases c <;> rfl
  rw [hk] at hc
  obtain ⟨k', hv, hd, _⟩ := value_ok (core s)
  simp only [Except.map, coreStep, hv, Except.ok.injEq] at hc
  have := congrArg Core.depth hc
  simpa [core, hd] using this

theorem run_scalls_depth : ∀ (L : List SCall) (s : State), (run (L.map SCall.call) s).1.depth = s.depth
  | [], _ => rfl
  | x :: r, s => by
    obtain ⟨s', hs'⟩ := writeRaw_ok s x.scal.text
    have hst := (step_scall s x).trans hs'
    simp only [List.map_cons]
    rw [run_cons_ok _ hst, run_scalls_depth r s', step_scall_depth s s' x hst]

theorem writePreamble_mode (s : State) : (writePreamble s).mode = s.mode := by
  have := congrArg Core.mode (core_writePreamble s)
  simpa [core, Core.preamble] using this

theorem writeEnd_ok (s : State) (m : DepthMode) (rest : List DepthMode) (h : s.depth = m :: rest) :
    ∃ s', writeEnd s = .ok s' := by
  unfold writeEnd; rw [h]; exact ⟨_, rfl⟩

def needAV : AVal → Nat
  | .scal _ => 1
  | .arr _ _ rest => rest.length + 5
  | .empty _ => 3

def needAF : List AField → Nat
  | [] => 1
  | x :: r => 2 + needAV x.val + needAF r

/-- `write_value` on the tokens of a root-level value performs the value's calls -/
theorem walk_aval (v : AVal) (hc : v.Canon) (toks pre post : List Tok) (i fuel : Nat) (s : State)
    (hi : i = pre.length) (ht : toks = pre ++ (wtA i v ++ post)) (hf : needAV v ≤ fuel) :
    writeValue toks fuel i s = .ok (run v.calls s).1 := by
  cases v with
  | scal sc =>
    obtain ⟨f', rfl⟩ : ∃ f', fuel = f' + 1 := ⟨fuel - 1, by simp [needAV] at hf; omega⟩
    have h0 : toks[i]? = some (scalTok sc.scal) := by rw [ht, hi]; simp [wtA]
    rw [writeValue_scal toks f' i s sc.scal h0]
    obtain ⟨s', hs'⟩ := writeRaw_ok s sc.scal.text
    rw [hs', AVal.calls, run_single_ok ((step_scall s sc).trans hs')]
  | empty fl =>
    simp only [AVal.Canon] at hc
    subst hc
    obtain ⟨f', rfl⟩ : ∃ f', fuel = f' + 1 + 1 := ⟨fuel - 2, by simp [needAV] at hf; omega⟩
    have h0 : toks[i]? = some (Tok.array (i + 1) false) := by rw [ht, hi]; simp [wtA]
    rw [writeValue_array toks (f' + 1) i _ false s h0]
    have hv : writeValues toks (f' + 1) (i + 1) (i + 1) (writeArrayStart s) = .ok (writeArrayStart s) := by
      unfold writeValues; simp
    rw [hv]
    simp only [bindE]
    obtain ⟨s3, h3⟩ := writeEnd_ok (writeArrayStart s) s.mode s.depth (by simp [writeArrayStart, writeStart, put, writePreamble_depth, writePreamble_mode])
    rw [h3]
    simp only [AVal.calls, Flavour.call]
    rw [run_cons_ok (s1 := writeArrayStart s) _ rfl, run_single_ok ((step_end _).trans h3)]
  | arr u first rest =>
    simp only [AVal.Canon] at hc
    subst hc
    obtain ⟨f', rfl⟩ : ∃ f', fuel = f' + 1 := ⟨fuel - 1, by simp [needAV] at hf; omega⟩
    have h0 : toks[i]? = some (Tok.array (i + 1 + (1 + rest.length)) false) := by rw [ht, hi]; simp [wtA]
    rw [writeValue_array toks f' i _ false s h0]
    have hw := walk_elems (first :: rest) toks (pre ++ [Tok.array (i + 1 + (1 + rest.length)) false])
      (Tok.end i :: post) (i + 1) (i + 1 + (1 + rest.length)) f' (writeArrayStart s) (by simp [hi])
      (by simp; omega) (by rw [ht]; simp [wtA]) (by simp [needAV] at hf ⊢; omega)
    rw [hw]
    simp only [bindE]
    have hd : (run ((first :: rest).map SCall.call) (writeArrayStart s)).1.depth = s.mode :: s.depth := by
      rw [run_scalls_depth]; simp [writeArrayStart, writeStart, put, writePreamble_depth, writePreamble_mode]
    obtain ⟨s3, h3⟩ := writeEnd_ok _ _ _ hd
    rw [h3]
    simp only [AVal.calls, Bool.false_eq_true, if_false]
    rw [run_cons_ok (s1 := writeArrayStart s) _ rfl]
    have : first.call :: (rest.map SCall.call ++ [Call.end]) = (first :: rest).map SCall.call ++ [Call.end] := by simp
    rw [this, run_append, run_single_ok ((step_end _).trans h3)]

theorem wtA_first (b : Nat) (v : AVal) : ∃ t tl, wtA b v = t :: tl ∧ (∀ x, t ≠ Tok.operator x) ∧
    (∀ (toks : List Tok) (n : Nat), toks[b]? = some t → nextIdx toks (n + 1) b = .ok (b + (wtA b v).length)) := by
  cases v with
  | scal sc =>
    refine ⟨scalTok sc.scal, [], rfl, ?_, ?_⟩
    · intro x; unfold scalTok; split <;> simp
    · intro toks n h
      rw [nextIdx_scal toks n b sc.scal h]; rfl
  | arr u first rest =>
    refine ⟨_, _, rfl, by simp, ?_⟩
    intro toks n h
    rw [nextIdx_array toks n b _ _ h]
    simp [wtA, elemToks]; omega
  | empty fl =>
    refine ⟨_, _, rfl, by simp, ?_⟩
    intro toks n h
    rw [nextIdx_array toks n b _ _ h]
    simp [wtA]

theorem walk_afields : ∀ (fs : List AField) (toks pre post : List Tok) (i e fuel : Nat) (s : State),
    i = pre.length → e = i + (wtAF i fs).length → toks = pre ++ (wtAF i fs ++ post) → needAF fs ≤ fuel →
    (∀ x ∈ fs, x.Canon) →
    writeObjectCore toks fuel i e s = .ok (run (acalls fs) s).1
  | [], toks, pre, post, i, e, fuel, s, hi, he, ht, hf, _ => by
    obtain ⟨f', rfl⟩ : ∃ f', fuel = f' + 1 := ⟨fuel - 1, by simp [needAF] at hf; omega⟩
    unfold writeObjectCore
    simp [he, wtAF, acalls, run]
  | ⟨k, o, v⟩ :: r, toks, pre, post, i, e, fuel, s, hi, he, ht, hf, hc => by
    obtain ⟨f', rfl⟩ : ∃ f', fuel = f' + 1 + 1 := ⟨fuel - 2, by simp [needAF] at hf; omega⟩
    obtain ⟨hoc, hcv⟩ := hc ⟨k, o, v⟩ (by simp)
    have hcr : ∀ y ∈ r, y.Canon := fun y hy => hc y (by simp [hy])
    have hfv : needAV v ≤ f' + 1 := by simp only [needAF] at hf; omega
    have hfr : needAF r ≤ f' + 1 := by simp only [needAF] at hf; omega
    simp only [wtAF] at ht he
    rw [opToks_canon o hoc] at ht
    have hie : i < e := by rw [he]; simp
    have h0 : toks[i]? = some (scalTok k.scal) := by rw [ht, hi]; simp
    obtain ⟨s1, hk⟩ := writeRaw_ok s k.scal.text
    have hrun1 : (run (acalls (⟨k, o, v⟩ :: r)) s).1 = (run (opCalls o ++ (v.calls ++ acalls r)) s1).1 := by
      simp only [acalls, AField.calls, List.cons_append, List.append_assoc]
      exact run_cons_ok _ ((step_scall s k).trans hk)
    obtain ⟨t, tl, hwt, hno, hnx⟩ := wtA_first (i + (1 + (opOf o).toks.length)) v
    simp only [AField.Canon] at hoc hcv
    cases o with
    | none =>
      simp only [opOf, TextTape.Op.toks, List.length_nil, Nat.add_zero, List.nil_append] at ht hwt hnx he hrun1 ⊢
      have h1 : toks[i + 1]? = some t := by rw [ht, hwt, hi]; simp
      have hn := hnx toks toks.length h1
      rw [core_unfold_gen toks f' i e _ s k.scal t hie h0 h1 hno hn, hk]
      simp only [bindE]
      rw [walk_aval v hcv toks (pre ++ [scalTok k.scal]) (wtAF (i + 1 + (wtA (i + 1) v).length) r ++ post)
        (i + 1) (f' + 1) s1 (by simp [hi]) (by rw [ht]; simp) hfv]
      simp only []
      rw [walk_afields r toks (pre ++ [scalTok k.scal] ++ wtA (i + 1) v) post
        (i + 1 + (wtA (i + 1) v).length) e (f' + 1) (run v.calls s1).1
        (by simp [hi]; omega) (by rw [he]; simp; omega) (by rw [ht]; simp) hfr hcr, hrun1]
      simp [opCalls, run_append]
    | some o' =>
      have hne : o' ≠ .eq := fun h => hoc (by rw [h])
      have hlen1 : (opOf (some o')).toks.length = 1 := by
        cases o' <;> first | rfl | exact absurd rfl hne
      simp only [hlen1] at ht hwt hnx he hrun1 ⊢
      have h1 : toks[i + 1]? = some (Tok.operator o') := by rw [ht, hi]; simp
      have h2 : toks[i + 2]? = some t := by rw [ht, hwt, hi]; simp
      have hn := hnx toks toks.length h2
      rw [core_unfold_gen_op toks f' i e _ s k.scal o' hie h0 h1 hn, hk]
      simp only [bindE]
      rw [walk_aval v hcv toks (pre ++ [scalTok k.scal, Tok.operator o'])
        (wtAF (i + (1 + 1) + (wtA (i + (1 + 1)) v).length) r ++ post)
        (i + 2) (f' + 1) (writeOperator s1 o') (by simp [hi]) (by rw [ht]; simp) hfv]
      simp only []
      rw [walk_afields r toks (pre ++ [scalTok k.scal, Tok.operator o'] ++ wtA (i + 2) v) post
        (i + (1 + 1) + (wtA (i + (1 + 1)) v).length) e (f' + 1) (run v.calls (writeOperator s1 o')).1
        (by simp [hi]; omega) (by rw [he]; simp; omega) (by rw [ht]; simp) hfr hcr, hrun1]
      simp [opCalls, run_append, run, step_operator]

theorem needAF_le : ∀ (fs : List AField) (b : Nat), needAF fs ≤ 4 * (wtAF b fs).length + 1
  | [], _ => by simp [needAF]
  | x :: r, b => by
    have h := needAF_le r (b + (1 + (opOf x.op).toks.length) + (wtA (b + (1 + (opOf x.op).toks.length)) x.val).length)
    have hv : needAV x.val ≤ 4 * (wtA (b + (1 + (opOf x.op).toks.length)) x.val).length - 2 := by
      cases x.val <;> simp [needAV, wtA, elemToks] <;> omega
    have hv2 : 1 ≤ (wtA (b + (1 + (opOf x.op).toks.length)) x.val).length := by
      cases x.val <;> simp [wtA]
    simp only [needAF, wtAF, List.length_cons, List.length_append, List.length_map]
    omega

/-- `write_tape` over the tape of a root-level document with arrays of scalars and empty containers
performs exactly the calls of the document -/
theorem writeTape_arrays (fs : List AField) (hc : ∀ x ∈ fs, x.Canon) (c : UInt8) (f : Nat) :
    writeTape (wtAF 0 fs) (State.init c f) = .ok (run (acalls fs) (State.init c f)).1 := by
  have hb := needAF_le fs 0
  have := walk_afields fs (wtAF 0 fs) [] [] 0 (0 + (wtAF 0 fs).length) (4 * (wtAF 0 fs).length + 8)
    (State.init c f) rfl rfl (by simp) (by omega) hc
  simpa [writeTape] using this


end Jomini.Writer
