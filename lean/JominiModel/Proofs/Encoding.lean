import JominiModel.Model.Encoding
import JominiModel.Spec.Encoding
import JominiModel.Proofs.SwarEncoding
namespace Jomini.Encoding
open Jomini Jomini.Spec.Encoding

theorem isAsciiWhitespace_eq_isWs (b : UInt8) : isAsciiWhitespace b = isWs b := by
  rw [Bool.eq_iff_iff]; simp [isAsciiWhitespace, isWs, or_assoc]

theorem trim_append_singleton (d : Bytes) (x : UInt8) :
    trim (d ++ [x]) = if isWs x then trim d else d ++ [x] := by
  induction d with
  | nil => simp [trim]
  | cons y ys ih =>
    simp only [List.cons_append, trim, ih]
    by_cases hx : isWs x = true
    · simp [hx]
    · simp only [hx, Bool.false_eq_true, if_false]
      cases hys : ys ++ [x] with
      | nil => simp at hys
      | cons a as => rfl

theorem trimLoop_reverse (r : Bytes) : (trimLoop r).reverse = trim r.reverse := by
  induction r with
  | nil => simp [trimLoop, trim]
  | cons last rest ih =>
    simp only [trimLoop, List.reverse_cons, trim_append_singleton, isAsciiWhitespace_eq_isWs]
    by_cases h : isWs last = true <;> simp [h, ih]

theorem trimAsciiEnd_eq_trim (d : Bytes) : trimAsciiEnd d = trim d := by
  simp [trimAsciiEnd, trimLoop_reverse]

theorem trimLoop_idem (r : Bytes) : trimLoop (trimLoop r) = trimLoop r := by
  induction r with
  | nil => simp [trimLoop]
  | cons x xs ih =>
    by_cases h : isAsciiWhitespace x = true <;> simp [trimLoop, h, ih]

theorem trimAsciiEnd_idem (d : Bytes) : trimAsciiEnd (trimAsciiEnd d) = trimAsciiEnd d := by
  simp [trimAsciiEnd, trimLoop_idem]

theorem trim_idem (d : Bytes) : trim (trim d) = trim d := by
  simpa [trimAsciiEnd_eq_trim] using trimAsciiEnd_idem d

theorem win1252_eq : Tables.win1252 = cp1252Table := by decide +kernel

theorem win1252_get (c : UInt8) : Tables.win1252[c.toNat]? = some (cp1252Code c.toNat) := by
  have := c.toNat_lt
  simp [win1252_eq, cp1252Table, this]

theorem encodeUtf8_cp1252_nat : ∀ n < 256, encodeUtf8 (cp1252Code n) = String.utf8EncodeChar (Char.ofNat (cp1252Code n)) := by
  decide +kernel

theorem encodeUtf8_cp1252 (c : UInt8) : encodeUtf8 (cp1252Code c.toNat) = String.utf8EncodeChar (cp1252 c) :=
  encodeUtf8_cp1252_nat c.toNat c.toNat_lt

theorem utf8_append (a b : List Char) : utf8 (a ++ b) = utf8 a ++ utf8 b := by simp [utf8]

/-- the push loop of `windows_1252_create` never indexes out of bounds and appends the
UTF-8 of the code-page image of the unescaped bytes. -/
theorem w1252Push_eq (rest result : Bytes) :
    w1252Push rest result = .ok (result ++ utf8 ((unescape rest).map cp1252)) := by
  induction rest generalizing result with
  | nil => simp [w1252Push, unescape, utf8]
  | cons c rest ih =>
    by_cases hc : c = 92
    · subst hc; simp [w1252Push, ih, unescape]
    · have h1 : (c != 92) = true := by simpa using hc
      simp only [w1252Push, h1, if_true, win1252_get, ih, encodeUtf8_cp1252]
      simp [unescape, hc, utf8, List.append_assoc]

theorem ejectLoop_eq (xs : Bytes) (e : Bool) :
    ejectLoop xs e = (e || xs.any (fun x => !isAscii x || x == 92)) := by
  induction xs generalizing e with
  | nil => simp [ejectLoop]
  | cons x xs ih => simp [ejectLoop, ih, Bool.or_assoc]

/-- escape-free ASCII text is its own unescaped, code-page-mapped UTF-8. -/
theorem utf8_cp1252_plain (b : Bytes) (h : ∀ x ∈ b, isAscii x = true ∧ x ≠ 92) :
    utf8 ((unescape b).map cp1252) = b := by
  induction b with
  | nil => simp [unescape, utf8]
  | cons x xs ih =>
    have hx := h x (by simp)
    have hxs : ∀ y ∈ xs, isAscii y = true ∧ y ≠ 92 := fun y hy => h y (by simp [hy])
    have hlt : x.toNat < 128 := by simpa [isAscii, UInt8.lt_iff_toNat_lt] using hx.1
    have e1 : String.utf8EncodeChar (cp1252 x) = [x] := by
      rw [← encodeUtf8_cp1252]
      have : cp1252Code x.toNat = x.toNat := by simp [cp1252Code]; omega
      rw [this]; simp [encodeUtf8, hlt]
    have := ih hxs
    simp [unescape, utf8] at this
    simp [unescape, utf8, hx.2, e1, this]

theorem decodeWindows1252_eq (d : Bytes) :
    decodeWindows1252 d =
      if (trim d).any (fun x => !isAscii x || x == 92) then
        .ok (.owned (utf8 ((unescape (trim d)).map cp1252)))
      else .ok (.borrowed (trim d)) := by
  simp only [decodeWindows1252, ejectLoop_eq, Bool.false_or, trimAsciiEnd_eq_trim, windows1252Create,
    List.take_zero, List.drop_zero, w1252Push_eq, List.nil_append]
  split <;> simp_all

theorem utf8Remainder_spec (d : Bytes) (off : Nat) (a : Bool) :
    (92 ∉ d → utf8Remainder d off a = .done (a && d.all isAscii)) ∧
    (92 ∈ d → ∃ k, utf8Remainder d off a = .escape (off + k) ∧ k ≤ d.length ∧ 92 ∉ d.take k) := by
  induction d generalizing off a with
  | nil => simp [utf8Remainder]
  | cons x xs ih =>
    by_cases hx : x = 92
    · subst hx
      simp only [utf8Remainder]
      refine ⟨by simp, fun _ => ⟨0, by simp⟩⟩
    · have hb : (x == 92) = false := by simpa using hx
      obtain ⟨ih1, ih2⟩ := ih (off + 1) (a && isAscii x)
      simp only [utf8Remainder, hb, Bool.false_eq_true, if_false]
      constructor
      · intro h
        rw [ih1 (fun h' => h (List.mem_cons_of_mem _ h'))]
        simp [Bool.and_assoc]
      · intro h
        have h' : 92 ∈ xs := by
          rcases List.mem_cons.1 h with h | h
          · exact absurd h.symm hx
          · exact h
        obtain ⟨k, hk1, hk2, hk3⟩ := ih2 h'
        refine ⟨k + 1, ?_, by simp; omega, ?_⟩
        · rw [hk1]; congr 1; omega
        · simp only [List.take_succ_cons, List.mem_cons, not_or]
          exact ⟨fun h => hx h.symm, hk3⟩

theorem utf8Chunks_spec (d : Bytes) (off : Nat) (a : Bool) :
    (92 ∉ d → utf8Chunks d off a = .done (a && d.all isAscii)) ∧
    (92 ∈ d → ∃ k, utf8Chunks d off a = .escape (off + k) ∧ k ≤ d.length ∧ 92 ∉ d.take k) := by
  fun_induction utf8Chunks d off a with
  | case1 b0 b1 b2 b3 b4 b5 b6 b7 rest off a wide hesc =>
    simp only [wide, containsZeroByte_backslash] at hesc
    constructor
    · intro h
      simp only [List.mem_cons, not_or] at h
      simp only [Bool.or_eq_true, beq_iff_eq] at hesc
      grind
    · intro _
      exact ⟨0, by simp⟩
  | case2 b0 b1 b2 b3 b4 b5 b6 b7 rest off a0 wide a hesc ih =>
    simp only [wide, containsZeroByte_backslash, Bool.or_eq_true, beq_iff_eq, not_or] at hesc
    obtain ⟨ih1, ih2⟩ := ih
    have hmem : 92 ∈ b0 :: b1 :: b2 :: b3 :: b4 :: b5 :: b6 :: b7 :: rest ↔ 92 ∈ rest := by
      simp only [List.mem_cons]; grind
    constructor
    · intro h
      rw [ih1 (fun h' => h (hmem.2 h'))]
      simp only [a, wide, asciiMask_spec, List.all_cons, Bool.and_assoc]
    · intro h
      obtain ⟨k, hk1, hk2, hk3⟩ := ih2 (hmem.1 h)
      refine ⟨k + 8, ?_, by simp; omega, ?_⟩
      · rw [hk1]; congr 1; omega
      · simp only [List.take_succ_cons, List.mem_cons, not_or]
        grind
  | case3 d off a hne =>
    exact utf8Remainder_spec d off a

/-- escape-free ASCII never leaves the scanning loops of `decode_utf8` early and keeps
`is_ascii` set. -/
theorem utf8Chunks_plain (b : Bytes) (h : ∀ x ∈ b, isAscii x = true ∧ x ≠ 92) :
    utf8Chunks b 0 true = .done true := by
  have h92 : 92 ∉ b := fun hm => (h 92 hm).2 rfl
  rw [(utf8Chunks_spec b 0 true).1 h92]
  have : b.all isAscii = true := by
    rw [List.all_eq_true]; exact fun x hx => (h x hx).1
  simp [this]

end Jomini.Encoding
