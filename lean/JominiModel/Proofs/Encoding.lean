import JominiModel.Model.Encoding
import JominiModel.Spec.Encoding
import JominiModel.Proofs.SwarEncoding
namespace Jomini.Encoding
open Jomini Jomini.Spec.Encoding Jomini.Spec.Encoding.Utf8

theorem isAsciiWhitespace_eq_isWs (b : UInt8) : isAsciiWhitespace b = isWs b := by
  rw [Bool.eq_iff_iff]; simp [isAsciiWhitespace, isWs, or_assoc]

theorem trim_append_singleton (d : Bytes) (x : UInt8) :
    trim (d ++ [x]) = if isWs x then trim d else d ++ [x] := by
  induction d with
  | nil => simp [trim]
  | cons y ys ih =>
    simp only [List.cons_append, trim, ih]
    by_cases hx : isWs x = true
    · simp [hx]
    · simp only [hx, Bool.false_eq_true, if_false]
      cases hys : ys ++ [x] with
      | nil => simp at hys
      | cons a as => rfl

theorem trimLoop_reverse (r : Bytes) : (trimLoop r).reverse = trim r.reverse := by
  induction r with
  | nil => simp [trimLoop, trim]
  | cons last rest ih =>
    simp only [trimLoop, List.reverse_cons, trim_append_singleton, isAsciiWhitespace_eq_isWs]
    by_cases h : isWs last = true <;> simp [h, ih]

theorem trimAsciiEnd_eq_trim (d : Bytes) : trimAsciiEnd d = trim d := by
  simp [trimAsciiEnd, trimLoop_reverse]

theorem trimLoop_idem (r : Bytes) : trimLoop (trimLoop r) = trimLoop r := by
  induction r with
  | nil => simp [trimLoop]
  | cons x xs ih =>
    by_cases h : isAsciiWhitespace x = true <;> simp [trimLoop, h, ih]

theorem trimAsciiEnd_idem (d : Bytes) : trimAsciiEnd (trimAsciiEnd d) = trimAsciiEnd d := by
  simp [trimAsciiEnd, trimLoop_idem]

theorem trim_idem (d : Bytes) : trim (trim d) = trim d := by
  simpa [trimAsciiEnd_eq_trim] using trimAsciiEnd_idem d

theorem win1252_eq : Tables.win1252 = cp1252Table := by decide +kernel

theorem win1252_get (c : UInt8) : Tables.win1252[c.toNat]? = some (cp1252Code c.toNat) := by
  have := c.toNat_lt
  simp [win1252_eq, cp1252Table, this]

theorem encodeUtf8_cp1252_nat : ∀ n < 256, encodeUtf8 (cp1252Code n) = String.utf8EncodeChar (Char.ofNat (cp1252Code n)) := by
  decide +kernel

theorem encodeUtf8_cp1252 (c : UInt8) : encodeUtf8 (cp1252Code c.toNat) = String.utf8EncodeChar (cp1252 c) :=
  encodeUtf8_cp1252_nat c.toNat c.toNat_lt

theorem utf8_append (a b : List Char) : utf8 (a ++ b) = utf8 a ++ utf8 b := by simp [utf8]

/-- the push loop of `windows_1252_create` never indexes out of bounds and appends the
UTF-8 of the code-page image of the unescaped bytes. -/
theorem w1252Push_eq (rest result : Bytes) :
    w1252Push rest result = .ok (result ++ utf8 ((unescape rest).map cp1252)) := by
  induction rest generalizing result with
  | nil => simp [w1252Push, unescape, utf8]
  | cons c rest ih =>
    by_cases hc : c = 92
    · subst hc; simp [w1252Push, ih, unescape]
    · have h1 : (c != 92) = true := by simpa using hc
      simp only [w1252Push, h1, if_true, win1252_get, ih, encodeUtf8_cp1252]
      simp [unescape, hc, utf8, List.append_assoc]

theorem ejectLoop_eq (xs : Bytes) (e : Bool) :
    ejectLoop xs e = (e || xs.any (fun x => !isAscii x || x == 92)) := by
  induction xs generalizing e with
  | nil => simp [ejectLoop]
  | cons x xs ih => simp [ejectLoop, ih, Bool.or_assoc]

/-- escape-free ASCII text is its own unescaped, code-page-mapped UTF-8. -/
theorem utf8_cp1252_plain (b : Bytes) (h : ∀ x ∈ b, isAscii x = true ∧ x ≠ 92) :
    utf8 ((unescape b).map cp1252) = b := by
  induction b with
  | nil => simp [unescape, utf8]
  | cons x xs ih =>
    have hx := h x (by simp)
    have hxs : ∀ y ∈ xs, isAscii y = true ∧ y ≠ 92 := fun y hy => h y (by simp [hy])
    have hlt : x.toNat < 128 := by simpa [isAscii, UInt8.lt_iff_toNat_lt] using hx.1
    have e1 : String.utf8EncodeChar (cp1252 x) = [x] := by
      rw [← encodeUtf8_cp1252]
      have : cp1252Code x.toNat = x.toNat := by simp [cp1252Code]; omega
      rw [this]; simp [encodeUtf8, hlt]
    have := ih hxs
    simp [unescape, utf8] at this
    simp [unescape, utf8, hx.2, e1, this]

theorem decodeWindows1252_eq (d : Bytes) :
    decodeWindows1252 d =
      if (trim d).any (fun x => !isAscii x || x == 92) then
        .ok (.owned (utf8 ((unescape (trim d)).map cp1252)))
      else .ok (.borrowed (trim d)) := by
  simp only [decodeWindows1252, ejectLoop_eq, Bool.false_or, trimAsciiEnd_eq_trim, windows1252Create,
    List.take_zero, List.drop_zero, w1252Push_eq, List.nil_append]
  split <;> simp_all

theorem utf8Remainder_spec (d : Bytes) (off : Nat) (a : Bool) :
    (92 ∉ d → utf8Remainder d off a = .done (a && d.all isAscii)) ∧
    (92 ∈ d → ∃ k, utf8Remainder d off a = .escape (off + k) ∧ k ≤ d.length ∧ 92 ∉ d.take k) := by
  induction d generalizing off a with
  | nil => simp [utf8Remainder]
  | cons x xs ih =>
    by_cases hx : x = 92
    · subst hx
      simp only [utf8Remainder]
      refine ⟨by simp, fun _ => ⟨0, by simp⟩⟩
    · have hb : (x == 92) = false := by simpa using hx
      obtain ⟨ih1, ih2⟩ := ih (off + 1) (a && isAscii x)
      simp only [utf8Remainder, hb, Bool.false_eq_true, if_false]
      constructor
      · intro h
        rw [ih1 (fun h' => h (List.mem_cons_of_mem _ h'))]
        simp [Bool.and_assoc]
      · intro h
        have h' : 92 ∈ xs := by
          rcases List.mem_cons.1 h with h | h
          · exact absurd h.symm hx
          · exact h
        obtain ⟨k, hk1, hk2, hk3⟩ := ih2 h'
        refine ⟨k + 1, ?_, by simp; omega, ?_⟩
        · rw [hk1]; congr 1; omega
        · simp only [List.take_succ_cons, List.mem_cons, not_or]
          exact ⟨fun h => hx h.symm, hk3⟩

theorem utf8Chunks_spec (d : Bytes) (off : Nat) (a : Bool) :
    (92 ∉ d → utf8Chunks d off a = .done (a && d.all isAscii)) ∧
    (92 ∈ d → ∃ k, utf8Chunks d off a = .escape (off + k) ∧ k ≤ d.length ∧ 92 ∉ d.take k) := by
  fun_induction utf8Chunks d off a with
  | case1 b0 b1 b2 b3 b4 b5 b6 b7 rest off a wide hesc =>
    simp only [wide, containsZeroByte_backslash] at hesc
    constructor
    · intro h
      simp only [List.mem_cons, not_or] at h
      simp only [Bool.or_eq_true, beq_iff_eq] at hesc
      grind
    · intro _
      exact ⟨0, by simp⟩
  | case2 b0 b1 b2 b3 b4 b5 b6 b7 rest off a0 wide a hesc ih =>
    simp only [wide, containsZeroByte_backslash, Bool.or_eq_true, beq_iff_eq, not_or] at hesc
    obtain ⟨ih1, ih2⟩ := ih
    have hmem : 92 ∈ b0 :: b1 :: b2 :: b3 :: b4 :: b5 :: b6 :: b7 :: rest ↔ 92 ∈ rest := by
      simp only [List.mem_cons]; grind
    constructor
    · intro h
      rw [ih1 (fun h' => h (hmem.2 h'))]
      simp only [a, wide, asciiMask_spec, List.all_cons, Bool.and_assoc]
    · intro h
      obtain ⟨k, hk1, hk2, hk3⟩ := ih2 (hmem.1 h)
      refine ⟨k + 8, ?_, by simp; omega, ?_⟩
      · rw [hk1]; congr 1; omega
      · simp only [List.take_succ_cons, List.mem_cons, not_or]
        grind
  | case3 d off a hne =>
    exact utf8Remainder_spec d off a

/-- escape-free ASCII never leaves the scanning loops of `decode_utf8` early and keeps
`is_ascii` set. -/
theorem utf8Chunks_plain (b : Bytes) (h : ∀ x ∈ b, isAscii x = true ∧ x ≠ 92) :
    utf8Chunks b 0 true = .done true := by
  have h92 : 92 ∉ b := fun hm => (h 92 hm).2 rfl
  rw [(utf8Chunks_spec b 0 true).1 h92]
  have : b.all isAscii = true := by
    rw [List.all_eq_true]; exact fun x hx => (h x hx).1
  simp [this]

theorem forall_u8 (p : UInt8 → Prop) (h : ∀ n < 256, p (UInt8.ofNat n)) (b : UInt8) : p b := by
  have := h b.toNat b.toNat_lt
  simpa using this

theorem forall_u8_2 (p : UInt8 → UInt8 → Prop) (h : ∀ n < 256, ∀ m < 256, p (UInt8.ofNat n) (UInt8.ofNat m))
    (a b : UInt8) : p a b := by
  have := h a.toNat a.toNat_lt b.toNat b.toNat_lt
  simpa using this

theorem isCont_eq_cont (b : UInt8) : isCont b = cont b :=
  forall_u8 (fun b => isCont b = cont b) (by decide +kernel) b

theorem width_spec (b : UInt8) :
    ¬ (b < 128) →
      (utf8CharWidth b = 2 ↔ lead2 b = true) ∧ (utf8CharWidth b = 3 ↔ lead3 b = true) ∧
      (utf8CharWidth b = 4 ↔ lead4 b = true) ∧
      (utf8CharWidth b = 0 ∨ utf8CharWidth b = 2 ∨ utf8CharWidth b = 3 ∨ utf8CharWidth b = 4) :=
  forall_u8 (fun b => ¬ (b < 128) →
      (utf8CharWidth b = 2 ↔ lead2 b = true) ∧ (utf8CharWidth b = 3 ↔ lead3 b = true) ∧
      (utf8CharWidth b = 4 ↔ lead4 b = true) ∧
      (utf8CharWidth b = 0 ∨ utf8CharWidth b = 2 ∨ utf8CharWidth b = 3 ∨ utf8CharWidth b = 4)) (by decide +kernel) b

theorem second3_eq_aux : ∀ n < 16, ∀ m < 256,
    second3 (UInt8.ofNat (0xE0 + n)) (UInt8.ofNat m) = snd3 (UInt8.ofNat (0xE0 + n)) (UInt8.ofNat m) := by
  decide +kernel

theorem second4_eq_aux : ∀ n < 5, ∀ m < 256,
    second4 (UInt8.ofNat (0xF0 + n)) (UInt8.ofNat m) = snd4 (UInt8.ofNat (0xF0 + n)) (UInt8.ofNat m) := by
  decide +kernel

theorem second3_eq (a b : UInt8) (h : lead3 a = true) : second3 a b = snd3 a b := by
  have ha : 0xE0 ≤ a.toNat ∧ a.toNat ≤ 0xEF := by
    simpa [lead3, UInt8.le_iff_toNat_le] using h
  have := second3_eq_aux (a.toNat - 0xE0) (by omega) b.toNat b.toNat_lt
  have e : 0xE0 + (a.toNat - 0xE0) = a.toNat := by omega
  rw [e] at this
  simpa using this

theorem second4_eq (a b : UInt8) (h : lead4 a = true) : second4 a b = snd4 a b := by
  have ha : 0xF0 ≤ a.toNat ∧ a.toNat ≤ 0xF4 := by
    simpa [lead4, UInt8.le_iff_toNat_le] using h
  have := second4_eq_aux (a.toNat - 0xF0) (by omega) b.toNat b.toNat_lt
  have e : 0xF0 + (a.toNat - 0xF0) = a.toNat := by omega
  rw [e] at this
  simpa using this


/-- what one run of the `Utf8Chunks::next` loop from offset `i` must deliver on `src`:
`a` valid bytes, then `b` bytes of one maximal invalid subpart (`b = 0` only at the end). -/
def Good (src : Bytes) (i : Nat) (r : Nat × Nat) : Prop :=
  ∃ a b, r = (i + a, i + a + b) ∧ a + b ≤ src.length ∧ (b = 0 → a = src.length) ∧
    (src ≠ [] → 0 < a + b) ∧
    lossy src = src.take a ++ (if b = 0 then [] else replacement ++ lossy (src.drop (a + b))) ∧
    valid (src.take a) = true

theorem good_break (src : Bytes) (i n : Nat) (h1 : 1 ≤ n) (h2 : n ≤ src.length)
    (hl : lossy src = replacement ++ lossy (src.drop n)) : Good src i (i, i + n) := by
  refine ⟨0, n, by simp, by simpa using h2, by omega, by omega, ?_, by simp [valid]⟩
  have : ¬ n = 0 := by omega
  simp [this, hl]

theorem good_adv (pre rest : Bytes) (i : Nat) (r : Nat × Nat) (hne : pre ≠ [])
    (hg : Good rest (i + pre.length) r)
    (hl : lossy (pre ++ rest) = pre ++ lossy rest)
    (hv : ∀ x, valid (pre ++ x) = valid x) : Good (pre ++ rest) i r := by
  obtain ⟨a, b, hr, hab, hb0, hpos, hlo, hva⟩ := hg
  have hlen : 0 < pre.length := List.length_pos_iff.mpr hne
  refine ⟨pre.length + a, b, by rw [hr]; congr 1 <;> omega, by simp; omega, ?_, by intro _; omega, ?_, ?_⟩
  · intro hb; simp [hb0 hb]
  · rw [hl, hlo]
    have e1 : (pre ++ rest).take (pre.length + a) = pre ++ rest.take a := by
      simp [List.take_append, List.take_of_length_le]
    have e2 : (pre ++ rest).drop (pre.length + a + b) = rest.drop (a + b) := by
      rw [Nat.add_assoc, List.drop_append]; simp
    rw [e1, e2, List.append_assoc]
  · have e1 : (pre ++ rest).take (pre.length + a) = pre ++ rest.take a := by
      simp [List.take_append, List.take_of_length_le]
    rw [e1, hv, hva]


theorem safeGet_nil (k : Nat) : safeGet [] k = 0 := by simp [safeGet]
theorem safeGet_cons_zero (x : UInt8) (xs : Bytes) : safeGet (x :: xs) 0 = x := by simp [safeGet]
theorem safeGet_cons_succ (x : UInt8) (xs : Bytes) (k : Nat) : safeGet (x :: xs) (k + 1) = safeGet xs k := by
  simp [safeGet]
theorem cont_zero : cont 0 = false := by decide
theorem snd3_zero (a : UInt8) : snd3 a 0 = false := by
  simp only [snd3]; split <;> (try split) <;> decide
theorem snd4_zero (a : UInt8) : snd4 a 0 = false := by
  simp only [snd4]; split <;> (try split) <;> decide

theorem chunkScan_good (fuel : Nat) : ∀ (src : Bytes) (i : Nat), src.length ≤ fuel →
    Good src i (chunkScan fuel src i) := by
  induction fuel with
  | zero =>
    intro src i h
    have : src = [] := List.length_eq_zero_iff.mp (by omega)
    subst this
    exact ⟨0, 0, by simp [chunkScan], by simp, by simp, by simp, by simp [lossy], by simp [valid]⟩
  | succ fuel ih =>
    intro src i hlen
    cases src with
    | nil => exact ⟨0, 0, by simp [chunkScan], by simp, by simp, by simp, by simp [lossy], by simp [valid]⟩
    | cons b0 r0 =>
      have hlen0 : r0.length ≤ fuel := by simpa using hlen
      by_cases hlt : b0 < 128
      · -- ASCII
        simp only [chunkScan, hlt, if_true]
        exact good_adv [b0] r0 i _ (by simp) (ih r0 _ hlen0)
          (by rw [lossy.eq_def]; simp [hlt]) (by intro x; rw [valid.eq_def]; simp [hlt])
      · obtain ⟨w2, w3, w4, wall⟩ := width_spec b0 hlt
        simp only [chunkScan, hlt, if_false]
        by_cases h2 : lead2 b0 = true
        · -- two-byte lead
          rw [w2.2 h2]
          cases r0 with
          | nil =>
            simp only [safeGet_nil, isCont_eq_cont, cont_zero, Bool.not_false, if_true]
            exact good_break _ i 1 (by omega) (by simp) (by rw [lossy.eq_def]; simp [hlt, h2, lossy])
          | cons b1 r1 =>
            simp only [safeGet_cons_zero, isCont_eq_cont]
            by_cases c1 : cont b1 = true
            · simp only [c1, Bool.not_true, Bool.false_eq_true, if_false, List.drop_one, List.tail_cons]
              exact good_adv [b0, b1] r1 i _ (by simp) (ih r1 _ (by simp at hlen0; omega))
                (by rw [lossy.eq_def]; simp [hlt, h2, c1]) (by intro x; rw [valid.eq_def]; simp [hlt, h2, c1])
            · simp only [c1, Bool.not_false, if_true]
              exact good_break _ i 1 (by omega) (by simp) (by rw [lossy.eq_def]; simp [hlt, h2, c1])
        · by_cases h3 : lead3 b0 = true
          · rw [w3.2 h3]
            cases r0 with
            | nil =>
              simp only [safeGet_nil, second3_eq _ _ h3, snd3_zero, Bool.not_false, if_true]
              exact good_break _ i 1 (by omega) (by simp) (by rw [lossy.eq_def]; simp [hlt, h2, h3, lossy])
            | cons b1 r1 =>
              simp only [safeGet_cons_zero, safeGet_cons_succ, second3_eq _ _ h3]
              by_cases s1 : snd3 b0 b1 = true
              · simp only [s1, Bool.not_true, Bool.false_eq_true, if_false]
                cases r1 with
                | nil =>
                  simp only [safeGet_nil, isCont_eq_cont, cont_zero, Bool.not_false, if_true]
                  exact good_break _ i 2 (by omega) (by simp) (by rw [lossy.eq_def]; simp [hlt, h2, h3, s1, lossy])
                | cons b2 r2 =>
                  simp only [safeGet_cons_zero, isCont_eq_cont]
                  by_cases c2 : cont b2 = true
                  · simp only [c2, Bool.not_true, Bool.false_eq_true, if_false, List.drop_succ_cons, List.drop_zero]
                    exact good_adv [b0, b1, b2] r2 i _ (by simp) (ih r2 _ (by simp at hlen0; omega))
                      (by rw [lossy.eq_def]; simp [hlt, h2, h3, s1, c2])
                      (by intro x; rw [valid.eq_def]; simp [hlt, h2, h3, s1, c2])
                  · simp only [c2, Bool.not_false, if_true]
                    exact good_break _ i 2 (by omega) (by simp) (by rw [lossy.eq_def]; simp [hlt, h2, h3, s1, c2])
              · simp only [s1, Bool.not_false, if_true]
                exact good_break _ i 1 (by omega) (by simp) (by rw [lossy.eq_def]; simp [hlt, h2, h3, s1])
          · by_cases h4 : lead4 b0 = true
            · rw [w4.2 h4]
              cases r0 with
              | nil =>
                simp only [safeGet_nil, second4_eq _ _ h4, snd4_zero, Bool.not_false, if_true]
                exact good_break _ i 1 (by omega) (by simp) (by rw [lossy.eq_def]; simp [hlt, h2, h3, h4, lossy])
              | cons b1 r1 =>
                simp only [safeGet_cons_zero, safeGet_cons_succ, second4_eq _ _ h4]
                by_cases s1 : snd4 b0 b1 = true
                · simp only [s1, Bool.not_true, Bool.false_eq_true, if_false]
                  cases r1 with
                  | nil =>
                    simp only [safeGet_nil, isCont_eq_cont, cont_zero, Bool.not_false, if_true]
                    exact good_break _ i 2 (by omega) (by simp) (by rw [lossy.eq_def]; simp [hlt, h2, h3, h4, s1, lossy])
                  | cons b2 r2 =>
                    simp only [safeGet_cons_zero, safeGet_cons_succ, isCont_eq_cont]
                    by_cases c2 : cont b2 = true
                    · simp only [c2, Bool.not_true, Bool.false_eq_true, if_false]
                      cases r2 with
                      | nil =>
                        simp only [safeGet_nil, cont_zero, Bool.not_false, if_true]
                        exact good_break _ i 3 (by omega) (by simp) (by rw [lossy.eq_def]; simp [hlt, h2, h3, h4, s1, c2, lossy])
                      | cons b3 r3 =>
                        simp only [safeGet_cons_zero]
                        by_cases c3 : cont b3 = true
                        · simp only [c3, Bool.not_true, Bool.false_eq_true, if_false, List.drop_succ_cons, List.drop_zero]
                          exact good_adv [b0, b1, b2, b3] r3 i _ (by simp) (ih r3 _ (by simp at hlen0; omega))
                            (by rw [lossy.eq_def]; simp [hlt, h2, h3, h4, s1, c2, c3])
                            (by intro x; rw [valid.eq_def]; simp [hlt, h2, h3, h4, s1, c2, c3])
                        · simp only [c3, Bool.not_false, if_true]
                          exact good_break _ i 3 (by omega) (by simp) (by rw [lossy.eq_def]; simp [hlt, h2, h3, h4, s1, c2, c3])
                    · simp only [c2, Bool.not_false, if_true]
                      exact good_break _ i 2 (by omega) (by simp) (by rw [lossy.eq_def]; simp [hlt, h2, h3, h4, s1, c2])
                · simp only [s1, Bool.not_false, if_true]
                  exact good_break _ i 1 (by omega) (by simp) (by rw [lossy.eq_def]; simp [hlt, h2, h3, h4, s1])
            · -- invalid lead
              have hw : utf8CharWidth b0 = 0 := by
                rcases wall with h | h | h | h
                · exact h
                · exact absurd (w2.1 h) h2
                · exact absurd (w3.1 h) h3
                · exact absurd (w4.1 h) h4
              rw [hw]
              exact good_break _ i 1 (by omega) (by simp) (by rw [lossy.eq_def]; simp [hlt, h2, h3, h4])


theorem valid_append (x y : Bytes) (h : valid x = true) : valid (x ++ y) = valid y := by
  fun_induction valid x
  all_goals (try simp only [List.cons_append, List.nil_append])
  all_goals (try (rw [valid.eq_def]))
  all_goals simp_all [UInt8.not_lt]
  all_goals (intro hh; exact absurd hh (UInt8.not_lt.mpr (by assumption)))

theorem valid_replacement : valid replacement = true := by decide

theorem valid_repl_append (y : Bytes) : valid (replacement ++ y) = valid y :=
  valid_append _ _ valid_replacement

theorem lossy_valid (x : Bytes) : valid (lossy x) = true := by
  fun_induction lossy x
  all_goals first
    | exact valid_replacement
    | (rw [valid_repl_append]; assumption)
    | (rw [valid.eq_def]; simp_all [UInt8.not_lt]; done)
    | (rw [valid.eq_def]; simp_all [UInt8.not_lt]; intro hh; exact absurd hh (UInt8.not_lt.mpr (by assumption)))


theorem REPLACEMENT_eq : REPLACEMENT = replacement := rfl

/-- `Utf8Chunks::next` in terms of the reference decoder. -/
theorem nextChunk_spec (src : Bytes) :
    ∃ a b, nextChunk src = (src.take a, (src.take (a + b)).drop a, src.drop (a + b)) ∧
      a + b ≤ src.length ∧ (b = 0 → a = src.length) ∧ (src ≠ [] → 0 < a + b) ∧
      lossy src = src.take a ++ (if b = 0 then [] else replacement ++ lossy (src.drop (a + b))) ∧
      valid (src.take a) = true := by
  obtain ⟨a, b, hr, h1, h2, h3, h4, h5⟩ := chunkScan_good src.length src 0 (Nat.le_refl _)
  refine ⟨a, b, ?_, h1, h2, h3, h4, h5⟩
  simp only [nextChunk, hr, Nat.zero_add, List.take_take]
  congr 1
  congr 1
  omega

theorem lossyLoop_spec (fuel : Nat) : ∀ (source res : Bytes), source.length ≤ fuel →
    lossyLoop fuel source res = res ++ lossy source := by
  induction fuel with
  | zero =>
    intro source res h
    have : source = [] := List.length_eq_zero_iff.mp (by omega)
    subst this; simp [lossyLoop, lossy]
  | succ fuel ih =>
    intro source res h
    by_cases he : source = []
    · subst he; simp [lossyLoop, lossy]
    · obtain ⟨a, b, hn, h1, h2, h3, h4, h5⟩ := nextChunk_spec source
      have hpos := h3 he
      have hemp : source.isEmpty = false := by simpa using he
      simp only [lossyLoop, hemp, Bool.false_eq_true, if_false, hn]
      rw [ih _ _ (by simp; omega), h4]
      by_cases hb : b = 0
      · subst hb
        have ha := h2 rfl
        simp [ha, lossy]
      · have hinv : ((source.take (a + b)).drop a).isEmpty = false := by
          rw [List.isEmpty_eq_false_iff_exists_mem]
          have : 0 < ((source.take (a + b)).drop a).length := by simp; omega
          obtain ⟨x, hx⟩ := List.exists_mem_of_length_pos this
          exact ⟨x, hx⟩
        simp [hinv, hb, REPLACEMENT_eq, List.append_assoc]

/-- `String::from_utf8_lossy`: the text is the reference lossy decoding; when it returns
the input borrowed the input is well-formed UTF-8. -/
theorem fromUtf8Lossy_spec (v : Bytes) :
    (fromUtf8Lossy v).bytes = lossy v ∧
    ((fromUtf8Lossy v).isBorrowed = true → (fromUtf8Lossy v).bytes = v ∧ valid v = true) := by
  by_cases he : v = []
  · subst he; simp [fromUtf8Lossy, Cow.bytes, lossy, valid, Cow.isBorrowed]
  · obtain ⟨a, b, hn, h1, h2, h3, h4, h5⟩ := nextChunk_spec v
    have hemp : v.isEmpty = false := by simpa using he
    simp only [fromUtf8Lossy, hemp, Bool.false_eq_true, if_false, hn]
    by_cases hb : b = 0
    · subst hb
      have ha := h2 rfl
      subst ha
      simp only [Nat.add_zero, List.take_length, List.drop_length, List.isEmpty_nil, if_true, Cow.bytes,
        Cow.isBorrowed, true_and, forall_const]
      simp only [List.take_length] at h5 h4
      simp only [Nat.add_zero, List.drop_length, if_true, List.append_nil] at h4
      exact ⟨h4.symm, h5⟩
    · have hinv : ((v.take (a + b)).drop a).isEmpty = false := by
        rw [List.isEmpty_eq_false_iff_exists_mem]
        have : 0 < ((v.take (a + b)).drop a).length := by simp; omega
        obtain ⟨x, hx⟩ := List.exists_mem_of_length_pos this
        exact ⟨x, hx⟩
      simp only [hinv, Bool.false_eq_true, if_false, Cow.bytes, Cow.isBorrowed, false_implies, and_true]
      rw [lossyLoop_spec _ _ _ (Nat.le_refl _), h4]
      simp [hb, REPLACEMENT_eq, List.append_assoc]

theorem fromUtf8Ok_spec (v : Bytes) (h : fromUtf8Ok v = true) : lossy v = v ∧ valid v = true := by
  by_cases he : v = []
  · subst he; simp [lossy, valid]
  · obtain ⟨a, b, hn, h1, h2, h3, h4, h5⟩ := nextChunk_spec v
    have hemp : v.isEmpty = false := by simpa using he
    simp only [fromUtf8Ok, hemp, Bool.false_or, hn] at h
    have hb : b = 0 := by
      by_cases hb : b = 0
      · exact hb
      · exfalso
        have : 0 < ((v.take (a + b)).drop a).length := by simp; omega
        have h' : ((v.take (a + b)).drop a) = [] := by simpa using h
        rw [h'] at this; simp at this
    subst hb
    have ha := h2 rfl
    subst ha
    simp only [List.take_length] at h5 h4
    simp only [Nat.add_zero, List.drop_length, if_true, List.append_nil] at h4
    exact ⟨h4, h5⟩

/-- ASCII text is well-formed and its own lossy decoding. -/
theorem lossy_ascii (x : Bytes) (h : x.all isAscii = true) : lossy x = x ∧ valid x = true := by
  induction x with
  | nil => simp [lossy, valid]
  | cons b r ih =>
    simp only [List.all_cons, Bool.and_eq_true] at h
    have hb : b < 128 := by simpa [isAscii] using h.1
    obtain ⟨i1, i2⟩ := ih h.2
    constructor
    · rw [lossy.eq_def]; simp [hb, i1]
    · rw [valid.eq_def]; simp [hb, i2]

theorem unescape_of_no_backslash (x : Bytes) (h : 92 ∉ x) : unescape x = x := by
  simp only [unescape]
  rw [List.filter_eq_self]
  intro a ha
  simp only [ne_eq, decide_not, Bool.not_eq_eq_eq_not, Bool.not_true, decide_eq_false_iff_not]
  rintro rfl; exact h ha

theorem utf8Create_spec (d : Bytes) (k : Nat) (hk : k ≤ d.length) (h92 : 92 ∉ d.take k) :
    ∃ s, utf8Create d k = .ok s ∧ s = lossy (unescape d) := by
  have hres : d.take k ++ (d.drop k).filter (fun x => x != 92) = unescape d := by
    conv => rhs; rw [← List.take_append_drop k d]
    simp only [unescape, List.filter_append]
    congr 1
    · exact (unescape_of_no_backslash _ h92).symm
    · apply List.filter_congr; intro x _; rw [Bool.eq_iff_iff]; simp
  have hk' : ¬ k > d.length := by omega
  simp only [utf8Create, hk', if_false, hres]
  by_cases hok : fromUtf8Ok (unescape d) = true
  · simp only [hok, if_true]
    exact ⟨_, rfl, (fromUtf8Ok_spec _ hok).1.symm⟩
  · simp only [hok, Bool.false_eq_true, if_false]
    exact ⟨_, rfl, (fromUtf8Lossy_spec _).1⟩

/-- `decode_utf8` never panics and returns the reference decoding; a borrowed result is
the trimmed input itself, which then is well-formed UTF-8. -/
theorem decodeUtf8_spec (d : Bytes) :
    ∃ c, decodeUtf8 d = .ok c ∧ c.bytes = lossy (unescape (trim d)) ∧
      (c.isBorrowed = true → c.bytes = trim d ∧ valid (trim d) = true) := by
  obtain ⟨s1, s2⟩ := utf8Chunks_spec (trim d) 0 true
  simp only [decodeUtf8, trimAsciiEnd_eq_trim, trim_idem]
  by_cases h92 : 92 ∈ trim d
  · obtain ⟨k, hk1, hk2, hk3⟩ := s2 h92
    obtain ⟨s, hs1, hs2⟩ := utf8Create_spec (trim d) k hk2 hk3
    simp only [hk1, Nat.zero_add, hs1]
    exact ⟨_, rfl, hs2, by simp [Cow.isBorrowed]⟩
  · simp only [s1 h92, Bool.true_and, unescape_of_no_backslash _ h92]
    by_cases ha : (trim d).all isAscii = true
    · simp only [ha, if_true]
      obtain ⟨l1, l2⟩ := lossy_ascii _ ha
      exact ⟨_, rfl, by simp [Cow.bytes, l1], by simp [Cow.bytes, l2]⟩
    · simp only [ha, Bool.false_eq_true, if_false]
      obtain ⟨f1, f2⟩ := fromUtf8Lossy_spec (trim d)
      exact ⟨_, rfl, f1, f2⟩


theorem valid_encode_cp1252_nat : ∀ n < 256, valid (encodeUtf8 (cp1252Code n)) = true := by
  decide +kernel

theorem valid_utf8_cp1252 (x : Bytes) : valid (utf8 (x.map cp1252)) = true := by
  induction x with
  | nil => simp [utf8, valid]
  | cons b r ih =>
    have hb : valid (String.utf8EncodeChar (cp1252 b)) = true := by
      rw [← encodeUtf8_cp1252]; exact valid_encode_cp1252_nat b.toNat b.toNat_lt
    simp only [utf8, List.map_cons, List.flatMap_cons] at ih ⊢
    rw [valid_append _ _ hb]; exact ih

theorem decodeWindows1252_valid (d : Bytes) :
    ∃ c, decodeWindows1252 d = .ok c ∧ valid c.bytes = true := by
  rw [decodeWindows1252_eq]
  split
  · exact ⟨_, rfl, valid_utf8_cp1252 _⟩
  · rename_i h
    refine ⟨_, rfl, ?_⟩
    simp only [Cow.bytes]
    apply (lossy_ascii _ _).2
    rw [List.all_eq_true]
    intro x hx
    simp only [Bool.not_eq_true, List.any_eq_false, Bool.or_eq_true, not_or] at h
    have := (h x hx).1
    simpa using this

end Jomini.Encoding
