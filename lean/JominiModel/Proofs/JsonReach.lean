import JominiModel.Proofs.JsonDoc
/-
`json()` on ANY reader of the document, not only the three entry points of the check: every value
node of a document tree (`Doc.values`, with its token index) is located in the tape, and the
model's `ValueReader` / `ArrayReader` / `ObjectReader` conversions there equal `jsonOf`.
-/
set_option linter.unusedSimpArgs false
namespace Jomini.Json
open Jomini Jomini.JsonSpec

/-! ### every value of a document: `json()` on any `ValueReader` / `ArrayReader` / `ObjectReader` -/

mutual
/-- the value nodes of a tree with the index of their first token (the node itself first);
these are exactly the positions a `ValueReader` can stand on when the document is walked through
`fields()` / `values()` / `read_object()` / `read_array()` (header view included) -/
def Node.subs : Node → Nat → List (Node × Nat)
  | .scalar q s, i => [(.scalar q s, i)]
  | .arr m items, i => (.arr m items, i) :: itemsSubs items (i + 1)
  | .obj flag m fields rest, i =>
    (.obj flag m fields rest, i) :: (fieldsSubs fields (i + 1) ++ itemsSubs rest (i + 1 + fieldsSize fields + 1))
  | .header s body, i => (.header s body, i) :: body.subs (i + 1)
def itemsSubs : List Item → Nat → List (Node × Nat)
  | [], _ => []
  | x :: xs, i => x.subs i ++ itemsSubs xs (i + x.size)
def Item.subs : Item → Nat → List (Node × Nat)
  | .val n, i => n.subs i
  | .hdr s body, i => (.header s body, i) :: body.subs (i + 1)
  | _, _ => []
def fieldsSubs : List Field → Nat → List (Node × Nat)
  | [], _ => []
  | f :: fs, i => f.subs i ++ fieldsSubs fs (i + f.size)
def Field.subs : Field → Nat → List (Node × Nat)
  | .mk _ op v, i => v.subs (i + 1 + (if op.isSome then 1 else 0))
end

/-- all value nodes of a document -/
def Doc.values (d : Doc) : List (Node × Nat) :=
  fieldsSubs d.fields 0 ++ itemsSubs d.rest (fieldsSize d.fields + 1)

variable (t : Tape)

mutual
theorem subs_located : (n : Node) → (i : Nat) → nodeAt t n i = true → ∀ p ∈ n.subs i, nodeAt t p.1 p.2 = true
  | .scalar q s, i, h => by
    intro p hp; simp only [Node.subs, List.mem_singleton] at hp; rw [hp]; exact h
  | .arr m items, i, h => by
    intro p hp
    simp only [Node.subs, List.mem_cons] at hp
    rcases hp with hp | hp
    · rw [hp]; exact h
    · simp only [nodeAt, Bool.and_eq_true, decide_eq_true_eq] at h
      exact itemsSubs_located items (i + 1) h.1.2 p hp
  | .obj flag m fields rest, i, h => by
    intro p hp
    simp only [Node.subs, List.mem_cons, List.mem_append] at hp
    rcases hp with hp | hp | hp
    · rw [hp]; exact h
    · simp only [nodeAt, Bool.and_eq_true, decide_eq_true_eq] at h
      exact fieldsSubs_located fields (i + 1) h.1.1.2 p hp
    · simp only [nodeAt, Bool.and_eq_true, decide_eq_true_eq] at h
      cases m with
      | true =>
        simp only [if_true, Bool.and_eq_true, decide_eq_true_eq] at h
        exact itemsSubs_located rest _ h.1.2.2 p hp
      | false =>
        simp only [Bool.false_eq_true, if_false, Bool.and_eq_true, List.isEmpty_iff] at h
        rw [h.1.2.1] at hp; simp [itemsSubs] at hp
  | .header s body, i, h => by
    intro p hp
    simp only [Node.subs, List.mem_cons] at hp
    rcases hp with hp | hp
    · rw [hp]; exact h
    · simp only [nodeAt, Bool.and_eq_true, decide_eq_true_eq] at h
      exact subs_located body (i + 1) h.2 p hp
theorem itemsSubs_located : (items : List Item) → (i : Nat) → itemsAt t items i = true →
    ∀ p ∈ itemsSubs items i, nodeAt t p.1 p.2 = true
  | [], _, _ => by intro p hp; simp [itemsSubs] at hp
  | x :: xs, i, h => by
    intro p hp
    simp only [itemsAt, Bool.and_eq_true] at h
    simp only [itemsSubs, List.mem_append] at hp
    rcases hp with hp | hp
    · exact itemSubs_located x i h.1 p hp
    · exact itemsSubs_located xs (i + x.size) h.2 p hp
theorem itemSubs_located : (x : Item) → (i : Nat) → itemAt t x i = true →
    ∀ p ∈ x.subs i, nodeAt t p.1 p.2 = true
  | .val n, i, h => by
    simp only [itemAt, Bool.and_eq_true] at h
    exact subs_located n i h.2
  | .hdr s body, i, h => by
    intro p hp
    simp only [Item.subs, List.mem_cons] at hp
    simp only [itemAt, Bool.and_eq_true, decide_eq_true_eq] at h
    rcases hp with hp | hp
    · rw [hp]; simp [nodeAt, h.1.1, h.1.2, h.2]
    · exact subs_located body (i + 1) h.2 p hp
  | .paramTok _ _, _, _ => by intro p hp; simp [Item.subs] at hp
  | .opTok _, _, _ => by intro p hp; simp [Item.subs] at hp
  | .mixedTok, _, _ => by intro p hp; simp [Item.subs] at hp
theorem fieldsSubs_located : (fields : List Field) → (i : Nat) → fieldsAt t fields i = true →
    ∀ p ∈ fieldsSubs fields i, nodeAt t p.1 p.2 = true
  | [], _, _ => by intro p hp; simp [fieldsSubs] at hp
  | (.mk k op v) :: fs, i, h => by
    intro p hp
    simp only [fieldsAt, Bool.and_eq_true] at h
    simp only [fieldsSubs, Field.subs, List.mem_append] at hp
    rcases hp with hp | hp
    · have hf := h.1
      simp only [fieldAt, Bool.and_eq_true, decide_eq_true_eq] at hf
      cases op with
      | some o =>
        simp only [Bool.and_eq_true, decide_eq_true_eq] at hf
        exact subs_located v _ (by simpa using hf.2.2) p hp
      | none => exact subs_located v _ (by simpa using hf.2) p hp
    · exact fieldsSubs_located fs _ h.2 p hp
end

theorem values_located (d : Doc) (h : docAt t d = true) : ∀ p ∈ d.values, nodeAt t p.1 p.2 = true := by
  obtain ⟨fields, m, rest⟩ := d
  simp only [docAt, Bool.and_eq_true, decide_eq_true_eq] at h
  intro p hp
  simp only [Doc.values, List.mem_append] at hp
  rcases hp with hp | hp
  · exact fieldsSubs_located t fields 0 h.1.1 p hp
  · cases m with
    | true =>
      simp only [if_true, Bool.and_eq_true, decide_eq_true_eq] at h
      exact itemsSubs_located t rest _ h.1.2.2 p hp
    | false =>
      simp only [Bool.false_eq_true, if_false, List.isEmpty_iff] at h
      rw [h.1.2] at hp; simp [itemsSubs] at hp

/-- a located node ends inside the tape -/
theorem nodeAt_end : (n : Node) → (i : Nat) → nodeAt t n i = true → i + n.size ≤ t.size
  | .scalar q s, i, h => by
    have := lt_size_of_get t i _ (nodeAt_root t _ i h); simp [Node.size]; omega
  | .arr m items, i, h => by
    simp only [nodeAt, Bool.and_eq_true, decide_eq_true_eq] at h
    have := lt_size_of_get t _ _ h.2; simp [Node.size]; omega
  | .obj flag m fields rest, i, h => by
    simp only [nodeAt, Bool.and_eq_true, decide_eq_true_eq] at h
    have := lt_size_of_get t _ _ h.2; simp [Node.size]; omega
  | .header s body, i, h => by
    simp only [nodeAt, Bool.and_eq_true, decide_eq_true_eq] at h
    have := nodeAt_end body (i + 1) h.2; simp [Node.size]; omega

/-- `ValueReader::json()` on ANY value of the document -/
theorem serValue_every (o : Opts) (enc : Enc) (d : Doc) (h : docAt t d = true) (n : Node) (i : Nat)
    (hp : (n, i) ∈ d.values) : serValue o enc t (fuelOf t + 1) i = .ok (jsonOf o enc n) := by
  have hl := values_located t d h (n, i) hp
  have he := nodeAt_end t n i hl
  have hd := Node.depth_le_size n
  exact serValue_node o enc t n i _ hl (by simp only [fuelOf]; omega)

/-- `ArrayReader::json()` on the reader of ANY array of the document -/
theorem arrayJson_every (o : Opts) (enc : Enc) (d : Doc) (h : docAt t d = true) (m : Bool) (items : List Item)
    (i : Nat) (hp : (Node.arr m items, i) ∈ d.values) :
    arrayJson (serValue o enc t (fuelOf t)) enc t o (i + 1) (i + 1 + itemsSize items) =
      .ok (jsonOf o enc (.arr m items)) := by
  have hs := serValue_every t o enc d h _ i hp
  have hr := nodeAt_root t _ i (values_located t d h _ hp)
  simpa [serValue, hr, Node.root] using hs

/-- `ObjectReader::json()` on the reader of ANY object of the document -/
theorem objectJson_every (o : Opts) (enc : Enc) (d : Doc) (h : docAt t d = true) (flag m : Bool)
    (fields : List Field) (rest : List Item) (i : Nat) (hp : (Node.obj flag m fields rest, i) ∈ d.values) :
    objectJson (serValue o enc t (fuelOf t)) enc t o (i + 1)
        (i + 1 + fieldsSize fields + (if m then 1 else 0) + itemsSize rest) =
      .ok (jsonOf o enc (.obj flag m fields rest)) := by
  have hs := serValue_every t o enc d h _ i hp
  have hr := nodeAt_root t _ i (values_located t d h _ hp)
  simpa [serValue, hr, Node.root] using hs

end Jomini.Json
