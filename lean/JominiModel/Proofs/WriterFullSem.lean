import JominiModel.Proofs.WriterGenTape
import JominiModel.Proofs.TextDocFullEmbed
import JominiModel.Spec.WriterFull
/-
C14 over the full document type, step 1: what `write_tape` does on the tape of a document of
`FFields`, as a function of the document (`semF`), and the proof that the index walk of
`write_object_core` / `write_value` / the `values()` loop / the parameter arms computes exactly that.
-/
namespace Jomini.Writer
open Jomini Jomini.Writer.Spec
open Jomini.TextTape (Scal FVal FFirst FFields FVals FItems dtapeV dtapeFirst dtapeF dtapeVs dtapeI
  fcntV fcntFirst fcntF fcntVs fcntI)

/-! ### the primitives, made total -/

/-- a scalar write (`write_unquoted` / `write_escaped_quotes`): never fails -/
def wr (s : State) (x : Bytes) : State := match writeRaw s x with | .ok s' => s' | .error _ => s

theorem wr_eq (s : State) (x : Bytes) : writeRaw s x = .ok (wr s x) := by
  obtain ⟨s', h⟩ := writeRaw_ok s x
  simp [wr, h]

/-- `write_end` (fails only on an empty stack) -/
def endT (s : State) : State := match writeEnd s with | .ok s' => s' | .error _ => s

/-- the operator of an object field: `=` has no token -/
def opK (o : TextTape.Op) (s : State) : State := if o = .eq then s else writeOperator s (opW o)

/-- the `Operator` arm of `write_value` (an operator token inside an array) -/
def opArm (o : TextTape.Op) (s : State) : State :=
  put (if s.mixedMode = .disabled then put s [32] else { s with mixedMode := .keyed }) (opW o).symbol

def paramOpening (isU : Bool) : Bytes := if isU then [91, 91, 33] else [91, 91]

/-- `[[name]⏎` -/
def paramOpenT (isU : Bool) (name : Bytes) (s : State) : State :=
  put (writePreamble s) (paramOpening isU ++ name ++ [93, 10])

/-- `⏎<indent>]` -/
def closeP (s : State) : State := put (writeIndent (put s [10])) [93]

mutual
/-- what `write_value` does on the tokens of a value -/
def semV : FVal → State → State
  | .scal _ x, s => wr s x.text
  | .empty _ _, s => endT (writeArrayStart s)
  | .obj _ _ first rest _, s => endT (semF rest (semFirst first (writeObjectStart s)))
  | .arrS _ _ s0 rest _, s => endT (semVs rest (wr (writeArrayStart s) s0.text))
  | .arrC _ first rest _, s => endT (semVs rest (semV first (writeArrayStart s)))
  | .ghostIn _ _ _ v, s => semV v s
  /- `FieldsIter` ends at the `MixedContainer` token: the rest of the container is not written -/
  | .mixed _ _ first rest _ _ _ _, s => endT (semF rest (semFirst first (writeObjectStart s)))
  | .arrSM _ _ s0 pre _ m0 _ o items _, s =>
    endT (semI items (opArm o (wr (startMixedMode (semVs pre (wr (writeArrayStart s) s0.text))) m0.text)))
  | .arrCM _ first pre _ m0 _ o items _, s =>
    endT (semI items (opArm o (wr (startMixedMode (semVs pre (semV first (writeArrayStart s)))) m0.text)))
def semFirst : FFirst → State → State
  | .kv k _ o v, s => semV v (opK o (wr s k.text))
  | .flds f, s => semF f s
/-- what `write_object_core` does on the tokens of a field list -/
def semF : FFields → State → State
  | .nil, s => s
  | .cons _ k _ o v rest, s => semF rest (semV v (opK o (wr s k.text)))
  | .consImp _ k v rest, s => semF rest (semV v (wr s k.text))
  | .ghost _ _ rest, s => semF rest s
  | .consHdr _ k _ o _ h body rest, s => semF rest (semV body (writeHeader (opK o (wr s k.text)) h.bytes))
  | .paramVal _ isU name _ val _ rest, s => semF rest (put (wr (paramOpenT isU name s) val.bytes) [93])
  | .paramObj _ isU name _ k _ o v inner _ rest, s =>
    semF rest (closeP (semF inner (semV v (opK o (wr (paramOpenT isU name s) k.bytes)))))
  | .paramHdr _ isU name _ val _ body rest, s =>
    semF rest (put (semV body (writeHeader (paramOpenT isU name s) val.bytes)) [93])
def semVs : FVals → State → State
  | .nil, s => s
  | .cons v rest, s => semVs rest (semV v s)
def semI : FItems → State → State
  | .nil, s => s
  | .scal _ x rest, s => semI rest (wr s x.text)
  | .op _ o rest, s => semI rest (opArm o s)
  | .cont v rest, s => semI rest (semV v s)
end

/-! ### depth bookkeeping -/

theorem writeRaw_depth {s s' : State} {x : Bytes} (h : writeRaw s x = .ok s') : s'.depth = s.depth := by
  unfold writeRaw writeEpilogue at h
  split at h
  · cases h
  · cases h; simp [put, writePreamble_depth]

theorem wr_depth (s : State) (x : Bytes) : (wr s x).depth = s.depth := writeRaw_depth (wr_eq s x)

theorem opK_depth (o : TextTape.Op) (s : State) : (opK o s).depth = s.depth := by
  unfold opK; split
  · rfl
  · exact writeOperator_depth s _

theorem opArm_depth (o : TextTape.Op) (s : State) : (opArm o s).depth = s.depth := by
  unfold opArm; split <;> rfl

theorem paramOpenT_depth (isU : Bool) (name : Bytes) (s : State) : (paramOpenT isU name s).depth = s.depth := by
  simp [paramOpenT, put, writePreamble_depth]

theorem closeP_depth (s : State) : (closeP s).depth = s.depth := by
  simp [closeP, put, writeIndent_eq]

theorem endT_of_depth (s : State) (m : DepthMode) (rest : List DepthMode) (h : s.depth = m :: rest) :
    writeEnd s = .ok (endT s) ∧ (endT s).depth = rest := by
  obtain ⟨s', h1, h2⟩ := writeEnd_depth s m rest h
  simp [endT, h1, h2]

/-! ### the tokens `write_tape` sees -/

def tV (v : FVal) (b : Nat) : List Tok := (dtapeV v b).map ofTT
def tFirst (x : FFirst) (b : Nat) : List Tok := (dtapeFirst x b).map ofTT
def tF (fs : FFields) (b : Nat) : List Tok := (dtapeF fs b).map ofTT
def tVs (vs : FVals) (b : Nat) : List Tok := (dtapeVs vs b).map ofTT
def tI (is : FItems) (b : Nat) : List Tok := (dtapeI is b).map ofTT

theorem len_tV (v : FVal) (b : Nat) : (tV v b).length = fcntV v := by
  rw [tV, List.length_map, ← TextTape.ftapeV_erase v b [], List.length_map, TextTape.len_ftapeV]
theorem len_tFirst (x : FFirst) (b : Nat) : (tFirst x b).length = fcntFirst x := by
  rw [tFirst, List.length_map, ← TextTape.ftapeFirst_erase x b [], List.length_map, TextTape.len_ftapeFirst]
theorem len_tF (fs : FFields) (b : Nat) : (tF fs b).length = fcntF fs := by
  rw [tF, List.length_map, ← TextTape.ftapeF_erase fs b [], List.length_map, TextTape.len_ftapeF]
theorem len_tVs (vs : FVals) (b : Nat) : (tVs vs b).length = fcntVs vs := by
  rw [tVs, List.length_map, ← TextTape.ftapeVs_erase vs b [], List.length_map, TextTape.len_ftapeVs]
theorem len_tI (is : FItems) (b : Nat) : (tI is b).length = fcntI is := by
  rw [tI, List.length_map, ← TextTape.ftapeI_erase is b [], List.length_map, TextTape.len_ftapeI]

theorem len_opToks (o : TextTape.Op) : (opToks o).length = o.toks.length := by cases o <;> rfl

def ptok (isU : Bool) (name : Bytes) : Tok := if isU then .undefinedParameter name else .parameter name

theorem ofTT_paramTok (isU : Bool) (name : Bytes) : ofTT (TextTape.paramTok isU ⟨0, name⟩) = ptok isU name := by
  cases isU <;> rfl

theorem ofTT_unq (b : Bytes) : ofTT (.unquoted ⟨0, b⟩) = Tok.unquoted b := rfl
theorem ofTT_mixed : ofTT .mixedContainer = Tok.mixedContainer := rfl
theorem ofTT_operator (o : TextTape.Op) : ofTT (.operator o) = Tok.operator (opW o) := rfl

theorem tV_scal (g : Bytes) (x : Scal) (b : Nat) : tV (.scal g x) b = [scalTok x] := by
  simp [tV, dtapeV, ofTT_scal]
theorem tV_empty (g gc : Bytes) (b : Nat) : tV (.empty g gc) b = [Tok.array (b + 1) false, Tok.end b] := by
  simp [tV, dtapeV, ofTT_array, ofTT_end]
theorem tV_obj (g g0 : Bytes) (first : FFirst) (rest : FFields) (gc : Bytes) (b : Nat) :
    tV (.obj g g0 first rest gc) b = Tok.object (b + 1 + fcntFirst first + fcntF rest) false ::
      (tFirst first (b + 1) ++ (tF rest (b + 1 + fcntFirst first) ++ [Tok.end b])) := by
  simp [tV, tFirst, tF, dtapeV, ofTT_object, ofTT_end]
theorem tV_arrS (g g0 : Bytes) (s0 : Scal) (rest : FVals) (gc : Bytes) (b : Nat) :
    tV (.arrS g g0 s0 rest gc) b = Tok.array (b + 1 + 1 + fcntVs rest) false ::
      (scalTok s0 :: (tVs rest (b + 1 + 1) ++ [Tok.end b])) := by
  simp [tV, tVs, dtapeV, ofTT_array, ofTT_end, ofTT_scal]
theorem tV_arrC (g : Bytes) (first : FVal) (rest : FVals) (gc : Bytes) (b : Nat) :
    tV (.arrC g first rest gc) b = Tok.array (b + 1 + fcntV first + fcntVs rest) false ::
      (tV first (b + 1) ++ (tVs rest (b + 1 + fcntV first) ++ [Tok.end b])) := by
  simp [tV, tVs, dtapeV, ofTT_array, ofTT_end]
theorem tV_ghostIn (g b1 b2 : Bytes) (v : FVal) (b : Nat) : tV (.ghostIn g b1 b2 v) b = tV v b := by
  simp [tV, dtapeV]
theorem tV_mixed (g g0 : Bytes) (first : FFirst) (rest : FFields) (gm : Bytes) (m0 : Scal) (items : FItems)
    (gc : Bytes) (b : Nat) :
    tV (.mixed g g0 first rest gm m0 items gc) b =
      Tok.object (b + 1 + fcntFirst first + fcntF rest + 2 + fcntI items) true ::
        (tFirst first (b + 1) ++ (tF rest (b + 1 + fcntFirst first) ++
          (Tok.mixedContainer :: scalTok m0 :: (tI items (b + 1 + fcntFirst first + fcntF rest + 2) ++ [Tok.end b])))) := by
  simp [tV, tFirst, tF, tI, dtapeV, ofTT_object, ofTT_end, ofTT_scal, ofTT_mixed]
theorem tV_arrSM (g g0 : Bytes) (s0 : Scal) (pre : FVals) (gm : Bytes) (m0 : Scal) (go : Bytes) (o : TextTape.Op)
    (items : FItems) (gc : Bytes) (b : Nat) :
    tV (.arrSM g g0 s0 pre gm m0 go o items gc) b =
      Tok.array (b + 1 + 1 + fcntVs pre + 3 + fcntI items) true :: (scalTok s0 :: (tVs pre (b + 1 + 1) ++
        (Tok.mixedContainer :: scalTok m0 :: Tok.operator (opW o) ::
          (tI items (b + 1 + 1 + fcntVs pre + 3) ++ [Tok.end b])))) := by
  simp [tV, tVs, tI, dtapeV, ofTT_array, ofTT_end, ofTT_scal, ofTT_mixed, ofTT_operator]
theorem tV_arrCM (g : Bytes) (first : FVal) (pre : FVals) (gm : Bytes) (m0 : Scal) (go : Bytes) (o : TextTape.Op)
    (items : FItems) (gc : Bytes) (b : Nat) :
    tV (.arrCM g first pre gm m0 go o items gc) b =
      Tok.array (b + 1 + fcntV first + fcntVs pre + 3 + fcntI items) true :: (tV first (b + 1) ++
        (tVs pre (b + 1 + fcntV first) ++ (Tok.mixedContainer :: scalTok m0 :: Tok.operator (opW o) ::
          (tI items (b + 1 + fcntV first + fcntVs pre + 3) ++ [Tok.end b])))) := by
  simp [tV, tVs, tI, dtapeV, ofTT_array, ofTT_end, ofTT_scal, ofTT_mixed, ofTT_operator]

theorem tFirst_kv (k : Scal) (g1 : Bytes) (o : TextTape.Op) (v : FVal) (b : Nat) :
    tFirst (.kv k g1 o v) b = scalTok k :: (opToks o ++ tV v (b + 1 + o.toks.length)) := by
  simp [tFirst, tV, dtapeFirst, ofTT_scal, map_ofTT_toks]
theorem tFirst_flds (f : FFields) (b : Nat) : tFirst (.flds f) b = tF f b := by
  simp [tFirst, tF, dtapeFirst]

theorem tF_nil (b : Nat) : tF .nil b = [] := rfl
theorem tF_cons (g0 : Bytes) (k : Scal) (g1 : Bytes) (o : TextTape.Op) (v : FVal) (rest : FFields) (b : Nat) :
    tF (.cons g0 k g1 o v rest) b = scalTok k :: (opToks o ++ (tV v (b + 1 + o.toks.length) ++
      tF rest (b + (1 + o.toks.length + fcntV v)))) := by
  simp [tF, tV, dtapeF, ofTT_scal, map_ofTT_toks]
theorem tF_consImp (g0 : Bytes) (k : Scal) (v : FVal) (rest : FFields) (b : Nat) :
    tF (.consImp g0 k v rest) b = scalTok k :: (tV v (b + 1) ++ tF rest (b + (1 + fcntV v))) := by
  simp [tF, tV, dtapeF, ofTT_scal]
theorem tF_ghost (g gc : Bytes) (rest : FFields) (b : Nat) : tF (.ghost g gc rest) b = tF rest b := by
  simp [tF, dtapeF]
theorem tF_consHdr (g0 : Bytes) (k : Scal) (g1 : Bytes) (o : TextTape.Op) (gh : Bytes) (h : Scal) (body : FVal)
    (rest : FFields) (b : Nat) :
    tF (.consHdr g0 k g1 o gh h body rest) b = scalTok k :: (opToks o ++ (Tok.header h.bytes ::
      (tV body (b + 1 + o.toks.length + 1) ++ tF rest (b + (1 + o.toks.length + (1 + fcntV body)))))) := by
  simp [tF, tV, dtapeF, ofTT_scal, map_ofTT_toks, ofTT_header]
theorem tF_paramVal (g0 : Bytes) (isU : Bool) (name g1 : Bytes) (val : Scal) (g2 : Bytes) (rest : FFields) (b : Nat) :
    tF (.paramVal g0 isU name g1 val g2 rest) b = ptok isU name :: (Tok.unquoted val.bytes :: tF rest (b + 2)) := by
  simp [tF, dtapeF, ofTT_paramTok, ofTT_unq]
theorem tF_paramObj (g0 : Bytes) (isU : Bool) (name g1 : Bytes) (k : Scal) (g2 : Bytes) (o : TextTape.Op) (v : FVal)
    (inner : FFields) (gc : Bytes) (rest : FFields) (b : Nat) :
    tF (.paramObj g0 isU name g1 k g2 o v inner gc rest) b =
      ptok isU name :: (Tok.object (b + 2 + (1 + o.toks.length + fcntV v) + fcntF inner) false ::
        (Tok.unquoted k.bytes :: (opToks o ++ (tV v (b + 3 + o.toks.length) ++
          (tF inner (b + 2 + (1 + o.toks.length + fcntV v)) ++
            (Tok.end (b + 1) :: tF rest (b + (3 + (1 + o.toks.length + fcntV v) + fcntF inner)))))))) := by
  simp [tF, tV, dtapeF, ofTT_paramTok, ofTT_unq, ofTT_object, ofTT_end, map_ofTT_toks]
theorem tF_paramHdr (g0 : Bytes) (isU : Bool) (name g1 : Bytes) (val : Scal) (g2 : Bytes) (body : FVal)
    (rest : FFields) (b : Nat) :
    tF (.paramHdr g0 isU name g1 val g2 body rest) b =
      ptok isU name :: (Tok.header val.bytes :: (tV body (b + 2) ++ tF rest (b + (2 + fcntV body)))) := by
  simp [tF, tV, dtapeF, ofTT_paramTok, ofTT_header]

theorem tVs_nil (b : Nat) : tVs .nil b = [] := rfl
theorem tVs_cons (v : FVal) (rest : FVals) (b : Nat) : tVs (.cons v rest) b = tV v b ++ tVs rest (b + fcntV v) := by
  simp [tVs, tV, dtapeVs]

theorem tI_nil (b : Nat) : tI .nil b = [] := rfl
theorem tI_scal (g : Bytes) (x : Scal) (rest : FItems) (b : Nat) :
    tI (.scal g x rest) b = scalTok x :: tI rest (b + 1) := by
  simp [tI, dtapeI, ofTT_scal]
theorem tI_op (g : Bytes) (o : TextTape.Op) (rest : FItems) (b : Nat) :
    tI (.op g o rest) b = Tok.operator (opW o) :: tI rest (b + 1) := by
  simp [tI, dtapeI, ofTT_operator]
theorem tI_cont (v : FVal) (rest : FItems) (b : Nat) : tI (.cont v rest) b = tV v b ++ tI rest (b + fcntV v) := by
  simp [tI, tV, dtapeI]

/-- the first token of a value is no operator, and every `next_idx*` jumps over the whole value -/
theorem tV_first : ∀ (v : FVal) (b : Nat), ∃ t tl, tV v b = t :: tl ∧ (∀ x, t ≠ Tok.operator x) ∧
    (∀ (toks : List Tok), toks[b]? = some t →
      (∀ n, nextIdx toks (n + 1) b = .ok (b + fcntV v)) ∧
      nextIdxValues toks b = .ok (b + fcntV v) ∧
      nextIdxHeader toks b = .ok (b + fcntV v))
  | .scal g x, b => by
    refine ⟨scalTok x, [], tV_scal g x b, ?_, ?_⟩
    · intro y; unfold scalTok; split <;> simp
    · intro toks h
      exact ⟨fun n => by rw [nextIdx_scal toks n b x h]; simp [fcntV],
        by rw [nextIdxValues_scal toks b x h]; simp [fcntV],
        by rw [nextIdxHeader_scal toks b x h]; simp [fcntV]⟩
  | .empty g gc, b => by
    refine ⟨_, _, tV_empty g gc b, by simp, ?_⟩
    intro toks h
    exact ⟨fun n => by rw [nextIdx_array toks n b _ _ h]; simp [fcntV],
      by rw [nextIdxValues_array toks b _ _ h]; simp [fcntV],
      by rw [nextIdxHeader_array toks b _ _ h]; simp [fcntV]⟩
  | .obj g g0 first rest gc, b => by
    refine ⟨_, _, tV_obj g g0 first rest gc b, by simp, ?_⟩
    intro toks h
    exact ⟨fun n => by rw [nextIdx_object toks n b _ _ h]; simp [fcntV]; omega,
      by rw [nextIdxValues_object toks b _ _ h]; simp [fcntV]; omega,
      by rw [nextIdxHeader_object toks b _ _ h]; simp [fcntV]; omega⟩
  | .arrS g g0 s0 rest gc, b => by
    refine ⟨_, _, tV_arrS g g0 s0 rest gc b, by simp, ?_⟩
    intro toks h
    exact ⟨fun n => by rw [nextIdx_array toks n b _ _ h]; simp [fcntV]; omega,
      by rw [nextIdxValues_array toks b _ _ h]; simp [fcntV]; omega,
      by rw [nextIdxHeader_array toks b _ _ h]; simp [fcntV]; omega⟩
  | .arrC g first rest gc, b => by
    refine ⟨_, _, tV_arrC g first rest gc b, by simp, ?_⟩
    intro toks h
    exact ⟨fun n => by rw [nextIdx_array toks n b _ _ h]; simp [fcntV]; omega,
      by rw [nextIdxValues_array toks b _ _ h]; simp [fcntV]; omega,
      by rw [nextIdxHeader_array toks b _ _ h]; simp [fcntV]; omega⟩
  | .ghostIn g b1 b2 v, b => by
    obtain ⟨t, tl, h1, h2, h3⟩ := tV_first v b
    exact ⟨t, tl, by rw [tV_ghostIn, h1], h2, by simpa [fcntV] using h3⟩
  | .mixed g g0 first rest gm m0 items gc, b => by
    refine ⟨_, _, tV_mixed g g0 first rest gm m0 items gc b, by simp, ?_⟩
    intro toks h
    exact ⟨fun n => by rw [nextIdx_object toks n b _ _ h]; simp [fcntV]; omega,
      by rw [nextIdxValues_object toks b _ _ h]; simp [fcntV]; omega,
      by rw [nextIdxHeader_object toks b _ _ h]; simp [fcntV]; omega⟩
  | .arrSM g g0 s0 pre gm m0 go o items gc, b => by
    refine ⟨_, _, tV_arrSM g g0 s0 pre gm m0 go o items gc b, by simp, ?_⟩
    intro toks h
    exact ⟨fun n => by rw [nextIdx_array toks n b _ _ h]; simp [fcntV]; omega,
      by rw [nextIdxValues_array toks b _ _ h]; simp [fcntV]; omega,
      by rw [nextIdxHeader_array toks b _ _ h]; simp [fcntV]; omega⟩
  | .arrCM g first pre gm m0 go o items gc, b => by
    refine ⟨_, _, tV_arrCM g first pre gm m0 go o items gc b, by simp, ?_⟩
    intro toks h
    exact ⟨fun n => by rw [nextIdx_array toks n b _ _ h]; simp [fcntV]; omega,
      by rw [nextIdxValues_array toks b _ _ h]; simp [fcntV]; omega,
      by rw [nextIdxHeader_array toks b _ _ h]; simp [fcntV]; omega⟩

theorem fcntV_pos (v : FVal) : 1 ≤ fcntV v := by
  obtain ⟨t, tl, h, _⟩ := tV_first v 0
  rw [← len_tV v 0, h]; simp

/-! ### unfolding the walk -/

theorem bindE_ok (s : State) (B : State → Except WErr State) : bindE (.ok s) B = B s := rfl

/-- one iteration of the `write_object_core` loop: a scalar key, possibly an operator token, the value -/
theorem core_field (toks : List Tok) (L i e nx : Nat) (s : State) (k : Scal) (o : TextTape.Op) (t : Tok) (hi : i < e)
    (h0 : toks[i]? = some (scalTok k))
    (h1 : o = .eq → toks[i + 1]? = some t)
    (h2 : o ≠ .eq → toks[i + 1]? = some (.operator (opW o)))
    (hno : ∀ x, t ≠ .operator x)
    (hn : nextIdx toks (toks.length + 1) (i + 1 + o.toks.length) = .ok nx) :
    writeObjectCore toks (L + 1) i e s =
      bindE (writeValue toks L (i + 1 + o.toks.length) (opK o (wr s k.text)))
        (fun s2 => writeObjectCore toks L nx e s2) := by
  have hnl : ¬ (i ≥ e) := by omega
  have hwr := wr_eq s k.text
  conv => lhs; unfold writeObjectCore
  by_cases ho : o = .eq
  · subst ho
    have h1' := h1 rfl
    simp only [TextTape.Op.toks, List.length_nil, Nat.add_zero] at hn ⊢
    simp only [hnl, if_false, h0, h1']
    unfold scalTok at *
    by_cases hk : k.quoted = true <;>
      simp only [hk, if_true, if_false, Bool.false_eq_true] at h0 ⊢ <;>
      cases t <;> (try exact absurd rfl (hno _)) <;>
      simp only [hn, writeEscapedQuotes, writeUnquoted, writeRaw, Scal.text, hk, if_true, if_false,
        Bool.false_eq_true, List.cons_append, List.nil_append] at hwr ⊢ <;>
      simp only [hwr, opK, if_true, bindE] <;> rfl
  · have h2' := h2 ho
    have hlen : o.toks.length = 1 := by cases o <;> first | rfl | exact absurd rfl ho
    rw [hlen] at hn ⊢
    simp only [hnl, if_false, h0, h2']
    unfold scalTok at *
    by_cases hk : k.quoted = true <;>
      simp only [hk, if_true, if_false, Bool.false_eq_true] at h0 ⊢ <;>
      simp only [hn, writeEscapedQuotes, writeUnquoted, writeRaw, Scal.text, hk, if_true, if_false,
        Bool.false_eq_true, List.cons_append, List.nil_append] at hwr ⊢ <;>
      simp only [hwr, opK, ho, if_false, bindE] <;> rfl

/-- the loop is over -/
theorem core_done (toks : List Tok) (L i e : Nat) (s : State) (h : i ≥ e) :
    writeObjectCore toks (L + 1) i e s = .ok s := by
  unfold writeObjectCore; simp [h]

/-- `FieldsIter` stops at a `MixedContainer` token -/
theorem core_mixed (toks : List Tok) (L i e : Nat) (s : State) (hi : i < e)
    (h0 : toks[i]? = some .mixedContainer) : writeObjectCore toks (L + 1) i e s = .ok s := by
  have hnl : ¬ (i ≥ e) := by omega
  unfold writeObjectCore; simp [hnl, h0]

/-- one iteration with a parameter key -/
theorem core_param (toks : List Tok) (L i e nx : Nat) (s : State) (isU : Bool) (name : Bytes) (t : Tok) (hi : i < e)
    (h0 : toks[i]? = some (ptok isU name)) (h1 : toks[i + 1]? = some t) (hno : ∀ x, t ≠ .operator x)
    (hn : nextIdx toks (toks.length + 1) (i + 1) = .ok nx) :
    writeObjectCore toks (L + 1) i e s =
      bindE (writeParam toks L (paramOpening isU) name (i + 1) s) (fun s2 => writeObjectCore toks L nx e s2) := by
  have hnl : ¬ (i ≥ e) := by omega
  conv => lhs; unfold writeObjectCore
  simp only [hnl, if_false, h0, h1]
  cases isU <;> simp only [ptok, if_true, if_false, Bool.false_eq_true] <;>
    cases t <;> (try exact absurd rfl (hno _)) <;>
    simp only [hn, paramOpening, if_true, if_false, Bool.false_eq_true] <;> rfl

theorem writeParam_obj (toks : List Tok) (L vi e : Nat) (m : Bool) (opening x : Bytes) (s : State)
    (h : toks[vi]? = some (.object e m)) :
    writeParam toks (L + 1) opening x vi s =
      bindE (writeObjectCore toks L (vi + 1) e (put (writePreamble s) (opening ++ x ++ [93, 10])))
        (fun s2 => .ok (closeP s2)) := by
  conv => lhs; unfold writeParam
  simp only [h]
  rfl

theorem writeParam_val (toks : List Tok) (L vi : Nat) (opening x : Bytes) (s : State) (t : Tok)
    (h : toks[vi]? = some t) (hno : ∀ e m, t ≠ .object e m) (hna : ∀ e m, t ≠ .array e m) :
    writeParam toks (L + 1) opening x vi s =
      bindE (writeValue toks L vi (put (writePreamble s) (opening ++ x ++ [93, 10])))
        (fun s2 => .ok (put s2 [93])) := by
  conv => lhs; unfold writeParam
  simp only [h]
  cases t <;> (try exact absurd rfl (hno _ _)) <;> (try exact absurd rfl (hna _ _)) <;> rfl

theorem writeValue_mixedTok (toks : List Tok) (L i : Nat) (s : State) (h : toks[i]? = some .mixedContainer) :
    writeValue toks (L + 1) i s = .ok (startMixedMode s) := by
  unfold writeValue; simp [h]

theorem writeValue_opTok (toks : List Tok) (L i : Nat) (s : State) (o : TextTape.Op)
    (h : toks[i]? = some (.operator (opW o))) : writeValue toks (L + 1) i s = .ok (opArm o s) := by
  unfold writeValue; simp [h, opArm]

theorem writeValue_unq (toks : List Tok) (L i : Nat) (s : State) (b : Bytes) (h : toks[i]? = some (.unquoted b)) :
    writeValue toks (L + 1) i s = .ok (wr s b) := by
  have : toks[i]? = some (scalTok ⟨false, b⟩) := by simpa [scalTok] using h
  rw [writeValue_scal toks L i s ⟨false, b⟩ this]
  simpa [Scal.text] using wr_eq s b

theorem nextIdxValues_mixedTok (toks : List Tok) (i : Nat) (h : toks[i]? = some .mixedContainer) :
    nextIdxValues toks i = .ok (i + 1) := by unfold nextIdxValues; simp [h]
theorem nextIdxValues_opTok (toks : List Tok) (i : Nat) (o : Writer.Op) (h : toks[i]? = some (.operator o)) :
    nextIdxValues toks i = .ok (i + 1) := by unfold nextIdxValues; simp [h]

/-- `writeValue_header` for an arbitrary amount of fuel -/
theorem writeValue_hdr (toks : List Tok) (L i nx y : Nat) (h : Bytes) (s : State)
    (h0 : toks[i]? = some (.header h)) (hn : nextIdx toks (toks.length + 1) (i + 1) = .ok nx)
    (hlt : i + 1 < nx) (hy : nextIdxValues toks (i + 1) = .ok y) :
    writeValue toks (L + 1) i s = writeValue toks L (i + 1) (writeHeader s h) := by
  conv => lhs; unfold writeValue
  have h1 : i < nx := by omega
  simp [h0, hn, hlt, h1, hy]

theorem writeValues_step' (toks : List Tok) (L i e nx : Nat) (s : State) (hlt : i < e)
    (hn : nextIdxValues toks i = .ok nx) :
    writeValues toks (L + 1) i e s = bindE (writeValue toks L i s) (fun s' => writeValues toks L nx e s') :=
  writeValues_step toks L i e nx s hlt hn

/-! ### fuel -/

def itF : FFields → Nat
  | .nil => 0
  | .cons _ _ _ _ _ rest => 1 + itF rest
  | .consImp _ _ _ rest => 1 + itF rest
  | .ghost _ _ rest => itF rest
  | .consHdr _ _ _ _ _ _ _ rest => 1 + itF rest
  | .paramVal _ _ _ _ _ _ rest => 1 + itF rest
  | .paramObj _ _ _ _ _ _ _ _ _ _ rest => 1 + itF rest
  | .paramHdr _ _ _ _ _ _ _ rest => 1 + itF rest

def itFirst : FFirst → Nat
  | .kv .. => 1
  | .flds f => itF f

def itVs : FVals → Nat
  | .nil => 0
  | .cons _ rest => 1 + itVs rest

def itI : FItems → Nat
  | .nil => 0
  | .scal _ _ rest => 1 + itI rest
  | .op _ _ rest => 1 + itI rest
  | .cont _ rest => 1 + itI rest

mutual
/-- fuel the walk over a value needs -/
def ndV : FVal → Nat
  | .scal .. => 1
  | .empty .. => 2
  | .obj _ _ first rest _ => 2 + itFirst first + itF rest + ndFirst first + ndF rest
  | .arrS _ _ _ rest _ => 3 + itVs rest + ndVs rest
  | .arrC _ first rest _ => 2 + itVs rest + ndV first + ndVs rest
  | .ghostIn _ _ _ v => ndV v
  | .mixed _ _ first rest _ _ _ _ => 2 + itFirst first + itF rest + ndFirst first + ndF rest
  | .arrSM _ _ _ pre _ _ _ _ items _ => 6 + itVs pre + itI items + ndVs pre + ndI items
  | .arrCM _ first pre _ _ _ _ items _ => 5 + itVs pre + itI items + ndV first + ndVs pre + ndI items
def ndFirst : FFirst → Nat
  | .kv _ _ _ v => ndV v
  | .flds f => ndF f
def ndF : FFields → Nat
  | .nil => 1
  | .cons _ _ _ _ v rest => ndV v + ndF rest
  | .consImp _ _ v rest => ndV v + ndF rest
  | .ghost _ _ rest => ndF rest
  | .consHdr _ _ _ _ _ _ body rest => 1 + ndV body + ndF rest
  | .paramVal _ _ _ _ _ _ rest => 2 + ndF rest
  | .paramObj _ _ _ _ _ _ _ v inner _ rest => 2 + itF inner + ndV v + ndF inner + ndF rest
  | .paramHdr _ _ _ _ _ _ body rest => 2 + ndV body + ndF rest
def ndVs : FVals → Nat
  | .nil => 1
  | .cons v rest => ndV v + ndVs rest
def ndI : FItems → Nat
  | .nil => 1
  | .scal _ _ rest => 1 + ndI rest
  | .op _ _ rest => 1 + ndI rest
  | .cont v rest => ndV v + ndI rest
end

theorem ndF_pos : ∀ fs : FFields, 1 ≤ ndF fs
  | .nil => by simp [ndF]
  | .cons _ _ _ _ _ rest => by have := ndF_pos rest; simp only [ndF]; omega
  | .consImp _ _ _ rest => by have := ndF_pos rest; simp only [ndF]; omega
  | .ghost _ _ rest => by have := ndF_pos rest; simp only [ndF]; omega
  | .consHdr _ _ _ _ _ _ _ rest => by simp only [ndF]; omega
  | .paramVal _ _ _ _ _ _ rest => by simp only [ndF]; omega
  | .paramObj _ _ _ _ _ _ _ _ _ _ rest => by simp only [ndF]; omega
  | .paramHdr _ _ _ _ _ _ _ rest => by simp only [ndF]; omega

theorem ndVs_pos : ∀ vs : FVals, 1 ≤ ndVs vs
  | .nil => by simp [ndVs]
  | .cons _ rest => by have := ndVs_pos rest; simp only [ndVs]; omega

theorem ndI_pos : ∀ is : FItems, 1 ≤ ndI is
  | .nil => by simp [ndI]
  | .scal _ _ rest => by simp only [ndI]; omega
  | .op _ _ rest => by simp only [ndI]; omega
  | .cont _ rest => by have := ndI_pos rest; simp only [ndI]; omega

/-! ### list bookkeeping -/

theorem at_pre (pre R : List Tok) (t : Tok) (tl : List Tok) (h : R = t :: tl) : (pre ++ R)[pre.length]? = some t := by
  subst h; simp

theorem at_idx (pre R : List Tok) (n : Nat) (t : Tok) (tl : List Tok) (hn : n = pre.length) (h : R = t :: tl) :
    (pre ++ R)[n]? = some t := by
  subst hn; subst h; simp

theorem key_at (pre : List Tok) (x : Tok) (R : List Tok) : (pre ++ (x :: R))[pre.length]? = some x := by simp

theorem after_key_eq (pre : List Tok) (x t : Tok) (tl : List Tok) :
    (pre ++ (x :: (opToks .eq ++ t :: tl)))[pre.length + 1]? = some t := by
  simp [opToks]

theorem after_key_ne (pre : List Tok) (x : Tok) (o : TextTape.Op) (ho : o ≠ .eq) (R : List Tok) :
    (pre ++ (x :: (opToks o ++ R)))[pre.length + 1]? = some (.operator (opW o)) := by
  simp [opToks, ho]

theorem len_field_pre (pre : List Tok) (x : Tok) (o : TextTape.Op) :
    (pre ++ (x :: opToks o)).length = pre.length + 1 + o.toks.length := by
  simp [len_opToks]; omega

end Jomini.Writer
