import JominiModel.Model.BinReader
import JominiModel.Spec.BinReader
import JominiModel.Proofs.BinLexer
import JominiModel.Proofs.Buffer
/-
The streaming reader against the slice lexer: one-call specification of `next`
(`next_spec`), from which C08_stream_eq_lexer / C20_bin_reader follow.
-/
namespace Jomini.BinReader
open Jomini Jomini.BinLexer

/-- reader invariant relative to the whole input `data` -/
structure RInv (rd : Reader) (data : Bytes) : Prop where
  buf : Buf.Inv rd.buf rd.src data
  wf : Src.WfSched rd.src.sched
  /-- slice mode (and only slice mode) has a zero-capacity buffer: nothing left to deliver -/
  slice : rd.buf.cap = 0 → rd.src.rest = []
  /-- builder mode: everything delivered is either consumed or in the window -/
  deliv : 0 < rd.buf.cap → rd.src.delivered = rd.position + rd.buf.windowLen

/-- the bytes the lexer would still see -/
def Reader.remaining (rd : Reader) (data : Bytes) : Bytes := data.drop rd.position

/-- what one `next` call may return, relative to the slice lexer at the same offset -/
def NextPost (data : Bytes) (rd : Reader) (res : Except ReaderError (Option Token)) (rd' : Reader) : Prop :=
  match res with
  | .ok (some t) => ∃ r, readToken (rd.remaining data) = .ok (t, r) ∧ rd'.remaining data = r
  | .ok none => rd.remaining data = [] ∧ rd'.src.rest = [] ∧ rd'.position = rd.position
  | .error e =>
    e.position = rd'.position ∧ rd'.position = rd.position ∧
    (match e.kind with
     | .lexer .eof => readToken (rd.remaining data) = .error .eof ∧ rd.remaining data ≠ [] ∧ rd'.src.rest = []
     | .lexer .invalidRgb => readToken (rd.remaining data) = .error .invalidRgb
     | .read => True
     | .bufferFull => False
     | .ub => False
     | .fuel => False)

theorem remaining_eq {rd : Reader} {data : Bytes} (h : RInv rd data) :
    rd.remaining data = rd.buf.window ++ rd.src.rest := h.buf.view.symm

theorem next_spec (data : Bytes) (fuel : Nat) (rd : Reader) (h : RInv rd data)
    (hfit : rd.buf.cap = 0 ∨ FitsAt rd.buf.cap (rd.remaining data))
    (hfuel : rd.src.rest.length < fuel) :
    RInv (Reader.next fuel rd).2 data ∧ (Reader.next fuel rd).2.buf.cap = rd.buf.cap ∧
    NextPost data rd (Reader.next fuel rd).1 (Reader.next fuel rd).2 := by
  induction fuel generalizing rd with
  | zero => omega
  | succ fuel ih =>
    have hrem := remaining_eq h
    have hwl : rd.buf.window.length = rd.buf.windowLen := Buf.window_length h.buf.se h.buf.em
    unfold Reader.next
    cases hrt : readToken rd.buf.window with
    | ok v =>
      obtain ⟨tok, newData⟩ := v
      simp only
      obtain ⟨pre, hpre, _⟩ := readToken_consumes _ _ _ hrt
      have hlen : rd.buf.windowLen - newData.length = pre.length := by
        rw [← hwl, hpre]; simp
      have hle : pre.length ≤ rd.buf.windowLen := by rw [← hwl, hpre]; simp
      obtain ⟨b', hadv, hinv', hwin', hpos', hcap', hwl'⟩ :=
        Buf.advance_refines rd.buf rd.src data h.buf pre.length hle
      simp only [Reader.advanceTo, hlen, hadv]
      refine ⟨⟨hinv', h.wf, fun hc => h.slice (by rw [← hcap']; exact hc), fun hc => ?_⟩, hcap', ?_⟩
      · have := h.deliv (by rw [← hcap']; exact hc)
        simp only [Reader.position] at *
        rw [this, hpos', hwl']; omega
      · simp only [NextPost]
        refine ⟨newData ++ rd.src.rest, ?_, ?_⟩
        · rw [hrem]; exact readToken_stable.ok _ _ _ _ hrt
        · have hv := hinv'.view
          simp only [Reader.remaining, Reader.position]
          rw [← hv, hwin', hpre]; simp
    | error e =>
      cases e with
      | invalidRgb =>
        simp only
        refine ⟨h, trivial, ?_⟩
        simp only [NextPost, Reader.lexError]
        refine ⟨trivial, trivial, ?_⟩
        rw [hrem]; exact readToken_stable.rgb _ _ hrt
      | eof =>
        simp only
        rcases Buf.fillBuf_cases rd.buf rd.src data h.buf h.wf with
          ⟨hc0, hfb⟩ | ⟨hcpos, hfull, hfb⟩ | ⟨hcpos, hlt, n, b', src', hfb, hinv', hpos', hcap', hwin', hwl', hrest', hn, hdel', hwf', hz⟩ |
          ⟨hcpos, hlt, b', src', hfb, hinv', hpos', hcap', hwin', hwl', hrest', hdel', hwf'⟩
        · -- slice mode
          have hs := h.slice hc0
          rw [hfb]
          simp only [if_true]
          by_cases hw0 : rd.buf.windowLen = 0
          · rw [if_pos hw0]
            refine ⟨h, rfl, ?_⟩
            simp only [NextPost]
            refine ⟨?_, hs, trivial⟩
            rw [hrem, hs, List.append_nil]
            exact List.eq_nil_of_length_eq_zero (by rw [hwl]; exact hw0)
          · rw [if_neg hw0]
            refine ⟨h, rfl, ?_⟩
            simp only [NextPost, Reader.lexError]
            refine ⟨trivial, trivial, ?_, ?_, hs⟩
            · rw [hrem, hs, List.append_nil]; exact hrt
            · rw [hrem, hs, List.append_nil]
              intro hnil
              rw [hnil] at hwl
              simp at hwl
              omega
        · -- BufferFull is excluded by the fit hypothesis
          exfalso
          rcases hfit with hc | hfit
          · omega
          · have := hfit rd.buf.windowLen (by rw [hrem]; simp; omega)
              (by rw [hrem, ← hwl, List.take_left']; exact hrt; rfl)
            omega
        · -- the read delivered n bytes
          rw [hfb]
          simp only
          have hrd' : RInv { src := src', buf := b' } data := by
            refine ⟨hinv', hwf', fun hc => ?_, fun _ => ?_⟩
            · simp only at hc; omega
            · have := h.deliv hcpos
              simp only [Reader.position] at *
              rw [hdel', this, hpos', hwl']; omega
          by_cases hn0 : n = 0
          · rw [if_pos hn0]
            have hs := hz hn0
            have hs' : src'.rest = [] := by rw [hrest', hs]; simp
            subst hn0
            by_cases hw0 : b'.windowLen = 0
            · rw [if_pos hw0]
              refine ⟨hrd', hcap', ?_⟩
              simp only [NextPost, Reader.position]
              refine ⟨?_, hs', hpos'⟩
              rw [hrem, hs, List.append_nil]
              exact List.eq_nil_of_length_eq_zero (by rw [hwl]; omega)
            · rw [if_neg hw0]
              refine ⟨hrd', hcap', ?_⟩
              simp only [NextPost, Reader.lexError, Reader.position]
              refine ⟨trivial, hpos', ?_, ?_, hs'⟩
              · rw [hrem, hs, List.append_nil]; exact hrt
              · rw [hrem, hs, List.append_nil]
                intro hnil
                rw [hnil] at hwl
                simp at hwl
                omega
          · rw [if_neg hn0]
            have hposeq : ({ src := src', buf := b' } : Reader).position = rd.position := hpos'
            have hremeq : ({ src := src', buf := b' } : Reader).remaining data = rd.remaining data := by
              simp only [Reader.remaining, hposeq]
            have := ih { src := src', buf := b' } hrd'
              (by simp only; rw [hcap', hremeq]; exact hfit)
              (by simp only; rw [hrest', List.length_drop]; omega)
            obtain ⟨i1, i2, i3⟩ := this
            refine ⟨i1, by rw [i2]; exact hcap', ?_⟩
            revert i3
            generalize (Reader.next fuel { src := src', buf := b' }).1 = res
            generalize (Reader.next fuel { src := src', buf := b' }).2 = rd2
            intro i3
            unfold NextPost at *
            rw [hremeq, hposeq] at i3
            exact i3
        · -- the read failed
          rw [hfb]
          simp only
          have hrd' : RInv { src := src', buf := b' } data := by
            refine ⟨hinv', hwf', fun hc => ?_, fun _ => ?_⟩
            · simp only at hc; omega
            · have := h.deliv hcpos
              simp only [Reader.position] at *
              rw [hdel', this, hpos', hwl']
          refine ⟨hrd', hcap', ?_⟩
          simp only [NextPost, Reader.bufferError, Reader.position]
          exact ⟨trivial, hpos', trivial⟩

/-! ### the fuel-free lexer run -/

theorem lexLoop_lexes (fuel : Nat) (d : Bytes) (hf : d.length / 2 < fuel) :
    Lexes d (lexLoop fuel d).1 (lexLoop fuel d).2.1 (lexLoop fuel d).2.2 := by
  induction fuel generalizing d with
  | zero => omega
  | succ fuel ih =>
    unfold lexLoop
    cases hrt : readToken d with
    | ok v =>
      obtain ⟨t, r⟩ := v
      obtain ⟨pre, hpre, hlen⟩ := readToken_consumes _ _ _ hrt
      have hr : r.length / 2 < fuel := by
        have : d.length = pre.length + r.length := by rw [hpre]; simp
        omega
      exact Lexes.tok hrt (ih r hr)
    | error e =>
      cases e with
      | eof =>
        simp only
        by_cases hd : d.isEmpty = true
        · rw [if_pos hd]
          have : d = [] := by simpa using hd
          subst this
          exact Lexes.done
        · rw [if_neg hd]
          exact Lexes.eof hrt (by simpa using hd)
      | invalidRgb => exact Lexes.rgb hrt

theorem lexAll_lexes (d : Bytes) : Lexes d (lexAll d).1 (lexAll d).2.1 (lexAll d).2.2 :=
  lexLoop_lexes _ d (by omega)

theorem Lexes.det {d : Bytes} {ts ts' : List Token} {term term' : Terminal} {left left' : Bytes}
    (h : Lexes d ts term left) (h' : Lexes d ts' term' left') : ts = ts' ∧ term = term' ∧ left = left' := by
  induction h generalizing ts' term' left' with
  | tok hrt _ ih =>
    cases h' with
    | tok hrt' hl' =>
      rw [hrt] at hrt'
      simp only [Except.ok.injEq, Prod.mk.injEq] at hrt'
      obtain ⟨rfl, rfl⟩ := hrt'
      obtain ⟨a, b, c⟩ := ih hl'
      exact ⟨by rw [a], b, c⟩
    | done => simp [readToken_nil] at hrt
    | eof hrt' _ => rw [hrt] at hrt'; simp at hrt'
    | rgb hrt' => rw [hrt] at hrt'; simp at hrt'
  | done =>
    cases h' with
    | tok hrt' _ => simp [readToken_nil] at hrt'
    | done => exact ⟨rfl, rfl, rfl⟩
    | eof _ hne => exact absurd rfl hne
    | rgb hrt' => simp [readToken_nil] at hrt'
  | eof hrt hne =>
    cases h' with
    | tok hrt' _ => rw [hrt] at hrt'; simp at hrt'
    | done => exact absurd rfl hne
    | eof _ _ => exact ⟨rfl, rfl, rfl⟩
    | rgb hrt' => rw [hrt] at hrt'; simp at hrt'
  | rgb hrt =>
    cases h' with
    | tok hrt' _ => rw [hrt] at hrt'; simp at hrt'
    | done => simp [readToken_nil] at hrt
    | eof hrt' _ => rw [hrt] at hrt'; simp at hrt'
    | rgb _ => exact ⟨rfl, rfl, rfl⟩

/-! ### the call sequence `next, next, …` (with faults): C20 -/

theorem fits_tail {cap : Nat} {d r : Bytes} {t : Token} (h : Fits cap d) (hrt : readToken d = .ok (t, r)) :
    Fits cap r := by
  cases h with
  | mk _ _ tail => exact tail t r hrt

theorem fits_head {cap : Nat} {d : Bytes} (h : Fits cap d) : FitsAt cap d := by
  cases h with
  | mk _ head _ => exact head

/-- every prefix of the call sequence agrees with the slice lexer; the invariant (hence
`position ≤ delivered`) holds after every call -/
theorem calls_agree (data : Bytes) (n : Nat) (rd : Reader) (h : RInv rd data)
    (hfit : rd.buf.cap = 0 ∨ Fits rd.buf.cap (rd.remaining data)) :
    Agrees (rd.remaining data) (Reader.calls n rd).1 ∧ RInv (Reader.calls n rd).2 data ∧
      (Reader.calls n rd).2.buf.cap = rd.buf.cap := by
  induction n generalizing rd with
  | zero => exact ⟨trivial, h, rfl⟩
  | succ n ih =>
    have hfit1 : rd.buf.cap = 0 ∨ FitsAt rd.buf.cap (rd.remaining data) := by
      rcases hfit with h0 | hf
      · exact Or.inl h0
      · exact Or.inr (fits_head hf)
    obtain ⟨i1, i2, i3⟩ := next_spec data rd.fuelFor rd h hfit1 (by simp [Reader.fuelFor])
    unfold Reader.calls
    revert i1 i2 i3
    generalize Reader.next rd.fuelFor rd = out
    obtain ⟨res, rd'⟩ := out
    intro i1 i2 i3
    simp only at i1 i2 i3
    cases res with
    | ok o =>
      cases o with
      | some t =>
        simp only [NextPost] at i3
        obtain ⟨r, hr1, hr2⟩ := i3
        have hfit' : rd'.buf.cap = 0 ∨ Fits rd'.buf.cap (rd'.remaining data) := by
          rw [i2, hr2]
          rcases hfit with h0 | hf
          · exact Or.inl h0
          · exact Or.inr (fits_tail hf hr1)
        obtain ⟨j1, j2, j3⟩ := ih rd' i1 hfit'
        simp only
        refine ⟨?_, j2, by rw [j3, i2]⟩
        simp only [Agrees]
        exact ⟨r, hr1, by rw [← hr2]; exact j1⟩
      | none =>
        simp only [NextPost] at i3
        obtain ⟨hr1, _, hr3⟩ := i3
        have hrem : rd'.remaining data = rd.remaining data := by simp only [Reader.remaining, hr3]
        have hfit' : rd'.buf.cap = 0 ∨ Fits rd'.buf.cap (rd'.remaining data) := by
          rw [i2, hrem]; exact hfit
        obtain ⟨j1, j2, j3⟩ := ih rd' i1 hfit'
        simp only
        refine ⟨?_, j2, by rw [j3, i2]⟩
        simp only [Agrees]
        exact ⟨hr1, by rw [← hrem]; exact j1⟩
    | error e =>
      simp only [NextPost] at i3
      obtain ⟨_, hp, hk⟩ := i3
      have hrem : rd'.remaining data = rd.remaining data := by simp only [Reader.remaining, hp]
      have hfit' : rd'.buf.cap = 0 ∨ Fits rd'.buf.cap (rd'.remaining data) := by
        rw [i2, hrem]; exact hfit
      obtain ⟨j1, j2, j3⟩ := ih rd' i1 hfit'
      simp only
      refine ⟨?_, j2, by rw [j3, i2]⟩
      rw [hrem] at j1
      obtain ⟨pos, kind⟩ := e
      cases kind with
      | lexer le =>
        cases le with
        | eof => simp only at hk; simp only [Agrees]; exact ⟨hk.1, hk.2.1, j1⟩
        | invalidRgb => simp only at hk; simp only [Agrees]; exact ⟨hk, j1⟩
      | read => simp only [Agrees]; exact j1
      | bufferFull => simp only at hk
      | ub => simp only at hk
      | fuel => simp only at hk

/-- a log that agrees with the lexer returns, in order, a prefix of the lexer's tokens; a
clean end or a lexer error is reported only after all of them, and is the lexer's own
terminal outcome -/
theorem agrees_prefix {d : Bytes} {cs : List Call} {ts : List Token} {term : Terminal} {left : Bytes}
    (ha : Agrees d cs) (hl : Lexes d ts term left) :
    callToks cs <+: ts ∧
    (.done ∈ cs → callToks cs = ts ∧ term = .done) ∧
    (∀ e, .err (.lexer e) ∈ cs → callToks cs = ts ∧ term = .err e) := by
  induction cs generalizing d ts with
  | nil => exact ⟨List.nil_prefix, by simp, by simp⟩
  | cons c cs ih =>
    cases c with
    | tok t =>
      simp only [Agrees] at ha
      obtain ⟨r, hrt, har⟩ := ha
      cases hl with
      | tok hrt' hl' =>
        rw [hrt] at hrt'
        simp only [Except.ok.injEq, Prod.mk.injEq] at hrt'
        obtain ⟨rfl, rfl⟩ := hrt'
        obtain ⟨k1, k2, k3⟩ := ih har hl'
        refine ⟨by simpa [callToks] using k1, ?_, ?_⟩
        · intro hm
          simp only [List.mem_cons, reduceCtorEq, false_or] at hm
          obtain ⟨a, b⟩ := k2 hm
          exact ⟨by simp [callToks, a], b⟩
        · intro e hm
          simp only [List.mem_cons, reduceCtorEq, false_or] at hm
          obtain ⟨a, b⟩ := k3 e hm
          exact ⟨by simp [callToks, a], b⟩
      | done => simp [readToken_nil] at hrt
      | eof hrt' _ => rw [hrt] at hrt'; simp at hrt'
      | rgb hrt' => rw [hrt] at hrt'; simp at hrt'
    | done =>
      simp only [Agrees] at ha
      obtain ⟨hd, har⟩ := ha
      subst hd
      obtain ⟨k1, k2, k3⟩ := ih har hl
      have hts : ts = [] ∧ term = .done := by
        cases hl with
        | tok hrt' _ => simp [readToken_nil] at hrt'
        | done => exact ⟨rfl, rfl⟩
        | eof _ hne => exact absurd rfl hne
        | rgb hrt' => simp [readToken_nil] at hrt'
      obtain ⟨rfl, rfl⟩ := hts
      have hnil : callToks cs = [] := by simpa using k1
      refine ⟨by simpa [callToks] using k1, fun _ => ⟨by simp [callToks, hnil], rfl⟩, ?_⟩
      intro e hm
      simp only [List.mem_cons, reduceCtorEq, false_or] at hm
      exact ⟨by simp [callToks, hnil], (k3 e hm).2⟩
    | err k =>
      cases k with
      | lexer le =>
        cases le with
        | eof =>
          simp only [Agrees] at ha
          obtain ⟨hrt, hne, har⟩ := ha
          obtain ⟨k1, k2, k3⟩ := ih har hl
          have hts : ts = [] ∧ term = .err .eof := by
            cases hl with
            | tok hrt' _ => rw [hrt] at hrt'; simp at hrt'
            | done => exact absurd rfl hne
            | eof _ _ => exact ⟨rfl, rfl⟩
            | rgb hrt' => rw [hrt] at hrt'; simp at hrt'
          obtain ⟨rfl, rfl⟩ := hts
          have hnil : callToks cs = [] := by simpa using k1
          refine ⟨by simpa [callToks] using k1, ?_, ?_⟩
          · intro hm
            simp only [List.mem_cons, reduceCtorEq, false_or] at hm
            exact ⟨by simp [callToks, hnil], (k2 hm).2⟩
          · intro e hm
            simp only [List.mem_cons, Call.err.injEq, RErrKind.lexer.injEq] at hm
            rcases hm with hm | hm
            · exact ⟨by simp [callToks, hnil], by rw [← hm]⟩
            · exact ⟨by simp [callToks, hnil], (k3 e hm).2⟩
        | invalidRgb =>
          simp only [Agrees] at ha
          obtain ⟨hrt, har⟩ := ha
          obtain ⟨k1, k2, k3⟩ := ih har hl
          have hts : ts = [] ∧ term = .err .invalidRgb := by
            cases hl with
            | tok hrt' _ => rw [hrt] at hrt'; simp at hrt'
            | done => simp [readToken_nil] at hrt
            | eof hrt' _ => rw [hrt] at hrt'; simp at hrt'
            | rgb _ => exact ⟨rfl, rfl⟩
          obtain ⟨rfl, rfl⟩ := hts
          have hnil : callToks cs = [] := by simpa using k1
          refine ⟨by simpa [callToks] using k1, ?_, ?_⟩
          · intro hm
            simp only [List.mem_cons, reduceCtorEq, false_or] at hm
            exact ⟨by simp [callToks, hnil], (k2 hm).2⟩
          · intro e hm
            simp only [List.mem_cons, Call.err.injEq, RErrKind.lexer.injEq] at hm
            rcases hm with hm | hm
            · exact ⟨by simp [callToks, hnil], by rw [← hm]⟩
            · exact ⟨by simp [callToks, hnil], (k3 e hm).2⟩
      | read =>
        simp only [Agrees] at ha
        obtain ⟨k1, k2, k3⟩ := ih ha hl
        refine ⟨by simpa [callToks] using k1, ?_, ?_⟩
        · intro hm
          simp only [List.mem_cons, reduceCtorEq, false_or] at hm
          simpa [callToks] using k2 hm
        · intro e hm
          simp only [List.mem_cons, Call.err.injEq, reduceCtorEq, false_or] at hm
          simpa [callToks] using k3 e hm
      | bufferFull => simp [Agrees] at ha
      | ub => simp [Agrees] at ha
      | fuel => simp [Agrees] at ha

end Jomini.BinReader
