import JominiModel.Model.BinReader
import JominiModel.Spec.BinReader
import JominiModel.Proofs.BinLexer
import JominiModel.Proofs.Buffer
/-
The streaming reader against the slice lexer: one-call specification of `next`
(`next_spec`), from which C08_stream_eq_lexer / C20_bin_reader follow.
-/
namespace Jomini.BinReader
open Jomini Jomini.BinLexer

/-- reader invariant relative to the whole input `data` -/
structure RInv (rd : Reader) (data : Bytes) : Prop where
  buf : Buf.Inv rd.buf rd.src data
  wf : Src.WfSched rd.src.sched
  /-- slice mode (and only slice mode) has a zero-capacity buffer: nothing left to deliver -/
  slice : rd.buf.cap = 0 → rd.src.rest = []
  /-- builder mode: everything delivered is either consumed or in the window -/
  deliv : 0 < rd.buf.cap → rd.src.delivered = rd.position + rd.buf.windowLen
  ple : rd.position ≤ data.length

/-- the bytes the lexer would still see -/
def Reader.remaining (rd : Reader) (data : Bytes) : Bytes := data.drop rd.position

/-- what one `next` call may return, relative to the slice lexer at the same offset -/
def NextPost (data : Bytes) (rd : Reader) (res : Except ReaderError (Option Token)) (rd' : Reader) : Prop :=
  match res with
  | .ok (some t) => ∃ r, readToken (rd.remaining data) = .ok (t, r) ∧ rd'.remaining data = r
  | .ok none => rd.remaining data = [] ∧ rd'.src.rest = [] ∧ rd'.position = rd.position
  | .error e =>
    e.position = rd'.position ∧ rd'.position = rd.position ∧
    (match e.kind with
     | .lexer .eof => readToken (rd.remaining data) = .error .eof ∧ rd.remaining data ≠ [] ∧ rd'.src.rest = []
     | .lexer .invalidRgb => readToken (rd.remaining data) = .error .invalidRgb
     | .read => True
     | .bufferFull => False
     | .ub => False
     | .fuel => False)

theorem remaining_eq {rd : Reader} {data : Bytes} (h : RInv rd data) :
    rd.remaining data = rd.buf.window ++ rd.src.rest := h.buf.view.symm

theorem next_spec (data : Bytes) (fuel : Nat) (rd : Reader) (h : RInv rd data)
    (hfit : rd.buf.cap = 0 ∨ FitsAt rd.buf.cap (rd.remaining data))
    (hfuel : rd.src.rest.length < fuel) :
    RInv (Reader.next fuel rd).2 data ∧ (Reader.next fuel rd).2.buf.cap = rd.buf.cap ∧
    NextPost data rd (Reader.next fuel rd).1 (Reader.next fuel rd).2 := by
  induction fuel generalizing rd with
  | zero => omega
  | succ fuel ih =>
    have hrem := remaining_eq h
    have hwl : rd.buf.window.length = rd.buf.windowLen := Buf.window_length h.buf.se h.buf.em
    unfold Reader.next
    cases hrt : readToken rd.buf.window with
    | ok v =>
      obtain ⟨tok, newData⟩ := v
      simp only
      obtain ⟨pre, hpre, _⟩ := readToken_consumes _ _ _ hrt
      have hlen : rd.buf.windowLen - newData.length = pre.length := by
        rw [← hwl, hpre]; simp
      have hle : pre.length ≤ rd.buf.windowLen := by rw [← hwl, hpre]; simp
      obtain ⟨b', hadv, hinv', hwin', hpos', hcap', hwl'⟩ :=
        Buf.advance_refines rd.buf rd.src data h.buf pre.length hle
      simp only [Reader.advanceTo, hlen, hadv]
      refine ⟨⟨hinv', h.wf, fun hc => h.slice (by rw [← hcap']; exact hc), fun hc => ?_, ?_⟩, hcap', ?_⟩
      · have := h.deliv (by rw [← hcap']; exact hc)
        simp only [Reader.position] at *
        rw [this, hpos', hwl']; omega
      · have hv := congrArg List.length h.buf.view
        have hp := h.ple
        simp only [List.length_append, List.length_drop, Reader.position] at hv hp ⊢
        rw [hpos']; omega
      · simp only [NextPost]
        refine ⟨newData ++ rd.src.rest, ?_, ?_⟩
        · rw [hrem]; exact readToken_stable.ok _ _ _ _ hrt
        · have hv := hinv'.view
          simp only [Reader.remaining, Reader.position]
          rw [← hv, hwin', hpre]; simp
    | error e =>
      cases e with
      | invalidRgb =>
        simp only
        refine ⟨h, trivial, ?_⟩
        simp only [NextPost, Reader.lexError]
        refine ⟨trivial, trivial, ?_⟩
        rw [hrem]; exact readToken_stable.rgb _ _ hrt
      | eof =>
        simp only
        rcases Buf.fillBuf_cases rd.buf rd.src data h.buf h.wf with
          ⟨hc0, hfb⟩ | ⟨hcpos, hfull, hfb⟩ | ⟨hcpos, hlt, n, b', src', hfb, hinv', hpos', hcap', hwin', hwl', hrest', hn, hdel', hwf', hz⟩ |
          ⟨hcpos, hlt, b', src', hfb, hinv', hpos', hcap', hwin', hwl', hrest', hdel', hwf'⟩
        · -- slice mode
          have hs := h.slice hc0
          rw [hfb]
          simp only [if_true]
          by_cases hw0 : rd.buf.windowLen = 0
          · rw [if_pos hw0]
            refine ⟨h, rfl, ?_⟩
            simp only [NextPost]
            refine ⟨?_, hs, trivial⟩
            rw [hrem, hs, List.append_nil]
            exact List.eq_nil_of_length_eq_zero (by rw [hwl]; exact hw0)
          · rw [if_neg hw0]
            refine ⟨h, rfl, ?_⟩
            simp only [NextPost, Reader.lexError]
            refine ⟨trivial, trivial, ?_, ?_, hs⟩
            · rw [hrem, hs, List.append_nil]; exact hrt
            · rw [hrem, hs, List.append_nil]
              intro hnil
              rw [hnil] at hwl
              simp at hwl
              omega
        · -- BufferFull is excluded by the fit hypothesis
          exfalso
          rcases hfit with hc | hfit
          · omega
          · have := hfit rd.buf.windowLen (by rw [hrem]; simp; omega)
              (by rw [hrem, ← hwl, List.take_left']; exact hrt; rfl)
            omega
        · -- the read delivered n bytes
          rw [hfb]
          simp only
          have hrd' : RInv { src := src', buf := b' } data := by
            refine ⟨hinv', hwf', fun hc => ?_, fun _ => ?_, ?_⟩
            · simp only at hc; omega
            · have := h.deliv hcpos
              simp only [Reader.position] at *
              rw [hdel', this, hpos', hwl']; omega
            · have := h.ple
              simp only [Reader.position] at *
              rw [hpos']; exact this
          by_cases hn0 : n = 0
          · rw [if_pos hn0]
            have hs := hz hn0
            have hs' : src'.rest = [] := by rw [hrest', hs]; simp
            subst hn0
            by_cases hw0 : b'.windowLen = 0
            · rw [if_pos hw0]
              refine ⟨hrd', hcap', ?_⟩
              simp only [NextPost, Reader.position]
              refine ⟨?_, hs', hpos'⟩
              rw [hrem, hs, List.append_nil]
              exact List.eq_nil_of_length_eq_zero (by rw [hwl]; omega)
            · rw [if_neg hw0]
              refine ⟨hrd', hcap', ?_⟩
              simp only [NextPost, Reader.lexError, Reader.position]
              refine ⟨trivial, hpos', ?_, ?_, hs'⟩
              · rw [hrem, hs, List.append_nil]; exact hrt
              · rw [hrem, hs, List.append_nil]
                intro hnil
                rw [hnil] at hwl
                simp at hwl
                omega
          · rw [if_neg hn0]
            have hposeq : ({ src := src', buf := b' } : Reader).position = rd.position := hpos'
            have hremeq : ({ src := src', buf := b' } : Reader).remaining data = rd.remaining data := by
              simp only [Reader.remaining, hposeq]
            have := ih { src := src', buf := b' } hrd'
              (by simp only; rw [hcap', hremeq]; exact hfit)
              (by simp only; rw [hrest', List.length_drop]; omega)
            obtain ⟨i1, i2, i3⟩ := this
            refine ⟨i1, by rw [i2]; exact hcap', ?_⟩
            revert i3
            generalize (Reader.next fuel { src := src', buf := b' }).1 = res
            generalize (Reader.next fuel { src := src', buf := b' }).2 = rd2
            intro i3
            unfold NextPost at *
            rw [hremeq, hposeq] at i3
            exact i3
        · -- the read failed
          rw [hfb]
          simp only
          have hrd' : RInv { src := src', buf := b' } data := by
            refine ⟨hinv', hwf', fun hc => ?_, fun _ => ?_, ?_⟩
            · simp only at hc; omega
            · have := h.deliv hcpos
              simp only [Reader.position] at *
              rw [hdel', this, hpos', hwl']
            · have := h.ple
              simp only [Reader.position] at *
              rw [hpos']; exact this
          refine ⟨hrd', hcap', ?_⟩
          simp only [NextPost, Reader.bufferError, Reader.position]
          exact ⟨trivial, hpos', trivial⟩

/-! ### the fuel-free lexer run -/

theorem lexLoop_lexes (fuel : Nat) (d : Bytes) (hf : d.length / 2 < fuel) :
    Lexes d (lexLoop fuel d).1 (lexLoop fuel d).2.1 (lexLoop fuel d).2.2 := by
  induction fuel generalizing d with
  | zero => omega
  | succ fuel ih =>
    unfold lexLoop
    cases hrt : readToken d with
    | ok v =>
      obtain ⟨t, r⟩ := v
      obtain ⟨pre, hpre, hlen⟩ := readToken_consumes _ _ _ hrt
      have hr : r.length / 2 < fuel := by
        have : d.length = pre.length + r.length := by rw [hpre]; simp
        omega
      exact Lexes.tok hrt (ih r hr)
    | error e =>
      cases e with
      | eof =>
        simp only
        by_cases hd : d.isEmpty = true
        · rw [if_pos hd]
          have : d = [] := by simpa using hd
          subst this
          exact Lexes.done
        · rw [if_neg hd]
          exact Lexes.eof hrt (by simpa using hd)
      | invalidRgb => exact Lexes.rgb hrt

theorem lexAll_lexes (d : Bytes) : Lexes d (lexAll d).1 (lexAll d).2.1 (lexAll d).2.2 :=
  lexLoop_lexes _ d (by omega)

theorem Lexes.det {d : Bytes} {ts ts' : List Token} {term term' : Terminal} {left left' : Bytes}
    (h : Lexes d ts term left) (h' : Lexes d ts' term' left') : ts = ts' ∧ term = term' ∧ left = left' := by
  induction h generalizing ts' term' left' with
  | tok hrt _ ih =>
    cases h' with
    | tok hrt' hl' =>
      rw [hrt] at hrt'
      simp only [Except.ok.injEq, Prod.mk.injEq] at hrt'
      obtain ⟨rfl, rfl⟩ := hrt'
      obtain ⟨a, b, c⟩ := ih hl'
      exact ⟨by rw [a], b, c⟩
    | done => simp [readToken_nil] at hrt
    | eof hrt' _ => rw [hrt] at hrt'; simp at hrt'
    | rgb hrt' => rw [hrt] at hrt'; simp at hrt'
  | done =>
    cases h' with
    | tok hrt' _ => simp [readToken_nil] at hrt'
    | done => exact ⟨rfl, rfl, rfl⟩
    | eof _ hne => exact absurd rfl hne
    | rgb hrt' => simp [readToken_nil] at hrt'
  | eof hrt hne =>
    cases h' with
    | tok hrt' _ => rw [hrt] at hrt'; simp at hrt'
    | done => exact absurd rfl hne
    | eof _ _ => exact ⟨rfl, rfl, rfl⟩
    | rgb hrt' => rw [hrt] at hrt'; simp at hrt'
  | rgb hrt =>
    cases h' with
    | tok hrt' _ => rw [hrt] at hrt'; simp at hrt'
    | done => simp [readToken_nil] at hrt
    | eof hrt' _ => rw [hrt] at hrt'; simp at hrt'
    | rgb _ => exact ⟨rfl, rfl, rfl⟩

/-! ### the call sequence `next, next, …` (with faults): C20 -/

theorem fits_tail {cap : Nat} {d r : Bytes} {t : Token} (h : Fits cap d) (hrt : readToken d = .ok (t, r)) :
    Fits cap r := by
  cases h with
  | mk _ _ tail => exact tail t r hrt

theorem fits_head {cap : Nat} {d : Bytes} (h : Fits cap d) : FitsAt cap d := by
  cases h with
  | mk _ head _ => exact head

/-- every prefix of the call sequence agrees with the slice lexer; the invariant (hence
`position ≤ delivered`) holds after every call -/
theorem calls_agree (data : Bytes) (n : Nat) (rd : Reader) (h : RInv rd data)
    (hfit : rd.buf.cap = 0 ∨ Fits rd.buf.cap (rd.remaining data)) :
    Agrees (rd.remaining data) (Reader.calls n rd).1 ∧ RInv (Reader.calls n rd).2 data ∧
      (Reader.calls n rd).2.buf.cap = rd.buf.cap := by
  induction n generalizing rd with
  | zero => exact ⟨trivial, h, rfl⟩
  | succ n ih =>
    have hfit1 : rd.buf.cap = 0 ∨ FitsAt rd.buf.cap (rd.remaining data) := by
      rcases hfit with h0 | hf
      · exact Or.inl h0
      · exact Or.inr (fits_head hf)
    obtain ⟨i1, i2, i3⟩ := next_spec data rd.fuelFor rd h hfit1 (by simp [Reader.fuelFor])
    unfold Reader.calls
    revert i1 i2 i3
    generalize Reader.next rd.fuelFor rd = out
    obtain ⟨res, rd'⟩ := out
    intro i1 i2 i3
    simp only at i1 i2 i3
    cases res with
    | ok o =>
      cases o with
      | some t =>
        simp only [NextPost] at i3
        obtain ⟨r, hr1, hr2⟩ := i3
        have hfit' : rd'.buf.cap = 0 ∨ Fits rd'.buf.cap (rd'.remaining data) := by
          rw [i2, hr2]
          rcases hfit with h0 | hf
          · exact Or.inl h0
          · exact Or.inr (fits_tail hf hr1)
        obtain ⟨j1, j2, j3⟩ := ih rd' i1 hfit'
        simp only
        refine ⟨?_, j2, by rw [j3, i2]⟩
        simp only [Agrees]
        exact ⟨r, hr1, by rw [← hr2]; exact j1⟩
      | none =>
        simp only [NextPost] at i3
        obtain ⟨hr1, _, hr3⟩ := i3
        have hrem : rd'.remaining data = rd.remaining data := by simp only [Reader.remaining, hr3]
        have hfit' : rd'.buf.cap = 0 ∨ Fits rd'.buf.cap (rd'.remaining data) := by
          rw [i2, hrem]; exact hfit
        obtain ⟨j1, j2, j3⟩ := ih rd' i1 hfit'
        simp only
        refine ⟨?_, j2, by rw [j3, i2]⟩
        simp only [Agrees]
        exact ⟨hr1, by rw [← hrem]; exact j1⟩
    | error e =>
      simp only [NextPost] at i3
      obtain ⟨_, hp, hk⟩ := i3
      have hrem : rd'.remaining data = rd.remaining data := by simp only [Reader.remaining, hp]
      have hfit' : rd'.buf.cap = 0 ∨ Fits rd'.buf.cap (rd'.remaining data) := by
        rw [i2, hrem]; exact hfit
      obtain ⟨j1, j2, j3⟩ := ih rd' i1 hfit'
      simp only
      refine ⟨?_, j2, by rw [j3, i2]⟩
      rw [hrem] at j1
      obtain ⟨pos, kind⟩ := e
      cases kind with
      | lexer le =>
        cases le with
        | eof => simp only at hk; simp only [Agrees]; exact ⟨hk.1, hk.2.1, j1⟩
        | invalidRgb => simp only at hk; simp only [Agrees]; exact ⟨hk, j1⟩
      | read => simp only [Agrees]; exact j1
      | bufferFull => simp only at hk
      | ub => simp only at hk
      | fuel => simp only at hk

/-- a log that agrees with the lexer returns, in order, a prefix of the lexer's tokens; a
clean end or a lexer error is reported only after all of them, and is the lexer's own
terminal outcome -/
theorem agrees_prefix {d : Bytes} {cs : List Call} {ts : List Token} {term : Terminal} {left : Bytes}
    (ha : Agrees d cs) (hl : Lexes d ts term left) :
    callToks cs <+: ts ∧
    (.done ∈ cs → callToks cs = ts ∧ term = .done) ∧
    (∀ e, .err (.lexer e) ∈ cs → callToks cs = ts ∧ term = .err e) := by
  induction cs generalizing d ts with
  | nil => exact ⟨List.nil_prefix, by simp, by simp⟩
  | cons c cs ih =>
    cases c with
    | tok t =>
      simp only [Agrees] at ha
      obtain ⟨r, hrt, har⟩ := ha
      cases hl with
      | tok hrt' hl' =>
        rw [hrt] at hrt'
        simp only [Except.ok.injEq, Prod.mk.injEq] at hrt'
        obtain ⟨rfl, rfl⟩ := hrt'
        obtain ⟨k1, k2, k3⟩ := ih har hl'
        refine ⟨by simpa [callToks] using k1, ?_, ?_⟩
        · intro hm
          simp only [List.mem_cons, reduceCtorEq, false_or] at hm
          obtain ⟨a, b⟩ := k2 hm
          exact ⟨by simp [callToks, a], b⟩
        · intro e hm
          simp only [List.mem_cons, reduceCtorEq, false_or] at hm
          obtain ⟨a, b⟩ := k3 e hm
          exact ⟨by simp [callToks, a], b⟩
      | done => simp [readToken_nil] at hrt
      | eof hrt' _ => rw [hrt] at hrt'; simp at hrt'
      | rgb hrt' => rw [hrt] at hrt'; simp at hrt'
    | done =>
      simp only [Agrees] at ha
      obtain ⟨hd, har⟩ := ha
      subst hd
      obtain ⟨k1, k2, k3⟩ := ih har hl
      have hts : ts = [] ∧ term = .done := by
        cases hl with
        | tok hrt' _ => simp [readToken_nil] at hrt'
        | done => exact ⟨rfl, rfl⟩
        | eof _ hne => exact absurd rfl hne
        | rgb hrt' => simp [readToken_nil] at hrt'
      obtain ⟨rfl, rfl⟩ := hts
      have hnil : callToks cs = [] := by simpa using k1
      refine ⟨by simpa [callToks] using k1, fun _ => ⟨by simp [callToks, hnil], rfl⟩, ?_⟩
      intro e hm
      simp only [List.mem_cons, reduceCtorEq, false_or] at hm
      exact ⟨by simp [callToks, hnil], (k3 e hm).2⟩
    | err k =>
      cases k with
      | lexer le =>
        cases le with
        | eof =>
          simp only [Agrees] at ha
          obtain ⟨hrt, hne, har⟩ := ha
          obtain ⟨k1, k2, k3⟩ := ih har hl
          have hts : ts = [] ∧ term = .err .eof := by
            cases hl with
            | tok hrt' _ => rw [hrt] at hrt'; simp at hrt'
            | done => exact absurd rfl hne
            | eof _ _ => exact ⟨rfl, rfl⟩
            | rgb hrt' => rw [hrt] at hrt'; simp at hrt'
          obtain ⟨rfl, rfl⟩ := hts
          have hnil : callToks cs = [] := by simpa using k1
          refine ⟨by simpa [callToks] using k1, ?_, ?_⟩
          · intro hm
            simp only [List.mem_cons, reduceCtorEq, false_or] at hm
            exact ⟨by simp [callToks, hnil], (k2 hm).2⟩
          · intro e hm
            simp only [List.mem_cons, Call.err.injEq, RErrKind.lexer.injEq] at hm
            rcases hm with hm | hm
            · exact ⟨by simp [callToks, hnil], by rw [← hm]⟩
            · exact ⟨by simp [callToks, hnil], (k3 e hm).2⟩
        | invalidRgb =>
          simp only [Agrees] at ha
          obtain ⟨hrt, har⟩ := ha
          obtain ⟨k1, k2, k3⟩ := ih har hl
          have hts : ts = [] ∧ term = .err .invalidRgb := by
            cases hl with
            | tok hrt' _ => rw [hrt] at hrt'; simp at hrt'
            | done => simp [readToken_nil] at hrt
            | eof hrt' _ => rw [hrt] at hrt'; simp at hrt'
            | rgb _ => exact ⟨rfl, rfl⟩
          obtain ⟨rfl, rfl⟩ := hts
          have hnil : callToks cs = [] := by simpa using k1
          refine ⟨by simpa [callToks] using k1, ?_, ?_⟩
          · intro hm
            simp only [List.mem_cons, reduceCtorEq, false_or] at hm
            exact ⟨by simp [callToks, hnil], (k2 hm).2⟩
          · intro e hm
            simp only [List.mem_cons, Call.err.injEq, RErrKind.lexer.injEq] at hm
            rcases hm with hm | hm
            · exact ⟨by simp [callToks, hnil], by rw [← hm]⟩
            · exact ⟨by simp [callToks, hnil], (k3 e hm).2⟩
      | read =>
        simp only [Agrees] at ha
        obtain ⟨k1, k2, k3⟩ := ih ha hl
        refine ⟨by simpa [callToks] using k1, ?_, ?_⟩
        · intro hm
          simp only [List.mem_cons, reduceCtorEq, false_or] at hm
          simpa [callToks] using k2 hm
        · intro e hm
          simp only [List.mem_cons, Call.err.injEq, reduceCtorEq, false_or] at hm
          simpa [callToks] using k3 e hm
      | bufferFull => simp [Agrees] at ha
      | ub => simp [Agrees] at ha
      | fuel => simp [Agrees] at ha

/-! ### fault-free schedules: the read never fails -/

theorem read_nofaults (s : Src) (space : Nat) (h : Src.NoFaults s.sched) :
    ∃ bytes s', s.read space = (.ok bytes, s') ∧ Src.NoFaults s'.sched := by
  unfold Src.read
  cases hs : s.sched with
  | nil => exact ⟨_, _, rfl, by simp [Src.deliver, Src.NoFaults]⟩
  | cons st tl =>
    rw [hs] at h
    cases st with
    | give n => exact ⟨_, _, rfl, by simpa [Src.deliver, Src.NoFaults] using h⟩
    | «repeat» n => exact ⟨_, _, rfl, by simpa [Src.deliver, Src.NoFaults] using h⟩
    | fail => simp [Src.NoFaults] at h
    | failForever => simp [Src.NoFaults] at h

theorem fillBuf_nofaults (b : Buf) (s : Src) (h : Src.NoFaults s.sched) :
    (b.fillBuf s).1 ≠ .error .io ∧ Src.NoFaults (b.fillBuf s).2.2.sched := by
  simp only [Buf.fillBuf]
  by_cases hc0 : b.cap = 0
  · rw [if_pos hc0]; exact ⟨by simp, h⟩
  · rw [if_neg hc0]
    by_cases hfull : b.windowLen ≥ b.cap
    · rw [if_pos hfull]; exact ⟨by simp, h⟩
    · rw [if_neg hfull]
      obtain ⟨bytes, s', hr, hnf⟩ := read_nofaults s (b.cap - b.windowLen) h
      rw [hr]
      exact ⟨by simp, hnf⟩

theorem next_nofaults (fuel : Nat) (rd : Reader) (h : Src.NoFaults rd.src.sched) :
    (∀ p, (Reader.next fuel rd).1 ≠ .error ⟨p, .read⟩) ∧ Src.NoFaults (Reader.next fuel rd).2.src.sched := by
  induction fuel generalizing rd with
  | zero => simp [Reader.next, h]
  | succ fuel ih =>
    unfold Reader.next
    cases hrt : readToken rd.buf.window with
    | ok v =>
      obtain ⟨tok, nd⟩ := v
      simp only
      cases hadv : rd.advanceTo nd with
      | none => simp [Reader.ubError, h]
      | some rd' =>
        simp only [Reader.advanceTo] at hadv
        split at hadv
        · simp only [Option.some.injEq] at hadv
          subst hadv
          exact ⟨by simp, h⟩
        · simp at hadv
    | error e =>
      cases e with
      | invalidRgb => simp [Reader.lexError, h]
      | eof =>
        simp only
        obtain ⟨f1, f2⟩ := fillBuf_nofaults rd.buf rd.src h
        revert f1 f2
        generalize rd.buf.fillBuf rd.src = out
        obtain ⟨r, b, s⟩ := out
        intro f1 f2
        simp only at f1 f2
        cases r with
        | ok n =>
          simp only
          by_cases hn : n = 0
          · rw [if_pos hn]
            by_cases hw : b.windowLen = 0
            · rw [if_pos hw]; exact ⟨by simp, f2⟩
            · rw [if_neg hw]; exact ⟨by simp [Reader.lexError], f2⟩
          · rw [if_neg hn]
            exact ih { src := s, buf := b } f2
        | error e =>
          cases e with
          | io => exact absurd rfl f1
          | bufferFull => exact ⟨by simp [Reader.bufferError], f2⟩

/-! ### `while let Some(t) = reader.next()?` against the lexer run -/

/-- a lexer terminal as the reader reports it -/
def embed : Terminal → StreamEnd
  | .done => .done
  | .err e => .err (.lexer e)

theorem remaining_length {rd : Reader} {data : Bytes} (h : RInv rd data) :
    (rd.remaining data).length = rd.buf.windowLen + rd.src.rest.length := by
  rw [remaining_eq h, List.length_append, Buf.window_length h.buf.se h.buf.em]

theorem stream_lexes (data : Bytes) (fuel : Nat) (rd : Reader) (h : RInv rd data)
    (hfit : rd.buf.cap = 0 ∨ Fits rd.buf.cap (rd.remaining data))
    (hnf : Src.NoFaults rd.src.sched) (hfuel : (rd.remaining data).length / 2 + 1 < fuel) :
    ∃ term, Lexes (rd.remaining data) (Reader.streamLoop fuel rd).1 term
        ((Reader.streamLoop fuel rd).2.2.remaining data) ∧
      (Reader.streamLoop fuel rd).2.1 = embed term ∧ RInv (Reader.streamLoop fuel rd).2.2 data ∧
      (term = .done → (Reader.streamLoop fuel rd).2.2.src.rest = []) := by
  induction fuel generalizing rd with
  | zero => omega
  | succ fuel ih =>
    have hfit1 : rd.buf.cap = 0 ∨ FitsAt rd.buf.cap (rd.remaining data) := by
      rcases hfit with h0 | hf
      · exact Or.inl h0
      · exact Or.inr (fits_head hf)
    obtain ⟨i1, i2, i3⟩ := next_spec data rd.fuelFor rd h hfit1 (by simp [Reader.fuelFor])
    obtain ⟨n1, n2⟩ := next_nofaults rd.fuelFor rd hnf
    unfold Reader.streamLoop
    revert i1 i2 i3 n1 n2
    generalize Reader.next rd.fuelFor rd = out
    obtain ⟨res, rd'⟩ := out
    intro i1 i2 i3 n1 n2
    simp only at i1 i2 i3 n1 n2
    cases res with
    | ok o =>
      cases o with
      | some t =>
        simp only [NextPost] at i3
        obtain ⟨r, hr1, hr2⟩ := i3
        have hfit' : rd'.buf.cap = 0 ∨ Fits rd'.buf.cap (rd'.remaining data) := by
          rw [i2, hr2]
          rcases hfit with h0 | hf
          · exact Or.inl h0
          · exact Or.inr (fits_tail hf hr1)
        obtain ⟨pre, hpre, hlen⟩ := readToken_consumes _ _ _ hr1
        have hf' : (rd'.remaining data).length / 2 + 1 < fuel := by
          rw [hr2]
          have : (rd.remaining data).length = pre.length + r.length := by rw [hpre]; simp
          omega
        obtain ⟨term, j1, j2, j3, j4⟩ := ih rd' i1 hfit' n2 hf'
        simp only
        refine ⟨term, Lexes.tok hr1 (by rw [← hr2]; exact j1), j2, j3, j4⟩
      | none =>
        simp only [NextPost] at i3
        obtain ⟨hr1, hr2, hr3⟩ := i3
        simp only
        refine ⟨.done, ?_, rfl, i1, fun _ => hr2⟩
        have : rd'.remaining data = [] := by simp only [Reader.remaining, hr3]; exact hr1
        rw [hr1, this]
        exact Lexes.done
    | error e =>
      simp only [NextPost] at i3
      obtain ⟨_, hp, hk⟩ := i3
      have hrem : rd'.remaining data = rd.remaining data := by simp only [Reader.remaining, hp]
      obtain ⟨pos, kind⟩ := e
      simp only
      cases kind with
      | lexer le =>
        cases le with
        | eof =>
          simp only at hk
          exact ⟨.err .eof, by rw [hrem]; exact Lexes.eof hk.1 hk.2.1, rfl, i1, by simp⟩
        | invalidRgb =>
          simp only at hk
          exact ⟨.err .invalidRgb, by rw [hrem]; exact Lexes.rgb hk, rfl, i1, by simp⟩
      | read => exact absurd rfl (n1 pos)
      | bufferFull => simp only at hk
      | ub => simp only at hk
      | fuel => simp only at hk

/-! ### the executable form of `Fits` -/

theorem fitsLoop_sound (cap fuel : Nat) (d : Bytes) (h : fitsLoop cap fuel d = true) : Fits cap d := by
  induction fuel generalizing d with
  | zero => simp [fitsLoop] at h
  | succ fuel ih =>
    simp only [fitsLoop, Bool.and_eq_true, List.all_eq_true, List.mem_range] at h
    obtain ⟨h1, h2⟩ := h
    refine Fits.mk d ?_ ?_
    · intro k hk he
      have := h1 k (by omega)
      rw [he] at this
      simpa using this
    · intro t r hrt
      rw [hrt] at h2
      exact ih r h2

/-- `fitsBuffer cap d = true` (computable, also evaluated by the driver op `bfits` against the
harness' `min_cap`) implies the hypothesis of the streaming theorems -/
theorem fitsBuffer_sound (cap : Nat) (d : Bytes) (h : fitsBuffer cap d = true) : Fits cap d :=
  fitsLoop_sound cap _ d h

/-! ### initial states -/

theorem rinv_build (buffer data : Bytes) (sched : List Step) (hcap : 0 < buffer.length)
    (hwf : Src.WfSched sched) : RInv (Reader.build buffer (Src.new data sched)) data := by
  refine ⟨Buf.inv_build buffer data sched, hwf, fun hc => ?_, fun _ => ?_, ?_⟩
  · simp only [Reader.build, Buf.build] at hc; omega
  · simp [Reader.build, Buf.build, Src.new, Reader.position, Buf.position, Buf.consumedData, Buf.windowLen]
  · simp [Reader.build, Buf.build, Reader.position, Buf.position, Buf.consumedData]

theorem rinv_fromSlice (data : Bytes) : RInv (Reader.fromSlice data) data := by
  refine ⟨Buf.inv_fromSlice data, by simp [Reader.fromSlice, Src.new, Src.WfSched], fun _ => rfl, fun hc => ?_, ?_⟩
  · simp [Reader.fromSlice, Buf.fromSlice] at hc
  · simp [Reader.fromSlice, Buf.fromSlice, Reader.position, Buf.position, Buf.consumedData]

theorem agrees_no_bad {d : Bytes} {cs : List Call} (ha : Agrees d cs) :
    Call.err .bufferFull ∉ cs ∧ Call.err .ub ∉ cs ∧ Call.err .fuel ∉ cs := by
  induction cs generalizing d with
  | nil => simp
  | cons c cs ih =>
    cases c with
    | tok t =>
      simp only [Agrees] at ha
      obtain ⟨r, _, har⟩ := ha
      simpa using ih har
    | done =>
      simp only [Agrees] at ha
      simpa using ih ha.2
    | err k =>
      cases k with
      | lexer le =>
        cases le with
        | eof => simp only [Agrees] at ha; simpa using ih ha.2.2
        | invalidRgb => simp only [Agrees] at ha; simpa using ih ha.2
      | read => simp only [Agrees] at ha; simpa using ih ha
      | bufferFull => simp [Agrees] at ha
      | ub => simp [Agrees] at ha
      | fuel => simp [Agrees] at ha

/-- bookkeeping carried by the invariant: the reported position never exceeds the bytes
delivered, and delivered + undelivered is the whole input (builder mode) -/
theorem rinv_delivered {rd : Reader} {data : Bytes} (h : RInv rd data) (hc : 0 < rd.buf.cap) :
    rd.position ≤ rd.src.delivered ∧ rd.src.delivered + rd.src.rest.length = data.length := by
  have h1 := h.deliv hc
  have h2 := remaining_length h
  have h3 := h.ple
  simp only [Reader.remaining, List.length_drop] at h2
  omega

/-- **C20 (binary reader).**  A reader over a buffer that fits, driven by *any* well-formed
schedule — short reads, transient faults `F`, a persistent fault `P` — and called `n` times
in a row (the caller may keep calling after an error):
* the tokens returned are, in order, a prefix of the slice lexer's tokens;
* a clean end is returned only after all of them and only if the lexer ends cleanly; an
  `Eof` / `InvalidRgb` error only after all of them and only if it is the lexer's own outcome
  (so no call completes with a result different from the fault-free one);
* every other error is the I/O error (`BufferFull`, an out-of-window pointer, model fuel
  exhaustion never occur);
* the reported position never exceeds the bytes delivered, and nothing is lost:
  delivered + undelivered = |data|. -/
theorem C20_bin_reader (buffer data : Bytes) (sched : List Step) (hcap : 0 < buffer.length)
    (hwf : Src.WfSched sched) (hfit : Fits buffer.length data) (n : Nat) :
    callToks (Reader.calls n (Reader.build buffer (Src.new data sched))).1 <+: (lexAll data).1 ∧
    (Call.done ∈ (Reader.calls n (Reader.build buffer (Src.new data sched))).1 →
      callToks (Reader.calls n (Reader.build buffer (Src.new data sched))).1 = (lexAll data).1 ∧
      (lexAll data).2.1 = .done) ∧
    (∀ e, Call.err (.lexer e) ∈ (Reader.calls n (Reader.build buffer (Src.new data sched))).1 →
      callToks (Reader.calls n (Reader.build buffer (Src.new data sched))).1 = (lexAll data).1 ∧
      (lexAll data).2.1 = .err e) ∧
    (Call.err .bufferFull ∉ (Reader.calls n (Reader.build buffer (Src.new data sched))).1 ∧
     Call.err .ub ∉ (Reader.calls n (Reader.build buffer (Src.new data sched))).1 ∧
     Call.err .fuel ∉ (Reader.calls n (Reader.build buffer (Src.new data sched))).1) ∧
    ((Reader.calls n (Reader.build buffer (Src.new data sched))).2.position ≤
      (Reader.calls n (Reader.build buffer (Src.new data sched))).2.src.delivered ∧
     (Reader.calls n (Reader.build buffer (Src.new data sched))).2.src.delivered +
      (Reader.calls n (Reader.build buffer (Src.new data sched))).2.src.rest.length = data.length) := by
  have h0 := rinv_build buffer data sched hcap hwf
  have hrem : (Reader.build buffer (Src.new data sched)).remaining data = data := by
    simp [Reader.remaining, Reader.build, Buf.build, Reader.position, Buf.position, Buf.consumedData]
  have hcapeq : (Reader.build buffer (Src.new data sched)).buf.cap = buffer.length := rfl
  obtain ⟨a1, a2, a3⟩ := calls_agree data n _ h0 (Or.inr (by rw [hrem, hcapeq]; exact hfit))
  rw [hrem] at a1
  obtain ⟨p1, p2, p3⟩ := agrees_prefix a1 (lexAll_lexes data)
  exact ⟨p1, p2, p3, agrees_no_bad a1, rinv_delivered a2 (by rw [a3, hcapeq]; exact hcap)⟩

theorem lexes_done_left {d left : Bytes} {ts : List Token} {tm : Terminal} (hl : Lexes d ts tm left)
    (hd : tm = .done) : left = [] := by
  induction hl with
  | tok _ _ ih => exact ih hd
  | done => rfl
  | eof _ _ => simp at hd
  | rgb _ => simp at hd

/-- the fault-free whole-stream run from a state satisfying the invariant -/
theorem streamAll_eq (data : Bytes) (rd : Reader) (h : RInv rd data) (hp : rd.position = 0)
    (hfit : rd.buf.cap = 0 ∨ Fits rd.buf.cap data) (hnf : Src.NoFaults rd.src.sched) :
    (Reader.streamAll rd).1 = (lexAll data).1 ∧
    (Reader.streamAll rd).2.1 = embed (lexAll data).2.1 ∧
    (Reader.streamAll rd).2.2.position = data.length - (lexAll data).2.2.length ∧
    ((lexAll data).2.1 = .done → (Reader.streamAll rd).2.2.position = data.length ∧
      (Reader.streamAll rd).2.2.src.rest = []) := by
  have hrem : rd.remaining data = data := by simp [Reader.remaining, hp]
  have hlen := remaining_length h
  obtain ⟨term, j1, j2, j3, j4⟩ := stream_lexes data (Reader.streamFuel rd) rd h
    (by rw [hrem]; exact hfit) hnf (by rw [hlen]; simp [Reader.streamFuel])
  rw [hrem] at j1
  obtain ⟨d1, d2, d3⟩ := Lexes.det j1 (lexAll_lexes data)
  unfold Reader.streamAll
  have hpos : (Reader.streamLoop (Reader.streamFuel rd) rd).2.2.position = data.length - (lexAll data).2.2.length := by
    have hple := j3.ple
    have := congrArg List.length d3
    simp only [Reader.remaining, List.length_drop] at this
    omega
  refine ⟨d1, by rw [j2, d2], hpos, fun hd => ⟨?_, j4 (by rw [d2]; exact hd)⟩⟩
  rw [hpos]
  have hl := lexAll_lexes data
  rw [hd] at hl
  have : (lexAll data).2.2 = [] := lexes_done_left hl rfl
  rw [this]; simp

/-! ### a persistent fault -/

theorem fillBuf_dead (b : Buf) (s : Src) (tl : List Step) (hs : s.sched = .failForever :: tl)
    (hc : 0 < b.cap) (hlt : b.windowLen < b.cap) :
    (b.fillBuf s).1 = .error .io ∧ (b.fillBuf s).2.2.sched = .failForever :: tl := by
  simp only [Buf.fillBuf]
  rw [if_neg (by omega), if_neg (by omega)]
  simp [Src.read, hs]

/-- **C20, persistent failures.**  Once the source has reached its persistent fault, a call
can only return a token that is already complete in the window (the lexer's next token), the
lexer's own `InvalidRgb`, or the I/O error: never a clean end, never `Eof`; and the source
stays dead.  So a run that continues until it stops ends in an error. -/
theorem next_dead (data : Bytes) (fuel : Nat) (rd : Reader) (tl : List Step) (h : RInv rd data)
    (hc : 0 < rd.buf.cap) (hfit : FitsAt rd.buf.cap (rd.remaining data))
    (hs : rd.src.sched = .failForever :: tl) (hfuel : 0 < fuel) :
    ((∃ t, (Reader.next fuel rd).1 = .ok (some t)) ∨
     (∃ p, (Reader.next fuel rd).1 = .error ⟨p, .read⟩) ∨
     (∃ p, (Reader.next fuel rd).1 = .error ⟨p, .lexer .invalidRgb⟩)) ∧
    (Reader.next fuel rd).2.src.sched = .failForever :: tl := by
  cases fuel with
  | zero => omega
  | succ fuel =>
    have hrem := remaining_eq h
    have hwl : rd.buf.window.length = rd.buf.windowLen := Buf.window_length h.buf.se h.buf.em
    unfold Reader.next
    cases hrt : readToken rd.buf.window with
    | ok v =>
      obtain ⟨tok, newData⟩ := v
      simp only
      obtain ⟨pre, hpre, _⟩ := readToken_consumes _ _ _ hrt
      have hlen : rd.buf.windowLen - newData.length = pre.length := by
        rw [← hwl, hpre]; simp
      have hle : pre.length ≤ rd.buf.windowLen := by rw [← hwl, hpre]; simp
      obtain ⟨b', hadv, _⟩ := Buf.advance_refines rd.buf rd.src data h.buf pre.length hle
      simp only [Reader.advanceTo, hlen, hadv]
      exact ⟨Or.inl ⟨tok, rfl⟩, hs⟩
    | error e =>
      cases e with
      | invalidRgb =>
        simp only [Reader.lexError]
        exact ⟨Or.inr (Or.inr ⟨_, rfl⟩), hs⟩
      | eof =>
        simp only
        have hlt : rd.buf.windowLen < rd.buf.cap := by
          have := hfit rd.buf.windowLen (by rw [hrem]; simp; omega)
            (by rw [hrem, ← hwl, List.take_left']; exact hrt; rfl)
          exact this
        obtain ⟨f1, f2⟩ := fillBuf_dead rd.buf rd.src tl hs hc hlt
        revert f1 f2
        generalize rd.buf.fillBuf rd.src = out
        obtain ⟨r, b, s⟩ := out
        intro f1 f2
        simp only at f1 f2
        subst f1
        simp only [Reader.bufferError]
        exact ⟨Or.inr (Or.inl ⟨_, rfl⟩), f2⟩

end Jomini.BinReader
