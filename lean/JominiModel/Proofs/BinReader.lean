import JominiModel.Model.BinReader
import JominiModel.Spec.BinReader
import JominiModel.Proofs.BinLexer
import JominiModel.Proofs.Buffer
/-
The streaming reader against the slice lexer: one-call specification of `next`
(`next_spec`), from which C08_stream_eq_lexer / C20_bin_reader follow.
-/
namespace Jomini.BinReader
open Jomini Jomini.BinLexer

/-- reader invariant relative to the whole input `data` -/
structure RInv (rd : Reader) (data : Bytes) : Prop where
  buf : Buf.Inv rd.buf rd.src data
  wf : Src.WfSched rd.src.sched
  /-- slice mode (and only slice mode) has a zero-capacity buffer: nothing left to deliver -/
  slice : rd.buf.cap = 0 → rd.src.rest = []
  /-- builder mode: everything delivered is either consumed or in the window -/
  deliv : 0 < rd.buf.cap → rd.src.delivered = rd.position + rd.buf.windowLen

/-- the bytes the lexer would still see -/
def Reader.remaining (rd : Reader) (data : Bytes) : Bytes := data.drop rd.position

/-- what one `next` call may return, relative to the slice lexer at the same offset -/
def NextPost (data : Bytes) (rd : Reader) (res : Except ReaderError (Option Token)) (rd' : Reader) : Prop :=
  match res with
  | .ok (some t) => ∃ r, readToken (rd.remaining data) = .ok (t, r) ∧ rd'.remaining data = r
  | .ok none => rd.remaining data = [] ∧ rd'.src.rest = [] ∧ rd'.position = rd.position
  | .error e =>
    e.position = rd'.position ∧ rd'.position = rd.position ∧
    (match e.kind with
     | .lexer .eof => readToken (rd.remaining data) = .error .eof ∧ rd.remaining data ≠ [] ∧ rd'.src.rest = []
     | .lexer .invalidRgb => readToken (rd.remaining data) = .error .invalidRgb
     | .read => True
     | .bufferFull => False
     | .ub => False
     | .fuel => False)

theorem remaining_eq {rd : Reader} {data : Bytes} (h : RInv rd data) :
    rd.remaining data = rd.buf.window ++ rd.src.rest := h.buf.view.symm

theorem next_spec (data : Bytes) (fuel : Nat) (rd : Reader) (h : RInv rd data)
    (hfit : rd.buf.cap = 0 ∨ FitsAt rd.buf.cap (rd.remaining data))
    (hfuel : rd.src.rest.length < fuel) :
    RInv (Reader.next fuel rd).2 data ∧ (Reader.next fuel rd).2.buf.cap = rd.buf.cap ∧
    NextPost data rd (Reader.next fuel rd).1 (Reader.next fuel rd).2 := by
  induction fuel generalizing rd with
  | zero => omega
  | succ fuel ih =>
    have hrem := remaining_eq h
    have hwl : rd.buf.window.length = rd.buf.windowLen := Buf.window_length h.buf.se h.buf.em
    unfold Reader.next
    cases hrt : readToken rd.buf.window with
    | ok v =>
      obtain ⟨tok, newData⟩ := v
      simp only
      obtain ⟨pre, hpre, _⟩ := readToken_consumes _ _ _ hrt
      have hlen : rd.buf.windowLen - newData.length = pre.length := by
        rw [← hwl, hpre]; simp
      have hle : pre.length ≤ rd.buf.windowLen := by rw [← hwl, hpre]; simp
      obtain ⟨b', hadv, hinv', hwin', hpos', hcap', hwl'⟩ :=
        Buf.advance_refines rd.buf rd.src data h.buf pre.length hle
      simp only [Reader.advanceTo, hlen, hadv]
      refine ⟨⟨hinv', h.wf, fun hc => h.slice (by rw [← hcap']; exact hc), fun hc => ?_⟩, hcap', ?_⟩
      · have := h.deliv (by rw [← hcap']; exact hc)
        simp only [Reader.position] at *
        rw [this, hpos', hwl']; omega
      · simp only [NextPost]
        refine ⟨newData ++ rd.src.rest, ?_, ?_⟩
        · rw [hrem]; exact readToken_stable.ok _ _ _ _ hrt
        · have hv := hinv'.view
          simp only [Reader.remaining, Reader.position]
          rw [← hv, hwin', hpre]; simp
    | error e =>
      cases e with
      | invalidRgb =>
        simp only
        refine ⟨h, trivial, ?_⟩
        simp only [NextPost, Reader.lexError]
        refine ⟨trivial, trivial, ?_⟩
        rw [hrem]; exact readToken_stable.rgb _ _ hrt
      | eof =>
        simp only
        rcases Buf.fillBuf_cases rd.buf rd.src data h.buf h.wf with
          ⟨hc0, hfb⟩ | ⟨hcpos, hfull, hfb⟩ | ⟨hcpos, hlt, n, b', src', hfb, hinv', hpos', hcap', hwin', hwl', hrest', hn, hdel', hwf', hz⟩ |
          ⟨hcpos, hlt, b', src', hfb, hinv', hpos', hcap', hwin', hwl', hrest', hdel', hwf'⟩
        · -- slice mode
          have hs := h.slice hc0
          rw [hfb]
          simp only [if_true]
          by_cases hw0 : rd.buf.windowLen = 0
          · rw [if_pos hw0]
            refine ⟨h, rfl, ?_⟩
            simp only [NextPost]
            refine ⟨?_, hs, trivial⟩
            rw [hrem, hs, List.append_nil]
            exact List.eq_nil_of_length_eq_zero (by rw [hwl]; exact hw0)
          · rw [if_neg hw0]
            refine ⟨h, rfl, ?_⟩
            simp only [NextPost, Reader.lexError]
            refine ⟨trivial, trivial, ?_, ?_, hs⟩
            · rw [hrem, hs, List.append_nil]; exact hrt
            · rw [hrem, hs, List.append_nil]
              intro hnil
              rw [hnil] at hwl
              simp at hwl
              omega
        · -- BufferFull is excluded by the fit hypothesis
          exfalso
          rcases hfit with hc | hfit
          · omega
          · have := hfit rd.buf.windowLen (by rw [hrem]; simp; omega)
              (by rw [hrem, ← hwl, List.take_left']; exact hrt; rfl)
            omega
        · -- the read delivered n bytes
          rw [hfb]
          simp only
          have hrd' : RInv { src := src', buf := b' } data := by
            refine ⟨hinv', hwf', fun hc => ?_, fun _ => ?_⟩
            · simp only at hc; omega
            · have := h.deliv hcpos
              simp only [Reader.position] at *
              rw [hdel', this, hpos', hwl']; omega
          by_cases hn0 : n = 0
          · rw [if_pos hn0]
            have hs := hz hn0
            have hs' : src'.rest = [] := by rw [hrest', hs]; simp
            subst hn0
            by_cases hw0 : b'.windowLen = 0
            · rw [if_pos hw0]
              refine ⟨hrd', hcap', ?_⟩
              simp only [NextPost, Reader.position]
              refine ⟨?_, hs', hpos'⟩
              rw [hrem, hs, List.append_nil]
              exact List.eq_nil_of_length_eq_zero (by rw [hwl]; omega)
            · rw [if_neg hw0]
              refine ⟨hrd', hcap', ?_⟩
              simp only [NextPost, Reader.lexError, Reader.position]
              refine ⟨trivial, hpos', ?_, ?_, hs'⟩
              · rw [hrem, hs, List.append_nil]; exact hrt
              · rw [hrem, hs, List.append_nil]
                intro hnil
                rw [hnil] at hwl
                simp at hwl
                omega
          · rw [if_neg hn0]
            have hposeq : ({ src := src', buf := b' } : Reader).position = rd.position := hpos'
            have hremeq : ({ src := src', buf := b' } : Reader).remaining data = rd.remaining data := by
              simp only [Reader.remaining, hposeq]
            have := ih { src := src', buf := b' } hrd'
              (by simp only; rw [hcap', hremeq]; exact hfit)
              (by simp only; rw [hrest', List.length_drop]; omega)
            obtain ⟨i1, i2, i3⟩ := this
            refine ⟨i1, by rw [i2]; exact hcap', ?_⟩
            revert i3
            generalize (Reader.next fuel { src := src', buf := b' }).1 = res
            generalize (Reader.next fuel { src := src', buf := b' }).2 = rd2
            intro i3
            unfold NextPost at *
            rw [hremeq, hposeq] at i3
            exact i3
        · -- the read failed
          rw [hfb]
          simp only
          have hrd' : RInv { src := src', buf := b' } data := by
            refine ⟨hinv', hwf', fun hc => ?_, fun _ => ?_⟩
            · simp only at hc; omega
            · have := h.deliv hcpos
              simp only [Reader.position] at *
              rw [hdel', this, hpos', hwl']
          refine ⟨hrd', hcap', ?_⟩
          simp only [NextPost, Reader.bufferError, Reader.position]
          exact ⟨trivial, hpos', trivial⟩

end Jomini.BinReader
