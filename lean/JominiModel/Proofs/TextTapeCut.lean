import JominiModel.Model.TextTape
import JominiModel.Proofs.TextTape
/-
C19 (text lexemes): what the scalar scanners return on a truncated input.
-/
namespace Jomini.TextTape
open Jomini

/-! ### quoted scalars -/

theorem quoteClose_append : ∀ (p q : Bytes) (b : Bool) (j : Nat),
    quoteClose p b = some j → quoteClose (p ++ q) b = some j ∧ j < p.length
  | [], _, _, _, h => by simp [quoteClose] at h
  | c :: cs, q, true, j, h => by
    simp only [quoteClose, Option.map_eq_some_iff] at h
    obtain ⟨a, ha, rfl⟩ := h
    have := quoteClose_append cs q false a ha
    simp [quoteClose, this.1]; exact this.2
  | c :: cs, q, false, j, h => by
    simp only [quoteClose] at h
    by_cases h92 : c = 92
    · simp only [h92, if_true, Option.map_eq_some_iff] at h
      obtain ⟨a, ha, rfl⟩ := h
      have := quoteClose_append cs q true a ha
      simp [quoteClose, h92, this.1]; exact this.2
    · by_cases h34 : c = 34
      · simp [h34] at h; subst h; simp [quoteClose, h34]
      · simp only [h92, h34, if_false, Option.map_eq_some_iff] at h
        obtain ⟨a, ha, rfl⟩ := h
        have := quoteClose_append cs q false a ha
        simp [quoteClose, h92, h34, this.1]; exact this.2

/-- the bytewise scanner on a prefix: a result is the result on the whole input, with the rest
extended by what was cut off; the closing quote lies inside the prefix. -/
theorem parseQuoteScalarFallback_prefix (p q : Bytes) (s rest : Bytes)
    (h : parseQuoteScalarFallback p = .ok (s, rest)) :
    parseQuoteScalarFallback (p ++ q) = .ok (s, rest ++ q) ∧ s.length + 2 ≤ p.length := by
  cases p with
  | nil => simp [parseQuoteScalarFallback, quoteClose] at h
  | cons c hay =>
    simp only [parseQuoteScalarFallback, List.tail_cons] at h
    cases hq : quoteClose hay false with
    | none => simp [hq] at h
    | some k =>
      simp only [hq, quoteCut, Except.ok.injEq, Prod.mk.injEq] at h
      obtain ⟨rfl, rfl⟩ := h
      have := quoteClose_append hay q false k hq
      simp only [parseQuoteScalarFallback, List.cons_append, List.tail_cons, this.1, quoteCut]
      have hk := this.2
      refine ⟨?_, ?_⟩
      · congr 2
        · rw [List.take_append_of_le_length (by omega)]
        · rw [List.drop_append_of_le_length (by omega)]
      · simp; omega

/-! ### unquoted scalars -/

theorem findFirst_take (p : UInt8 → Bool) : ∀ (d : Bytes) (k : Nat),
    findFirst p (d.take k) = min (findFirst p d) k
  | [], k => by simp [findFirst]
  | c :: cs, 0 => by simp [findFirst]
  | c :: cs, k + 1 => by
    simp only [List.take_succ_cons, findFirst]
    split
    · simp
    · rw [findFirst_take p cs k]; omega

theorem findFirst_before (p : UInt8 → Bool) : ∀ (d : Bytes) (i : Nat) (h : i < d.length),
    i < findFirst p d → p d[i] = false
  | [], i, h, _ => by simp at h
  | c :: cs, i, h, hi => by
    simp only [findFirst] at hi
    split at hi
    · omega
    · next hc =>
      cases i with
      | zero => simpa using hc
      | succ i =>
        simp
        exact findFirst_before p cs i (by simpa using h) (by omega)

/-- C19 (text lexemes), quoted: a quoted scalar cut from a truncated input `d.take k` is exactly the
scalar the whole input yields at that place (never extended or merged with what follows), the
rest is the old rest plus what was cut off, and its closing quote lies inside the prefix. -/
theorem C19_quote_not_extended (d : Bytes) (k : Nat) (s rest : Bytes)
    (h : parseQuoteScalar (d.take k) = .ok (s, rest)) :
    parseQuoteScalar d = .ok (s, rest ++ d.drop k) ∧ s.length + 2 ≤ k := by
  cases hp : d.take k with
  | nil => rw [hp] at h; simp [parseQuoteScalar] at h
  | cons c hay =>
    rw [hp, parseQuoteScalar_eq_fallback] at h
    have := parseQuoteScalarFallback_prefix (c :: hay) (d.drop k) s rest h
    rw [← hp, List.take_append_drop] at this
    have hd : d = c :: (hay ++ d.drop k) := by
      have := List.take_append_drop k d; rw [hp] at this; exact this.symm
    refine ⟨?_, ?_⟩
    · rw [hd, parseQuoteScalar_eq_fallback, ← hd]; exact this.1
    · have h2 := this.2
      have : (d.take k).length ≤ k := by simp; omega
      omega

example : parseQuoteScalar (([34, 97, 34, 32, 34, 98, 34] : Bytes).take 3) = .ok ([97], []) := by rfl

/-- C19 (text lexemes), unquoted: an unquoted scalar cut from a truncated input `d.take k` is a
prefix of the scalar the whole input yields at that place; it is that very scalar unless it
reaches the cut (`rest = []`); and no byte after its first is a boundary byte (it never spans a
delimiter, so it is never merged with its neighbour). -/
theorem C19_scalar_not_merged (htab : Tables.sseBoundary = Tables.boundaryTab)
    (d : Bytes) (k : Nat) (s rest : Bytes)
    (h : splitAtScalar (d.take k) = some (s, rest)) :
    ∃ s' rest', splitAtScalar d = some (s', rest') ∧ s <+: s' ∧ (s = s' ∨ rest = []) ∧
      ∀ i (hi : i < s.length), 0 < i → isBoundary s[i] = false := by
  rw [splitAtScalar_eq_fallback htab] at h ⊢
  simp only [splitAtScalarFallback, splitAtChecked, findFirst_take] at h ⊢
  have hf := findFirst_le isBoundary d
  generalize hfd : findFirst isBoundary d = f at h hf ⊢
  split at h
  · next hm =>
    simp only [Option.some.injEq, Prod.mk.injEq] at h
    obtain ⟨rfl, rfl⟩ := h
    simp only [List.length_take] at hm
    have hle : max f 1 ≤ d.length := by omega
    refine ⟨d.take (max f 1), d.drop (max f 1), by simp [hle], ?_, ?_, ?_⟩
    · rw [List.take_take]
      have h2 : List.take (min (max (min f k) 1) k) d = List.take (max (min f k) 1) (List.take (max f 1) d) := by
        rw [List.take_take]; congr 1; omega
      rw [h2]; exact List.take_prefix _ _
    · by_cases hfk : f ≤ k
      · left
        rw [List.take_take]; congr 1; omega
      · right
        rw [List.drop_take]
        have : k - max (min f k) 1 = 0 := by omega
        rw [this]; simp
    · intro i hi h0
      simp only [List.length_take] at hi
      rw [List.getElem_take, List.getElem_take]
      apply findFirst_before
      omega
  · simp at h

end Jomini.TextTape
