import JominiModel.Proofs.TextTapeCutLex
import JominiModel.Proofs.TextTapeStable
import JominiModel.Proofs.TextTapeCutFields
import JominiModel.Proofs.TextTapeCutTail
import JominiModel.Proofs.TextTapePrefixB
/-
C19 (text tape parser): what the scalar scanners and the whole parser return on a truncated input.
-/
namespace Jomini.TextTape
open Jomini

/-- C19 (text lexemes), quoted: a quoted scalar cut from a truncated input `d.take k` is exactly the
scalar the whole input yields at that place (never extended or merged with what follows), the
rest is the old rest plus what was cut off, and its closing quote lies inside the prefix. -/
theorem C19_quote_not_extended (d : Bytes) (k : Nat) (s rest : Bytes)
    (h : parseQuoteScalar (d.take k) = .ok (s, rest)) :
    parseQuoteScalar d = .ok (s, rest ++ d.drop k) ∧ s.length + 2 ≤ k := by
  cases hp : d.take k with
  | nil => rw [hp] at h; simp [parseQuoteScalar] at h
  | cons c hay =>
    rw [hp, parseQuoteScalar_eq_fallback] at h
    have := parseQuoteScalarFallback_prefix (c :: hay) (d.drop k) s rest h
    rw [← hp, List.take_append_drop] at this
    have hd : d = c :: (hay ++ d.drop k) := by
      have := List.take_append_drop k d; rw [hp] at this; exact this.symm
    refine ⟨?_, ?_⟩
    · rw [hd, parseQuoteScalar_eq_fallback, ← hd]; exact this.1
    · have h2 := this.2
      have : (d.take k).length ≤ k := by simp; omega
      omega

example : parseQuoteScalar (([34, 97, 34, 32, 34, 98, 34] : Bytes).take 3) = .ok ([97], []) := by rfl

/-- C19 (text lexemes), unquoted: an unquoted scalar cut from a truncated input `d.take k` is a
prefix of the scalar the whole input yields at that place; it is that very scalar unless it
reaches the cut (`rest = []`); and no byte after its first is a boundary byte (it never spans a
delimiter, so it is never merged with its neighbour).  (The table identity `sseBoundary = boundaryTab`
the proof needs is discharged here, `sse_eq_tab`; it is no longer a hypothesis.) -/
theorem C19_scalar_not_merged (d : Bytes) (k : Nat) (s rest : Bytes)
    (h : splitAtScalar (d.take k) = some (s, rest)) :
    ∃ s' rest', splitAtScalar d = some (s', rest') ∧ s <+: s' ∧ (s = s' ∨ rest = []) ∧
      ∀ i (hi : i < s.length), 0 < i → isBoundary s[i] = false := by
  rw [splitAtScalar_eq_fallback sse_eq_tab] at h ⊢
  simp only [splitAtScalarFallback, splitAtChecked, findFirst_take] at h ⊢
  have hf := findFirst_le isBoundary d
  generalize hfd : findFirst isBoundary d = f at h hf ⊢
  split at h
  · next hm =>
    simp only [Option.some.injEq, Prod.mk.injEq] at h
    obtain ⟨rfl, rfl⟩ := h
    simp only [List.length_take] at hm
    have hle : max f 1 ≤ d.length := by omega
    refine ⟨d.take (max f 1), d.drop (max f 1), by simp [hle], ?_, ?_, ?_⟩
    · rw [List.take_take]
      have h2 : List.take (min (max (min f k) 1) k) d = List.take (max (min f k) 1) (List.take (max f 1) d) := by
        rw [List.take_take]; congr 1; omega
      rw [h2]; exact List.take_prefix _ _
    · by_cases hfk : f ≤ k
      · left
        rw [List.take_take]; congr 1; omega
      · right
        rw [List.drop_take]
        have : k - max (min f k) 1 = 0 := by omega
        rw [this]; simp
    · intro i hi h0
      simp only [List.length_take] at hi
      rw [List.getElem_take, List.getElem_take]
      apply findFirst_before
      omega
  · simp at h

/-- the hypothesis is satisfiable: `ab=c` cut after `a`. -/
example : splitAtScalar (([97, 98, 61, 99] : Bytes).take 1) = some ([97], []) := by decide +kernel

/-! ### the whole parser on a truncated input -/

/-- C19 (text tape), step level: one iteration of the main loop that stops at least two bytes
before the end of a truncated input does exactly the same on every extension of that input
(same next state, same tokens; the positions, recorded relative to the end of the input, shift
by the length of the extension).  Two bytes is the parser's maximal lookahead. -/
theorem C19_text_tape_step (n1 n2 : Nat) (st st' : St) (dp d' q : Bytes)
    (h : step n1 st dp = .cont st' d') (hd : 2 ≤ d'.length) :
    step n2 (st.shift q.length) (dp ++ q) = .cont (st'.shift q.length) (d' ++ q) := by
  simp only [step] at h ⊢
  cases hsk : skipWs dp with
  | none => simp [hsk] at h
  | some x =>
    simp only [hsk] at h
    rw [skipWs_append q hsk]
    obtain ⟨c, cs, rfl, _⟩ := skipWsAux_some dp false x hsk
    simpa using stepAt_append (n2 := n2) q h hd

/-- C19 (text tape), stability: once the parser is in a state `st`, the tokens below every open
container and below the last token (`Frozen f st`) are final: whatever input follows, a successful
parse returns them unchanged.  (So completed top-level fields are never revised.) -/
theorem C19_text_tape_stable (n f fuel : Nat) (st : St) (d : Bytes) (T : List Tok) (b : Bool)
    (hinv : StInv st) (hf : Frozen f st) (h : run n fuel st d = .ok T b) :
    T.take f = st.tape.take f :=
  run_frozen n f fuel st d T b hinv hf h

/-! ### the split point of a cut, pinned

Full statement (C19, text tape parser): for every input `d` and `k`, if
`parse (d.take k) = .ok T' b'` and `parse d = .ok T b` then every completed top-level field of T'
equals the corresponding field of T and at most the last one differs or is absent (with the
single-level auto-close at EOF accounted for).

All statements below are about ONE object that is a function of the input: the state of the main
loop after exactly `j` iterations (`iter`, Proofs/TextTapeCutTail.lean).  `CutSplit d k T' T j st0 d0`
says that the truncated run and the full run are both in the state `st0` (the full one with its
positions shifted by `|d| - k`) after the same `j` iterations, that the truncated run has fewer
than two bytes of lookahead left after its next iteration, and that the two runs end with `T'` and
`T` from there.  Nothing in it is chosen freely: `st0`, `d0` are determined by `j`
(`iter` is a function), `T'` and `T` are determined by `d`, `k` (`C19_text_tape_split_pins`).
-/

/-- the cursor at the start of the main loop: behind the BOM, if there is one -/
def afterBom (d : Bytes) : Bytes := if hasBom d = true then d.drop 3 else d

/-- the split point of the cut `k` of `d`: see the section comment. -/
structure CutSplit (d : Bytes) (k : Nat) (T' T : List Tok) (j : Nat) (st0 : St) (d0 : Bytes) : Prop where
  /-- the shape invariant of the loop -/
  inv : StInv st0
  /-- the TRUNCATED run is in state `st0` with cursor `d0` after exactly `j` iterations -/
  reach' : iter (d.take k).length j St.init (afterBom (d.take k)) = some (st0, d0)
  /-- the FULL run is in the same state (positions shifted) after the same `j` iterations, its cursor
  is `d0` followed by the bytes behind the cut -/
  reach : iter d.length j St.init (afterBom d) = some (st0.shift (d.length - k), d0 ++ d.drop k)
  /-- `j` is maximal for the lookahead argument: the next truncated iteration ends the parse or
  leaves fewer than two bytes -/
  short : Short (d.take k).length st0 d0
  /-- the truncated run ends with `T'` from there -/
  rest' : ∃ fuel b', run (d.take k).length fuel st0 d0 = .ok T' b'
  /-- the full run ends with `T` from there -/
  rest : ∃ fuel b, run d.length fuel (st0.shift (d.length - k)) (d0 ++ d.drop k) = .ok T b

/-- a run that ends after `j` more iterations from a state the loop reaches is the parse -/
theorem parse_of_iter {d : Bytes} {j fuel : Nat} {st0 : St} {d0 : Bytes} {T : List Tok} {b : Bool}
    (hr : iter d.length j St.init (afterBom d) = some (st0, d0))
    (h : run d.length fuel st0 d0 = .ok T b) : parse d = .ok T (hasBom d) := by
  have h1 := run_iter _ j _ _ _ _ hr fuel
  rw [h] at h1
  have h2 := run_fuel d.length (fuelFor (afterBom d)) St.init (afterBom d)
    (by simp [mu, fuelFor, St.init, flag])
  have h3 := run_det h1 (by simp) rfl h2
  show (run d.length (fuelFor (afterBom d)) St.init (afterBom d)).withBom (hasBom d) = _
  rw [← h3]; rfl

/-- C19 (text tape): the split relation is not satisfiable by unrelated tapes — it determines both
of them: `T'` is the tape of the truncated input and `T` the tape of the whole input. -/
theorem C19_text_tape_split_pins {d : Bytes} {k : Nat} {T' T : List Tok} {j : Nat} {st0 : St} {d0 : Bytes}
    (hs : CutSplit d k T' T j st0 d0) :
    parse (d.take k) = .ok T' (hasBom (d.take k)) ∧ parse d = .ok T (hasBom d) := by
  obtain ⟨f', b', h'⟩ := hs.rest'
  obtain ⟨f, b, h⟩ := hs.rest
  exact ⟨parse_of_iter hs.reach' h', parse_of_iter hs.reach h⟩

/-- C19 (text tape), the split point exists for ALL inputs and ALL cuts: if the truncated input and
the whole input both parse, the two runs pass through the same state after the same number of
iterations, and behind it the truncated run has fewer than two bytes of lookahead. -/
theorem C19_text_tape_split (d : Bytes) (k : Nat) (T' T : List Tok) (b' b : Bool)
    (hk : k ≤ d.length) (hbom : hasBom (d.take k) = hasBom d)
    (h' : parse (d.take k) = .ok T' b') (h : parse d = .ok T b) :
    ∃ (j : Nat) (st0 : St) (d0 : Bytes), CutSplit d k T' T j st0 d0 := by
  have hq : (d.drop k).length = d.length - k := by simp
  unfold parse at h' h
  simp only at h' h
  have hab' : afterBom (d.take k) = (if hasBom d = true then List.drop 3 (d.take k) else d.take k) := by
    unfold afterBom; rw [hbom]
  rw [hbom] at h'
  rw [← hab'] at h'
  change (run d.length (fuelFor (afterBom d)) St.init (afterBom d)).withBom (hasBom d) = _ at h
  have hsplit : afterBom d = afterBom (d.take k) ++ d.drop k := by
    rw [hab']; unfold afterBom
    split
    · next hb =>
      have hk3 : 3 ≤ k := by
        rcases Nat.lt_or_ge k 3 with hlt | hge
        · exfalso
          have : hasBom (d.take k) = false := by
            simp only [hasBom, beq_eq_false_iff_ne, ne_eq]
            intro h0
            have := congrArg List.length h0
            simp at this; omega
          rw [hbom, hb] at this; simp at this
        · exact hge
      rw [← List.drop_append_of_le_length (by simp; omega), List.take_append_drop]
    · exact (List.take_append_drop k d).symm
  generalize hrp : run (d.take k).length (fuelFor (afterBom (d.take k))) St.init (afterBom (d.take k)) = rp at h'
  generalize hrd : run d.length (fuelFor (afterBom d)) St.init (afterBom d) = rd at h
  have hrp' : ∃ bp, rp = .ok T' bp := by cases rp <;> simp [Res.withBom] at h'; exact ⟨_, by rw [h'.1]⟩
  have hrd' : ∃ bd, rd = .ok T bd := by cases rd <;> simp [Res.withBom] at h; exact ⟨_, by rw [h.1]⟩
  obtain ⟨bp, rfl⟩ := hrp'
  obtain ⟨bd, rfl⟩ := hrd'
  obtain ⟨j, st0, d0, fuel0, hinv0, hit1, hit2, hshort, hrun0⟩ :=
    iter_lockstep (d.take k).length d.length (d.drop k) _ St.init _ _ _ hrp StInv.init
  rw [← hsplit, show St.init.shift (d.drop k).length = St.init from rfl, hq] at hit2
  have hD : run d.length (fuelFor (afterBom d)) (st0.shift (d.length - k)) (d0 ++ d.drop k) = .ok T bd := by
    have := run_iter _ j _ _ _ _ hit2 (fuelFor (afterBom d))
    rw [run_more_fuel _ _ j _ _ _ hrd (by simp)] at this
    exact this.symm
  exact ⟨j, st0, d0, hinv0, hit1, hit2, hshort, ⟨_, _, hrun0⟩, ⟨_, _, hD⟩⟩

theorem frozenLen_nil {st : St} (h : st.tape = []) : frozenLen st = 0 := by
  unfold frozenLen; rw [h]; split <;> rfl

/-- at ANY split point: the final tokens of the split state (`frozenLen`, a function of the state)
are common to both tapes. -/
theorem CutSplit.common_prefix {d : Bytes} {k : Nat} {T' T : List Tok} {j : Nat} {st0 : St} {d0 : Bytes}
    (hs : CutSplit d k T' T j st0 d0) :
    T'.take (frozenLen st0) = st0.tape.take (frozenLen st0) ∧
    T.take (frozenLen st0) = (st0.tape.take (frozenLen st0)).map (Tok.shift (d.length - k)) := by
  by_cases hne : st0.tape = []
  · rw [frozenLen_nil hne]; simp
  · obtain ⟨f', b', h'⟩ := hs.rest'
    obtain ⟨f, b, h⟩ := hs.rest
    have hf := frozen_frozenLen hs.inv hne
    have h1 := run_frozen _ _ _ _ _ _ _ hs.inv hf h'
    have h2 := run_frozen _ _ _ _ _ _ _ (hs.inv.shift _) (hf.shift _) h
    refine ⟨h1, ?_⟩
    rw [h2, St.shift_tape, List.map_take]

/-- at ANY split point: the tail behind the split state's tape, and the settled tokens of it. -/
theorem CutSplit.tail {d : Bytes} {k : Nat} {T' T : List Tok} {j : Nat} {st0 : St} {d0 : Bytes}
    (hs : CutSplit d k T' T j st0 d0) :
    st0.tape.length ≤ T'.length ∧ st0.tape.length ≤ T.length ∧ T'.length ≤ st0.tape.length + 6 ∧
    (∀ i, i + 1 < st0.tape.length → NotOpen st0.tape i →
      T'[i]? = st0.tape[i]? ∧ T[i]? = (st0.tape[i]?).map (Tok.shift (d.length - k))) := by
  obtain ⟨f', b', h'⟩ := hs.rest'
  obtain ⟨f, b, h⟩ := hs.rest
  refine ⟨run_len_le _ _ _ _ _ _ hs.inv h', ?_, short_tail_sharp hs.short _ _ _ h', ?_⟩
  · have := run_len_le _ _ _ _ _ _ (hs.inv.shift _) h
    simpa [St.shift_tape] using this
  · intro i hi hn
    refine ⟨run_settled _ _ _ _ _ _ i hs.inv hi hn h', ?_⟩
    have := run_settled _ _ _ _ _ _ i (hs.inv.shift (d.length - k)) (by simpa [St.shift_tape] using hi)
      (by simpa [St.shift_tape] using hn.shift (d.length - k)) h
    rw [this, St.shift_tape, getElem?_shift]

/-- at ANY split point: the complete top-level fields inside the final part of the split state. -/
theorem CutSplit.fields {d : Bytes} {k : Nat} {T' T : List Tok} {j : Nat} {st0 : St} {d0 : Bytes}
    (hs : CutSplit d k T' T j st0 d0) :
    ∃ (D tail' tail : List Tok) (x y : Bool),
      D = st0.tape.take D.length ∧ D.length ≤ frozenLen st0 ∧
      T' = D ++ tail' ∧ T = D.map (Tok.shift (d.length - k)) ++ tail ∧
      Gr (.body false) D 0 ∧ Gr (.body x) tail' D.length ∧ Gr (.body y) tail D.length ∧
      (tail' = [] ∨ tail'.head? = some .mixedContainer ∨ FirstBeyond tail' (frozenLen st0 - D.length)) := by
  obtain ⟨hc1, hc2⟩ := hs.common_prefix
  obtain ⟨hp', hp⟩ := C19_text_tape_split_pins hs
  generalize frozenLen st0 = m at hc1 hc2 ⊢
  have hcom : T.take m = (T'.take m).map (Tok.shift (d.length - k)) := by rw [hc1, hc2]
  obtain ⟨x, hx⟩ := parse_gr _ T' _ hp'
  obtain ⟨y, hy⟩ := parse_gr _ T _ hp
  obtain ⟨D, tail', rfl, hD, htail', hlen, hlast⟩ := hx.split x rfl m
  have hDT : T.take D.length = D.map (Tok.shift (d.length - k)) := by
    have h1 : (T.take m).take D.length =
        (((D ++ tail').take m).take D.length).map (Tok.shift (d.length - k)) := by
      rw [hcom]; simp only [List.map_take]
    rw [List.take_take, List.take_take, Nat.min_eq_left hlen] at h1
    rw [h1, List.take_left']
    rfl
  have hTsplit : T = D.map (Tok.shift (d.length - k)) ++ T.drop D.length := by
    rw [← hDT, List.take_append_drop]
  have hDC : D = st0.tape.take D.length := by
    have h1 : ((D ++ tail').take m).take D.length = (st0.tape.take m).take D.length := by rw [hc1]
    rw [List.take_take, List.take_take, Nat.min_eq_left hlen, List.take_left' rfl] at h1
    exact h1
  refine ⟨D, tail', T.drop D.length, x, y, hDC, hlen, rfl, hTsplit, hD, ?_, ?_, hlast⟩
  · simpa using htail'
  · have := (hD.shift (d.length - k)).uncons_prefix rfl y (T.drop D.length) (by rw [← hTsplit]; exact hy)
    simpa using this

/-- C19 (text tape), the common prefix, ALL inputs and ALL cuts.  With `C` the tape the truncated
run AND the full run (positions shifted) have after the same `j` iterations (`CutSplit`): the final
tokens of `C` — all but the last one at the top level, everything in front of the open top-level
container otherwise; `frozenLen` is a function of the state — are a prefix of the truncated tape and
(shifted) of the full tape; the truncated tape has at most six tokens behind `C`, and `C` is not longer
than the full tape. -/
theorem C19_text_tape_common_prefix (d : Bytes) (k : Nat) (T' T : List Tok) (b' b : Bool)
    (hk : k ≤ d.length) (hbom : hasBom (d.take k) = hasBom d)
    (h' : parse (d.take k) = .ok T' b') (h : parse d = .ok T b) :
    ∃ (j : Nat) (st0 : St) (d0 : Bytes), CutSplit d k T' T j st0 d0 ∧
      T'.take (frozenLen st0) = st0.tape.take (frozenLen st0) ∧
      T.take (frozenLen st0) = (st0.tape.take (frozenLen st0)).map (Tok.shift (d.length - k)) ∧
      st0.tape.length ≤ T'.length ∧ st0.tape.length ≤ T.length ∧ T'.length ≤ st0.tape.length + 6 := by
  obtain ⟨j, st0, d0, hs⟩ := C19_text_tape_split d k T' T b' b hk hbom h' h
  obtain ⟨t1, t2, t3, _⟩ := hs.tail
  exact ⟨j, st0, d0, hs, hs.common_prefix.1, hs.common_prefix.2, t1, t2, t3⟩

/-- the hypotheses are satisfiable, an instance on a real cut: `a=b cd=e` cut after `a=b` (both
parses succeed, no BOM). -/
example :
    let d : Bytes := [97, 61, 98, 32, 99, 100, 61, 101]
    let T' : List Tok := [.unquoted ⟨3, [97]⟩, .unquoted ⟨1, [98]⟩]
    let T : List Tok := [.unquoted ⟨8, [97]⟩, .unquoted ⟨6, [98]⟩, .unquoted ⟨4, [99, 100]⟩, .unquoted ⟨1, [101]⟩]
    ∃ (j : Nat) (st0 : St) (d0 : Bytes), CutSplit d 3 T' T j st0 d0 ∧
      T'.take (frozenLen st0) = st0.tape.take (frozenLen st0) ∧
      T.take (frozenLen st0) = (st0.tape.take (frozenLen st0)).map (Tok.shift (d.length - 3)) ∧
      st0.tape.length ≤ T'.length ∧ st0.tape.length ≤ T.length ∧ T'.length ≤ st0.tape.length + 6 :=
  C19_text_tape_common_prefix _ 3 _ _ false false (by decide) (by decide +kernel) (by decide +kernel)
    (by decide +kernel)

/-- NON-instance: the conclusion is not satisfiable by unrelated parses.  For `d = "c=d"`, `k = 3`
(so the truncated input is `d` itself) and `T'` := the tape of `"a=b"`, `T` := the tape of `"c=d"`
— two successful, unrelated parses — the conclusion of `C19_text_tape_common_prefix` is FALSE. -/
example :
    let d : Bytes := [99, 61, 100]
    let T' : List Tok := [.unquoted ⟨3, [97]⟩, .unquoted ⟨1, [98]⟩]
    let T : List Tok := [.unquoted ⟨3, [99]⟩, .unquoted ⟨1, [100]⟩]
    parse [97, 61, 98] = .ok T' false ∧ parse d = .ok T false ∧
    ¬ ∃ (j : Nat) (st0 : St) (d0 : Bytes), CutSplit d 3 T' T j st0 d0 ∧
      T'.take (frozenLen st0) = st0.tape.take (frozenLen st0) ∧
      T.take (frozenLen st0) = (st0.tape.take (frozenLen st0)).map (Tok.shift (d.length - 3)) ∧
      st0.tape.length ≤ T'.length ∧ st0.tape.length ≤ T.length ∧ T'.length ≤ st0.tape.length + 6 := by
  refine ⟨by decide +kernel, by decide +kernel, ?_⟩
  rintro ⟨j, st0, d0, hs, _⟩
  exact absurd (C19_text_tape_split_pins hs).1 (by decide +kernel)

/-
C19 (text tape), field level.  Full statement: every completed top-level field of the truncated
parse's tape equals the full parse's, and at most the last field differs or is absent.

Proved for ALL inputs and ALL cuts, about the pinned split state `st0` (tape `C`, the tape both runs
have after the same `j` iterations): both result tapes are regular bodies (`parse_gr`); the truncated
tape is `D ++ tail'` and the full tape is `D` (positions shifted) `++ tail`, where `D` is a sequence of
complete top-level fields which is a prefix of `C` — namely ALL complete top-level fields of the
truncated tape that end inside the final part of `C` (`frozenLen st0`: at the top level all of `C`
but its last token): the field of `tail'` that follows `D` reaches beyond that point (`FirstBeyond`),
so `D` is determined by `C` (`Gr.val_det`), and `D = []` only if the first field already reaches
beyond it.  `tail'`, `tail` are again regular bodies.
Missing for the full statement (hence `_partial`):
(1) what lies behind the field that follows `D` in `tail'`.  It need not be the last field: for
    `a=b [[x] v]` cut at its end the split point is in front of `[[` (the one remaining iteration
    consumes the rest), so `a=b` is the field reaching beyond the final part (its `b` could still
    become a header) and `[[x] v]` is completed behind it — both also occur in the full tape.
(2) inside a still open top-level container (`a={ … ` cut inside) `frozenLen` stops at that
    container, so the fields completed INSIDE it are not covered here; tokenwise they are covered by
    `C19_text_tape_tail_sharp` (every settled token of `C`).
Closing (1) needs the comparison of the LAST iterations (at most three, fewer than two bytes of
lookahead after the first) of the truncated run with the full run on the lexeme being cut, state
by state; it is done for cuts on lexeme boundaries (`C19_text_tape_boundary_cut`); for the other cuts
the `tcut` correspondence op and its oracle cover it on the real code.
-/
theorem C19_text_tape_fields_partial (d : Bytes) (k : Nat) (T' T : List Tok) (b' b : Bool)
    (hk : k ≤ d.length) (hbom : hasBom (d.take k) = hasBom d)
    (h' : parse (d.take k) = .ok T' b') (h : parse d = .ok T b) :
    ∃ (j : Nat) (st0 : St) (d0 : Bytes), CutSplit d k T' T j st0 d0 ∧
      ∃ (D tail' tail : List Tok) (x y : Bool),
        D = st0.tape.take D.length ∧ D.length ≤ frozenLen st0 ∧
        T' = D ++ tail' ∧ T = D.map (Tok.shift (d.length - k)) ++ tail ∧
        Gr (.body false) D 0 ∧ Gr (.body x) tail' D.length ∧ Gr (.body y) tail D.length ∧
        (tail' = [] ∨ tail'.head? = some .mixedContainer ∨
          FirstBeyond tail' (frozenLen st0 - D.length)) := by
  obtain ⟨j, st0, d0, hs⟩ := C19_text_tape_split d k T' T b' b hk hbom h' h
  exact ⟨j, st0, d0, hs, hs.fields⟩

/-- the hypotheses are satisfiable, an instance on a real cut: `a=b c=d e=f` cut after `a=b c=d e`
does not parse, cut after `a=b c=d` it does. -/
example :
    let d : Bytes := [97, 61, 98, 32, 99, 61, 100, 32, 101, 61, 102]
    let T' : List Tok := [.unquoted ⟨7, [97]⟩, .unquoted ⟨5, [98]⟩, .unquoted ⟨3, [99]⟩, .unquoted ⟨1, [100]⟩]
    let T : List Tok := [.unquoted ⟨11, [97]⟩, .unquoted ⟨9, [98]⟩, .unquoted ⟨7, [99]⟩, .unquoted ⟨5, [100]⟩,
      .unquoted ⟨3, [101]⟩, .unquoted ⟨1, [102]⟩]
    ∃ (j : Nat) (st0 : St) (d0 : Bytes), CutSplit d 7 T' T j st0 d0 ∧
      ∃ (D tail' tail : List Tok) (x y : Bool),
        D = st0.tape.take D.length ∧ D.length ≤ frozenLen st0 ∧
        T' = D ++ tail' ∧ T = D.map (Tok.shift (d.length - 7)) ++ tail ∧
        Gr (.body false) D 0 ∧ Gr (.body x) tail' D.length ∧ Gr (.body y) tail D.length ∧
        (tail' = [] ∨ tail'.head? = some .mixedContainer ∨
          FirstBeyond tail' (frozenLen st0 - D.length)) :=
  C19_text_tape_fields_partial _ 7 _ _ false false (by decide) (by decide +kernel) (by decide +kernel)
    (by decide +kernel)

/-- the field structure of a truncated tape: `D = [a, b]` is a regular body. -/
example : Gr (.body false) [.unquoted ⟨3, [97]⟩, .unquoted ⟨1, [98]⟩] 0 :=
  Gr.bfield (ops := []) (v := [.unquoted ⟨1, [98]⟩]) (rest := []) rfl (.inl rfl) (Gr.scal rfl) Gr.bnil

/-- NON-instance: for the unrelated successful parses of `"a=b"` and `"c=d"` (`d = "c=d"`, `k = 3`) the
conclusion of `C19_text_tape_fields_partial` is FALSE (the old statement was satisfied by `D = []`). -/
example :
    let d : Bytes := [99, 61, 100]
    let T' : List Tok := [.unquoted ⟨3, [97]⟩, .unquoted ⟨1, [98]⟩]
    let T : List Tok := [.unquoted ⟨3, [99]⟩, .unquoted ⟨1, [100]⟩]
    ¬ ∃ (j : Nat) (st0 : St) (d0 : Bytes), CutSplit d 3 T' T j st0 d0 ∧
      ∃ (D tail' tail : List Tok) (x y : Bool),
        D = st0.tape.take D.length ∧ D.length ≤ frozenLen st0 ∧
        T' = D ++ tail' ∧ T = D.map (Tok.shift (d.length - 3)) ++ tail ∧
        Gr (.body false) D 0 ∧ Gr (.body x) tail' D.length ∧ Gr (.body y) tail D.length ∧
        (tail' = [] ∨ tail'.head? = some .mixedContainer ∨
          FirstBeyond tail' (frozenLen st0 - D.length)) := by
  intro d T' T
  rintro ⟨j, st0, d0, hs, _⟩
  exact absurd (C19_text_tape_split_pins hs).1 (by decide +kernel)

/-
C19 (text tape), the tail behind the split point.  Sketch of the full statement: every token of
the truncated tape beyond the common fields is either (a) a token of the full tape at the same
position (modulo the `end` pointers of containers closed by the EOF tolerance) or (b) stems from
the one lexeme the cut shortened.

Proved for ALL inputs and ALL cuts, about the pinned split state (`C` = `st0.tape`, the tape BOTH
runs have after the same `j` iterations, `CutSplit`):
(1) pointwise (a): every token of `C` except its last one and the containers still open at the
    split point is the same token of the truncated tape and (positions shifted) of the full tape —
    also INSIDE the still open top-level container, which the prefix statements above do not reach;
(2) the tail is short: the truncated tape has at most SIX tokens behind `C` (three in the iteration
    that leaves fewer than two bytes, at most two for the last byte — KeyValueSeparator may insert
    `MixedContainer` and hand the byte on — and the `End` of the EOF tolerance; the bound is attained)
    and `C` is not longer than the full tape;
(3) nothing is fabricated: every scalar of the truncated tape carries exactly the bytes the FULL
    input has at the scalar's offset, inside the truncated part.
`C19_text_tape_boundary_cut` sharpens this for cuts on lexeme boundaries: the truncated tape IS the
full run's tape at that iteration, plus the EOF tolerance — only cases (a) and (c).
Still missing for the full statement: for cuts INSIDE a lexeme (or where the continuation starts
with `=`, `[` or a byte that is not a boundary) the classification of the at most six tail tokens
into (a) and (b) — the comparison of the last iterations with the full run's on the shortened
lexeme (its lexeme-level part is `C19_scalar_not_merged` / `C19_quote_not_extended`) — and what
happens to the containers open at the split point (they keep their index and kind; the `end` / flag
fields are written when they are closed).  With it `C19_text_tape_fields_partial` would lose its
`_partial`.  (The earlier `C19_text_tape_tail_partial`, bound 13 and an unpinned `C`, is superseded
and removed.)
-/
theorem C19_text_tape_tail_sharp (d : Bytes) (k : Nat) (T' T : List Tok) (b' b : Bool)
    (hk : k ≤ d.length) (hbom : hasBom (d.take k) = hasBom d)
    (h' : parse (d.take k) = .ok T' b') (h : parse d = .ok T b) :
    ∃ (j : Nat) (st0 : St) (d0 : Bytes), CutSplit d k T' T j st0 d0 ∧
      st0.tape.length ≤ T'.length ∧ st0.tape.length ≤ T.length ∧ T'.length ≤ st0.tape.length + 6 ∧
      (∀ i, i + 1 < st0.tape.length → NotOpen st0.tape i →
        T'[i]? = st0.tape[i]? ∧ T[i]? = (st0.tape[i]?).map (Tok.shift (d.length - k))) ∧
      (∀ s ∈ slices T', s.bytes.length ≤ s.tail ∧ s.tail ≤ k ∧
        s.bytes = (d.drop (k - s.tail)).take s.bytes.length) := by
  obtain ⟨j, st0, d0, hs⟩ := C19_text_tape_split d k T' T b' b hk hbom h' h
  obtain ⟨t1, t2, t3, t4⟩ := hs.tail
  exact ⟨j, st0, d0, hs, t1, t2, t3, t4, scalars_from_full d k hk T' b' h'⟩

/-- the hypotheses are satisfiable, an instance on a real cut: the EOF tolerance, `a={b=c d=e}` cut
after `a={b=c` (tapes: see the example below). -/
example :
    let d : Bytes := [97, 61, 123, 98, 61, 99, 32, 100, 61, 101, 125]
    let T' : List Tok := [.unquoted ⟨6, [97]⟩, .object 4 false, .unquoted ⟨3, [98]⟩, .unquoted ⟨1, [99]⟩, .endTok 1]
    let T : List Tok := [.unquoted ⟨11, [97]⟩, .object 6 false, .unquoted ⟨8, [98]⟩, .unquoted ⟨6, [99]⟩,
        .unquoted ⟨4, [100]⟩, .unquoted ⟨2, [101]⟩, .endTok 1]
    ∃ (j : Nat) (st0 : St) (d0 : Bytes), CutSplit d 6 T' T j st0 d0 ∧
      st0.tape.length ≤ T'.length ∧ st0.tape.length ≤ T.length ∧ T'.length ≤ st0.tape.length + 6 ∧
      (∀ i, i + 1 < st0.tape.length → NotOpen st0.tape i →
        T'[i]? = st0.tape[i]? ∧ T[i]? = (st0.tape[i]?).map (Tok.shift (d.length - 6))) ∧
      (∀ s ∈ slices T', s.bytes.length ≤ s.tail ∧ s.tail ≤ 6 ∧
        s.bytes = (d.drop (6 - s.tail)).take s.bytes.length) :=
  C19_text_tape_tail_sharp _ 6 _ _ false false (by decide) (by decide +kernel) (by decide +kernel)
    (by decide +kernel)

/-- NON-instance: for the unrelated successful parses of `"a=b"` and `"c=d"` (`d = "c=d"`, `k = 3`) the
conclusion of `C19_text_tape_tail_sharp` is FALSE (the old statement was satisfied by a dummy `C` of
open containers). -/
example :
    let d : Bytes := [99, 61, 100]
    let T' : List Tok := [.unquoted ⟨3, [97]⟩, .unquoted ⟨1, [98]⟩]
    let T : List Tok := [.unquoted ⟨3, [99]⟩, .unquoted ⟨1, [100]⟩]
    ¬ ∃ (j : Nat) (st0 : St) (d0 : Bytes), CutSplit d 3 T' T j st0 d0 ∧
      st0.tape.length ≤ T'.length ∧ st0.tape.length ≤ T.length ∧ T'.length ≤ st0.tape.length + 6 ∧
      (∀ i, i + 1 < st0.tape.length → NotOpen st0.tape i →
        T'[i]? = st0.tape[i]? ∧ T[i]? = (st0.tape[i]?).map (Tok.shift (d.length - 3))) ∧
      (∀ s ∈ slices T', s.bytes.length ≤ s.tail ∧ s.tail ≤ 3 ∧
        s.bytes = (d.drop (3 - s.tail)).take s.bytes.length) := by
  intro d T' T
  rintro ⟨j, st0, d0, hs, _⟩
  exact absurd (C19_text_tape_split_pins hs).1 (by decide +kernel)

/-- cut inside a scalar (`a=bc d=e` after `a=b`): the truncated scalar `b` is a proper prefix of the
full scalar `bc` at the same offset -/
example :
    parse (([97, 61, 98, 99, 32, 100, 61, 101] : Bytes).take 3) =
      .ok [.unquoted ⟨3, [97]⟩, .unquoted ⟨1, [98]⟩] false ∧
    parse [97, 61, 98, 99, 32, 100, 61, 101] =
      .ok [.unquoted ⟨8, [97]⟩, .unquoted ⟨6, [98, 99]⟩, .unquoted ⟨3, [100]⟩, .unquoted ⟨1, [101]⟩] false := by
  decide +kernel

/-- cut between key and operator (`a=b c=d` after `a=b c`): the truncated input does not parse -/
example : parse (([97, 61, 98, 32, 99, 61, 100] : Bytes).take 5) = .err .eof := by decide +kernel

/-- cut before `[[` (`a=b [[x] v]` after `a=b `): the truncated tape is a prefix of the full one; the
scalar `b` could still have become a header (next example) -/
example :
    parse (([97, 61, 98, 32, 91, 91, 120, 93, 32, 118, 93] : Bytes).take 4) =
      .ok [.unquoted ⟨4, [97]⟩, .unquoted ⟨2, [98]⟩] false ∧
    parse [97, 61, 98, 32, 91, 91, 120, 93, 32, 118, 93] =
      .ok [.unquoted ⟨11, [97]⟩, .unquoted ⟨9, [98]⟩, .parameter ⟨5, [120]⟩, .unquoted ⟨2, [118]⟩] false := by
  decide +kernel

/-- a scalar whose role changes because its successor is missing (`a=b{1}` after `a=b`): `b` is a
value in the truncated tape and the header of the array in the full tape -/
example :
    parse (([97, 61, 98, 123, 49, 125] : Bytes).take 3) =
      .ok [.unquoted ⟨3, [97]⟩, .unquoted ⟨1, [98]⟩] false ∧
    parse [97, 61, 98, 123, 49, 125] =
      .ok [.unquoted ⟨6, [97]⟩, .header ⟨4, [98]⟩, .array 4 false, .unquoted ⟨2, [49]⟩, .endTok 2] false := by
  decide +kernel

/-- the EOF tolerance (`a={b=c d=e}` after `a={b=c`): the open object is closed by the end of the
input; its `end` pointer differs from the full tape's, every other common token is the same -/
example :
    parse (([97, 61, 123, 98, 61, 99, 32, 100, 61, 101, 125] : Bytes).take 6) =
      .ok [.unquoted ⟨6, [97]⟩, .object 4 false, .unquoted ⟨3, [98]⟩, .unquoted ⟨1, [99]⟩, .endTok 1] false ∧
    parse [97, 61, 123, 98, 61, 99, 32, 100, 61, 101, 125] =
      .ok [.unquoted ⟨11, [97]⟩, .object 6 false, .unquoted ⟨8, [98]⟩, .unquoted ⟨6, [99]⟩,
        .unquoted ⟨4, [100]⟩, .unquoted ⟨2, [101]⟩, .endTok 1] false := by
  decide +kernel

/-- the bound is attained: `a={[[x] k }` (cut = whole input) — the split point is in front of `[[`
(tape `a, Object`), behind it come `Parameter, Object, MixedContainer, Unquoted, End, End` -/
example : parse [97, 61, 123, 91, 91, 120, 93, 32, 107, 32, 125] =
    .ok [.unquoted ⟨11, [97]⟩, .object 7 false, .parameter ⟨6, [120]⟩, .object 6 true, .mixedContainer,
      .unquoted ⟨3, [107]⟩, .endTok 3, .endTok 1] false := by
  decide +kernel

/-- C19 (text tape), **cuts on lexeme boundaries** — for every input and every cut whose
continuation is empty or starts with a separator byte (`SepQ`: a boundary byte other than `=` and
`[`, i.e. the cut prefix ends where a lexeme of the full input ends, or inside / in front of a blank
or comment run): if the truncated input parses, then the full run passes through a Key state `st0`
(after `j` iterations, cursor in front of the blanks `d0` and the continuation) and the truncated
tape is EXACTLY the tape of that state — all tokens equal, positions equal (`Tok.shift` only
accounts for positions being stored as distances to the end of the input) — or that tape with the
EOF tolerance applied: the `End` of the ONE open top-level container appended and its `Object` token
given its `end`.  Nothing is fabricated and nothing is re-typed; and every token of that tape that
is neither its last token nor a still open container is final in the full tape as well. -/
theorem C19_text_tape_boundary_cut (d : Bytes) (k : Nat) (T' T : List Tok) (b' b : Bool)
    (hk : k ≤ d.length) (hbom : hasBom (d.take k) = hasBom d) (hsep : SepQ (d.drop k))
    (h' : parse (d.take k) = .ok T' b') (h : parse d = .ok T b) :
    ∃ (st0 : St) (d0 : Bytes) (j fuel : Nat) (bd : Bool),
      StInv st0 ∧ st0.state = .key ∧ skipWs d0 = none ∧
      (∀ F, run d.length (F + j) St.init (if hasBom d = true then d.drop 3 else d) =
        run d.length F (st0.shift (d.length - k)) (d0 ++ d.drop k)) ∧
      run d.length fuel (st0.shift (d.length - k)) (d0 ++ d.drop k) = .ok T bd ∧
      ((st0.parent = 0 ∧ T' = st0.tape) ∨
       (st0.parent ≠ 0 ∧ endOf st0.tape[st0.parent]? = 0 ∧
         T' = (st0.tape ++ [Tok.endTok st0.parent]).set st0.parent (Tok.object st0.tape.length false))) ∧
      st0.tape.length ≤ T.length ∧
      (∀ i, i + 1 < st0.tape.length → NotOpen st0.tape i →
        T[i]? = (st0.tape[i]?).map (Tok.shift (d.length - k))) := by
  have hq : (d.drop k).length = d.length - k := by simp
  unfold parse at h' h
  simp only at h' h
  rw [hbom] at h'
  generalize hdp : (if hasBom d = true then List.drop 3 (d.take k) else d.take k) = dp at h'
  generalize hdd : (if hasBom d = true then List.drop 3 d else d) = dd at h
  have hsplit : dd = dp ++ d.drop k := by
    rw [← hdp, ← hdd]
    split
    · next hb =>
      have hk3 : 3 ≤ k := by
        rcases Nat.lt_or_ge k 3 with hlt | hge
        · exfalso
          have : hasBom (d.take k) = false := by
            simp only [hasBom, beq_eq_false_iff_ne, ne_eq]
            intro h0
            have := congrArg List.length h0
            simp at this; omega
          rw [hbom, hb] at this; simp at this
        · exact hge
      rw [← List.drop_append_of_le_length (by simp; omega), List.take_append_drop]
    · exact (List.take_append_drop k d).symm
  generalize hrp : run (d.take k).length (fuelFor dp) St.init dp = rp at h'
  generalize hrd : run d.length (fuelFor dd) St.init dd = rd at h
  have hrp' : ∃ bp, rp = .ok T' bp := by cases rp <;> simp [Res.withBom] at h'; exact ⟨_, by rw [h'.1]⟩
  have hrd' : ∃ bd, rd = .ok T bd := by cases rd <;> simp [Res.withBom] at h; exact ⟨_, by rw [h.1]⟩
  obtain ⟨bp, rfl⟩ := hrp'
  obtain ⟨bd, rfl⟩ := hrd'
  obtain ⟨j, st0, d0, hinv0, hsk0, heof, hlock⟩ :=
    run_lockstepB (d.take k).length d.length (d.drop k) hsep (fuelFor dp) St.init dp _ _ hrp StInv.init
  rw [hq, ← hsplit, show St.init.shift (d.length - k) = St.init from rfl] at hlock
  have hD : run d.length (fuelFor dd) (st0.shift (d.length - k)) (d0 ++ d.drop k) = .ok T bd := by
    have := hlock (fuelFor dd)
    rw [run_more_fuel _ _ j _ _ _ hrd (by simp)] at this
    exact this.symm
  obtain ⟨hkey, _, hshape⟩ := atEof_shape heof
  refine ⟨st0, d0, j, fuelFor dd, bd, hinv0, hkey, hsk0, hlock, hD, ?_, ?_, ?_⟩
  · rcases hshape with ⟨h1, h2⟩ | ⟨h1, h2, _, h4⟩
    · exact .inl ⟨h1, h2⟩
    · exact .inr ⟨h1, h2, h4⟩
  · have := run_len_le _ _ _ _ _ _ (hinv0.shift _) hD
    simpa [St.shift_tape] using this
  · intro i hi hn
    have := run_settled _ _ _ _ _ _ i (hinv0.shift (d.length - k)) (by simpa [St.shift_tape] using hi)
      (by simpa [St.shift_tape] using hn.shift (d.length - k)) hD
    rw [this, St.shift_tape, getElem?_shift]

/-- the hypotheses are satisfiable: `a={b=c d=e}` cut after `a={b=c` (the continuation starts with a
blank): the truncated tape is the full run's tape at that point, `[a, O, b, c]`, with the open object
closed by the end of the input -/
example :
    let d : Bytes := [97, 61, 123, 98, 61, 99, 32, 100, 61, 101, 125]
    SepQ (d.drop 6) ∧ (∃ T' b', parse (d.take 6) = .ok T' b') ∧ (∃ T b, parse d = .ok T b) ∧
      hasBom (d.take 6) = hasBom d :=
  ⟨.inr ⟨32, _, rfl, by decide +kernel, by decide, by decide⟩,
   ⟨[.unquoted ⟨6, [97]⟩, .object 4 false, .unquoted ⟨3, [98]⟩, .unquoted ⟨1, [99]⟩, .endTok 1], false,
     by decide +kernel⟩,
   ⟨[.unquoted ⟨11, [97]⟩, .object 6 false, .unquoted ⟨8, [98]⟩, .unquoted ⟨6, [99]⟩,
      .unquoted ⟨4, [100]⟩, .unquoted ⟨2, [101]⟩, .endTok 1], false, by decide +kernel⟩,
   by decide +kernel⟩

end Jomini.TextTape
