/- Helper lemmas for C04_tape_eq_ondemand / C04_eq_spec on FLAT documents (key = leaf fields). -/
import JominiModel.Proofs.BinDe
set_option linter.unusedSimpArgs false
namespace Jomini.BinDe
open Jomini

/-- flat documents: `key = leaf` fields only, no ghost objects, no reserved lexeme. -/
def Flat : BFields → Prop
  | .nil => True
  | .cons g k v rest => g = 0 ∧ plainTok k.tok = true ∧ (∃ l, v = .leaf l ∧ plainTok l.tok = true) ∧ Flat rest

def BFields.len : BFields → Nat
  | .nil => 0
  | .cons _ _ _ r => r.len + 1

theorem leafTok_fetch (p : Path) (l : BLeaf) (rest : List Tok) (h : plainTok l.tok = true) :
    fetch p (l.tok :: rest) = .tok l.tok rest := by
  cases p <;> cases l <;> simp_all [fetch, BLeaf.tok, plainTok]

theorem spec_leaf' (c : Cfg) (ty : Ty) (h : LeafTy ty) (l : BLeaf) :
    nodeVia (valCoreG (binSem c) (.leaf l)) ty = valLeaf c ty l := spec_leaf c ty h l

theorem seq_flat_map (p : Path) (c : Cfg) (vt : Ty) (hvt : LeafTy vt) :
    ∀ (d : BFields), Flat d → ∀ (f : Nat), d.len < f → ∀ acc,
      deMap p c f vt true (tokensFields d) acc = (valMapG (binSem c) d vt acc).map (fun items => (items, [])) := by
  intro d
  generalize hn : d.len = n
  induction n generalizing d with
  | zero =>
    cases d with
    | cons g k v rest => simp [BFields.len] at hn
    | nil =>
    intro _ f hf acc
    obtain ⟨f, rfl⟩ : ∃ g, f = g + 1 := ⟨f - 1, by omega⟩
    simp [deMap, tokensFields, nextKey, fetch, valMapG, Except.map]
  | succ n ih =>
    cases d with
    | nil => simp [BFields.len] at hn
    | cons g k v rest =>
    have hrn : rest.len = n := by simp [BFields.len] at hn; exact hn
    intro hfl f hf acc
    obtain ⟨hg, hk, ⟨l, hv, hl⟩, hrest⟩ := hfl
    subst hg; subst hv
    obtain ⟨f, rfl⟩ : ∃ g, f = g + 1 := ⟨f - 1, by omega⟩
    have hf' : n < f := by omega
    obtain ⟨f', rfl⟩ : ∃ g, f = g + 1 := ⟨f - 1, by omega⟩
    have hkne : k.tok ≠ .close ∧ k.tok ≠ .open := by cases k <;> simp [BLeaf.tok]
    have hnk : nextKey p true (f' + 1 + 1) (k.tok :: .equal :: l.tok :: tokensFields rest) =
        .ok (some k.tok, .equal :: l.tok :: tokensFields rest) := by
      simp only [nextKey, leafTok_fetch p k _ hk]
      cases k <;> simp_all [BLeaf.tok]
    have hnv : nextValue p (.equal :: l.tok :: tokensFields rest) = .ok (l.tok, tokensFields rest) := by
      have h1 : fetch p (.equal :: l.tok :: tokensFields rest) = .tok .equal (l.tok :: tokensFields rest) := by
        cases p <;> simp [fetch]
      simp only [nextValue, fetchRead, h1, leafTok_fetch p l _ hl]
    simp only [tokensFields, ghostToks, tokensNode, List.nil_append, List.cons_append, List.append_nil, List.singleton_append]
    rw [deMap]
    simp only [hnk]
    rw [seq_leaf p c f' .str (by simp [LeafTy]) k _ hk]
    have hS : (binSem c).leaf = valLeaf c := rfl
    simp only [valMapG, hS, spec_leaf' c vt hvt l]
    cases hks : valLeaf c .str k with
    | error e => simp [Except.map]
    | ok ks =>
      simp only [Except.map, hnv]
      rw [seq_leaf p c f' vt hvt l _ hl]
      cases hvs : valLeaf c vt l with
      | error e => simp [Except.map]
      | ok x =>
        simp only [Except.map]
        exact ih rest hrn hrest (f' + 1) hf' _

theorem visitKey_leaf (c : Cfg) (l : BLeaf) : visitKey c l.ttok = leafPrim c l := by
  cases l <;> simp [visitKey, leafPrim, BLeaf.ttok]

theorem afterValue_leaf (l : BLeaf) (i : Nat) : afterValue l.ttok i = i + 1 := by
  cases l <;> simp [afterValue, BLeaf.ttok]

theorem valLeaf_str (c : Cfg) (k : BLeaf) :
    valLeaf c .str k = (match leafPrim c k with | .error e => .error e | .ok p => visitPrim .str p) := by
  unfold valLeaf; cases leafPrim c k <;> rfl

theorem tape_flat_map (c : Cfg) (vt : Ty) (hvt : LeafTy vt) :
    ∀ (d : BFields), Flat d → ∀ (pre : List TTok) (f : Nat), d.len < f → ∀ acc,
      tMap c (pre ++ tapeFields d pre.length) f vt pre.length (pre ++ tapeFields d pre.length).length acc =
        valMapG (binSem c) d vt acc := by
  intro d
  generalize hn : d.len = n
  induction n generalizing d with
  | zero =>
    cases d with
    | cons g k v rest => simp [BFields.len] at hn
    | nil =>
    intro _ pre f hf acc
    obtain ⟨f, rfl⟩ : ∃ g, f = g + 1 := ⟨f - 1, by omega⟩
    simp [tMap, tapeFields, valMapG]
  | succ n ih =>
    cases d with
    | nil => simp [BFields.len] at hn
    | cons g k v rest =>
    have hrn : rest.len = n := by simp [BFields.len] at hn; exact hn
    intro hfl pre f hf acc
    obtain ⟨hg, hk, ⟨l, hv, hl⟩, hrest⟩ := hfl
    subst hg; subst hv
    obtain ⟨f, rfl⟩ : ∃ g, f = g + 1 := ⟨f - 1, by omega⟩
    have hf' : n < f := by omega
    obtain ⟨f', rfl⟩ : ∃ g, f = g + 1 := ⟨f - 1, by omega⟩
    have htape : pre ++ tapeFields (.cons 0 k (.leaf l) rest) pre.length =
        (pre ++ [k.ttok, l.ttok]) ++ tapeFields rest (pre ++ [k.ttok, l.ttok]).length := by
      simp [tapeFields, tapeNode]
    have h0 : (pre ++ tapeFields (.cons 0 k (.leaf l) rest) pre.length)[pre.length]? = some k.ttok := by
      simp [tapeFields, tapeNode]
    have h1 : (pre ++ tapeFields (.cons 0 k (.leaf l) rest) pre.length)[pre.length + 1]? = some l.ttok := by
      simp [tapeFields, tapeNode, List.getElem?_append_right]
    have hlt : pre.length < (pre ++ tapeFields (.cons 0 k (.leaf l) rest) pre.length).length := by
      simp [tapeFields, tapeNode]
    rw [tMap]
    simp only [hlt, if_true, h0, h1, visitKey_leaf, afterValue_leaf]
    have hS : (binSem c).leaf = valLeaf c := rfl
    simp only [valMapG, hS, spec_leaf' c vt hvt l, valLeaf_str]
    cases hkp : leafPrim c k with
    | error e => simp
    | ok kp =>
      dsimp only
      cases hks : visitPrim .str kp with
      | error e => simp
      | ok ks =>
        dsimp only
        rw [tape_leaf c _ f' vt hvt l (pre.length + 1) h1]
        cases hvs : valLeaf c vt l with
        | error e => simp
        | ok x =>
          dsimp only
          have := ih rest hrn hrest (pre ++ [k.ttok, l.ttok]) (f' + 1) hf' (acc ++ [ks ++ "=" ++ x])
          rw [← htape] at this
          simpa using this

theorem Flat.tapeOf (d : BFields) (h : Flat d) : tapeOf d = some (tapeFields d 0) := by
  cases d with
  | nil => rfl
  | cons g k v rest => obtain ⟨hg, _⟩ := h; subst hg; rfl

theorem flat_lens : ∀ (n : Nat) (d : BFields), d.len = n → Flat d → ∀ s,
    n ≤ (tokensFields d).length ∧ n ≤ (tapeFields d s).length := by
  intro n
  induction n with
  | zero => intros; simp
  | succ n ih =>
    intro d hn hfl s
    cases d with
    | nil => simp [BFields.len] at hn
    | cons g k v rest =>
      have hrn : rest.len = n := by simp [BFields.len] at hn; exact hn
      obtain ⟨hg, _, ⟨l, hv, _⟩, hrest⟩ := hfl
      subst hg; subst hv
      have := ih rest hrn hrest (s + 1 + 1)
      simp [tokensFields, tapeFields, tapeNode, tokensNode, ghostToks]
      omega

/-- flat documents read as a map of leaf-typed values: tape, on-demand, streaming and reference agree. -/
theorem flat_map_all (c : Cfg) (vt : Ty) (hvt : LeafTy vt) (d : BFields) (h : Flat d) :
    deTape c (.plain (.map vt)) (tapeFields d 0) = valueOfBin c (.plain (.map vt)) d ∧
    deOndemand c (.plain (.map vt)) (tokensOf d) = valueOfBin c (.plain (.map vt)) d ∧
    deStream c (.plain (.map vt)) (tokensOf d) = valueOfBin c (.plain (.map vt)) d := by
  have hseq : ∀ p, deSeqRoot p c (.plain (.map vt)) (tokensOf d) = valueOfBin c (.plain (.map vt)) d := by
    intro p
    simp only [deSeqRoot, tokensOf, valueOfBin, valueOfG]
    have hl := (flat_lens d.len d rfl h 0).1
    rw [seq_flat_map p c vt hvt d h _ (by omega) []]
    cases valMapG (binSem c) d vt [] <;> simp [Except.map]
  refine ⟨?_, hseq .ondemand, hseq .stream⟩
  simp only [deTape, valueOfBin, valueOfG]
  have hl := (flat_lens d.len d rfl h 0).2
  have := tape_flat_map c vt hvt d h [] (2 * (tapeFields d 0).length + rootSize (.plain (.map vt)) + 8) (by omega) []
  simp only [List.nil_append, List.length_nil] at this
  rw [this]
  cases valMapG (binSem c) d vt [] <;> rfl

end Jomini.BinDe
