import JominiModel.Proofs.DomBridge
import JominiModel.Proofs.JsonDoc
/-
`C17_bridge_json_wf`: the JSON slice's well-formedness hypothesis (`Json.wfTapeB`: the tape is the
token list of a document tree, Spec/JsonDoc.lean `docAt`) implies the DOM slice's structural
soundness `Dom.wfTape` of the translated tape (sound links, proper nesting, headers followed by
containers, regular object bodies, flagged objects reaching their `MixedContainer` token).

The converse does NOT hold (`json_wf_converse_fails`, `json_wf_converse_no_tree`): `Dom.wfTape`
accepts a parameter token as a field VALUE (`valueNext`), and puts no condition on what stands
between the braces of an ARRAY beyond links and nesting; a document tree's values are scalars,
containers and headers.  Smallest example: the two-token tape `[Unquoted a, Parameter x]`.
-/
set_option linter.unusedSimpArgs false
namespace Jomini.JsonWfBridge
open Jomini Jomini.Json Jomini.DomBridge

variable (t : Json.Tape)

/-! ### values and field sequences of a located tree, as the Dom model walks them -/

theorem get_j (t : Json.Tape) (i : Nat) (tok : Json.TTok) (h : t[i]? = some tok) :
    (jTape t)[i]? = some (jTok tok) := by simp [h]

theorem valueNext_node (t : Json.Tape) (v : Node) (vi e : Nat) (h : nodeAt t v vi = true)
    (hle : vi + v.size ≤ e) : Dom.valueNext (jTape t) vi e = some (vi + v.size) := by
  have hr := get_j t vi _ (nodeAt_root t v vi h)
  cases v with
  | scalar q s => cases q <;> simp [Dom.valueNext, hr, Node.root, jTok, Node.size]
  | arr m items =>
    simp only [Node.size] at hle
    have h1 : vi < vi + 1 + itemsSize items ∧ vi + 1 + itemsSize items < e := by omega
    simp [Dom.valueNext, hr, Node.root, jTok, Node.size, h1]; omega
  | obj f m fields rest =>
    simp only [Node.size] at hle
    have h1 : vi < vi + 1 + fieldsSize fields + (if m then 1 else 0) + itemsSize rest ∧
        vi + 1 + fieldsSize fields + (if m then 1 else 0) + itemsSize rest < e := by omega
    simp [Dom.valueNext, hr, Node.root, jTok, Node.size, h1]; omega
  | header s b =>
    simp only [nodeAt, Bool.and_eq_true, decide_eq_true_eq] at h
    have hb := get_j t (vi + 1) _ (nodeAt_root t b (vi + 1) h.2)
    simp only [Node.size] at hle
    cases b with
    | scalar q s2 => simp [Node.isContainer] at h
    | header s2 b2 => simp [Node.isContainer] at h
    | arr m items =>
      simp only [Node.size] at hle
      have h1 : vi + 1 < vi + 1 + 1 + itemsSize items ∧ vi + 1 + 1 + itemsSize items < e := by omega
      simp [Dom.valueNext, hr, hb, Node.root, jTok, Node.size, h1]; omega
    | obj f m fields rest =>
      simp only [Node.size] at hle
      have h1 : vi + 1 < vi + 1 + 1 + fieldsSize fields + (if m then 1 else 0) + itemsSize rest ∧
          vi + 1 + 1 + fieldsSize fields + (if m then 1 else 0) + itemsSize rest < e := by omega
      simp [Dom.valueNext, hr, hb, Node.root, jTok, Node.size, h1]; omega

theorem objWalkF_fields (t : Json.Tape) (fields : List Field) : ∀ (p e f : Nat),
    fieldsAt t fields p = true → p + fieldsSize fields ≤ e →
    (p + fieldsSize fields = e ∨ t[p + fieldsSize fields]? = some .mixed) →
    fields.length + 1 ≤ f →
    Dom.objWalkF f (jTape t) p e = some (p + fieldsSize fields) := by
  induction fields with
  | nil =>
    intro p e f _ hle hterm hf
    simp only [fieldsSize, Nat.add_zero] at hle hterm ⊢
    cases f with
    | zero => simp at hf
    | succ f =>
      rcases hterm with h | h
      · subst h; simp [Dom.objWalkF]
      · by_cases hge : p ≥ e
        · have : p = e := by omega
          subst this; simp [Dom.objWalkF]
        · simp [Dom.objWalkF, hge, h, jTok]
  | cons fld fs ih =>
    intro p e f h hle hterm hf
    simp only [fieldsAt, Bool.and_eq_true] at h
    simp only [fieldsSize] at hle hterm ⊢
    have hsz := fld.size_ge
    cases f with
    | zero => simp at hf
    | succ f =>
      cases fld with
      | mk k op v =>
        have hfa := h.1
        simp only [fieldAt, Bool.and_eq_true, decide_eq_true_eq] at hfa
        have hk := get_j t p k hfa.1.2
        have hnm : jTok k ≠ Dom.TTok.mixedContainer := by
          intro hh; exact isKeyTok_ne_mixed k hfa.1.1 ((jTok_mixed k).mp hh)
        have hks := json_keyScalar k hfa.1.1
        have hge : ¬ p ≥ e := by omega
        have hrec := ih (p + (Field.mk k op v).size) e f h.2 (by omega)
          (by simpa [Nat.add_assoc] using hterm) (by simp only [List.length_cons] at hf; omega)
        have hv := v.size_pos
        cases op with
        | some o =>
          simp only [Bool.and_eq_true, decide_eq_true_eq] at hfa
          have hnx : (jTape t)[p + 1]? = some (Dom.TTok.operator (jOp o)) := get_j t (p + 1) _ hfa.2.1
          have hfs : (Field.mk k (some o) v).size = 2 + v.size := by simp [Field.size]
          simp only [Field.size] at hle hrec hsz ⊢
          have hvn := valueNext_node t v (p + 2) e hfa.2.2 (by simp at hle; omega)
          have hlt : p + 2 < e := by simp at hle; omega
          have e1 : p + 2 + v.size = p + (1 + (if (some o).isSome = true then 1 else 0) + v.size) := by simp; omega
          rw [← e1] at hrec
          simp [Dom.objWalkF, hge, hk, hnm, hks, hnx, Dom.opValueOf, hlt, hvn, hrec, Field.size]
          omega
        | none =>
          have hr := get_j t (p + 1) _ (nodeAt_root t v (p + 1) hfa.2)
          obtain ⟨hvi, hop, _, _⟩ := root_not_op v (p + 1) p
          have hfs : (Field.mk k none v).size = 1 + v.size := by simp [Field.size]
          have hov : Dom.opValueOf p (jTok (v.root (p + 1))) = (none, p + 1) := by
            rw [json_opValueOf, hvi, hop]; rfl
          simp only [Field.size] at hle hrec hsz ⊢
          have hvn := valueNext_node t v (p + 1) e hfa.2 (by simp at hle; omega)
          have hlt : p + 1 < e := by simp at hle; omega
          have e1 : p + 1 + v.size = p + (1 + (if (none : Option Op).isSome = true then 1 else 0) + v.size) := by simp; omega
          rw [← e1] at hrec
          simp [Dom.objWalkF, hge, hk, hnm, hks, hr, hov, hlt, hvn, hrec, Field.size]
          omega

theorem objWalk_fields (t : Json.Tape) (fields : List Field) (p e : Nat)
    (h : fieldsAt t fields p = true) (hle : p + fieldsSize fields ≤ e)
    (hterm : p + fieldsSize fields = e ∨ t[p + fieldsSize fields]? = some .mixed) (hsz : e ≤ t.size) :
    Dom.objWalk (jTape t) p e = some (p + fieldsSize fields) := by
  apply objWalkF_fields t fields p e _ h hle hterm
  have := fields_length_le fields
  simp only [Dom.fuelOf, jTape_size]; omega

/-! ### every token of a located tree satisfies the per-token conditions of `Dom.wfTape` -/

/-- the conditions `Dom.linksOk` and `Dom.objectsOkF` put on the token at `j` -/
def tokOk (t : Json.Tape) (j : Nat) (tok : Json.TTok) : Prop :=
  Dom.linkOkAt (jTape t) j (jTok tok) = true ∧
  (match tok with
   | .object e mixed => ∃ q, Dom.objWalk (jTape t) (j + 1) e = some q ∧ (mixed = true → q < e)
   | _ => True)

def Covered (t : Json.Tape) (i n : Nat) : Prop :=
  ∀ j, i ≤ j → j < i + n → ∃ tok, t[j]? = some tok ∧ tokOk t j tok

theorem Covered_zero (t : Json.Tape) (i : Nat) : Covered t i 0 := by
  intro j h1 h2; omega

theorem Covered_one (t : Json.Tape) (i : Nat) (tok : Json.TTok) (h : t[i]? = some tok) (hok : tokOk t i tok) :
    Covered t i 1 := by
  intro j h1 h2
  have : j = i := by omega
  subst this; exact ⟨tok, h, hok⟩

theorem Covered_append (t : Json.Tape) (i a b : Nat) (ha : Covered t i a) (hb : Covered t (i + a) b) :
    Covered t i (a + b) := by
  intro j h1 h2
  by_cases hj : j < i + a
  · exact ha j h1 hj
  · exact hb j (by omega) (by omega)

theorem tokOk_plain (t : Json.Tape) (j : Nat) (tok : Json.TTok)
    (h : match tok with | .array _ _ | .object _ _ | .end_ _ | .header _ => False | _ => True) : tokOk t j tok := by
  cases tok <;> simp at h <;> exact ⟨rfl, trivial⟩

theorem isKeyTok_plain (t : Json.Tape) (j : Nat) (k : Json.TTok) (hk : isKeyTok k = true) : tokOk t j k := by
  cases k <;> simp [isKeyTok] at hk <;> exact ⟨rfl, trivial⟩

theorem tokOk_end (t : Json.Tape) (i e : Nat) (tok : Json.TTok) (hi : 0 < i) (hlt : i < e)
    (ht : t[i]? = some tok) (hc : (jTok tok).containerEnd? = some e) : tokOk t e (.end_ i) := by
  refine ⟨?_, trivial⟩
  have ht' := get_j t i tok ht
  show Dom.linkOkAt (jTape t) e (Dom.TTok.end_ i) = true
  simp only [Dom.linkOkAt, ht', hc]
  simp [hi, hlt]

theorem tokOk_header (t : Json.Tape) (i : Nat) (s : Bytes) (b : Node) (hb : nodeAt t b (i + 1) = true)
    (hc : b.isContainer = true) : tokOk t i (.header s) := by
  refine ⟨?_, trivial⟩
  have hr := nodeAt_root t b (i + 1) hb
  cases b <;> simp [Node.isContainer] at hc <;> simp [jTok, Dom.linkOkAt, hr, Node.root, Dom.TTok.isContainer]

mutual
theorem covered_node : (n : Node) → (i : Nat) → 0 < i → nodeAt t n i = true → Covered t i n.size
  | .scalar q s, i, _, h => by
    simp only [nodeAt, decide_eq_true_eq] at h
    simp only [Node.size]
    exact Covered_one t i _ h (by cases q <;> exact ⟨rfl, trivial⟩)
  | .arr m items, i, hi, h => by
    simp only [nodeAt, Bool.and_eq_true, decide_eq_true_eq] at h
    obtain ⟨⟨hroot, hitems⟩, hend⟩ := h
    have c1 : Covered t i 1 := Covered_one t i _ hroot
      ⟨by simp [jTok, Dom.linkOkAt, hi, hend]; omega, trivial⟩
    have c2 := covered_items items (i + 1) (by omega) hitems
    have c3 : Covered t (i + 1 + itemsSize items) 1 := Covered_one t _ _ hend
      (tokOk_end t i _ _ hi (by omega) hroot (by simp [jTok, Dom.TTok.containerEnd?]))
    intro j h1 h2
    simp only [Node.size] at h2
    rcases Nat.lt_or_ge j (i + 1) with hj | hj
    · exact c1 j (by omega) (by omega)
    · rcases Nat.lt_or_ge j (i + 1 + itemsSize items) with hj2 | hj2
      · exact c2 j (by omega) (by omega)
      · exact c3 j (by omega) (by omega)
  | .obj flag m fields rest, i, hi, h => by
    simp only [nodeAt, Bool.and_eq_true, decide_eq_true_eq] at h
    obtain ⟨⟨⟨hroot, hfields⟩, hmix⟩, hend⟩ := h
    have hsz := lt_size_of_get t _ _ hend
    have cf := covered_fields fields (i + 1) hfields
    cases m with
    | true =>
      simp only [if_true, Bool.and_eq_true, decide_eq_true_eq] at hmix hend hroot hsz
      have hw := objWalk_fields t fields (i + 1) (i + 1 + fieldsSize fields + 1 + itemsSize rest) hfields
        (by omega) (Or.inr hmix.1) (by omega)
      have c1 : Covered t i 1 := Covered_one t i _ hroot
        ⟨by simp [jTok, Dom.linkOkAt, hi, hend]; omega, ⟨_, hw, fun _ => by omega⟩⟩
      have cm : Covered t (i + 1 + fieldsSize fields) 1 := Covered_one t _ _ hmix.1 ⟨rfl, trivial⟩
      have cr := covered_items rest (i + 1 + fieldsSize fields + 1) (by omega) hmix.2
      have ce : Covered t (i + 1 + fieldsSize fields + 1 + itemsSize rest) 1 := Covered_one t _ _ hend
        (tokOk_end t i _ _ hi (by omega) hroot (by simp [jTok, Dom.TTok.containerEnd?]))
      intro j h1 h2
      simp only [Node.size, if_true] at h2
      rcases Nat.lt_or_ge j (i + 1) with hj | hj
      · exact c1 j (by omega) (by omega)
      · rcases Nat.lt_or_ge j (i + 1 + fieldsSize fields) with hj2 | hj2
        · exact cf j (by omega) (by omega)
        · rcases Nat.lt_or_ge j (i + 1 + fieldsSize fields + 1) with hj3 | hj3
          · exact cm j (by omega) (by omega)
          · rcases Nat.lt_or_ge j (i + 1 + fieldsSize fields + 1 + itemsSize rest) with hj4 | hj4
            · exact cr j (by omega) (by omega)
            · exact ce j (by omega) (by omega)
    | false =>
      simp only [Bool.false_eq_true, if_false, Bool.and_eq_true, List.isEmpty_iff, Bool.not_eq_true'] at hmix hend hroot hsz
      obtain ⟨hre, hfl⟩ := hmix
      subst hre; subst hfl
      simp only [itemsSize, Nat.add_zero] at hend hroot hsz
      have hw := objWalk_fields t fields (i + 1) (i + 1 + fieldsSize fields) hfields (by omega) (Or.inl rfl) (by omega)
      have c1 : Covered t i 1 := Covered_one t i _ hroot
        ⟨by simp [jTok, Dom.linkOkAt, hi, hend]; omega, ⟨_, hw, fun hh => by simp at hh⟩⟩
      have ce : Covered t (i + 1 + fieldsSize fields) 1 := Covered_one t _ _ hend
        (tokOk_end t i _ _ hi (by omega) hroot (by simp [jTok, Dom.TTok.containerEnd?]))
      intro j h1 h2
      simp only [Node.size, itemsSize, Bool.false_eq_true, if_false] at h2
      rcases Nat.lt_or_ge j (i + 1) with hj | hj
      · exact c1 j (by omega) (by omega)
      · rcases Nat.lt_or_ge j (i + 1 + fieldsSize fields) with hj2 | hj2
        · exact cf j (by omega) (by omega)
        · exact ce j (by omega) (by omega)
  | .header s body, i, hi, h => by
    simp only [nodeAt, Bool.and_eq_true, decide_eq_true_eq] at h
    have c1 : Covered t i 1 := Covered_one t i _ h.1.1 (tokOk_header t i s body h.2 h.1.2)
    have c2 := covered_node body (i + 1) (by omega) h.2
    have := Covered_append t i 1 _ c1 c2
    simpa [Node.size] using this
theorem covered_items : (items : List Item) → (i : Nat) → 0 < i → itemsAt t items i = true →
    Covered t i (itemsSize items)
  | [], i, _, _ => by simp only [itemsSize]; exact Covered_zero t i
  | x :: xs, i, hi, h => by
    simp only [itemsAt, Bool.and_eq_true] at h
    simp only [itemsSize]
    exact Covered_append t i _ _ (covered_item x i hi h.1) (covered_items xs (i + x.size) (by omega) h.2)
theorem covered_item : (x : Item) → (i : Nat) → 0 < i → itemAt t x i = true → Covered t i x.size
  | .val n, i, hi, h => by
    simp only [itemAt, Bool.and_eq_true] at h
    simpa [Item.size] using covered_node n i hi h.2
  | .hdr s body, i, hi, h => by
    simp only [itemAt, Bool.and_eq_true, decide_eq_true_eq] at h
    have c1 : Covered t i 1 := Covered_one t i _ h.1.1 (tokOk_header t i s body h.2 h.1.2)
    have c2 := covered_node body (i + 1) (by omega) h.2
    have := Covered_append t i 1 _ c1 c2
    simpa [Item.size] using this
  | .paramTok u s, i, _, h => by
    simp only [itemAt, decide_eq_true_eq] at h
    simp only [Item.size]
    exact Covered_one t i _ h (by cases u <;> exact ⟨rfl, trivial⟩)
  | .opTok o, i, _, h => by
    simp only [itemAt, decide_eq_true_eq] at h
    simp only [Item.size]
    exact Covered_one t i _ h ⟨rfl, trivial⟩
  | .mixedTok, i, _, h => by
    simp only [itemAt, decide_eq_true_eq] at h
    simp only [Item.size]
    exact Covered_one t i _ h ⟨rfl, trivial⟩
theorem covered_fields : (fields : List Field) → (i : Nat) → fieldsAt t fields i = true →
    Covered t i (fieldsSize fields)
  | [], i, _ => by simp only [fieldsSize]; exact Covered_zero t i
  | (.mk k op v) :: fs, i, h => by
    simp only [fieldsAt, Bool.and_eq_true] at h
    simp only [fieldsSize]
    have hf := h.1
    simp only [fieldAt, Bool.and_eq_true, decide_eq_true_eq] at hf
    have ck : Covered t i 1 := Covered_one t i _ hf.1.2 (isKeyTok_plain t i k hf.1.1)
    have crest := covered_fields fs (i + (Field.mk k op v).size) h.2
    cases op with
    | some o =>
      simp only [Bool.and_eq_true, decide_eq_true_eq] at hf
      have co : Covered t (i + 1) 1 := Covered_one t _ _ hf.2.1 ⟨rfl, trivial⟩
      have cv := covered_node v (i + 2) (by omega) hf.2.2
      have cfield : Covered t i (Field.mk k (some o) v).size := by
        have := Covered_append t i _ _ (Covered_append t i 1 1 ck co) cv
        simpa [Field.size, Nat.add_assoc] using this
      exact Covered_append t i _ _ cfield crest
    | none =>
      have cv := covered_node v (i + 1) (by omega) hf.2
      have cfield : Covered t i (Field.mk k none v).size := by
        have := Covered_append t i 1 _ ck cv
        simpa [Field.size] using this
      exact Covered_append t i _ _ cfield crest
end

/-! ### proper nesting -/

theorem list_drop_step {α : Type} (l : List α) (i : Nat) (x : α) (h : l[i]? = some x) :
    l.drop i = x :: l.drop (i + 1) := by
  obtain ⟨hl, hx⟩ := List.getElem?_eq_some_iff.mp h
  rw [List.drop_eq_getElem_cons hl, hx]

theorem drop_step (t : Json.Tape) (i : Nat) (tok : Json.TTok) (h : t[i]? = some tok) :
    (jTape t).toList.drop i = jTok tok :: (jTape t).toList.drop (i + 1) := by
  apply list_drop_step
  have := get_j t i tok h
  simpa using this

def nestStep (t : Json.Tape) (i n : Nat) : Prop :=
  ∀ st, Dom.nestOkF ((jTape t).toList.drop i) i st = Dom.nestOkF ((jTape t).toList.drop (i + n)) (i + n) st

theorem nestStep_zero (i : Nat) : nestStep t i 0 := by intro st; rfl

theorem nestStep_trans (i a b : Nat) (ha : nestStep t i a) (hb : nestStep t (i + a) b) : nestStep t i (a + b) := by
  intro st
  rw [ha st, hb st, Nat.add_assoc]

theorem nestStep_plain (i : Nat) (tok : Json.TTok) (h : t[i]? = some tok)
    (hp : match tok with | .array _ _ | .object _ _ | .end_ _ => False | _ => True) : nestStep t i 1 := by
  intro st
  rw [drop_step t i tok h]
  cases tok <;> simp at hp <;> simp [jTok, Dom.nestOkF]

theorem nestStep_cast (i n n' : Nat) (h : n = n') (hs : nestStep t i n) : nestStep t i n' := by
  subst h; exact hs

mutual
theorem nest_node : (n : Node) → (i : Nat) → nodeAt t n i = true → nestStep t i n.size
  | .scalar q s, i, h => by
    simp only [nodeAt, decide_eq_true_eq] at h
    simp only [Node.size]
    exact nestStep_plain t i _ h (by cases q <;> trivial)
  | .arr m items, i, h => by
    simp only [nodeAt, Bool.and_eq_true, decide_eq_true_eq] at h
    obtain ⟨⟨hroot, hitems⟩, hend⟩ := h
    have hi := nest_items items (i + 1) hitems
    intro st
    rw [drop_step t i _ hroot]
    simp only [jTok, Dom.nestOkF]
    rw [hi (i :: st), drop_step t _ _ hend]
    simp only [jTok, Dom.nestOkF, decide_true, Bool.true_and, Node.size]
    have e1 : i + 1 + itemsSize items + 1 = i + (2 + itemsSize items) := by omega
    rw [e1]
  | .obj flag m fields rest, i, h => by
    simp only [nodeAt, Bool.and_eq_true, decide_eq_true_eq] at h
    obtain ⟨⟨⟨hroot, hfields⟩, hmix⟩, hend⟩ := h
    have hf := nest_fields fields (i + 1) hfields
    intro st
    rw [drop_step t i _ hroot]
    simp only [jTok, Dom.nestOkF]
    rw [hf (i :: st)]
    cases m with
    | true =>
      simp only [if_true, Bool.and_eq_true, decide_eq_true_eq] at hmix hend
      have hr := nest_items rest (i + 1 + fieldsSize fields + 1) hmix.2
      rw [drop_step t _ _ hmix.1]
      simp only [jTok, Dom.nestOkF]
      rw [hr (i :: st), drop_step t _ _ hend]
      simp only [jTok, Dom.nestOkF, decide_true, Bool.true_and, Node.size, if_true]
      have e1 : i + 1 + fieldsSize fields + 1 + itemsSize rest + 1 = i + (2 + fieldsSize fields + 1 + itemsSize rest) := by omega
      rw [e1]
    | false =>
      simp only [Bool.false_eq_true, if_false, Bool.and_eq_true, List.isEmpty_iff, Bool.not_eq_true'] at hmix hend
      obtain ⟨hre, _⟩ := hmix
      subst hre
      simp only [itemsSize, Nat.add_zero] at hend
      rw [drop_step t _ _ hend]
      simp only [jTok, Dom.nestOkF, decide_true, Bool.true_and, Node.size, itemsSize, Bool.false_eq_true, if_false, Nat.add_zero]
      have e1 : i + 1 + fieldsSize fields + 1 = i + (2 + fieldsSize fields) := by omega
      rw [e1]
  | .header s body, i, h => by
    simp only [nodeAt, Bool.and_eq_true, decide_eq_true_eq] at h
    have h1 := nestStep_plain t i _ h.1.1 trivial
    have h2 := nest_node body (i + 1) h.2
    exact nestStep_cast t i _ _ (by simp [Node.size]) (nestStep_trans t i 1 _ h1 h2)
theorem nest_items : (items : List Item) → (i : Nat) → itemsAt t items i = true → nestStep t i (itemsSize items)
  | [], i, _ => by simp only [itemsSize]; exact nestStep_zero t i
  | x :: xs, i, h => by
    simp only [itemsAt, Bool.and_eq_true] at h
    simp only [itemsSize]
    exact nestStep_trans t i _ _ (nest_item x i h.1) (nest_items xs (i + x.size) h.2)
theorem nest_item : (x : Item) → (i : Nat) → itemAt t x i = true → nestStep t i x.size
  | .val n, i, h => by
    simp only [itemAt, Bool.and_eq_true] at h
    simpa [Item.size] using nest_node n i h.2
  | .hdr s body, i, h => by
    simp only [itemAt, Bool.and_eq_true, decide_eq_true_eq] at h
    have h1 := nestStep_plain t i _ h.1.1 trivial
    have h2 := nest_node body (i + 1) h.2
    exact nestStep_cast t i _ _ (by simp [Item.size]) (nestStep_trans t i 1 _ h1 h2)
  | .paramTok u s, i, h => by
    simp only [itemAt, decide_eq_true_eq] at h
    simp only [Item.size]
    exact nestStep_plain t i _ h (by cases u <;> trivial)
  | .opTok o, i, h => by
    simp only [itemAt, decide_eq_true_eq] at h
    simp only [Item.size]
    exact nestStep_plain t i _ h trivial
  | .mixedTok, i, h => by
    simp only [itemAt, decide_eq_true_eq] at h
    simp only [Item.size]
    exact nestStep_plain t i _ h trivial
theorem nest_fields : (fields : List Field) → (i : Nat) → fieldsAt t fields i = true → nestStep t i (fieldsSize fields)
  | [], i, _ => by simp only [fieldsSize]; exact nestStep_zero t i
  | (.mk k op v) :: fs, i, h => by
    simp only [fieldsAt, Bool.and_eq_true] at h
    simp only [fieldsSize]
    have hf := h.1
    simp only [fieldAt, Bool.and_eq_true, decide_eq_true_eq] at hf
    have hk : nestStep t i 1 := nestStep_plain t i k hf.1.2 (by
      have := hf.1.1; cases k <;> simp [isKeyTok] at this <;> trivial)
    have hrest := nest_fields fs (i + (Field.mk k op v).size) h.2
    cases op with
    | some o =>
      simp only [Bool.and_eq_true, decide_eq_true_eq] at hf
      have ho : nestStep t (i + 1) 1 := nestStep_plain t _ _ hf.2.1 trivial
      have hv := nest_node v (i + 2) hf.2.2
      have hfield : nestStep t i (Field.mk k (some o) v).size :=
        nestStep_cast t i _ _ (by simp [Field.size])
          (nestStep_trans t i _ _ (nestStep_trans t i 1 1 hk ho) hv)
      exact nestStep_trans t i _ _ hfield hrest
    | none =>
      have hv := nest_node v (i + 1) hf.2
      have hfield : nestStep t i (Field.mk k none v).size :=
        nestStep_cast t i _ _ (by simp [Field.size]) (nestStep_trans t i 1 _ hk hv)
      exact nestStep_trans t i _ _ hfield hrest
end

/-! ### assembly -/

theorem linksOkF_of (T : Dom.Tape) : ∀ (l : List Dom.TTok) (i : Nat),
    (∀ k x, l[k]? = some x → Dom.linkOkAt T (i + k) x = true) → Dom.linksOkF T i l = true := by
  intro l
  induction l with
  | nil => intro i _; rfl
  | cons y ys ih =>
    intro i h
    simp only [Dom.linksOkF, Bool.and_eq_true]
    refine ⟨by simpa using h 0 y (by simp), ih (i + 1) ?_⟩
    intro k x hx
    have := h (k + 1) x (by simpa using hx)
    rw [show i + 1 + k = i + (k + 1) by omega]; exact this

theorem objectsOkF_of (T : Dom.Tape) : ∀ (l : List Dom.TTok) (i : Nat),
    (∀ k e m, l[k]? = some (Dom.TTok.object e m) →
      ∃ q, Dom.objWalk T (i + k + 1) e = some q ∧ (m = true → q < e)) →
    Dom.objectsOkF T i l = true := by
  intro l
  induction l with
  | nil => intro i _; rfl
  | cons y ys ih =>
    intro i h
    simp only [Dom.objectsOkF, Bool.and_eq_true]
    refine ⟨?_, ih (i + 1) ?_⟩
    · cases y with
      | object e m =>
        obtain ⟨q, hq, hm⟩ := h 0 e m (by simp)
        simp only [Nat.add_zero] at hq
        simp only [hq]
        cases m with
        | true => simpa using hm rfl
        | false => simp
      | _ => rfl
    · intro k e m hx
      have := h (k + 1) e m (by simpa using hx)
      rw [show i + 1 + k + 1 = i + (k + 1) + 1 by omega]; exact this

theorem covered_all (t : Json.Tape) (d : Doc) (h : docAt t d = true) : Covered t 0 t.size := by
  obtain ⟨fields, m, rest⟩ := d
  simp only [docAt, Bool.and_eq_true, decide_eq_true_eq] at h
  obtain ⟨⟨hfields, hmix⟩, hsize⟩ := h
  have cf := covered_fields t fields 0 hfields
  cases m with
  | true =>
    simp only [if_true, Bool.and_eq_true, decide_eq_true_eq] at hmix hsize
    have cm : Covered t (fieldsSize fields) 1 := Covered_one t _ _ hmix.1 ⟨rfl, trivial⟩
    have cr := covered_items t rest (fieldsSize fields + 1) (by omega) hmix.2
    intro j h1 h2
    rcases Nat.lt_or_ge j (fieldsSize fields) with hj | hj
    · exact cf j (by omega) (by omega)
    · rcases Nat.lt_or_ge j (fieldsSize fields + 1) with hj2 | hj2
      · exact cm j (by omega) (by omega)
      · exact cr j (by omega) (by omega)
  | false =>
    simp only [Bool.false_eq_true, if_false, List.isEmpty_iff] at hmix hsize
    subst hmix
    simp only [itemsSize, Nat.add_zero] at hsize
    intro j h1 h2
    exact cf j (by omega) (by omega)

theorem nest_all (t : Json.Tape) (d : Doc) (h : docAt t d = true) : nestStep t 0 t.size := by
  obtain ⟨fields, m, rest⟩ := d
  simp only [docAt, Bool.and_eq_true, decide_eq_true_eq] at h
  obtain ⟨⟨hfields, hmix⟩, hsize⟩ := h
  have nf := nest_fields t fields 0 hfields
  cases m with
  | true =>
    simp only [if_true, Bool.and_eq_true, decide_eq_true_eq] at hmix hsize
    have nm : nestStep t (0 + fieldsSize fields) 1 := nestStep_plain t _ _ (by simpa using hmix.1) trivial
    have nr : nestStep t (0 + fieldsSize fields + 1) (itemsSize rest) := by
      simpa using nest_items t rest (fieldsSize fields + 1) hmix.2
    exact nestStep_cast t 0 _ _ hsize (nestStep_trans t 0 _ _ (nestStep_trans t 0 _ _ nf nm) nr)
  | false =>
    simp only [Bool.false_eq_true, if_false, List.isEmpty_iff] at hmix hsize
    subst hmix
    simp only [itemsSize, Nat.add_zero] at hsize
    exact nestStep_cast t 0 _ _ hsize nf

/-- a token list that is a document tree is structurally sound in the sense of the DOM slice -/
theorem docAt_wfTape (t : Json.Tape) (d : Doc) (h : docAt t d = true) : Dom.wfTape (jTape t) = true := by
  have hc := covered_all t d h
  have hn := nest_all t d h
  have hget : ∀ k x, (jTape t).toList[k]? = some x → ∃ tok, t[k]? = some tok ∧ x = jTok tok ∧ tokOk t k tok := by
    intro k x hx
    have hk : k < t.size := by
      have := (List.getElem?_eq_some_iff.mp hx).1
      simpa using this
    obtain ⟨tok, ht, hok⟩ := hc k (by omega) (by omega)
    refine ⟨tok, ht, ?_, hok⟩
    have := get_j t k tok ht
    have hx' : (jTape t)[k]? = some x := by simpa using hx
    rw [hx'] at this
    exact Option.some.inj this
  simp only [Dom.wfTape, Bool.and_eq_true]
  refine ⟨⟨⟨?_, ?_⟩, ?_⟩, ?_⟩
  · apply linksOkF_of
    intro k x hx
    obtain ⟨tok, _, rfl, hok⟩ := hget k x hx
    simpa using hok.1
  · have := hn []
    simp only [Nat.zero_add, List.drop_zero] at this
    unfold Dom.nestOk
    rw [this]
    have hd : (jTape t).toList.drop t.size = [] := by
      apply List.drop_eq_nil_of_le; simp
    rw [hd]; rfl
  · obtain ⟨fields, m, rest⟩ := d
    simp only [docAt, Bool.and_eq_true, decide_eq_true_eq] at h
    obtain ⟨⟨hfields, hmix⟩, hsize⟩ := h
    have hw : Dom.objWalk (jTape t) 0 t.size = some (0 + fieldsSize fields) := by
      apply objWalk_fields t fields 0 t.size hfields (by omega) _ (Nat.le_refl _)
      cases m with
      | true =>
        simp only [if_true, Bool.and_eq_true, decide_eq_true_eq] at hmix
        exact Or.inr (by simpa using hmix.1)
      | false =>
        simp only [Bool.false_eq_true, if_false, List.isEmpty_iff] at hmix hsize
        subst hmix
        simp only [itemsSize] at hsize
        exact Or.inl (by omega)
    simp [hw]
  · apply objectsOkF_of
    intro k e m hx
    obtain ⟨tok, _, hjt, hok⟩ := hget k _ hx
    cases tok <;> simp [jTok] at hjt
    obtain ⟨rfl, rfl⟩ := hjt
    simpa using hok.2

/-- `C17_bridge_json_wf`: the JSON slice's well-formedness implies the DOM slice's -/
theorem json_wf (t : Json.Tape) (h : Json.wfTapeB t = true) : Dom.wfTape (jTape t) = true := by
  obtain ⟨d, hd⟩ := wfTapeB_sound t h
  exact docAt_wfTape t d hd

/-- The converse fails: `a [[x]`-like tape "key `a`, value = a parameter token" is sound for the
DOM slice (`valueNext` accepts a parameter token as a value) but is not the token list of a
document tree (a value is a scalar, container or header). -/
theorem json_wf_converse_fails :
    Dom.wfTape (jTape #[.unquoted [97], .param [120]]) = true ∧
    Json.wfTapeB #[.unquoted [97], .param [120]] = false := by
  decide +kernel

/-- … and not only the search `docOf` fails: NO tree has this token list. -/
theorem json_wf_converse_no_tree (d : Doc) : docAt #[.unquoted [97], .param [120]] d = false := by
  obtain ⟨fields, m, rest⟩ := d
  cases fields with
  | nil => cases m <;> cases rest <;> simp [docAt, fieldsAt, fieldsSize, itemsSize]
  | cons f fs =>
    cases f with
    | mk k op v =>
      cases op with
      | some o => simp [docAt, fieldsAt, fieldAt]
      | none =>
        cases v with
        | scalar q s => cases q <;> simp [docAt, fieldsAt, fieldAt, nodeAt]
        | arr m' items => simp [docAt, fieldsAt, fieldAt, nodeAt]
        | obj fl m' fields' rest' => simp [docAt, fieldsAt, fieldAt, nodeAt]
        | header s b => simp [docAt, fieldsAt, fieldAt, nodeAt]

end Jomini.JsonWfBridge
