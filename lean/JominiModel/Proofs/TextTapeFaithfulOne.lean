import JominiModel.Proofs.TextTapeFaithful3
/-
C01_faithful as ONE theorem: `faithful_tree` / `parse_tree` (Proofs/TextTapeFaithful3.lean) over the
single document type `JFields`.  The two earlier fragments are instances of it: a flat document
(`List LField`) and a document of nested objects (`LFields`) embed into `JFields` with the same
rendering, the same validity and the same expected tape.
-/
namespace Jomini.TextTape
open Jomini

/-- fragment 1 inside the document type -/
def flatJ : List LField → JFields
  | [] => .nil
  | f :: fs => .cons f.g0 f.key f.g1 f.op (.scal f.g2 f.val) (flatJ fs)

theorem flatJ_render : ∀ (fs : List LField) (gt : Bytes), jrenderF (flatJ fs) ++ gt = renderFlat fs gt
  | [], gt => by simp [flatJ, jrenderF, renderFlat]
  | f :: fs, gt => by
    simp only [flatJ, jrenderF, jrenderV, renderFlat, LField.render, List.append_assoc]
    rw [flatJ_render fs gt]

theorem flatJ_valid : ∀ (fs : List LField) (gt : Bytes), ValidFlat fs gt → JValidF (flatJ fs) gt ∧ Blank gt
  | [], gt, h => by simpa [flatJ, JValidF, ValidFlat] using h
  | f :: fs, gt, h => by
    simp only [ValidFlat] at h
    obtain ⟨h0, h1, h2, hk, hv, hkb, hvb, hrest⟩ := h
    obtain ⟨ih, hgt⟩ := flatJ_valid fs gt hrest
    refine ⟨?_, hgt⟩
    simp only [flatJ, JValidF, JValidV]
    exact ⟨h0, h1, .inl hk, hkb, ⟨h2, .inl hv, by rw [flatJ_render]; exact hvb⟩, ih⟩

theorem flatJ_tape : ∀ (fs : List LField) (b : Nat) (gt : Bytes), jtapeF (flatJ fs) b gt = tapeFlat fs gt
  | [], _, _ => by simp [flatJ, jtapeF, tapeFlat]
  | f :: fs, b, gt => by
    simp only [flatJ, jtapeF, jtapeV, jrenderV, tapeFlat, flatJ_render, List.append_assoc]
    rw [flatJ_tape fs _ gt]

mutual
/-- fragment 2 inside the document type -/
def LVal.toJ : LVal → JVal
  | .scal g s => .scal g s
  | .obj g g0 k g1 o v rest gc => .obj g g0 k g1 o v.toJ rest.toJ gc
def LFields.toJ : LFields → JFields
  | .nil => .nil
  | .cons g0 k g1 o v rest => .cons g0 k g1 o v.toJ rest.toJ
end

mutual
theorem toJ_renderV : ∀ v : LVal, jrenderV v.toJ = renderV v
  | .scal _ _ => by simp [LVal.toJ, jrenderV, renderV]
  | .obj _ _ _ _ _ v rest _ => by
    simp only [LVal.toJ, jrenderV, renderV, toJ_renderV v, toJ_renderF rest]
theorem toJ_renderF : ∀ fs : LFields, jrenderF fs.toJ = renderF fs
  | .nil => by simp [LFields.toJ, jrenderF, renderF]
  | .cons _ _ _ _ v rest => by
    simp only [LFields.toJ, jrenderF, renderF, toJ_renderV v, toJ_renderF rest]
end

mutual
theorem toJ_cntV : ∀ v : LVal, jcntV v.toJ = cntV v
  | .scal _ _ => by simp [LVal.toJ, jcntV, cntV]
  | .obj _ _ _ _ _ v rest _ => by simp only [LVal.toJ, jcntV, cntV, toJ_cntV v, toJ_cntF rest]
theorem toJ_cntF : ∀ fs : LFields, jcntF fs.toJ = cntF fs
  | .nil => by simp [LFields.toJ, jcntF, cntF]
  | .cons _ _ _ _ v rest => by simp only [LFields.toJ, jcntF, cntF, toJ_cntV v, toJ_cntF rest]
end

mutual
theorem toJ_validV : ∀ (v : LVal) (a : Bytes), ValidV v a → JValidV v.toJ a
  | .scal _ _, a, h => by
    simp only [ValidV] at h
    simp only [LVal.toJ, JValidV]
    exact ⟨h.1, .inl h.2.1, h.2.2⟩
  | .obj _ _ _ _ _ v rest _, a, h => by
    simp only [ValidV] at h
    obtain ⟨h1, h2, h3, h4, h5, h6, h7, h8⟩ := h
    simp only [LVal.toJ, JValidV, toJ_renderF]
    exact ⟨h1, h2, h3, h4, .inl h5, h6, toJ_validV v _ h7, toJ_validF rest _ h8⟩
theorem toJ_validF : ∀ (fs : LFields) (a : Bytes), ValidF fs a → JValidF fs.toJ a
  | .nil, _, _ => by simp [LFields.toJ, JValidF]
  | .cons _ _ _ _ v rest, a, h => by
    simp only [ValidF] at h
    obtain ⟨h1, h2, h3, h4, h5, h6⟩ := h
    simp only [LFields.toJ, JValidF, toJ_renderF]
    exact ⟨h1, h2, .inl h3, h4, toJ_validV v _ h5, toJ_validF rest _ h6⟩
end

mutual
theorem toJ_tapeV : ∀ (v : LVal) (b : Nat) (a : Bytes), jtapeV v.toJ b a = tapeV v b a
  | .scal _ _, _, _ => by simp [LVal.toJ, jtapeV, tapeV]
  | .obj _ _ _ _ _ v rest _, b, a => by
    simp only [LVal.toJ, jtapeV, tapeV, toJ_renderV, toJ_renderF, toJ_cntV, toJ_cntF,
      toJ_tapeV v, toJ_tapeF rest]
theorem toJ_tapeF : ∀ (fs : LFields) (b : Nat) (a : Bytes), jtapeF fs.toJ b a = tapeF fs b a
  | .nil, _, _ => by simp [LFields.toJ, jtapeF, tapeF]
  | .cons _ _ _ _ v rest, b, a => by
    simp only [LFields.toJ, jtapeF, tapeF, toJ_renderV, toJ_renderF, toJ_cntV, toJ_cntF,
      toJ_tapeV v, toJ_tapeF rest]
end

end Jomini.TextTape
