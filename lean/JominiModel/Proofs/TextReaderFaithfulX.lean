import JominiModel.Proofs.TextReaderFaithful
/-
Faithfulness of the text reader, extended layout model: `@variable` and `@[ … ]` scalars (`Lexeme.ValidX`, `ValidLexX`,
`ValidVX` / `ValidMX`), and the precise negative statement for unquoted scalars that begin with `?`.

How the reader tokenises these (reader.rs, `next_opt_fallback`):
* `@name`: ONE unquoted token, `@` and the bytes up to the next boundary byte (exactly like any other unquoted scalar);
* `@[ … ]`: ONE unquoted token from `@` up to and including the FIRST `]` — whatever lies between (blanks, operators,
  braces, quotes, `#`, newlines), no nesting, and nothing is required of the byte behind the `]`;
* `?x…` (`?` not followed by `=`): the operator token `Exists` for the `?` alone, then `x…` is lexed on its own.  An unquoted
  scalar that begins with `?` is therefore NOT read back as one scalar (`question_splits`).
-/
namespace Jomini.TextReader
open Jomini Jomini.TextReader.Spec

/-- extended validity of a lexeme in front of `after`: as `Lexeme.Valid`, and in addition
* `@name` — `@`, at least one more byte, no boundary byte, followed by a boundary byte or the end;
* `@[body]` — `body` without `]`; anything may follow. -/
def Lexeme.ValidX : Lexeme → Bytes → Prop
  | .scalar false b, after =>
    (Lexeme.scalar false b).Valid after ∨
    ((∃ d r, b = 64 :: d :: r ∧ ∀ c ∈ d :: r, isBoundary c = false) ∧ StartsBoundary after) ∨
    (∃ body, b = 64 :: 91 :: (body ++ [93]) ∧ ∀ c ∈ body, (c == 93) = false)
  | lx, after => lx.Valid after

theorem Lexeme.Valid.toX {lx : Lexeme} {after : Bytes} (h : lx.Valid after) : lx.ValidX after := by
  cases lx with
  | open_ => exact h
  | close => exact h
  | op o => exact h
  | scalar q b =>
    cases q with
    | true => exact h
    | false => exact Or.inl h

theorem lexeme_text_posX {lx : Lexeme} {after : Bytes} (h : lx.ValidX after) : 0 < lx.text.length := by
  cases lx with
  | open_ => simp [Lexeme.text]
  | close => simp [Lexeme.text]
  | op o => cases o <;> simp [Lexeme.text, opText]
  | scalar q b =>
    cases q with
    | true => simp [Lexeme.text]
    | false =>
      rcases h with h | ⟨⟨d, r, rfl, _⟩, _⟩ | ⟨body, rfl, _⟩
      · exact lexeme_text_pos h
      · simp [Lexeme.text]
      · simp [Lexeme.text]

/-- **one lexeme lexes back to itself** (extended validity) -/
theorem specStep_lexemeX {pos0 : Bool} {pre after : Bytes} {bom bom_s : Bom} (lx : Lexeme)
    (hs : Skips pos0 pre 0 bom bom_s) (hv : lx.ValidX after)
    (hbomc : ¬(pos0 = true ∧ pre = [] ∧ bom_s = .unknown ∧ ∃ r', lx.text ++ after = 0xef :: 0xbb :: 0xbf :: r')) :
    ∃ b', specStep pos0 bom (pre ++ (lx.text ++ after)) = some (.tok (pre.length + lx.text.length) lx.tok b') := by
  have hlen : ∀ (c : UInt8) (r : Bytes), (pre ++ c :: r).length = pre.length + 1 + r.length := by intro c r; simp; omega
  cases lx with
  | open_ => exact specStep_lexeme _ hs hv hbomc
  | close => exact specStep_lexeme _ hs hv hbomc
  | op o => exact specStep_lexeme _ hs hv hbomc
  | scalar q b =>
    cases q with
    | true => exact specStep_lexeme _ hs hv hbomc
    | false =>
      rcases hv with hv | ⟨⟨d, r, rfl, hnb⟩, hafter⟩ | ⟨body, rfl, hbody⟩
      · exact specStep_lexeme _ hs hv hbomc
      · -- `@name`
        have hd : isBoundary d = false := hnb d (by simp)
        have hb' : ∀ x ∈ d :: r, isBoundary x = false := hnb
        have hd91 : (d == 91) = false := by
          cases h : d == 91 with
          | false => rfl
          | true => rw [eq_of_beq h] at hd; simp [isBoundary] at hd
        have htext : (Lexeme.scalar false (64 :: d :: r)).text ++ after = 64 :: (d :: r ++ after) := by simp [Lexeme.text]
        obtain ⟨bx, h⟩ := specStep_at_token (r := d :: r ++ after) hs (c := 64) (by decide) (by decide)
          (by rintro ⟨⟨hc, _⟩, _⟩; simp at hc)
        refine ⟨bx, ?_⟩
        rw [htext, h]
        have htok : tokenAt 64 (d :: r ++ after) pre.length = unqTok 64 (d :: r ++ after) pre.length := by
          simp [tokenAt, atTok, hd91]
        rw [htok]
        unfold unqTok
        rcases hafter with rfl | ⟨a, x, rfl, ha⟩
        · simp only [List.append_nil]
          rw [findIdx_none_of_all hb']
          simp only [interp, Lexeme.tok, Lexeme.text]
          have hl := hlen 64 (d :: r)
          rw [hl]
          have : pre.length + 1 + (d :: r).length - ((d :: r).length + 1) = pre.length := by omega
          rw [this]; simp; omega
        · rw [findIdx_first hb' a ha]
          simp only [interp, Lexeme.tok, Lexeme.text, Nat.zero_add]
          have : (64 :: (d :: r ++ a :: x)).take (1 + (d :: r).length) = 64 :: d :: r := by
            rw [show 1 + (d :: r).length = (d :: r).length + 1 by omega]; simp
          rw [this]; simp; omega
      · -- `@[ … ]`
        have htext : (Lexeme.scalar false (64 :: 91 :: (body ++ [93]))).text ++ after = 64 :: (91 :: (body ++ 93 :: after)) := by
          simp [Lexeme.text]
        obtain ⟨bx, h⟩ := specStep_at_token (r := 91 :: (body ++ 93 :: after)) hs (c := 64) (by decide) (by decide)
          (by rintro ⟨⟨hc, _⟩, _⟩; simp at hc)
        refine ⟨bx, ?_⟩
        rw [htext, h]
        have hfi : findIdx (· == 93) (body ++ 93 :: after) 0 = some (0 + body.length) :=
          findIdx_first (p := (· == 93)) hbody 93 (by decide) after 0
        have htok : tokenAt 64 (91 :: (body ++ 93 :: after)) pre.length =
            .tok (pre.length + 2 + body.length + 1) (.unquoted ((64 :: 91 :: (body ++ 93 :: after)).take (2 + body.length + 1))) := by
          simp [tokenAt, atTok, hfi]
        rw [htok]
        simp only [interp, Lexeme.tok, Lexeme.text]
        have : (64 :: 91 :: (body ++ 93 :: after)).take (2 + body.length + 1) = 64 :: 91 :: (body ++ [93]) := by
          rw [show 2 + body.length + 1 = (body.length + 1) + 1 + 1 by omega]
          simp only [List.take_succ_cons]
          rw [show body ++ 93 :: after = (body ++ [93]) ++ after by simp, List.take_append_of_le_length (by simp)]
          rw [List.take_of_length_le (by simp)]
        rw [this]; simp; omega

/-! ### lists of lexemes -/

/-- the lexemes `items` are valid in front of the bytes `tail` (nothing is asked of `tail`) -/
def ValidPreX : List (Bytes × Lexeme) → Bytes → Prop
  | [], _ => True
  | (g, lx) :: rest, tail => Gap g ∧ lx.ValidX (renderLex rest tail) ∧ ValidPreX rest tail

/-- layout validity with the extended lexeme validity (compare `ValidLex`) -/
def ValidLexX : List (Bytes × Lexeme) → Bytes → Prop
  | [], gt => EndGap gt
  | (g, lx) :: rest, gt => Gap g ∧ lx.ValidX (renderLex rest gt) ∧ ValidLexX rest gt

theorem ValidLex.toX : ∀ {items : List (Bytes × Lexeme)} {gt : Bytes}, ValidLex items gt → ValidLexX items gt
  | [], _, h => h
  | (_, _) :: _, _, h => ⟨h.1, h.2.1.toX, ValidLex.toX h.2.2⟩

theorem ValidLexX.pre : ∀ {items : List (Bytes × Lexeme)} {gt : Bytes}, ValidLexX items gt → ValidPreX items gt ∧ EndGap gt
  | [], _, h => ⟨trivial, h⟩
  | (_, _) :: _, _, h => ⟨⟨h.1, h.2.1, (ValidLexX.pre h.2.2).1⟩, (ValidLexX.pre h.2.2).2⟩

theorem ValidPreX.append : ∀ {a b : List (Bytes × Lexeme)} {tail : Bytes},
    ValidPreX a (renderLex b tail) → ValidPreX b tail → ValidPreX (a ++ b) tail
  | [], _, _, _, hb => hb
  | (g, lx) :: a, b, tail, ha, hb => by
    simp only [List.cons_append, ValidPreX, renderLex_append]
    exact ⟨ha.1, ha.2.1, ValidPreX.append ha.2.2 hb⟩

/-- **the from-slice reader over a valid prefix**: on `pre ++ renderLex items tail` (the scan skips `pre`) the first
`items.length` calls return exactly the tokens of `items`, whatever `tail` is; the reader is then in front of `tail`. -/
theorem lexAll_itemsX (tail : Bytes) : ∀ (items : List (Bytes × Lexeme)) (pre : Bytes) (r : Reader) (pos : Nat) (bom bom_s : Bom)
    (f n : Nat) (acc : List Token),
    RelQ r pos bom (pre ++ renderLex items tail) → r.cap = 0 → Skips (pos == 0) pre 0 bom bom_s → ValidPreX items tail →
    (pos = 0 → pre = [] → bom_s = .unknown → ¬∃ r', renderLex items tail = 0xef :: 0xbb :: 0xbf :: r') →
    2 * (pre ++ renderLex items tail).length + 4 ≤ f →
    ∃ r' pos' b' bs' pre', lexAll f (n + items.length) r acc = lexAll f n r' ((items.map (fun x => x.2.tok)).reverse ++ acc) ∧
      RelQ r' pos' b' (pre' ++ tail) ∧ r'.cap = 0 ∧ Skips (pos' == 0) pre' 0 b' bs' ∧
      pos' + (pre' ++ tail).length = pos + (pre ++ renderLex items tail).length ∧ pos ≤ pos' ∧
      (pos' = 0 → pre' = [] → bs' = .unknown → items = [] ∧ pos = 0 ∧ pre = [] ∧ bom_s = .unknown) := by
  intro items
  induction items with
  | nil =>
    intro pre r pos bom bom_s f n acc hrel hcap hs _ _ _
    exact ⟨r, pos, bom, bom_s, pre, rfl, by simpa [renderLex] using hrel, hcap, hs, by simp [renderLex], Nat.le_refl _,
      fun h1 h2 h3 => ⟨rfl, h1, h2, h3⟩⟩
  | cons it rest ih =>
    obtain ⟨g, lx⟩ := it
    intro pre r pos bom bom_s f n acc hrel hcap hs hv hclash hf
    simp only [ValidPreX] at hv
    obtain ⟨hg, hlv, hrest⟩ := hv
    have hall := hs.append (hg.skips (pos == 0) (0 + pre.length) bom_s)
    have hd : pre ++ renderLex ((g, lx) :: rest) tail = (pre ++ g) ++ (lx.text ++ renderLex rest tail) := by
      simp [renderLex]
    obtain ⟨b', hsp⟩ := specStep_lexemeX lx hall hlv (by
      rintro ⟨hp, hpg, hb, r', hr'⟩
      have hpre : pre = [] := by cases pre with | nil => rfl | cons _ _ => simp at hpg
      have hg0 : g = [] := by subst hpre; simpa using hpg
      refine hclash (by simpa using hp) hpre hb ⟨r', ?_⟩
      subst hg0; simpa [renderLex] using hr')
    rw [← hd] at hsp
    have o := nextOpt_specQ r pos bom _ f hrel hf
    rcases o with ⟨hne, _⟩ | o
    · exact absurd hcap hne
    · unfold OutQOk at o
      rw [hsp] at o
      obtain ⟨r1, e1, hr1, _, hc1⟩ := o
      have hdrop : (pre ++ renderLex ((g, lx) :: rest) tail).drop ((pre ++ g).length + lx.text.length) = renderLex rest tail := by
        rw [hd, ← List.append_assoc]
        have : (pre ++ g).length + lx.text.length = (pre ++ g ++ lx.text).length := by simp; omega
        rw [this, List.drop_left]
      rw [hdrop] at hr1
      have htl := lexeme_text_posX hlv
      have hposne : pos + ((pre ++ g).length + lx.text.length) ≠ 0 := by omega
      obtain ⟨r', pos', b2, bs', pre', h1, h2, h3, h4, h5, hle, h6⟩ :=
        ih [] r1 (pos + ((pre ++ g).length + lx.text.length)) b' b' f n (lx.tok :: acc)
          (by simpa using hr1) (by rw [hc1]; exact hcap) (.nil _ _) hrest (fun h => absurd h hposne)
          (by
            have : (renderLex rest tail).length ≤ (pre ++ renderLex ((g, lx) :: rest) tail).length := by
              rw [hd]; simp; omega
            simp only [List.nil_append]; omega)
      refine ⟨r', pos', b2, bs', pre', ?_, h2, h3, h4, ?_, by omega, ?_⟩
      · have : n + ((g, lx) :: rest).length = (n + rest.length) + 1 := by simp; omega
        rw [this, lexAll]
        simp only [next, e1]
        rw [h1]
        simp
      · rw [h5, hd]; simp; omega
      · intro a b c
        obtain ⟨_, hp, _⟩ := h6 a b c
        exact absurd hp hposne

/-- **`lexAll_faithful` with the extended validity** -/
theorem lexAll_faithfulX (gt : Bytes) (items : List (Bytes × Lexeme)) (pre : Bytes) (r : Reader) (pos : Nat) (bom bom_s : Bom)
    (f n : Nat) (acc : List Token)
    (hrel : RelQ r pos bom (pre ++ renderLex items gt)) (hcap : r.cap = 0) (hs : Skips (pos == 0) pre 0 bom bom_s)
    (hv : ValidLexX items gt)
    (hclash : pos = 0 → pre = [] → bom_s = .unknown → ¬∃ r', renderLex items gt = 0xef :: 0xbb :: 0xbf :: r')
    (hn : items.length + 1 ≤ n) (hf : 2 * (pre ++ renderLex items gt).length + 4 ≤ f) :
    (lexAll f n r acc).toks = acc.reverse ++ items.map (fun x => x.2.tok) ∧ (lexAll f n r acc).out = .end_ ∧
    (lexAll f n r acc).final.position = pos + (pre ++ renderLex items gt).length := by
  obtain ⟨hpre, hend⟩ := hv.pre
  obtain ⟨m, rfl⟩ : ∃ m, n = (m + 1) + items.length := ⟨n - 1 - items.length, by omega⟩
  obtain ⟨r', pos', b', bs', pre', h1, h2, h3, h4, h5, hle, _⟩ :=
    lexAll_itemsX gt items pre r pos bom bom_s f (m + 1) acc hrel hcap hs hpre hclash hf
  rw [h1]
  obtain ⟨b'', hsp⟩ := specStep_end h4 hend
  have o := nextOpt_specQ r' pos' b' _ f h2 (by omega)
  rcases o with ⟨hne, _⟩ | o
  · exact absurd h3 hne
  · unfold OutQOk at o
    rw [hsp] at o
    obtain ⟨r'', e1, hr1, _⟩ := o
    simp only [lexAll, next, e1]
    refine ⟨by simp, trivial, ?_⟩
    rw [hr1.pos]; omega

theorem renderLex_lengthX {items : List (Bytes × Lexeme)} {gt : Bytes} (h : ValidLexX items gt) :
    items.length ≤ (renderLex items gt).length := by
  induction items with
  | nil => simp
  | cons it rest ih =>
    obtain ⟨g, lx⟩ := it
    simp only [ValidLexX] at h
    have := ih h.2.2
    have hp := lexeme_text_posX h.2.1
    simp [renderLex]; omega

/-- **`slice_faithful_lexemes` with `@variable` and `@[ … ]` scalars** -/
theorem slice_faithful_lexemesX (items : List (Bytes × Lexeme)) (gt : Bytes) (bom : Bool)
    (hv : ValidLexX items gt)
    (hclash : bom = false → ¬∃ r', renderLex items gt = 0xef :: 0xbb :: 0xbf :: r') :
    (sliceTokens (bomBytes bom ++ renderLex items gt)).toks = items.map (fun x => x.2.tok) ∧
    (sliceTokens (bomBytes bom ++ renderLex items gt)).out = .end_ ∧
    (sliceTokens (bomBytes bom ++ renderLex items gt)).final.position = (bomBytes bom ++ renderLex items gt).length := by
  have hrel : Rel (fromSlice (bomBytes bom ++ renderLex items gt)) 0 .unknown (bomBytes bom ++ renderLex items gt) :=
    ⟨rfl, rfl, by simp [fromSlice], by intro x hx; simp [fromSlice] at hx, fun _ => rfl⟩
  have hlen := renderLex_lengthX hv
  cases bom with
  | true =>
    have hs : Skips ((0 : Nat) == 0) [0xef, 0xbb, 0xbf] 0 .unknown .present := .bom rfl (.nil _ _)
    have := lexAll_faithfulX gt items [0xef, 0xbb, 0xbf] _ 0 .unknown .present (fuelFor (bomBytes true ++ renderLex items gt))
      (fuelFor (bomBytes true ++ renderLex items gt)) [] (Or.inl hrel) rfl hs hv (by intro _ h; simp at h)
      (by simp [fuelFor, bomBytes]; omega) (by simp [fuelFor, bomBytes])
    simpa [sliceTokens, bomBytes] using this
  | false =>
    have hs : Skips ((0 : Nat) == 0) [] 0 .unknown .unknown := .nil _ _
    have := lexAll_faithfulX gt items [] _ 0 .unknown .unknown (fuelFor (bomBytes false ++ renderLex items gt))
      (fuelFor (bomBytes false ++ renderLex items gt)) [] (Or.inl hrel) rfl hs hv (fun _ _ _ => hclash rfl)
      (by simp [fuelFor, bomBytes]; omega) (by simp [fuelFor, bomBytes])
    simpa [sliceTokens, bomBytes] using this

/-! ### documents -/

mutual
/-- `ValidV` with the extended scalar validity -/
def ValidVX : DVal → Bytes → Prop
  | .scal g q b, after => Gap g ∧ (Lexeme.scalar q b).ValidX after
  | .cont g ms gc, after => Gap g ∧ Gap gc ∧ ValidMX ms (gc ++ 125 :: after)
/-- `ValidM` with the extended scalar validity: keys and values may be `@variable`s and `@[ … ]` expressions -/
def ValidMX : DMembers → Bytes → Prop
  | .nil, _ => True
  | .field g0 kq key g1 o v rest, after =>
    Gap g0 ∧ Gap g1 ∧ (Lexeme.scalar kq key).ValidX (g1 ++ (opText o ++ (renderV v ++ (renderM rest ++ after)))) ∧
    (Lexeme.op o).Valid (renderV v ++ (renderM rest ++ after)) ∧
    ValidVX v (renderM rest ++ after) ∧ ValidMX rest after
  | .elem v rest, after => ValidVX v (renderM rest ++ after) ∧ ValidMX rest after
end

mutual
theorem ValidV.toX : ∀ (v : DVal) (after : Bytes), ValidV v after → ValidVX v after
  | .scal g q b, after, h => by simp only [ValidV] at h; simp only [ValidVX]; exact ⟨h.1, h.2.toX⟩
  | .cont g ms gc, after, h => by
    simp only [ValidV] at h; simp only [ValidVX]; exact ⟨h.1, h.2.1, ValidM.toX ms _ h.2.2⟩
theorem ValidM.toX : ∀ (ms : DMembers) (after : Bytes), ValidM ms after → ValidMX ms after
  | .nil, _, _ => by simp [ValidMX]
  | .field g0 kq key g1 o v rest, after, h => by
    simp only [ValidM] at h; simp only [ValidMX]
    exact ⟨h.1, h.2.1, h.2.2.1.toX, h.2.2.2.1, ValidV.toX v _ h.2.2.2.2.1, ValidM.toX rest _ h.2.2.2.2.2⟩
  | .elem v rest, after, h => by
    simp only [ValidM] at h; simp only [ValidMX]
    exact ⟨ValidV.toX v _ h.1, ValidM.toX rest _ h.2⟩
end

mutual
theorem validLexX_itemsV : ∀ (v : DVal) (more : List (Bytes × Lexeme)) (gt : Bytes),
    ValidVX v (renderLex more gt) → ValidLexX more gt → ValidLexX (itemsV v ++ more) gt
  | .scal g q b, more, gt, h, hm => by
    simp only [ValidVX] at h
    simp only [itemsV, List.cons_append, List.nil_append, ValidLexX]
    exact ⟨h.1, h.2, hm⟩
  | .cont g ms gc, more, gt, h, hm => by
    simp only [ValidVX] at h
    obtain ⟨hg, hgc, hms⟩ := h
    simp only [itemsV, List.cons_append, List.append_assoc, List.nil_append, ValidLexX, Lexeme.ValidX, Lexeme.Valid, true_and]
    refine ⟨hg, ?_⟩
    have hmore' : ValidLexX ((gc, Lexeme.close) :: more) gt := by
      simp only [ValidLexX, Lexeme.ValidX, Lexeme.Valid, true_and]; exact ⟨hgc, hm⟩
    refine validLexX_itemsM ms ((gc, .close) :: more) gt ?_ hmore'
    simpa [renderLex, Lexeme.text] using hms
theorem validLexX_itemsM : ∀ (ms : DMembers) (more : List (Bytes × Lexeme)) (gt : Bytes),
    ValidMX ms (renderLex more gt) → ValidLexX more gt → ValidLexX (itemsM ms ++ more) gt
  | .nil, more, gt, _, hm => by simpa [itemsM] using hm
  | .field g0 kq key g1 o v rest, more, gt, h, hm => by
    simp only [ValidMX] at h
    obtain ⟨h0, h1, hk, ho, hv, hr⟩ := h
    have hrest := validLexX_itemsM rest more gt hr hm
    have hval := validLexX_itemsV v (itemsM rest ++ more) gt (by rw [renderLex_append, renderLex_itemsM]; exact hv) hrest
    simp only [itemsM, List.cons_append, List.append_assoc, ValidLexX]
    refine ⟨h0, ?_, h1, ?_, hval⟩
    · simpa [renderLex, renderLex_append, renderLex_itemsV, renderLex_itemsM, Lexeme.text] using hk
    · have : (Lexeme.op o).ValidX (renderLex (itemsV v ++ (itemsM rest ++ more)) gt) := by
        simpa [renderLex_append, renderLex_itemsV, renderLex_itemsM] using ho.toX
      exact this
  | .elem v rest, more, gt, h, hm => by
    simp only [ValidMX] at h
    have hrest := validLexX_itemsM rest more gt h.2 hm
    have hval := validLexX_itemsV v (itemsM rest ++ more) gt (by rw [renderLex_append, renderLex_itemsM]; exact h.1) hrest
    simpa [itemsM] using hval
end

/-- **`slice_faithful` with `@variable` and `@[ … ]` scalars** (keys and values) -/
theorem slice_faithfulX (ms : DMembers) (gt : Bytes) (bom : Bool) (hv : ValidMX ms gt) (hgt : EndGap gt)
    (hclash : bom = false → ¬∃ r', renderM ms ++ gt = 0xef :: 0xbb :: 0xbf :: r') :
    (sliceTokens (bomBytes bom ++ (renderM ms ++ gt))).toks = (itemsM ms).map (fun x => x.2.tok) ∧
    (sliceTokens (bomBytes bom ++ (renderM ms ++ gt))).out = .end_ ∧
    (sliceTokens (bomBytes bom ++ (renderM ms ++ gt))).final.position = (bomBytes bom ++ (renderM ms ++ gt)).length := by
  have hr : renderLex (itemsM ms) gt = renderM ms ++ gt := renderLex_itemsM ms gt
  have hvl : ValidLexX (itemsM ms) gt := by
    have := validLexX_itemsM ms [] gt (by simpa [renderLex] using hv) (by simpa [ValidLexX] using hgt)
    simpa using this
  have := slice_faithful_lexemesX (itemsM ms) gt bom hvl (by rw [hr]; exact hclash)
  rw [hr] at this
  exact this

theorem ValidPreX_length : ∀ (items : List (Bytes × Lexeme)) (tail : Bytes), ValidPreX items tail →
    items.length + tail.length ≤ (renderLex items tail).length
  | [], _, _ => by simp [renderLex]
  | (g, lx) :: rest, tail, h => by
    have hp := lexeme_text_posX h.2.1
    have := ValidPreX_length rest tail h.2.2
    simp [renderLex]; omega

/-! ### an unquoted scalar that begins with `?` is not read back as one scalar -/

/-- `?` not followed by `=` is the operator token `Exists`, one byte long -/
theorem specStep_question {pos0 : Bool} {pre rest : Bytes} {bom bom_s : Bom} (c : UInt8)
    (hs : Skips pos0 pre 0 bom bom_s) (hc : (c == 61) = false) :
    ∃ b', specStep pos0 bom (pre ++ 63 :: c :: rest) = some (.tok (pre.length + 1) (.op .exists_) b') := by
  obtain ⟨bx, h⟩ := specStep_at_token (r := c :: rest) hs (c := 63) (by decide) (by decide)
    (by rintro ⟨⟨h63, _⟩, _⟩; simp at h63)
  refine ⟨bx, ?_⟩
  rw [h]
  simp [tokenAt, opTok1, interp, hc]

/-- **the shape `?x…`** (`x ≠ =`): wherever an unquoted scalar beginning with `?` stands in a rendering, the reader — having
returned the tokens in front of it — returns the operator `Exists` there, not the scalar. -/
theorem question_splits (items1 rest : List (Bytes × Lexeme)) (g : Bytes) (c : UInt8) (r gt : Bytes) (bom : Bool)
    (h1 : ValidPreX items1 (g ++ 63 :: c :: (r ++ renderLex rest gt))) (hg : Gap g) (hc : (c == 61) = false)
    (hclash : bom = false → ¬∃ r', renderLex (items1 ++ (g, Lexeme.scalar false (63 :: c :: r)) :: rest) gt = 0xef :: 0xbb :: 0xbf :: r') :
    ∃ more, (sliceTokens (bomBytes bom ++ renderLex (items1 ++ (g, Lexeme.scalar false (63 :: c :: r)) :: rest) gt)).toks =
      items1.map (fun x => x.2.tok) ++ Token.op .exists_ :: more := by
  have hren : renderLex (items1 ++ (g, Lexeme.scalar false (63 :: c :: r)) :: rest) gt =
      renderLex items1 (g ++ 63 :: c :: (r ++ renderLex rest gt)) := by
    rw [renderLex_append]; simp [renderLex, Lexeme.text]
  rw [hren] at hclash ⊢
  generalize htail : g ++ 63 :: c :: (r ++ renderLex rest gt) = tail at h1 hclash
  have hrel : Rel (fromSlice (bomBytes bom ++ renderLex items1 tail)) 0 .unknown (bomBytes bom ++ renderLex items1 tail) :=
    ⟨rfl, rfl, by simp [fromSlice], by intro x hx; simp [fromSlice] at hx, fun _ => rfl⟩
  have hs0 : ∃ bs, Skips ((0 : Nat) == 0) (bomBytes bom) 0 .unknown bs ∧ (bom = false → bs = .unknown) := by
    cases bom with
    | true => exact ⟨.present, .bom rfl (.nil _ _), fun h => by simp at h⟩
    | false => exact ⟨.unknown, .nil _ _, fun _ => rfl⟩
  obtain ⟨bs, hs0, _⟩ := hs0
  have htl : 1 ≤ tail.length := by rw [← htail]; simp; omega
  have hil := ValidPreX_length items1 tail h1
  generalize hF : fuelFor (bomBytes bom ++ renderLex items1 tail) = F
  have hf : 2 * (bomBytes bom ++ renderLex items1 tail).length + 4 ≤ F := by rw [← hF]; simp [fuelFor]
  obtain ⟨m, hm⟩ : ∃ m, F = (m + 1) + items1.length := ⟨F - 1 - items1.length, by simp only [List.length_append] at hf; omega⟩
  obtain ⟨r', pos', b', bs', pre', e1, hr1, hc1, hs1, hp1, hle, _⟩ :=
    lexAll_itemsX tail items1 (bomBytes bom) _ 0 .unknown bs F (m + 1) []
      (Or.inl hrel) rfl hs0 h1 (by
        intro _ hb0 _
        cases bom with
        | true => simp [bomBytes] at hb0
        | false => exact hclash rfl) hf
  unfold sliceTokens
  rw [hF]
  have e0 : lexAll F F (fromSlice (bomBytes bom ++ renderLex items1 tail)) [] =
      lexAll F ((m + 1) + items1.length) (fromSlice (bomBytes bom ++ renderLex items1 tail)) [] := by rw [← hm]
  rw [e0, e1]
  -- the call at the `?`
  have hall := hs1.append (hg.skips (pos' == 0) (0 + pre'.length) bs')
  obtain ⟨b'', hsp⟩ := specStep_question (rest := r ++ renderLex rest gt) c hall hc
  have hd : pre' ++ tail = (pre' ++ g) ++ 63 :: c :: (r ++ renderLex rest gt) := by rw [← htail]; simp
  rw [← hd] at hsp
  have o := nextOpt_specQ r' pos' b' _ F hr1 (by omega)
  rcases o with ⟨hne, _⟩ | o
  · exact absurd hc1 hne
  · unfold OutQOk at o
    rw [hsp] at o
    obtain ⟨r'', e2, _⟩ := o
    rw [lexAll]
    simp only [next, e2]
    obtain ⟨more, hmore⟩ := lexAll_toks_prefix F m r''
      (Token.op .exists_ :: ((items1.map (fun x => x.2.tok)).reverse ++ []))
    refine ⟨more, ?_⟩
    rw [← hmore]; simp

end Jomini.TextReader
