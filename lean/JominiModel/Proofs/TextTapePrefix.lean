import JominiModel.Proofs.TextTapeTotal
import JominiModel.Proofs.TextTapeCutLex
import JominiModel.Proofs.TextTapeBlank
/-
C19 (text tape parser), part 1: a main-loop iteration that stopped at least two bytes before the
end of a truncated input behaves identically on every extension of that input (the scalar
positions, which the model records relative to the end of the input, shift by the length of the
extension).
-/
namespace Jomini.TextTape
open Jomini

def Slice.shift (L : Nat) (s : Slice) : Slice := ⟨s.tail + L, s.bytes⟩

/-- the same token in an input that is `L` bytes longer at the end. -/
def Tok.shift (L : Nat) : Tok → Tok
  | .unquoted s => .unquoted (s.shift L)
  | .quoted s => .quoted (s.shift L)
  | .parameter s => .parameter (s.shift L)
  | .undefParameter s => .undefParameter (s.shift L)
  | .header s => .header (s.shift L)
  | t => t

def St.shift (L : Nat) (st : St) : St := { st with tape := st.tape.map (Tok.shift L) }

theorem getElem?_shift (L : Nat) (T : List Tok) (i : Nat) :
    (T.map (Tok.shift L))[i]? = (T[i]?).map (Tok.shift L) := by simp

theorem endOf_shift (L : Nat) (x : Option Tok) : endOf (x.map (Tok.shift L)) = endOf x := by
  cases x with
  | none => rfl
  | some t => cases t <;> rfl

theorem closeState_shift (L : Nat) (x : Option Tok) : closeState (x.map (Tok.shift L)) = closeState x := by
  cases x with
  | none => rfl
  | some t => cases t <;> rfl

theorem setTok_shift (L : Nat) (T : List Tok) (i : Nat) (t : Tok) :
    setTok (T.map (Tok.shift L)) i (t.shift L) = (setTok T i t).map (·.map (Tok.shift L)) := by
  unfold setTok
  simp only [List.length_map]
  split <;> simp [List.map_set]

theorem insertBeforeLast_shift (L : Nat) (T : List Tok) (t : Tok) :
    insertBeforeLast (T.map (Tok.shift L)) (t.shift L) = (insertBeforeLast T t).map (·.map (Tok.shift L)) := by
  rcases List.eq_nil_or_concat T with rfl | ⟨T0, l, rfl⟩
  · rfl
  · simp [insertBeforeLast]

theorem getLast?_shift (L : Nat) (T : List Tok) :
    (T.map (Tok.shift L)).getLast? = T.getLast?.map (Tok.shift L) := by
  simp [List.getLast?_map]

theorem asScalar_shift (L : Nat) (t : Tok) : (t.shift L).asScalar = t.asScalar.map (Slice.shift L) := by
  cases t <;> rfl

/-! ### the scanners on an extended input -/

theorem skipWsAux_append : ∀ (x : Bytes) (b : Bool) (y q : Bytes),
    skipWsAux x b = some y → skipWsAux (x ++ q) b = some (y ++ q)
  | [], _, _, _, h => by simp [skipWsAux] at h
  | c :: cs, true, y, q, h => by
    simp only [skipWsAux] at h
    simp only [List.cons_append, skipWsAux]
    split at h <;> simp_all [skipWsAux_append cs _ y q h]
  | c :: cs, false, y, q, h => by
    simp only [skipWsAux] at h
    simp only [List.cons_append, skipWsAux]
    split at h
    · next hb => simp only [hb, if_true]; exact skipWsAux_append cs _ y q h
    · next hb =>
      split at h
      · next h35 =>
        subst h35
        simp only [isBlank_hash, Bool.false_eq_true, if_false, if_true]
        exact skipWsAux_append cs _ y q h
      · next h35 =>
        simp at h; subst h
        simp [hb, h35]

theorem skipWs_append {x y : Bytes} (q : Bytes) (h : skipWs x = some y) : skipWs (x ++ q) = some (y ++ q) :=
  skipWsAux_append x false y q h

theorem findFirst_append_lt (p : UInt8 → Bool) : ∀ (d q : Bytes), findFirst p d < d.length →
    findFirst p (d ++ q) = findFirst p d
  | [], _, h => by simp [findFirst] at h
  | c :: cs, q, h => by
    simp only [findFirst] at h ⊢
    simp only [List.cons_append, findFirst]
    split
    · rfl
    · next hc =>
      simp only [hc, Bool.false_eq_true, if_false, List.length_cons] at h
      rw [findFirst_append_lt p cs q (by omega)]

theorem splitAtScalar_append {p s r : Bytes} (q : Bytes) (h : splitAtScalar p = some (s, r)) (hr : r ≠ []) :
    splitAtScalar (p ++ q) = some (s, r ++ q) := by
  rw [splitAtScalar_eq_fallback sse_eq_tab] at h ⊢
  simp only [splitAtScalarFallback, splitAtChecked] at h ⊢
  split at h
  · next hle =>
    simp only [Option.some.injEq, Prod.mk.injEq] at h
    obtain ⟨rfl, rfl⟩ := h
    -- the rest is non-empty, so the cut index is inside `p`
    have hlt : max (findFirst isBoundary p) 1 < p.length := by
      rcases Nat.lt_or_ge (max (findFirst isBoundary p) 1) p.length with h | h
      · exact h
      · exact absurd (List.drop_eq_nil_of_le h) hr
    have hff : findFirst isBoundary p < p.length := by omega
    rw [findFirst_append_lt isBoundary p q hff]
    rw [if_pos (by simp; omega)]
    rw [List.take_append_of_le_length (by omega), List.drop_append_of_le_length (by omega)]
  · simp at h

theorem parseQuoteScalar_append {p s r : Bytes} (q : Bytes) (h : parseQuoteScalar p = .ok (s, r)) :
    parseQuoteScalar (p ++ q) = .ok (s, r ++ q) := by
  cases p with
  | nil => simp [parseQuoteScalar] at h
  | cons c hay =>
    rw [parseQuoteScalar_eq_fallback] at h
    have := (parseQuoteScalarFallback_prefix (c :: hay) q s r h).1
    rw [List.cons_append, parseQuoteScalar_eq_fallback]
    exact this

theorem parseScalarTok_append {tape tape' : List Tok} {d r : Bytes} (q : Bytes)
    (h : parseScalarTok tape d = .ok (tape', r)) (hr : r ≠ []) :
    parseScalarTok (tape.map (Tok.shift q.length)) (d ++ q) = .ok (tape'.map (Tok.shift q.length), r ++ q) := by
  unfold parseScalarTok at h ⊢
  split at h
  · next s r' hsp =>
    simp only [Except.ok.injEq, Prod.mk.injEq] at h
    obtain ⟨rfl, rfl⟩ := h
    rw [splitAtScalar_append q hsp hr]
    simp [Tok.shift, Slice.shift]
  · simp at h

theorem firstIdx_append_some (p : UInt8 → Bool) : ∀ (l : Bytes) (q : Bytes) (i : Nat),
    firstIdx p l = some i → firstIdx p (l ++ q) = some i
  | [], _, _, h => by simp [firstIdx] at h
  | c :: cs, q, i, h => by
    simp only [firstIdx] at h
    simp only [List.cons_append, firstIdx]
    split
    · next hc => simpa [hc] using h
    · next hc =>
      simp only [hc, Bool.false_eq_true, if_false, Option.map_eq_some_iff] at h
      obtain ⟨a, ha, rfl⟩ := h
      simp [firstIdx_append_some p cs q a ha]

theorem parseVariableTok_append {tape tape' : List Tok} {d r : Bytes} (q : Bytes)
    (h : parseVariableTok tape d = .ok (tape', r)) (hr : r ≠ []) :
    parseVariableTok (tape.map (Tok.shift q.length)) (d ++ q) = .ok (tape'.map (Tok.shift q.length), r ++ q) := by
  unfold parseVariableTok at h ⊢
  by_cases h91 : d[1]? = some 91
  · have hlen : 2 ≤ d.length := by have := getElem?_lt_of_some h91; omega
    have h91' : (d ++ q)[1]? = some 91 := by
      rw [List.getElem?_append_left (by omega)]; exact h91
    simp only [h91, h91', if_true] at h ⊢
    cases hi : firstIdx (fun c => decide (c = 93)) (d.drop 2) with
    | none => simp [hi] at h
    | some i =>
      have hi' : firstIdx (fun c => decide (c = 93)) ((d ++ q).drop 2) = some i := by
        rw [List.drop_append_of_le_length hlen]; exact firstIdx_append_some _ _ q i hi
      simp only [hi, hi'] at h ⊢
      simp only [splitAtChecked] at h ⊢
      by_cases hle : i + 2 + 1 ≤ d.length
      · simp only [hle, if_true, Except.ok.injEq, Prod.mk.injEq] at h
        obtain ⟨rfl, rfl⟩ := h
        rw [if_pos (by simp; omega)]
        rw [List.take_append_of_le_length hle, List.drop_append_of_le_length hle]
        simp [Tok.shift, Slice.shift]
      · simp [hle] at h
  · have hlen : 2 ≤ d.length := by
      simp only [h91, if_false] at h
      unfold parseScalarTok at h
      split at h
      · next s r' hsp =>
        simp at h
        obtain ⟨hd, hs⟩ := splitAtScalar_spec hsp
        have h1 := congrArg List.length hd
        have h2 : 0 < r.length := List.length_pos_iff.2 hr
        rw [← h.2] at h2
        simp only [List.length_append] at h1
        omega
      · simp at h
    have h91' : ¬ (d ++ q)[1]? = some 91 := by
      rw [List.getElem?_append_left (by omega)]; exact h91
    simp only [h91, h91', if_false] at h ⊢
    exact parseScalarTok_append q h hr

theorem lexValue_append {tape tape' : List Tok} {d r : Bytes} (q : Bytes)
    (h : lexValue tape d = .ok (tape', r)) (hr : r ≠ []) :
    lexValue (tape.map (Tok.shift q.length)) (d ++ q) = .ok (tape'.map (Tok.shift q.length), r ++ q) := by
  unfold lexValue at h
  split at h
  · simp at h
  · next c cs =>
    simp only [List.cons_append, lexValue]
    by_cases h34 : c = 34
    · subst h34
      simp only [if_true] at h ⊢
      unfold parseQuoteTok at h ⊢
      cases hq : parseQuoteScalar (34 :: cs) with
      | error f => simp [hq] at h
      | ok p =>
        obtain ⟨s, r'⟩ := p
        simp only [hq, Except.ok.injEq, Prod.mk.injEq] at h
        obtain ⟨rfl, rfl⟩ := h
        have := parseQuoteScalar_append q hq
        simp only [List.cons_append] at this
        rw [this]
        simp [Tok.shift, Slice.shift]
        try omega
    · simp only [h34, if_false] at h ⊢
      by_cases h64 : c = 64
      · simp only [h64, if_true] at h ⊢
        have := parseVariableTok_append q h hr
        simpa using this
      · simp only [h64, if_false] at h ⊢
        have := parseScalarTok_append q h hr
        simpa using this

theorem lexOperator_append_some {b : Bool} {d r : Bytes} {o : Op} (q : Bytes)
    (h : lexOperator b d = some (o, r)) (hr : r ≠ []) : lexOperator b (d ++ q) = some (o, r ++ q) := by
  unfold lexOperator at h ⊢
  match d with
  | [] => simp at h
  | [c] =>
    simp only [List.head?_nil, List.tail_nil] at h
    repeat' (split at h)
    all_goals simp_all
  | c :: c1 :: r1 =>
    simp only [List.cons_append, List.head?_cons, List.tail_cons, Option.some.injEq] at h ⊢
    by_cases h61 : c1 = 61 <;> by_cases hb : b = true <;> simp only [h61, hb, if_true, if_false, Bool.and_true,
      Bool.and_false, Bool.false_eq_true, decide_true, decide_false, Bool.true_and] at h ⊢ <;>
      (repeat' (split at h)) <;>
      first
      | (simp_all; done)
      | (simp only [Option.some.injEq, Prod.mk.injEq] at h; obtain ⟨h1, h2⟩ := h; subst h1; subst h2; simp_all)

theorem lexOperator_append_none {b : Bool} {d : Bytes} (q : Bytes)
    (h : lexOperator b d = none) (hl : 2 ≤ d.length) : lexOperator b (d ++ q) = none := by
  unfold lexOperator at h ⊢
  match d, hl with
  | c :: c1 :: r1, _ =>
    simp only [List.cons_append, List.head?_cons, List.tail_cons, Option.some.injEq] at h ⊢
    repeat' (split at h)
    all_goals simp_all

theorem firstFieldPeek_append {d : Bytes} (q : Bytes) (hl : 2 ≤ d.length) :
    firstFieldPeek (d ++ q) = firstFieldPeek d := by
  match d, hl with
  | c :: c1 :: r1, _ => simp [firstFieldPeek]

/-! ### one iteration on an extended input -/

@[simp] theorem St.shift_state (L : Nat) (st : St) : (st.shift L).state = st.state := rfl
@[simp] theorem St.shift_mixed (L : Nat) (st : St) : (st.shift L).mixed = st.mixed := rfl
@[simp] theorem St.shift_parent (L : Nat) (st : St) : (st.shift L).parent = st.parent := rfl
@[simp] theorem St.shift_tape (L : Nat) (st : St) : (st.shift L).tape = st.tape.map (Tok.shift L) := rfl

theorem shift_unquoted (L : Nat) (s : Slice) : (Tok.unquoted s).shift L = .unquoted (s.shift L) := rfl
theorem shift_header (L : Nat) (s : Slice) : (Tok.header s).shift L = .header (s.shift L) := rfl
theorem shift_endTok (L i : Nat) : (Tok.endTok i).shift L = .endTok i := rfl
theorem shift_object (L e : Nat) (m : Bool) : (Tok.object e m).shift L = .object e m := rfl
theorem shift_array (L e : Nat) (m : Bool) : (Tok.array e m).shift L = .array e m := rfl
theorem shift_operator (L : Nat) (o : Op) : (Tok.operator o).shift L = .operator o := rfl
theorem shift_mixedContainer (L : Nat) : Tok.mixedContainer.shift L = .mixedContainer := rfl

theorem setTok_shift' (L : Nat) {T T' : List Tok} {i : Nat} {t : Tok} (h : setTok T i t = some T')
    (ht : t.shift L = t) : setTok (T.map (Tok.shift L)) i t = some (T'.map (Tok.shift L)) := by
  have := setTok_shift L T i t
  rw [ht, h] at this; simpa using this

theorem paramTok_shift (L : Nat) (b : Bool) (sl : Slice) : (paramTok b sl).shift L = paramTok b (sl.shift L) := by
  cases b <;> rfl

theorem paramDefBody_append {mixed : Bool} {tape : List Tok} {parent : Nat} {st' : St} {data d' : Bytes}
    (q : Bytes) (h : paramDefBody mixed tape parent data = .cont st' d') (hd : 2 ≤ d'.length) :
    paramDefBody mixed (tape.map (Tok.shift q.length)) parent (data ++ q) =
      .cont (st'.shift q.length) (d' ++ q) := by
  unfold paramDefBody at h
  simp only at h
  generalize hk : (2 + if decide (data[2]? = some 33) = true then 1 else 0) = k at h
  split at h
  · contradiction
  · next hlt =>
    split at h
    · contradiction
    · next hne =>
      split at h
      · contradiction
      · next name d2 hsp1 =>
        split at h
        · contradiction
        · next h93 =>
          split at h
          · contradiction
          · next d4 hws1 =>
            split at h
            · contradiction
            · next kv d5 hsp2 =>
              split at h
              · contradiction
              · next d6 hws2 =>
                -- every piece that was read lies strictly inside `data`
                have hd5 : d5 ≠ [] := by
                  intro h0; subst h0; simp [skipWs, skipWsAux] at hws2
                have hd2 : d2 ≠ [] := by
                  intro h0; subst h0; simp at h93
                have hk3 : k ≤ data.length := by omega
                have h2 : (data ++ q)[2]? = data[2]? ∨ data.length ≤ 2 := by
                  rcases Nat.lt_or_ge 2 data.length with h | h
                  · exact .inl (List.getElem?_append_left h)
                  · exact .inr h
                have hdl : 3 ≤ data.length := by
                  -- `name ++ ]` follows the opener
                  have h1 := congrArg List.length (splitAtScalar_spec hsp1).1
                  have h3 := (splitAtScalar_spec hsp1).2
                  simp only [List.length_drop, List.length_append] at h1
                  omega
                have h2' : (data ++ q)[2]? = data[2]? := List.getElem?_append_left (by omega)
                have hsp1' := splitAtScalar_append q hsp1 hd2
                have hws1' := skipWs_append q hws1
                have hsp2' := splitAtScalar_append q hsp2 hd5
                have hws2' := skipWs_append q hws2
                have hdrop : (data ++ q).drop k = data.drop k ++ q := List.drop_append_of_le_length hk3
                have htl : (d2 ++ q).tail = d2.tail ++ q := by
                  cases d2 with
                  | nil => exact absurd rfl hd2
                  | cons a b => rfl
                have hhd : (d2 ++ q).head? = d2.head? := by
                  cases d2 with
                  | nil => exact absurd rfl hd2
                  | cons a b => rfl
                unfold paramDefBody
                simp only [h2', hk, List.length_append]
                rw [if_neg (by omega), hdrop]
                have hne' : ¬ (data.drop k ++ q).isEmpty = true := by
                  simp only [List.isEmpty_iff, List.append_eq_nil_iff, not_and]
                  intro h0; simp [h0] at hne
                rw [if_neg hne', hsp1']
                simp only [hhd, htl]
                rw [if_neg h93]
                simp only [hws1', hsp2', hws2']
                split at h
                · contradiction
                · next c rest =>
                  split at h
                  all_goals
                    simp only [Step.cont.injEq] at h
                    obtain ⟨rfl, rfl⟩ := h
                  · next hc =>
                    simp [hc, St.shift, paramTok_shift, Slice.shift, shift_unquoted, shift_object]
                  · next hc =>
                    simp [hc, St.shift, paramTok_shift, Slice.shift, shift_unquoted, shift_object]

theorem paramDef_append {st st' : St} {data d' : Bytes} {i : Bool} (q : Bytes)
    (h : paramDef st data i = .cont st' d') (hd : 2 ≤ d'.length) :
    paramDef (st.shift q.length) (data ++ q) i = .cont (st'.shift q.length) (d' ++ q) := by
  unfold paramDef at h ⊢
  split at h
  · contradiction
  · next h91 =>
    have hl : 1 < data.length := by
      rcases Nat.lt_or_ge 1 data.length with h | h
      · exact h
      · rw [List.getElem?_eq_none h] at h91; simp at h91
    rw [List.getElem?_append_left hl, if_neg h91]
    split at h
    · contradiction
    · next tape parent hp =>
      have hp' : paramDefPre (st.shift q.length) i = some (tape.map (Tok.shift q.length), parent) := by
        unfold paramDefPre at hp ⊢
        cases i with
        | false => simp at hp; obtain ⟨rfl, rfl⟩ := hp; simp
        | true =>
          simp only [if_true, St.shift_tape, List.length_map, St.shift_parent] at hp ⊢
          split at hp
          · simp at hp
          · next hne =>
            simp only [Option.map_eq_some_iff, Prod.mk.injEq] at hp
            obtain ⟨t, hset, rfl, rfl⟩ := hp
            rw [if_neg hne, setTok_shift' q.length hset rfl]; simp
      rw [hp']
      simp only [St.shift_mixed]
      exact paramDefBody_append q h hd

theorem stepKey_append {st st' : St} {c : UInt8} {cs d' : Bytes} (q : Bytes)
    (h : stepKey st (c :: cs) = .cont st' d') (hd : 2 ≤ d'.length) :
    stepKey (st.shift q.length) (c :: (cs ++ q)) = .cont (st'.shift q.length) (d' ++ q) := by
  unfold stepKey at h ⊢
  simp only at h ⊢
  simp only [St.shift_tape, St.shift_parent, St.shift_mixed, getElem?_shift, endOf_shift, closeState_shift,
    List.length_map]
  split at h
  · -- `}` / `]`
    next hcl =>
    rw [if_pos hcl]
    split at h
    · next hz =>
      rw [if_pos hz]
      simp only [Step.cont.injEq] at h
      obtain ⟨rfl, rfl⟩ := h
      simp [St.shift]
    · next hz =>
      rw [if_neg hz]
      split at h
      · contradiction
      · next tape' hset =>
        simp only [Step.cont.injEq] at h
        obtain ⟨rfl, rfl⟩ := h
        have := setTok_shift' q.length hset (shift_object _ _ _)
        simp only [List.map_append, List.map_cons, List.map_nil, shift_endTok] at this
        rw [this]
        simp [St.shift]
  · next hcl =>
    rw [if_neg hcl]
    split at h
    · next h123 =>
      rw [if_pos h123]
      split at h
      · contradiction
      · next d2 hws =>
        rw [skipWs_append q hws]
        simp only
        split at h
        · contradiction
        · next c2 rest2 =>
          simp only [List.cons_append]
          split at h
          · next h125 =>
            rw [if_pos h125]
            simp only [Step.cont.injEq] at h
            obtain ⟨rfl, rfl⟩ := h
            rfl
          · next h125 =>
            rw [if_neg h125]
            split at h
            · next hd hlast =>
              simp only [Step.cont.injEq] at h
              obtain ⟨rfl, rfl⟩ := h
              rw [getLast?_shift, hlast]
              simp [St.shift, shift_unquoted, shift_header, shift_array, List.map_dropLast]
            · contradiction
    · next h123 =>
      rw [if_neg h123]
      split at h
      · next h91 =>
        rw [if_pos h91]
        have := paramDef_append (i := false) q h hd
        simpa using this
      · next h91 =>
        rw [if_neg h91]
        split at h
        · next tape' rest' hlex =>
          simp only [Step.cont.injEq] at h
          obtain ⟨rfl, rfl⟩ := h
          have hr : rest' ≠ [] := by intro h0; subst h0; simp at hd
          have := lexValue_append q hlex hr
          simp only [List.cons_append] at this
          rw [this]
          simp [St.shift]
        · cases ‹Fail› <;> simp [Step.fail] at h

theorem stepKvs_append {st st' : St} {c : UInt8} {cs d' : Bytes} (q : Bytes)
    (h : stepKvs st (c :: cs) = .cont st' d') (hd : 2 ≤ d'.length) :
    stepKvs (st.shift q.length) (c :: (cs ++ q)) = .cont (st'.shift q.length) (d' ++ q) := by
  unfold stepKvs at h ⊢
  simp only at h ⊢
  simp only [St.shift_tape, St.shift_mixed]
  have hne : ∀ {r : Bytes}, r = d' → r ≠ [] := by intro r hr h0; subst hr; subst h0; simp at hd
  split at h
  · next r hop =>
    have := lexOperator_append_some q hop (by
      split at h <;> simp only [Step.cont.injEq] at h <;> exact hne h.2)
    simp only [List.cons_append] at this
    rw [this]
    simp only
    split at h
    all_goals
      simp only [Step.cont.injEq] at h
      obtain ⟨rfl, rfl⟩ := h
    · next hm => simp [hm, St.shift, shift_operator]
    · next hm => simp [hm, St.shift]
  · next o r hne' hop =>
    simp only [Step.cont.injEq] at h
    obtain ⟨rfl, rfl⟩ := h
    have := lexOperator_append_some q hop (hne rfl)
    simp only [List.cons_append] at this
    rw [this]
    cases o <;> simp_all [St.shift, shift_operator]
  · next hop =>
    split at h
    · next h123 =>
      simp only [Step.cont.injEq] at h
      obtain ⟨rfl, rfl⟩ := h
      have := lexOperator_append_none q hop hd
      simp only [List.cons_append] at this
      rw [this]
      simp [h123, St.shift]
    · next h123 =>
      split at h
      · contradiction
      · next tape' hins =>
        simp only [Step.cont.injEq] at h
        obtain ⟨rfl, rfl⟩ := h
        have := lexOperator_append_none q hop hd
        simp only [List.cons_append] at this
        rw [this]
        have hi := insertBeforeLast_shift q.length st.tape .mixedContainer
        rw [shift_mixedContainer, hins] at hi
        simp [h123, hi, St.shift]

theorem stepObjectValue_append {st st' : St} {c : UInt8} {cs d' : Bytes} (q : Bytes)
    (h : stepObjectValue st (c :: cs) = .cont st' d') (hd : 2 ≤ d'.length) :
    stepObjectValue (st.shift q.length) (c :: (cs ++ q)) = .cont (st'.shift q.length) (d' ++ q) := by
  unfold stepObjectValue at h ⊢
  simp only at h ⊢
  split at h
  · next h123 =>
    simp only [Step.cont.injEq] at h
    obtain ⟨rfl, rfl⟩ := h
    simp [h123, St.shift, shift_array]
  · next h123 =>
    rw [if_neg h123]
    split at h
    · contradiction
    · next h125 =>
      rw [if_neg h125]
      split at h
      · next tape' rest' hlex =>
        simp only [Step.cont.injEq] at h
        obtain ⟨rfl, rfl⟩ := h
        have hr : rest' ≠ [] := by intro h0; subst h0; simp at hd
        have := lexValue_append q hlex hr
        simp only [List.cons_append] at this
        simp only [St.shift_tape]
        rw [this]
        simp [St.shift]
      · cases ‹Fail› <;> simp [Step.fail] at h

theorem stepArrayOp_append {st st' : St} {d d' : Bytes} {r1 r2 : Res} (q : Bytes)
    (h : stepArrayOp r1 st d = .cont st' d') (hd : 2 ≤ d'.length) :
    stepArrayOp r2 (st.shift q.length) (d ++ q) = .cont (st'.shift q.length) (d' ++ q) := by
  unfold stepArrayOp at h ⊢
  split at h
  · contradiction
  · next tape mixed hpre =>
    have hpre' : arrayOpPre r2 (st.shift q.length) = .ok (tape.map (Tok.shift q.length), mixed) := by
      unfold arrayOpPre at hpre ⊢
      simp only [St.shift_mixed, St.shift_tape]
      split at hpre
      · next hm => simp at hpre; simp [hm, hpre.1.symm, hpre.2.symm]
      · next hm =>
        have hm' : st.mixed = false := by simpa using hm
        simp only [hm', Bool.false_eq_true, if_false]
        split at hpre
        · next sl hsc =>
          have hsc' : ((st.tape.map (Tok.shift q.length)).getLast?.bind Tok.asScalar) = some (sl.shift q.length) := by
            rw [getLast?_shift]
            cases hl : st.tape.getLast? with
            | none => simp [hl] at hsc
            | some t => simp [hl] at hsc ⊢; rw [asScalar_shift, hsc]; rfl
          rw [hsc']
          simp only
          split at hpre
          · next tape1 hins =>
            simp at hpre
            obtain ⟨rfl, rfl⟩ := hpre
            have hi := insertBeforeLast_shift q.length st.tape .mixedContainer
            rw [shift_mixedContainer, hins] at hi
            simp [hi]
          · simp at hpre
        · simp at hpre
    rw [hpre']
    simp only
    split at h
    · next o r hop =>
      simp only [Step.cont.injEq] at h
      obtain ⟨rfl, rfl⟩ := h
      have hr : r ≠ [] := by intro h0; subst h0; simp at hd
      rw [lexOperator_append_some q hop hr]
      simp [St.shift, shift_operator]
    · contradiction

/-- the `mixed` flag edit commutes with shifting. -/
theorem flag_shift (L : Nat) (T : List Tok) (p : Nat) :
    (match T[p]? with
      | some (.array e _) => T.set p (.array e true)
      | some (.object e _) => T.set p (.object e true)
      | _ => T).map (Tok.shift L) =
    (match (T.map (Tok.shift L))[p]? with
      | some (.array e _) => (T.map (Tok.shift L)).set p (.array e true)
      | some (.object e _) => (T.map (Tok.shift L)).set p (.object e true)
      | _ => T.map (Tok.shift L)) := by
  rw [List.getElem?_map]
  cases h : T[p]? with
  | none => simp
  | some t => cases t <;> simp [Tok.shift, List.map_set]

/-- ParseOpen behind a first scalar, in terms of `poAfter`. -/
theorem stepParseOpen_lex {st : St} {c : UInt8} {cs : Bytes} (h125 : c ≠ 125) (h91 : c ≠ 91) (h123 : c ≠ 123) :
    stepParseOpen st (c :: cs) =
      match lexValue st.tape (c :: cs) with
      | .ok (t, r) => poAfter st t r
      | .error f => Step.fail f := by
  simp only [stepParseOpen, h125, h91, h123, if_false]
  cases lexValue st.tape (c :: cs) with
  | error f => rfl
  | ok p => obtain ⟨t, r⟩ := p; rfl

theorem poAfter_append {st st' : St} {tape1 : List Tok} {rest' d' : Bytes} (q : Bytes)
    (h : poAfter st tape1 rest' = .cont st' d') (hd : 2 ≤ d'.length) :
    poAfter (st.shift q.length) (tape1.map (Tok.shift q.length)) (rest' ++ q) =
      .cont (st'.shift q.length) (d' ++ q) := by
  unfold poAfter at h ⊢
  simp only at h ⊢
  have hfl : flagTape (st.shift q.length).mixed (st.shift q.length).parent (tape1.map (Tok.shift q.length)) =
      (flagTape st.mixed st.parent tape1).map (Tok.shift q.length) := by
    show flagTape st.mixed st.parent _ = _
    unfold flagTape
    split
    · exact (flag_shift q.length tape1 st.parent).symm
    · rfl
  rw [hfl]
  generalize flagTape st.mixed st.parent tape1 = tape2 at h ⊢
  cases hws : skipWs rest' with
  | none => simp [hws] at h
  | some d2 =>
    simp only [hws] at h
    rw [skipWs_append q hws]
    simp only [List.length_map]
    have hdd : 2 ≤ d2.length := by
      repeat' (split at h)
      all_goals (first | contradiction | (simp only [Step.cont.injEq] at h; obtain ⟨_, h2⟩ := h; rw [h2]; exact hd))
    rw [firstFieldPeek_append q hdd]
    split at h
    · contradiction
    · next hl2 =>
      rw [if_neg hl2]
      split at h
      · next hpk =>
        rw [if_pos hpk]
        split at h
        · contradiction
        · next tape' hset =>
          simp only [Step.cont.injEq] at h
          obtain ⟨rfl, rfl⟩ := h
          have := setTok_shift' q.length hset (shift_object _ st.parent false)
          simp only [St.shift_parent]
          rw [this]
          simp [St.shift]
      · next hpk =>
        rw [if_neg hpk]
        split at h
        · contradiction
        · next tape' hset =>
          simp only [Step.cont.injEq] at h
          obtain ⟨rfl, rfl⟩ := h
          have := setTok_shift' q.length hset (shift_array _ st.parent false)
          simp only [St.shift_parent]
          rw [this]
          simp [St.shift]

theorem stepParseOpen_append {st st' : St} {c : UInt8} {cs d' : Bytes} (q : Bytes)
    (h : stepParseOpen st (c :: cs) = .cont st' d') (hd : 2 ≤ d'.length) :
    stepParseOpen (st.shift q.length) (c :: (cs ++ q)) = .cont (st'.shift q.length) (d' ++ q) := by
  by_cases h125 : c = 125
  · subst h125
    unfold stepParseOpen at h ⊢
    simp only [if_true, St.shift_tape, St.shift_parent, getElem?_shift, closeState_shift, List.length_map] at h ⊢
    split at h
    · contradiction
    · next hlen =>
      rw [if_neg hlen]
      split at h
      · contradiction
      · next tape' hset =>
        simp only [Step.cont.injEq] at h
        obtain ⟨rfl, rfl⟩ := h
        rw [setTok_shift' q.length hset (shift_array _ _ _)]
        simp [St.shift, shift_endTok]
  · by_cases h91 : c = 91
    · subst h91
      unfold stepParseOpen at h ⊢
      simp only [show (91 : UInt8) ≠ 125 by decide, if_false, if_true] at h ⊢
      cases hmx : st.mixed with
      | true => simp [hmx] at h
      | false =>
        simp only [hmx, Bool.false_eq_true, if_false] at h
        have hmx' : (st.shift q.length).mixed = false := hmx
        simp only [hmx', Bool.false_eq_true, if_false]
        have := paramDef_append (i := true) q h hd
        simpa using this
    · by_cases h123 : c = 123
      · subst h123
        unfold stepParseOpen at h ⊢
        simp only [show (123 : UInt8) ≠ 125 by decide, show (123 : UInt8) ≠ 91 by decide, if_false, if_true,
          St.shift_tape, St.shift_parent, List.length_map] at h ⊢
        split at h
        · contradiction
        · next scratch hws =>
          rw [skipWs_append q hws]
          simp only
          split at h
          · contradiction
          · next c2 rest2 =>
            simp only [List.cons_append]
            split at h
            · next hc2 =>
              rw [if_pos hc2]
              simp only [Step.cont.injEq] at h
              obtain ⟨rfl, rfl⟩ := h
              rfl
            · next hc2 =>
              rw [if_neg hc2]
              split at h
              · contradiction
              · next hlen =>
                rw [if_neg hlen]
                split at h
                · contradiction
                · next tape' hset =>
                  simp only [Step.cont.injEq] at h
                  obtain ⟨rfl, rfl⟩ := h
                  rw [setTok_shift' q.length hset (shift_array _ _ _)]
                  simp [St.shift]
      · rw [stepParseOpen_lex h125 h91 h123] at h ⊢
        cases hlex : lexValue st.tape (c :: cs) with
        | error f => rw [hlex] at h; cases f <;> simp [Step.fail] at h
        | ok p =>
          obtain ⟨tape1, rest'⟩ := p
          rw [hlex] at h
          simp only at h
          have hr : rest' ≠ [] := by
            intro h0; subst h0
            unfold poAfter at h
            simp [skipWs, skipWsAux] at h
          have hlex' := lexValue_append q hlex hr
          simp only [List.cons_append, St.shift_tape] at hlex' ⊢
          rw [hlex']
          exact poAfter_append q h hd

theorem stepArrayValue_append {n1 n2 : Nat} {st st' : St} {c : UInt8} {cs d' : Bytes} (q : Bytes)
    (h : stepArrayValue n1 st (c :: cs) = .cont st' d') (hd : 2 ≤ d'.length) :
    stepArrayValue n2 (st.shift q.length) (c :: (cs ++ q)) = .cont (st'.shift q.length) (d' ++ q) := by
  unfold stepArrayValue at h ⊢
  simp only at h ⊢
  simp only [St.shift_tape, St.shift_parent, St.shift_mixed, getElem?_shift, endOf_shift, closeState_shift,
    List.length_map]
  split at h
  · next h123 =>
    simp only [Step.cont.injEq] at h
    obtain ⟨rfl, rfl⟩ := h
    simp [h123, St.shift, shift_array]
  · next h123 =>
    rw [if_neg h123]
    split at h
    · next h125 =>
      rw [if_pos h125]
      split at h
      · contradiction
      · next hz =>
        rw [if_neg hz]
        split at h
        · contradiction
        · next tape' hset =>
          simp only [Step.cont.injEq] at h
          obtain ⟨rfl, rfl⟩ := h
          cases hp : st.tape[st.parent]? with
          | none =>
            simp only [hp, Option.map_none, Bool.false_eq_true, if_false] at hset ⊢
            rw [setTok_shift' q.length hset (shift_object _ _ _)]
            simp [St.shift, shift_endTok]
          | some t =>
            cases t <;> simp only [hp, Option.map_some, Tok.shift, Bool.false_eq_true, if_false, if_true] at hset ⊢ <;>
              first
              | (rw [setTok_shift' q.length hset (shift_object _ _ _)]; simp [St.shift, shift_endTok])
              | (rw [setTok_shift' q.length hset (shift_array _ _ _)]; simp [St.shift, shift_endTok])
    · next h125 =>
      rw [if_neg h125]
      split at h
      · next hq =>
        rw [if_pos hq]
        split at h
        · next tape' rest' hlex =>
          simp only [Step.cont.injEq] at h
          obtain ⟨rfl, rfl⟩ := h
          have hr : rest' ≠ [] := by intro h0; subst h0; simp at hd
          have := lexValue_append q hlex hr
          simp only [List.cons_append] at this
          rw [this]
          simp [St.shift]
        · cases ‹Fail› <;> simp [Step.fail] at h
      · next hq =>
        rw [if_neg hq]
        split at h
        · next hop =>
          rw [if_pos hop]
          have := stepArrayOp_append (r2 := if 0 < n2 - (c :: (cs ++ q)).length then Res.err Err.syntax else Res.panic) q h hd
          simpa using this
        · next hop =>
          rw [if_neg hop]
          split at h
          · next tape' rest' hlex =>
            simp only [Step.cont.injEq] at h
            obtain ⟨rfl, rfl⟩ := h
            have hr : rest' ≠ [] := by intro h0; subst h0; simp at hd
            have := parseScalarTok_append q hlex hr
            simp only [List.cons_append] at this
            rw [this]
            simp [St.shift]
          · cases ‹Fail› <;> simp [Step.fail] at h

/-- C19, step level: an iteration that stopped at least two bytes before the end of its input does
the same on every extension of the input (positions shifted by the length of the extension). -/
theorem stepAt_append {n1 n2 : Nat} {st st' : St} {c : UInt8} {cs d' : Bytes} (q : Bytes)
    (h : stepAt n1 st (c :: cs) = .cont st' d') (hd : 2 ≤ d'.length) :
    stepAt n2 (st.shift q.length) (c :: (cs ++ q)) = .cont (st'.shift q.length) (d' ++ q) := by
  unfold stepAt at h ⊢
  simp only [St.shift_state]
  cases hs : st.state <;> simp only [hs] at h ⊢
  · exact stepKey_append q h hd
  · exact stepKvs_append q h hd
  · exact stepObjectValue_append q h hd
  · exact stepArrayValue_append q h hd
  · exact stepParseOpen_append q h hd

/-! ### the two runs in lockstep -/

/-- the next iteration ends the run or leaves fewer than two bytes. -/
def Short (n : Nat) (st : St) (d : Bytes) : Prop :=
  ∀ st' d', step n st d = .cont st' d' → d'.length < 2

/-- C19, run level: the parse of a truncated input `dp` and the parse of any extension `dp ++ q`
go through the same iterations (same states, positions shifted by `|q|`) up to the point where
the truncated parse has fewer than two bytes of lookahead left (or ends). -/
theorem run_lockstep (n1 n2 : Nat) (q : Bytes) : ∀ (fuel : Nat) (st : St) (dp : Bytes) (T' : List Tok) (b' : Bool),
    run n1 fuel st dp = .ok T' b' → StInv st →
    ∃ j st0 d0 fuel0, StInv st0 ∧ run n1 fuel0 st0 d0 = .ok T' b' ∧ Short n1 st0 d0 ∧
      ∀ F, run n2 (F + j) (st.shift q.length) (dp ++ q) = run n2 F (st0.shift q.length) (d0 ++ q)
  | 0, _, _, _, _, h, _ => by simp [run] at h
  | fuel + 1, st, dp, T', b', h, hinv => by
    cases hstep : step n1 st dp with
    | done r =>
      refine ⟨0, st, dp, fuel + 1, hinv, h, ?_, fun F => rfl⟩
      intro st' d' hc
      rw [hstep] at hc; cases hc
    | cont st' d' =>
    by_cases hd : d'.length < 2
    · refine ⟨0, st, dp, fuel + 1, hinv, h, ?_, fun F => rfl⟩
      intro st'' d'' hc
      rw [hstep] at hc
      simp only [Step.cont.injEq] at hc
      rw [← hc.2]; exact hd
    · -- the iteration leaves at least two bytes: both runs make it
      have hd2 : 2 ≤ d'.length := by omega
      have hrun : run n1 (fuel + 1) st dp = run n1 fuel st' d' := run_cont hstep
      rw [hrun] at h
      -- the same iteration on the extended input
      have hstep2 : step n2 (st.shift q.length) (dp ++ q) = .cont (st'.shift q.length) (d' ++ q) := by
        simp only [step] at hstep ⊢
        cases hsk : skipWs dp with
        | none => simp [hsk] at hstep
        | some x =>
          simp only [hsk] at hstep
          rw [skipWs_append q hsk]
          obtain ⟨c, cs, rfl, _⟩ := skipWsAux_some dp false x hsk
          simpa using stepAt_append (n2 := n2) q hstep hd2
      have hinv' : StInv st' := by
        simp only [step] at hstep
        cases hsk : skipWs dp with
        | none => simp [hsk] at hstep
        | some x => simp only [hsk] at hstep; exact stepAt_inv hinv hstep
      obtain ⟨j, st0, d0, fuel0, h1, h2, h3, h4⟩ := run_lockstep n1 n2 q fuel st' d' T' b' h hinv'
      refine ⟨j + 1, st0, d0, fuel0, h1, h2, h3, fun F => ?_⟩
      rw [show F + (j + 1) = (F + j) + 1 by omega, run_cont hstep2]
      exact h4 F

end Jomini.TextTape
