import JominiModel.Model.BinLexer
import JominiModel.Spec.BinLexer
/-
Helper lemmas about `Model/BinLexer.lean`: little-endian round trips, the parser-combinator
view of the readers, prefix stability, the codec round trip.
-/
namespace Jomini.BinLexer
open Jomini

/-! ### little endian -/

theorem leBytes_length (n v : Nat) : (leBytes n v).length = n := by
  induction n generalizing v with
  | zero => rfl
  | succ n ih => simp [leBytes, ih]

theorem leNat_leBytes (n v : Nat) : leNat (leBytes n v) = v % 256 ^ n := by
  induction n generalizing v with
  | zero => simp [leBytes, leNat, Nat.mod_one]
  | succ n ih =>
    simp only [leBytes, leNat, ih]
    have h1 : (UInt8.ofNat (v % 256)).toNat = v % 256 := by
      simp [UInt8.toNat_ofNat']
    rw [h1, Nat.pow_succ, Nat.mul_comm (256 ^ n) 256, Nat.mod_mul]

theorem leNat_lt (b : Bytes) : leNat b < 256 ^ b.length := by
  induction b with
  | nil => simp [leNat]
  | cons x xs ih =>
    simp only [leNat, List.length_cons, Nat.pow_succ]
    have := x.toNat_lt
    omega

/-! ### getSplit -/

theorem getSplit_append {n : Nat} {w s h r : Bytes} (hw : getSplit n w = some (h, r)) :
    getSplit n (w ++ s) = some (h, r ++ s) := by
  unfold getSplit at *
  split at hw
  · rename_i hle
    simp only [Option.some.injEq, Prod.mk.injEq] at hw
    have : n ≤ (w ++ s).length := by simp; omega
    simp only [this, if_true, Option.some.injEq, Prod.mk.injEq]
    rw [List.take_append_of_le_length hle, List.drop_append_of_le_length hle, hw.1, hw.2]
    simp
  · simp at hw

theorem getSplit_of_append {n : Nat} (h r : Bytes) (hn : h.length = n) :
    getSplit n (h ++ r) = some (h, r) := by
  unfold getSplit
  have : n ≤ (h ++ r).length := by simp; omega
  simp only [this, if_true, Option.some.injEq, Prod.mk.injEq]
  subst hn
  simp

theorem getSplit_some {n : Nat} {d h r : Bytes} (hd : getSplit n d = some (h, r)) :
    d = h ++ r ∧ h.length = n := by
  unfold getSplit at hd
  split at hd
  · simp only [Option.some.injEq, Prod.mk.injEq] at hd
    rw [← hd.1, ← hd.2]
    simp
    omega
  · simp at hd

theorem getSplit_none {n : Nat} {d : Bytes} : getSplit n d = none ↔ d.length < n := by
  unfold getSplit
  split <;> simp <;> omega

/-! ### the readers as parsers threading the remaining bytes -/

/-- a reader whose verdict, once it is `ok` or `invalidRgb`, is not changed by more input -/
structure Stable {α : Type} (p : P α) : Prop where
  ok : ∀ w s x r, p w = .ok (x, r) → p (w ++ s) = .ok (x, r ++ s)
  rgb : ∀ w s, p w = .error .invalidRgb → p (w ++ s) = .error .invalidRgb

theorem Stable.bind {α β : Type} {p : P α} {k : α → P β} (hp : Stable p) (hk : ∀ x, Stable (k x)) :
    Stable (p.bind k) := by
  constructor
  · intro w s x r h
    unfold P.bind at *
    split at h
    · simp at h
    · rename_i y d hy
      rw [hp.ok w s y d hy]
      exact (hk y).ok d s x r h
  · intro w s h
    unfold P.bind at *
    split at h
    · rename_i e he
      simp only [Except.error.injEq] at h
      subst h
      rw [hp.rgb w s he]
    · rename_i y d hy
      rw [hp.ok w s y d hy]
      exact (hk y).rgb d s h

theorem Stable.map {α β : Type} {p : P α} (f : α → β) (hp : Stable p) : Stable (p.map f) := by
  constructor
  · intro w s x r h
    unfold P.map at *
    split at h
    · simp at h
    · rename_i y d hy
      rw [hp.ok w s y d hy]
      simp only [Except.ok.injEq, Prod.mk.injEq] at h
      simp [h.1, h.2]
  · intro w s h
    unfold P.map at *
    split at h
    · rename_i e he
      simp only [Except.error.injEq] at h
      subst h
      rw [hp.rgb w s he]
    · simp at h

theorem Stable.pure {α : Type} (x : α) : Stable (P.pure x) := by
  constructor
  · intro w s y r h
    simp only [P.pure, Except.ok.injEq, Prod.mk.injEq] at *
    simp [h.1, h.2]
  · intro w s h
    simp [P.pure] at h

theorem Stable.fail {α : Type} (e : LexErr) : Stable (P.fail e : P α) := by
  constructor
  · intro w s y r h
    simp [P.fail] at h
  · intro w s h
    simpa [P.fail] using h

theorem Stable.ite {α : Type} {c : Prop} [Decidable c] {p q : P α} (hp : Stable p) (hq : Stable q) :
    Stable (if c then p else q) := by
  split <;> assumption

/-- readers built on `getSplit` never report `invalidRgb` and are stable -/
theorem stable_split {α : Type} (n : Nat) (f : Bytes → α) :
    Stable (fun d => match getSplit n d with | none => .error .eof | some (h, r) => .ok (f h, r) : P α) := by
  constructor
  · intro w s x r h
    split at h
    · simp at h
    · rename_i hh rr hs
      simp only [getSplit_append hs]
      simp only [Except.ok.injEq, Prod.mk.injEq] at h
      simp [h.1, h.2]
  · intro w s h
    split at h <;> simp at h

theorem readId_stable : Stable readId := stable_split 2 leNat
theorem readU32_stable : Stable readU32 := stable_split 4 leNat
theorem readU64_stable : Stable readU64 := stable_split 8 leNat
theorem readI32_stable : Stable readI32 := stable_split 4 (fun h => toSigned 32 (leNat h))
theorem readI64_stable : Stable readI64 := stable_split 8 (fun h => toSigned 64 (leNat h))
theorem readF32_stable : Stable readF32 := stable_split 4 id
theorem readF64_stable : Stable readF64 := stable_split 8 id

theorem readBool_stable : Stable readBool := by
  constructor
  · intro w s x r h
    cases w with
    | nil => simp [readBool] at h
    | cons a t =>
      simp only [readBool, Except.ok.injEq, Prod.mk.injEq] at h
      simp [readBool, h.1, h.2]
  · intro w s h
    cases w <;> simp [readBool] at h

theorem readString_stable : Stable readString := by
  constructor
  · intro w s x r h
    unfold readString at *
    split at h
    · simp at h
    · rename_i hh rr hs
      simp only [getSplit_append hs]
      simp only at h
      split at h
      · rename_i hle
        simp only [Except.ok.injEq, Prod.mk.injEq] at h
        have : leNat hh ≤ (rr ++ s).length := by simp; omega
        simp only [this, if_true, Except.ok.injEq, Prod.mk.injEq]
        rw [List.take_append_of_le_length hle, List.drop_append_of_le_length hle, h.1, h.2]
        simp
      · simp at h
  · intro w s h
    unfold readString at h
    split at h
    · simp at h
    · simp only at h
      split at h <;> simp at h

theorem readRgb_stable : Stable readRgb := by
  unfold readRgb
  refine readId_stable.bind fun _ => readId_stable.bind fun _ => readU32_stable.bind fun _ =>
    readId_stable.bind fun _ => readU32_stable.bind fun _ => readId_stable.bind fun _ =>
    readU32_stable.bind fun _ => readId_stable.bind fun _ => ?_
  refine Stable.ite (Stable.pure _) (Stable.ite ?_ (Stable.fail _))
  exact readU32_stable.bind fun _ => readId_stable.bind fun _ => Stable.ite (Stable.pure _) (Stable.fail _)

theorem readToken_stable : Stable readToken := by
  unfold readToken
  refine readId_stable.bind fun _ => ?_
  repeat' (first | apply Stable.ite | apply Stable.pure | apply Stable.map)
  all_goals first
    | exact readU32_stable | exact readU64_stable | exact readI32_stable | exact readI64_stable
    | exact readBool_stable | exact readString_stable | exact readF32_stable | exact readF64_stable
    | exact readRgb_stable

/-! ### readers return a suffix of their input -/

/-- `p` returns a suffix of its input and consumes at least `m` bytes -/
def Consumes {α : Type} (p : P α) (m : Nat) : Prop :=
  ∀ d x r, p d = .ok (x, r) → ∃ pre, d = pre ++ r ∧ m ≤ pre.length

theorem Consumes.weaken {α : Type} {p : P α} {m m' : Nat} (h : Consumes p m) (hm : m' ≤ m) :
    Consumes p m' := by
  intro d x r hd
  obtain ⟨pre, h1, h2⟩ := h d x r hd
  exact ⟨pre, h1, by omega⟩

theorem Consumes.bind {α β : Type} {p : P α} {k : α → P β} {m n : Nat} (hp : Consumes p m)
    (hk : ∀ x, Consumes (k x) n) : Consumes (P.bind p k) (m + n) := by
  intro d x r h
  unfold P.bind at h
  split at h
  · simp at h
  · rename_i y d1 hy
    obtain ⟨pre1, h1, h2⟩ := hp d y d1 hy
    obtain ⟨pre2, h3, h4⟩ := hk y d1 x r h
    exact ⟨pre1 ++ pre2, by rw [h1, h3, List.append_assoc], by simp; omega⟩

theorem Consumes.map {α β : Type} {p : P α} (f : α → β) {m : Nat} (hp : Consumes p m) :
    Consumes (P.map f p) m := by
  intro d x r h
  unfold P.map at h
  split at h
  · simp at h
  · rename_i y d1 hy
    simp only [Except.ok.injEq, Prod.mk.injEq] at h
    obtain ⟨pre, h1, h2⟩ := hp d y d1 hy
    exact ⟨pre, by rw [h1, h.2], h2⟩

theorem Consumes.pure {α : Type} (x : α) : Consumes (P.pure x) 0 := by
  intro d y r h
  simp only [P.pure, Except.ok.injEq, Prod.mk.injEq] at h
  exact ⟨[], by simp [h.2], Nat.zero_le _⟩

theorem Consumes.fail {α : Type} (e : LexErr) (m : Nat) : Consumes (P.fail e : P α) m := by
  intro d y r h
  simp [P.fail] at h

theorem Consumes.ite {α : Type} {c : Prop} [Decidable c] {p q : P α} {m : Nat} (hp : Consumes p m)
    (hq : Consumes q m) : Consumes (if c then p else q) m := by
  split <;> assumption

theorem consumes_split {α : Type} (n : Nat) (f : Bytes → α) :
    Consumes (fun d => match getSplit n d with | none => .error .eof | some (h, r) => .ok (f h, r) : P α) n := by
  intro d x r h
  dsimp only at h
  split at h
  · simp at h
  · rename_i hh rr hs
    simp only [Except.ok.injEq, Prod.mk.injEq] at h
    obtain ⟨h1, h2⟩ := getSplit_some hs
    exact ⟨hh, by rw [h1, h.2], by omega⟩

theorem readId_consumes : Consumes readId 2 := consumes_split 2 leNat
theorem readU32_consumes : Consumes readU32 4 := consumes_split 4 leNat
theorem readU64_consumes : Consumes readU64 8 := consumes_split 8 leNat
theorem readI32_consumes : Consumes readI32 4 := consumes_split 4 (fun h => toSigned 32 (leNat h))
theorem readI64_consumes : Consumes readI64 8 := consumes_split 8 (fun h => toSigned 64 (leNat h))
theorem readF32_consumes : Consumes readF32 4 := consumes_split 4 id
theorem readF64_consumes : Consumes readF64 8 := consumes_split 8 id

theorem readBool_consumes : Consumes readBool 1 := by
  intro d x r h
  cases d with
  | nil => simp [readBool] at h
  | cons a t =>
    simp only [readBool, Except.ok.injEq, Prod.mk.injEq] at h
    exact ⟨[a], by simp [h.2], by simp⟩

theorem readString_consumes : Consumes readString 2 := by
  intro d x r h
  unfold readString at h
  split at h
  · simp at h
  · rename_i hh rr hs
    simp only at h
    split at h
    · simp only [Except.ok.injEq, Prod.mk.injEq] at h
      obtain ⟨h1, h2⟩ := getSplit_some hs
      refine ⟨hh ++ rr.take (leNat hh), ?_, by simp; omega⟩
      rw [h1, ← h.2, List.append_assoc, List.take_append_drop]
    · simp at h

theorem Consumes.bind0 {α β : Type} {p : P α} {k : α → P β} {m : Nat} (hp : Consumes p m)
    (hk : ∀ x, Consumes (k x) 0) : Consumes (P.bind p k) 0 :=
  (hp.bind hk).weaken (Nat.zero_le _)

theorem readRgb_consumes : Consumes readRgb 0 := by
  unfold readRgb
  refine readId_consumes.bind0 fun _ => readId_consumes.bind0 fun _ => readU32_consumes.bind0 fun _ =>
    readId_consumes.bind0 fun _ => readU32_consumes.bind0 fun _ => readId_consumes.bind0 fun _ =>
    readU32_consumes.bind0 fun _ => readId_consumes.bind0 fun _ => ?_
  refine Consumes.ite (Consumes.pure _) (Consumes.ite ?_ (Consumes.fail _ _))
  exact readU32_consumes.bind0 fun _ => readId_consumes.bind0 fun _ =>
    Consumes.ite (Consumes.pure _) (Consumes.fail _ _)

theorem readToken_consumes : Consumes readToken 2 := by
  unfold readToken
  have h0 : ∀ {α : Type} {p : P α} {m : Nat}, Consumes p m → Consumes p 0 := fun h => h.weaken (Nat.zero_le _)
  refine readId_consumes.bind (n := 0) fun _ => ?_
  repeat' (first | apply Consumes.ite | apply Consumes.pure | apply Consumes.map)
  all_goals first
    | exact h0 readU32_consumes | exact h0 readU64_consumes | exact h0 readI32_consumes
    | exact h0 readI64_consumes | exact h0 readBool_consumes | exact h0 readString_consumes
    | exact h0 readF32_consumes | exact h0 readF64_consumes | exact readRgb_consumes

/-- the only verdict more input can change is `Eof`; so `Eof` on a window means `Eof` on
every prefix of the window -/
theorem readToken_eof_prefix (w s : Bytes) (h : readToken (w ++ s) = .error .eof) :
    readToken w = .error .eof := by
  cases hw : readToken w with
  | ok v =>
    obtain ⟨t, r⟩ := v
    rw [readToken_stable.ok w s t r hw] at h
    simp at h
  | error e =>
    cases e with
    | eof => rfl
    | invalidRgb =>
      rw [readToken_stable.rgb w s hw] at h
      simp at h

/-! ### readers only look at the bytes they consume -/

/-- `p` returns a suffix of its input and its verdict depends only on the consumed bytes -/
def Local {α : Type} (p : P α) : Prop :=
  ∀ d x r, p d = .ok (x, r) → ∃ pre, d = pre ++ r ∧ ∀ s, p (pre ++ s) = .ok (x, s)

theorem Local.bind {α β : Type} {p : P α} {k : α → P β} (hp : Local p) (hk : ∀ x, Local (k x)) :
    Local (P.bind p k) := by
  intro d x r h
  unfold P.bind at h
  split at h
  · simp at h
  · rename_i y d1 hy
    obtain ⟨pre1, h1, h2⟩ := hp d y d1 hy
    obtain ⟨pre2, h3, h4⟩ := hk y d1 x r h
    refine ⟨pre1 ++ pre2, by rw [h1, h3, List.append_assoc], fun s => ?_⟩
    simp only [P.bind, List.append_assoc, h2 (pre2 ++ s), h4 s]

theorem Local.map {α β : Type} {p : P α} (f : α → β) (hp : Local p) : Local (P.map f p) := by
  intro d x r h
  unfold P.map at h
  split at h
  · simp at h
  · rename_i y d1 hy
    simp only [Except.ok.injEq, Prod.mk.injEq] at h
    obtain ⟨pre, h1, h2⟩ := hp d y d1 hy
    refine ⟨pre, by rw [h1, h.2], fun s => ?_⟩
    simp only [P.map, h2 s, h.1]

theorem Local.pure {α : Type} (x : α) : Local (P.pure x) := by
  intro d y r h
  simp only [P.pure, Except.ok.injEq, Prod.mk.injEq] at h
  exact ⟨[], by simp [h.2], fun s => by simp [P.pure, h.1]⟩

theorem Local.fail {α : Type} (e : LexErr) : Local (P.fail e : P α) := by
  intro d y r h
  simp [P.fail] at h

theorem Local.ite {α : Type} {c : Prop} [Decidable c] {p q : P α} (hp : Local p) (hq : Local q) :
    Local (if c then p else q) := by
  split <;> assumption

theorem local_split {α : Type} (n : Nat) (f : Bytes → α) :
    Local (fun d => match getSplit n d with | none => .error .eof | some (h, r) => .ok (f h, r) : P α) := by
  intro d x r h
  dsimp only at h
  split at h
  · simp at h
  · rename_i hh rr hs
    simp only [Except.ok.injEq, Prod.mk.injEq] at h
    obtain ⟨h1, h2⟩ := getSplit_some hs
    refine ⟨hh, by rw [h1, h.2], fun s => ?_⟩
    simp only [getSplit_of_append hh s h2, h.1]

theorem readId_local : Local readId := local_split 2 leNat
theorem readU32_local : Local readU32 := local_split 4 leNat
theorem readU64_local : Local readU64 := local_split 8 leNat
theorem readI32_local : Local readI32 := local_split 4 (fun h => toSigned 32 (leNat h))
theorem readI64_local : Local readI64 := local_split 8 (fun h => toSigned 64 (leNat h))
theorem readF32_local : Local readF32 := local_split 4 id
theorem readF64_local : Local readF64 := local_split 8 id

theorem readBool_local : Local readBool := by
  intro d x r h
  cases d with
  | nil => simp [readBool] at h
  | cons a t =>
    simp only [readBool, Except.ok.injEq, Prod.mk.injEq] at h
    exact ⟨[a], by simp [h.2], fun s => by simp [readBool, h.1]⟩

theorem readString_local : Local readString := by
  intro d x r h
  unfold readString at h
  split at h
  · simp at h
  · rename_i hh rr hs
    simp only at h
    split at h
    · rename_i hle
      simp only [Except.ok.injEq, Prod.mk.injEq] at h
      obtain ⟨h1, h2⟩ := getSplit_some hs
      refine ⟨hh ++ rr.take (leNat hh), ?_, fun s => ?_⟩
      · rw [h1, ← h.2, List.append_assoc, List.take_append_drop]
      · have hl : (rr.take (leNat hh)).length = leNat hh := by rw [List.length_take]; omega
        simp only [readString, List.append_assoc, getSplit_of_append hh _ h2]
        have : leNat hh ≤ (List.take (leNat hh) rr ++ s).length := by simp; omega
        simp only [this, if_true, Except.ok.injEq, Prod.mk.injEq]
        constructor
        · rw [List.take_left' hl]; exact h.1
        · rw [List.drop_left' hl]
    · simp at h

theorem readRgb_local : Local readRgb := by
  unfold readRgb
  refine readId_local.bind fun _ => readId_local.bind fun _ => readU32_local.bind fun _ =>
    readId_local.bind fun _ => readU32_local.bind fun _ => readId_local.bind fun _ =>
    readU32_local.bind fun _ => readId_local.bind fun _ => ?_
  refine Local.ite (Local.pure _) (Local.ite ?_ (Local.fail _))
  exact readU32_local.bind fun _ => readId_local.bind fun _ => Local.ite (Local.pure _) (Local.fail _)

theorem readToken_local : Local readToken := by
  unfold readToken
  refine readId_local.bind fun _ => ?_
  repeat' (first | apply Local.ite | apply Local.pure | apply Local.map)
  all_goals first
    | exact readU32_local | exact readU64_local | exact readI32_local | exact readI64_local
    | exact readBool_local | exact readString_local | exact readF32_local | exact readF64_local
    | exact readRgb_local

/-! ### the `Lexer` object against the bare byte-list run -/

theorem Lexer.runLoop_eq (fuel : Nat) (l : Lexer) :
    Lexer.runLoop fuel l = ((lexLoop fuel l.data).1, (lexLoop fuel l.data).2.1,
      l.originalLength - (lexLoop fuel l.data).2.2.length) := by
  induction fuel generalizing l with
  | zero => simp [Lexer.runLoop, lexLoop, Lexer.position]
  | succ fuel ih =>
    unfold Lexer.runLoop lexLoop
    simp only [Lexer.nextToken, Lexer.liftNext]
    cases hrt : BinLexer.readToken l.data with
    | ok v =>
      obtain ⟨t, r⟩ := v
      simp only
      rw [ih]
    | error e =>
      cases e with
      | eof =>
        simp only [Lexer.remainder]
        by_cases hd : l.data.isEmpty = true
        · simp [hd, Lexer.position]
        · simp [hd, Lexer.position, Lexer.errPosition]
      | invalidRgb => simp [Lexer.position, Lexer.errPosition]

/-- `next_token` until `None` / error is `lexAll`, and the final `position()` is the number of
bytes `lexAll` consumed -/
theorem Lexer.run_eq (d : Bytes) :
    Lexer.run d = ((lexAll d).1, (lexAll d).2.1, d.length - (lexAll d).2.2.length) := by
  unfold Lexer.run lexAll
  rw [Lexer.runLoop_eq]
  rfl

/-- `peek_token` is `read_token` without the state change -/
theorem Lexer.peekToken_eq (l : Lexer) (t : Token) :
    l.peekToken = some t ↔ ∃ r, BinLexer.readToken l.data = .ok (t, r) := by
  unfold Lexer.peekToken
  cases h : BinLexer.readToken l.data with
  | ok v => obtain ⟨t', r⟩ := v; simp
  | error e => simp

/-! ### codec: reading what `Token::write` wrote -/

theorem readId_le (x : Nat) (rest : Bytes) (hx : x < 65536) :
    readId (leBytes 2 x ++ rest) = .ok (x, rest) := by
  simp only [readId, getSplit_of_append _ _ (leBytes_length 2 x), leNat_leBytes]
  rw [Nat.mod_eq_of_lt (by simpa using hx)]

theorem readU32_le (x : Nat) (rest : Bytes) (hx : x < 2 ^ 32) :
    readU32 (leBytes 4 x ++ rest) = .ok (x, rest) := by
  simp only [readU32, getSplit_of_append _ _ (leBytes_length 4 x), leNat_leBytes]
  rw [Nat.mod_eq_of_lt (by simpa using hx)]

theorem readU64_le (x : Nat) (rest : Bytes) (hx : x < 2 ^ 64) :
    readU64 (leBytes 8 x ++ rest) = .ok (x, rest) := by
  simp only [readU64, getSplit_of_append _ _ (leBytes_length 8 x), leNat_leBytes]
  rw [Nat.mod_eq_of_lt (by simpa using hx)]

theorem signed32 (v : Int) (h1 : -(2 ^ 31 : Int) ≤ v) (h2 : v < (2 ^ 31 : Int)) :
    toSigned 32 (ofSigned 32 v % 256 ^ 4) = v := by
  unfold toSigned
  by_cases hv : v < 0
  · rw [if_neg]
    all_goals simp only [ofSigned, Nat.reducePow, Nat.reduceSub, Int.reducePow] at *
    all_goals omega
  · rw [if_pos]
    all_goals simp only [ofSigned, Nat.reducePow, Nat.reduceSub, Int.reducePow] at *
    all_goals omega

theorem signed64 (v : Int) (h1 : -(2 ^ 63 : Int) ≤ v) (h2 : v < (2 ^ 63 : Int)) :
    toSigned 64 (ofSigned 64 v % 256 ^ 8) = v := by
  unfold toSigned
  by_cases hv : v < 0
  · rw [if_neg]
    all_goals simp only [ofSigned, Nat.reducePow, Nat.reduceSub, Int.reducePow] at *
    all_goals omega
  · rw [if_pos]
    all_goals simp only [ofSigned, Nat.reducePow, Nat.reduceSub, Int.reducePow] at *
    all_goals omega

theorem readI32_le (v : Int) (rest : Bytes) (h1 : -(2 ^ 31 : Int) ≤ v) (h2 : v < (2 ^ 31 : Int)) :
    readI32 (leBytes 4 (ofSigned 32 v) ++ rest) = .ok (v, rest) := by
  simp only [readI32, getSplit_of_append _ _ (leBytes_length 4 _), leNat_leBytes, signed32 v h1 h2]

theorem readI64_le (v : Int) (rest : Bytes) (h1 : -(2 ^ 63 : Int) ≤ v) (h2 : v < (2 ^ 63 : Int)) :
    readI64 (leBytes 8 (ofSigned 64 v) ++ rest) = .ok (v, rest) := by
  simp only [readI64, getSplit_of_append _ _ (leBytes_length 8 _), leNat_leBytes, signed64 v h1 h2]

theorem readF32_app (b rest : Bytes) (hb : b.length = 4) : readF32 (b ++ rest) = .ok (b, rest) := by
  simp only [readF32, getSplit_of_append _ _ hb]

theorem readF64_app (b rest : Bytes) (hb : b.length = 8) : readF64 (b ++ rest) = .ok (b, rest) := by
  simp only [readF64, getSplit_of_append _ _ hb]

theorem readString_le (x rest : Bytes) (hx : x.length ≤ 65535) :
    readString (leBytes 2 x.length ++ (x ++ rest)) = .ok (x, rest) := by
  simp only [readString, getSplit_of_append _ _ (leBytes_length 2 _), leNat_leBytes]
  have : x.length % 256 ^ 2 = x.length := Nat.mod_eq_of_lt (by simp; omega)
  simp [this]

theorem readBool_app (x : Bool) (rest : Bytes) :
    readBool ((if x then (1 : UInt8) else 0) :: rest) = .ok (x, rest) := by
  cases x <;> simp [readBool]

theorem readU32w (x : Nat) (rest : Bytes) (hx : x < 2 ^ 32) :
    P.bind readId (fun id => P.bind readU32 (fun v => P.pure (id, v))) (writeU32 x ++ rest) = .ok ((U32, x), rest) := by
  simp only [writeU32, List.append_assoc, P.bind, readId_le U32 _ (by decide), readU32_le x rest hx, P.pure]

/-- `C08_codec`, single token -/
theorem readToken_write (t : Token) (rest : Bytes) (ht : WfTok t) :
    readToken (t.write ++ rest) = .ok (t, rest) := by
  cases t with
  | id x =>
    simp only [WfTok] at ht
    have h := ht.2
    simp only [isId, OPEN, CLOSE, EQUAL, U32, U64, I32, BOOL, QUOTED, UNQUOTED, F32, F64, RGB, I64,
      Bool.not_eq_true', Bool.or_eq_false_iff, beq_eq_false_iff_ne, ne_eq] at h
    simp [Token.write, readToken, P.bind, P.pure, P.map, readId_le x _ ht.1, h,
      CLOSE, OPEN, EQUAL, U32, U64, I32, BOOL, QUOTED, UNQUOTED, F32, F64, RGB, I64]
  | rgb c =>
    obtain ⟨r, g, b, a⟩ := c
    simp only [WfTok] at ht
    obtain ⟨hr, hg, hb, ha⟩ := ht
    cases a with
    | none =>
      simp [Token.write, writeU32, readToken, readRgb, P.bind, P.pure, P.map, P.fail,
        readId_le, readU32_le r _ hr, readU32_le g _ hg, readU32_le b _ hb,
        CLOSE, OPEN, EQUAL, U32, U64, I32, BOOL, QUOTED, UNQUOTED, F32, F64, RGB]
    | some a =>
      simp only at ha
      simp [Token.write, writeU32, readToken, readRgb, P.bind, P.pure, P.map, P.fail,
        readId_le, readU32_le r _ hr, readU32_le g _ hg, readU32_le b _ hb, readU32_le a _ ha,
        CLOSE, OPEN, EQUAL, U32, U64, I32, BOOL, QUOTED, UNQUOTED, F32, F64, RGB]
  | u32 v =>
    simp only [WfTok] at ht
    simp [Token.write, writeU32, readToken, P.bind, P.pure, P.map, readId_le,
      readU32_le v rest ht, CLOSE, OPEN, EQUAL, U32]
  | u64 v =>
    simp only [WfTok] at ht
    simp [Token.write, readToken, P.bind, P.pure, P.map, readId_le,
      readU64_le v rest ht, CLOSE, OPEN, EQUAL, U32, U64]
  | i32 v =>
    simp only [WfTok] at ht
    simp [Token.write, readToken, P.bind, P.pure, P.map, readId_le,
      readI32_le v rest ht.1 ht.2, CLOSE, OPEN, EQUAL, U32, U64, I32]
  | i64 v =>
    simp only [WfTok] at ht
    simp [Token.write, readToken, P.bind, P.pure, P.map, readId_le,
      readI64_le v rest ht.1 ht.2, CLOSE, OPEN, EQUAL, U32, U64, I32, BOOL, QUOTED, UNQUOTED, F32, F64,
      RGB, I64]
  | quoted x =>
    simp only [WfTok] at ht
    simp [Token.write, readToken, P.bind, P.pure, P.map, readId_le,
      readString_le x rest ht, CLOSE, OPEN, EQUAL, U32, U64, I32, BOOL, QUOTED]
  | unquoted x =>
    simp only [WfTok] at ht
    simp [Token.write, readToken, P.bind, P.pure, P.map, readId_le,
      readString_le x rest ht, CLOSE, OPEN, EQUAL, U32, U64, I32, BOOL, QUOTED, UNQUOTED]
  | f32 b =>
    simp only [WfTok] at ht
    simp [Token.write, readToken, P.bind, P.pure, P.map, readId_le,
      readF32_app b rest ht, CLOSE, OPEN, EQUAL, U32, U64, I32, BOOL, QUOTED, UNQUOTED, F32]
  | f64 b =>
    simp only [WfTok] at ht
    simp [Token.write, readToken, P.bind, P.pure, P.map, readId_le,
      readF64_app b rest ht, CLOSE, OPEN, EQUAL, U32, U64, I32, BOOL, QUOTED, UNQUOTED, F32, F64]
  | _ =>
    simp [Token.write, readToken, P.bind, P.pure, P.map, readId_le, readBool_app,
      CLOSE, OPEN, EQUAL, U32, U64, I32, BOOL]

theorem write_length_ge (t : Token) : 2 ≤ t.write.length := by
  cases t <;> simp [Token.write, writeU32, leBytes_length] <;> omega

theorem flatMap_write_length (toks : List Token) : 2 * toks.length ≤ (toks.flatMap Token.write).length := by
  induction toks with
  | nil => simp
  | cons t ts ih =>
    have := write_length_ge t
    simp only [List.flatMap_cons, List.length_append, List.length_cons]
    omega

theorem readToken_nil : readToken [] = .error .eof := by
  simp [readToken, P.bind, readId, getSplit]

theorem lexLoop_write (toks : List Token) (hwf : ∀ t ∈ toks, WfTok t) (fuel : Nat)
    (hf : toks.length < fuel) :
    lexLoop fuel (toks.flatMap Token.write) = (toks, .done, []) := by
  induction toks generalizing fuel with
  | nil =>
    cases fuel with
    | zero => omega
    | succ f => simp [lexLoop, readToken_nil]
  | cons t ts ih =>
    cases fuel with
    | zero => omega
    | succ f =>
      have h1 := readToken_write t (ts.flatMap Token.write) (hwf t (by simp))
      simp only [List.flatMap_cons, lexLoop, h1]
      rw [ih (fun t ht => hwf t (by simp [ht])) f (by simp at hf; omega)]

/-- `C08_codec`, whole sequences: lexing the encoding of a well-formed token sequence returns
the sequence, ends cleanly and leaves no byte unread. -/
theorem lexAll_write (toks : List Token) (hwf : ∀ t ∈ toks, WfTok t) :
    lexAll (toks.flatMap Token.write) = (toks, .done, []) := by
  unfold lexAll
  apply lexLoop_write toks hwf
  have := flatMap_write_length toks
  omega

end Jomini.BinLexer
